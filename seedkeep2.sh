#!/bin/bash
# seedkeep2.sh <seed-id> <worktree> <n> <package dir> : confirm seeded change n (patch<n>.diff / demo<n>_test.go in <worktree>/SEEDED)
# -- the demo passes on HEAD, fails with the change, the package's own tests pass with the change -- and store it under /verif/seeded/<seed-id>/
set -e
ID=$1; WT=$2; N=$3; PKG=$4
export GOFLAGS=-mod=mod GOPROXY=off GOSUMDB=off GOTOOLCHAIN=local
cd $WT
git checkout -q -- .
cp SEEDED/demo${N}_test.go $PKG/zz_seed_demo_test.go
echo "== original:"; go test -count=1 -run "TestSeedDemo$N\$" ./$PKG 2>&1 | tail -2
git apply SEEDED/patch$N.diff
echo "== with change:"; go test -count=1 -run "TestSeedDemo$N\$" ./$PKG 2>&1 | tail -2
rm -f $PKG/zz_seed_demo_test.go
echo "== existing tests of the package with the change:"; go test -count=1 ./$PKG 2>&1 | tail -2
go build ./pkg/... ./api/... . && echo build-ok
git checkout -q -- .
mkdir -p /verif/seeded/$ID
cp SEEDED/patch$N.diff /verif/seeded/$ID/patch.diff
cp SEEDED/demo${N}_test.go /verif/seeded/$ID/demo_test.go
cp SEEDED/notes.md /verif/seeded/$ID/README.md
