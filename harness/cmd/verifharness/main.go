package main

import (
	"encoding/json"
	"flag"
	"fmt"
	"os"

	"k8s.io/klog/v2"

	"verifharness/engines"
)

func main() {
	if len(os.Args) < 2 {
		fmt.Println("usage: verifharness <engine> [flags]; engines:", engines.Names())
		os.Exit(2)
	}
	name := os.Args[1]
	fs := flag.NewFlagSet(name, flag.ExitOnError)
	seed := fs.Int64("seed", 1, "PRNG seed")
	n := fs.Int("n", 100, "number of generated cases")
	tier := fs.String("tier", "quick", "tier / generator mode")
	out := fs.String("out", "", "output directory")
	shard := fs.Int("shard", 400, "cases per Coq shard")
	inputs := fs.String("inputs", "", "JSON file with a list of inputs to run first (corpus / replay)")
	_ = fs.Parse(os.Args[2:])

	// silence klog
	kfs := flag.NewFlagSet("klog", flag.ContinueOnError)
	klog.InitFlags(kfs)
	_ = kfs.Set("logtostderr", "false")
	_ = kfs.Set("alsologtostderr", "false")
	_ = kfs.Set("stderrthreshold", "FATAL")
	klog.SetOutput(devNull{})
	klog.LogToStderr(false)

	e := engines.Get(name)
	if e == nil {
		fmt.Println("unknown engine", name, "; engines:", engines.Names())
		os.Exit(2)
	}
	var ins []json.RawMessage
	if *inputs != "" {
		raw, err := os.ReadFile(*inputs)
		if err != nil {
			fmt.Println("ERROR", err)
			os.Exit(3)
		}
		if err := json.Unmarshal(raw, &ins); err != nil {
			fmt.Println("ERROR", err)
			os.Exit(3)
		}
	}
	if err := engines.RunEngine(e, *seed, *n, *tier, *out, *shard, ins); err != nil {
		fmt.Println("ERROR", err)
		os.Exit(3)
	}
}

type devNull struct{}

func (devNull) Write(p []byte) (int, error) { return len(p), nil }
