package main

import (
	"encoding/json"
	"flag"
	"fmt"
	"os"
	"path/filepath"

	"k8s.io/klog/v2"

	"verifharness/engines"
	"verifharness/translate"
)

func main() {
	if len(os.Args) < 2 {
		fmt.Println("usage: verifharness <engine> [flags]; engines:", engines.Names())
		os.Exit(2)
	}
	name := os.Args[1]
	if name == "translate" {
		tfs := flag.NewFlagSet("translate", flag.ExitOnError)
		repo := tfs.String("repo", "/repo", "source tree")
		out := tfs.String("out", "", "directory for the generated .v files")
		_ = tfs.Parse(os.Args[2:])
		func() {
			defer func() {
				if p := recover(); p != nil {
					if r, ok := p.(translate.Refusal); ok {
						fmt.Println("TRANSLATOR REFUSES:", string(r))
						os.Exit(2)
					}
					panic(p)
				}
			}()
			text := translate.TaskTables(*repo)
			if err := os.WriteFile(filepath.Join(*out, "TaskTables.v"), []byte(text), 0o644); err != nil {
				fmt.Println("ERROR", err)
				os.Exit(3)
			}
			fmt.Println("generated", filepath.Join(*out, "TaskTables.v"))
		}()
		return
	}
	fs := flag.NewFlagSet(name, flag.ExitOnError)
	seed := fs.Int64("seed", 1, "PRNG seed")
	n := fs.Int("n", 100, "number of generated cases")
	tier := fs.String("tier", "quick", "tier / generator mode")
	out := fs.String("out", "", "output directory")
	shard := fs.Int("shard", 400, "cases per Coq shard")
	inputs := fs.String("inputs", "", "JSON file with a list of inputs to run first (corpus / replay)")
	_ = fs.Parse(os.Args[2:])

	// silence klog
	kfs := flag.NewFlagSet("klog", flag.ContinueOnError)
	klog.InitFlags(kfs)
	_ = kfs.Set("logtostderr", "false")
	_ = kfs.Set("alsologtostderr", "false")
	_ = kfs.Set("stderrthreshold", "FATAL")
	klog.SetOutput(devNull{})
	klog.LogToStderr(false)

	e := engines.Get(name)
	if e == nil {
		fmt.Println("unknown engine", name, "; engines:", engines.Names())
		os.Exit(2)
	}
	var ins []json.RawMessage
	if *inputs != "" {
		raw, err := os.ReadFile(*inputs)
		if err != nil {
			fmt.Println("ERROR", err)
			os.Exit(3)
		}
		if err := json.Unmarshal(raw, &ins); err != nil {
			fmt.Println("ERROR", err)
			os.Exit(3)
		}
	}
	if err := engines.RunEngine(e, *seed, *n, *tier, *out, *shard, ins); err != nil {
		fmt.Println("ERROR", err)
		os.Exit(3)
	}
}

type devNull struct{}

func (devNull) Write(p []byte) (int, error) { return len(p), nil }
