package engines

// bgfinal: repeated Finalize attempts of the blue-green Deployment control plane (C11: "Completed only after ... every
// pod is updated and ready, on every attempt including retries").  Each attempt builds a fresh control plane on the
// current API state, exactly as one BatchRelease reconcile in phase Finalizing does; between attempts the harness moves
// the Deployment's status to the next generated one.

import (
	"context"
	"encoding/json"
	"fmt"
	"math/rand"

	apps "k8s.io/api/apps/v1"
	metav1 "k8s.io/apimachinery/pkg/apis/meta/v1"
	"k8s.io/apimachinery/pkg/types"
	"k8s.io/apimachinery/pkg/util/intstr"
	"k8s.io/client-go/tools/record"
	"sigs.k8s.io/controller-runtime/pkg/client/fake"

	"github.com/openkruise/rollouts/api/v1beta1"
	"github.com/openkruise/rollouts/pkg/controller/batchrelease/control"
	"github.com/openkruise/rollouts/pkg/controller/batchrelease/control/bluegreenstyle"
	bgdeployment "github.com/openkruise/rollouts/pkg/controller/batchrelease/control/bluegreenstyle/deployment"
	"github.com/openkruise/rollouts/pkg/util"
	utilerrors "github.com/openkruise/rollouts/pkg/util/errors"

	"verifharness/emit"
)

type BGStatus struct {
	Replicas  int `json:"replicas"`
	Updated   int `json:"updated"`
	Ready     int `json:"ready"`
	Available int `json:"available"`
}

type BGFInput struct {
	N           int        `json:"n"`            // spec.replicas
	Restored    bool       `json:"restored"`     // the original-strategy annotation is already gone (an earlier attempt patched)
	Paused      bool       `json:"paused"`       // spec.paused as stored
	MaxSurge    int        `json:"max_surge"`    // the user's setting (in the annotation, or already back in the spec)
	MaxUnavail  int        `json:"max_unavail"`
	Partitioned bool       `json:"partitioned"`  // batchPartition still set: "continuous release not supported", Finalize is a no-op
	Statuses    []BGStatus `json:"statuses"`     // Deployment status seen by attempt 1, 2, ...
}

type BGAttempt struct {
	Err      string `json:"err,omitempty"`
	Retry    bool   `json:"retry"` // the error is a RetryError
	Panic    string `json:"panic,omitempty"`
	Paused   bool   `json:"paused"`   // spec.paused after the attempt
	Restored bool   `json:"restored"` // annotation gone after the attempt
	Released bool   `json:"released"` // control-info annotation gone after the attempt
}

type BGFObs struct {
	Attempts []BGAttempt `json:"attempts"`
}

type bgfinalEngine struct{}

func init() { Register(bgfinalEngine{}) }

func (bgfinalEngine) Name() string      { return "bgfinal" }
func (bgfinalEngine) CoqModule() string { return "Corr.BGFinal" }
func (bgfinalEngine) Decode(raw json.RawMessage) (any, error) {
	var in BGFInput
	err := json.Unmarshal(raw, &in)
	return in, err
}

func (bgfinalEngine) Gen(r *rand.Rand, idx int, tier string) any {
	n := pick(r, 0, 1, 3, 5, 10)
	in := BGFInput{N: n, Restored: chance(r, 35), Paused: chance(r, 60), MaxSurge: pick(r, 0, 1, 2), MaxUnavail: pick(r, 0, 0, 1, 2), Partitioned: chance(r, 8)}
	if in.Restored {
		in.Paused = chance(r, 10)
	}
	k := 1 + r.Intn(3)
	for i := 0; i < k; i++ {
		var s BGStatus
		switch r.Intn(4) {
		case 0: // everything updated and ready
			s = BGStatus{Replicas: n, Updated: n, Ready: n, Available: n}
		case 1: // rolling: old pods still there, some new not ready
			u := r.Intn(n + 1)
			s = BGStatus{Replicas: n + r.Intn(3), Updated: u, Ready: r.Intn(n + 1), Available: r.Intn(n + 1)}
		case 2: // updated = ready but not enough available
			u := r.Intn(n + 1)
			s = BGStatus{Replicas: n, Updated: u, Ready: u, Available: maxInt(u-r.Intn(3), 0)}
		default:
			s = BGStatus{Replicas: r.Intn(n + 2), Updated: r.Intn(n + 2), Ready: r.Intn(n + 2), Available: r.Intn(n + 2)}
		}
		in.Statuses = append(in.Statuses, s)
	}
	return in
}

func (bgfinalEngine) Run(inAny any) any {
	in := inAny.(BGFInput)
	obs := BGFObs{}
	key := types.NamespacedName{Namespace: "ns", Name: "wl"}
	n32 := int32(in.N)
	ms, mu := intstr.FromInt(in.MaxSurge), intstr.FromInt(in.MaxUnavail)
	d := &apps.Deployment{ObjectMeta: metav1.ObjectMeta{Namespace: "ns", Name: "wl", UID: "wl-uid", Annotations: map[string]string{}, Labels: map[string]string{}},
		Spec: apps.DeploymentSpec{Replicas: &n32, Paused: in.Paused, Selector: &metav1.LabelSelector{MatchLabels: map[string]string{"app": "demo"}}, Template: podTemplate(),
			Strategy: apps.DeploymentStrategy{Type: apps.RollingUpdateDeploymentStrategyType, RollingUpdate: &apps.RollingUpdateDeployment{}}}}
	if in.Restored {
		d.Spec.Strategy.RollingUpdate.MaxSurge, d.Spec.Strategy.RollingUpdate.MaxUnavailable = &ms, &mu
	} else {
		// under blue-green control: surge 100%, nothing unavailable, the user's setting parked in the annotation
		full, zero := intstr.FromString("100%"), intstr.FromInt(0)
		d.Spec.Strategy.RollingUpdate.MaxSurge, d.Spec.Strategy.RollingUpdate.MaxUnavailable = &full, &zero
		d.Spec.MinReadySeconds = v1beta1.MaxReadySeconds
		setting := control.OriginalDeploymentStrategy{MaxSurge: &ms, MaxUnavailable: &mu}
		d.Annotations[v1beta1.OriginalDeploymentStrategyAnnotation] = util.DumpJSON(&setting)
		d.Annotations[util.BatchReleaseControlAnnotation] = controlInfo
	}
	cli := fake.NewClientBuilder().WithScheme(FullScheme()).WithObjects(d).Build()
	release := &v1beta1.BatchRelease{ObjectMeta: metav1.ObjectMeta{Namespace: "ns", Name: "br", UID: "br-uid"}}
	release.Spec.ReleasePlan.Batches = []v1beta1.ReleaseBatch{{CanaryReplicas: intstr.FromString("100%")}}
	if in.Partitioned {
		p := int32(0)
		release.Spec.ReleasePlan.BatchPartition = &p
	}
	for _, st := range in.Statuses {
		cur := &apps.Deployment{}
		if err := cli.Get(context.TODO(), key, cur); err != nil {
			obs.Attempts = append(obs.Attempts, BGAttempt{Err: "harness: " + err.Error()})
			break
		}
		cur.Status = apps.DeploymentStatus{ObservedGeneration: cur.Generation, Replicas: int32(st.Replicas), UpdatedReplicas: int32(st.Updated), ReadyReplicas: int32(st.Ready), AvailableReplicas: int32(st.Available)}
		if err := cli.Status().Update(context.TODO(), cur); err != nil {
			obs.Attempts = append(obs.Attempts, BGAttempt{Err: "harness: " + err.Error()})
			break
		}
		a := BGAttempt{}
		func() {
			defer func() {
				if p := recover(); p != nil {
					a.Panic = fmt.Sprint(p)
				}
			}()
			cp := bluegreenstyle.NewControlPlane(bgdeployment.NewController, cli, record.NewFakeRecorder(100), release, &v1beta1.BatchReleaseStatus{}, key, apps.SchemeGroupVersion.WithKind("Deployment"))
			if err := cp.Finalize(); err != nil {
				a.Err = err.Error()
				a.Retry = utilerrors.IsRetryError(err)
			}
		}()
		after := &apps.Deployment{}
		if err := cli.Get(context.TODO(), key, after); err == nil {
			a.Paused = after.Spec.Paused
			a.Restored = after.Annotations[v1beta1.OriginalDeploymentStrategyAnnotation] == ""
			a.Released = after.Annotations[util.BatchReleaseControlAnnotation] == ""
		}
		obs.Attempts = append(obs.Attempts, a)
	}
	return obs
}

func (bgfinalEngine) Coq(inAny any, obsAny any) string {
	in, obs := inAny.(BGFInput), obsAny.(BGFObs)
	st := func(s BGStatus) string {
		return emit.App("Build_dstatus", emit.Z(int64(s.Replicas)), emit.Z(int64(s.Updated)), emit.Z(int64(s.Ready)), emit.Z(int64(s.Available)))
	}
	at := func(a BGAttempt) string {
		return emit.App("Build_attempt_obs", emit.Bool(a.Panic != ""), emit.Bool(a.Err != ""), emit.Bool(a.Retry), emit.Bool(a.Paused), emit.Bool(a.Restored), emit.Bool(a.Released))
	}
	input := emit.App("Build_bgf_in", emit.Z(int64(in.N)), emit.Bool(in.Restored), emit.Bool(in.Paused), emit.Z(int64(in.MaxSurge)), emit.Z(int64(in.MaxUnavail)), emit.Bool(in.Partitioned),
		emit.ListOf(in.Statuses, st))
	return emit.Pair(input, emit.ListOf(obs.Attempts, at))
}
