package engines

import (
	"context"
	"crypto/sha1"
	"encoding/hex"
	"encoding/json"
	"errors"
	"fmt"
	"math/rand"
	"os"
	"runtime"
	"runtime/debug"
	"sort"
	"strings"
	"sync"
	"time"

	kruiseappsv1alpha1 "github.com/openkruise/kruise-api/apps/v1alpha1"
	apps "k8s.io/api/apps/v1"
	metav1 "k8s.io/apimachinery/pkg/apis/meta/v1"
	"k8s.io/apimachinery/pkg/apis/meta/v1/unstructured"
	"k8s.io/apimachinery/pkg/util/intstr"
	"github.com/go-logr/logr"
	"k8s.io/apimachinery/pkg/runtime/schema"
	"k8s.io/client-go/util/workqueue"
	"sigs.k8s.io/controller-runtime/pkg/handler"
	"sigs.k8s.io/controller-runtime/pkg/predicate"
	"sigs.k8s.io/controller-runtime/pkg/source"
	"sigs.k8s.io/controller-runtime/pkg/event"
	corev1 "k8s.io/api/core/v1"
	netv1 "k8s.io/api/networking/v1"
	"k8s.io/apimachinery/pkg/types"
	"k8s.io/client-go/tools/record"
	ctrl "sigs.k8s.io/controller-runtime"
	"sigs.k8s.io/controller-runtime/pkg/client"
	"sigs.k8s.io/controller-runtime/pkg/client/fake"

	"github.com/openkruise/rollouts/api/v1beta1"
	"github.com/openkruise/rollouts/pkg/controller/batchrelease"
	"github.com/openkruise/rollouts/pkg/controller/batchrelease/control/canarystyle"
	canarydeployment "github.com/openkruise/rollouts/pkg/controller/batchrelease/control/canarystyle/deployment"
	"github.com/openkruise/rollouts/pkg/controller/rollout"
	expectations "github.com/openkruise/rollouts/pkg/util/expectation"
	"github.com/openkruise/rollouts/pkg/util/luamanager"
	"github.com/openkruise/rollouts/pkg/trafficrouting"
	"github.com/openkruise/rollouts/pkg/util/grace"

	"verifharness/emit"
)

// ISOGraceOp is one step of a history on the process-wide grace expectation store.
type ISOGraceOp struct {
	Kind     string `json:"kind"` // call | tick | restart
	Owner    int    `json:"owner,omitempty"`
	Key      string `json:"key,omitempty"`
	Action   string `json:"action,omitempty"`
	Zero     bool   `json:"zero,omitempty"`
	Modified bool   `json:"modified,omitempty"`
	Failed   bool   `json:"failed,omitempty"`
}

type ISOInput struct {
	Kind     string       `json:"kind"` // grace | parallel
	Owners   int          `json:"owners,omitempty"`
	Ops      []ISOGraceOp `json:"ops,omitempty"`
	Rollouts []TRInput    `json:"rollouts,omitempty"`
	EOps     []ISOExpectOp `json:"eops,omitempty"`    // expect-store: calls on the process-wide creation-expectation store
	Tenants  []ISOTenant   `json:"tenants,omitempty"` // expect-cp: canary-style BatchReleases, one per namespace
	Sched    []ISOTenantOp `json:"sched,omitempty"`   // expect-cp: the interleaving of their reconciles and informer events
	Scripts  []string      `json:"scripts,omitempty"` // lua: per worker the script it runs Rounds times
	Names    []string      `json:"names,omitempty"`   // names: per tenant the name of its stable Service (all in ONE namespace)
	NSched   []ISOTenantOp `json:"nsched,omitempty"`  // names: interleaving of traffic-manager calls (do | finalise)
	WOps     []ISOWatchOp  `json:"wops,omitempty"`    // watch: Rollout reconciles of custom workload types, with the outcome of registering the watch
	Rounds   int          `json:"rounds,omitempty"`
	SameNS   bool         `json:"same_ns,omitempty"` // informational: the builders place every rollout in its own namespace
}

// ISOExpectOp is one call on pkg/util/expectation's store.
type ISOExpectOp struct {
	Op     string `json:"op"` // expect | observe | sat | delete
	Owner  int    `json:"owner"`
	Key    string `json:"key"`
	Create bool   `json:"create,omitempty"`
	UID    string `json:"uid,omitempty"`
}

// ISOTenant is one team's canary-style BatchRelease on its own Deployment in its own namespace.
type ISOTenant struct {
	NS       string `json:"ns"`
	Name     string `json:"name"` // BatchRelease name: teams are free to choose the same one
	Workload string `json:"workload"`
}

type ISOTenantOp struct {
	Tenant int    `json:"tenant"`
	Op     string `json:"op"` // reconcile (control-plane Initialize) | observe (the informer delivers the tenant's canary Deployments)
}

// ISOWatchOp: one Rollout (its own object) of workload kind Kind is reconciled; WatchOK: a dynamic Watch call would succeed.
type ISOWatchOp struct {
	Kind    string `json:"kind"`
	WatchOK bool   `json:"watch_ok"`
}

// scriptedController is the controller the reconciler registers dynamic watches on.
type scriptedController struct {
	ok    bool
	calls int
}

func (c *scriptedController) Reconcile(context.Context, ctrl.Request) (ctrl.Result, error) {
	return ctrl.Result{}, nil
}
func (c *scriptedController) Watch(src source.Source, h handler.EventHandler, p ...predicate.Predicate) error {
	c.calls++
	if !c.ok {
		return errors.New("injected: the watch could not be established")
	}
	return nil
}
func (c *scriptedController) Start(context.Context) error { return nil }
func (c *scriptedController) GetLogger() logr.Logger      { return logr.Discard() }

type ISOObs struct {
	WRes []string `json:"wres,omitempty"` // watch: per reconcile proceed | watched-now | error
	Panic    string      `json:"panic,omitempty"`
	Answers  []*bool     `json:"answers,omitempty"`  // interleaved run
	Alone    [][]bool    `json:"alone,omitempty"`    // per owner: the answers when only that owner's calls (and the global events) run
	Par      [][]bool    `json:"par,omitempty"`      // per owner: the answers when all owners run on concurrent goroutines
	Together []string    `json:"together,omitempty"` // per rollout: digest of its final objects when all run concurrently
	Solo     []string    `json:"solo,omitempty"`     // per rollout: digest when it runs by itself
	Detail   [][2]string `json:"detail,omitempty"`
}

type isolationEngine struct{}

func init() { Register(isolationEngine{}) }

func (isolationEngine) Name() string      { return "isolation" }
func (isolationEngine) CoqModule() string { return "Corr.Isolation" }
func (isolationEngine) Decode(raw json.RawMessage) (any, error) {
	var in ISOInput
	err := json.Unmarshal(raw, &in)
	return in, err
}

func isoRunGrace(ops []ISOGraceOp, only int) []*bool {
	grace.ResetExpectations()
	var out []*bool
	for _, op := range ops {
		switch op.Kind {
		case "tick":
			grace.VerifAge(10 * time.Second)
			out = append(out, nil)
		case "restart":
			grace.ResetExpectations()
			out = append(out, nil)
		default:
			if only >= 0 && op.Owner != only {
				continue
			}
			g := int32(3)
			if op.Zero {
				g = 0
			}
			retry, _, _ := grace.RunWithGraceSeconds(op.Key, op.Action, g, func() (bool, error) {
				if op.Failed {
					return false, errors.New("injected")
				}
				return op.Modified, nil
			})
			r := retry
			out = append(out, &r)
		}
	}
	grace.ResetExpectations()
	return out
}

var scrubKeys = map[string]bool{"resourceVersion": true, "lastUpdateTime": true, "lastTransitionTime": true, "creationTimestamp": true, "managedFields": true,
	"deletionTimestamp": true, "message": true}

func scrub(v any) any {
	switch t := v.(type) {
	case map[string]any:
		for k, x := range t {
			if scrubKeys[k] {
				delete(t, k)
			} else {
				t[k] = scrub(x)
			}
		}
		return t
	case []any:
		for i := range t {
			t[i] = scrub(t[i])
		}
		return t
	}
	return v
}

// isoDigest lists everything a rollout owns or touches in its namespace and digests it without timestamps.
func isoDigest(cli client.Client, ns string) (string, string) {
	var all []any
	add := func(list client.ObjectList) {
		if err := cli.List(context.TODO(), list, client.InNamespace(ns)); err != nil {
			all = append(all, "list error: "+err.Error())
			return
		}
		by, _ := json.Marshal(list)
		var g map[string]any
		_ = json.Unmarshal(by, &g)
		items, _ := g["items"].([]any)
		if items == nil {
			items = []any{}
		}
		sort.Slice(items, func(i, j int) bool { a, _ := json.Marshal(items[i]); b, _ := json.Marshal(items[j]); return string(a) < string(b) })
		all = append(all, scrub(items))
	}
	add(&v1beta1.RolloutList{})
	add(&v1beta1.BatchReleaseList{})
	add(&kruiseappsv1alpha1.CloneSetList{})
	add(&corev1.ServiceList{})
	add(&netv1.IngressList{})
	by, _ := json.Marshal(all)
	h := sha1.Sum(by)
	return hex.EncodeToString(h[:])[:12], string(by)
}

func isoObjects(in TRInput, idx int) []client.Object {
	objs, _, _ := buildRolloutObjects(in.R, &in.X)
	ns := fmt.Sprintf("ns-%d", idx)
	suffix := fmt.Sprintf("-%d", idx)
	for _, o := range objs {
		o.SetNamespace(ns)
		o.SetUID(types.UID(string(o.GetUID()) + suffix))
		refs := o.GetOwnerReferences()
		for i := range refs {
			refs[i].UID = types.UID(string(refs[i].UID) + suffix)
		}
		o.SetOwnerReferences(refs)
	}
	return objs
}

func isoReconcile(cli client.Client, ns string, rounds int, jitter bool) (panicked string) {
	defer func() {
		if p := recover(); p != nil {
			panicked = fmt.Sprint(p)
			if os.Getenv("VERIF_STACK") != "" {
				fmt.Fprintf(os.Stderr, "PANIC %v\n%s\n", p, debug.Stack())
			}
		}
	}()
	rec := rollout.VerifNewReconciler(cli, FullScheme(), record.NewFakeRecorder(100000))
	for i := 0; i < rounds; i++ {
		if jitter {
			runtime.Gosched()
		}
		_, _ = rec.Reconcile(context.TODO(), ctrl.Request{NamespacedName: types.NamespacedName{Namespace: ns, Name: "ro"}})
	}
	return ""
}

func isoRunExpect(ops []ISOExpectOp, only int) []*bool {
	expectations.ResourceExpectations = expectations.NewResourceExpectations()
	var out []*bool
	for _, op := range ops {
		if only >= 0 && op.Owner != only {
			continue
		}
		act := expectations.Delete
		if op.Create {
			act = expectations.Create
		}
		switch op.Op {
		case "expect":
			expectations.ResourceExpectations.Expect(op.Key, act, op.UID)
			out = append(out, nil)
		case "observe":
			expectations.ResourceExpectations.Observe(op.Key, act, op.UID)
			out = append(out, nil)
		case "delete":
			expectations.ResourceExpectations.DeleteExpectations(op.Key)
			out = append(out, nil)
		default:
			ok, _, _ := expectations.ResourceExpectations.SatisfiedExpectations(op.Key)
			out = append(out, &ok)
		}
	}
	expectations.ResourceExpectations = expectations.NewResourceExpectations()
	return out
}

func isoTenantObjects(t ISOTenant, i int) (*apps.Deployment, *v1beta1.BatchRelease) {
	n := int32(10)
	labels := map[string]string{"app": t.Workload}
	d := &apps.Deployment{TypeMeta: metav1.TypeMeta{APIVersion: "apps/v1", Kind: "Deployment"},
		ObjectMeta: metav1.ObjectMeta{Namespace: t.NS, Name: t.Workload, Generation: 1, Labels: labels, UID: types.UID(fmt.Sprintf("wl-uid-%d", i))},
		Spec: apps.DeploymentSpec{Paused: true, Replicas: &n, Selector: &metav1.LabelSelector{MatchLabels: labels}, Template: podTemplate()}}
	d.Spec.Template.Labels = labels
	br := &v1beta1.BatchRelease{TypeMeta: metav1.TypeMeta{APIVersion: v1beta1.GroupVersion.String(), Kind: "BatchRelease"},
		ObjectMeta: metav1.ObjectMeta{Namespace: t.NS, Name: t.Name, UID: types.UID(fmt.Sprintf("br-uid-%d", i))}}
	br.Spec.WorkloadRef = v1beta1.ObjectRef{APIVersion: "apps/v1", Kind: "Deployment", Name: t.Workload}
	br.Spec.ReleasePlan.Batches = []v1beta1.ReleaseBatch{{CanaryReplicas: intstr.FromString("10%")}, {CanaryReplicas: intstr.FromString("100%")}}
	return d, br
}

// isoRunTenants replays the schedule (all tenants, or only one of them) and returns per tenant what each of its steps
// did: whether the reconcile returned an error and how many canary Deployments it owns afterwards.
func isoRunTenants(in ISOInput, only int) [][]string {
	expectations.ResourceExpectations = expectations.NewResourceExpectations()
	defer func() { expectations.ResourceExpectations = expectations.NewResourceExpectations() }()
	var objs []client.Object
	brs := make([]*v1beta1.BatchRelease, len(in.Tenants))
	for i, t := range in.Tenants {
		d, br := isoTenantObjects(t, i)
		brs[i] = br
		objs = append(objs, d, br)
	}
	cli := fake.NewClientBuilder().WithScheme(FullScheme()).WithObjects(objs...).Build()
	owned := func(i int) []apps.Deployment {
		list := &apps.DeploymentList{}
		_ = cli.List(context.TODO(), list, client.InNamespace(in.Tenants[i].NS))
		var out []apps.Deployment
		for _, d := range list.Items {
			if o := metav1.GetControllerOf(&d); o != nil && o.UID == brs[i].UID {
				out = append(out, d)
			}
		}
		return out
	}
	res := make([][]string, len(in.Tenants))
	h := batchrelease.VerifWorkloadEventHandler(cli)
	q := workqueue.NewRateLimitingQueue(workqueue.DefaultControllerRateLimiter())
	defer q.ShutDown()
	for _, op := range in.Sched {
		i := op.Tenant
		if only >= 0 && i != only {
			continue
		}
		t := in.Tenants[i]
		switch op.Op {
		case "observe":
			for _, d := range owned(i) {
				d := d
				h.Create(event.CreateEvent{Object: &d}, q)
			}
			res[i] = append(res[i], "observed")
		default:
			st := &v1beta1.BatchReleaseStatus{}
			cp := canarystyle.NewControlPlane(canarydeployment.NewController, cli, record.NewFakeRecorder(1000), brs[i].DeepCopy(), st,
				types.NamespacedName{Namespace: t.NS, Name: t.Workload})
			err := cp.Initialize()
			res[i] = append(res[i], fmt.Sprintf("err=%v canaries=%d", err != nil, len(owned(i))))
		}
	}
	return res
}

const isoLuaWeight = `
local acc = {}
for i = 1, 40 do acc[#acc + 1] = tostring(i * %d) end
annotations = obj.annotations or {}
annotations["w"] = table.concat(acc, ",") .. ":" .. tostring(obj.weight)
return annotations
`

func isoRunLua(script string, weight int) string {
	m := &luamanager.LuaManager{}
	l, err := m.RunLuaScript(&unstructured.Unstructured{Object: map[string]any{"weight": int64(weight), "annotations": map[string]any{"a": "b"}}}, script)
	if err != nil {
		return "err: " + firstLine(err.Error())
	}
	by, err := luamanager.Encode(l.Get(-1))
	if err != nil {
		return "encode err: " + firstLine(err.Error())
	}
	return string(by)
}

// isoRunNames: several Rollouts of ONE namespace drive the traffic manager (nginx Ingress) for their own stable Service;
// returns per tenant a digest of the Services and canary Ingress that belong to it.
func isoRunNames(in ISOInput, only int) []string {
	grace.ResetExpectations()
	defer grace.ResetExpectations()
	var objs []client.Object
	pt := netv1.PathTypePrefix
	ports := []corev1.ServicePort{{Port: 80, TargetPort: intstr.FromInt(8080)}}
	for i, name := range in.Names {
		objs = append(objs, &corev1.Service{ObjectMeta: metav1.ObjectMeta{Namespace: "ns", Name: name, UID: types.UID(fmt.Sprintf("svc-uid-%d", i))},
			Spec: corev1.ServiceSpec{Selector: map[string]string{"app": fmt.Sprintf("app-%d", i)}, Ports: ports}})
		objs = append(objs, &netv1.Ingress{ObjectMeta: metav1.ObjectMeta{Namespace: "ns", Name: fmt.Sprintf("ing-%d", i), Annotations: map[string]string{"kubernetes.io/ingress.class": "nginx"}},
			Spec: netv1.IngressSpec{Rules: []netv1.IngressRule{{Host: fmt.Sprintf("t%d.example.com", i), IngressRuleValue: netv1.IngressRuleValue{HTTP: &netv1.HTTPIngressRuleValue{
				Paths: []netv1.HTTPIngressPath{{Path: "/", PathType: &pt, Backend: netv1.IngressBackend{Service: &netv1.IngressServiceBackend{Name: name, Port: netv1.ServiceBackendPort{Number: 80}}}}}}}}}}})
	}
	cli := fake.NewClientBuilder().WithScheme(FullScheme()).WithObjects(objs...).Build()
	m := trafficrouting.NewTrafficRoutingManager(cli)
	ctxOf := func(i int) *trafficrouting.TrafficRoutingContext {
		w := "30%"
		return &trafficrouting.TrafficRoutingContext{Key: fmt.Sprintf("Rollout(ns/ro-%d)", i), Namespace: "ns", Strategy: v1beta1.TrafficRoutingStrategy{Traffic: &w},
			OwnerRef:         metav1.OwnerReference{APIVersion: "rollouts.kruise.io/v1beta1", Kind: "Rollout", Name: fmt.Sprintf("ro-%d", i), UID: types.UID(fmt.Sprintf("ro-uid-%d", i))},
			RevisionLabelKey: "pod-template-hash", StableRevision: fmt.Sprintf("stable-%d", i), CanaryRevision: fmt.Sprintf("canary-%d", i),
			ObjectRef:      []v1beta1.TrafficRoutingRef{{Service: in.Names[i], GracePeriodSeconds: 1, Ingress: &v1beta1.IngressTrafficRouting{Name: fmt.Sprintf("ing-%d", i)}}},
			LastUpdateTime: &metav1.Time{Time: time.Now().Add(-time.Hour)}}
	}
	res := make([]string, len(in.Names))
	for _, op := range in.NSched {
		if only >= 0 && op.Tenant != only {
			continue
		}
		grace.VerifAge(10 * time.Second)
		c := ctxOf(op.Tenant)
		var done bool
		var err error
		if op.Op == "finalise" {
			done, err = m.FinalisingTrafficRouting(c)
		} else {
			done, err = m.DoTrafficRouting(c)
		}
		res[op.Tenant] += fmt.Sprintf("%s:%v/%v;", op.Op, done, err != nil)
	}
	// what belongs to each tenant afterwards
	svcs := &corev1.ServiceList{}
	_ = cli.List(context.TODO(), svcs, client.InNamespace("ns"))
	for i, name := range in.Names {
		var mine []string
		for _, s := range svcs.Items {
			owned := false
			for _, o := range s.OwnerReferences {
				if o.UID == types.UID(fmt.Sprintf("ro-uid-%d", i)) {
					owned = true
				}
			}
			if s.Name == name || owned {
				role := "stable"
				if s.Name != name {
					role = "canary"
				}
				by, _ := json.Marshal(s.Spec.Selector)
				mine = append(mine, role+string(by))
			}
		}
		sort.Strings(mine)
		ing := &netv1.Ingress{}
		route := "no-canary-ingress"
		if err := cli.Get(context.TODO(), types.NamespacedName{Namespace: "ns", Name: fmt.Sprintf("ing-%d-canary", i)}, ing); err == nil {
			backend := ""
			if len(ing.Spec.Rules) > 0 && ing.Spec.Rules[0].HTTP != nil && len(ing.Spec.Rules[0].HTTP.Paths) > 0 && ing.Spec.Rules[0].HTTP.Paths[0].Backend.Service != nil {
				backend = ing.Spec.Rules[0].HTTP.Paths[0].Backend.Service.Name
			}
			// does the backend of my canary route exist, and whose pods does it select
			b := &corev1.Service{}
			if err := cli.Get(context.TODO(), types.NamespacedName{Namespace: "ns", Name: backend}, b); err == nil {
				by, _ := json.Marshal(b.Spec.Selector)
				route = "weight=" + ing.Annotations["nginx.ingress.kubernetes.io/canary-weight"] + " backend-selects" + string(by)
			} else {
				route = "weight=" + ing.Annotations["nginx.ingress.kubernetes.io/canary-weight"] + " backend-missing"
			}
		}
		res[i] += "|" + strings.Join(mine, ",") + "|" + route
	}
	return res
}

func (isolationEngine) Run(inAny any) (out any) {
	in := inAny.(ISOInput)
	obs := ISOObs{}
	defer func() {
		if p := recover(); p != nil {
			obs.Panic = fmt.Sprint(p)
			out = obs
		}
	}()
	if in.Kind == "watch" {
		sc := &scriptedController{}
		rollout.VerifSetRuntimeController(sc, &handler.EnqueueRequestForObject{})
		var objs []client.Object
		for i, op := range in.WOps {
			ro := &v1beta1.Rollout{ObjectMeta: metav1.ObjectMeta{Namespace: "ns", Name: fmt.Sprintf("ro-%d", i), UID: types.UID(fmt.Sprintf("ro-uid-%d", i))}}
			ro.Spec.WorkloadRef = v1beta1.ObjectRef{APIVersion: "example.io/v1", Kind: op.Kind, Name: fmt.Sprintf("wl-%d", i)}
			ro.Spec.Strategy.Canary = &v1beta1.CanaryStrategy{}
			objs = append(objs, ro)
		}
		cli := fake.NewClientBuilder().WithScheme(FullScheme()).WithObjects(objs...).Build()
		rec := rollout.VerifNewReconciler(cli, FullScheme(), record.NewFakeRecorder(1000))
		for i, op := range in.WOps {
			sc.ok = op.WatchOK
			before := sc.calls
			_, err := rec.Reconcile(context.TODO(), ctrl.Request{NamespacedName: types.NamespacedName{Namespace: "ns", Name: fmt.Sprintf("ro-%d", i)}})
			after := &v1beta1.Rollout{}
			_ = cli.Get(context.TODO(), types.NamespacedName{Namespace: "ns", Name: fmt.Sprintf("ro-%d", i)}, after)
			switch {
			case sc.calls > before && err != nil:
				obs.WRes = append(obs.WRes, "error")
			case sc.calls > before:
				obs.WRes = append(obs.WRes, "watched-now")
			case len(after.Finalizers) > 0 || err != nil:
				obs.WRes = append(obs.WRes, "proceed")
			default:
				obs.WRes = append(obs.WRes, "nothing")
			}
		}
		rollout.VerifSetRuntimeController(nil, nil)
		return obs
	}
	if in.Kind == "names" {
		together := isoRunNames(in, -1)
		for i := range in.Names {
			obs.Solo = append(obs.Solo, isoRunNames(in, i)[i])
			obs.Together = append(obs.Together, together[i])
		}
		return obs
	}
	if in.Kind == "expect-store" {
		obs.Answers = isoRunExpect(in.EOps, -1)
		for o := 0; o < in.Owners; o++ {
			var a []bool
			for _, r := range isoRunExpect(in.EOps, o) {
				if r != nil {
					a = append(a, *r)
				}
			}
			obs.Alone = append(obs.Alone, a)
		}
		return obs
	}
	if in.Kind == "expect-cp" {
		together := isoRunTenants(in, -1)
		for i := range in.Tenants {
			solo := isoRunTenants(in, i)
			obs.Solo = append(obs.Solo, strings.Join(solo[i], ";"))
			obs.Together = append(obs.Together, strings.Join(together[i], ";"))
		}
		return obs
	}
	if in.Kind == "lua" {
		// every worker runs its provider script Rounds times, as the Rollout workers do on every reconcile, all at once
		res := make([][]string, len(in.Scripts))
		var wg sync.WaitGroup
		for w := range in.Scripts {
			wg.Add(1)
			go func(w int) {
				defer wg.Done()
				defer func() {
					if p := recover(); p != nil {
						res[w] = append(res[w], "panic: "+fmt.Sprint(p))
					}
				}()
				for k := 0; k < in.Rounds; k++ {
					res[w] = append(res[w], isoRunLua(in.Scripts[w], k))
					runtime.Gosched()
				}
			}(w)
		}
		wg.Wait()
		for w := range in.Scripts {
			var solo []string
			for k := 0; k < in.Rounds; k++ {
				solo = append(solo, isoRunLua(in.Scripts[w], k))
			}
			obs.Solo = append(obs.Solo, strings.Join(solo, ";"))
			obs.Together = append(obs.Together, strings.Join(res[w], ";"))
		}
		return obs
	}
	if in.Kind == "grace-par" {
		// the owners' calls run on concurrent goroutines against the one process-wide store
		grace.ResetExpectations()
		results := make([][]bool, in.Owners)
		var wg sync.WaitGroup
		for o := 0; o < in.Owners; o++ {
			wg.Add(1)
			go func(o int) {
				defer wg.Done()
				for _, op := range in.Ops {
					if op.Kind != "call" || op.Owner != o {
						continue
					}
					op := op
					g := int32(3)
					if op.Zero {
						g = 0
					}
					retry, _, _ := grace.RunWithGraceSeconds(op.Key, op.Action, g, func() (bool, error) {
						if op.Failed {
							return false, errors.New("injected")
						}
						return op.Modified, nil
					})
					results[o] = append(results[o], retry)
					runtime.Gosched()
				}
			}(o)
		}
		wg.Wait()
		var callsOnly []ISOGraceOp
		for _, op := range in.Ops {
			if op.Kind == "call" {
				callsOnly = append(callsOnly, op)
			}
		}
		for o := 0; o < in.Owners; o++ {
			var a []bool
			for _, r := range isoRunGrace(callsOnly, o) {
				if r != nil {
					a = append(a, *r)
				}
			}
			obs.Alone = append(obs.Alone, a)
			obs.Par = append(obs.Par, results[o])
		}
		grace.ResetExpectations()
		return obs
	}
	if in.Kind == "grace" {
		obs.Answers = isoRunGrace(in.Ops, -1)
		for o := 0; o < in.Owners; o++ {
			var a []bool
			for _, r := range isoRunGrace(in.Ops, o) {
				if r != nil {
					a = append(a, *r)
				}
			}
			obs.Alone = append(obs.Alone, a)
		}
		return obs
	}
	rollout.VerifSetGraceSeconds(3)
	var soloFull []string
	// solo runs
	for i, c := range in.Rollouts {
		grace.ResetExpectations()
		cli := fake.NewClientBuilder().WithScheme(FullScheme()).WithObjects(isoObjects(c, i)...).Build()
		if p := isoReconcile(cli, fmt.Sprintf("ns-%d", i), in.Rounds, false); p != "" {
			obs.Panic = "solo: " + p
		}
		d, full := isoDigest(cli, fmt.Sprintf("ns-%d", i))
		obs.Solo = append(obs.Solo, d)
		soloFull = append(soloFull, full)
	}
	// all together, one worker per rollout on one client and one process-wide state
	grace.ResetExpectations()
	var objs []client.Object
	for i, c := range in.Rollouts {
		objs = append(objs, isoObjects(c, i)...)
	}
	cli := fake.NewClientBuilder().WithScheme(FullScheme()).WithObjects(objs...).Build()
	var wg sync.WaitGroup
	panics := make([]string, len(in.Rollouts))
	for i := range in.Rollouts {
		wg.Add(1)
		go func(i int) {
			defer wg.Done()
			panics[i] = isoReconcile(cli, fmt.Sprintf("ns-%d", i), in.Rounds, true)
		}(i)
	}
	wg.Wait()
	for i := range in.Rollouts {
		if panics[i] != "" {
			obs.Panic = "together: " + panics[i]
		}
		d, full := isoDigest(cli, fmt.Sprintf("ns-%d", i))
		obs.Together = append(obs.Together, d)
		if d != obs.Solo[i] {
			obs.Detail = append(obs.Detail, [2]string{soloFull[i], full})
		}
	}
	grace.ResetExpectations()
	return obs
}

func (isolationEngine) Coq(inAny any, obsAny any) string {
	in, obs := inAny.(ISOInput), obsAny.(ISOObs)
	if in.Kind == "grace" {
		ops := emit.ListOf(in.Ops, func(o ISOGraceOp) string {
			switch o.Kind {
			case "tick":
				return "GTick"
			case "restart":
				return "GRestart"
			}
			return emit.App("GCall", emit.App("Build_gcall", emit.Pair(emit.Str(o.Key), emit.Str(o.Action)), emit.Bool(o.Zero), emit.Bool(o.Modified), emit.Bool(o.Failed)))
		})
		ans := emit.ListOf(obs.Answers, func(b *bool) string {
			if b == nil {
				return "None"
			}
			return emit.Some(emit.Bool(*b))
		})
		owners := make([]int, in.Owners)
		for i := range owners {
			owners[i] = i
		}
		alone := emit.ListOf(owners, func(o int) string {
			var keys []string
			seen := map[string]bool{}
			for _, op := range in.Ops {
				if op.Kind == "call" && op.Owner == o && !seen[op.Key] {
					seen[op.Key] = true
					keys = append(keys, op.Key)
				}
			}
			return emit.Pair(emit.ListOf(keys, emit.Str), emit.ListOf(obs.Alone[o], emit.Bool))
		})
		return emit.App("IGrace", ops, ans, alone, emit.Bool(obs.Panic != ""))
	}
	if in.Kind == "expect-store" {
		ops := emit.ListOf(in.EOps, func(o ISOExpectOp) string {
			it := emit.Pair(emit.Bool(o.Create), emit.Str(o.UID))
			switch o.Op {
			case "expect":
				return emit.App("EExpect", emit.Str(o.Key), it)
			case "observe":
				return emit.App("EObserve", emit.Str(o.Key), it)
			case "delete":
				return emit.App("EDelete", emit.Str(o.Key))
			}
			return emit.App("ESatisfied", emit.Str(o.Key))
		})
		ans := emit.ListOf(obs.Answers, func(b *bool) string {
			if b == nil {
				return "None"
			}
			return emit.Some(emit.Bool(*b))
		})
		owners := make([]int, in.Owners)
		for i := range owners {
			owners[i] = i
		}
		alone := emit.ListOf(owners, func(o int) string {
			var keys []string
			seen := map[string]bool{}
			for _, op := range in.EOps {
				if op.Owner == o && !seen[op.Key] {
					seen[op.Key] = true
					keys = append(keys, op.Key)
				}
			}
			return emit.Pair(emit.ListOf(keys, emit.Str), emit.ListOf(obs.Alone[o], emit.Bool))
		})
		return emit.App("IExpect", ops, ans, alone, emit.Bool(obs.Panic != ""))
	}
	if in.Kind == "watch" {
		gvk := func(k string) string { return schema.GroupVersionKind{Group: "example.io", Version: "v1", Kind: k}.String() }
		return emit.App("IWatch", emit.ListOf(in.WOps, func(o ISOWatchOp) string { return emit.Pair(emit.Str(gvk(o.Kind)), emit.Bool(o.WatchOK)) }),
			emit.ListOf(obs.WRes, emit.Str), emit.Bool(obs.Panic != ""))
	}
	if in.Kind == "grace-par" {
		owners := make([]int, len(obs.Alone))
		for i := range owners {
			owners[i] = i
		}
		return emit.App("IGracePar", emit.ListOf(owners, func(o int) string {
			return emit.Pair(emit.ListOf(obs.Alone[o], emit.Bool), emit.ListOf(obs.Par[o], emit.Bool))
		}), emit.Bool(obs.Panic != ""))
	}
	n := len(obs.Solo)
	if len(obs.Together) < n {
		n = len(obs.Together)
	}
	idx := make([]int, n)
	for i := range idx {
		idx[i] = i
	}
	pairs := emit.ListOf(idx, func(i int) string { return emit.Pair(emit.Str(obs.Solo[i]), emit.Str(obs.Together[i])) })
	switch in.Kind {
	case "expect-cp":
		return emit.App("IParK", emit.Str("canary-creation"), pairs, emit.Bool(obs.Panic != ""))
	case "lua":
		return emit.App("IParK", emit.Str("lua"), pairs, emit.Bool(obs.Panic != ""))
	case "names":
		return emit.App("IParK", emit.Str("similar-names"), pairs, emit.Bool(obs.Panic != ""))
	}
	return emit.App("IPar", pairs, emit.Bool(obs.Panic != ""))
}

func (isolationEngine) Gen(r *rand.Rand, idx int, tier string) any {
	switch idx % 10 {
	case 3:
		// the creation-expectation store under the keys the BatchRelease controller derives: namespace/name of the release
		in := ISOInput{Kind: "expect-store", Owners: 2 + r.Intn(2)}
		name := pick(r, "demo", "canary")
		n := 5 + r.Intn(16)
		for i := 0; i < n; i++ {
			o := r.Intn(in.Owners)
			key := fmt.Sprintf("ns-%d/%s", o, name)
			uid := fmt.Sprintf("uid-%d", r.Intn(3)) // the same object names may well occur under several owners
			switch r.Intn(10) {
			case 0, 1, 2:
				in.EOps = append(in.EOps, ISOExpectOp{Op: "expect", Owner: o, Key: key, Create: chance(r, 85), UID: uid})
			case 3, 4:
				in.EOps = append(in.EOps, ISOExpectOp{Op: "observe", Owner: o, Key: key, Create: chance(r, 85), UID: uid})
			case 5:
				in.EOps = append(in.EOps, ISOExpectOp{Op: "delete", Owner: o, Key: key})
			default:
				in.EOps = append(in.EOps, ISOExpectOp{Op: "sat", Owner: o, Key: key})
			}
		}
		return in
	case 5:
		in := ISOInput{Kind: "expect-cp"}
		k := 2 + r.Intn(2)
		shared := chance(r, 70)
		for i := 0; i < k; i++ {
			t := ISOTenant{NS: fmt.Sprintf("team-%d", i), Name: "rollout-demo", Workload: pick(r, "web", "api", fmt.Sprintf("svc-%d", i))}
			if !shared {
				t.Name = fmt.Sprintf("rollout-%d", i)
			}
			in.Tenants = append(in.Tenants, t)
		}
		n := 3 + r.Intn(8)
		for i := 0; i < n; i++ {
			op := "reconcile"
			if chance(r, 30) {
				op = "observe"
			}
			in.Sched = append(in.Sched, ISOTenantOp{Tenant: r.Intn(k), Op: op})
		}
		return in
	case 1:
		// Rollouts of custom workload types: the dynamic watch registry, with registrations that fail
		in := ISOInput{Kind: "watch"}
		n := 3 + r.Intn(6)
		for i := 0; i < n; i++ {
			in.WOps = append(in.WOps, ISOWatchOp{Kind: pick(r, "Foo", "Foo", "Bar", "Baz"), WatchOK: chance(r, 60)})
		}
		return in
	case 9:
		// Rollouts of one namespace whose stable Services have similar (also long) names
		in := ISOInput{Kind: "names"}
		prefix := strings.Repeat("payments-gateway-eu-central-", 3)[:pick(r, 4, 20, 50, 56, 57, 60)]
		k := 2 + r.Intn(2)
		for i := 0; i < k; i++ {
			suffix := pick(r, "a", "b", "blue", "v2", "x1")
			name := fmt.Sprintf("%s%s%d", prefix, suffix, i)
			if len(name) > 63 {
				name = name[:62] + fmt.Sprint(i)
			}
			in.Names = append(in.Names, name)
		}
		n := 4 + r.Intn(8)
		for i := 0; i < n; i++ {
			op := "do"
			if chance(r, 25) {
				op = "finalise"
			}
			in.NSched = append(in.NSched, ISOTenantOp{Tenant: r.Intn(k), Op: op})
		}
		return in
	case 7:
		in := ISOInput{Kind: "lua", Rounds: 4 + r.Intn(6)}
		k := 3 + r.Intn(5)
		for i := 0; i < k; i++ {
			// fresh scripts per case: a provider script is first seen by several workers at the same moment
			in.Scripts = append(in.Scripts, fmt.Sprintf(isoLuaWeight, 1+r.Intn(3)+1000*(idx%977)))
		}
		return in
	}
	if idx%4 != 0 {
		in := ISOInput{Kind: "grace", Owners: 2 + r.Intn(2)}
		n := 4 + r.Intn(14)
		if idx%4 == 2 {
			in.Kind, in.Owners, n = "grace-par", 3+r.Intn(4), 30+r.Intn(40)
		}
		for i := 0; i < n; i++ {
			switch r.Intn(12) {
			case 0:
				in.Ops = append(in.Ops, ISOGraceOp{Kind: "tick"})
			case 1:
				if chance(r, 40) {
					in.Ops = append(in.Ops, ISOGraceOp{Kind: "restart"})
				} else {
					in.Ops = append(in.Ops, ISOGraceOp{Kind: "tick"})
				}
			default:
				o := r.Intn(in.Owners)
				// the keys the traffic manager derives: rollout UID, stable Service UID, namespace/name of the canary Service
				key := pick(r, fmt.Sprintf("ro-uid-%d", o), fmt.Sprintf("svc-uid-%d", o), fmt.Sprintf("ns-%d/svc-canary", o))
				act := map[string][]string{"ro": {"updateRoute", "restoreGateway"}, "sv": {"patchService", "restoreService"}, "ns": {"removeCanaryService"}}[key[:2]]
				in.Ops = append(in.Ops, ISOGraceOp{Kind: "call", Owner: o, Key: key, Action: act[r.Intn(len(act))], Zero: chance(r, 10), Modified: chance(r, 35), Failed: chance(r, 8)})
			}
		}
		return in
	}
	in := ISOInput{Kind: "parallel", Rounds: 3 + r.Intn(4)}
	k := 2 + r.Intn(3)
	for i := 0; i < k; i++ {
		c := rollouttrEngine{}.Gen(r, (idx/4)*3+i, tier).(TRInput)
		// expectations are process-wide and start empty in both runs
		c.X.Pending = nil
		// as for C09: a BatchRelease owned by a Rollout carries a batchPartition inside its own plan; recalculateCanaryStep
		// dereferences it when the plan changed (hand-edited BatchReleases are outside the properties)
		if b := c.R.BR; b != nil && c.R.Status.Prog == "InRolling" && c.R.Status.Sub != nil && c.R.Status.Sub.Hash != "" && c.R.Status.Sub.Hash != "current" &&
			(b.Partition == nil || *b.Partition < 0 || *b.Partition >= len(b.Batches)) && len(b.Batches) > 0 {
			z := 0
			b.Partition = &z
		}
		if chance(r, 70) && c.R.Status.Sub != nil && c.R.W.Exists {
			// a Rollout in the middle of its cleanup with everything still in place: every reconcile goes through the
			// grace store
			c.R.W.ObsGen = c.R.W.Gen
			c.R.Deleting, c.R.Disabled, c.R.Finalizer = false, false, true
			c.R.Status.Phase, c.R.Status.Prog, c.R.Status.ProgStatus, c.R.Status.Term = "Progressing", pick(r, "Finalising", "Cancelling"), true, ""
			c.R.Status.Sub.Fin = pick(r, "", "RestoreStableService", "FinalisingStepRouteTrafficToStable", "RemoveCanaryService")
			c.R.Status.Sub.Elapsed = true
			c.X.Net.StableExists, c.X.Net.StableSel = true, c.R.Status.Sub.Stable
			cs := c.R.Status.Sub.PTH
			c.X.Net.CanarySvc = &cs
			w := 20
			c.X.Net.Route = &TMStrategy{Weight: &w}
			c.X.ZeroGrace = chance(r, 30)
		}
		in.Rollouts = append(in.Rollouts, c)
	}
	return in
}

var _ = strings.TrimSpace
