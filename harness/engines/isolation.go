package engines

import (
	"context"
	"crypto/sha1"
	"encoding/hex"
	"encoding/json"
	"errors"
	"fmt"
	"math/rand"
	"runtime"
	"sort"
	"strings"
	"sync"
	"time"

	kruiseappsv1alpha1 "github.com/openkruise/kruise-api/apps/v1alpha1"
	corev1 "k8s.io/api/core/v1"
	netv1 "k8s.io/api/networking/v1"
	"k8s.io/apimachinery/pkg/types"
	"k8s.io/client-go/tools/record"
	ctrl "sigs.k8s.io/controller-runtime"
	"sigs.k8s.io/controller-runtime/pkg/client"
	"sigs.k8s.io/controller-runtime/pkg/client/fake"

	"github.com/openkruise/rollouts/api/v1beta1"
	"github.com/openkruise/rollouts/pkg/controller/rollout"
	"github.com/openkruise/rollouts/pkg/util/grace"

	"verifharness/emit"
)

// ISOGraceOp is one step of a history on the process-wide grace expectation store.
type ISOGraceOp struct {
	Kind     string `json:"kind"` // call | tick | restart
	Owner    int    `json:"owner,omitempty"`
	Key      string `json:"key,omitempty"`
	Action   string `json:"action,omitempty"`
	Zero     bool   `json:"zero,omitempty"`
	Modified bool   `json:"modified,omitempty"`
	Failed   bool   `json:"failed,omitempty"`
}

type ISOInput struct {
	Kind     string       `json:"kind"` // grace | parallel
	Owners   int          `json:"owners,omitempty"`
	Ops      []ISOGraceOp `json:"ops,omitempty"`
	Rollouts []TRInput    `json:"rollouts,omitempty"`
	Rounds   int          `json:"rounds,omitempty"`
	SameNS   bool         `json:"same_ns,omitempty"` // informational: the builders place every rollout in its own namespace
}

type ISOObs struct {
	Panic    string      `json:"panic,omitempty"`
	Answers  []*bool     `json:"answers,omitempty"`  // interleaved run
	Alone    [][]bool    `json:"alone,omitempty"`    // per owner: the answers when only that owner's calls (and the global events) run
	Par      [][]bool    `json:"par,omitempty"`      // per owner: the answers when all owners run on concurrent goroutines
	Together []string    `json:"together,omitempty"` // per rollout: digest of its final objects when all run concurrently
	Solo     []string    `json:"solo,omitempty"`     // per rollout: digest when it runs by itself
	Detail   [][2]string `json:"detail,omitempty"`
}

type isolationEngine struct{}

func init() { Register(isolationEngine{}) }

func (isolationEngine) Name() string      { return "isolation" }
func (isolationEngine) CoqModule() string { return "Corr.Isolation" }
func (isolationEngine) Decode(raw json.RawMessage) (any, error) {
	var in ISOInput
	err := json.Unmarshal(raw, &in)
	return in, err
}

func isoRunGrace(ops []ISOGraceOp, only int) []*bool {
	grace.ResetExpectations()
	var out []*bool
	for _, op := range ops {
		switch op.Kind {
		case "tick":
			grace.VerifAge(10 * time.Second)
			out = append(out, nil)
		case "restart":
			grace.ResetExpectations()
			out = append(out, nil)
		default:
			if only >= 0 && op.Owner != only {
				continue
			}
			g := int32(3)
			if op.Zero {
				g = 0
			}
			retry, _, _ := grace.RunWithGraceSeconds(op.Key, op.Action, g, func() (bool, error) {
				if op.Failed {
					return false, errors.New("injected")
				}
				return op.Modified, nil
			})
			r := retry
			out = append(out, &r)
		}
	}
	grace.ResetExpectations()
	return out
}

var scrubKeys = map[string]bool{"resourceVersion": true, "lastUpdateTime": true, "lastTransitionTime": true, "creationTimestamp": true, "managedFields": true,
	"deletionTimestamp": true, "message": true}

func scrub(v any) any {
	switch t := v.(type) {
	case map[string]any:
		for k, x := range t {
			if scrubKeys[k] {
				delete(t, k)
			} else {
				t[k] = scrub(x)
			}
		}
		return t
	case []any:
		for i := range t {
			t[i] = scrub(t[i])
		}
		return t
	}
	return v
}

// isoDigest lists everything a rollout owns or touches in its namespace and digests it without timestamps.
func isoDigest(cli client.Client, ns string) (string, string) {
	var all []any
	add := func(list client.ObjectList) {
		if err := cli.List(context.TODO(), list, client.InNamespace(ns)); err != nil {
			all = append(all, "list error: "+err.Error())
			return
		}
		by, _ := json.Marshal(list)
		var g map[string]any
		_ = json.Unmarshal(by, &g)
		items, _ := g["items"].([]any)
		if items == nil {
			items = []any{}
		}
		sort.Slice(items, func(i, j int) bool { a, _ := json.Marshal(items[i]); b, _ := json.Marshal(items[j]); return string(a) < string(b) })
		all = append(all, scrub(items))
	}
	add(&v1beta1.RolloutList{})
	add(&v1beta1.BatchReleaseList{})
	add(&kruiseappsv1alpha1.CloneSetList{})
	add(&corev1.ServiceList{})
	add(&netv1.IngressList{})
	by, _ := json.Marshal(all)
	h := sha1.Sum(by)
	return hex.EncodeToString(h[:])[:12], string(by)
}

func isoObjects(in TRInput, idx int) []client.Object {
	objs, _, _ := buildRolloutObjects(in.R, &in.X)
	ns := fmt.Sprintf("ns-%d", idx)
	suffix := fmt.Sprintf("-%d", idx)
	for _, o := range objs {
		o.SetNamespace(ns)
		o.SetUID(types.UID(string(o.GetUID()) + suffix))
		refs := o.GetOwnerReferences()
		for i := range refs {
			refs[i].UID = types.UID(string(refs[i].UID) + suffix)
		}
		o.SetOwnerReferences(refs)
	}
	return objs
}

func isoReconcile(cli client.Client, ns string, rounds int, jitter bool) (panicked string) {
	defer func() {
		if p := recover(); p != nil {
			panicked = fmt.Sprint(p)
		}
	}()
	rec := rollout.VerifNewReconciler(cli, FullScheme(), record.NewFakeRecorder(100000))
	for i := 0; i < rounds; i++ {
		if jitter {
			runtime.Gosched()
		}
		_, _ = rec.Reconcile(context.TODO(), ctrl.Request{NamespacedName: types.NamespacedName{Namespace: ns, Name: "ro"}})
	}
	return ""
}

func (isolationEngine) Run(inAny any) (out any) {
	in := inAny.(ISOInput)
	obs := ISOObs{}
	defer func() {
		if p := recover(); p != nil {
			obs.Panic = fmt.Sprint(p)
			out = obs
		}
	}()
	if in.Kind == "grace-par" {
		// the owners' calls run on concurrent goroutines against the one process-wide store
		grace.ResetExpectations()
		results := make([][]bool, in.Owners)
		var wg sync.WaitGroup
		for o := 0; o < in.Owners; o++ {
			wg.Add(1)
			go func(o int) {
				defer wg.Done()
				for _, op := range in.Ops {
					if op.Kind != "call" || op.Owner != o {
						continue
					}
					op := op
					g := int32(3)
					if op.Zero {
						g = 0
					}
					retry, _, _ := grace.RunWithGraceSeconds(op.Key, op.Action, g, func() (bool, error) {
						if op.Failed {
							return false, errors.New("injected")
						}
						return op.Modified, nil
					})
					results[o] = append(results[o], retry)
					runtime.Gosched()
				}
			}(o)
		}
		wg.Wait()
		var callsOnly []ISOGraceOp
		for _, op := range in.Ops {
			if op.Kind == "call" {
				callsOnly = append(callsOnly, op)
			}
		}
		for o := 0; o < in.Owners; o++ {
			var a []bool
			for _, r := range isoRunGrace(callsOnly, o) {
				if r != nil {
					a = append(a, *r)
				}
			}
			obs.Alone = append(obs.Alone, a)
			obs.Par = append(obs.Par, results[o])
		}
		grace.ResetExpectations()
		return obs
	}
	if in.Kind == "grace" {
		obs.Answers = isoRunGrace(in.Ops, -1)
		for o := 0; o < in.Owners; o++ {
			var a []bool
			for _, r := range isoRunGrace(in.Ops, o) {
				if r != nil {
					a = append(a, *r)
				}
			}
			obs.Alone = append(obs.Alone, a)
		}
		return obs
	}
	rollout.VerifSetGraceSeconds(3)
	var soloFull []string
	// solo runs
	for i, c := range in.Rollouts {
		grace.ResetExpectations()
		cli := fake.NewClientBuilder().WithScheme(FullScheme()).WithObjects(isoObjects(c, i)...).Build()
		if p := isoReconcile(cli, fmt.Sprintf("ns-%d", i), in.Rounds, false); p != "" {
			obs.Panic = "solo: " + p
		}
		d, full := isoDigest(cli, fmt.Sprintf("ns-%d", i))
		obs.Solo = append(obs.Solo, d)
		soloFull = append(soloFull, full)
	}
	// all together, one worker per rollout on one client and one process-wide state
	grace.ResetExpectations()
	var objs []client.Object
	for i, c := range in.Rollouts {
		objs = append(objs, isoObjects(c, i)...)
	}
	cli := fake.NewClientBuilder().WithScheme(FullScheme()).WithObjects(objs...).Build()
	var wg sync.WaitGroup
	panics := make([]string, len(in.Rollouts))
	for i := range in.Rollouts {
		wg.Add(1)
		go func(i int) {
			defer wg.Done()
			panics[i] = isoReconcile(cli, fmt.Sprintf("ns-%d", i), in.Rounds, true)
		}(i)
	}
	wg.Wait()
	for i := range in.Rollouts {
		if panics[i] != "" {
			obs.Panic = "together: " + panics[i]
		}
		d, full := isoDigest(cli, fmt.Sprintf("ns-%d", i))
		obs.Together = append(obs.Together, d)
		if d != obs.Solo[i] {
			obs.Detail = append(obs.Detail, [2]string{soloFull[i], full})
		}
	}
	grace.ResetExpectations()
	return obs
}

func (isolationEngine) Coq(inAny any, obsAny any) string {
	in, obs := inAny.(ISOInput), obsAny.(ISOObs)
	if in.Kind == "grace" {
		ops := emit.ListOf(in.Ops, func(o ISOGraceOp) string {
			switch o.Kind {
			case "tick":
				return "GTick"
			case "restart":
				return "GRestart"
			}
			return emit.App("GCall", emit.App("Build_gcall", emit.Pair(emit.Str(o.Key), emit.Str(o.Action)), emit.Bool(o.Zero), emit.Bool(o.Modified), emit.Bool(o.Failed)))
		})
		ans := emit.ListOf(obs.Answers, func(b *bool) string {
			if b == nil {
				return "None"
			}
			return emit.Some(emit.Bool(*b))
		})
		owners := make([]int, in.Owners)
		for i := range owners {
			owners[i] = i
		}
		alone := emit.ListOf(owners, func(o int) string {
			var keys []string
			seen := map[string]bool{}
			for _, op := range in.Ops {
				if op.Kind == "call" && op.Owner == o && !seen[op.Key] {
					seen[op.Key] = true
					keys = append(keys, op.Key)
				}
			}
			return emit.Pair(emit.ListOf(keys, emit.Str), emit.ListOf(obs.Alone[o], emit.Bool))
		})
		return emit.App("IGrace", ops, ans, alone, emit.Bool(obs.Panic != ""))
	}
	if in.Kind == "grace-par" {
		owners := make([]int, len(obs.Alone))
		for i := range owners {
			owners[i] = i
		}
		return emit.App("IGracePar", emit.ListOf(owners, func(o int) string {
			return emit.Pair(emit.ListOf(obs.Alone[o], emit.Bool), emit.ListOf(obs.Par[o], emit.Bool))
		}), emit.Bool(obs.Panic != ""))
	}
	n := len(obs.Solo)
	if len(obs.Together) < n {
		n = len(obs.Together)
	}
	idx := make([]int, n)
	for i := range idx {
		idx[i] = i
	}
	return emit.App("IPar", emit.ListOf(idx, func(i int) string { return emit.Pair(emit.Str(obs.Solo[i]), emit.Str(obs.Together[i])) }), emit.Bool(obs.Panic != ""))
}

func (isolationEngine) Gen(r *rand.Rand, idx int, tier string) any {
	if idx%4 != 0 {
		in := ISOInput{Kind: "grace", Owners: 2 + r.Intn(2)}
		n := 4 + r.Intn(14)
		if idx%4 == 2 {
			in.Kind, in.Owners, n = "grace-par", 3+r.Intn(4), 30+r.Intn(40)
		}
		for i := 0; i < n; i++ {
			switch r.Intn(12) {
			case 0:
				in.Ops = append(in.Ops, ISOGraceOp{Kind: "tick"})
			case 1:
				if chance(r, 40) {
					in.Ops = append(in.Ops, ISOGraceOp{Kind: "restart"})
				} else {
					in.Ops = append(in.Ops, ISOGraceOp{Kind: "tick"})
				}
			default:
				o := r.Intn(in.Owners)
				// the keys the traffic manager derives: rollout UID, stable Service UID, namespace/name of the canary Service
				key := pick(r, fmt.Sprintf("ro-uid-%d", o), fmt.Sprintf("svc-uid-%d", o), fmt.Sprintf("ns-%d/svc-canary", o))
				act := map[string][]string{"ro": {"updateRoute", "restoreGateway"}, "sv": {"patchService", "restoreService"}, "ns": {"removeCanaryService"}}[key[:2]]
				in.Ops = append(in.Ops, ISOGraceOp{Kind: "call", Owner: o, Key: key, Action: act[r.Intn(len(act))], Zero: chance(r, 10), Modified: chance(r, 35), Failed: chance(r, 8)})
			}
		}
		return in
	}
	in := ISOInput{Kind: "parallel", Rounds: 3 + r.Intn(4)}
	k := 2 + r.Intn(3)
	for i := 0; i < k; i++ {
		c := rollouttrEngine{}.Gen(r, (idx/4)*3+i, tier).(TRInput)
		// expectations are process-wide and start empty in both runs
		c.X.Pending = nil
		if chance(r, 70) && c.R.Status.Sub != nil && c.R.W.Exists {
			// a Rollout in the middle of its cleanup with everything still in place: every reconcile goes through the
			// grace store
			c.R.W.ObsGen = c.R.W.Gen
			c.R.Deleting, c.R.Disabled, c.R.Finalizer = false, false, true
			c.R.Status.Phase, c.R.Status.Prog, c.R.Status.ProgStatus, c.R.Status.Term = "Progressing", pick(r, "Finalising", "Cancelling"), true, ""
			c.R.Status.Sub.Fin = pick(r, "", "RestoreStableService", "FinalisingStepRouteTrafficToStable", "RemoveCanaryService")
			c.R.Status.Sub.Elapsed = true
			c.X.Net.StableExists, c.X.Net.StableSel = true, c.R.Status.Sub.Stable
			cs := c.R.Status.Sub.PTH
			c.X.Net.CanarySvc = &cs
			w := 20
			c.X.Net.Route = &TMStrategy{Weight: &w}
			c.X.ZeroGrace = chance(r, 30)
		}
		in.Rollouts = append(in.Rollouts, c)
	}
	return in
}

var _ = strings.TrimSpace
