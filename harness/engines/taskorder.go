package engines

// taskorder: the finalising task order as the REAL nextCanaryTask / nextBlueGreenTask hand it out, walked from a cursor to
// END (C04, C06: the tables of gen/TaskTables.v are what the translator reads out of the source; this engine checks the same
// orders by running the functions, which gives a concrete (style, reason, cursor) when an order is wrong).

import (
	"encoding/json"
	"math/rand"

	"github.com/openkruise/rollouts/api/v1beta1"
	"github.com/openkruise/rollouts/pkg/controller/rollout"

	"verifharness/emit"
)

type TOInput struct {
	BlueGreen bool   `json:"bluegreen"`
	Reason    string `json:"reason"`
	Start     string `json:"start"` // the persisted cursor: "" = not started
}

type TOObs struct {
	Walk []string `json:"walk"` // the tasks handed out from Start until END (END excluded)
	Loop bool     `json:"loop"` // END was not reached within 16 steps
}

type taskorderEngine struct{}

func init() { Register(taskorderEngine{}) }

func (taskorderEngine) Name() string      { return "taskorder" }
func (taskorderEngine) CoqModule() string { return "Corr.TaskOrder" }
func (taskorderEngine) Decode(raw json.RawMessage) (any, error) {
	var in TOInput
	err := json.Unmarshal(raw, &in)
	return in, err
}

var toReasons = []string{v1beta1.FinaliseReasonSuccess, v1beta1.FinaliseReasonRollback, v1beta1.FinaliseReasonContinuous, v1beta1.FinaliseReasonDisalbed, v1beta1.FinaliseReasonDelete}
var toTasks = []string{"", string(v1beta1.FinalisingStepRouteTrafficToNew), string(v1beta1.FinalisingStepRouteTrafficToStable), string(v1beta1.FinalisingStepRestoreStableService),
	string(v1beta1.FinalisingStepRemoveCanaryService), string(v1beta1.FinalisingStepResumeWorkload), string(v1beta1.FinalisingStepReleaseWorkloadControl)}

func (taskorderEngine) Gen(r *rand.Rand, idx int, tier string) any {
	// the whole (finite) domain, enumerated: 2 styles x 5 reasons x 7 cursors
	k := idx % (2 * len(toReasons) * len(toTasks))
	return TOInput{BlueGreen: k%2 == 1, Reason: toReasons[(k/2)%len(toReasons)], Start: toTasks[(k/(2*len(toReasons)))%len(toTasks)]}
}

func (taskorderEngine) Run(inAny any) any {
	in := inAny.(TOInput)
	obs := TOObs{}
	cur := v1beta1.FinalisingStepType(in.Start)
	for i := 0; i < 16; i++ {
		if in.BlueGreen {
			cur = rollout.VerifNextBlueGreenTask(in.Reason, cur)
		} else {
			cur = rollout.VerifNextCanaryTask(in.Reason, cur)
		}
		if cur == v1beta1.FinalisingStepTypeEnd {
			return obs
		}
		obs.Walk = append(obs.Walk, string(cur))
	}
	obs.Loop = true
	return obs
}

var toTaskCoq = map[string]string{"": "None", string(v1beta1.FinalisingStepRouteTrafficToNew): "TRouteNew", string(v1beta1.FinalisingStepRouteTrafficToStable): "TRouteStable",
	string(v1beta1.FinalisingStepRestoreStableService): "TRestoreStable", string(v1beta1.FinalisingStepRemoveCanaryService): "TRemoveCanarySvc",
	string(v1beta1.FinalisingStepResumeWorkload): "TResume", string(v1beta1.FinalisingStepReleaseWorkloadControl): "TRelease",
	string(v1beta1.FinalisingStepWaitEndless): "TWaitEndless"}
var toReasonCoq = map[string]string{v1beta1.FinaliseReasonSuccess: "RSuccess", v1beta1.FinaliseReasonRollback: "RRollback", v1beta1.FinaliseReasonContinuous: "RContinuous",
	v1beta1.FinaliseReasonDisalbed: "RDisabled", v1beta1.FinaliseReasonDelete: "RDelete"}

func (taskorderEngine) Coq(inAny any, obsAny any) string {
	in, obs := inAny.(TOInput), obsAny.(TOObs)
	start := "None"
	if in.Start != "" {
		start = emit.Some(toTaskCoq[in.Start])
	}
	unknown := false
	walk := emit.ListOf(obs.Walk, func(t string) string {
		if c, ok := toTaskCoq[t]; ok && t != "" {
			return c
		}
		unknown = true
		return "TEnd"
	})
	return emit.App("Build_tocase", emit.Bool(in.BlueGreen), toReasonCoq[in.Reason], start, walk, emit.Bool(obs.Loop || unknown))
}
