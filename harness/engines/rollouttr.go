package engines

import (
	"encoding/json"
	"math/rand"

	"verifharness/emit"
)

// TRInput is a rollout case (see rolloutsm.go) whose canary strategy routes traffic through an nginx Ingress.
type TRInput struct {
	R RInput `json:"r"`
	X TRExt  `json:"x"`
}
type TRObs struct {
	R RObs     `json:"r"`
	X TRObsExt `json:"x"`
}

type rollouttrEngine struct{}

func init() { Register(rollouttrEngine{}) }

func (rollouttrEngine) Name() string      { return "rollouttr" }
func (rollouttrEngine) CoqModule() string { return "Corr.RolloutTR" }
func (rollouttrEngine) Decode(raw json.RawMessage) (any, error) {
	var in TRInput
	err := json.Unmarshal(raw, &in)
	return in, err
}

func (rollouttrEngine) Run(inAny any) any {
	in := inAny.(TRInput)
	r, x := runRolloutCase(in.R, &in.X)
	return TRObs{R: r, X: x}
}

var tmActions = []string{"updateRoute", "restoreGateway", "removeCanaryService", "patchService", "restoreService"}

func (rollouttrEngine) Gen(r *rand.Rand, idx int, tier string) any {
	base := rolloutsmEngine{}.Gen(r, idx, tier).(RInput)
	x := TRExt{ZeroGrace: chance(r, 15), FailGateway: chance(r, 7)}
	x.FailWlRead = !x.FailGateway && chance(r, 6)
	w := 0
	for i := range base.Steps {
		s := TMStrategy{}
		switch r.Intn(6) {
		case 0: // no traffic on this step
		case 1:
			s.Match = pick(r, "a", "b")
		default:
			w += 5 + r.Intn(40)
			if w > 100 || (i == len(base.Steps)-1 && chance(r, 50)) {
				w = 100
			}
			v := w
			s.Weight = &v
		}
		x.Strategies = append(x.Strategies, s)
	}
	stable, canary := "v1", "v2"
	if base.Status.Sub != nil {
		if base.Status.Sub.Stable != "" {
			stable = base.Status.Sub.Stable
		}
		if base.Status.Sub.PTH != "" {
			canary = base.Status.Sub.PTH
		}
	}
	x.Net.StableExists = !chance(r, 3)
	if x.Net.StableExists && chance(r, 55) {
		x.Net.StableSel = stable
		if chance(r, 8) {
			x.Net.StableSel = "v0"
		}
	}
	if chance(r, 50) {
		c := canary
		if chance(r, 10) {
			c = pick(r, "v1", "")
		}
		x.Net.CanarySvc = &c
	}
	if chance(r, 50) {
		var s TMStrategy
		if len(x.Strategies) > 0 && chance(r, 70) {
			s = x.Strategies[r.Intn(len(x.Strategies))]
		} else {
			s = genTMStrategy(r)
		}
		if s.Weight == nil && s.Match == "" {
			z := 0
			s.Weight = &z
		}
		x.Net.Route = &s
	}
	for _, a := range tmActions {
		if chance(r, 15) {
			x.Pending = append(x.Pending, TRPending{Action: a, Elapsed: chance(r, 50)})
		}
	}
	// more traffic-relevant sub-states than the base generator draws
	if base.Status.Sub != nil && chance(r, 45) {
		base.Status.Sub.State = pick(r, "BeforeStepUpgrade", "StepTrafficRouting", "StepTrafficRouting", "StepUpgrade")
	}
	if base.Status.Sub != nil && chance(r, 25) && (base.Status.Prog == "Finalising" || base.Status.Prog == "Cancelling" || base.Status.Phase == "Terminating" || base.Status.Phase == "Disabling") {
		base.Status.Sub.Fin = pick(r, "", "RestoreStableService", "FinalisingStepRouteTrafficToStable", "RemoveCanaryService", "ResumeWorkload", "ReleaseWorkloadControl")
	}
	// focused mode: a healthy rollout in the traffic-routing state (or about to create the first step's pods), with the
	// network one or two actions away from what the step wants
	if idx%3 == 0 && base.Status.Sub != nil && base.Status.Prog == "InRolling" && len(base.Steps) > 0 {
		sub := base.Status.Sub
		sub.State = pick(r, "StepTrafficRouting", "StepTrafficRouting", "StepTrafficRouting", "BeforeStepUpgrade")
		if sub.State == "BeforeStepUpgrade" && chance(r, 60) {
			sub.Idx, sub.Next = 1, 2
			if len(base.Steps) == 1 {
				sub.Next = -1
			}
			if base.BR != nil && chance(r, 50) {
				base.BR = nil
			}
		}
		sub.Elapsed = !chance(r, 15)
		x.Pending = nil
		if chance(r, 20) {
			x.Pending = []TRPending{{Action: pick(r, "patchService", "restoreService"), Elapsed: chance(r, 50)}}
		}
		if sub.Idx >= 1 && sub.Idx <= len(x.Strategies) && x.Strategies[sub.Idx-1].Weight == nil && x.Strategies[sub.Idx-1].Match == "" && chance(r, 70) {
			v := 10 * sub.Idx
			x.Strategies[sub.Idx-1].Weight = &v
		}
		x.Net.StableExists = true
		x.Net.StableSel = sub.Stable
		c := sub.PTH
		x.Net.CanarySvc = &c
		x.Net.Route = nil
		switch r.Intn(8) {
		case 0:
			x.Net.StableSel = ""
		case 1:
			x.Net.CanarySvc = nil
		case 2:
			o := "v0"
			x.Net.CanarySvc = &o
		case 3, 4: // the route already carries this step's strategy
			if sub.Idx >= 1 && sub.Idx <= len(x.Strategies) {
				st := x.Strategies[sub.Idx-1]
				if st.Weight != nil || st.Match != "" {
					x.Net.Route = &st
				}
			}
		case 5: // the route of the previous step
			if sub.Idx >= 2 && sub.Idx-1 <= len(x.Strategies) {
				st := x.Strategies[sub.Idx-2]
				if st.Weight != nil || st.Match != "" {
					x.Net.Route = &st
				}
			}
		case 6:
			z := 0
			x.Net.Route = &TMStrategy{Weight: &z}
		}
	}
	return TRInput{R: base, X: x}
}

func (rollouttrEngine) Coq(inAny any, obsAny any) string {
	in, obs := inAny.(TRInput), obsAny.(TRObs)
	inner := rolloutsmEngine{}.Coq(in.R, obs.R)
	pend := emit.ListOf(in.X.Pending, func(p TRPending) string { return emit.Pair(tmActionNames[p.Action], emit.Bool(p.Elapsed)) })
	opend := emit.ListOf(obs.X.Pending, func(p string) string { return tmActionNames[p] })
	return emit.App("Build_trcase", inner, emit.ListOf(in.X.Strategies, coqTMStrategy), emit.Bool(in.X.ZeroGrace), emit.Bool(in.X.FailGateway), coqTMNet(in.X.Net), pend,
		coqTMNet(obs.X.Net), emit.ListOf(obs.X.Writes, emit.Str), opend, emit.Bool(in.X.FailWlRead))
}
