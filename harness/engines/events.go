package engines

// events: which watch events wake which controller.  The real event handlers of the BatchRelease controller (workload and
// pod events) and of the Rollout controller (workload and BatchRelease events) are fed generated events and the
// reconcile requests they put on a work queue are compared with coq/Model/Events.v.

import (
	"encoding/json"
	"fmt"
	"math/rand"

	kruiseappsv1alpha1 "github.com/openkruise/kruise-api/apps/v1alpha1"
	kruiseappsv1beta1 "github.com/openkruise/kruise-api/apps/v1beta1"
	corev1 "k8s.io/api/core/v1"
	metav1 "k8s.io/apimachinery/pkg/apis/meta/v1"
	"k8s.io/apimachinery/pkg/types"
	"k8s.io/client-go/util/workqueue"
	"k8s.io/utils/pointer"
	"sigs.k8s.io/controller-runtime/pkg/client"
	"sigs.k8s.io/controller-runtime/pkg/client/fake"
	"sigs.k8s.io/controller-runtime/pkg/event"
	"sigs.k8s.io/controller-runtime/pkg/reconcile"

	"github.com/openkruise/rollouts/api/v1beta1"
	"github.com/openkruise/rollouts/pkg/controller/batchrelease"
	"github.com/openkruise/rollouts/pkg/controller/rollout"
	"github.com/openkruise/rollouts/pkg/util"

	"verifharness/emit"
)

type EVRef struct {
	Name   string `json:"name"`
	Kind   string `json:"kind"`
	APIVer string `json:"api_version"`
	Target string `json:"target"`
}
type EVStatus struct {
	Replicas  int    `json:"replicas"`
	Updated   int    `json:"updated"`
	Ready     int    `json:"ready"`
	ObsGen    int    `json:"obs_gen"`
	UpdateRev string `json:"update_rev"`
}
type EVWorkload struct {
	Kind   string   `json:"kind,omitempty"` // "" = CloneSet | AdvStatefulSet (apps.kruise.io/v1beta1 StatefulSet)
	Name   string   `json:"name"`
	Ctl    string   `json:"ctl"` // none | br:<name> | other:<name> | garbage
	RV     int      `json:"rv"`
	Gen    int      `json:"gen"`
	Status EVStatus `json:"status"`
}
type EVPod struct {
	RV       int    `json:"rv"`
	Revision string `json:"revision"`
	Ready    bool   `json:"ready"`
}
type EVInput struct {
	Handler string `json:"handler"` // br-workload | br-pod | ro-workload | ro-br
	Event   string `json:"event"`   // create | update | delete
	BRs     []EVRef `json:"brs,omitempty"`
	Rollouts []EVRef `json:"rollouts,omitempty"`
	Old     EVWorkload `json:"old"`
	New     EVWorkload `json:"new"`
	HasOwner bool  `json:"has_owner,omitempty"` // br-pod: the owning CloneSet exists
	OldPod  EVPod  `json:"old_pod"`
	NewPod  EVPod  `json:"new_pod"`
	BRName  string `json:"br_name,omitempty"` // ro-br
}
type EVObs struct {
	Panic    string   `json:"panic,omitempty"`
	Enqueued []string `json:"enqueued"`
}

type eventsEngine struct{}

func init() { Register(eventsEngine{}) }

func (eventsEngine) Name() string      { return "events" }
func (eventsEngine) CoqModule() string { return "Corr.Events" }
func (eventsEngine) Decode(raw json.RawMessage) (any, error) {
	var in EVInput
	err := json.Unmarshal(raw, &in)
	return in, err
}

func genEVWorkload(r *rand.Rand) EVWorkload {
	w := EVWorkload{Name: pick(r, "wl", "wl", "other"), RV: 10 + r.Intn(3), Gen: 1 + r.Intn(3)}
	w.Ctl = pick(r, "none", "br:br", "br:br", "br:br2", "other:x", "garbage", "br:")
	w.Status = EVStatus{Replicas: 5, Updated: r.Intn(6), Ready: r.Intn(6), ObsGen: w.Gen - r.Intn(2), UpdateRev: pick(r, "v2", "v2", "v3")}
	return w
}

func (eventsEngine) Gen(r *rand.Rand, idx int, tier string) any {
	in := EVInput{Handler: pick(r, "br-workload", "br-workload", "br-pod", "ro-workload", "ro-br"), Event: pick(r, "update", "update", "update", "create", "delete")}
	nb := r.Intn(4)
	for i := 0; i < nb; i++ {
		in.BRs = append(in.BRs, EVRef{Name: fmt.Sprintf("br%d", i), Kind: pick(r, "CloneSet", "CloneSet", "Deployment"), APIVer: pick(r, "apps.kruise.io/v1alpha1", "apps.kruise.io/v1alpha1", "apps/v1", "apps.kruise.io/v1beta1"),
			Target: pick(r, "wl", "wl", "other")})
	}
	nr := r.Intn(4)
	for i := 0; i < nr; i++ {
		in.Rollouts = append(in.Rollouts, EVRef{Name: fmt.Sprintf("ro%d", i), Kind: pick(r, "CloneSet", "CloneSet", "Deployment"), APIVer: pick(r, "apps.kruise.io/v1alpha1", "apps.kruise.io/v1alpha1", "apps/v1", "a/b/c"),
			Target: pick(r, "wl", "wl", "other")})
	}
	in.Old = genEVWorkload(r)
	if chance(r, 30) {
		in.Old.Kind = "AdvStatefulSet"
		// Rollouts / BatchReleases may name the Advanced StatefulSet through the older API version of the same group
		for i := range in.Rollouts {
			if chance(r, 70) {
				in.Rollouts[i].Kind, in.Rollouts[i].APIVer = "StatefulSet", pick(r, "apps.kruise.io/v1alpha1", "apps.kruise.io/v1beta1", "apps/v1")
			}
		}
		for i := range in.BRs {
			if chance(r, 70) {
				in.BRs[i].Kind, in.BRs[i].APIVer = "StatefulSet", pick(r, "apps.kruise.io/v1alpha1", "apps.kruise.io/v1beta1", "apps/v1")
			}
		}
	}
	if in.Handler == "br-pod" {
		in.Old.Kind = "" // the pod's owner is a CloneSet in this harness
	}
	in.New = in.Old
	switch r.Intn(6) {
	case 0: // nothing but the resourceVersion
		in.New.RV++
	case 1: // the workload controller catches up
		in.New.RV++
		in.New.Status.ObsGen = in.New.Gen
		in.Old.Status.ObsGen = in.New.Gen - 1
	case 2: // pods become updated / ready
		in.New.RV++
		in.New.Status.Updated, in.New.Status.Ready = minInt(in.Old.Status.Updated+1, 5), minInt(in.Old.Status.Ready+1, 5)
	case 3: // spec change
		in.New.RV++
		in.New.Gen++
	case 4: // same object delivered again (resync)
	default:
		in.New = genEVWorkload(r)
		in.New.Name = in.Old.Name
	}
	in.HasOwner = !chance(r, 12)
	in.OldPod = EVPod{RV: 5, Revision: pick(r, "v2", "v2", ""), Ready: chance(r, 50)}
	in.NewPod = in.OldPod
	switch r.Intn(5) {
	case 0:
		in.NewPod.RV++
	case 1, 2:
		in.NewPod.RV++
		in.NewPod.Ready = !in.OldPod.Ready
	case 3:
		in.NewPod.RV++
		in.NewPod.Revision = "v3"
	}
	in.BRName = pick(r, "ro0", "br", "x")
	return in
}

func evCloneSet(w EVWorkload) *kruiseappsv1alpha1.CloneSet {
	cs := &kruiseappsv1alpha1.CloneSet{TypeMeta: metav1.TypeMeta{APIVersion: "apps.kruise.io/v1alpha1", Kind: "CloneSet"},
		ObjectMeta: metav1.ObjectMeta{Namespace: "ns", Name: w.Name, UID: types.UID(w.Name + "-uid"), ResourceVersion: fmt.Sprint(w.RV), Generation: int64(w.Gen), Annotations: map[string]string{}},
		Spec: kruiseappsv1alpha1.CloneSetSpec{Replicas: pointer.Int32(5), Selector: &metav1.LabelSelector{MatchLabels: map[string]string{"app": "demo"}}, Template: podTemplate()}}
	cs.Status = kruiseappsv1alpha1.CloneSetStatus{Replicas: int32(w.Status.Replicas), UpdatedReplicas: int32(w.Status.Updated), ReadyReplicas: int32(w.Status.Ready),
		ObservedGeneration: int64(w.Status.ObsGen), UpdateRevision: w.Status.UpdateRev, CurrentRevision: "v1"}
	switch {
	case w.Ctl == "none":
	case w.Ctl == "garbage":
		cs.Annotations[util.BatchReleaseControlAnnotation] = "{not json"
	case len(w.Ctl) >= 3 && w.Ctl[:3] == "br:":
		ref := metav1.OwnerReference{APIVersion: v1beta1.GroupVersion.String(), Kind: "BatchRelease", Name: w.Ctl[3:], UID: "br-uid", Controller: pointer.Bool(true)}
		cs.Annotations[util.BatchReleaseControlAnnotation] = util.DumpJSON(&ref)
	default:
		ref := metav1.OwnerReference{APIVersion: "example.io/v1", Kind: "Thing", Name: w.Ctl[6:], UID: "x-uid"}
		cs.Annotations[util.BatchReleaseControlAnnotation] = util.DumpJSON(&ref)
	}
	return cs
}

func evWorkloadObj(w EVWorkload) client.Object {
	cs := evCloneSet(w)
	if w.Kind != "AdvStatefulSet" {
		return cs
	}
	st := &kruiseappsv1beta1.StatefulSet{TypeMeta: metav1.TypeMeta{APIVersion: "apps.kruise.io/v1beta1", Kind: "StatefulSet"}, ObjectMeta: cs.ObjectMeta,
		Spec: kruiseappsv1beta1.StatefulSetSpec{Replicas: pointer.Int32(5), Selector: cs.Spec.Selector, Template: cs.Spec.Template}}
	st.Status = kruiseappsv1beta1.StatefulSetStatus{Replicas: cs.Status.Replicas, UpdatedReplicas: cs.Status.UpdatedReplicas, ReadyReplicas: cs.Status.ReadyReplicas,
		ObservedGeneration: cs.Status.ObservedGeneration, UpdateRevision: cs.Status.UpdateRevision, CurrentRevision: "v1"}
	return st
}

func evPod(p EVPod, owner string) *corev1.Pod {
	pod := &corev1.Pod{ObjectMeta: metav1.ObjectMeta{Namespace: "ns", Name: "pod-0", ResourceVersion: fmt.Sprint(p.RV), Labels: map[string]string{"app": "demo"},
		OwnerReferences: []metav1.OwnerReference{{APIVersion: "apps.kruise.io/v1alpha1", Kind: "CloneSet", Name: owner, UID: types.UID(owner + "-uid"), Controller: pointer.Bool(true)}}}}
	if p.Revision != "" {
		pod.Labels["controller-revision-hash"] = p.Revision
	}
	st := corev1.ConditionFalse
	if p.Ready {
		st = corev1.ConditionTrue
	}
	pod.Status.Conditions = []corev1.PodCondition{{Type: corev1.PodReady, Status: st}}
	return pod
}

func (eventsEngine) Run(inAny any) (res any) {
	in := inAny.(EVInput)
	obs := EVObs{}
	defer func() {
		if p := recover(); p != nil {
			obs.Panic = fmt.Sprint(p)
			res = obs
		}
	}()
	var objs []client.Object
	for _, b := range in.BRs {
		objs = append(objs, &v1beta1.BatchRelease{ObjectMeta: metav1.ObjectMeta{Namespace: "ns", Name: b.Name},
			Spec: v1beta1.BatchReleaseSpec{WorkloadRef: v1beta1.ObjectRef{APIVersion: b.APIVer, Kind: b.Kind, Name: b.Target}}})
	}
	for _, ro := range in.Rollouts {
		objs = append(objs, &v1beta1.Rollout{ObjectMeta: metav1.ObjectMeta{Namespace: "ns", Name: ro.Name},
			Spec: v1beta1.RolloutSpec{WorkloadRef: v1beta1.ObjectRef{APIVersion: ro.APIVer, Kind: ro.Kind, Name: ro.Target}}})
	}
	oldCS, newCS := evWorkloadObj(in.Old), evWorkloadObj(in.New)
	if in.Handler == "br-pod" && in.HasOwner {
		c := evCloneSet(in.New)
		c.ResourceVersion = ""
		objs = append(objs, c)
	}
	cli := fake.NewClientBuilder().WithScheme(FullScheme()).WithObjects(objs...).Build()
	q := workqueue.NewRateLimitingQueue(workqueue.DefaultControllerRateLimiter())
	defer q.ShutDown()
	switch in.Handler {
	case "br-workload":
		h := batchrelease.VerifWorkloadEventHandler(cli)
		switch in.Event {
		case "create":
			h.Create(event.CreateEvent{Object: newCS}, q)
		case "delete":
			h.Delete(event.DeleteEvent{Object: newCS}, q)
		default:
			h.Update(event.UpdateEvent{ObjectOld: oldCS, ObjectNew: newCS}, q)
		}
	case "br-pod":
		h := batchrelease.VerifPodEventHandler(cli)
		switch in.Event {
		case "create":
			h.Create(event.CreateEvent{Object: evPod(in.NewPod, in.New.Name)}, q)
		case "delete":
			h.Delete(event.DeleteEvent{Object: evPod(in.NewPod, in.New.Name)}, q)
		default:
			h.Update(event.UpdateEvent{ObjectOld: evPod(in.OldPod, in.New.Name), ObjectNew: evPod(in.NewPod, in.New.Name)}, q)
		}
	case "ro-workload":
		h := rollout.VerifWorkloadEventHandler(cli, FullScheme())
		switch in.Event {
		case "create":
			h.Create(event.CreateEvent{Object: newCS}, q)
		case "delete":
			h.Delete(event.DeleteEvent{Object: newCS}, q)
		default:
			h.Update(event.UpdateEvent{ObjectOld: oldCS, ObjectNew: newCS}, q)
		}
	default:
		h := rollout.VerifBatchReleaseEventHandler(cli)
		br := &v1beta1.BatchRelease{ObjectMeta: metav1.ObjectMeta{Namespace: "ns", Name: in.BRName}}
		switch in.Event {
		case "create":
			h.Create(event.CreateEvent{Object: br}, q)
		case "delete":
			h.Delete(event.DeleteEvent{Object: br}, q)
		default:
			h.Update(event.UpdateEvent{ObjectOld: br, ObjectNew: br}, q)
		}
	}
	for q.Len() > 0 {
		item, _ := q.Get()
		if rq, ok := item.(reconcile.Request); ok {
			obs.Enqueued = append(obs.Enqueued, rq.Name)
		}
		q.Done(item)
	}
	return obs
}

func coqEVWorkload(w EVWorkload) string {
	ctl := "CiNone"
	switch {
	case w.Ctl == "none":
	case w.Ctl == "garbage":
		ctl = "CiGarbage"
	case len(w.Ctl) >= 3 && w.Ctl[:3] == "br:":
		ctl = emit.App("CiBatchRelease", emit.Str(w.Ctl[3:]))
	default:
		ctl = emit.App("CiOtherKind", emit.Str(w.Ctl[6:]))
	}
	st := emit.App("Build_wstatus", emit.Z(int64(w.Status.Replicas)), emit.Z(int64(w.Status.Updated)), emit.Z(int64(w.Status.Ready)), emit.Z(int64(w.Status.ObsGen)), emit.Str(w.Status.UpdateRev))
	kind := "CloneSet"
	if w.Kind == "AdvStatefulSet" {
		kind = "StatefulSet"
	}
	return emit.App("Build_wobj", emit.Str(kind), emit.Str("apps.kruise.io"), emit.Str(w.Name), ctl, emit.Z(int64(w.RV)), emit.Z(int64(w.Gen)), st)
}

func groupOf(apiVersion string) (string, bool) {
	n := 0
	idx := -1
	for i, c := range apiVersion {
		if c == '/' {
			n++
			idx = i
		}
	}
	switch n {
	case 0:
		return "", true
	case 1:
		return apiVersion[:idx], true
	}
	return "", false
}

func (eventsEngine) Coq(inAny any, obsAny any) string {
	in, obs := inAny.(EVInput), obsAny.(EVObs)
	brs := emit.ListOf(in.BRs, func(b EVRef) string {
		g, _ := groupOf(b.APIVer)
		return emit.App("Build_brref", emit.Str(b.Name), emit.Str(b.Kind), emit.Str(g), emit.Str(b.Target))
	})
	ros := emit.ListOf(in.Rollouts, func(b EVRef) string {
		g, ok := groupOf(b.APIVer)
		gs := "None"
		if ok {
			gs = emit.Some(emit.Str(g))
		}
		return emit.App("Build_roref", emit.Str(b.Name), emit.Str(b.Kind), gs, emit.Str(b.Target))
	})
	pod := func(p EVPod) string { return emit.App("Build_podobs", emit.Z(int64(p.RV)), emit.Str(p.Revision), emit.Bool(p.Ready)) }
	h := map[string]string{"br-workload": "HBrWorkload", "br-pod": "HBrPod", "ro-workload": "HRoWorkload", "ro-br": "HRoBr"}[in.Handler]
	e := map[string]string{"create": "EvCreate", "update": "EvUpdate", "delete": "EvDelete"}[in.Event]
	input := emit.App("Build_ev_in", h, e, brs, ros, coqEVWorkload(in.Old), coqEVWorkload(in.New), emit.Bool(in.HasOwner), pod(in.OldPod), pod(in.NewPod), emit.Str(in.BRName))
	return emit.Pair(input, emit.Pair(emit.Bool(obs.Panic != ""), emit.ListOf(obs.Enqueued, emit.Str)))
}
