package engines

import (
	"context"
	"encoding/json"
	"fmt"
	"math/rand"
	"reflect"
	"sort"
	"strconv"

	corev1 "k8s.io/api/core/v1"
	netv1 "k8s.io/api/networking/v1"
	metav1 "k8s.io/apimachinery/pkg/apis/meta/v1"
	"k8s.io/apimachinery/pkg/types"
	"sigs.k8s.io/controller-runtime/pkg/client"
	"sigs.k8s.io/controller-runtime/pkg/client/fake"
	gatewayv1beta1 "sigs.k8s.io/gateway-api/apis/v1beta1"

	"github.com/openkruise/rollouts/api/v1beta1"
	"github.com/openkruise/rollouts/pkg/trafficrouting/network/ingress"

	"verifharness/emit"
)

type IngOp struct {
	Kind     string                           `json:"kind"` // ensure | finalise
	Traffic  *string                          `json:"traffic,omitempty"`
	Matches  []v1beta1.HttpRouteMatch         `json:"matches,omitempty"`
	Modifier *gatewayv1beta1.HTTPHeaderFilter `json:"modifier,omitempty"`
}

type IngInput struct {
	Class   string         `json:"class"`
	Stable  string         `json:"stable"`
	Canary  string         `json:"canary"`
	Ingress *netv1.Ingress `json:"ingress"`
	Ops     []IngOp        `json:"ops"`
}

type IngCall struct {
	Panic  string         `json:"panic,omitempty"`
	Err    string         `json:"err,omitempty"`
	Flag   bool           `json:"flag"`
	Canary *netv1.Ingress `json:"canary,omitempty"`
}

type IngObs struct {
	Calls           []IngCall         `json:"calls"`
	StableUnchanged bool              `json:"stable_unchanged"`
	Fresh           map[string]string `json:"fresh,omitempty"`
	HasFresh        bool              `json:"has_fresh"`
}

type ingressEngine struct{}

func init() { Register(ingressEngine{}) }

func (ingressEngine) Name() string      { return "ingress" }
func (ingressEngine) CoqModule() string { return "Corr.Ingress" }
func (ingressEngine) Decode(raw json.RawMessage) (any, error) {
	var in IngInput
	err := json.Unmarshal(raw, &in)
	return in, err
}

func genIngStrategy(r *rand.Rand, class string) IngOp {
	op := IngOp{Kind: "ensure"}
	if chance(r, 70) {
		s := strconv.Itoa(pick(r, 0, 1, 5, 20, 50, 100, r.Intn(101))) + "%"
		op.Traffic = &s
	}
	if chance(r, 50) {
		nm := 1 + r.Intn(2)
		for j := 0; j < nm; j++ {
			m := v1beta1.HttpRouteMatch{}
			names := []string{"user", "x-canary", "canary-by-cookie"}
			withHeaders := chance(r, 85)
			if class == "nginx" || class == "mse" {
				withHeaders = chance(r, 70)
			}
			if withHeaders {
				m.Headers = genHeaderMatches(r, 1+r.Intn(2), names)
			}
			if class == "mse" && chance(r, 50) {
				m.QueryParams = genQueryMatches(r, 1)
				if chance(r, 30) {
					t := gatewayv1beta1.QueryParamMatchRegularExpression
					m.QueryParams[0].Type = &t
				}
			}
			op.Matches = append(op.Matches, m)
		}
	}
	if class == "mse" && chance(r, 35) {
		op.Modifier = &gatewayv1beta1.HTTPHeaderFilter{}
		for j := 0; j < pick(r, 1, 1, 2, 0); j++ {
			op.Modifier.Set = append(op.Modifier.Set, gatewayv1beta1.HTTPHeader{Name: gatewayv1beta1.HTTPHeaderName(pick(r, "x-a", "x-b")), Value: "v" + strconv.Itoa(r.Intn(5))})
		}
	}
	return op
}

func (ingressEngine) Gen(r *rand.Rand, idx int, tier string) any {
	class := []string{"nginx", "aliyun-alb", "higress", "mse"}[idx%4]
	in := IngInput{Class: class, Stable: "svc", Canary: "svc-canary"}
	ing := &netv1.Ingress{ObjectMeta: metav1.ObjectMeta{Namespace: "ns", Name: "web"}}
	if chance(r, 70) {
		ing.Annotations = map[string]string{}
		for _, kv := range [][2]string{{"kubernetes.io/ingress.class", "nginx"}, {"nginx.ingress.kubernetes.io/rewrite-target", "/"},
			{"mse.ingress.kubernetes.io/service-subset", "base"}, {"nginx.ingress.kubernetes.io/canary-weight", "7"},
			{"alb.ingress.kubernetes.io/order", "9"}, {"example.com/team", "a"},
			// annotations of the stable Ingress that name its backend, or look like keys the class scripts manage
			{"alb.ingress.kubernetes.io/backend-svcs-protocols", `{"svc":"grpc"}`}, {"nginx.ingress.kubernetes.io/backend-protocol", "GRPC"},
			{"alb.ingress.kubernetes.io/conditions.svc", `[{"type":"Header"}]`}, {"nginx.ingress.kubernetes.io/canary-by-header", "stale"},
			{"mse.ingress.kubernetes.io/request-header-control-update", "x-old v9"}} {
			if chance(r, 35) {
				ing.Annotations[kv[0]] = kv[1]
			}
		}
	}
	if chance(r, 40) {
		ing.Labels = map[string]string{"app": "web"}
	}
	pt := netv1.PathTypePrefix
	pe := netv1.PathTypeExact
	badProb := 8
	if tier == "fixed" {
		badProb = 0
	}
	for i := 0; i < 1+r.Intn(3); i++ {
		rule := netv1.IngressRule{Host: pick(r, "", "a.example.com", "b.example.com")}
		if chance(r, badProb) {
			in.Ingress = ing
			ing.Spec.Rules = append(ing.Spec.Rules, rule) // a rule without an http section
			continue
		}
		rule.HTTP = &netv1.HTTPIngressRuleValue{}
		for j := 0; j < 1+r.Intn(3); j++ {
			p := netv1.HTTPIngressPath{Path: pick(r, "/", "/api", "/static", "/v2"), PathType: pick(r, &pt, &pe)}
			if chance(r, badProb) {
				grp := "example.com"
				p.Backend.Resource = &corev1.TypedLocalObjectReference{APIGroup: &grp, Kind: "Bucket", Name: "assets"}
			} else {
				p.Backend.Service = &netv1.IngressServiceBackend{Name: pick(r, "svc", "svc", "other", "svc2"), Port: netv1.ServiceBackendPort{Number: int32(pick(r, 80, 8080))}}
			}
			rule.HTTP.Paths = append(rule.HTTP.Paths, p)
		}
		ing.Spec.Rules = append(ing.Spec.Rules, rule)
	}
	in.Ingress = ing
	nsteps := 1 + r.Intn(3)
	for i := 0; i < nsteps; i++ {
		op := genIngStrategy(r, class)
		reps := 2 + r.Intn(2)
		for k := 0; k < reps; k++ {
			in.Ops = append(in.Ops, op)
		}
	}
	if chance(r, 60) {
		in.Ops = append(in.Ops, IngOp{Kind: "finalise"}, IngOp{Kind: "finalise"})
	}
	return in
}

func ingRun(in IngInput, ops []IngOp) (calls []IngCall, stable *netv1.Ingress, last *netv1.Ingress) {
	cli := fake.NewClientBuilder().WithScheme(FullScheme()).WithObjects(in.Ingress.DeepCopy()).Build()
	var prov interface {
		EnsureRoutes(ctx context.Context, strategy *v1beta1.TrafficRoutingStrategy) (bool, error)
		Finalise(ctx context.Context) (bool, error)
	}
	p, err := ingress.NewIngressTrafficRouting(cli, ingress.Config{Key: "ns/ro", Namespace: "ns", CanaryService: in.Canary, StableService: in.Stable,
		TrafficConf: &v1beta1.IngressTrafficRouting{ClassType: in.Class, Name: "web"},
		OwnerRef:    metav1.OwnerReference{APIVersion: "rollouts.kruise.io/v1beta1", Kind: "Rollout", Name: "ro", UID: "ro-uid"}})
	if err != nil {
		return []IngCall{{Err: "new: " + err.Error()}}, nil, nil
	}
	prov = p
	readCanary := func() *netv1.Ingress {
		o := &netv1.Ingress{}
		if err := cli.Get(context.TODO(), types.NamespacedName{Namespace: "ns", Name: "web-canary"}, o); err != nil {
			return nil
		}
		return o
	}
	for _, op := range ops {
		c := IngCall{}
		func() {
			defer func() {
				if rec := recover(); rec != nil {
					c.Panic = fmt.Sprint(rec)
				}
			}()
			var err error
			if op.Kind == "finalise" {
				c.Flag, err = prov.Finalise(context.TODO())
			} else {
				c.Flag, err = prov.EnsureRoutes(context.TODO(), &v1beta1.TrafficRoutingStrategy{Traffic: op.Traffic, Matches: op.Matches, RequestHeaderModifier: op.Modifier})
			}
			if err != nil {
				c.Err = err.Error()
			}
		}()
		c.Canary = readCanary()
		calls = append(calls, c)
	}
	st := &netv1.Ingress{}
	_ = cli.Get(context.TODO(), client.ObjectKey{Namespace: "ns", Name: "web"}, st)
	return calls, st, readCanary()
}

func (ingressEngine) Run(inAny any) any {
	in := inAny.(IngInput)
	obs := IngObs{}
	calls, st, _ := ingRun(in, in.Ops)
	obs.Calls = calls
	if st != nil {
		a, b := st.DeepCopy(), in.Ingress.DeepCopy()
		a.ResourceVersion, b.ResourceVersion = "", ""
		a.TypeMeta, b.TypeMeta = metav1.TypeMeta{}, metav1.TypeMeta{}
		ja, _ := json.Marshal(a)
		jb, _ := json.Marshal(b)
		obs.StableUnchanged = reflect.DeepEqual(ja, jb)
	}
	// fresh application of the last ensure step
	var last *IngOp
	for i := range in.Ops {
		if in.Ops[i].Kind == "ensure" {
			last = &in.Ops[i]
		}
	}
	if last != nil {
		one := "1%"
		fcalls, _, fc := ingRun(in, []IngOp{{Kind: "ensure", Traffic: &one}, *last})
		ok := len(fcalls) == 2 && fcalls[0].Panic == "" && fcalls[0].Err == "" && fcalls[1].Panic == "" && fcalls[1].Err == ""
		if ok && fc != nil {
			obs.HasFresh = true
			obs.Fresh = fc.Annotations
		}
	}
	return obs
}

func coqAmap(m map[string]string) string {
	keys := make([]string, 0, len(m))
	for k := range m {
		keys = append(keys, k)
	}
	sort.Strings(keys)
	return emit.ListOf(keys, func(k string) string { return emit.Pair(emit.Str(k), emit.Str(m[k])) })
}

func coqIngress(ing *netv1.Ingress) string {
	rules := emit.ListOf(ing.Spec.Rules, func(r netv1.IngressRule) string {
		http := "None"
		if r.HTTP != nil {
			http = emit.Some(emit.ListOf(r.HTTP.Paths, func(p netv1.HTTPIngressPath) string {
				svc := "None"
				port := ""
				if p.Backend.Service != nil {
					svc = emit.Some(emit.Str(p.Backend.Service.Name))
					port = digest(p.Backend.Service.Port)
				}
				pt := ""
				if p.PathType != nil {
					pt = string(*p.PathType)
				}
				return emit.App("Build_ipath", emit.Str(p.Path), emit.Str(pt), svc, emit.Str(port))
			}))
		}
		return emit.App("Build_irule", emit.Str(r.Host), http)
	})
	return emit.App("Build_ingress", coqAmap(ing.Annotations), emit.Str(digest([]any{ing.Labels, ing.Spec.IngressClassName, ing.Spec.TLS})), rules)
}

func coqHdrs(hs []gatewayv1beta1.HTTPHeaderMatch) string {
	return emit.ListOf(hs, func(h gatewayv1beta1.HTTPHeaderMatch) string {
		t := ""
		if h.Type != nil {
			t = string(*h.Type)
		}
		return emit.App("Build_hdr", emit.Str(t), emit.Str(string(h.Name)), emit.Str(h.Value))
	})
}

func coqQs(qs []gatewayv1beta1.HTTPQueryParamMatch) string {
	return emit.ListOf(qs, func(h gatewayv1beta1.HTTPQueryParamMatch) string {
		t := ""
		if h.Type != nil {
			t = string(*h.Type)
		}
		return emit.App("Build_hdr", emit.Str(t), emit.Str(string(h.Name)), emit.Str(h.Value))
	})
}

func coqIngStrategy(op IngOp) string {
	w := "None"
	if op.Traffic != nil {
		v := IOS{T: "str", S: *op.Traffic}.Coq()
		w = "(match " + v + " with IPct p => Some (scaled true (IPct p) 100) | _ => Some 0 end)"
	}
	ms := emit.ListOf(op.Matches, func(m v1beta1.HttpRouteMatch) string {
		return emit.App("Build_imatch", coqHdrs(m.Headers), coqQs(m.QueryParams))
	})
	mod := "None"
	if op.Modifier != nil {
		mod = emit.Some(emit.ListOf(op.Modifier.Set, func(h gatewayv1beta1.HTTPHeader) string { return emit.Pair(emit.Str(string(h.Name)), emit.Str(h.Value)) }))
	}
	return emit.App("Build_istrategy", w, ms, mod)
}

func (ingressEngine) Coq(inAny any, obsAny any) string {
	in := inAny.(IngInput)
	obs := obsAny.(IngObs)
	class := map[string]string{"nginx": "Nginx", "aliyun-alb": "Alb", "higress": "Higress", "mse": "Mse"}[in.Class]
	// identical strategies repeat: bind each once
	var defs []string
	names := map[string]string{}
	bind := func(prefix, t string) string {
		if n, ok := names[t]; ok {
			return n
		}
		n := fmt.Sprintf("%s%d", prefix, len(names))
		names[t] = n
		defs = append(defs, "let "+n+" := "+t+" in ")
		return n
	}
	ops := emit.ListOf(in.Ops, func(op IngOp) string {
		if op.Kind == "finalise" {
			return "IFinalise"
		}
		return emit.App("IEnsure", bind("st", coqIngStrategy(op)))
	})
	calls := emit.ListOf(obs.Calls, func(c IngCall) string {
		if c.Panic != "" {
			return "CPanic"
		}
		if c.Err != "" {
			return "CErr"
		}
		cn := "None"
		if c.Canary != nil {
			cn = emit.Some(bind("ci", coqIngress(c.Canary)))
		}
		return emit.App("CRes", emit.Bool(c.Flag), cn)
	})
	fresh := "None"
	if obs.HasFresh {
		fresh = emit.Some(coqAmap(obs.Fresh))
	}
	body := emit.App("Build_icase", class, emit.Str(in.Stable), emit.Str(in.Canary), coqIngress(in.Ingress), ops, calls, emit.Bool(obs.StableUnchanged), fresh)
	out := "("
	for _, d := range defs {
		out += d
	}
	return out + body + ")"
}
