package engines

import (
	"context"
	"encoding/json"
	"fmt"
	"math/rand"
	"reflect"
	"strings"

	admissionv1 "k8s.io/api/admission/v1"
	metav1 "k8s.io/apimachinery/pkg/apis/meta/v1"
	"k8s.io/apimachinery/pkg/runtime"
	"k8s.io/apimachinery/pkg/runtime/schema"
	"k8s.io/utils/pointer"
	"sigs.k8s.io/controller-runtime/pkg/client"
	"sigs.k8s.io/controller-runtime/pkg/client/fake"
	"sigs.k8s.io/controller-runtime/pkg/webhook/admission"
	gatewayv1beta1 "sigs.k8s.io/gateway-api/apis/v1beta1"

	"github.com/openkruise/rollouts/api/v1alpha1"
	"github.com/openkruise/rollouts/api/v1beta1"
	"github.com/openkruise/rollouts/pkg/util"
	"github.com/openkruise/rollouts/pkg/webhook/rollout/validating"

	"verifharness/emit"
)

type VStep struct {
	Replicas *IOS    `json:"replicas,omitempty"`
	Traffic  *string `json:"traffic,omitempty"`
	Matches  bool    `json:"matches,omitempty"`
	Weight   *int    `json:"weight,omitempty"` // v1alpha1
}
type VTraffic struct {
	Grace   int     `json:"grace"`
	Service string  `json:"service"`
	Ingress *string `json:"ingress,omitempty"`
	Gateway *string `json:"gateway,omitempty"` // "-" = gateway block without a route name
	Custom  bool    `json:"custom,omitempty"`
}
type VRollout struct {
	Name      string     `json:"name"`
	APIV      string     `json:"apiv"`
	Kind      string     `json:"kind"`
	WLName    string     `json:"wl_name"`
	NoRef     bool       `json:"no_ref,omitempty"` // v1alpha1 only: workloadRef absent
	Strategy  string     `json:"strategy"`         // canary | bluegreen | none | both
	Extra     bool       `json:"extra,omitempty"`
	Steps     []VStep    `json:"steps"`
	TRs       []VTraffic `json:"trs,omitempty"`
	StyleAnno string     `json:"style_anno,omitempty"` // v1alpha1
	Disabled  bool       `json:"disabled,omitempty"`   // spec.disabled: makes no difference to what is admitted
}
type VInput struct {
	Version   string     `json:"version"` // v1beta1 | v1alpha1
	Op        string     `json:"op"`      // CREATE | UPDATE
	New       VRollout   `json:"new"`
	Old       VRollout   `json:"old"`
	Others    []VRollout `json:"others,omitempty"`
	LivePhase string     `json:"live_phase,omitempty"`
}
type VObs struct {
	Panic   string `json:"panic,omitempty"`
	Allowed bool   `json:"allowed"`
	Msg     string `json:"msg,omitempty"`
}

type validateEngine struct{}

func init() { Register(validateEngine{}) }

func (validateEngine) Name() string      { return "validate" }
func (validateEngine) CoqModule() string { return "Corr.Validate" }
func (validateEngine) Decode(raw json.RawMessage) (any, error) {
	var in VInput
	err := json.Unmarshal(raw, &in)
	return in, err
}

func vTrafficRefs(trs []VTraffic) []v1beta1.TrafficRoutingRef {
	var out []v1beta1.TrafficRoutingRef
	for _, t := range trs {
		r := v1beta1.TrafficRoutingRef{Service: t.Service, GracePeriodSeconds: int32(t.Grace)}
		if t.Ingress != nil {
			r.Ingress = &v1beta1.IngressTrafficRouting{Name: *t.Ingress}
		}
		if t.Gateway != nil {
			r.Gateway = &v1beta1.GatewayTrafficRouting{}
			if *t.Gateway != "-" {
				r.Gateway.HTTPRouteName = t.Gateway
			}
		}
		if t.Custom {
			r.CustomNetworkRefs = []v1beta1.ObjectRef{{APIVersion: "networking.istio.io/v1alpha3", Kind: "VirtualService", Name: "vs"}}
		}
		out = append(out, r)
	}
	return out
}

func vBeta(r VRollout) *v1beta1.Rollout {
	o := &v1beta1.Rollout{TypeMeta: metav1.TypeMeta{APIVersion: "rollouts.kruise.io/v1beta1", Kind: "Rollout"}, ObjectMeta: metav1.ObjectMeta{Namespace: "ns", Name: r.Name}}
	o.Spec.WorkloadRef = v1beta1.ObjectRef{APIVersion: r.APIV, Kind: r.Kind, Name: r.WLName}
	o.Spec.Disabled = r.Disabled
	var steps []v1beta1.CanaryStep
	for _, s := range r.Steps {
		cs := v1beta1.CanaryStep{}
		if s.Replicas != nil {
			cs.Replicas = ptrIOS(s.Replicas.K8s())
		}
		cs.Traffic = s.Traffic
		if s.Matches {
			cs.Matches = []v1beta1.HttpRouteMatch{{Headers: []gatewayv1beta1.HTTPHeaderMatch{{Name: "user", Value: "a"}}}}
		}
		steps = append(steps, cs)
	}
	trs := vTrafficRefs(r.TRs)
	if r.Strategy == "canary" || r.Strategy == "both" {
		o.Spec.Strategy.Canary = &v1beta1.CanaryStrategy{Steps: steps, TrafficRoutings: trs, EnableExtraWorkloadForCanary: r.Extra}
	}
	if r.Strategy == "bluegreen" || r.Strategy == "both" {
		o.Spec.Strategy.BlueGreen = &v1beta1.BlueGreenStrategy{Steps: steps, TrafficRoutings: trs}
	}
	return o
}

func vAlpha(r VRollout) *v1alpha1.Rollout {
	o := &v1alpha1.Rollout{TypeMeta: metav1.TypeMeta{APIVersion: "rollouts.kruise.io/v1alpha1", Kind: "Rollout"}, ObjectMeta: metav1.ObjectMeta{Namespace: "ns", Name: r.Name}}
	if r.StyleAnno != "" {
		o.Annotations = map[string]string{v1alpha1.RolloutStyleAnnotation: r.StyleAnno}
	}
	if !r.NoRef {
		o.Spec.ObjectRef.WorkloadRef = &v1alpha1.WorkloadRef{APIVersion: r.APIV, Kind: r.Kind, Name: r.WLName}
	}
	if r.Strategy == "canary" {
		c := &v1alpha1.CanaryStrategy{}
		for _, s := range r.Steps {
			cs := v1alpha1.CanaryStep{}
			if s.Replicas != nil {
				cs.Replicas = ptrIOS(s.Replicas.K8s())
			}
			if s.Weight != nil {
				cs.Weight = pointer.Int32(int32(*s.Weight))
			}
			c.Steps = append(c.Steps, cs)
		}
		for _, t := range r.TRs {
			tr := v1alpha1.TrafficRoutingRef{Service: t.Service, GracePeriodSeconds: int32(t.Grace)}
			if t.Ingress != nil {
				tr.Ingress = &v1alpha1.IngressTrafficRouting{Name: *t.Ingress}
			}
			c.TrafficRoutings = append(c.TrafficRoutings, tr)
		}
		o.Spec.Strategy.Canary = c
	}
	return o
}

func vObject(version string, r VRollout, phase string) client.Object {
	if version == "v1alpha1" {
		o := vAlpha(r)
		o.Status.Phase = v1alpha1.RolloutPhase(phase)
		return o
	}
	o := vBeta(r)
	o.Status.Phase = v1beta1.RolloutPhase(phase)
	return o
}

func (validateEngine) Run(inAny any) (out any) {
	in := inAny.(VInput)
	obs := VObs{}
	defer func() {
		if p := recover(); p != nil {
			obs.Panic = fmt.Sprint(p)
			out = obs
		}
	}()
	scheme := FullScheme()
	var objs []client.Object
	for _, o := range in.Others {
		objs = append(objs, vObject(in.Version, o, "Healthy"))
	}
	if in.Op == "UPDATE" {
		objs = append(objs, vObject(in.Version, in.Old, in.LivePhase))
	}
	cli := fake.NewClientBuilder().WithScheme(scheme).WithObjects(objs...).Build()
	dec, err := admission.NewDecoder(scheme)
	if err != nil {
		panic(err)
	}
	h := &validating.RolloutCreateUpdateHandler{Client: cli, Decoder: dec}
	newRaw, _ := json.Marshal(vObject(in.Version, in.New, ""))
	req := admission.Request{AdmissionRequest: admissionv1.AdmissionRequest{
		Operation: admissionv1.Operation(in.Op), Name: in.New.Name, Namespace: "ns",
		Kind:   metav1.GroupVersionKind{Group: "rollouts.kruise.io", Version: in.Version, Kind: "Rollout"},
		Object: runtime.RawExtension{Raw: newRaw},
	}}
	if in.Op == "UPDATE" {
		oldRaw, _ := json.Marshal(vObject(in.Version, in.Old, in.LivePhase))
		req.OldObject = runtime.RawExtension{Raw: oldRaw}
	}
	resp := h.Handle(context.TODO(), req)
	obs.Allowed = resp.Allowed
	if resp.Result != nil {
		obs.Msg = firstLine(resp.Result.Message)
	}
	return obs
}

func coqVRollout(version string, r VRollout) string {
	gvk := schema.FromAPIVersionAndKind(r.APIV, r.Kind)
	bgOK := (gvk.Group == "apps" && gvk.Kind == "Deployment") || (gvk.Group == "apps.kruise.io" && gvk.Kind == "CloneSet")
	isDep := r.APIV == "apps/v1" && r.Kind == "Deployment"
	ref := emit.App("Build_vref", emit.Bool(!r.NoRef), emit.Bool(util.IsSupportedWorkload(gvk)), emit.Bool(bgOK), emit.Bool(isDep), emit.Str(r.APIV+"|"+r.Kind+"|"+r.WLName))
	steps := emit.ListOf(r.Steps, func(s VStep) string {
		rep := "None"
		if s.Replicas != nil {
			rep = emit.Some(s.Replicas.Coq())
		}
		tr := "None"
		if s.Traffic != nil {
			tr = emit.Some(BadStr(*s.Traffic).Coq())
		}
		w := "None"
		if s.Weight != nil {
			w = emit.Some(emit.Z(int64(*s.Weight)))
		}
		return emit.App("Build_vstep", rep, tr, emit.Bool(s.Matches), w)
	})
	trs := emit.ListOf(r.TRs, func(t VTraffic) string {
		ing := "None"
		if t.Ingress != nil {
			ing = emit.Some(emit.Bool(*t.Ingress != ""))
		}
		gw := "None"
		if t.Gateway != nil {
			gw = emit.Some(emit.Bool(*t.Gateway != "-" && *t.Gateway != ""))
		}
		return emit.App("Build_vtraffic", emit.Z(int64(t.Grace)), emit.Bool(t.Service == ""), ing, gw, emit.Bool(t.Custom))
	})
	st := "VNone"
	switch r.Strategy {
	case "canary":
		st = emit.App("VCanaryS", emit.Bool(r.Extra), steps, trs)
	case "bluegreen":
		st = emit.App("VBlueGreenS", steps, trs)
	case "both":
		st = "VBoth"
	}
	return emit.App("Build_vrollout", emit.Str(r.Name), ref, st, emit.Str(strings.ToLower(r.StyleAnno)))
}

func (validateEngine) Coq(inAny any, obsAny any) string {
	in, obs := inAny.(VInput), obsAny.(VObs)
	safeTR := func(r VRollout) (trs []v1beta1.TrafficRoutingRef) {
		defer func() { _ = recover() }()
		return vBeta(r).Spec.Strategy.GetTrafficRouting()
	}
	sameTraffic := reflect.DeepEqual(safeTR(in.Old), safeTR(in.New))
	if in.Version == "v1alpha1" {
		sameTraffic = reflect.DeepEqual(in.Old.TRs, in.New.TRs)
	}
	busy := in.LivePhase == "Progressing" || in.LivePhase == "Terminating"
	return emit.App("Build_vcase", emit.Bool(in.Version == "v1alpha1"), emit.Bool(in.Op == "UPDATE"), coqVRollout(in.Version, in.New), coqVRollout(in.Version, in.Old),
		emit.ListOf(in.Others, func(o VRollout) string { return coqVRollout(in.Version, o) }), emit.Bool(busy), emit.Bool(sameTraffic), emit.Bool(obs.Allowed), emit.Bool(obs.Panic != ""))
}

func genVSteps(r *rand.Rand, valid bool) []VStep {
	n := pick(r, 1, 2, 3, 3, 4)
	if !valid && chance(r, 6) {
		n = 0
	}
	var steps []VStep
	mode := r.Intn(3) // 0 pct, 1 int, 2 mixed
	lastP, lastI := 0, 0
	for i := 0; i < n; i++ {
		s := VStep{}
		usePct := mode == 0 || (mode == 2 && chance(r, 50))
		if usePct {
			p := lastP + 1 + r.Intn(35)
			if p > 100 {
				p = 100
			}
			if !valid && chance(r, 10) {
				p = pick(r, 0, 101, maxInt(lastP-5, 1), 3)
			}
			lastP = maxInt(lastP, p)
			v := Pct(p)
			s.Replicas = &v
		} else {
			v := lastI + 1 + r.Intn(5)
			if !valid && chance(r, 10) {
				v = pick(r, 0, -1, maxInt(lastI-1, 1), 1)
			}
			lastI = maxInt(lastI, v)
			x := Int(v)
			s.Replicas = &x
		}
		if !valid && chance(r, 4) {
			s.Replicas = nil
		}
		if !valid && chance(r, 3) {
			b := BadStr(pick(r, "abc", "50", ""))
			s.Replicas = &b
		}
		switch r.Intn(6) {
		case 0, 1:
			t := fmt.Sprintf("%d%%", pick(r, 5, 20, 50, 100))
			if !valid && chance(r, 25) {
				t = pick(r, "0%", "101%", "20", "-5%", "")
			}
			s.Traffic = &t
		case 2:
			s.Matches = true
		}
		steps = append(steps, s)
	}
	return steps
}

func genVRollout(r *rand.Rand, name string, valid bool) VRollout {
	ro := VRollout{Name: name, WLName: pick(r, "web", "web", "api")}
	k := pick(r, [2]string{"apps/v1", "Deployment"}, [2]string{"apps.kruise.io/v1alpha1", "CloneSet"}, [2]string{"apps.kruise.io/v1alpha1", "CloneSet"},
		[2]string{"apps/v1", "StatefulSet"}, [2]string{"apps.kruise.io/v1alpha1", "DaemonSet"}, [2]string{"example.io/v1", "Foo"})
	ro.APIV, ro.Kind = k[0], k[1]
	ro.Strategy = pick(r, "canary", "canary", "canary", "bluegreen")
	if !valid && chance(r, 6) {
		ro.Strategy = pick(r, "none", "both")
	}
	ro.Extra = chance(r, 25)
	ro.Disabled = chance(r, 20)
	ro.Steps = genVSteps(r, valid)
	if chance(r, 60) {
		n := 1
		if !valid && chance(r, 8) {
			n = 2
		}
		for i := 0; i < n; i++ {
			t := VTraffic{Grace: pick(r, 0, 3, 10), Service: "svc"}
			switch r.Intn(4) {
			case 0:
				g := pick(r, "route", "route", "-")
				t.Gateway = &g
			case 1:
				t.Custom = true
			default:
				i := "web"
				t.Ingress = &i
			}
			if !valid && chance(r, 10) {
				switch r.Intn(4) {
				case 0:
					t.Grace = -1
				case 1:
					t.Service = ""
				case 2:
					e := ""
					t.Ingress = &e
				default:
					t.Ingress, t.Gateway, t.Custom = nil, nil, false
				}
			}
			ro.TRs = append(ro.TRs, t)
		}
	}
	return ro
}

func (validateEngine) Gen(r *rand.Rand, idx int, tier string) any {
	in := VInput{Version: "v1beta1", Op: pick(r, "CREATE", "UPDATE", "UPDATE")}
	valid := chance(r, 55)
	in.New = genVRollout(r, "ro", valid)
	if idx%5 == 4 {
		// v1alpha1: well-formed canary specs (weights only), the update rules are what is compared
		in.Version, in.Op = "v1alpha1", "UPDATE"
		mk := func() VRollout {
			ro := VRollout{Name: "ro", APIV: "apps.kruise.io/v1alpha1", Kind: "CloneSet", WLName: pick(r, "web", "web", "api"), Strategy: "canary", StyleAnno: pick(r, "", "", "partition", "Canary")}
			n := 1 + r.Intn(3)
			for i := 0; i < n; i++ {
				w := 10 * (i + 1)
				ro.Steps = append(ro.Steps, VStep{Weight: &w})
			}
			if chance(r, 50) {
				i := "web"
				ro.TRs = []VTraffic{{Grace: 3, Service: pick(r, "svc", "svc", "svc2"), Ingress: &i}}
			}
			return ro
		}
		in.New = mk()
		in.Old = in.New
		switch r.Intn(6) {
		case 0:
			in.Old = mk()
		case 1: // step count changes
			in.Old.Steps = append([]VStep{}, in.New.Steps...)
			w := 5
			in.Old.Steps = append([]VStep{{Weight: &w}}, in.Old.Steps...)
		case 2:
			in.Old.WLName = "other"
		}
		in.LivePhase = pick(r, "Progressing", "Progressing", "Terminating", "Healthy", "")
		return in
	}
	if in.Op == "UPDATE" {
		in.Old = in.New
		switch r.Intn(8) {
		case 0:
			in.Old = genVRollout(r, "ro", true)
		case 1: // one step more or less
			in.Old.Steps = append([]VStep{}, in.New.Steps...)
			if len(in.Old.Steps) > 1 && chance(r, 50) {
				in.Old.Steps = in.Old.Steps[1:]
			} else {
				x := Pct(1)
				in.Old.Steps = append([]VStep{{Replicas: &x}}, in.Old.Steps...)
			}
		case 2:
			in.Old.WLName = "other"
		case 3:
			in.Old.Extra = !in.New.Extra
		case 4:
			in.Old.TRs = nil
			if len(in.New.TRs) == 0 {
				i := "web"
				in.Old.TRs = []VTraffic{{Grace: 3, Service: "svc", Ingress: &i}}
			}
		case 5: // pause / values of steps change, count stays
			in.Old.Steps = append([]VStep{}, in.New.Steps...)
			if len(in.Old.Steps) > 0 {
				x := Pct(1)
				in.Old.Steps[0] = VStep{Replicas: &x}
			}
		}
		in.LivePhase = pick(r, "Progressing", "Progressing", "Terminating", "Healthy", "Initial", "")
	}
	for i := 0; i < pick(r, 0, 0, 1, 2); i++ {
		o := genVRollout(r, fmt.Sprintf("other-%d", i), true)
		if chance(r, 35) {
			o.APIV, o.Kind, o.WLName = in.New.APIV, in.New.Kind, in.New.WLName
		}
		in.Others = append(in.Others, o)
	}
	return in
}
