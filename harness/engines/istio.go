package engines

import (
	"context"
	"encoding/json"
	"fmt"
	"math/rand"

	corev1 "k8s.io/api/core/v1"
	"k8s.io/apimachinery/pkg/apis/meta/v1/unstructured"
	"k8s.io/apimachinery/pkg/runtime"
	"k8s.io/apimachinery/pkg/types"
	"sigs.k8s.io/controller-runtime/pkg/client/fake"
	gatewayv1beta1 "sigs.k8s.io/gateway-api/apis/v1beta1"

	"github.com/openkruise/rollouts/api/v1beta1"
	custom "github.com/openkruise/rollouts/pkg/trafficrouting/network/customNetworkProvider"

	"verifharness/emit"
)

type ISRoute struct {
	Host   string         `json:"host"`
	Subset string         `json:"subset,omitempty"`
	Weight *int           `json:"weight,omitempty"`
	Extra  map[string]any `json:"extra,omitempty"`
}

type ISRule struct {
	Match  bool           `json:"match,omitempty"`
	Routes []ISRoute      `json:"routes"`
	Extra  map[string]any `json:"extra,omitempty"`
}

type ISInput struct {
	Stable   string    `json:"stable"`
	Canary   string    `json:"canary"`
	Weight   *int      `json:"weight,omitempty"`
	NMatches int       `json:"nmatches,omitempty"`
	HTTP     *[]ISRule `json:"http,omitempty"`
	TCP      *[]ISRule `json:"tcp,omitempty"`
	TLS      *[]ISRule `json:"tls,omitempty"`
	Subsets  *[]string `json:"subsets,omitempty"`
}

type ISObs struct {
	Panic   string         `json:"panic,omitempty"`
	Err     string         `json:"err,omitempty"`
	Spec    map[string]any `json:"spec,omitempty"`
	DRErr   string         `json:"dr_err,omitempty"`
	Subsets *[]string      `json:"subsets,omitempty"`
}

type istioEngine struct{}

func init() { Register(istioEngine{}) }

func (istioEngine) Name() string      { return "istio" }
func (istioEngine) CoqModule() string { return "Corr.Istio" }
func (istioEngine) Decode(raw json.RawMessage) (any, error) {
	var in ISInput
	err := json.Unmarshal(raw, &in)
	return in, err
}

func isRules(rs *[]ISRule) []any {
	var out []any
	for _, r := range *rs {
		m := map[string]any{}
		for k, v := range r.Extra {
			m[k] = v
		}
		if r.Match {
			m["match"] = []any{map[string]any{"uri": map[string]any{"prefix": "/api"}}}
		}
		var routes []any
		for _, rt := range r.Routes {
			x := map[string]any{}
			for k, v := range rt.Extra {
				x[k] = v
			}
			d := map[string]any{"host": rt.Host}
			if rt.Subset != "" {
				d["subset"] = rt.Subset
			}
			x["destination"] = d
			if rt.Weight != nil {
				x["weight"] = int64(*rt.Weight)
			}
			routes = append(routes, x)
		}
		m["route"] = routes
		out = append(out, m)
	}
	return out
}

func isSpec(in ISInput) map[string]any {
	spec := map[string]any{"hosts": []any{"demo.example.com"}}
	if in.HTTP != nil {
		spec["http"] = isRules(in.HTTP)
	}
	if in.TCP != nil {
		spec["tcp"] = isRules(in.TCP)
	}
	if in.TLS != nil {
		spec["tls"] = isRules(in.TLS)
	}
	return spec
}

func (istioEngine) Run(inAny any) (out any) {
	in := inAny.(ISInput)
	obs := ISObs{}
	defer func() {
		if p := recover(); p != nil {
			obs.Panic = fmt.Sprint(p)
			out = obs
		}
	}()
	scheme := runtime.NewScheme()
	_ = corev1.AddToScheme(scheme)
	vs := &unstructured.Unstructured{Object: map[string]any{"spec": runtime.DeepCopyJSONValue(intify(jsonRoundTrip(isSpec(in))))}}
	vs.SetAPIVersion("networking.istio.io/v1alpha3")
	vs.SetKind("VirtualService")
	vs.SetNamespace("ns")
	vs.SetName("vs")
	drSpec := map[string]any{"host": in.Stable}
	if in.Subsets != nil {
		var l []any
		for _, s := range *in.Subsets {
			l = append(l, map[string]any{"name": s, "labels": map[string]any{"version": s}})
		}
		drSpec["subsets"] = l
	}
	dr := &unstructured.Unstructured{Object: map[string]any{"spec": runtime.DeepCopyJSONValue(intify(jsonRoundTrip(drSpec)))}}
	dr.SetAPIVersion("networking.istio.io/v1alpha3")
	dr.SetKind("DestinationRule")
	dr.SetNamespace("ns")
	dr.SetName("dr")
	cli := fake.NewClientBuilder().WithScheme(scheme).WithObjects(vs, dr).Build()
	strategy := &v1beta1.TrafficRoutingStrategy{}
	if in.Weight != nil {
		w := fmt.Sprintf("%d%%", *in.Weight)
		strategy.Traffic = &w
	}
	for i := 0; i < in.NMatches; i++ {
		// the CRD defaults a header match's type to Exact, so it is never nil when the script sees it
		t := gatewayv1beta1.HeaderMatchExact
		if i%2 == 1 {
			t = gatewayv1beta1.HeaderMatchRegularExpression
		}
		strategy.Matches = append(strategy.Matches, v1beta1.HttpRouteMatch{Headers: []gatewayv1beta1.HTTPHeaderMatch{{Type: &t, Name: "user", Value: fmt.Sprintf("u%d", i)}}})
	}
	run := func(kind, name string) (map[string]any, error) {
		ctrl, err := custom.NewCustomController(cli, custom.Config{Key: "ns/ro", RolloutNs: "ns", CanaryService: in.Canary, StableService: in.Stable,
			TrafficConf: []v1beta1.ObjectRef{{APIVersion: "networking.istio.io/v1alpha3", Kind: kind, Name: name}}})
		if err != nil {
			return nil, err
		}
		if _, err := ctrl.EnsureRoutes(context.TODO(), strategy); err != nil {
			return nil, err
		}
		u := &unstructured.Unstructured{}
		u.SetAPIVersion("networking.istio.io/v1alpha3")
		u.SetKind(kind)
		if err := cli.Get(context.TODO(), types.NamespacedName{Namespace: "ns", Name: name}, u); err != nil {
			return nil, err
		}
		spec, _ := u.Object["spec"].(map[string]any)
		return spec, nil
	}
	spec, err := run("VirtualService", "vs")
	if err != nil {
		obs.Err = err.Error()
	} else {
		obs.Spec = spec
	}
	dspec, err := run("DestinationRule", "dr")
	if err != nil {
		obs.DRErr = err.Error()
	} else {
		var names []string
		if l, ok := dspec["subsets"].([]any); ok {
			for _, s := range l {
				if m, ok := s.(map[string]any); ok {
					n, _ := m["name"].(string)
					names = append(names, n)
				}
			}
		}
		obs.Subsets = &names
	}
	return obs
}

func jsonRoundTrip(v any) any {
	by, _ := json.Marshal(v)
	var g any
	_ = json.Unmarshal(by, &g)
	return g
}

func restDigest(m map[string]any) string {
	p, _ := prune(m).(map[string]any)
	if len(p) == 0 {
		return ""
	}
	return whDigest(p)
}

func coqISRules(v any, present bool) string {
	if !present || v == nil {
		return "None"
	}
	l, _ := v.([]any)
	return emit.Some(emit.ListOf(l, func(x any) string {
		rule, _ := jsonRoundTrip(x).(map[string]any)
		hasMatch := rule["match"] != nil
		routes, _ := rule["route"].([]any)
		delete(rule, "route")
		rs := emit.ListOf(routes, func(y any) string {
			rt, _ := y.(map[string]any)
			host, subset := "", ""
			if d, ok := rt["destination"].(map[string]any); ok {
				host, _ = d["host"].(string)
				subset, _ = d["subset"].(string)
				delete(d, "host")
				delete(d, "subset")
			}
			w := "None"
			if f, ok := rt["weight"].(float64); ok {
				w = emit.Some(emit.Z(int64(f)))
			}
			delete(rt, "weight")
			return emit.App("Build_route", emit.Str(host), emit.Str(subset), w, emit.Str(restDigest(rt)))
		})
		return emit.App("Build_vrule", emit.Bool(hasMatch), rs, emit.Str(restDigest(rule)))
	}))
}

func coqVSpec(spec map[string]any) string {
	s, _ := jsonRoundTrip(spec).(map[string]any)
	h, hp := s["http"]
	t, tp := s["tcp"]
	l, lp := s["tls"]
	a, b, c := coqISRules(h, hp), coqISRules(t, tp), coqISRules(l, lp)
	delete(s, "http")
	delete(s, "tcp")
	delete(s, "tls")
	return emit.App("Build_vspec", a, b, c, emit.Str(restDigest(s)))
}

func coqOptStrs(p *[]string) string {
	if p == nil {
		return "None"
	}
	return emit.Some(emit.ListOf(*p, emit.Str))
}

func (istioEngine) Coq(inAny any, obsAny any) string {
	in, obs := inAny.(ISInput), obsAny.(ISObs)
	w := int64(-1)
	if in.Weight != nil {
		w = int64(*in.Weight)
	}
	o := "None"
	if obs.Panic == "" && obs.Err == "" && obs.Spec != nil {
		o = emit.Some(coqVSpec(obs.Spec))
	}
	var subsetsIn *[]string
	if in.Subsets != nil {
		subsetsIn = in.Subsets
	}
	return emit.App("Build_icase", emit.Str(in.Stable), emit.Str(in.Canary), emit.Z(w), emit.Z(int64(in.NMatches)), coqVSpec(isSpec(in)), o,
		coqOptStrs(subsetsIn), coqOptStrs(obs.Subsets))
}

func genISRules(r *rand.Rand, stable string) *[]ISRule {
	n := 1 + r.Intn(3)
	var rules []ISRule
	for i := 0; i < n; i++ {
		rule := ISRule{Match: chance(r, 20)}
		if chance(r, 40) {
			rule.Extra = map[string]any{"name": fmt.Sprintf("rule-%d", i)}
			if chance(r, 40) {
				rule.Extra["timeout"] = "5s"
			}
		}
		k := pick(r, 1, 1, 1, 1, 2, 2, 3)
		for j := 0; j < k; j++ {
			rt := ISRoute{Host: stable}
			switch r.Intn(10) {
			case 0, 1:
				rt.Host = pick(r, "other", "other.ns.svc.cluster.local", "svcx")
			case 2:
				rt.Host = stable + ".ns.svc.cluster.local"
			case 3:
				rt.Host = stable + "." + pick(r, "ns", "prod")
			}
			if chance(r, 20) {
				rt.Subset = pick(r, "v1", "v2")
			}
			if k == 1 {
				if chance(r, 45) {
					w := 100
					if chance(r, 10) {
						w = pick(r, 80, 50)
					}
					rt.Weight = &w
				}
			} else {
				w := 100 / k
				if j == 0 {
					w = 100 - (k-1)*(100/k)
				}
				if !chance(r, 8) {
					rt.Weight = &w
				}
			}
			if chance(r, 20) {
				rt.Extra = map[string]any{"headers": map[string]any{"request": map[string]any{"set": map[string]any{"x-a": "b"}}}}
			}
			rule.Routes = append(rule.Routes, rt)
		}
		rules = append(rules, rule)
	}
	return &rules
}

func (istioEngine) Gen(r *rand.Rand, idx int, tier string) any {
	in := ISInput{Stable: "svc", Canary: "svc-canary"}
	if chance(r, 20) {
		in.Canary = in.Stable
	}
	if chance(r, 92) {
		in.HTTP = genISRules(r, in.Stable)
	}
	if chance(r, 25) {
		in.TCP = genISRules(r, in.Stable)
	}
	if chance(r, 15) {
		in.TLS = genISRules(r, in.Stable)
	}
	switch r.Intn(10) {
	case 0, 1:
		in.NMatches = 1 + r.Intn(2)
		if chance(r, 30) {
			w := pick(r, 10, 50)
			in.Weight = &w
		}
	case 2: // neither weight nor matches
	default:
		w := pick(r, 0, 1, 5, 10, 20, 33, 50, 80, 99, 100)
		if chance(r, 50) {
			w = r.Intn(101) // every percentage: scripts that go through floating point may be off by one for a few of them
		}
		in.Weight = &w
	}
	if chance(r, 88) {
		s := []string{"stable"}
		if chance(r, 30) {
			s = append(s, "v2")
		}
		in.Subsets = &s
	}
	return in
}
