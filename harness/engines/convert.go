package engines

import (
	"crypto/sha1"
	"encoding/hex"
	"encoding/json"
	"fmt"
	"math/rand"
	"strconv"

	corev1 "k8s.io/api/core/v1"
	metav1 "k8s.io/apimachinery/pkg/apis/meta/v1"
	"k8s.io/apimachinery/pkg/util/intstr"
	"k8s.io/utils/pointer"
	gatewayv1beta1 "sigs.k8s.io/gateway-api/apis/v1beta1"

	"github.com/openkruise/rollouts/api/v1alpha1"
	"github.com/openkruise/rollouts/api/v1beta1"

	"verifharness/emit"
)

type ConvInput struct {
	Kind     string                 `json:"kind"` // rollout-alpha | rollout-beta | br-alpha
	RolloutA *v1alpha1.Rollout      `json:"rollout_a,omitempty"`
	RolloutB *v1beta1.Rollout       `json:"rollout_b,omitempty"`
	BRA      *v1alpha1.BatchRelease `json:"br_a,omitempty"`
}

type ConvObs struct {
	Panic1   string                 `json:"panic1,omitempty"`
	Err1     string                 `json:"err1,omitempty"`
	Panic2   string                 `json:"panic2,omitempty"`
	Err2     string                 `json:"err2,omitempty"`
	RolloutA *v1alpha1.Rollout      `json:"rollout_a,omitempty"`
	RolloutB *v1beta1.Rollout       `json:"rollout_b,omitempty"`
	BRA      *v1alpha1.BatchRelease `json:"br_a,omitempty"`
	BRB      *v1beta1.BatchRelease  `json:"br_b,omitempty"`
}

type convertEngine struct{}

func init() { Register(convertEngine{}) }

func (convertEngine) Name() string      { return "convert" }
func (convertEngine) CoqModule() string { return "Corr.Conversion" }
func (convertEngine) Decode(raw json.RawMessage) (any, error) {
	var in ConvInput
	err := json.Unmarshal(raw, &in)
	return in, err
}

func digest(v any) string {
	raw, _ := json.Marshal(v)
	if string(raw) == "null" || string(raw) == "{}" || string(raw) == "[]" || string(raw) == `""` {
		return ""
	}
	var x any
	_ = json.Unmarshal(raw, &x)
	out, _ := json.Marshal(x) // maps are marshalled with sorted keys
	sum := sha1.Sum(out)
	return hex.EncodeToString(sum[:6])
}

func genIOSPtr(r *rand.Rand) *intstr.IntOrString {
	if chance(r, 35) {
		return nil
	}
	var v intstr.IntOrString
	if chance(r, 50) {
		v = intstr.FromInt(r.Intn(20))
	} else {
		v = intstr.FromString(strconv.Itoa(r.Intn(101)) + "%")
	}
	return &v
}

func genHeaders(r *rand.Rand) []gatewayv1beta1.HTTPHeaderMatch {
	return genHeaderMatches(r, 1+r.Intn(2), []string{"user", "x-canary", "x-env"})
}

func genTRRefsAlpha(r *rand.Rand) []v1alpha1.TrafficRoutingRef {
	var out []v1alpha1.TrafficRoutingRef
	for i := 0; i < r.Intn(3); i++ {
		tr := v1alpha1.TrafficRoutingRef{Service: pick(r, "svc", "web"), GracePeriodSeconds: int32(r.Intn(10))}
		// the blocks are independent: the schema admits several of them in one entry (the manager then builds a composite provider)
		k := r.Intn(6)
		if k == 0 || k == 4 || k == 5 {
			tr.Ingress = &v1alpha1.IngressTrafficRouting{ClassType: pick(r, "nginx", "alb", ""), Name: "ing" + strconv.Itoa(r.Intn(3))}
		}
		if k == 1 || k == 4 {
			n := "route" + strconv.Itoa(r.Intn(3))
			tr.Gateway = &v1alpha1.GatewayTrafficRouting{HTTPRouteName: &n}
		}
		if k == 2 || k == 5 {
			for j := 0; j <= r.Intn(2); j++ {
				tr.CustomNetworkRefs = append(tr.CustomNetworkRefs, v1alpha1.CustomNetworkRef{APIVersion: "networking.istio.io/v1alpha3", Kind: pick(r, "VirtualService", "DestinationRule"), Name: "n" + strconv.Itoa(j)})
			}
		}
		out = append(out, tr)
	}
	return out
}

func genConds(r *rand.Rand) []v1alpha1.RolloutCondition {
	var cs []v1alpha1.RolloutCondition
	for i := 0; i < r.Intn(3); i++ {
		cs = append(cs, v1alpha1.RolloutCondition{Type: v1alpha1.RolloutConditionType(pick(r, "Progressing", "Succeeded", "Terminating")),
			Status: corev1.ConditionStatus(pick(r, "True", "False")), Reason: pick(r, "InRolling", "Completed", "Paused"), Message: "m" + strconv.Itoa(r.Intn(9)),
			LastUpdateTime: metav1.Unix(int64(1000+r.Intn(1000)), 0), LastTransitionTime: metav1.Unix(int64(3000+r.Intn(1000)), 0)})
	}
	return cs
}

func genAlphaRollout(r *rand.Rand, tier string) *v1alpha1.Rollout {
	ro := &v1alpha1.Rollout{ObjectMeta: metav1.ObjectMeta{Namespace: "ns", Name: "ro"}}
	switch r.Intn(6) {
	case 0:
		ro.Annotations = map[string]string{v1alpha1.RolloutStyleAnnotation: pick(r, "partition", "Partition", "PARTITION")}
	case 1:
		ro.Annotations = map[string]string{v1alpha1.RolloutStyleAnnotation: pick(r, "canary", "Canary", "other", "")}
	case 2:
		ro.Annotations = map[string]string{"foo": "bar"}
	}
	if chance(r, 30) {
		if ro.Annotations == nil {
			ro.Annotations = map[string]string{}
		}
		ro.Annotations[v1alpha1.TrafficRoutingAnnotation] = pick(r, "tr-a", "tr-b", "")
	}
	nilProb := 6
	if tier == "fixed" {
		nilProb = 0
	}
	if !chance(r, nilProb) {
		ro.Spec.ObjectRef.WorkloadRef = &v1alpha1.WorkloadRef{APIVersion: pick(r, "apps/v1", "apps.kruise.io/v1alpha1"), Kind: pick(r, "Deployment", "CloneSet"), Name: "wl" + strconv.Itoa(r.Intn(5))}
	}
	ro.Spec.Disabled = chance(r, 20)
	ro.Spec.Strategy.Paused = chance(r, 30)
	if !chance(r, nilProb) {
		c := &v1alpha1.CanaryStrategy{FailureThreshold: genIOSPtr(r), TrafficRoutings: genTRRefsAlpha(r)}
		for i := 0; i < r.Intn(5); i++ {
			st := v1alpha1.CanaryStep{Replicas: genIOSPtr(r)}
			if chance(r, 60) {
				st.Weight = pointer.Int32(int32(r.Intn(101)))
			}
			if chance(r, 50) {
				st.Pause.Duration = pointer.Int32(int32(r.Intn(600)))
			}
			if chance(r, 25) {
				st.RequestHeaderModifier = &gatewayv1beta1.HTTPHeaderFilter{Set: []gatewayv1beta1.HTTPHeader{{Name: "x-h", Value: "v" + strconv.Itoa(r.Intn(9))}}}
			}
			for j := 0; j < pick(r, 0, 0, 1, 2); j++ {
				st.Matches = append(st.Matches, v1alpha1.HttpRouteMatch{Headers: genHeaders(r)})
			}
			c.Steps = append(c.Steps, st)
		}
		if chance(r, 30) {
			c.PatchPodTemplateMetadata = &v1alpha1.PatchPodTemplateMetadata{}
			if chance(r, 70) {
				c.PatchPodTemplateMetadata.Annotations = map[string]string{"a": "1", "b": strconv.Itoa(r.Intn(9))}
			}
			if chance(r, 70) {
				c.PatchPodTemplateMetadata.Labels = map[string]string{"l": strconv.Itoa(r.Intn(9))}
			}
		}
		ro.Spec.Strategy.Canary = c
	}
	ro.Status = v1alpha1.RolloutStatus{ObservedGeneration: int64(r.Intn(50)), Phase: v1alpha1.RolloutPhase(pick(r, "Healthy", "Progressing", "")), Message: pick(r, "", "msg"), Conditions: genConds(r)}
	if chance(r, 60) {
		ts := metav1.Unix(int64(5000+r.Intn(100)), 0)
		ro.Status.CanaryStatus = &v1alpha1.CanaryStatus{ObservedWorkloadGeneration: int64(1 + r.Intn(9)), ObservedRolloutID: "rid" + strconv.Itoa(r.Intn(9)),
			RolloutHash: "rh" + strconv.Itoa(r.Intn(99)), StableRevision: "sr" + strconv.Itoa(r.Intn(99)), CanaryRevision: "cr" + strconv.Itoa(r.Intn(99)),
			PodTemplateHash: "pth" + strconv.Itoa(r.Intn(99)), CanaryReplicas: int32(10 + r.Intn(9)), CanaryReadyReplicas: int32(20 + r.Intn(9)),
			NextStepIndex: int32(30 + r.Intn(9)), CurrentStepIndex: int32(40 + r.Intn(9)), CurrentStepState: v1alpha1.CanaryStepState(pick(r, "StepUpgrade", "StepPaused", "StepReady")),
			Message: "cm" + strconv.Itoa(r.Intn(9)), LastUpdateTime: &ts, FinalisingStep: v1alpha1.FinalizeStateType(pick(r, "", "FinalisingStepTypeGateway"))}
		// zero is a value like any other (nextStepIndex 0 = "no jump requested", 0 canary replicas, generation 0)
		cs := ro.Status.CanaryStatus
		if chance(r, 20) {
			cs.NextStepIndex = 0
		}
		if chance(r, 10) {
			cs.CurrentStepIndex = 0
		}
		if chance(r, 10) {
			cs.CanaryReplicas, cs.CanaryReadyReplicas = 0, 0
		}
		if chance(r, 10) {
			cs.ObservedWorkloadGeneration = 0
		}
	}
	return ro
}

func genAlphaBR(r *rand.Rand, tier string) *v1alpha1.BatchRelease {
	br := &v1alpha1.BatchRelease{ObjectMeta: metav1.ObjectMeta{Namespace: "ns", Name: "br"}}
	if chance(r, 60) {
		br.Annotations = map[string]string{v1alpha1.RolloutStyleAnnotation: pick(r, "partition", "Canary", "canary", "bluegreen", "BlueGreen", "zzz", "")}
	}
	nilProb := 6
	if tier == "fixed" {
		nilProb = 0
	}
	if !chance(r, nilProb) {
		br.Spec.TargetRef.WorkloadRef = &v1alpha1.WorkloadRef{APIVersion: "apps/v1", Kind: pick(r, "Deployment", "StatefulSet"), Name: "wl" + strconv.Itoa(r.Intn(5))}
	}
	p := &br.Spec.ReleasePlan
	for i := 0; i < r.Intn(4); i++ {
		p.Batches = append(p.Batches, v1alpha1.ReleaseBatch{CanaryReplicas: *orIOS(genIOSPtr(r))})
	}
	if chance(r, 50) {
		p.BatchPartition = pointer.Int32(int32(r.Intn(5)))
	}
	p.RolloutID = pick(r, "", "r1", "r2")
	p.FailureThreshold = genIOSPtr(r)
	p.FinalizingPolicy = v1alpha1.FinalizingPolicyType(pick(r, "", "Immediate", "WaitResume"))
	if chance(r, 30) {
		p.PatchPodTemplateMetadata = &v1alpha1.PatchPodTemplateMetadata{Labels: map[string]string{"l": strconv.Itoa(r.Intn(9))}}
	}
	if chance(r, 25) {
		p.RollingStyle = v1alpha1.RollingStyleType(pick(r, "Canary", "Partition", "BlueGreen"))
	} else if br.Annotations != nil { // what a conversion from v1beta1 produces: field and annotation agree
		switch br.Annotations[v1alpha1.RolloutStyleAnnotation] {
		case "partition":
			p.RollingStyle = "Partition"
		case "canary":
			p.RollingStyle = "Canary"
		case "bluegreen":
			p.RollingStyle = "BlueGreen"
		}
	}
	p.EnableExtraWorkloadForCanary = chance(r, 40)
	br.Status = v1alpha1.BatchReleaseStatus{StableRevision: "s" + strconv.Itoa(r.Intn(99)), UpdateRevision: "u" + strconv.Itoa(r.Intn(99)), ObservedGeneration: int64(r.Intn(20)),
		ObservedRolloutID: pick(r, "", "r1"), ObservedWorkloadReplicas: int32(r.Intn(50)), ObservedReleasePlanHash: "h" + strconv.Itoa(r.Intn(99)), Phase: v1alpha1.RolloutPhase(pick(r, "Preparing", "Progressing", "Completed")),
		Conditions: genConds(r)}
	if chance(r, 30) {
		br.Status.CollisionCount = pointer.Int32(int32(r.Intn(4)))
	}
	ts := metav1.Unix(int64(7000+r.Intn(100)), 0)
	br.Status.CanaryStatus = v1alpha1.BatchReleaseCanaryStatus{CurrentBatchState: v1alpha1.BatchReleaseBatchStateType(pick(r, "Upgrading", "Verifying", "Ready")), CurrentBatch: int32(r.Intn(5)),
		UpdatedReplicas: int32(10 + r.Intn(9)), UpdatedReadyReplicas: int32(20 + r.Intn(9))}
	if chance(r, 50) {
		br.Status.CanaryStatus.BatchReadyTime = &ts
	}
	if chance(r, 30) {
		br.Status.CanaryStatus.NoNeedUpdateReplicas = pointer.Int32(int32(r.Intn(5)))
	}
	return br
}

func orIOS(p *intstr.IntOrString) *intstr.IntOrString {
	if p == nil {
		v := intstr.FromString("100%")
		return &v
	}
	return p
}

func (convertEngine) Gen(r *rand.Rand, idx int, tier string) any {
	switch idx % 3 {
	case 0:
		return ConvInput{Kind: "rollout-alpha", RolloutA: genAlphaRollout(r, tier)}
	case 1:
		// a canary-strategy v1beta1 object restricted to what v1alpha1 can express: obtained by converting a
		// generated v1alpha1 object, then varying the v1beta1-only degrees of freedom that stay expressible
		a := genAlphaRollout(r, "fixed")
		b := &v1beta1.Rollout{}
		_ = a.ConvertTo(b)
		if b.Spec.Strategy.Canary != nil {
			for i := range b.Spec.Strategy.Canary.Steps {
				st := &b.Spec.Strategy.Canary.Steps[i]
				if chance(r, 25) { // traffic and replicas are independent in v1beta1
					st.Replicas = genIOSPtr(r)
				}
				if chance(r, 15) {
					st.Traffic = nil
				}
			}
			b.Spec.Strategy.Canary.EnableExtraWorkloadForCanary = chance(r, 50)
			b.Spec.Strategy.Canary.TrafficRoutingRef = pick(r, "", "tr-x")
			if cs := b.Status.CanaryStatus; cs != nil && chance(r, 30) {
				cs.NextStepIndex = pick(r, int32(0), int32(-1), int32(2))
			}
			if tier != "fixed" && chance(r, 5) {
				b.Spec.Strategy.Canary = nil // schema-admitted: empty strategy
			}
		}
		b.Annotations = nil
		return ConvInput{Kind: "rollout-beta", RolloutB: b}
	default:
		return ConvInput{Kind: "br-alpha", BRA: genAlphaBR(r, tier)}
	}
}

func guard(f func() error) (pan, errs string) {
	defer func() {
		if rec := recover(); rec != nil {
			pan = fmt.Sprint(rec)
		}
	}()
	if err := f(); err != nil {
		errs = err.Error()
	}
	return
}

func (convertEngine) Run(inAny any) any {
	in := inAny.(ConvInput)
	obs := ConvObs{}
	switch in.Kind {
	case "rollout-alpha":
		b := &v1beta1.Rollout{}
		obs.Panic1, obs.Err1 = guard(func() error { return in.RolloutA.DeepCopy().ConvertTo(b) })
		if obs.Panic1 == "" && obs.Err1 == "" {
			obs.RolloutB = b
			a := &v1alpha1.Rollout{}
			obs.Panic2, obs.Err2 = guard(func() error { return a.ConvertFrom(b.DeepCopy()) })
			if obs.Panic2 == "" && obs.Err2 == "" {
				obs.RolloutA = a
			}
		}
	case "rollout-beta":
		a := &v1alpha1.Rollout{}
		obs.Panic1, obs.Err1 = guard(func() error { return a.ConvertFrom(in.RolloutB.DeepCopy()) })
		if obs.Panic1 == "" && obs.Err1 == "" {
			obs.RolloutA = a
			b := &v1beta1.Rollout{}
			obs.Panic2, obs.Err2 = guard(func() error { return a.DeepCopy().ConvertTo(b) })
			if obs.Panic2 == "" && obs.Err2 == "" {
				obs.RolloutB = b
			}
		}
	case "br-alpha":
		b := &v1beta1.BatchRelease{}
		obs.Panic1, obs.Err1 = guard(func() error { return in.BRA.DeepCopy().ConvertTo(b) })
		if obs.Panic1 == "" && obs.Err1 == "" {
			obs.BRB = b
			a := &v1alpha1.BatchRelease{}
			obs.Panic2, obs.Err2 = guard(func() error { return a.ConvertFrom(b.DeepCopy()) })
			if obs.Panic2 == "" && obs.Err2 == "" {
				obs.BRA = a
			}
		}
	}
	return obs
}

// ---- projections to the model's records ----
func optAnno(m map[string]string, k string) string {
	if v, ok := m[k]; ok {
		return emit.Some(emit.Str(v))
	}
	return "None"
}

func coqOptIOS(p *intstr.IntOrString) string {
	if p == nil {
		return "None"
	}
	return emit.Some(IOSFrom(*p).Coq())
}

func coqOptI32(p *int32) string {
	if p == nil {
		return "None"
	}
	return emit.Some(emit.Z(int64(*p)))
}

func wref3(a, k, n string) string {
	return "(" + emit.Str(a) + ", " + emit.Str(k) + ", " + emit.Str(n) + ")"
}

func coqPatch(ann, lab map[string]string, present bool) string {
	if !present {
		return "None"
	}
	return emit.Some(emit.Pair(emit.Str(digest(ann)), emit.Str(digest(lab))))
}

func coqStatusA(s v1alpha1.RolloutStatus) string {
	cs := "None"
	if s.CanaryStatus != nil {
		cs = emit.Some(emit.Str(digest(s.CanaryStatus)))
	}
	return emit.App("Build_rstatus_proj", emit.Z(s.ObservedGeneration), emit.Str(string(s.Phase)), emit.Str(s.Message), emit.Str(digest(s.Conditions)), cs)
}

func coqStatusB(s v1beta1.RolloutStatus) string {
	cs := "None"
	if s.CanaryStatus != nil {
		cs = emit.Some(emit.Str(digest(s.CanaryStatus)))
	}
	return emit.App("Build_rstatus_proj", emit.Z(s.ObservedGeneration), emit.Str(string(s.Phase)), emit.Str(s.Message), emit.Str(digest(s.Conditions)), cs)
}

func coqAlphaRollout(a *v1alpha1.Rollout) string {
	wref := "None"
	if w := a.Spec.ObjectRef.WorkloadRef; w != nil {
		wref = emit.Some(wref3(w.APIVersion, w.Kind, w.Name))
	}
	canary := "None"
	if c := a.Spec.Strategy.Canary; c != nil {
		steps := emit.ListOf(c.Steps, func(s v1alpha1.CanaryStep) string {
			return emit.App("Build_alpha_step", coqOptI32(s.Weight), coqOptIOS(s.Replicas), coqOptI32(s.Pause.Duration), emit.Str(digest(s.RequestHeaderModifier)),
				emit.ListOf(s.Matches, func(m v1alpha1.HttpRouteMatch) string { return emit.Str(digest(m.Headers)) }))
		})
		trs := emit.ListOf(c.TrafficRoutings, func(t v1alpha1.TrafficRoutingRef) string { return emit.Str(digest(t)) })
		var ann, lab map[string]string
		if c.PatchPodTemplateMetadata != nil {
			ann, lab = c.PatchPodTemplateMetadata.Annotations, c.PatchPodTemplateMetadata.Labels
		}
		canary = emit.Some(emit.App("Build_alpha_canary", steps, trs, coqOptIOS(c.FailureThreshold), coqPatch(ann, lab, c.PatchPodTemplateMetadata != nil)))
	}
	return emit.App("Build_alpha_rollout", optAnno(a.Annotations, v1alpha1.RolloutStyleAnnotation), optAnno(a.Annotations, v1alpha1.TrafficRoutingAnnotation),
		wref, emit.Bool(a.Spec.Disabled), emit.Bool(a.Spec.Strategy.Paused), canary, coqStatusA(a.Status))
}

func coqBetaRollout(b *v1beta1.Rollout) string {
	canary := "None"
	if c := b.Spec.Strategy.Canary; c != nil {
		steps := emit.ListOf(c.Steps, func(s v1beta1.CanaryStep) string {
			tr := "None"
			if s.Traffic != nil {
				tr = emit.Some(emit.Str(*s.Traffic))
			}
			return emit.App("Build_beta_step", tr, coqOptIOS(s.Replicas), coqOptI32(s.Pause.Duration), emit.Str(digest(s.RequestHeaderModifier)),
				emit.ListOf(s.Matches, func(m v1beta1.HttpRouteMatch) string {
					rest := ""
					if m.Path != nil || len(m.QueryParams) > 0 {
						rest = digest(struct {
							P any
							Q any
						}{m.Path, m.QueryParams})
					}
					return emit.Pair(emit.Str(digest(m.Headers)), emit.Str(rest))
				}))
		})
		trs := emit.ListOf(c.TrafficRoutings, func(t v1beta1.TrafficRoutingRef) string { return emit.Str(digest(t)) })
		var ann, lab map[string]string
		if c.PatchPodTemplateMetadata != nil {
			ann, lab = c.PatchPodTemplateMetadata.Annotations, c.PatchPodTemplateMetadata.Labels
		}
		canary = emit.Some(emit.App("Build_beta_canary", steps, trs, coqOptIOS(c.FailureThreshold), coqPatch(ann, lab, c.PatchPodTemplateMetadata != nil),
			emit.Bool(c.EnableExtraWorkloadForCanary), emit.Str(c.TrafficRoutingRef), emit.Bool(c.DisableGenerateCanaryService)))
	}
	w := b.Spec.WorkloadRef
	return emit.App("Build_beta_rollout", optAnno(b.Annotations, v1alpha1.RolloutStyleAnnotation), optAnno(b.Annotations, v1alpha1.TrafficRoutingAnnotation),
		wref3(w.APIVersion, w.Kind, w.Name), emit.Bool(b.Spec.Disabled), emit.Bool(b.Spec.Strategy.Paused), canary, emit.Bool(b.Spec.Strategy.BlueGreen != nil),
		coqStatusB(b.Status), emit.Bool(b.Status.BlueGreenStatus != nil))
}

func planDigestA(p v1alpha1.ReleasePlan) string {
	return digest([]any{p.Batches, p.BatchPartition, p.RolloutID, p.FailureThreshold, p.FinalizingPolicy, p.PatchPodTemplateMetadata})
}
func planDigestB(p v1beta1.ReleasePlan) string {
	return digest([]any{p.Batches, p.BatchPartition, p.RolloutID, p.FailureThreshold, p.FinalizingPolicy, p.PatchPodTemplateMetadata})
}

func coqAlphaBR(a *v1alpha1.BatchRelease) string {
	wref := "None"
	if w := a.Spec.TargetRef.WorkloadRef; w != nil {
		wref = emit.Some(wref3(w.APIVersion, w.Kind, w.Name))
	}
	return emit.App("Build_alpha_br", optAnno(a.Annotations, v1alpha1.RolloutStyleAnnotation), wref, emit.Str(planDigestA(a.Spec.ReleasePlan)),
		emit.Str(string(a.Spec.ReleasePlan.RollingStyle)), emit.Bool(a.Spec.ReleasePlan.EnableExtraWorkloadForCanary), emit.Str(digest(a.Status)))
}

func coqBetaBR(b *v1beta1.BatchRelease) string {
	w := b.Spec.WorkloadRef
	return emit.App("Build_beta_br", optAnno(b.Annotations, v1alpha1.RolloutStyleAnnotation), wref3(w.APIVersion, w.Kind, w.Name), emit.Str(planDigestB(b.Spec.ReleasePlan)),
		emit.Str(string(b.Spec.ReleasePlan.RollingStyle)), emit.Bool(b.Spec.ReleasePlan.EnableExtraWorkloadForCanary), emit.Str(digest(b.Status)))
}

func coqOutcome(pan, errs string, ok bool, val func() string) string {
	if pan != "" {
		return "OPanic"
	}
	if errs != "" {
		return "OErr"
	}
	if !ok {
		return "ONone"
	}
	return emit.App("OVal", val())
}

func (convertEngine) Coq(inAny any, obsAny any) string {
	in := inAny.(ConvInput)
	obs := obsAny.(ConvObs)
	switch in.Kind {
	case "rollout-alpha":
		return emit.App("CRolloutAlpha", coqAlphaRollout(in.RolloutA),
			coqOutcome(obs.Panic1, obs.Err1, obs.RolloutB != nil, func() string { return coqBetaRollout(obs.RolloutB) }),
			coqOutcome(obs.Panic2, obs.Err2, obs.RolloutA != nil, func() string { return coqAlphaRollout(obs.RolloutA) }))
	case "rollout-beta":
		return emit.App("CRolloutBeta", coqBetaRollout(in.RolloutB),
			coqOutcome(obs.Panic1, obs.Err1, obs.RolloutA != nil, func() string { return coqAlphaRollout(obs.RolloutA) }),
			coqOutcome(obs.Panic2, obs.Err2, obs.RolloutB != nil, func() string { return coqBetaRollout(obs.RolloutB) }))
	default:
		return emit.App("CBRAlpha", coqAlphaBR(in.BRA),
			coqOutcome(obs.Panic1, obs.Err1, obs.BRB != nil, func() string { return coqBetaBR(obs.BRB) }),
			coqOutcome(obs.Panic2, obs.Err2, obs.BRA != nil, func() string { return coqAlphaBR(obs.BRA) }))
	}
}
