package engines

import (
	"context"
	"crypto/sha1"
	"encoding/hex"
	"encoding/json"
	"fmt"
	"math/rand"
	"sort"
	"strconv"
	"strings"

	metav1 "k8s.io/apimachinery/pkg/apis/meta/v1"
	"k8s.io/apimachinery/pkg/types"
	"sigs.k8s.io/controller-runtime/pkg/client/fake"
	gatewayv1beta1 "sigs.k8s.io/gateway-api/apis/v1beta1"

	"github.com/openkruise/rollouts/api/v1beta1"
	"github.com/openkruise/rollouts/pkg/trafficrouting/network/gateway"

	"verifharness/emit"
)

type GWOp struct {
	Kind    string                   `json:"kind"` // ensure | finalise
	Traffic *string                  `json:"traffic,omitempty"`
	Matches []v1beta1.HttpRouteMatch `json:"matches,omitempty"`
}

type GWInput struct {
	Stable string                         `json:"stable"`
	Canary string                         `json:"canary"`
	Rules  []gatewayv1beta1.HTTPRouteRule `json:"rules"`
	Ops    []GWOp                         `json:"ops"`
}

type GWStep struct {
	Panic      string                         `json:"panic,omitempty"`
	Err        string                         `json:"err,omitempty"`
	Flag       bool                           `json:"flag"`
	Rules      []gatewayv1beta1.HTTPRouteRule `json:"rules"`
	ProbeFlag  bool                           `json:"probe_flag"`
	ProbeRules []gatewayv1beta1.HTTPRouteRule `json:"probe_rules"`
}

type GWObs struct {
	Steps []GWStep `json:"steps"`
}

type gatewayEngine struct{}

func init() { Register(gatewayEngine{}) }

func (gatewayEngine) Name() string      { return "gateway" }
func (gatewayEngine) CoqModule() string { return "Corr.Gateway" }
func (gatewayEngine) Decode(raw json.RawMessage) (any, error) {
	var in GWInput
	err := json.Unmarshal(raw, &in)
	return in, err
}

func genHeaderMatches(r *rand.Rand, n int, pool []string) []gatewayv1beta1.HTTPHeaderMatch {
	var hs []gatewayv1beta1.HTTPHeaderMatch
	for i := 0; i < n; i++ {
		h := gatewayv1beta1.HTTPHeaderMatch{Name: gatewayv1beta1.HTTPHeaderName(pool[r.Intn(len(pool))]), Value: pick(r, "a", "b", "tester", "v2")}
		if chance(r, 40) {
			t := pick(r, gatewayv1beta1.HeaderMatchExact, gatewayv1beta1.HeaderMatchRegularExpression)
			h.Type = &t
		}
		hs = append(hs, h)
	}
	return hs
}

func genQueryMatches(r *rand.Rand, n int) []gatewayv1beta1.HTTPQueryParamMatch {
	var qs []gatewayv1beta1.HTTPQueryParamMatch
	for i := 0; i < n; i++ {
		q := gatewayv1beta1.HTTPQueryParamMatch{Name: gatewayv1beta1.HTTPHeaderName(pick(r, "ver", "canary", "uid")), Value: pick(r, "1", "2", "x")}
		if chance(r, 30) {
			t := gatewayv1beta1.QueryParamMatchExact
			q.Type = &t
		}
		qs = append(qs, q)
	}
	return qs
}

func genPath(r *rand.Rand) *gatewayv1beta1.HTTPPathMatch {
	v := pick(r, "/", "/store", "/api/v1", "/beta")
	p := &gatewayv1beta1.HTTPPathMatch{Value: &v}
	if chance(r, 70) {
		t := pick(r, gatewayv1beta1.PathMatchPathPrefix, gatewayv1beta1.PathMatchExact)
		p.Type = &t
	}
	return p
}

func (gatewayEngine) Gen(r *rand.Rand, idx int, tier string) any {
	in := GWInput{Stable: "svc", Canary: "svc-canary"}
	svcKind := gatewayv1beta1.Kind("Service")
	nr := 1 + r.Intn(4)
	for i := 0; i < nr; i++ {
		rule := gatewayv1beta1.HTTPRouteRule{}
		nm := 1 + r.Intn(2) // never empty: the HTTPRoute CRD defaults an absent match list to PathPrefix /
		for j := 0; j < nm; j++ {
			m := gatewayv1beta1.HTTPRouteMatch{}
			if chance(r, 80) {
				m.Path = genPath(r)
			}
			m.Headers = genHeaderMatches(r, pick(r, 0, 0, 1, 2), []string{"x-env", "x-tenant", "user"})
			m.QueryParams = genQueryMatches(r, pick(r, 0, 0, 0, 1))
			if chance(r, 10) {
				me := gatewayv1beta1.HTTPMethodGet
				m.Method = &me
			}
			rule.Matches = append(rule.Matches, m)
		}
		if chance(r, 20) {
			rule.Filters = []gatewayv1beta1.HTTPRouteFilter{{Type: gatewayv1beta1.HTTPRouteFilterRequestHeaderModifier,
				RequestHeaderModifier: &gatewayv1beta1.HTTPHeaderFilter{Set: []gatewayv1beta1.HTTPHeader{{Name: "x-added", Value: "r" + strconv.Itoa(i)}}}}}
		}
		nb := pick(r, 1, 1, 1, 2, 2, 3, 0)
		for j := 0; j < nb; j++ {
			ref := gatewayv1beta1.HTTPBackendRef{}
			name := pick(r, "svc", "svc", "svc", "other", "legacy")
			if j > 0 {
				name = pick(r, "other", "legacy", "svc")
			}
			ref.Name = gatewayv1beta1.ObjectName(name)
			k := svcKind
			ref.Kind = &k
			if chance(r, 7) {
				ref.Kind = nil
			} else if chance(r, 5) {
				ok := gatewayv1beta1.Kind("ServiceImport")
				ref.Kind = &ok
			}
			port := gatewayv1beta1.PortNumber(pick(r, 80, 8080))
			ref.Port = &port
			if chance(r, 60) {
				w := int32(pick(r, 1, 1, 3, 50, 100))
				ref.Weight = &w
			}
			rule.BackendRefs = append(rule.BackendRefs, ref)
		}
		in.Rules = append(in.Rules, rule)
	}
	if tier == "search" && chance(r, 5) { // outside the property's domain on purpose: a user rule already naming the canary Service
		k := svcKind
		in.Rules[0].BackendRefs = append(in.Rules[0].BackendRefs, gatewayv1beta1.HTTPBackendRef{BackendRef: gatewayv1beta1.BackendRef{BackendObjectReference: gatewayv1beta1.BackendObjectReference{Name: "svc-canary", Kind: &k}}})
	}
	// operations
	nops := 1 + r.Intn(3)
	for i := 0; i < nops; i++ {
		op := GWOp{Kind: "ensure"}
		if chance(r, 55) {
			w := pick(r, 0, 1, 5, 20, 50, 99, 100, r.Intn(101))
			s := strconv.Itoa(w) + "%"
			op.Traffic = &s
		} else {
			nm := 1 + r.Intn(3)
			for j := 0; j < nm; j++ {
				m := v1beta1.HttpRouteMatch{}
				kind := r.Intn(10)
				if kind < 3 {
					m.Path = genPath(r)
					if chance(r, 30) {
						m.Headers = genHeaderMatches(r, 1, []string{"user", "x-canary"})
					}
				} else if kind < 8 {
					m.Headers = genHeaderMatches(r, 1+r.Intn(2), []string{"user", "x-canary"})
				} else {
					m.QueryParams = genQueryMatches(r, 1)
					if chance(r, 30) {
						m.Headers = genHeaderMatches(r, 1, []string{"user"})
					}
				}
				op.Matches = append(op.Matches, m)
			}
		}
		in.Ops = append(in.Ops, op)
	}
	if chance(r, 85) {
		in.Ops = append(in.Ops, GWOp{Kind: "finalise"})
	}
	return in
}

func (gatewayEngine) Run(inAny any) any {
	in := inAny.(GWInput)
	route := &gatewayv1beta1.HTTPRoute{ObjectMeta: metav1.ObjectMeta{Namespace: "ns", Name: "route"}, Spec: gatewayv1beta1.HTTPRouteSpec{Rules: in.Rules}}
	cli := fake.NewClientBuilder().WithScheme(FullScheme()).WithObjects(route).Build()
	name := "route"
	prov, _ := gateway.NewGatewayTrafficRouting(cli, gateway.Config{Key: "ns/rollout", Namespace: "ns", CanaryService: in.Canary, StableService: in.Stable,
		TrafficConf: &v1beta1.GatewayTrafficRouting{HTTPRouteName: &name}})
	read := func() []gatewayv1beta1.HTTPRouteRule {
		o := &gatewayv1beta1.HTTPRoute{}
		_ = cli.Get(context.TODO(), types.NamespacedName{Namespace: "ns", Name: "route"}, o)
		return o.Spec.Rules
	}
	call := func(op GWOp) (flag bool, errs string, pan string) {
		defer func() {
			if rec := recover(); rec != nil {
				pan = fmt.Sprint(rec)
			}
		}()
		var err error
		if op.Kind == "finalise" {
			flag, err = prov.Finalise(context.TODO())
		} else {
			flag, err = prov.EnsureRoutes(context.TODO(), &v1beta1.TrafficRoutingStrategy{Traffic: op.Traffic, Matches: op.Matches})
		}
		if err != nil {
			errs = err.Error()
		}
		return
	}
	obs := GWObs{}
	for _, op := range in.Ops {
		st := GWStep{}
		st.Flag, st.Err, st.Panic = call(op)
		st.Rules = read()
		if st.Panic == "" {
			var pp string
			st.ProbeFlag, _, pp = call(op)
			if pp != "" {
				st.Panic = "probe: " + pp
			}
			st.ProbeRules = read()
		}
		obs.Steps = append(obs.Steps, st)
		if st.Panic != "" {
			break
		}
	}
	return obs
}

// opaque remainder of an object: its JSON without the listed keys
func restJSON(v any, drop ...string) string {
	raw, _ := json.Marshal(v)
	m := map[string]any{}
	_ = json.Unmarshal(raw, &m)
	for _, k := range drop {
		delete(m, k)
	}
	keys := make([]string, 0, len(m))
	for k := range m {
		keys = append(keys, k)
	}
	sort.Strings(keys)
	out, _ := json.Marshal(m)
	if len(out) <= 2 {
		return ""
	}
	// opaque: only equality matters, so a short digest is printed (keeps the Coq terms small)
	sum := sha1.Sum(out)
	return hex.EncodeToString(sum[:6])
}

func coqKV(t *string, name, val string) string {
	ty := ""
	if t != nil {
		ty = *t
	}
	return emit.App("Build_kv", emit.Str(ty), emit.Str(name), emit.Str(val))
}

func coqPath(p *gatewayv1beta1.HTTPPathMatch) string {
	if p == nil {
		return "None"
	}
	ty, v := "", ""
	if p.Type != nil {
		ty = string(*p.Type)
	}
	if p.Value != nil {
		v = *p.Value
	} else {
		v = "<nil>"
	}
	return emit.Some(emit.Pair(emit.Str(ty), emit.Str(v)))
}

func coqHeaders(hs []gatewayv1beta1.HTTPHeaderMatch) string {
	return emit.ListOf(hs, func(h gatewayv1beta1.HTTPHeaderMatch) string {
		var t *string
		if h.Type != nil {
			s := string(*h.Type)
			t = &s
		}
		return coqKV(t, string(h.Name), h.Value)
	})
}

func coqQuery(qs []gatewayv1beta1.HTTPQueryParamMatch) string {
	return emit.ListOf(qs, func(q gatewayv1beta1.HTTPQueryParamMatch) string {
		var t *string
		if q.Type != nil {
			s := string(*q.Type)
			t = &s
		}
		return coqKV(t, string(q.Name), q.Value)
	})
}

func coqRules(rules []gatewayv1beta1.HTTPRouteRule) string {
	return emit.ListOf(rules, func(r gatewayv1beta1.HTTPRouteRule) string {
		ms := emit.ListOf(r.Matches, func(m gatewayv1beta1.HTTPRouteMatch) string {
			me := ""
			if m.Method != nil {
				me = string(*m.Method)
			}
			return emit.App("Build_hmatch", coqPath(m.Path), coqHeaders(m.Headers), coqQuery(m.QueryParams), emit.Str(me))
		})
		refs := emit.ListOf(r.BackendRefs, func(b gatewayv1beta1.HTTPBackendRef) string {
			kind := "None"
			if b.Kind != nil {
				kind = emit.Some(emit.Str(string(*b.Kind)))
			}
			w := "None"
			if b.Weight != nil {
				w = emit.Some(emit.Z(int64(*b.Weight)))
			}
			return emit.App("Build_bref", kind, emit.Str(string(b.Name)), w, emit.Str(restJSON(b, "kind", "name", "weight")))
		})
		return emit.App("Build_rule", ms, emit.Str(restJSON(r, "matches", "backendRefs")), refs)
	})
}

func (gatewayEngine) Coq(inAny any, obsAny any) string {
	in := inAny.(GWInput)
	obs := obsAny.(GWObs)
	// rule lists repeat a lot inside one case (probe = result, unchanged rules): bind each distinct list once
	var defs []string
	names := map[string]string{}
	rl := func(rules []gatewayv1beta1.HTTPRouteRule) string {
		t := coqRules(rules)
		if n, ok := names[t]; ok {
			return n
		}
		n := fmt.Sprintf("rl%d", len(names))
		names[t] = n
		defs = append(defs, "let "+n+" := "+t+" in ")
		return n
	}
	ops := emit.ListOf(in.Ops, func(op GWOp) string {
		if op.Kind == "finalise" {
			return "OFinalise"
		}
		w := "None"
		if op.Traffic != nil {
			// EnsureRoutes: intstr.FromString(traffic) scaled against 100, error ignored
			v := IOS{T: "str", S: *op.Traffic}.Coq()
			w = "(match " + v + " with IPct p => Some (scaled true (IPct p) 100) | _ => Some 0 end)"
		}
		ms := emit.ListOf(op.Matches, func(m v1beta1.HttpRouteMatch) string {
			return emit.App("Build_hmatch", coqPath(m.Path), coqHeaders(m.Headers), coqQuery(m.QueryParams), emit.Str(""))
		})
		return emit.App("OEnsure", emit.App("Build_gstrategy", w, ms))
	})
	orig := rl(in.Rules)
	steps := emit.ListOf(obs.Steps, func(s GWStep) string {
		return emit.App("Build_gobs", emit.Bool(s.Panic != ""), emit.Bool(s.Flag), rl(s.Rules), emit.Bool(s.ProbeFlag), rl(s.ProbeRules))
	})
	body := emit.App("Build_gcase", emit.App("Build_gconf", emit.Str(in.Stable), emit.Str(in.Canary)), orig, ops, steps)
	return "(" + strings.Join(defs, "") + body + ")"
}
