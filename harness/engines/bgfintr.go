package engines

// bgfintr: the rollouttr cases run with the BLUE-GREEN strategy, restricted to the finalising phases (success, rollback,
// deleted, disabled): one real Reconcile with traffic routing from any persisted cursor, network and grace state.

import (
	"encoding/json"
	"math/rand"
)

type bgfintrEngine struct{}

func init() { Register(bgfintrEngine{}) }

func (bgfintrEngine) Name() string      { return "bgfintr" }
func (bgfintrEngine) CoqModule() string { return "Corr.BGFinTR" }
func (bgfintrEngine) Decode(raw json.RawMessage) (any, error) {
	var in TRInput
	err := json.Unmarshal(raw, &in)
	return in, err
}
func (bgfintrEngine) Run(inAny any) any { return rollouttrEngine{}.Run(inAny) }
func (bgfintrEngine) Coq(inAny any, obsAny any) string {
	return rollouttrEngine{}.Coq(inAny, obsAny)
}

var bgFinCursors = []string{"", "", "FinalisingStepRouteTrafficToNew", "RestoreStableService", "FinalisingStepRouteTrafficToStable", "FinalisingStepRouteTrafficToStable",
	"RemoveCanaryService", "ResumeWorkload", "ResumeWorkload", "ReleaseWorkloadControl", "END"}

func (bgfintrEngine) Gen(r *rand.Rand, idx int, tier string) any {
	in := rollouttrEngine{}.Gen(r, idx, tier).(TRInput)
	in.R.BlueGreen = true
	st := &in.R.Status
	if st.Sub == nil {
		st.Sub = &RSub{ObsWlGen: in.R.W.Gen, ObsRID: "v2", Hash: "current", Stable: "v1", PTH: "v2", CanaryRev: "v2", Idx: 1, Next: -1, State: "StepUpgrade", Elapsed: true}
	}
	// one of the four exits, at any step of the release (also the first step before its traffic was routed), any cursor
	in.R.Deleting, in.R.Disabled = false, false
	st.Term = ""
	switch r.Intn(4) {
	case 0:
		st.Phase, st.Prog, st.ProgStatus = "Progressing", "Finalising", true
	case 1:
		st.Phase, st.Prog, st.ProgStatus = "Progressing", "Cancelling", true
	case 2:
		st.Phase, st.Term = "Terminating", "InTerminating"
		in.R.Deleting, in.R.Finalizer = true, true
	default:
		st.Phase = "Disabling"
		in.R.Disabled = true
	}
	st.Sub.Fin = bgFinCursors[r.Intn(len(bgFinCursors))]
	// success and rollback start their own sequence from an empty cursor (they are entered from the rolling state only), so
	// their cursor is always one of their own order; deletion and disabling may interrupt any sequence at any cursor
	if st.Prog == "Cancelling" && st.Phase == "Progressing" && st.Sub.Fin == "FinalisingStepRouteTrafficToNew" {
		st.Sub.Fin = ""
	}
	if chance(r, 40) {
		st.Sub.Idx, st.Sub.State = 1, pick(r, "BeforeStepUpgrade", "StepUpgrade", "StepTrafficRouting", "StepPaused")
	}
	if chance(r, 85) {
		in.R.W.Exists, in.R.W.ObsGen = true, in.R.W.Gen
	}
	// a network as the rolling part leaves it: both Services, a route of one of the steps -- or any other state
	if chance(r, 60) {
		in.X.Net.StableExists, in.X.Net.StableSel = true, st.Sub.Stable
		c := st.Sub.PTH
		in.X.Net.CanarySvc = &c
		if len(in.X.Strategies) > 0 {
			s := in.X.Strategies[r.Intn(len(in.X.Strategies))]
			if s.Weight == nil && s.Match == "" {
				w := 50
				s.Weight = &w
			}
			in.X.Net.Route = &s
		}
	}
	return in
}
