package engines

import (
	"context"
	"encoding/json"
	"fmt"
	"math/rand"
	"strconv"
	"time"

	apps "k8s.io/api/apps/v1"
	corev1 "k8s.io/api/core/v1"
	metav1 "k8s.io/apimachinery/pkg/apis/meta/v1"
	"k8s.io/apimachinery/pkg/runtime"
	"k8s.io/apimachinery/pkg/types"
	k8sfake "k8s.io/client-go/kubernetes/fake"
	appslisters "k8s.io/client-go/listers/apps/v1"
	"k8s.io/client-go/tools/cache"
	"k8s.io/client-go/tools/record"

	"github.com/openkruise/rollouts/api/v1alpha1"
	"github.com/openkruise/rollouts/pkg/controller/deployment"
	deploymentutil "github.com/openkruise/rollouts/pkg/controller/deployment/util"
	"github.com/openkruise/rollouts/pkg/util"

	"verifharness/emit"
)

type DRS struct {
	Spec  int `json:"spec"`
	Avail int `json:"avail"`
}
type DInput struct {
	N         int   `json:"n"`
	Partition IOS   `json:"partition"`
	Surge     *IOS  `json:"surge,omitempty"`
	Unavail   *IOS  `json:"unavail,omitempty"`
	New       DRS   `json:"new"`
	Olds      []DRS `json:"olds"`
	NewOldest bool  `json:"new_oldest,omitempty"`
	NoRU      bool  `json:"no_ru,omitempty"`
	StaleAnno bool  `json:"stale_anno,omitempty"` // old ReplicaSets that were scaled to 0 while the Deployment had another size keep that size in their annotation // the strategy annotation carries no rollingUpdate section
	// status.availableReplicas a previous sync left behind when it no longer matches the ReplicaSets (pods failed or became
	// available since); not an input of the model: the controller counts the ReplicaSets it sees
	StaleAvail *int `json:"stale_avail,omitempty"`
}
type DObs struct {
	Panic string `json:"panic,omitempty"`
	Err   string `json:"err,omitempty"`
	New   int    `json:"new"`
	Olds  []int  `json:"olds"`
}

type deployctlEngine struct{}

func init() { Register(deployctlEngine{}) }

func (deployctlEngine) Name() string      { return "deployctl" }
func (deployctlEngine) CoqModule() string { return "Corr.DeployCtl" }
func (deployctlEngine) Decode(raw json.RawMessage) (any, error) {
	var in DInput
	err := json.Unmarshal(raw, &in)
	return in, err
}

func (deployctlEngine) Gen(r *rand.Rand, idx int, tier string) any {
	n := pick(r, 0, 1, 2, 3, 5, 10, 10, 20, 100)
	in := DInput{N: n}
	if chance(r, 50) {
		in.Partition = Pct(pick(r, 0, 1, 10, 20, 50, 99, 100, r.Intn(101)))
	} else {
		in.Partition = Int(r.Intn(n + 2))
	}
	mk := func(v IOS) *IOS { return &v }
	switch r.Intn(4) {
	case 0:
		in.Surge, in.Unavail = mk(Pct(25)), mk(Pct(25))
	case 1:
		in.Surge, in.Unavail = mk(Int(r.Intn(3))), mk(Int(r.Intn(3)))
	case 2:
		in.Surge, in.Unavail = mk(Int(0)), mk(Int(1+r.Intn(2)))
	default:
		in.Surge, in.Unavail = mk(pick(r, Int(1), Pct(10), Pct(100))), mk(pick(r, Int(0), Pct(0), Pct(50)))
	}
	if chance(r, 8) {
		in.Surge = nil
	}
	if chance(r, 8) {
		in.Unavail = nil
	}
	// sizes: around a consistent rolling state
	newSpec := r.Intn(n + 2)
	in.New = DRS{Spec: newSpec, Avail: r.Intn(newSpec + 1)}
	if chance(r, 50) {
		in.New.Avail = newSpec
	}
	in.NewOldest = chance(r, 25)
	in.NoRU = chance(r, 10)
	in.StaleAnno = chance(r, 40)
	k := pick(r, 1, 1, 2, 3, 3, 4, 5, 0)
	remain := n - newSpec
	if chance(r, 25) {
		remain += r.Intn(3) // surge in flight
	}
	if chance(r, 15) {
		remain -= 1 + r.Intn(3) // fewer old pods than the partition reserves
	}
	if remain < 0 {
		remain = 0
	}
	for i := 0; i < k; i++ {
		s := remain
		if i < k-1 {
			s = r.Intn(remain + 1)
		}
		remain -= s
		o := DRS{Spec: s, Avail: s}
		if chance(r, 35) {
			o.Avail = r.Intn(s + 1)
		}
		in.Olds = append(in.Olds, o)
	}
	// focused mode: several old ReplicaSets with unavailable pods, no surge, a generous maxUnavailable and a partition that
	// reserves most of the old pods: the clean-up budget (and then the availability floor) is what binds
	if idx%4 == 1 {
		n = pick(r, 10, 12, 20)
		in.N = n
		in.Surge, in.Unavail = mk(Int(0)), mk(pick(r, Pct(50), Pct(100), Int(n/2), Int(2)))
		ns := r.Intn(4)
		in.New = DRS{Spec: ns, Avail: ns - r.Intn(ns+1)/2}
		in.Partition = Int(ns + 1 + r.Intn(4))
		if chance(r, 30) {
			in.Partition = Pct(10 * (1 + r.Intn(6)))
		}
		in.NewOldest = chance(r, 15)
		k := 2 + r.Intn(3)
		remain := n - ns + r.Intn(2)
		in.Olds = nil
		for i := 0; i < k; i++ {
			s := remain
			if i < k-1 {
				s = 1 + r.Intn(maxInt(remain/2, 1))
			}
			remain -= s
			if remain < 0 {
				remain = 0
			}
			o := DRS{Spec: s, Avail: s}
			if chance(r, 75) && s > 0 {
				o.Avail = s - 1 - r.Intn(s)
			}
			in.Olds = append(in.Olds, o)
		}
	}
	if chance(r, 20) {
		total := in.New.Avail
		for _, o := range in.Olds {
			total += o.Avail
		}
		sa := maxInt(total+pick(r, -3, -1, 1, 2, 4), 0)
		in.StaleAvail = &sa
	}
	return in
}

func dTemplate(rev string) corev1.PodTemplateSpec {
	return corev1.PodTemplateSpec{ObjectMeta: metav1.ObjectMeta{Labels: map[string]string{"app": "demo"}},
		Spec: corev1.PodSpec{Containers: []corev1.Container{{Name: "main", Image: "img:" + rev}}}}
}

func (deployctlEngine) Run(inAny any) (res any) {
	in := inAny.(DInput)
	obs := DObs{}
	defer func() {
		if p := recover(); p != nil {
			obs.Panic = fmt.Sprint(p)
			res = obs
		}
	}()
	n32 := int32(in.N)
	strategy := v1alpha1.DeploymentStrategy{RollingStyle: v1alpha1.PartitionRollingStyle, Partition: in.Partition.K8s(), RollingUpdate: &apps.RollingUpdateDeployment{}}
	if in.Surge != nil {
		strategy.RollingUpdate.MaxSurge = ptrIOS(in.Surge.K8s())
	}
	if in.Unavail != nil {
		strategy.RollingUpdate.MaxUnavailable = ptrIOS(in.Unavail.K8s())
	}
	if in.NoRU {
		strategy.RollingUpdate = nil
	}
	d := &apps.Deployment{ObjectMeta: metav1.ObjectMeta{Namespace: "ns", Name: "web", UID: "d-uid", Generation: 2,
		Annotations: map[string]string{util.BatchReleaseControlAnnotation: controlInfo, v1alpha1.DeploymentStrategyAnnotation: util.DumpJSON(&strategy)}},
		Spec: apps.DeploymentSpec{Replicas: &n32, Paused: true, Selector: &metav1.LabelSelector{MatchLabels: map[string]string{"app": "demo"}}, Template: dTemplate("new"),
			Strategy: apps.DeploymentStrategy{Type: apps.RecreateDeploymentStrategyType}}}
	// the status a previous sync left behind: it counts the pods of all ReplicaSets (calculateStatus)
	total := in.New.Spec
	availTotal := in.New.Avail
	for _, o := range in.Olds {
		total += o.Spec
		availTotal += o.Avail
	}
	if in.StaleAvail != nil {
		availTotal = *in.StaleAvail
	}
	d.Status = apps.DeploymentStatus{ObservedGeneration: 2, Replicas: int32(total), UpdatedReplicas: int32(in.New.Spec), AvailableReplicas: int32(availTotal), ReadyReplicas: int32(availTotal)}
	tr := true
	owner := metav1.OwnerReference{APIVersion: "apps/v1", Kind: "Deployment", Name: "web", UID: "d-uid", Controller: &tr, BlockOwnerDeletion: &tr}
	base := time.Now().Add(-time.Hour)
	mkRS := func(name, rev string, idx int, s DRS, revision int) *apps.ReplicaSet {
		sp := int32(s.Spec)
		desired := in.N
		if in.StaleAnno && s.Spec == 0 {
			desired = in.N + 3
		}
		tmpl := dTemplate(rev)
		tmpl.Labels[apps.DefaultDeploymentUniqueLabelKey] = "h" + rev
		return &apps.ReplicaSet{ObjectMeta: metav1.ObjectMeta{Namespace: "ns", Name: name, UID: types.UID("uid-" + name), CreationTimestamp: metav1.NewTime(base.Add(time.Duration(idx) * time.Minute)),
			Labels: map[string]string{"app": "demo", apps.DefaultDeploymentUniqueLabelKey: "h" + rev}, OwnerReferences: []metav1.OwnerReference{owner},
			Annotations: map[string]string{deploymentutil.RevisionAnnotation: strconv.Itoa(revision), deploymentutil.ReplicasAnnotation: strconv.Itoa(desired),
				deploymentutil.MaxReplicasAnnotation: strconv.Itoa(in.N + 100)}},
			Spec:   apps.ReplicaSetSpec{Replicas: &sp, Selector: &metav1.LabelSelector{MatchLabels: map[string]string{"app": "demo", apps.DefaultDeploymentUniqueLabelKey: "h" + rev}}, Template: tmpl},
			Status: apps.ReplicaSetStatus{Replicas: sp, AvailableReplicas: int32(s.Avail), ReadyReplicas: int32(s.Avail)}}
	}
	var objs []runtime.Object
	objs = append(objs, d)
	dIdx := cache.NewIndexer(cache.MetaNamespaceKeyFunc, cache.Indexers{})
	rsIdx := cache.NewIndexer(cache.MetaNamespaceKeyFunc, cache.Indexers{})
	_ = dIdx.Add(d)
	var names []string
	for i, o := range in.Olds {
		name := fmt.Sprintf("web-old%d", i)
		rs := mkRS(name, fmt.Sprintf("old%d", i), i, o, i+1)
		objs = append(objs, rs)
		_ = rsIdx.Add(rs)
		names = append(names, name)
	}
	newIdx := len(in.Olds) + 1
	if in.NewOldest {
		newIdx = -5 // created before every old ReplicaSet: the Deployment was rolled back to an earlier template
	}
	newRS := mkRS("web-new", "new", newIdx, in.New, len(in.Olds)+1)
	objs = append(objs, newRS)
	_ = rsIdx.Add(newRS)
	cs := k8sfake.NewSimpleClientset(objs...)
	ok, err := deployment.VerifSyncDeployment(context.TODO(), cs, appslisters.NewDeploymentLister(dIdx), appslisters.NewReplicaSetLister(rsIdx), record.NewFakeRecorder(1000), d)
	if err != nil {
		obs.Err = err.Error()
	}
	if !ok {
		obs.Err = "factory declined the deployment"
	}
	get := func(name string) int {
		rs, err := cs.AppsV1().ReplicaSets("ns").Get(context.TODO(), name, metav1.GetOptions{})
		if err != nil || rs.Spec.Replicas == nil {
			return -1
		}
		return int(*rs.Spec.Replicas)
	}
	obs.New = get("web-new")
	for _, nme := range names {
		obs.Olds = append(obs.Olds, get(nme))
	}
	return obs
}

func (deployctlEngine) Coq(inAny any, obsAny any) string {
	in := inAny.(DInput)
	obs := obsAny.(DObs)
	rs := func(s DRS) string { return emit.App("Build_rs", emit.Z(int64(s.Spec)), emit.Z(int64(s.Avail))) }
	d := emit.App("Build_dstate", emit.Z(int64(in.N)), in.Partition.Coq(), optIOS(in.Surge), optIOS(in.Unavail), rs(in.New), emit.ListOf(in.Olds, rs), emit.Bool(in.NewOldest), emit.Bool(in.NoRU))
	o := emit.App("Build_dobs", emit.Bool(obs.Panic != ""), emit.Bool(obs.Err != ""), emit.Z(int64(obs.New)), emit.ListOf(obs.Olds, func(x int) string { return emit.Z(int64(x)) }))
	return emit.Pair(d, o)
}
