package engines

import (
	"context"
	"encoding/json"
	"fmt"
	"math/rand"

	kruiseappsv1alpha1 "github.com/openkruise/kruise-api/apps/v1alpha1"
	kruiseappsv1beta1 "github.com/openkruise/kruise-api/apps/v1beta1"
	apps "k8s.io/api/apps/v1"
	corev1 "k8s.io/api/core/v1"
	metav1 "k8s.io/apimachinery/pkg/apis/meta/v1"
	"k8s.io/apimachinery/pkg/runtime/schema"
	"k8s.io/apimachinery/pkg/types"
	"k8s.io/apimachinery/pkg/util/intstr"
	"k8s.io/utils/pointer"
	"sigs.k8s.io/controller-runtime/pkg/client"
	"sigs.k8s.io/controller-runtime/pkg/client/fake"

	"github.com/openkruise/rollouts/api/v1alpha1"
	"github.com/openkruise/rollouts/api/v1beta1"
	batchcontext "github.com/openkruise/rollouts/pkg/controller/batchrelease/context"
	bgcloneset "github.com/openkruise/rollouts/pkg/controller/batchrelease/control/bluegreenstyle/cloneset"
	bgdeployment "github.com/openkruise/rollouts/pkg/controller/batchrelease/control/bluegreenstyle/deployment"
	canarydeployment "github.com/openkruise/rollouts/pkg/controller/batchrelease/control/canarystyle/deployment"
	partcloneset "github.com/openkruise/rollouts/pkg/controller/batchrelease/control/partitionstyle/cloneset"
	partdaemonset "github.com/openkruise/rollouts/pkg/controller/batchrelease/control/partitionstyle/daemonset"
	partdeployment "github.com/openkruise/rollouts/pkg/controller/batchrelease/control/partitionstyle/deployment"
	partstatefulset "github.com/openkruise/rollouts/pkg/controller/batchrelease/control/partitionstyle/statefulset"
	"github.com/openkruise/rollouts/pkg/util"

	"verifharness/emit"
)

// ArithInput: one CalculateBatchContext + UpgradeBatch on a workload of the given kind.
type ArithInput struct {
	Kind   string `json:"kind"` // cloneset | sts-unordered | sts-ordered | daemon | deploy-part | bg-deploy | bg-clone
	Plan   []IOS  `json:"plan"`
	N      int    `json:"n"`
	Cur    int    `json:"cur"`
	NoNeed *int   `json:"noneed,omitempty"`
	Knob   *IOS   `json:"knob,omitempty"`
	// status.replicas of the workload: equal to N in the steady state, different while a scale is in flight. Not an input of
	// the model: the arithmetic is about the configured size
	StatusN       *int `json:"status_n,omitempty"`
	StatusUpdated *int `json:"status_updated,omitempty"` // status.updatedReplicas (updatedNumberScheduled): progress already made when the batch is (re-)entered
}

type ArithObs struct {
	Panic     string `json:"panic,omitempty"`
	Err       string `json:"err,omitempty"`
	Planned   int    `json:"planned"`
	Desired   int    `json:"desired"`
	Target    IOS    `json:"target"`
	Wrote     bool   `json:"wrote"`
	KnobAfter *IOS   `json:"knob_after"`
}

type arithEngine struct{}

func init() { Register(arithEngine{}) }

func (arithEngine) Name() string      { return "arith" }
func (arithEngine) CoqModule() string { return "Corr.BatchArith" }
func (arithEngine) Decode(raw json.RawMessage) (any, error) {
	var in ArithInput
	err := json.Unmarshal(raw, &in)
	return in, err
}

var arithKinds = []string{"cloneset", "sts-unordered", "sts-ordered", "daemon", "deploy-part", "bg-deploy", "bg-clone", "deploy-canary"}

func (arithEngine) Gen(r *rand.Rand, idx int, tier string) any {
	in := ArithInput{Kind: arithKinds[idx%len(arithKinds)]}
	switch r.Intn(10) {
	case 0:
		in.N = pick(r, 0, 1, 2, 3)
	case 1, 2:
		in.N = 99 + r.Intn(120) // region of the 1% arm
	case 3:
		in.N = 1000 + r.Intn(100000)
	default:
		in.N = 1 + r.Intn(60)
	}
	in.Plan = genPlan(r, in.N)
	if chance(r, 15) { // plans near the top: 99%, N-1 ...
		in.Plan = append(in.Plan[:len(in.Plan)-1], pick(r, Pct(99), Pct(100), Int(in.N), Int(in.N-1), Pct(1)))
	}
	in.Cur = r.Intn(len(in.Plan))
	if in.Kind == "cloneset" && in.N > 100 && chance(r, 40) { // the "1%" arm: a step that leaves fewer than 1% stable
		in.Plan[in.Cur] = Pct(99)
		for i := in.Cur + 1; i < len(in.Plan); i++ {
			in.Plan[i] = Pct(100)
		}
		for i := 0; i < in.Cur; i++ {
			in.Plan[i] = Pct(10 + i)
		}
	}
	partKind := in.Kind == "cloneset" || in.Kind == "sts-unordered" || in.Kind == "sts-ordered" || in.Kind == "daemon"
	if partKind && chance(r, 20) {
		nn := r.Intn(in.N + 1)
		in.NoNeed = &nn
	}
	// the current knob: absent, the initial value, the target of an earlier batch, or arbitrary
	mk := func(v IOS) *IOS { return &v }
	switch r.Intn(6) {
	case 0:
		in.Knob = nil
	case 1:
		switch in.Kind {
		case "cloneset":
			in.Knob = mk(Pct(100))
		case "sts-unordered", "sts-ordered", "daemon":
			in.Knob = mk(Int(32767))
		case "deploy-part":
			in.Knob = mk(Int(0))
		default:
			in.Knob = mk(Int(1))
		}
	case 2, 3: // what an earlier batch of the same plan wrote (approximated)
		b := r.Intn(in.Cur + 1)
		step := in.Plan[b]
		sv, _ := intstr.GetScaledValueFromIntOrPercent(ptrIOS(step.K8s()), in.N, true)
		if sv > in.N {
			sv = in.N
		}
		switch in.Kind {
		case "cloneset":
			if step.T == "str" {
				in.Knob = mk(Pct((in.N - sv) * 100 / maxInt(in.N, 1)))
			} else {
				in.Knob = mk(Int(in.N - sv))
			}
		case "sts-unordered", "sts-ordered", "daemon":
			in.Knob = mk(Int(in.N - sv))
		default:
			in.Knob = mk(step)
		}
	default:
		if chance(r, 50) && (in.Kind == "cloneset" || in.Kind == "deploy-part" || in.Kind == "bg-deploy" || in.Kind == "bg-clone") {
			in.Knob = mk(Pct(r.Intn(101)))
		} else {
			in.Knob = mk(Int(r.Intn(in.N + 2)))
		}
	}
	if (in.Kind == "sts-unordered" || in.Kind == "sts-ordered" || in.Kind == "daemon") && in.Knob != nil && in.Knob.T != "int" {
		in.Knob = mk(Int(r.Intn(in.N + 2)))
	}
	if chance(r, 30) {
		sn := pick(r, 0, in.N/2, in.N+1, 2*in.N, 3*in.N+7, r.Intn(2*in.N+2))
		in.StatusN = &sn
	}
	if chance(r, 45) {
		su := pick(r, 0, 1, in.N/2, in.N, r.Intn(in.N+1))
		in.StatusUpdated = &su
	}
	if in.Kind == "deploy-canary" {
		// the knob is the canary Deployment's spec.replicas: what an earlier batch (possibly of a larger plan or a larger
		// stable Deployment) left there, or anything
		in.NoNeed = nil
		switch r.Intn(4) {
		case 0:
			in.Knob = mk(Int(0))
		case 1:
			b := r.Intn(in.Cur + 1)
			sv, _ := intstr.GetScaledValueFromIntOrPercent(ptrIOS(in.Plan[b].K8s()), in.N, true)
			in.Knob = mk(Int(minInt(sv, in.N) + pick(r, 0, 0, 0, 1, 3)))
		default:
			in.Knob = mk(Int(r.Intn(in.N + 2)))
		}
	}
	return in
}

func ptrIOS(v intstr.IntOrString) *intstr.IntOrString { return &v }
func maxInt(a, b int) int {
	if a > b {
		return a
	}
	return b
}

const controlInfo = `{"apiVersion":"rollouts.kruise.io/v1beta1","kind":"BatchRelease","name":"br","uid":"br-uid","controller":true,"blockOwnerDeletion":true}`

type batchCtrl interface {
	CalculateBatchContext(release *v1beta1.BatchRelease) (*batchcontext.BatchContext, error)
	UpgradeBatch(ctx *batchcontext.BatchContext) error
}

// canary style splits the two calls over two interfaces
type canaryPair struct {
	calc func(release *v1beta1.BatchRelease) (*batchcontext.BatchContext, error)
	up   func(ctx *batchcontext.BatchContext) error
}

func (c canaryPair) CalculateBatchContext(release *v1beta1.BatchRelease) (*batchcontext.BatchContext, error) {
	return c.calc(release)
}
func (c canaryPair) UpgradeBatch(ctx *batchcontext.BatchContext) error { return c.up(ctx) }

func podTemplate() corev1.PodTemplateSpec {
	return corev1.PodTemplateSpec{ObjectMeta: metav1.ObjectMeta{Labels: map[string]string{"app": "demo"}},
		Spec: corev1.PodSpec{Containers: []corev1.Container{{Name: "main", Image: "img:v2"}}}}
}

func (arithEngine) Run(inAny any) (res any) {
	in := inAny.(ArithInput)
	obs := ArithObs{}
	defer func() {
		if rec := recover(); rec != nil {
			obs.Panic = fmt.Sprint(rec)
			res = obs
		}
	}()
	key := types.NamespacedName{Namespace: "ns", Name: "wl"}
	meta := metav1.ObjectMeta{Namespace: "ns", Name: "wl", UID: "wl-uid", Annotations: map[string]string{util.BatchReleaseControlAnnotation: controlInfo}, Labels: map[string]string{}}
	sel := &metav1.LabelSelector{MatchLabels: map[string]string{"app": "demo"}}
	n32 := int32(in.N)
	var knob *intstr.IntOrString
	if in.Knob != nil {
		knob = ptrIOS(in.Knob.K8s())
	}
	var obj client.Object
	var extra []client.Object
	var readKnob func(cli client.Client) *IOS
	var build func(cli client.Client) (batchCtrl, error)
	fromIOSPtr := func(p *intstr.IntOrString) *IOS {
		if p == nil {
			return nil
		}
		v := IOSFrom(*p)
		return &v
	}
	fromInt32Ptr := func(p *int32) *IOS {
		if p == nil {
			return nil
		}
		v := Int(int(*p))
		return &v
	}
	switch in.Kind {
	case "cloneset", "bg-clone":
		cs := &kruiseappsv1alpha1.CloneSet{ObjectMeta: meta, Spec: kruiseappsv1alpha1.CloneSetSpec{Replicas: &n32, Selector: sel, Template: podTemplate()}}
		if in.Kind == "cloneset" {
			cs.Spec.UpdateStrategy.Partition = knob
			readKnob = func(cli client.Client) *IOS {
				o := &kruiseappsv1alpha1.CloneSet{}
				_ = cli.Get(context.TODO(), key, o)
				return fromIOSPtr(o.Spec.UpdateStrategy.Partition)
			}
			build = func(cli client.Client) (batchCtrl, error) {
				return partcloneset.NewController(cli, key, schemaGVK("CloneSet")).BuildController()
			}
		} else {
			cs.Spec.UpdateStrategy.MaxSurge = knob
			cs.Spec.UpdateStrategy.Type = kruiseappsv1alpha1.RecreateCloneSetUpdateStrategyType
			cs.Spec.MinReadySeconds = v1beta1.MaxReadySeconds
			readKnob = func(cli client.Client) *IOS {
				o := &kruiseappsv1alpha1.CloneSet{}
				_ = cli.Get(context.TODO(), key, o)
				return fromIOSPtr(o.Spec.UpdateStrategy.MaxSurge)
			}
			build = func(cli client.Client) (batchCtrl, error) {
				return bgcloneset.NewController(cli, key, schemaGVK("CloneSet")).BuildController()
			}
		}
		obj = cs
	case "sts-unordered", "sts-ordered":
		st := &kruiseappsv1beta1.StatefulSet{ObjectMeta: meta, Spec: kruiseappsv1beta1.StatefulSetSpec{Replicas: &n32, Selector: sel, Template: podTemplate()}}
		st.Status.UpdatedReadyReplicas = 1 // avoid the pod listing of native StatefulSets
		st.Spec.UpdateStrategy.RollingUpdate = &kruiseappsv1beta1.RollingUpdateStatefulSetStrategy{}
		if in.Kind == "sts-unordered" {
			st.Spec.UpdateStrategy.RollingUpdate.UnorderedUpdate = &kruiseappsv1beta1.UnorderedUpdateStrategy{}
		}
		if knob != nil {
			st.Spec.UpdateStrategy.RollingUpdate.Partition = pointer.Int32(knob.IntVal)
		}
		readKnob = func(cli client.Client) *IOS {
			o := &kruiseappsv1beta1.StatefulSet{}
			_ = cli.Get(context.TODO(), key, o)
			if o.Spec.UpdateStrategy.RollingUpdate == nil {
				return nil
			}
			return fromInt32Ptr(o.Spec.UpdateStrategy.RollingUpdate.Partition)
		}
		build = func(cli client.Client) (batchCtrl, error) {
			return partstatefulset.NewController(cli, key, kruiseappsv1beta1.SchemeGroupVersion.WithKind("StatefulSet")).BuildController()
		}
		obj = st
	case "daemon":
		ds := &kruiseappsv1alpha1.DaemonSet{ObjectMeta: meta, Spec: kruiseappsv1alpha1.DaemonSetSpec{Selector: sel, Template: podTemplate()}}
		ds.Spec.UpdateStrategy.RollingUpdate = &kruiseappsv1alpha1.RollingUpdateDaemonSet{}
		if knob != nil {
			ds.Spec.UpdateStrategy.RollingUpdate.Partition = pointer.Int32(knob.IntVal)
		}
		ds.Status.DesiredNumberScheduled = n32
		readKnob = func(cli client.Client) *IOS {
			o := &kruiseappsv1alpha1.DaemonSet{}
			_ = cli.Get(context.TODO(), key, o)
			if o.Spec.UpdateStrategy.RollingUpdate == nil {
				return nil
			}
			return fromInt32Ptr(o.Spec.UpdateStrategy.RollingUpdate.Partition)
		}
		build = func(cli client.Client) (batchCtrl, error) {
			return partdaemonset.NewController(cli, key, schemaGVK("DaemonSet")).BuildController()
		}
		obj = ds
	case "deploy-part":
		d := &apps.Deployment{ObjectMeta: meta, Spec: apps.DeploymentSpec{Replicas: &n32, Selector: sel, Template: podTemplate(), Paused: true,
			Strategy: apps.DeploymentStrategy{Type: apps.RecreateDeploymentStrategyType}}}
		strategy := v1alpha1.DeploymentStrategy{RollingStyle: v1alpha1.PartitionRollingStyle, Paused: false}
		if knob != nil {
			strategy.Partition = *knob
		}
		d.Annotations[v1alpha1.DeploymentStrategyAnnotation] = util.DumpJSON(&strategy)
		readKnob = func(cli client.Client) *IOS {
			o := &apps.Deployment{}
			_ = cli.Get(context.TODO(), key, o)
			s := util.GetDeploymentStrategy(o)
			return fromIOSPtr(&s.Partition)
		}
		build = func(cli client.Client) (batchCtrl, error) {
			return partdeployment.NewController(cli, key, apps.SchemeGroupVersion.WithKind("Deployment")).BuildController()
		}
		obj = d
	case "bg-deploy":
		d := &apps.Deployment{ObjectMeta: meta, Spec: apps.DeploymentSpec{Replicas: &n32, Selector: sel, Template: podTemplate(),
			MinReadySeconds: v1beta1.MaxReadySeconds, ProgressDeadlineSeconds: pointer.Int32(v1beta1.MaxProgressSeconds),
			Strategy: apps.DeploymentStrategy{Type: apps.RollingUpdateDeploymentStrategyType, RollingUpdate: &apps.RollingUpdateDeployment{MaxSurge: knob, MaxUnavailable: ptrIOS(intstr.FromInt(0))}}}}
		readKnob = func(cli client.Client) *IOS {
			o := &apps.Deployment{}
			_ = cli.Get(context.TODO(), key, o)
			if o.Spec.Strategy.RollingUpdate == nil {
				return nil
			}
			return fromIOSPtr(o.Spec.Strategy.RollingUpdate.MaxSurge)
		}
		build = func(cli client.Client) (batchCtrl, error) {
			return bgdeployment.NewController(cli, key, apps.SchemeGroupVersion.WithKind("Deployment")).BuildController()
		}
		obj = d
	case "deploy-canary":
		d := &apps.Deployment{ObjectMeta: meta, Spec: apps.DeploymentSpec{Replicas: &n32, Selector: sel, Template: podTemplate(), Paused: true}}
		kr := int32(0)
		if knob != nil {
			kr = knob.IntVal
		}
		canary := &apps.Deployment{ObjectMeta: metav1.ObjectMeta{Namespace: "ns", Name: "wl-canary", UID: "wl-canary-uid",
			Labels: map[string]string{util.CanaryDeploymentLabel: "wl"}, Finalizers: []string{util.CanaryDeploymentFinalizer},
			OwnerReferences: []metav1.OwnerReference{{APIVersion: "rollouts.kruise.io/v1beta1", Kind: "BatchRelease", Name: "br", UID: "br-uid", Controller: pointer.Bool(true)}}},
			Spec: apps.DeploymentSpec{Replicas: &kr, Selector: sel, Template: podTemplate()}}
		extra = append(extra, canary)
		readKnob = func(cli client.Client) *IOS {
			o := &apps.Deployment{}
			_ = cli.Get(context.TODO(), types.NamespacedName{Namespace: "ns", Name: "wl-canary"}, o)
			return fromInt32Ptr(o.Spec.Replicas)
		}
		build = func(cli client.Client) (batchCtrl, error) {
			rc := canarydeployment.NewController(cli, key)
			if _, err := rc.BuildStableController(); err != nil {
				return nil, err
			}
			release := &v1beta1.BatchRelease{ObjectMeta: metav1.ObjectMeta{Namespace: "ns", Name: "br", UID: "br-uid"}}
			cc, err := rc.BuildCanaryController(release)
			if err != nil {
				return nil, err
			}
			return canaryPair{calc: rc.CalculateBatchContext, up: cc.UpgradeBatch}, nil
		}
		obj = d
	default:
		obs.Err = "harness: unknown kind " + in.Kind
		return obs
	}
	sn32 := n32
	if in.StatusN != nil {
		sn32 = int32(*in.StatusN)
	}
	switch o := obj.(type) {
	case *kruiseappsv1alpha1.CloneSet:
		o.Status.Replicas = sn32
	case *kruiseappsv1beta1.StatefulSet:
		o.Status.Replicas = sn32
	case *apps.Deployment:
		o.Status.Replicas = sn32
	}
	if in.StatusUpdated != nil {
		su := int32(*in.StatusUpdated)
		switch o := obj.(type) {
		case *kruiseappsv1alpha1.CloneSet:
			o.Status.UpdatedReplicas = su
		case *kruiseappsv1beta1.StatefulSet:
			o.Status.UpdatedReplicas = su
		case *kruiseappsv1alpha1.DaemonSet:
			o.Status.UpdatedNumberScheduled = su
		}
	}
	cli := &countingClient{Client: fake.NewClientBuilder().WithScheme(FullScheme()).WithObjects(append([]client.Object{obj}, extra...)...).Build()}
	release := &v1beta1.BatchRelease{ObjectMeta: metav1.ObjectMeta{Namespace: "ns", Name: "br", UID: "br-uid"}}
	for _, b := range in.Plan {
		release.Spec.ReleasePlan.Batches = append(release.Spec.ReleasePlan.Batches, v1beta1.ReleaseBatch{CanaryReplicas: b.K8s()})
	}
	release.Status.CanaryStatus.CurrentBatch = int32(in.Cur)
	if in.NoNeed != nil {
		release.Status.CanaryStatus.NoNeedUpdateReplicas = pointer.Int32(int32(*in.NoNeed))
	}
	c, err := build(cli)
	if err != nil {
		obs.Err = "build: " + err.Error()
		return obs
	}
	bc, err := c.CalculateBatchContext(release)
	if err != nil {
		obs.Err = "calc: " + err.Error()
		return obs
	}
	obs.Planned, obs.Desired = int(bc.PlannedUpdatedReplicas), int(bc.DesiredUpdatedReplicas)
	switch in.Kind {
	case "bg-deploy", "bg-clone":
		obs.Target = IOSFrom(bc.DesiredSurge)
	case "deploy-canary":
		obs.Target = Int(int(bc.DesiredUpdatedReplicas))
	default:
		obs.Target = IOSFrom(bc.DesiredPartition)
	}
	if err := c.UpgradeBatch(bc); err != nil {
		obs.Err = "upgrade: " + err.Error()
		return obs
	}
	obs.Wrote = cli.patches > 0
	obs.KnobAfter = readKnob(cli)
	return obs
}

func schemaGVK(kind string) schema.GroupVersionKind {
	return kruiseappsv1alpha1.SchemeGroupVersion.WithKind(kind)
}

func coqKind(k string) string {
	switch k {
	case "cloneset":
		return "CloneSetK"
	case "sts-unordered":
		return "(StsK true)"
	case "sts-ordered":
		return "(StsK false)"
	case "daemon":
		return "DaemonK"
	case "deploy-part":
		return "DeployPartK"
	case "deploy-canary":
		return "DeployCanaryK"
	case "bg-deploy":
		return "BGDeployK"
	case "bg-clone":
		return "BGCloneK"
	}
	panic("kind " + k)
}

func optIOS(v *IOS) string {
	if v == nil {
		return "None"
	}
	return emit.Some(v.Coq())
}

func (arithEngine) Coq(inAny any, obsAny any) string {
	in := inAny.(ArithInput)
	obs := obsAny.(ArithObs)
	nn := "None"
	if in.NoNeed != nil {
		nn = emit.Some(emit.Z(int64(*in.NoNeed)))
	}
	input := emit.App("Build_arith_in", coqKind(in.Kind), emit.ListOf(in.Plan, IOS.Coq), emit.Z(int64(in.N)), emit.Z(int64(in.Cur)), nn, optIOS(in.Knob))
	o := emit.App("Build_arith_obs", emit.Bool(obs.Panic != ""), emit.Bool(obs.Err != ""), emit.Z(int64(obs.Planned)), emit.Z(int64(obs.Desired)),
		obs.Target.Coq(), emit.Bool(obs.Wrote), optIOS(obs.KnobAfter))
	return emit.Pair(input, o)
}

func minInt(a, b int) int {
	if a < b {
		return a
	}
	return b
}
