package engines

import (
	"context"
	"encoding/json"
	"fmt"
	"math/rand"
	"sort"
	"strings"
	"time"

	kruiseappsv1alpha1 "github.com/openkruise/kruise-api/apps/v1alpha1"
	corev1 "k8s.io/api/core/v1"
	metav1 "k8s.io/apimachinery/pkg/apis/meta/v1"
	"k8s.io/apimachinery/pkg/types"
	k8srand "k8s.io/apimachinery/pkg/util/rand"
	"k8s.io/client-go/tools/record"
	"k8s.io/utils/pointer"
	ctrl "sigs.k8s.io/controller-runtime"
	"sigs.k8s.io/controller-runtime/pkg/client"
	"sigs.k8s.io/controller-runtime/pkg/client/fake"

	"github.com/openkruise/rollouts/api/v1alpha1"
	"github.com/openkruise/rollouts/api/v1beta1"
	"github.com/openkruise/rollouts/pkg/controller/rollout"
	"github.com/openkruise/rollouts/pkg/util"
	"github.com/openkruise/rollouts/pkg/util/grace"

	"verifharness/emit"
)

type RStep struct {
	Replicas IOS  `json:"replicas"`
	Pause    *int `json:"pause,omitempty"`
}
type RSub struct {
	ObsWlGen  int    `json:"obs_wl_gen"`
	ObsRID    string `json:"obs_rid"`
	Hash      string `json:"hash"` // "" | current | stale
	Stable    string `json:"stable"`
	PTH       string `json:"pth"`
	Idx       int    `json:"idx"`
	Next      int    `json:"next"`
	State     string `json:"state"`
	Fin       string `json:"fin"`
	Elapsed   bool   `json:"elapsed"`
	CanaryRev string `json:"canary_rev"`
	CReplicas int    `json:"creplicas"`
	CReady    int    `json:"cready"`
}
type RStatus struct {
	Phase       string `json:"phase"`
	ObsGen      int    `json:"obs_gen"`
	Prog        string `json:"prog,omitempty"` // Progressing condition reason, "" = absent
	ProgStatus  bool   `json:"prog_status"`
	ProgElapsed bool   `json:"prog_elapsed"`
	Term        string `json:"term,omitempty"` // Terminating condition reason
	Succ        string `json:"succ,omitempty"` // "" | True | False
	Sub         *RSub  `json:"sub,omitempty"`
}
type RWl struct {
	Exists     bool   `json:"exists"`
	Gen        int    `json:"gen"`
	ObsGen     int    `json:"obs_gen"`
	Stable     string `json:"stable"`
	Canary     string `json:"canary"`
	Replicas   int    `json:"replicas"`
	Updated    int    `json:"updated"`
	InProgress bool   `json:"in_progress"`
	RIDLabel   string `json:"rid_label,omitempty"`
	Typed      bool   `json:"typed"`
}
type RBr struct {
	Batches      []IOS  `json:"batches"`
	RID          string `json:"rid"`
	Partition    *int   `json:"partition,omitempty"`
	FT           *IOS   `json:"ft,omitempty"`
	RollbackAnno bool   `json:"rollback_anno"`
	Policy       string `json:"policy,omitempty"`
	Consistent   bool   `json:"consistent"`
	StateReady   bool   `json:"state_ready"`
	NotReady     string `json:"not_ready,omitempty"` // the batch state when not Ready: "" = Upgrading, "Verifying", "Empty"
	Batch        int    `json:"batch"`
	Completed    bool   `json:"completed"`
	Deleting     bool   `json:"deleting"`
	Updated      int    `json:"updated"`
	UpdatedReady int    `json:"updated_ready"`
}
type RInput struct {
	Steps           []RStep `json:"steps"`
	Paused          bool    `json:"paused"`
	Disabled        bool    `json:"disabled"`
	Deleting        bool    `json:"deleting"`
	Finalizer       bool    `json:"finalizer"`
	Generation      int     `json:"generation"`
	RollbackInBatch bool    `json:"rollback_in_batch"`
	BlueGreen       bool    `json:"bluegreen,omitempty"` // blue-green strategy instead of canary (engine rolloutbg)
	// the strategy was switched from canary to blue-green after a canary release completed: status.canaryStatus is still there,
	// status.blueGreenStatus is nil.  The blue-green manager then works without a sub-status (the model's view: sub = None)
	StaleCanary bool `json:"stale_canary,omitempty"`
	FT              *IOS    `json:"ft,omitempty"`
	Status          RStatus `json:"status"`
	W               RWl     `json:"w"`
	BR              *RBr    `json:"br,omitempty"`
}
type RObs struct {
	Panic     string  `json:"panic,omitempty"`
	Err       string  `json:"err,omitempty"`
	Gone      bool    `json:"gone"`
	Status    RStatus `json:"status"`
	BR        *RBr    `json:"br,omitempty"`
	Anno      bool    `json:"anno"`
	Finalizer bool    `json:"finalizer"`
	Requeue   bool    `json:"requeue"`
	// the workload as the controller's finder sees it (projection used as model input)
	WlView struct {
		Consistent bool   `json:"consistent"`
		Stable     string `json:"stable"`
		Canary     string `json:"canary"`
		PTH        string `json:"pth"`
		InProgress bool   `json:"in_progress"`
		InRollback bool   `json:"in_rollback"`
	} `json:"wl_view"`
}

type rolloutsmEngine struct{}

func init() { Register(rolloutsmEngine{}) }

func (rolloutsmEngine) Name() string      { return "rolloutsm" }
func (rolloutsmEngine) CoqModule() string { return "Corr.RolloutSM" }
func (rolloutsmEngine) Decode(raw json.RawMessage) (any, error) {
	var in RInput
	err := json.Unmarshal(raw, &in)
	return in, err
}

var sstates = []string{"BeforeStepUpgrade", "StepUpgrade", "StepTrafficRouting", "StepMetricsAnalysis", "StepPaused", "StepReady", "Completed"}
var ftasks = []string{"", "RestoreStableService", "FinalisingStepRouteTrafficToStable", "RemoveCanaryService", "ResumeWorkload", "ReleaseWorkloadControl", "END"}

func (rolloutsmEngine) Gen(r *rand.Rand, idx int, tier string) any {
	n := pick(r, 1, 5, 10, 10, 20, 100)
	in := RInput{Finalizer: chance(r, 92), Generation: 1 + r.Intn(4)}
	plan := genPlan(r, n)
	for _, p := range plan {
		st := RStep{Replicas: p}
		switch r.Intn(3) {
		case 0:
			d := pick(r, 0, 5, 600)
			st.Pause = &d
		}
		in.Steps = append(in.Steps, st)
	}
	in.Paused = chance(r, 12)
	in.Disabled = chance(r, 6)
	in.Deleting = chance(r, 8)
	if in.Deleting {
		in.Finalizer = true
	}
	in.RollbackInBatch = chance(r, 15)
	if chance(r, 25) {
		ft := pick(r, Int(1), Pct(20))
		in.FT = &ft
	}
	w := &in.W
	w.Exists = chance(r, 95)
	w.Gen = 1 + r.Intn(4)
	w.ObsGen = w.Gen
	if chance(r, 7) {
		w.ObsGen--
	}
	w.Stable, w.Canary = "v1", "v2"
	w.Replicas = n
	w.Updated = r.Intn(n + 1)
	w.InProgress = chance(r, 85)
	w.Typed = chance(r, 80)
	if chance(r, 15) {
		w.RIDLabel = pick(r, "rid-1", "rid-2")
	}
	rollingBack := chance(r, 8)
	if rollingBack {
		w.Canary = "v1"
		if w.Updated == n {
			w.Updated = n - 1
		}
	}
	newRev := !rollingBack && chance(r, 8) // a v3 arrived
	if newRev {
		w.Canary = "v3"
	}
	st := &in.Status
	st.ObsGen = in.Generation
	if chance(r, 20) {
		st.ObsGen--
	}
	st.Phase = pick(r, "", "Initial", "Healthy", "Progressing", "Progressing", "Progressing", "Progressing", "Progressing", "Progressing", "Terminating", "Disabled", "Disabling")
	rid := w.RIDLabel
	if rid == "" {
		rid = "v2"
	}
	mkSub := func() *RSub {
		s := &RSub{ObsWlGen: w.Gen, ObsRID: rid, Hash: "current", Stable: "v1", PTH: "v2", CanaryRev: "v2", Elapsed: chance(r, 60)}
		s.Idx = 1 + r.Intn(len(in.Steps))
		s.Next = s.Idx + 1
		if s.Idx >= len(in.Steps) {
			s.Next = -1
		}
		s.State = sstates[r.Intn(len(sstates))]
		if chance(r, 3) {
			s.State = "Bogus"
		}
		switch r.Intn(12) {
		case 0: // jump requested by the user
			s.Next = 1 + r.Intn(len(in.Steps))
		case 1: // out of range values a user can patch in
			s.Next = pick(r, 0, -3, len(in.Steps)+1, 99)
		}
		if chance(r, 10) {
			s.Hash = "stale"
		}
		if chance(r, 4) {
			s.Hash = ""
		}
		if chance(r, 6) {
			s.PTH = ""
		}
		s.CReplicas, s.CReady = r.Intn(n+1), r.Intn(n+1)
		return s
	}
	switch st.Phase {
	case "Progressing":
		st.Prog = pick(r, "Initializing", "InRolling", "InRolling", "InRolling", "InRolling", "InRolling", "InRolling", "Finalising", "Paused", "Cancelling", "Completed")
		st.ProgStatus = st.Prog != "Completed"
		st.ProgElapsed = chance(r, 70)
		if st.Prog != "Initializing" || chance(r, 30) {
			st.Sub = mkSub()
		}
		if st.Prog == "Finalising" || st.Prog == "Cancelling" {
			st.Sub.Fin = ftasks[r.Intn(len(ftasks))]
			if chance(r, 5) {
				st.Sub.Fin = "Bogus"
			}
			if st.Prog == "Finalising" {
				st.Sub.State = "Completed"
			}
		}
		if st.Prog == "Completed" {
			st.Succ = pick(r, "True", "False")
		}
	case "Terminating":
		st.Term = pick(r, "InTerminating", "InTerminating", "Completed")
		if chance(r, 80) {
			st.Sub = mkSub()
			st.Sub.Fin = ftasks[r.Intn(len(ftasks))]
		}
		if chance(r, 50) {
			st.Prog, st.ProgStatus, st.ProgElapsed = "InRolling", true, true
		}
		in.Deleting = true
		in.Finalizer = true
	case "Disabling":
		in.Disabled = true
		if chance(r, 85) {
			st.Sub = mkSub()
			st.Sub.Fin = ftasks[r.Intn(len(ftasks))]
		}
		st.Prog, st.ProgStatus, st.ProgElapsed = "InRolling", true, true
	case "Healthy":
		if chance(r, 60) {
			st.Sub = mkSub()
			st.Sub.State = "Completed"
			st.Sub.Idx, st.Sub.Next = len(in.Steps), -1
			st.Prog, st.ProgStatus, st.ProgElapsed = "Completed", false, true
			st.Succ = "True"
		}
	case "Disabled":
		in.Disabled = chance(r, 70)
	}
	// the BatchRelease
	if chance(r, 65) && (st.Phase == "Progressing" || st.Phase == "Terminating" || st.Phase == "Disabling") {
		br := &RBr{RID: rid, FT: in.FT, Consistent: chance(r, 85), StateReady: chance(r, 60), Updated: r.Intn(n + 1), UpdatedReady: r.Intn(n + 1)}
		if !br.StateReady {
			br.NotReady = pick(r, "", "", "Verifying", "Verifying", "Empty")
		}
		for _, s := range in.Steps {
			br.Batches = append(br.Batches, s.Replicas)
		}
		cur := 1
		if st.Sub != nil {
			cur = st.Sub.Idx
		}
		p := cur - 1
		switch r.Intn(8) {
		case 0:
			p = maxInt(cur-2, 0) // still on the previous step's partition
		case 1:
			br.Partition = nil
			p = -1
		}
		if p >= 0 {
			br.Partition = &p
		}
		br.Batch = maxInt(cur-1-r.Intn(2), 0)
		if chance(r, 8) {
			br.RID = "other-rid"
		}
		if chance(r, 8) { // plan of an older Rollout spec
			br.Batches = append([]IOS{}, br.Batches...)
			br.Batches[0] = Pct(3)
		}
		if br.Partition == nil {
			br.Policy = pick(r, "", "WaitResume", "Immediate")
			br.Completed = chance(r, 50)
		}
		br.RollbackAnno = rollingBack && in.RollbackInBatch && chance(r, 70)
		br.Deleting = chance(r, 8)
		in.BR = br
	}
	// focused mode: a healthy rollout standing right at one of the gates, so that the conditions guarding the gate
	// (BatchRelease spec/observed/Ready/batch index, pause duration, step index) are exercised one at a time
	if idx%3 == 0 && len(in.Steps) >= 1 {
		in.Paused, in.Disabled, in.Deleting, in.Finalizer, in.RollbackInBatch = false, false, false, true, false
		w.Exists, w.ObsGen, w.Stable, w.Canary, w.InProgress, w.RIDLabel = true, w.Gen, "v1", "v2", true, ""
		st.Phase, st.Prog, st.ProgStatus, st.ProgElapsed, st.Term, st.Succ = "Progressing", "InRolling", true, true, "", ""
		cur := 1 + r.Intn(len(in.Steps))
		sub := &RSub{ObsWlGen: w.Gen, ObsRID: "v2", Hash: "current", Stable: "v1", PTH: "v2", CanaryRev: "v2", Idx: cur, Next: cur + 1, Elapsed: chance(r, 50)}
		if cur >= len(in.Steps) {
			sub.Next = -1
		}
		sub.State = pick(r, "StepUpgrade", "StepUpgrade", "StepUpgrade", "StepPaused", "StepReady", "BeforeStepUpgrade", "StepMetricsAnalysis")
		st.Sub = sub
		br := &RBr{RID: "v2", FT: in.FT, Consistent: chance(r, 80), StateReady: chance(r, 75), Updated: r.Intn(n + 1), UpdatedReady: r.Intn(n + 1)}
		if !br.StateReady {
			br.NotReady = pick(r, "", "", "Verifying", "Verifying", "Empty")
		}
		for _, s := range in.Steps {
			br.Batches = append(br.Batches, s.Replicas)
		}
		p := cur - 1
		if chance(r, 15) {
			p = maxInt(cur-2, 0)
		}
		br.Partition = &p
		br.Batch = maxInt(cur-1-pick(r, 0, 0, 1, 1, 2), 0)
		if chance(r, 10) {
			br.Batch = cur
		}
		in.BR = br
		if chance(r, 10) {
			in.BR = nil
		}
		// mostly a status that the previous reconcile already brought up to date (counters copied, generation observed):
		// what this reconcile then leaves untouched is a wait, and has to be somebody else's move (C07)
		if chance(r, 75) {
			sub.CReplicas, sub.CReady = br.Updated, br.UpdatedReady
			st.ObsGen = in.Generation
		}
	}
	return in
}

func rolloutHash(steps []v1beta1.CanaryStep, c *v1beta1.CanaryStrategy) string {
	canary := c.DeepCopy()
	canary.FailureThreshold = nil
	canary.Steps = nil
	for i := range steps {
		step := steps[i].DeepCopy()
		step.Pause = v1beta1.RolloutPause{}
		canary.Steps = append(canary.Steps, *step)
	}
	return k8srand.SafeEncodeString(util.EncodeHash(util.DumpJSON(canary)))
}

func tsFor(elapsed bool) metav1.Time {
	if elapsed {
		return metav1.NewTime(time.Now().Add(-2 * time.Hour))
	}
	return metav1.Now()
}

func isElapsed(t *metav1.Time) bool {
	if t == nil {
		return true
	}
	return time.Since(t.Time) > 30*time.Minute
}

func buildBR(in RInput, b *RBr) *v1beta1.BatchRelease {
	br := &v1beta1.BatchRelease{ObjectMeta: metav1.ObjectMeta{Namespace: "ns", Name: "ro", UID: "br-uid", Generation: 3, Finalizers: []string{"rollouts.kruise.io/batch-release-finalizer"}}}
	tr := true
	br.OwnerReferences = []metav1.OwnerReference{{APIVersion: "rollouts.kruise.io/v1beta1", Kind: "Rollout", Name: "ro", UID: "ro-uid", Controller: &tr, BlockOwnerDeletion: &tr}}
	br.Spec.WorkloadRef = v1beta1.ObjectRef{APIVersion: "apps.kruise.io/v1alpha1", Kind: "CloneSet", Name: "wl"}
	p := &br.Spec.ReleasePlan
	for _, x := range b.Batches {
		p.Batches = append(p.Batches, v1beta1.ReleaseBatch{CanaryReplicas: x.K8s()})
	}
	p.RolloutID = b.RID
	if b.Partition != nil {
		p.BatchPartition = pointer.Int32(int32(*b.Partition))
	}
	if b.FT != nil {
		p.FailureThreshold = ptrIOS(b.FT.K8s())
	}
	p.RollingStyle = v1beta1.PartitionRollingStyle
	if in.BlueGreen {
		p.RollingStyle = v1beta1.BlueGreenRollingStyle
	}
	p.FinalizingPolicy = v1beta1.FinalizingPolicyType(b.Policy)
	if b.RollbackAnno {
		br.Annotations = map[string]string{v1alpha1.RollbackInBatchAnnotation: "true"}
	}
	br.Status.ObservedGeneration = 3
	br.Status.ObservedReleasePlanHash = util.HashReleasePlanBatches(p)
	if !b.Consistent {
		br.Status.ObservedReleasePlanHash = "stale"
	}
	br.Status.Phase = v1beta1.RolloutPhaseProgressing
	if b.Completed {
		br.Status.Phase = v1beta1.RolloutPhaseCompleted
	}
	br.Status.CanaryStatus.CurrentBatch = int32(b.Batch)
	br.Status.CanaryStatus.CurrentBatchState = v1beta1.UpgradingBatchState
	switch b.NotReady {
	case "Verifying":
		br.Status.CanaryStatus.CurrentBatchState = v1beta1.VerifyingBatchState
	case "Empty":
		br.Status.CanaryStatus.CurrentBatchState = ""
	}
	if b.StateReady {
		br.Status.CanaryStatus.CurrentBatchState = v1beta1.ReadyBatchState
	}
	br.Status.CanaryStatus.UpdatedReplicas, br.Status.CanaryStatus.UpdatedReadyReplicas = int32(b.Updated), int32(b.UpdatedReady)
	if b.Deleting {
		now := metav1.Now()
		br.DeletionTimestamp = &now
	}
	return br
}

func readBR(br *v1beta1.BatchRelease) *RBr {
	b := &RBr{RID: br.Spec.ReleasePlan.RolloutID, Policy: string(br.Spec.ReleasePlan.FinalizingPolicy), Deleting: br.DeletionTimestamp != nil,
		RollbackAnno: br.Annotations[v1alpha1.RollbackInBatchAnnotation] != "", Batch: int(br.Status.CanaryStatus.CurrentBatch),
		StateReady: br.Status.CanaryStatus.CurrentBatchState == v1beta1.ReadyBatchState, Completed: br.Status.Phase == v1beta1.RolloutPhaseCompleted,
		NotReady: map[v1beta1.BatchReleaseBatchStateType]string{v1beta1.VerifyingBatchState: "Verifying", "": "Empty"}[br.Status.CanaryStatus.CurrentBatchState],
		Updated: int(br.Status.CanaryStatus.UpdatedReplicas), UpdatedReady: int(br.Status.CanaryStatus.UpdatedReadyReplicas)}
	b.Consistent = br.Status.ObservedReleasePlanHash == util.HashReleasePlanBatches(&br.Spec.ReleasePlan) && br.Generation == br.Status.ObservedGeneration
	for _, x := range br.Spec.ReleasePlan.Batches {
		b.Batches = append(b.Batches, IOSFrom(x.CanaryReplicas))
	}
	if br.Spec.ReleasePlan.BatchPartition != nil {
		v := int(*br.Spec.ReleasePlan.BatchPartition)
		b.Partition = &v
	}
	if br.Spec.ReleasePlan.FailureThreshold != nil {
		v := IOSFrom(*br.Spec.ReleasePlan.FailureThreshold)
		b.FT = &v
	}
	return b
}

func (rolloutsmEngine) Run(inAny any) any {
	obs, _ := runRolloutCase(inAny.(RInput), nil)
	return obs
}

// TRExt adds traffic routing (an nginx Ingress and the two Services) to a rollout case.
type TRExt struct {
	Strategies []TMStrategy `json:"strategies"` // per step
	Net        TMNet        `json:"net"`
	ZeroGrace  bool         `json:"zero_grace,omitempty"`
	Pending    []TRPending  `json:"pending,omitempty"` // in-memory grace expectations at the start of the reconcile
	FailGateway bool        `json:"fail_gateway,omitempty"` // every read of the gateway object (Ingress) fails during this reconcile
	FailWlRead  bool        `json:"fail_wl_read,omitempty"` // the first read of the workload fails during this reconcile
}
type TRPending struct {
	Action  string `json:"action"`
	Elapsed bool   `json:"elapsed"`
}
type TRObsExt struct {
	Net     TMNet    `json:"net"`
	Writes  []string `json:"writes"`
	Pending []string `json:"pending"`
}

var graceKeys = map[string]string{"updateRoute": "ro-uid", "restoreGateway": "ro-uid", "removeCanaryService": "ns/svc-canary", "patchService": "svc-uid", "restoreService": "svc-uid"}

func runRolloutCase(in RInput, ext *TRExt) (RObs, TRObsExt) {
	obs := RObs{}
	xobs := TRObsExt{}
	rollout.VerifSetGraceSeconds(3)
	objs, ro, curHash := buildRolloutObjects(in, ext)
	if ext != nil {
		grace.ResetExpectations()
		for _, p := range ext.Pending {
			if p.Elapsed {
				grace.DefaultGraceExpectations.Expect(graceKeys[p.Action], grace.Action(p.Action))
			}
		}
		grace.VerifAge(time.Hour)
		for _, p := range ext.Pending {
			if !p.Elapsed {
				grace.DefaultGraceExpectations.Expect(graceKeys[p.Action], grace.Action(p.Action))
			}
		}
	}
	return reconcileRolloutWorld(in, ext, objs, ro, curHash, obs, xobs)
}

// buildRolloutObjects turns a case description into API objects: the Rollout, its CloneSet and BatchRelease and, with
// traffic routing, the Services and Ingresses.
func buildRolloutObjects(in RInput, ext *TRExt) ([]client.Object, *v1beta1.Rollout, string) {
	ro := &v1beta1.Rollout{ObjectMeta: metav1.ObjectMeta{Namespace: "ns", Name: "ro", UID: "ro-uid", Generation: int64(in.Generation), Annotations: map[string]string{}}}
	ro.Spec.WorkloadRef = v1beta1.ObjectRef{APIVersion: "apps.kruise.io/v1alpha1", Kind: "CloneSet", Name: "wl"}
	ro.Spec.Disabled = in.Disabled
	ro.Spec.Strategy.Paused = in.Paused
	canary := &v1beta1.CanaryStrategy{}
	for _, s := range in.Steps {
		cs := v1beta1.CanaryStep{Replicas: ptrIOS(s.Replicas.K8s())}
		if s.Pause != nil {
			cs.Pause.Duration = pointer.Int32(int32(*s.Pause))
		}
		canary.Steps = append(canary.Steps, cs)
	}
	if ext != nil {
		for i := range canary.Steps {
			if i < len(ext.Strategies) {
				canary.Steps[i].TrafficRoutingStrategy = tmStrategy(ext.Strategies[i])
			}
		}
		g := int32(3)
		if ext.ZeroGrace {
			g = 0
		}
		canary.TrafficRoutings = []v1beta1.TrafficRoutingRef{{Service: "svc", GracePeriodSeconds: g, Ingress: &v1beta1.IngressTrafficRouting{Name: "web"}}}
	}
	if in.FT != nil {
		canary.FailureThreshold = ptrIOS(in.FT.K8s())
	}
	ro.Spec.Strategy.Canary = canary
	curHash := rolloutHash(canary.Steps, canary)
	if in.BlueGreen {
		ro.Spec.Strategy.Canary = nil
		ro.Spec.Strategy.BlueGreen = &v1beta1.BlueGreenStrategy{Steps: canary.Steps, TrafficRoutings: canary.TrafficRoutings, FailureThreshold: canary.FailureThreshold}
		bg := ro.Spec.Strategy.BlueGreen.DeepCopy()
		bg.FailureThreshold = nil
		bg.Steps = nil
		for i := range canary.Steps {
			step := canary.Steps[i].DeepCopy()
			step.Pause = v1beta1.RolloutPause{}
			bg.Steps = append(bg.Steps, *step)
		}
		curHash = k8srand.SafeEncodeString(util.EncodeHash(util.DumpJSON(bg)))
	}
	ro.Annotations[util.RolloutHashAnnotation] = curHash
	if in.RollbackInBatch {
		ro.Annotations[v1alpha1.RollbackInBatchAnnotation] = "true"
	}
	if in.Finalizer {
		ro.Finalizers = []string{util.KruiseRolloutFinalizer}
	}
	if in.Deleting {
		now := metav1.Now()
		ro.DeletionTimestamp = &now
	}
	st := in.Status
	ro.Status.Phase = v1beta1.RolloutPhase(st.Phase)
	ro.Status.ObservedGeneration = int64(st.ObsGen)
	if st.Prog != "" {
		cs := corev1.ConditionFalse
		if st.ProgStatus {
			cs = corev1.ConditionTrue
		}
		t := tsFor(st.ProgElapsed)
		ro.Status.Conditions = append(ro.Status.Conditions, v1beta1.RolloutCondition{Type: v1beta1.RolloutConditionProgressing, Status: cs, Reason: st.Prog, Message: "m", LastUpdateTime: t, LastTransitionTime: t})
	}
	if st.Term != "" {
		cs := corev1.ConditionTrue
		if st.Term == "Completed" {
			cs = corev1.ConditionFalse
		}
		t := tsFor(true)
		ro.Status.Conditions = append(ro.Status.Conditions, v1beta1.RolloutCondition{Type: v1beta1.RolloutConditionTerminating, Status: cs, Reason: st.Term, Message: "t", LastUpdateTime: t, LastTransitionTime: t})
	}
	if st.Succ != "" {
		t := tsFor(true)
		ro.Status.Conditions = append(ro.Status.Conditions, v1beta1.RolloutCondition{Type: v1beta1.RolloutConditionSucceeded, Status: corev1.ConditionStatus(st.Succ), LastUpdateTime: t, LastTransitionTime: t})
	}
	hashOf := func(h string) string {
		switch h {
		case "current":
			return curHash
		case "stale":
			return "stalehash"
		}
		return ""
	}
	if st.Sub != nil {
		s := st.Sub
		t := tsFor(s.Elapsed)
		ro.Status.CanaryStatus = &v1beta1.CanaryStatus{CommonStatus: v1beta1.CommonStatus{ObservedWorkloadGeneration: int64(s.ObsWlGen), ObservedRolloutID: s.ObsRID,
			RolloutHash: hashOf(s.Hash), StableRevision: s.Stable, PodTemplateHash: s.PTH, CurrentStepIndex: int32(s.Idx), NextStepIndex: int32(s.Next),
			CurrentStepState: v1beta1.CanaryStepState(s.State), FinalisingStep: v1beta1.FinalisingStepType(s.Fin), LastUpdateTime: &t},
			CanaryRevision: s.CanaryRev, CanaryReplicas: int32(s.CReplicas), CanaryReadyReplicas: int32(s.CReady)}
		ro.Status.CurrentStepIndex, ro.Status.CurrentStepState = int32(s.Idx), v1beta1.CanaryStepState(s.State)
		if in.BlueGreen && !in.StaleCanary {
			cs := ro.Status.CanaryStatus
			ro.Status.BlueGreenStatus = &v1beta1.BlueGreenStatus{CommonStatus: cs.CommonStatus, UpdatedRevision: cs.CanaryRevision, UpdatedReplicas: cs.CanaryReplicas,
				UpdatedReadyReplicas: cs.CanaryReadyReplicas}
			ro.Status.CanaryStatus = nil
		}
	}
	objs := []client.Object{ro}
	if in.W.Exists {
		n32 := int32(in.W.Replicas)
		cs := &kruiseappsv1alpha1.CloneSet{ObjectMeta: metav1.ObjectMeta{Namespace: "ns", Name: "wl", UID: "wl-uid", Generation: int64(in.W.Gen), Annotations: map[string]string{}, Labels: map[string]string{}},
			Spec: kruiseappsv1alpha1.CloneSetSpec{Replicas: &n32, Selector: &metav1.LabelSelector{MatchLabels: map[string]string{"app": "demo"}}, Template: podTemplate()}}
		if in.W.InProgress {
			cs.Annotations[util.InRolloutProgressingAnnotation] = `{"rolloutName":"ro"}`
		}
		if in.W.Typed {
			cs.Annotations[util.WorkloadTypeLabel] = "cloneset"
			cs.Labels[util.WorkloadTypeLabel] = "cloneset"
		}
		if in.W.RIDLabel != "" {
			cs.Labels[v1beta1.RolloutIDLabel] = in.W.RIDLabel
		}
		cs.Status = kruiseappsv1alpha1.CloneSetStatus{ObservedGeneration: int64(in.W.ObsGen), Replicas: n32, UpdatedReplicas: int32(in.W.Updated), UpdatedReadyReplicas: int32(in.W.Updated),
			ReadyReplicas: n32, CurrentRevision: "wl-" + in.W.Stable, UpdateRevision: "wl-" + in.W.Canary}
		objs = append(objs, cs)
	}
	if in.BR != nil {
		objs = append(objs, buildBR(in, in.BR))
	}
	if ext != nil {
		objs = append(objs, tmObjectsKey(ext.Net, "pod-template-hash")...)
	}
	return objs, ro, curHash
}

func reconcileRolloutWorld(in RInput, ext *TRExt, objs []client.Object, ro *v1beta1.Rollout, curHash string, obs RObs, xobs TRObsExt) (RObs, TRObsExt) {
	base := fake.NewClientBuilder().WithScheme(FullScheme()).WithObjects(objs...).Build()
	wl := &writeLog{Client: base}
	var cli client.Client = wl
	// the finder's view of the workload, before the reconcile
	if wv, err := util.NewControllerFinder(cli).GetWorkloadForRef(ro); err == nil && wv != nil {
		obs.WlView.Consistent = wv.IsStatusConsistent
		obs.WlView.Stable, obs.WlView.Canary, obs.WlView.PTH = wv.StableRevision, wv.CanaryRevision, wv.PodTemplateHash
		obs.WlView.InProgress, obs.WlView.InRollback = wv.InRolloutProgressing, wv.IsInRollback
	}
	rec := rollout.VerifNewReconciler(cli, FullScheme(), record.NewFakeRecorder(1000))
	var result ctrl.Result
	func() {
		defer func() {
			if p := recover(); p != nil {
				obs.Panic = fmt.Sprint(p)
			}
		}()
		var err error
		wl.failIngressAll = ext != nil && ext.FailGateway
		wl.failWorkload = ext != nil && ext.FailWlRead
		result, err = rec.Reconcile(context.TODO(), ctrl.Request{NamespacedName: types.NamespacedName{Namespace: "ns", Name: "ro"}})
		if err != nil {
			obs.Err = err.Error()
		}
	}()
	wl.failIngressAll, wl.failWorkload = false, false
	obs.Requeue = result.RequeueAfter > 0 || result.Requeue
	after := &v1beta1.Rollout{}
	if err := cli.Get(context.TODO(), types.NamespacedName{Namespace: "ns", Name: "ro"}, after); err != nil {
		obs.Gone = true
	} else {
		s := after.Status
		o := RStatus{Phase: string(s.Phase), ObsGen: int(s.ObservedGeneration)}
		if c := util.GetRolloutCondition(s, v1beta1.RolloutConditionProgressing); c != nil {
			o.Prog, o.ProgStatus, o.ProgElapsed = c.Reason, c.Status == corev1.ConditionTrue, isElapsed(&c.LastUpdateTime)
		}
		if c := util.GetRolloutCondition(s, v1beta1.RolloutConditionTerminating); c != nil {
			o.Term = c.Reason
		}
		if c := util.GetRolloutCondition(s, v1beta1.RolloutConditionSucceeded); c != nil {
			o.Succ = string(c.Status)
		}
		if in.StaleCanary {
			s.CanaryStatus = nil // the blue-green manager's view
		}
		if bg := s.BlueGreenStatus; bg != nil && s.CanaryStatus == nil {
			s.CanaryStatus = &v1beta1.CanaryStatus{CommonStatus: bg.CommonStatus, CanaryRevision: bg.UpdatedRevision, CanaryReplicas: bg.UpdatedReplicas, CanaryReadyReplicas: bg.UpdatedReadyReplicas}
		}
		if cs := s.CanaryStatus; cs != nil {
			h := ""
			switch cs.RolloutHash {
			case "":
			case curHash:
				h = "current"
			default:
				h = "stale"
			}
			o.Sub = &RSub{ObsWlGen: int(cs.ObservedWorkloadGeneration), ObsRID: cs.ObservedRolloutID, Hash: h, Stable: cs.StableRevision, PTH: cs.PodTemplateHash,
				Idx: int(cs.CurrentStepIndex), Next: int(cs.NextStepIndex), State: string(cs.CurrentStepState), Fin: string(cs.FinalisingStep), Elapsed: isElapsed(cs.LastUpdateTime),
				CanaryRev: cs.CanaryRevision, CReplicas: int(cs.CanaryReplicas), CReady: int(cs.CanaryReadyReplicas)}
		}
		obs.Status = o
		for _, f := range after.Finalizers {
			if f == util.KruiseRolloutFinalizer {
				obs.Finalizer = true
			}
		}
	}
	brAfter := &v1beta1.BatchRelease{}
	if err := cli.Get(context.TODO(), types.NamespacedName{Namespace: "ns", Name: "ro"}, brAfter); err == nil {
		obs.BR = readBR(brAfter)
	}
	if in.W.Exists {
		cs := &kruiseappsv1alpha1.CloneSet{}
		if err := cli.Get(context.TODO(), types.NamespacedName{Namespace: "ns", Name: "wl"}, cs); err == nil {
			_, obs.Anno = cs.Annotations[util.InRolloutProgressingAnnotation]
		}
	}
	if ext != nil {
		xobs.Net = tmProjectKey(base, "pod-template-hash")
		for _, w := range wl.log {
			if strings.Contains(w, " Service ") || strings.Contains(w, " Ingress ") {
				xobs.Writes = append(xobs.Writes, w)
			}
		}
		for _, p := range grace.VerifPending() {
			xobs.Pending = append(xobs.Pending, p[strings.LastIndex(p, "/")+1:])
		}
		sort.Strings(xobs.Pending)
		grace.ResetExpectations()
	}
	return obs, xobs
}

func coqSState(s string) string {
	m := map[string]string{"BeforeStepUpgrade": "StInit", "StepUpgrade": "StUpgrade", "StepTrafficRouting": "StTraffic", "StepMetricsAnalysis": "StMetrics",
		"StepPaused": "StPaused", "StepReady": "StReady", "Completed": "StCompleted"}
	if v, ok := m[s]; ok {
		return v
	}
	return "StOther"
}
func coqFTask(s string) string {
	m := map[string]string{"": "FtNone", "RestoreStableService": "FtRestoreStable", "FinalisingStepRouteTrafficToStable": "FtRouteStable", "RemoveCanaryService": "FtRemoveCanarySvc",
		"ResumeWorkload": "FtResume", "ReleaseWorkloadControl": "FtRelease", "END": "FtEnd"}
	if v, ok := m[s]; ok {
		return v
	}
	return "FtOther"
}
func coqRPhase(s string) string {
	m := map[string]string{"": "RpEmpty", "Initial": "RpInitial", "Healthy": "RpHealthy", "Progressing": "RpProgressing", "Terminating": "RpTerminating", "Disabled": "RpDisabled", "Disabling": "RpDisabling"}
	return m[s]
}
func coqPReason(s string) string {
	m := map[string]string{"Initializing": "PrInitializing", "InRolling": "PrInRolling", "Finalising": "PrFinalising", "Paused": "PrPaused", "Cancelling": "PrCancelling", "Completed": "PrCompleted"}
	if v, ok := m[s]; ok {
		return v
	}
	return "PrOther"
}

func coqRStatus(s RStatus) string {
	prog := "None"
	if s.Prog != "" {
		prog = emit.Some("(" + coqPReason(s.Prog) + ", " + emit.Bool(s.ProgStatus) + ", " + emit.Bool(s.ProgElapsed) + ")")
	}
	term := "None"
	if s.Term != "" {
		term = emit.Some(emit.Bool(s.Term == "Completed"))
	}
	succ := "None"
	if s.Succ != "" {
		succ = emit.Some(emit.Bool(s.Succ == "True"))
	}
	sub := "None"
	if s.Sub != nil {
		u := s.Sub
		sub = emit.Some(emit.App("Build_sub", emit.Z(int64(u.ObsWlGen)), emit.Str(u.ObsRID), emit.Str(u.Hash), emit.Str(u.Stable), emit.Str(u.PTH), emit.Z(int64(u.Idx)), emit.Z(int64(u.Next)),
			coqSState(u.State), coqFTask(u.Fin), emit.Bool(u.Elapsed), emit.Str(u.CanaryRev), emit.Z(int64(u.CReplicas)), emit.Z(int64(u.CReady))))
	}
	return emit.App("Build_ro_status", coqRPhase(s.Phase), emit.Z(int64(s.ObsGen)), prog, term, succ, sub)
}

func coqRBr(b *RBr) string {
	if b == nil {
		return "None"
	}
	part := "None"
	if b.Partition != nil {
		part = emit.Some(emit.Z(int64(*b.Partition)))
	}
	return emit.Some(emit.App("Build_brel", emit.ListOf(b.Batches, IOS.Coq), emit.Str(b.RID), part, optIOS(b.FT), emit.Bool(b.RollbackAnno), emit.Str(b.Policy), emit.Bool(b.Consistent),
		emit.Bool(b.StateReady), emit.Z(int64(b.Batch)), emit.Bool(b.Completed), emit.Bool(b.Deleting), emit.Z(int64(b.Updated)), emit.Z(int64(b.UpdatedReady))))
}

func (rolloutsmEngine) Coq(inAny any, obsAny any) string {
	in := inAny.(RInput)
	obs := obsAny.(RObs)
	steps := emit.ListOf(in.Steps, func(s RStep) string {
		p := "None"
		if s.Pause != nil {
			p = emit.Some(emit.Z(int64(*s.Pause)))
		}
		return emit.App("Build_step", s.Replicas.Coq(), p)
	})
	spec := emit.App("Build_ro_spec", steps, emit.Bool(in.Paused), emit.Bool(in.Disabled), emit.Bool(in.Deleting), emit.Bool(in.Finalizer), emit.Z(int64(in.Generation)),
		emit.Str("current"), emit.Bool(in.RollbackInBatch), optIOS(in.FT))
	w := in.W
	strip := func(s string) string { return s[strings.LastIndex(s, "-")+1:] }
	wl := emit.App("Build_wl", emit.Bool(w.Exists), emit.Bool(obs.WlView.Consistent || !w.Exists), emit.Str(strip(obs.WlView.Stable)), emit.Str(strip(obs.WlView.Canary)), emit.Str(strip(obs.WlView.PTH)),
		emit.Z(int64(w.Replicas)), emit.Z(int64(w.Gen)), emit.Bool(w.InProgress && w.Exists), emit.Bool(obs.WlView.InRollback), emit.Str(w.RIDLabel), emit.Bool(w.Typed))
	o := emit.App("Build_ro_obs", emit.Bool(obs.Panic != ""), emit.Bool(obs.Err != ""), emit.Bool(obs.Gone), coqRStatus(obs.Status), coqRBr(obs.BR), emit.Bool(obs.Anno), emit.Bool(obs.Finalizer), emit.Bool(obs.Requeue))
	return emit.App("Build_ro_case", spec, coqRStatus(in.Status), wl, coqRBr(in.BR), o)
}
