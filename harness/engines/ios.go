package engines

import (
	"math/rand"
	"strconv"
	"strings"

	"k8s.io/apimachinery/pkg/util/intstr"

	"verifharness/emit"
)

// IOS is the JSON form of an intstr.IntOrString.
type IOS struct {
	T string `json:"t"` // "int" | "str"
	V int64  `json:"v,omitempty"`
	S string `json:"s,omitempty"`
}

func (x IOS) K8s() intstr.IntOrString {
	if x.T == "int" {
		return intstr.FromInt(int(x.V))
	}
	return intstr.FromString(x.S)
}

func IOSFrom(v intstr.IntOrString) IOS {
	if v.Type == intstr.Int {
		return IOS{T: "int", V: int64(v.IntVal)}
	}
	return IOS{T: "str", S: v.StrVal}
}

// Coq prints the model's ios: IInt z | IPct p | IBad (see Base/IntStr.v).
func (x IOS) Coq() string {
	if x.T == "int" {
		return emit.App("IInt", emit.Z(x.V))
	}
	if strings.HasSuffix(x.S, "%") {
		if v, err := strconv.Atoi(strings.TrimSuffix(x.S, "%")); err == nil {
			return emit.App("IPct", emit.Z(int64(v)))
		}
	}
	return "IBad"
}

func Int(v int) IOS       { return IOS{T: "int", V: int64(v)} }
func Pct(p int) IOS       { return IOS{T: "str", S: strconv.Itoa(p) + "%"} }
func BadStr(s string) IOS { return IOS{T: "str", S: s} }

// genPlan draws a release plan: 1..6 steps, mostly non-decreasing, ints or percents or mixed.
func genPlan(r *rand.Rand, n int) []IOS {
	k := 1 + r.Intn(5)
	mode := r.Intn(10) // 0-4 percent, 5-7 int, 8-9 mixed
	var plan []IOS
	lastP, lastI := 0, 0
	for i := 0; i < k; i++ {
		usePct := mode < 5 || (mode >= 8 && r.Intn(2) == 0)
		if usePct {
			p := lastP + 1 + r.Intn(40)
			if chance(r, 10) {
				p = pick(r, 1, 50, 99, 100)
			}
			if p > 100 {
				p = 100
			}
			if i == k-1 && chance(r, 60) {
				p = 100
			}
			lastP = p
			plan = append(plan, Pct(p))
		} else {
			hi := n
			if hi < 1 {
				hi = 1
			}
			v := lastI + 1 + r.Intn(hi/2+1)
			if chance(r, 8) {
				v = n + r.Intn(3) // at or beyond the size
			}
			lastI = v
			plan = append(plan, Int(v))
		}
	}
	return plan
}
