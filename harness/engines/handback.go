package engines

// handback: the blue-green control planes (Deployment, CloneSet) over the fields a user configures.  A scenario is what
// successive BatchRelease reconciles do -- Initialize, some UpgradeBatch calls, Finalize -- through the REAL control-plane
// wrappers; the n-th Patch of the whole scenario may fail, and a failed phase is tried again.  C05: afterwards the workload
// (and its HPA) is as the user configured it; C06: whatever call failed.

import (
	"context"
	"encoding/json"
	"fmt"
	"math/rand"

	kruiseappsv1alpha1 "github.com/openkruise/kruise-api/apps/v1alpha1"
	apps "k8s.io/api/apps/v1"
	metav1 "k8s.io/apimachinery/pkg/apis/meta/v1"
	"k8s.io/apimachinery/pkg/apis/meta/v1/unstructured"
	"k8s.io/apimachinery/pkg/runtime/schema"
	"k8s.io/apimachinery/pkg/types"
	"k8s.io/apimachinery/pkg/util/intstr"
	"k8s.io/client-go/tools/record"
	"k8s.io/utils/pointer"
	"sigs.k8s.io/controller-runtime/pkg/client"
	"sigs.k8s.io/controller-runtime/pkg/client/fake"

	"github.com/openkruise/rollouts/api/v1alpha1"
	"github.com/openkruise/rollouts/api/v1beta1"
	"github.com/openkruise/rollouts/pkg/controller/batchrelease/control"
	"github.com/openkruise/rollouts/pkg/controller/batchrelease/control/bluegreenstyle"
	bgcloneset "github.com/openkruise/rollouts/pkg/controller/batchrelease/control/bluegreenstyle/cloneset"
	bgdeployment "github.com/openkruise/rollouts/pkg/controller/batchrelease/control/bluegreenstyle/deployment"
	"github.com/openkruise/rollouts/pkg/util"

	"verifharness/emit"
)

type HBInput struct {
	Kind        string `json:"kind"` // deploy | clone
	N           int    `json:"n"`
	MinReady    int    `json:"min_ready"`
	Deadline    *int   `json:"deadline,omitempty"` // Deployment only
	Surge       *IOS   `json:"surge,omitempty"`
	Unavail     *IOS   `json:"unavail,omitempty"`
	Paused      bool   `json:"paused"`
	Partition   *IOS   `json:"partition,omitempty"` // CloneSet only
	HPA         string `json:"hpa,omitempty"`       // "" | "v2" | "v1"
	StableRS    bool   `json:"stable_rs,omitempty"` // Deployment: a stable ReplicaSet exists
	Steps       []IOS  `json:"steps"`               // the plan; UpgradeBatch is called for the first Upgrades of them
	Upgrades    int    `json:"upgrades"`
	Partitioned bool   `json:"partitioned,omitempty"` // batchPartition set on Finalize: "continuous release not supported", a no-op
	FailPatch   int    `json:"fail_patch,omitempty"`  // the n-th Patch of the scenario fails (0: none)
}

type HBState struct {
	MinReady   int    `json:"min_ready"`
	Deadline   *int   `json:"deadline,omitempty"`
	Surge      *IOS   `json:"surge,omitempty"`
	Unavail    *IOS   `json:"unavail,omitempty"`
	Paused     bool   `json:"paused"`
	Partition  *IOS   `json:"partition,omitempty"`
	Saved      string `json:"saved,omitempty"` // the original-strategy annotation
	Claimed    bool   `json:"claimed"`
	Label      bool   `json:"label"`
	HPATarget  string `json:"hpa_target,omitempty"`
	RSMinReady *int   `json:"rs_min_ready,omitempty"`
}

type HBObs struct {
	Panic  string   `json:"panic,omitempty"`
	Errs   [][]bool `json:"errs"` // per phase, per attempt: did it return an error
	Final  HBState  `json:"final"`
	// after the Initialize phase (all its attempts): is the release marker set, is the HPA (if any) detached, is the stable
	// ReplicaSet (if any) held back by the maximal minReadySeconds
	InitClaimed bool `json:"init_claimed"`
	InitHPAOff  bool `json:"init_hpa_off"`
	InitRSHeld  bool `json:"init_rs_held"`
	Detail []string `json:"detail,omitempty"`
}

type handbackEngine struct{}

func init() { Register(handbackEngine{}) }

func (handbackEngine) Name() string      { return "handback" }
func (handbackEngine) CoqModule() string { return "Corr.HandBack" }
func (handbackEngine) Decode(raw json.RawMessage) (any, error) {
	var in HBInput
	err := json.Unmarshal(raw, &in)
	return in, err
}

func (handbackEngine) Gen(r *rand.Rand, idx int, tier string) any {
	in := HBInput{Kind: pick(r, "deploy", "clone"), N: pick(r, 0, 1, 3, 5, 10, 10), MinReady: pick(r, 0, 0, 5, 30), Paused: chance(r, 40), HPA: pick(r, "", "", "v2", "v1"),
		StableRS: chance(r, 60), Partitioned: chance(r, 6)}
	if chance(r, 60) {
		s := pick(r, Int(1), Int(2), Pct(25), Pct(50), Pct(100), Int(0))
		in.Surge = &s
	}
	if chance(r, 60) {
		u := pick(r, Int(0), Int(1), Pct(25), Pct(20), Pct(0))
		in.Unavail = &u
	}
	if in.Kind == "deploy" {
		if chance(r, 50) {
			d := pick(r, 600, 300, 1200)
			in.Deadline = &d
		}
		// both nil = no rollingUpdate block at all; one of them set = the other defaults inside the block
	} else if chance(r, 70) {
		p := pick(r, Pct(100), Pct(100), Int(3), Pct(0))
		in.Partition = &p
	}
	k := 1 + r.Intn(3)
	for i := 0; i < k; i++ {
		in.Steps = append(in.Steps, pick(r, Pct(20), Pct(50), Pct(100), Int(1), Int(2), Int(5), Pct(100)))
	}
	in.Upgrades = r.Intn(k + 1)
	if chance(r, 35) {
		in.FailPatch = 1 + r.Intn(6)
	}
	return in
}

// patchFault fails the n-th Patch call.
type patchFault struct {
	client.Client
	at, count int
}

func (p *patchFault) Patch(ctx context.Context, obj client.Object, patch client.Patch, opts ...client.PatchOption) error {
	p.count++
	if p.at > 0 && p.count == p.at {
		return fmt.Errorf("injected: the API server is unavailable")
	}
	return p.Client.Patch(ctx, obj, patch, opts...)
}

func hbIOS(v *intstr.IntOrString) *IOS {
	if v == nil {
		return nil
	}
	x := IOSFrom(*v)
	return &x
}

func (handbackEngine) Run(inAny any) (res any) {
	in := inAny.(HBInput)
	in.StableRS = in.StableRS && in.N > 0 // a ReplicaSet without pods is nobody's stable ReplicaSet
	obs := HBObs{}
	defer func() {
		if p := recover(); p != nil {
			obs.Panic = fmt.Sprint(p)
			res = obs
		}
	}()
	key := types.NamespacedName{Namespace: "ns", Name: "wl"}
	n32 := int32(in.N)
	var objs []client.Object
	var gvk schema.GroupVersionKind
	if in.Kind == "deploy" {
		gvk = apps.SchemeGroupVersion.WithKind("Deployment")
		d := &apps.Deployment{TypeMeta: metav1.TypeMeta{APIVersion: "apps/v1", Kind: "Deployment"},
			ObjectMeta: metav1.ObjectMeta{Namespace: "ns", Name: "wl", UID: "wl-uid", Generation: 1, Labels: map[string]string{v1alpha1.DeploymentStableRevisionLabel: "stable-hash"}},
			Spec: apps.DeploymentSpec{Replicas: &n32, Paused: in.Paused, MinReadySeconds: int32(in.MinReady), Selector: &metav1.LabelSelector{MatchLabels: map[string]string{"app": "demo"}}, Template: dTemplate("new")}}
		if in.Deadline != nil {
			d.Spec.ProgressDeadlineSeconds = pointer.Int32(int32(*in.Deadline))
		}
		d.Spec.Strategy.Type = apps.RollingUpdateDeploymentStrategyType
		if in.Surge != nil || in.Unavail != nil {
			d.Spec.Strategy.RollingUpdate = &apps.RollingUpdateDeployment{}
			if in.Surge != nil {
				d.Spec.Strategy.RollingUpdate.MaxSurge = ptrIOS(in.Surge.K8s())
			}
			if in.Unavail != nil {
				d.Spec.Strategy.RollingUpdate.MaxUnavailable = ptrIOS(in.Unavail.K8s())
			}
		}
		d.Status = apps.DeploymentStatus{ObservedGeneration: 1, Replicas: n32, UpdatedReplicas: n32, ReadyReplicas: n32, AvailableReplicas: n32}
		objs = append(objs, d)
		if in.StableRS {
			tr := true
			t := dTemplate("old")
			rs := &apps.ReplicaSet{ObjectMeta: metav1.ObjectMeta{Namespace: "ns", Name: "wl-old", UID: "rs-old-uid", Labels: map[string]string{"app": "demo", apps.DefaultDeploymentUniqueLabelKey: "stable-hash"},
				OwnerReferences: []metav1.OwnerReference{{APIVersion: "apps/v1", Kind: "Deployment", Name: "wl", UID: "wl-uid", Controller: &tr}}},
				Spec: apps.ReplicaSetSpec{Replicas: &n32, MinReadySeconds: int32(in.MinReady), Selector: &metav1.LabelSelector{MatchLabels: map[string]string{"app": "demo"}}, Template: t}}
			objs = append(objs, rs)
		}
	} else {
		gvk = kruiseappsv1alpha1.SchemeGroupVersion.WithKind("CloneSet")
		c := &kruiseappsv1alpha1.CloneSet{TypeMeta: metav1.TypeMeta{APIVersion: "apps.kruise.io/v1alpha1", Kind: "CloneSet"},
			ObjectMeta: metav1.ObjectMeta{Namespace: "ns", Name: "wl", UID: "wl-uid", Generation: 1},
			Spec: kruiseappsv1alpha1.CloneSetSpec{Replicas: &n32, MinReadySeconds: int32(in.MinReady), Selector: &metav1.LabelSelector{MatchLabels: map[string]string{"app": "demo"}}, Template: dTemplate("new")}}
		c.Spec.UpdateStrategy.Paused = in.Paused
		if in.Surge != nil {
			c.Spec.UpdateStrategy.MaxSurge = ptrIOS(in.Surge.K8s())
		}
		if in.Unavail != nil {
			c.Spec.UpdateStrategy.MaxUnavailable = ptrIOS(in.Unavail.K8s())
		}
		if in.Partition != nil {
			c.Spec.UpdateStrategy.Partition = ptrIOS(in.Partition.K8s())
		}
		c.Status = kruiseappsv1alpha1.CloneSetStatus{ObservedGeneration: 1, Replicas: n32, UpdatedReplicas: n32, ReadyReplicas: n32, UpdatedReadyReplicas: n32, AvailableReplicas: n32}
		objs = append(objs, c)
	}
	hpaGVK := schema.GroupVersionKind{Group: "autoscaling", Version: in.HPA, Kind: "HorizontalPodAutoscaler"}
	if in.HPA != "" {
		h := &unstructured.Unstructured{}
		h.SetGroupVersionKind(hpaGVK)
		h.SetNamespace("ns")
		h.SetName("wl-hpa")
		_ = unstructured.SetNestedField(h.Object, map[string]any{"apiVersion": gvk.GroupVersion().String(), "kind": gvk.Kind, "name": "wl"}, "spec", "scaleTargetRef")
		objs = append(objs, h)
	}
	base := fake.NewClientBuilder().WithScheme(FullScheme()).WithObjects(objs...).Build()
	cli := &patchFault{Client: base, at: in.FailPatch}
	release := &v1beta1.BatchRelease{TypeMeta: metav1.TypeMeta{APIVersion: "rollouts.kruise.io/v1beta1", Kind: "BatchRelease"},
		ObjectMeta: metav1.ObjectMeta{Namespace: "ns", Name: "br", UID: "br-uid"}}
	for _, s := range in.Steps {
		release.Spec.ReleasePlan.Batches = append(release.Spec.ReleasePlan.Batches, v1beta1.ReleaseBatch{CanaryReplicas: s.K8s()})
	}
	release.Spec.ReleasePlan.RollingStyle = v1beta1.BlueGreenRollingStyle
	plane := func() interface {
		Initialize() error
		UpgradeBatch() error
		Finalize() error
	} {
		st := &v1beta1.BatchReleaseStatus{}
		if in.Kind == "deploy" {
			return bluegreenstyle.NewControlPlane(bgdeployment.NewController, cli, record.NewFakeRecorder(1000), release, st, key, gvk)
		}
		return bluegreenstyle.NewControlPlane(bgcloneset.NewController, cli, record.NewFakeRecorder(1000), release, st, key, gvk)
	}
	// every attempt builds a fresh control plane on the current API state, as one reconcile does
	try := func(f func() error) []bool {
		var errs []bool
		for a := 0; a < 3; a++ {
			err := f()
			errs = append(errs, err != nil)
			if err != nil {
				obs.Detail = append(obs.Detail, firstLine(err.Error()))
			}
			if err == nil {
				break
			}
		}
		return errs
	}
	obs.Errs = append(obs.Errs, try(func() error { return plane().Initialize() }))
	{
		var annos map[string]string
		if in.Kind == "deploy" {
			d := &apps.Deployment{}
			_ = base.Get(context.TODO(), key, d)
			annos = d.Annotations
		} else {
			c := &kruiseappsv1alpha1.CloneSet{}
			_ = base.Get(context.TODO(), key, c)
			annos = c.Annotations
		}
		obs.InitClaimed = annos[util.BatchReleaseControlAnnotation] != ""
		obs.InitHPAOff = true
		if in.HPA != "" {
			h := &unstructured.Unstructured{}
			h.SetGroupVersionKind(hpaGVK)
			if err := base.Get(context.TODO(), types.NamespacedName{Namespace: "ns", Name: "wl-hpa"}, h); err == nil {
				t, _, _ := unstructured.NestedString(h.Object, "spec", "scaleTargetRef", "name")
				obs.InitHPAOff = t != "wl"
			}
		}
		obs.InitRSHeld = true
		if in.Kind == "deploy" && in.StableRS {
			rs := &apps.ReplicaSet{}
			if err := base.Get(context.TODO(), types.NamespacedName{Namespace: "ns", Name: "wl-old"}, rs); err == nil {
				obs.InitRSHeld = rs.Spec.MinReadySeconds == v1beta1.MaxReadySeconds
			}
		}
	}
	for i := 0; i < in.Upgrades; i++ {
		release.Status.CanaryStatus.CurrentBatch = int32(i)
		obs.Errs = append(obs.Errs, try(func() error { return plane().UpgradeBatch() }))
	}
	if in.Partitioned {
		release.Spec.ReleasePlan.BatchPartition = pointer.Int32(0)
	}
	obs.Errs = append(obs.Errs, try(func() error { return plane().Finalize() }))
	// read back
	f := &obs.Final
	var annos, labels map[string]string
	if in.Kind == "deploy" {
		d := &apps.Deployment{}
		_ = base.Get(context.TODO(), key, d)
		annos, labels = d.Annotations, d.Labels
		f.MinReady, f.Paused = int(d.Spec.MinReadySeconds), d.Spec.Paused
		if d.Spec.ProgressDeadlineSeconds != nil {
			v := int(*d.Spec.ProgressDeadlineSeconds)
			f.Deadline = &v
		}
		if ru := d.Spec.Strategy.RollingUpdate; ru != nil {
			f.Surge, f.Unavail = hbIOS(ru.MaxSurge), hbIOS(ru.MaxUnavailable)
		}
		if in.StableRS {
			rs := &apps.ReplicaSet{}
			if err := base.Get(context.TODO(), types.NamespacedName{Namespace: "ns", Name: "wl-old"}, rs); err == nil {
				v := int(rs.Spec.MinReadySeconds)
				f.RSMinReady = &v
			}
		}
	} else {
		c := &kruiseappsv1alpha1.CloneSet{}
		_ = base.Get(context.TODO(), key, c)
		annos, labels = c.Annotations, c.Labels
		f.MinReady, f.Paused = int(c.Spec.MinReadySeconds), c.Spec.UpdateStrategy.Paused
		f.Surge, f.Unavail, f.Partition = hbIOS(c.Spec.UpdateStrategy.MaxSurge), hbIOS(c.Spec.UpdateStrategy.MaxUnavailable), hbIOS(c.Spec.UpdateStrategy.Partition)
	}
	f.Saved = annos[v1beta1.OriginalDeploymentStrategyAnnotation]
	f.Claimed = annos[util.BatchReleaseControlAnnotation] != ""
	f.Label = labels[v1alpha1.DeploymentStableRevisionLabel] != ""
	if in.HPA != "" {
		h := &unstructured.Unstructured{}
		h.SetGroupVersionKind(hpaGVK)
		if err := base.Get(context.TODO(), types.NamespacedName{Namespace: "ns", Name: "wl-hpa"}, h); err == nil {
			f.HPATarget, _, _ = unstructured.NestedString(h.Object, "spec", "scaleTargetRef", "name")
		}
	}
	return obs
}

func hbOptIOS(v *IOS) string {
	if v == nil {
		return "None"
	}
	return emit.Some(v.Coq())
}
func hbOptZ(v *int) string {
	if v == nil {
		return "None"
	}
	return emit.Some(emit.Z(int64(*v)))
}

func hbSaved(s string) string {
	if s == "" {
		return "None"
	}
	var o control.OriginalDeploymentStrategy
	if err := json.Unmarshal([]byte(s), &o); err != nil {
		return "None"
	}
	var dl *int
	if o.ProgressDeadlineSeconds != nil {
		v := int(*o.ProgressDeadlineSeconds)
		dl = &v
	}
	return emit.Some(emit.App("Build_saved", hbOptIOS(hbIOS(o.MaxUnavailable)), hbOptIOS(hbIOS(o.MaxSurge)), emit.Z(int64(o.MinReadySeconds)), hbOptZ(dl)))
}

func (handbackEngine) Coq(inAny any, obsAny any) string {
	in, obs := inAny.(HBInput), obsAny.(HBObs)
	in.StableRS = in.StableRS && in.N > 0
	kind := "BGClone"
	if in.Kind == "deploy" {
		kind = "BGDeploy"
	}
	hpa := func(present bool, target string) string {
		if !present {
			return "None"
		}
		return emit.Some(emit.Bool(target != "wl"))
	}
	rs0 := "None"
	if in.Kind == "deploy" && in.StableRS {
		rs0 = emit.Some(emit.Z(int64(in.MinReady)))
	}
	w0 := emit.App("Build_bgw", emit.Z(int64(in.MinReady)), hbOptZ(in.Deadline), hbOptIOS(in.Surge), hbOptIOS(in.Unavail), emit.Bool(in.Paused), hbOptIOS(in.Partition),
		"None", "false", emit.Bool(in.Kind == "deploy"), hpa(in.HPA != "", "wl"), rs0)
	f := obs.Final
	wf := emit.App("Build_bgw", emit.Z(int64(f.MinReady)), hbOptZ(f.Deadline), hbOptIOS(f.Surge), hbOptIOS(f.Unavail), emit.Bool(f.Paused), hbOptIOS(f.Partition),
		hbSaved(f.Saved), emit.Bool(f.Claimed), emit.Bool(f.Label), hpa(in.HPA != "", f.HPATarget), hbOptZ(f.RSMinReady))
	phases := []string{"PInit"}
	for i := 0; i < in.Upgrades; i++ {
		phases = append(phases, emit.App("PUpgrade", in.Steps[i].Coq()))
	}
	phases = append(phases, "PFinal")
	fault := "None"
	if in.FailPatch > 0 {
		fault = emit.Some(fmt.Sprintf("%d%%nat", in.FailPatch))
	}
	errs := emit.ListOf(obs.Errs, func(l []bool) string { return emit.ListOf(l, emit.Bool) })
	return emit.App("Build_hbcase", kind, emit.Z(int64(in.N)), emit.Bool(in.Partitioned), "["+joinStr(phases, "; ")+"]", fault, w0, errs, wf, emit.Bool(obs.Panic != ""),
		emit.Bool(obs.InitClaimed), emit.Bool(obs.InitHPAOff), emit.Bool(obs.InitRSHeld))
}

func joinStr(l []string, sep string) string {
	out := ""
	for i, s := range l {
		if i > 0 {
			out += sep
		}
		out += s
	}
	return out
}
