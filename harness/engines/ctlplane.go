package engines

// ctlplane: Initialize / Finalize of two BatchRelease workload control planes (partition-style Deployment, canary-style
// Deployment) from generated states, with one injected API failure (the n-th Get / Patch / List / Update / Create of a
// Deployment).  Model: coq/Model/CtlPlane.v.

import (
	"context"
	"encoding/json"
	"fmt"
	"math/rand"
	"sort"

	apps "k8s.io/api/apps/v1"
	metav1 "k8s.io/apimachinery/pkg/apis/meta/v1"
	"k8s.io/apimachinery/pkg/types"
	"k8s.io/apimachinery/pkg/util/intstr"
	"k8s.io/client-go/tools/record"
	"k8s.io/utils/pointer"
	"sigs.k8s.io/controller-runtime/pkg/client"
	"sigs.k8s.io/controller-runtime/pkg/client/fake"

	"github.com/openkruise/rollouts/api/v1alpha1"
	"github.com/openkruise/rollouts/api/v1beta1"
	"github.com/openkruise/rollouts/pkg/controller/batchrelease/control/canarystyle"
	canarydeployment "github.com/openkruise/rollouts/pkg/controller/batchrelease/control/canarystyle/deployment"
	"github.com/openkruise/rollouts/pkg/controller/batchrelease/control/partitionstyle"
	partdeployment "github.com/openkruise/rollouts/pkg/controller/batchrelease/control/partitionstyle/deployment"
	"github.com/openkruise/rollouts/pkg/util"
	expectations "github.com/openkruise/rollouts/pkg/util/expectation"

	"verifharness/emit"
)

type CPInput struct {
	Kind        string `json:"kind"` // pdep | cdep
	Op          string `json:"op"`   // init | finalize
	Partitioned bool   `json:"partitioned,omitempty"`
	WaitResume  bool   `json:"wait_resume,omitempty"`
	FailVerb    string `json:"fail_verb,omitempty"` // get | patch | list | update | create
	FailAt      int    `json:"fail_at,omitempty"`   // 1-based
	// state
	Claimed      bool   `json:"claimed"`
	Paused       bool   `json:"paused"`
	Recreate     bool   `json:"recreate,omitempty"`
	StrategyAnno bool   `json:"strategy_anno,omitempty"`
	Label        bool   `json:"label,omitempty"`
	Canaries     []bool `json:"canaries,omitempty"` // finalizer present on each owned canary Deployment
	// canary style: pod template / patch metadata shapes, and the stable Deployment's status
	TemplateAnnos bool `json:"template_annos,omitempty"`
	StableGone    bool `json:"stable_gone,omitempty"` // canary style, finalize only: the stable Deployment was deleted before the release finalizes
	StaleCanaries bool `json:"stale_canaries,omitempty"` // finalize only: the canary Deployments carry an older template than the stable one (after a rollback or a further release)
	PatchLabels   bool `json:"patch_labels,omitempty"`
	PatchAnnos    bool `json:"patch_annos,omitempty"`
	Replicas      int  `json:"replicas,omitempty"`
	Updated       int  `json:"updated,omitempty"`
	Available     int  `json:"available,omitempty"`
	MaxUnavail    int  `json:"max_unavail,omitempty"`
}

type CPObs struct {
	Panic        string `json:"panic,omitempty"`
	Err          string `json:"err,omitempty"`
	Claimed      bool   `json:"claimed"`
	Paused       bool   `json:"paused"`
	Recreate     bool   `json:"recreate"`
	StrategyAnno bool   `json:"strategy_anno"`
	Label        bool   `json:"label"`
	Canaries     []bool `json:"canaries"`
	// the canary Deployment created by this call carries the patch metadata on top of the template's
	CreatedOK bool `json:"created_ok"`
}

type ctlplaneEngine struct{}

func init() { Register(ctlplaneEngine{}) }

func (ctlplaneEngine) Name() string      { return "ctlplane" }
func (ctlplaneEngine) CoqModule() string { return "Corr.CtlPlane" }
func (ctlplaneEngine) Decode(raw json.RawMessage) (any, error) {
	var in CPInput
	err := json.Unmarshal(raw, &in)
	return in, err
}

func (ctlplaneEngine) Gen(r *rand.Rand, idx int, tier string) any {
	in := CPInput{Kind: pick(r, "pdep", "cdep"), Op: pick(r, "init", "finalize", "finalize"), Partitioned: chance(r, 15)}
	if chance(r, 35) {
		in.FailVerb = pick(r, "get", "patch", "list", "update", "create")
		in.FailAt = pick(r, 1, 1, 1, 2, 2, 3)
	}
	in.Claimed, in.Paused = chance(r, 70), chance(r, 70)
	if in.Kind == "pdep" {
		in.Recreate, in.StrategyAnno, in.Label = chance(r, 65), chance(r, 70), chance(r, 70)
		if chance(r, 50) { // a consistent "under control" state
			in.Claimed, in.Paused, in.Recreate, in.StrategyAnno, in.Label = true, true, true, true, true
		}
		if chance(r, 12) { // the owner re-applied its manifest: native strategy back, still claimed and paused
			in.Claimed, in.Paused, in.Recreate = true, true, false
		}
	} else {
		k := pick(r, 0, 0, 1, 1, 1, 2, 3)
		for i := 0; i < k; i++ {
			in.Canaries = append(in.Canaries, chance(r, 75))
		}
		in.TemplateAnnos, in.PatchLabels, in.PatchAnnos = chance(r, 50), chance(r, 40), chance(r, 40)
		in.StaleCanaries = in.Op == "finalize" && chance(r, 35)
		in.StableGone = in.Op == "finalize" && chance(r, 12)
		in.WaitResume = chance(r, 40)
		n := pick(r, 0, 3, 5)
		in.Replicas = n
		in.Updated, in.Available, in.MaxUnavail = n, n, pick(r, 0, 1)
		if chance(r, 40) {
			in.Updated, in.Available = r.Intn(n+1), r.Intn(n+1)
		}
	}
	return in
}

// faultClient fails the n-th call of one verb on Deployments.
type faultClient struct {
	client.Client
	verb  string
	at    int
	count map[string]int
}

func (f *faultClient) hit(verb string, obj any) error {
	switch obj.(type) {
	case *apps.Deployment, *apps.DeploymentList:
	default:
		return nil
	}
	f.count[verb]++
	if f.verb == verb && f.count[verb] == f.at {
		return fmt.Errorf("injected: the API server is unavailable")
	}
	return nil
}
func (f *faultClient) Get(ctx context.Context, key client.ObjectKey, obj client.Object, opts ...client.GetOption) error {
	if err := f.hit("get", obj); err != nil {
		return err
	}
	return f.Client.Get(ctx, key, obj, opts...)
}
func (f *faultClient) List(ctx context.Context, l client.ObjectList, opts ...client.ListOption) error {
	if err := f.hit("list", l); err != nil {
		return err
	}
	return f.Client.List(ctx, l, opts...)
}
func (f *faultClient) Patch(ctx context.Context, obj client.Object, p client.Patch, opts ...client.PatchOption) error {
	if err := f.hit("patch", obj); err != nil {
		return err
	}
	return f.Client.Patch(ctx, obj, p, opts...)
}
func (f *faultClient) Update(ctx context.Context, obj client.Object, opts ...client.UpdateOption) error {
	if err := f.hit("update", obj); err != nil {
		return err
	}
	return f.Client.Update(ctx, obj, opts...)
}
func (f *faultClient) Create(ctx context.Context, obj client.Object, opts ...client.CreateOption) error {
	if err := f.hit("create", obj); err != nil {
		return err
	}
	return f.Client.Create(ctx, obj, opts...)
}

func (ctlplaneEngine) Run(inAny any) (res any) {
	in := inAny.(CPInput)
	obs := CPObs{}
	key := types.NamespacedName{Namespace: "ns", Name: "wl"}
	n32 := int32(in.Replicas)
	if in.Kind == "pdep" {
		n32 = 5
	}
	tmpl := podTemplate()
	if in.TemplateAnnos {
		tmpl.Annotations = map[string]string{"team": "a"}
	}
	d := &apps.Deployment{ObjectMeta: metav1.ObjectMeta{Namespace: "ns", Name: "wl", UID: "wl-uid", Annotations: map[string]string{}, Labels: map[string]string{}},
		Spec: apps.DeploymentSpec{Replicas: &n32, Paused: in.Paused, Selector: &metav1.LabelSelector{MatchLabels: map[string]string{"app": "demo"}}, Template: tmpl}}
	mu := intstr.FromInt(in.MaxUnavail)
	ms := intstr.FromInt(1)
	d.Spec.Strategy = apps.DeploymentStrategy{Type: apps.RollingUpdateDeploymentStrategyType, RollingUpdate: &apps.RollingUpdateDeployment{MaxUnavailable: &mu, MaxSurge: &ms}}
	d.Status = apps.DeploymentStatus{Replicas: int32(in.Replicas), UpdatedReplicas: int32(in.Updated), AvailableReplicas: int32(in.Available), ReadyReplicas: int32(in.Available)}
	if in.Claimed {
		d.Annotations[util.BatchReleaseControlAnnotation] = controlInfo
	}
	objs := []client.Object{d}
	if in.Kind == "pdep" {
		if in.Recreate {
			d.Spec.Strategy = apps.DeploymentStrategy{Type: apps.RecreateDeploymentStrategyType}
		}
		if in.StrategyAnno {
			st := v1alpha1.DeploymentStrategy{RollingStyle: v1alpha1.PartitionRollingStyle, Partition: intstr.FromInt(2)}
			d.Annotations[v1alpha1.DeploymentStrategyAnnotation] = util.DumpJSON(&st)
		}
		if in.Label {
			d.Labels[v1alpha1.AdvancedDeploymentControlLabel] = "true"
		}
	} else {
		for i, fin := range in.Canaries {
			zero := int32(0)
			c := &apps.Deployment{ObjectMeta: metav1.ObjectMeta{Namespace: "ns", Name: fmt.Sprintf("wl-c%d", i), UID: types.UID(fmt.Sprintf("c%d-uid", i)),
				Labels:          map[string]string{util.CanaryDeploymentLabel: "wl"},
				OwnerReferences: []metav1.OwnerReference{{APIVersion: "rollouts.kruise.io/v1beta1", Kind: "BatchRelease", Name: "br", UID: "br-uid", Controller: pointer.Bool(true)}}},
				Spec: apps.DeploymentSpec{Replicas: &zero, Selector: &metav1.LabelSelector{MatchLabels: map[string]string{"app": "demo"}}, Template: *tmpl.DeepCopy()}}
			if in.StaleCanaries {
				c.Spec.Template.Spec.Containers[0].Image = "img:previous"
			}
			if fin {
				c.Finalizers = []string{util.CanaryDeploymentFinalizer}
			} else {
				c.Finalizers = []string{"verif/hold"}
			}
			objs = append(objs, c)
		}
	}
	if in.StableGone {
		objs = objs[1:] // the canary Deployments stay behind with their finalizer
	}
	base := fake.NewClientBuilder().WithScheme(FullScheme()).WithObjects(objs...).Build()
	cli := &faultClient{Client: base, verb: in.FailVerb, at: in.FailAt, count: map[string]int{}}
	release := &v1beta1.BatchRelease{TypeMeta: metav1.TypeMeta{APIVersion: "rollouts.kruise.io/v1beta1", Kind: "BatchRelease"},
		ObjectMeta: metav1.ObjectMeta{Namespace: "ns", Name: "br", UID: "br-uid"}}
	release.Spec.ReleasePlan.Batches = []v1beta1.ReleaseBatch{{CanaryReplicas: intstr.FromString("50%")}, {CanaryReplicas: intstr.FromString("100%")}}
	if in.Partitioned {
		p := int32(0)
		release.Spec.ReleasePlan.BatchPartition = &p
	}
	if in.WaitResume {
		release.Spec.ReleasePlan.FinalizingPolicy = v1beta1.WaitResumeFinalizingPolicyType
	}
	if in.PatchLabels || in.PatchAnnos {
		pm := &v1beta1.PatchPodTemplateMetadata{}
		if in.PatchLabels {
			pm.Labels = map[string]string{"canary": "yes"}
		}
		if in.PatchAnnos {
			pm.Annotations = map[string]string{"note": "canary"}
		}
		release.Spec.ReleasePlan.PatchPodTemplateMetadata = pm
	}
	expectations.ResourceExpectations.DeleteExpectations(client.ObjectKeyFromObject(release).String())
	func() {
		defer func() {
			if p := recover(); p != nil {
				obs.Panic = fmt.Sprint(p)
			}
		}()
		var err error
		rec := record.NewFakeRecorder(100)
		st := &v1beta1.BatchReleaseStatus{}
		switch in.Kind {
		case "pdep":
			cp := partitionstyle.NewControlPlane(partdeployment.NewController, cli, rec, release, st, key, apps.SchemeGroupVersion.WithKind("Deployment"))
			if in.Op == "init" {
				err = cp.Initialize()
			} else {
				err = cp.Finalize()
			}
		default:
			cp := canarystyle.NewControlPlane(canarydeployment.NewController, cli, rec, release, st, key)
			if in.Op == "init" {
				err = cp.Initialize()
			} else {
				err = cp.Finalize()
			}
		}
		if err != nil {
			obs.Err = err.Error()
		}
	}()
	after := &apps.Deployment{}
	if err := base.Get(context.TODO(), key, after); err == nil {
		obs.Claimed = after.Annotations[util.BatchReleaseControlAnnotation] != ""
		obs.Paused = after.Spec.Paused
		obs.Recreate = after.Spec.Strategy.Type == apps.RecreateDeploymentStrategyType
		obs.StrategyAnno = after.Annotations[v1alpha1.DeploymentStrategyAnnotation] != ""
		obs.Label = after.Labels[v1alpha1.AdvancedDeploymentControlLabel] != ""
	}
	if in.Kind == "cdep" {
		l := &apps.DeploymentList{}
		_ = base.List(context.TODO(), l, client.InNamespace("ns"))
		var owned []apps.Deployment
		for _, x := range l.Items {
			if x.Name != "wl" {
				owned = append(owned, x)
			}
		}
		// the generated ones first (wl-c<i>), then anything created by this call
		sort.SliceStable(owned, func(i, j int) bool {
			gi, gj := len(owned[i].Name) >= 4 && owned[i].Name[:4] == "wl-c", len(owned[j].Name) >= 4 && owned[j].Name[:4] == "wl-c"
			if gi != gj {
				return gi
			}
			return owned[i].Name < owned[j].Name
		})
		obs.CreatedOK = true
		for _, x := range owned {
			has := false
			for _, f := range x.Finalizers {
				if f == util.CanaryDeploymentFinalizer {
					has = true
				}
			}
			obs.Canaries = append(obs.Canaries, has)
			if !(len(x.Name) >= 4 && x.Name[:4] == "wl-c") { // created now
				t := x.Spec.Template
				if in.PatchLabels && t.Labels["canary"] != "yes" {
					obs.CreatedOK = false
				}
				if in.PatchAnnos && t.Annotations["note"] != "canary" {
					obs.CreatedOK = false
				}
				if in.TemplateAnnos && t.Annotations["team"] != "a" {
					obs.CreatedOK = false
				}
				if t.Labels["app"] != "demo" || x.Spec.Replicas == nil || *x.Spec.Replicas != 0 {
					obs.CreatedOK = false
				}
			}
		}
	}
	return obs
}

func (ctlplaneEngine) Coq(inAny any, obsAny any) string {
	in, obs := inAny.(CPInput), obsAny.(CPObs)
	fault := "None"
	if in.FailVerb != "" && in.FailAt > 0 {
		v := map[string]string{"get": "VGet", "patch": "VPatch", "list": "VList", "update": "VUpdate", "create": "VCreate"}[in.FailVerb]
		fault = emit.Some("(" + v + ", " + fmt.Sprintf("%d%%nat", in.FailAt) + ")")
	}
	bools := func(l []bool) string { return emit.ListOf(l, emit.Bool) }
	var st string
	if in.Kind == "pdep" {
		st = emit.App("SPdep", emit.App("Build_pdep", emit.Bool(in.Claimed), emit.Bool(in.Paused), emit.Bool(in.Recreate), emit.Bool(in.StrategyAnno), emit.Bool(in.Label)))
	} else {
		st = emit.App("SCdep", emit.App("Build_cdep", emit.Bool(in.Claimed), emit.Bool(in.Paused), bools(in.Canaries),
			emit.App("Build_cstatus", emit.Z(int64(in.Replicas)), emit.Z(int64(in.Updated)), emit.Z(int64(in.Available)), emit.Z(int64(in.MaxUnavail)))))
	}
	op := "OpInit"
	if in.Op == "finalize" {
		op = "OpFinalize"
	}
	input := emit.App("Build_cp_in", op, emit.Bool(in.Partitioned), emit.Bool(in.WaitResume), fault, st, emit.Bool(in.StableGone))
	o := emit.App("Build_cp_obs", emit.Bool(obs.Panic != ""), emit.Bool(obs.Err != ""), emit.Bool(obs.Claimed), emit.Bool(obs.Paused), emit.Bool(obs.Recreate),
		emit.Bool(obs.StrategyAnno), emit.Bool(obs.Label), bools(obs.Canaries), emit.Bool(obs.CreatedOK))
	return emit.Pair(input, o)
}
