package engines

// noneed: rollback in batches on a partition-style CloneSet.  The control plane's UpgradeBatch first counts the pods that
// carry the no-need-update label OF THIS RELEASE (countAndUpdateNoNeedUpdateReplicas), then computes the batch context
// with that count and writes the partition.  Model: count in coq/Corr/NoNeed.v + coq/Model/BatchArith.v.

import (
	"context"
	"encoding/json"
	"fmt"
	"math/rand"

	kruiseappsv1alpha1 "github.com/openkruise/kruise-api/apps/v1alpha1"
	corev1 "k8s.io/api/core/v1"
	metav1 "k8s.io/apimachinery/pkg/apis/meta/v1"
	"k8s.io/apimachinery/pkg/types"
	"k8s.io/apimachinery/pkg/util/intstr"
	"k8s.io/client-go/tools/record"
	"k8s.io/utils/pointer"
	"sigs.k8s.io/controller-runtime/pkg/client"
	"sigs.k8s.io/controller-runtime/pkg/client/fake"

	"github.com/openkruise/rollouts/api/v1alpha1"
	"github.com/openkruise/rollouts/api/v1beta1"
	"github.com/openkruise/rollouts/pkg/controller/batchrelease/control/partitionstyle"
	partcloneset "github.com/openkruise/rollouts/pkg/controller/batchrelease/control/partitionstyle/cloneset"
	"github.com/openkruise/rollouts/pkg/util"

	"verifharness/emit"
)

type NNPod struct {
	Deleting bool   `json:"deleting,omitempty"`
	Revision string `json:"revision"`      // controller-revision-hash label
	NNU      string `json:"nnu,omitempty"` // no-need-update label value ("" = absent)
}
type NNInput struct {
	N       int     `json:"n"`
	Plan    []IOS   `json:"plan"`
	Cur     int     `json:"cur"`
	Knob    *IOS    `json:"knob,omitempty"`
	Prev    *int    `json:"prev,omitempty"` // status.canaryStatus.noNeedUpdateReplicas before the call (nil: not a rollback in batches)
	Pods    []NNPod `json:"pods"`
}
type NNObs struct {
	Panic     string `json:"panic,omitempty"`
	Err       string `json:"err,omitempty"`
	Count     *int   `json:"count,omitempty"` // noNeedUpdateReplicas after the call
	KnobAfter *IOS   `json:"knob_after,omitempty"`
}

type noneedEngine struct{}

func init() { Register(noneedEngine{}) }

func (noneedEngine) Name() string      { return "noneed" }
func (noneedEngine) CoqModule() string { return "Corr.NoNeed" }
func (noneedEngine) Decode(raw json.RawMessage) (any, error) {
	var in NNInput
	err := json.Unmarshal(raw, &in)
	return in, err
}

func (noneedEngine) Gen(r *rand.Rand, idx int, tier string) any {
	n := pick(r, 4, 6, 10, 10, 20)
	in := NNInput{N: n, Plan: genPlan(r, n)}
	in.Cur = r.Intn(len(in.Plan))
	mk := func(v IOS) *IOS { return &v }
	switch r.Intn(4) {
	case 0:
		in.Knob = mk(Pct(100))
	case 1:
		in.Knob = mk(Int(n))
	case 2:
		in.Knob = mk(Int(r.Intn(n + 1)))
	default:
		in.Knob = mk(Pct(r.Intn(101)))
	}
	if !chance(r, 15) {
		p := r.Intn(n + 1)
		in.Prev = &p
	}
	for i := 0; i < n; i++ {
		p := NNPod{Revision: pick(r, "v2", "v2", "v1"), Deleting: chance(r, 8)}
		switch r.Intn(5) {
		case 0, 1:
			p.NNU = "r1" // this release
		case 2:
			p.NNU = "r0" // left over from an earlier rollback
		}
		in.Pods = append(in.Pods, p)
	}
	return in
}

func (noneedEngine) Run(inAny any) (res any) {
	in := inAny.(NNInput)
	obs := NNObs{}
	defer func() {
		if p := recover(); p != nil {
			obs.Panic = fmt.Sprint(p)
			res = obs
		}
	}()
	key := types.NamespacedName{Namespace: "ns", Name: "wl"}
	n32 := int32(in.N)
	sel := &metav1.LabelSelector{MatchLabels: map[string]string{"app": "demo"}}
	cs := &kruiseappsv1alpha1.CloneSet{TypeMeta: metav1.TypeMeta{APIVersion: "apps.kruise.io/v1alpha1", Kind: "CloneSet"},
		ObjectMeta: metav1.ObjectMeta{Namespace: "ns", Name: "wl", UID: "wl-uid", Annotations: map[string]string{util.BatchReleaseControlAnnotation: controlInfo}},
		Spec:       kruiseappsv1alpha1.CloneSetSpec{Replicas: &n32, Selector: sel, Template: podTemplate()}}
	if in.Knob != nil {
		cs.Spec.UpdateStrategy.Partition = ptrIOS(in.Knob.K8s())
	}
	cs.Status = kruiseappsv1alpha1.CloneSetStatus{Replicas: n32, UpdateRevision: "rev-v2", CurrentRevision: "rev-v1"}
	objs := []client.Object{cs}
	for i, p := range in.Pods {
		pod := &corev1.Pod{ObjectMeta: metav1.ObjectMeta{Namespace: "ns", Name: fmt.Sprintf("pod-%d", i), UID: types.UID(fmt.Sprintf("pod-%d", i)),
			Labels: map[string]string{"app": "demo", "controller-revision-hash": p.Revision},
			OwnerReferences: []metav1.OwnerReference{{APIVersion: "apps.kruise.io/v1alpha1", Kind: "CloneSet", Name: "wl", UID: "wl-uid", Controller: pointer.Bool(true)}}},
			Status: corev1.PodStatus{Phase: corev1.PodRunning}}
		if p.NNU != "" {
			pod.Labels[util.NoNeedUpdatePodLabel] = p.NNU
		}
		if p.Deleting {
			now := metav1.Now()
			pod.DeletionTimestamp = &now
			pod.Finalizers = []string{"verif/hold"}
		}
		objs = append(objs, pod)
	}
	cli := fake.NewClientBuilder().WithScheme(FullScheme()).WithObjects(objs...).Build()
	release := &v1beta1.BatchRelease{TypeMeta: metav1.TypeMeta{APIVersion: "rollouts.kruise.io/v1beta1", Kind: "BatchRelease"},
		ObjectMeta: metav1.ObjectMeta{Namespace: "ns", Name: "br", UID: "br-uid", Annotations: map[string]string{v1alpha1.RollbackInBatchAnnotation: "true"}}}
	release.Spec.ReleasePlan.RolloutID = "r1"
	for _, b := range in.Plan {
		release.Spec.ReleasePlan.Batches = append(release.Spec.ReleasePlan.Batches, v1beta1.ReleaseBatch{CanaryReplicas: b.K8s()})
	}
	release.Status.CanaryStatus.CurrentBatch = int32(in.Cur)
	release.Status.UpdateRevision = "rev-v2"
	if in.Prev != nil {
		release.Status.CanaryStatus.NoNeedUpdateReplicas = pointer.Int32(int32(*in.Prev))
	}
	st := release.Status.DeepCopy()
	cp := partitionstyle.NewControlPlane(partcloneset.NewController, cli, record.NewFakeRecorder(100), release, st, key, schemaGVK("CloneSet"))
	if err := cp.UpgradeBatch(); err != nil {
		obs.Err = err.Error()
	}
	if st.CanaryStatus.NoNeedUpdateReplicas != nil {
		v := int(*st.CanaryStatus.NoNeedUpdateReplicas)
		obs.Count = &v
	}
	after := &kruiseappsv1alpha1.CloneSet{}
	if err := cli.Get(context.TODO(), key, after); err == nil && after.Spec.UpdateStrategy.Partition != nil {
		v := IOSFrom(*after.Spec.UpdateStrategy.Partition)
		obs.KnobAfter = &v
	}
	_ = intstr.FromInt
	return obs
}

func (noneedEngine) Coq(inAny any, obsAny any) string {
	in, obs := inAny.(NNInput), obsAny.(NNObs)
	optZ := func(p *int) string {
		if p == nil {
			return "None"
		}
		return emit.Some(emit.Z(int64(*p)))
	}
	pods := emit.ListOf(in.Pods, func(p NNPod) string {
		return emit.App("Build_nnpod", emit.Bool(p.Deleting), emit.Str(p.Revision), emit.Str(p.NNU))
	})
	input := emit.App("Build_nn_in", emit.Z(int64(in.N)), emit.ListOf(in.Plan, IOS.Coq), emit.Z(int64(in.Cur)), optIOS(in.Knob), optZ(in.Prev), pods)
	o := emit.App("Build_nn_obs", emit.Bool(obs.Panic != ""), emit.Bool(obs.Err != ""), optZ(obs.Count), optIOS(obs.KnobAfter))
	return emit.Pair(input, o)
}
