package engines

import (
	"context"
	"encoding/json"
	"fmt"
	"math/rand"
	"sort"
	"strings"

	lua "github.com/yuin/gopher-lua"
	corev1 "k8s.io/api/core/v1"
	metav1 "k8s.io/apimachinery/pkg/apis/meta/v1"
	"k8s.io/apimachinery/pkg/apis/meta/v1/unstructured"
	"k8s.io/apimachinery/pkg/runtime"
	"k8s.io/apimachinery/pkg/types"
	"k8s.io/apimachinery/pkg/util/intstr"
	"sigs.k8s.io/controller-runtime/pkg/client"
	"sigs.k8s.io/controller-runtime/pkg/client/fake"
	gatewayv1beta1 "sigs.k8s.io/gateway-api/apis/v1beta1"

	"github.com/openkruise/rollouts/api/v1beta1"
	custom "github.com/openkruise/rollouts/pkg/trafficrouting/network/customNetworkProvider"
	"github.com/openkruise/rollouts/pkg/util"
	"github.com/openkruise/rollouts/pkg/util/luamanager"

	"verifharness/emit"
)

// CNRef is one referenced custom resource.
type CNRef struct {
	APIVersion string            `json:"api_version"`
	Kind       string            `json:"kind"`
	Name       string            `json:"name"`
	Missing    bool              `json:"missing,omitempty"`
	Spec       any               `json:"spec"`             // nil = no spec
	Labels     map[string]string `json:"labels,omitempty"` // nil / empty distinguished by LabelsSet
	LabelsSet  bool              `json:"labels_set,omitempty"`
	Annos      map[string]string `json:"annos,omitempty"`
	AnnosSet   bool              `json:"annos_set,omitempty"`
	Snapshot   *string           `json:"snapshot,omitempty"` // pre-existing snapshot annotation (only "" is generated)
	Script     string            `json:"script,omitempty"`   // ConfigMap script for kinds without a built-in one
}

type CNOp struct {
	Kind     string `json:"kind"` // ensure | finalise
	Strategy int    `json:"strategy,omitempty"`
}

type CNStrategy struct {
	Traffic  *string                  `json:"traffic,omitempty"`
	Matches  []v1beta1.HttpRouteMatch `json:"matches,omitempty"`
	Modifier bool                     `json:"modifier,omitempty"`
}

type CNInput struct {
	Refs       []CNRef      `json:"refs"`
	Strategies []CNStrategy `json:"strategies"`
	Ops        []CNOp       `json:"ops"`
	Stable     string       `json:"stable"`
	Canary     string       `json:"canary"`
}

type CNObj struct {
	Missing bool              `json:"missing,omitempty"`
	Spec    *string           `json:"spec"` // canonical JSON
	Labels  map[string]string `json:"labels"`
	HasL    bool              `json:"has_l"`
	Annos   map[string]string `json:"annos"`
	HasA    bool              `json:"has_a"`
	Snap    *string           `json:"snap"` // raw snapshot annotation
}

type CNStep struct {
	Panic  string  `json:"panic,omitempty"`
	Err    string  `json:"err,omitempty"`
	Flag   bool    `json:"flag"`
	Writes int     `json:"writes"`
	Objs   []CNObj `json:"objs"`
}

// CNOracle is one independent evaluation of a reference's script: (ref, stored data, strategy) -> result.
type CNOracle struct {
	Ref      int          `json:"ref"`
	Data     custom.Data  `json:"data"`
	Strategy int          `json:"strategy"`
	OK       bool         `json:"ok"`
	Result   *custom.Data `json:"result,omitempty"`
}

type CNObs struct {
	Initial []CNObj    `json:"initial"`
	Steps   []CNStep   `json:"steps"`
	Oracle  []CNOracle `json:"oracle"`
}

type customEngine struct{}

func init() { Register(customEngine{}) }

func (customEngine) Name() string      { return "custom" }
func (customEngine) CoqModule() string { return "Corr.CustomNet" }
func (customEngine) Decode(raw json.RawMessage) (any, error) {
	var in CNInput
	err := json.Unmarshal(raw, &in)
	return in, err
}

type updateCounter struct {
	client.Client
	n int
}

func (c *updateCounter) Update(ctx context.Context, obj client.Object, opts ...client.UpdateOption) error {
	c.n++
	return c.Client.Update(ctx, obj, opts...)
}

func canonJSON(v any) string {
	by, _ := json.Marshal(v)
	var g any
	_ = json.Unmarshal(by, &g)
	out, _ := json.Marshal(g)
	return string(out)
}

func cnProject(cli client.Client, ref CNRef) CNObj {
	u := &unstructured.Unstructured{}
	u.SetAPIVersion(ref.APIVersion)
	u.SetKind(ref.Kind)
	if err := cli.Get(context.TODO(), types.NamespacedName{Namespace: "ns", Name: ref.Name}, u); err != nil {
		return CNObj{Missing: true}
	}
	o := CNObj{}
	if s, ok := u.Object["spec"]; ok && s != nil {
		c := canonJSON(s)
		o.Spec = &c
	}
	if m, ok, _ := unstructured.NestedMap(u.Object, "metadata", "labels"); ok && m != nil {
		o.HasL = true
		o.Labels = u.GetLabels()
	}
	if m, ok, _ := unstructured.NestedMap(u.Object, "metadata", "annotations"); ok && m != nil {
		o.HasA = true
		o.Annos = map[string]string{}
		for k, v := range u.GetAnnotations() {
			if k == custom.OriginalSpecAnnotation {
				vv := v
				o.Snap = &vv
			} else {
				o.Annos[k] = v
			}
		}
	}
	return o
}

func cnStrategy(s CNStrategy) *v1beta1.TrafficRoutingStrategy {
	st := &v1beta1.TrafficRoutingStrategy{Traffic: s.Traffic, Matches: s.Matches}
	if s.Modifier {
		st.RequestHeaderModifier = &gatewayv1beta1.HTTPHeaderFilter{Set: []gatewayv1beta1.HTTPHeader{{Name: "x-canary", Value: "1"}}}
	}
	return st
}

func cnScriptFor(ref CNRef) string {
	group := strings.Split(ref.APIVersion, "/")[0]
	if s := util.GetLuaConfigurationContent(fmt.Sprintf("lua_configuration/%s/%s/trafficRouting.lua", group, ref.Kind)); s != "" {
		return s
	}
	return ref.Script
}

// cnOracle evaluates the script of a reference on a stored Data the way the provider is documented to:
// weight = traffic percent (or -1), stable = 100 - weight, the JSON form of LuaData as the global `obj`.
func cnOracle(in CNInput, ref CNRef, d custom.Data, s CNStrategy) (res *custom.Data, ok bool) {
	defer func() {
		if recover() != nil {
			res, ok = nil, false
		}
	}()
	st := cnStrategy(s)
	weight := int32(-1)
	if st.Traffic != nil {
		is := intstr.FromString(*st.Traffic)
		w, _ := intstr.GetScaledValueFromIntOrPercent(&is, 100, true)
		weight = int32(w)
	}
	ld := &custom.LuaData{Data: d, CanaryWeight: weight, StableWeight: 100 - weight, Matches: st.Matches,
		CanaryService: in.Canary, StableService: in.Stable, RequestHeaderModifier: st.RequestHeaderModifier}
	un, err := runtime.DefaultUnstructuredConverter.ToUnstructured(ld)
	if err != nil {
		return nil, false
	}
	m := &luamanager.LuaManager{}
	l, err := m.RunLuaScript(&unstructured.Unstructured{Object: un}, cnScriptFor(ref))
	if err != nil {
		return nil, false
	}
	rv := l.Get(-1)
	if rv.Type() != lua.LTTable {
		return nil, false
	}
	by, err := luamanager.Encode(rv)
	if err != nil {
		return nil, false
	}
	var out custom.Data
	if err := json.Unmarshal(by, &out); err != nil {
		return nil, false
	}
	return &out, true
}

func (customEngine) Run(inAny any) (out any) {
	in := inAny.(CNInput)
	obs := CNObs{}
	scheme := runtime.NewScheme()
	_ = corev1.AddToScheme(scheme)
	var objs []client.Object
	cm := &corev1.ConfigMap{ObjectMeta: metav1.ObjectMeta{Namespace: util.GetRolloutNamespace(), Name: custom.LuaConfigMap}, Data: map[string]string{}}
	var conf []v1beta1.ObjectRef
	for _, ref := range in.Refs {
		conf = append(conf, v1beta1.ObjectRef{APIVersion: ref.APIVersion, Kind: ref.Kind, Name: ref.Name})
		group := strings.Split(ref.APIVersion, "/")[0]
		if ref.Script != "" {
			cm.Data[fmt.Sprintf("lua.traffic.routing.%s.%s", ref.Kind, group)] = ref.Script
		}
		if ref.Missing {
			continue
		}
		u := &unstructured.Unstructured{Object: map[string]any{}}
		u.SetAPIVersion(ref.APIVersion)
		u.SetKind(ref.Kind)
		u.SetNamespace("ns")
		u.SetName(ref.Name)
		if ref.Spec != nil {
			var g any
			by, _ := json.Marshal(ref.Spec)
			_ = json.Unmarshal(by, &g)
			u.Object["spec"] = runtime.DeepCopyJSONValue(intify(g))
		}
		if ref.LabelsSet {
			l := map[string]any{}
			for k, v := range ref.Labels {
				l[k] = v
			}
			_ = unstructured.SetNestedMap(u.Object, l, "metadata", "labels")
		}
		if ref.AnnosSet || ref.Snapshot != nil {
			a := map[string]any{}
			for k, v := range ref.Annos {
				a[k] = v
			}
			if ref.Snapshot != nil {
				a[custom.OriginalSpecAnnotation] = *ref.Snapshot
			}
			_ = unstructured.SetNestedMap(u.Object, a, "metadata", "annotations")
		}
		objs = append(objs, u)
	}
	objs = append(objs, cm)
	base := fake.NewClientBuilder().WithScheme(scheme).WithObjects(objs...).Build()
	cli := &updateCounter{Client: base}
	project := func() []CNObj {
		var l []CNObj
		for _, ref := range in.Refs {
			l = append(l, cnProject(base, ref))
		}
		return l
	}
	obs.Initial = project()
	seen := map[string]bool{}
	for _, op := range in.Ops {
		step := CNStep{}
		func() {
			defer func() {
				if p := recover(); p != nil {
					step.Panic = fmt.Sprint(p)
				}
			}()
			ctrl, err := custom.NewCustomController(cli, custom.Config{Key: "ns/ro", RolloutNs: "ns", CanaryService: in.Canary, StableService: in.Stable, TrafficConf: conf})
			if err != nil {
				step.Err = err.Error()
				return
			}
			cli.n = 0
			if op.Kind == "ensure" {
				flag, err := ctrl.EnsureRoutes(context.TODO(), cnStrategy(in.Strategies[op.Strategy]))
				step.Flag = flag
				if err != nil {
					step.Err = err.Error()
				}
			} else {
				flag, err := ctrl.Finalise(context.TODO())
				step.Flag = flag
				if err != nil {
					step.Err = err.Error()
				}
			}
			step.Writes = cli.n
		}()
		step.Objs = project()
		obs.Steps = append(obs.Steps, step)
		if op.Kind == "ensure" {
			// independent evaluation of every script on whatever is stored now
			for i, o := range step.Objs {
				if o.Missing || o.Snap == nil || *o.Snap == "" {
					continue
				}
				var d custom.Data
				_ = json.Unmarshal([]byte(*o.Snap), &d)
				key := fmt.Sprintf("%d/%s/%d", i, *o.Snap, op.Strategy)
				if seen[key] {
					continue
				}
				seen[key] = true
				res, ok := cnOracle(in, in.Refs[i], d, in.Strategies[op.Strategy])
				obs.Oracle = append(obs.Oracle, CNOracle{Ref: i, Data: d, Strategy: op.Strategy, OK: ok, Result: res})
			}
		}
	}
	return obs
}

// intify turns float64 values that are whole numbers into int64, as the API machinery's JSON decoder does.
func intify(v any) any {
	switch t := v.(type) {
	case float64:
		if t == float64(int64(t)) {
			return int64(t)
		}
		return t
	case map[string]any:
		for k, x := range t {
			t[k] = intify(x)
		}
		return t
	case []any:
		for i := range t {
			t[i] = intify(t[i])
		}
		return t
	}
	return v
}

func coqSMap(m map[string]string) string {
	var ks []string
	for k := range m {
		ks = append(ks, k)
	}
	sort.Strings(ks)
	return emit.ListOf(ks, func(k string) string { return emit.Pair(emit.Str(k), emit.Str(m[k])) })
}

func coqOMap(m map[string]string, present bool) string {
	if !present {
		return "None"
	}
	return emit.Some(coqSMap(m))
}

func coqOptStr(s *string) string {
	if s == nil {
		return "None"
	}
	return emit.Some(emit.Str(*s))
}

func coqData(d custom.Data) string {
	var spec *string
	if d.Spec != nil {
		c := canonJSON(d.Spec)
		spec = &c
	}
	return emit.App("Build_data", coqOptStr(spec), coqOMap(d.Labels, d.Labels != nil), coqOMap(d.Annotations, d.Annotations != nil))
}

func coqCNObj(o CNObj) string {
	if o.Missing {
		return "None"
	}
	snap := "SAbsent"
	if o.Snap != nil {
		if *o.Snap == "" {
			snap = "SEmpty"
		} else {
			var d custom.Data
			if err := json.Unmarshal([]byte(*o.Snap), &d); err != nil {
				snap = "SEmpty"
			} else {
				snap = emit.App("SData", coqData(d))
			}
		}
	}
	return emit.Some(emit.App("Build_obj", coqOptStr(o.Spec), coqOMap(o.Labels, o.HasL), coqOMap(o.Annos, o.HasA), snap))
}

func (customEngine) Coq(inAny any, obsAny any) string {
	in, obs := inAny.(CNInput), obsAny.(CNObs)
	ops := emit.ListOf(in.Ops, func(o CNOp) string {
		if o.Kind == "ensure" {
			return emit.App("OEnsure", emit.Z(int64(o.Strategy)))
		}
		return "(@OFinalise Z)"
	})
	steps := emit.ListOf(obs.Steps, func(s CNStep) string {
		res := "RErr"
		switch {
		case s.Panic != "":
			res = "RPanic"
		case s.Err == "":
			res = emit.App("RFlag", emit.Bool(s.Flag))
		}
		return emit.App("Build_cstep", res, emit.Z(int64(s.Writes)), emit.ListOf(s.Objs, coqCNObj))
	})
	oracle := emit.ListOf(obs.Oracle, func(o CNOracle) string {
		res := "None"
		if o.OK && o.Result != nil {
			res = emit.Some(coqData(*o.Result))
		}
		return emit.App("Build_oentry", emit.Z(int64(o.Ref)), coqData(o.Data), emit.Z(int64(o.Strategy)), res)
	})
	return emit.App("Build_ccase", emit.ListOf(obs.Initial, coqCNObj), ops, steps, oracle)
}

var cnStatements = []string{
	`d.spec.weight = obj.canaryWeight`,
	`d.spec.stable = obj.stableWeight`,
	`if d.labels == nil then d.labels = {} end
d.labels["canary"] = "on"`,
	`if d.annotations == nil then d.annotations = {} end
d.annotations["step-weight"] = tostring(obj.canaryWeight)`,
	`d.spec.routes = d.spec.routes or {}
table.insert(d.spec.routes, {host = obj.canaryService, weight = obj.canaryWeight})`,
	`if obj.matches and next(obj.matches) ~= nil then d.spec.matchCount = #obj.matches end`,
	`d.labels = nil`,
	`d.annotations = nil`,
	`if obj.canaryWeight == 37 then error("boom") end`,
	`d.spec = {hosts = {obj.stableService, obj.canaryService}}`,
	`if d.spec == nil then d.spec = {} end`,
	`if obj.requestHeaderModifier then d.spec.modifier = "set" end`,
}

func genCNScript(r *rand.Rand) string {
	var b strings.Builder
	b.WriteString("local d = obj.data\n")
	if chance(r, 70) {
		b.WriteString("if d.spec == nil then d.spec = {} end\n")
	}
	n := 1 + r.Intn(4)
	for i := 0; i < n; i++ {
		b.WriteString(cnStatements[r.Intn(len(cnStatements))] + "\n")
	}
	switch r.Intn(20) {
	case 0:
		b.WriteString("return 5\n")
	case 1:
		b.WriteString("return \"text\"\n")
	case 2:
		b.WriteString("return {spec = d.spec}\n")
	default:
		b.WriteString("return d\n")
	}
	return b.String()
}

func genJSONValue(r *rand.Rand, depth int) any {
	if depth <= 0 || chance(r, 35) {
		switch r.Intn(6) {
		case 0:
			return pick(r, "a", "svc", "x.y", "")
		case 1:
			return r.Intn(200)
		case 2:
			return chance(r, 50)
		case 3:
			return float64(r.Intn(100)) + 0.5
		case 4:
			return -r.Intn(50)
		default:
			return pick(r, "v1", "stable")
		}
	}
	if chance(r, 45) {
		n := 1 + r.Intn(3)
		var l []any
		for i := 0; i < n; i++ {
			l = append(l, genJSONValue(r, depth-1))
		}
		return l
	}
	m := map[string]any{}
	n := 1 + r.Intn(3)
	for i := 0; i < n; i++ {
		m[pick(r, "host", "weight", "routes", "name", "port", "tags", "nested")] = genJSONValue(r, depth-1)
	}
	return m
}

func genVSSpec(r *rand.Rand, stable string) any {
	var rules []any
	n := 1 + r.Intn(3)
	for i := 0; i < n; i++ {
		rule := map[string]any{}
		if chance(r, 25) {
			rule["match"] = []any{map[string]any{"uri": map[string]any{"prefix": "/api"}}}
		}
		var routes []any
		k := 1
		if chance(r, 25) {
			k = 2
		}
		for j := 0; j < k; j++ {
			host := stable
			if chance(r, 30) {
				host = pick(r, "other", "other.ns.svc.cluster.local", stable+".ns.svc.cluster.local")
			}
			rt := map[string]any{"destination": map[string]any{"host": host}}
			if k == 2 {
				rt["weight"] = 50
			} else if chance(r, 40) {
				rt["weight"] = 100
			}
			routes = append(routes, rt)
		}
		rule["route"] = routes
		rules = append(rules, rule)
	}
	return map[string]any{"hosts": []any{"demo.example.com"}, "http": rules}
}

func (customEngine) Gen(r *rand.Rand, idx int, tier string) any {
	in := CNInput{Stable: "svc", Canary: "svc-canary"}
	if chance(r, 15) {
		in.Canary = in.Stable
	}
	nref := pick(r, 1, 1, 1, 2, 2, 3)
	for i := 0; i < nref; i++ {
		ref := CNRef{Name: fmt.Sprintf("res-%d", i)}
		switch r.Intn(5) {
		case 0:
			ref.APIVersion, ref.Kind = "networking.istio.io/v1alpha3", "VirtualService"
			ref.Spec = genVSSpec(r, in.Stable)
		case 1:
			ref.APIVersion, ref.Kind = "networking.istio.io/v1alpha3", "DestinationRule"
			ref.Spec = map[string]any{"host": in.Stable, "subsets": []any{map[string]any{"name": "stable", "labels": map[string]any{"v": "1"}}}}
			if chance(r, 15) {
				ref.Spec = map[string]any{"host": in.Stable}
			}
		default:
			ref.APIVersion, ref.Kind = "example.io/v1", pick(r, "Foo", "Bar")
			ref.Script = genCNScript(r)
			if chance(r, 88) {
				ref.Spec = genJSONValue(r, 3)
				if _, ok := ref.Spec.(map[string]any); !ok && chance(r, 80) {
					ref.Spec = map[string]any{"value": ref.Spec}
				}
			}
		}
		switch r.Intn(4) {
		case 0:
		case 1:
			ref.LabelsSet = true
			ref.Labels = map[string]string{}
		default:
			ref.LabelsSet = true
			ref.Labels = map[string]string{"app": "demo"}
			if chance(r, 40) {
				ref.Labels["team"] = "a"
			}
		}
		switch r.Intn(4) {
		case 0:
		case 1:
			ref.AnnosSet = true
			ref.Annos = map[string]string{}
		default:
			ref.AnnosSet = true
			ref.Annos = map[string]string{"owner": "me"}
		}
		if chance(r, 4) {
			ref.Missing = true
		}
		if chance(r, 3) {
			e := ""
			ref.Snapshot = &e
		}
		in.Refs = append(in.Refs, ref)
	}
	// same kind twice shares the ConfigMap script
	for i := range in.Refs {
		for j := 0; j < i; j++ {
			if in.Refs[i].Kind == in.Refs[j].Kind && in.Refs[i].APIVersion == in.Refs[j].APIVersion {
				in.Refs[i].Script = in.Refs[j].Script
			}
		}
	}
	// resources of different kinds are free to carry the same name (a VirtualService and a DestinationRule "web")
	if len(in.Refs) >= 2 && chance(r, 45) {
		for i := 1; i < len(in.Refs); i++ {
			clash := false
			for j := 0; j < i; j++ {
				if in.Refs[j].Name == in.Refs[0].Name && in.Refs[i].Kind == in.Refs[j].Kind && in.Refs[i].APIVersion == in.Refs[j].APIVersion {
					clash = true
				}
			}
			if !clash {
				in.Refs[i].Name = in.Refs[0].Name
			}
		}
	}
	ns := 1 + r.Intn(3)
	for i := 0; i < ns; i++ {
		s := CNStrategy{}
		switch r.Intn(6) {
		case 0:
			s.Matches = []v1beta1.HttpRouteMatch{{Headers: genHeaderMatches(r, 1+r.Intn(2), []string{"user", "ver"})}}
			s.Modifier = chance(r, 30)
		case 1:
			w := "37"
			s.Traffic = &w
		default:
			w := fmt.Sprint(pick(r, 0, 5, 10, 20, 50, 80, 100))
			if chance(r, 30) {
				w += "%"
			}
			s.Traffic = &w
		}
		in.Strategies = append(in.Strategies, s)
	}
	nops := 1 + r.Intn(6)
	for i := 0; i < nops; i++ {
		if chance(r, 22) {
			in.Ops = append(in.Ops, CNOp{Kind: "finalise"})
		} else {
			op := CNOp{Kind: "ensure", Strategy: r.Intn(ns)}
			if i > 0 && in.Ops[i-1].Kind == "ensure" && chance(r, 35) {
				op.Strategy = in.Ops[i-1].Strategy
			}
			in.Ops = append(in.Ops, op)
		}
	}
	if chance(r, 60) {
		in.Ops = append(in.Ops, CNOp{Kind: "finalise"})
	}
	return in
}
