package engines

import (
	kruiseappsv1alpha1 "github.com/openkruise/kruise-api/apps/v1alpha1"
	kruiseappsv1beta1 "github.com/openkruise/kruise-api/apps/v1beta1"
	"k8s.io/apimachinery/pkg/runtime"
	clientgoscheme "k8s.io/client-go/kubernetes/scheme"
	gatewayv1beta1 "sigs.k8s.io/gateway-api/apis/v1beta1"

	rolloutsv1alpha1 "github.com/openkruise/rollouts/api/v1alpha1"
	rolloutsv1beta1 "github.com/openkruise/rollouts/api/v1beta1"
)

// FullScheme has every type the controllers of /repo touch.
func FullScheme() *runtime.Scheme {
	s := runtime.NewScheme()
	_ = clientgoscheme.AddToScheme(s)
	_ = kruiseappsv1alpha1.AddToScheme(s)
	_ = kruiseappsv1beta1.AddToScheme(s)
	_ = rolloutsv1alpha1.AddToScheme(s)
	_ = rolloutsv1beta1.AddToScheme(s)
	_ = gatewayv1beta1.AddToScheme(s)
	return s
}
