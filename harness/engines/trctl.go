package engines

import (
	"context"
	"encoding/json"
	"fmt"
	"math/rand"
	"sort"
	"strings"
	"time"

	metav1 "k8s.io/apimachinery/pkg/apis/meta/v1"
	"k8s.io/apimachinery/pkg/types"
	"k8s.io/client-go/tools/record"
	ctrl "sigs.k8s.io/controller-runtime"
	"sigs.k8s.io/controller-runtime/pkg/client"
	"sigs.k8s.io/controller-runtime/pkg/client/fake"

	"github.com/openkruise/rollouts/api/v1alpha1"
	trctl "github.com/openkruise/rollouts/pkg/controller/trafficrouting"
	"github.com/openkruise/rollouts/pkg/util"
	"github.com/openkruise/rollouts/pkg/util/grace"

	"verifharness/emit"
)

type TCInput struct {
	Phase       string      `json:"phase"`
	Deleting    bool        `json:"deleting,omitempty"`
	OwnFin      bool        `json:"own_fin"`
	Progressing bool        `json:"progressing,omitempty"`
	Strategy    TMStrategy  `json:"strategy"`
	ZeroGrace   bool        `json:"zero_grace,omitempty"`
	Fail        bool        `json:"fail,omitempty"`
	Net         TMNet       `json:"net"`
	Pending     []TRPending `json:"pending,omitempty"`
}

type TCObs struct {
	Panic   string   `json:"panic,omitempty"`
	Err     string   `json:"err,omitempty"`
	Gone    bool     `json:"gone"`
	Phase   string   `json:"phase"`
	OwnFin  bool     `json:"own_fin"`
	Requeue bool     `json:"requeue"`
	Writes  []string `json:"writes"`
	Net     TMNet    `json:"net"`
	Pending []string `json:"pending"`
}

type trctlEngine struct{}

func init() { Register(trctlEngine{}) }

func (trctlEngine) Name() string      { return "trctl" }
func (trctlEngine) CoqModule() string { return "Corr.TRCtl" }
func (trctlEngine) Decode(raw json.RawMessage) (any, error) {
	var in TCInput
	err := json.Unmarshal(raw, &in)
	return in, err
}

func (trctlEngine) Run(inAny any) (out any) {
	in := inAny.(TCInput)
	obs := TCObs{}
	tr := &v1alpha1.TrafficRouting{ObjectMeta: metav1.ObjectMeta{Namespace: "ns", Name: "tr", UID: "ro-uid", Generation: 2}}
	g := 3
	if in.ZeroGrace {
		g = 0
	}
	tr.Spec.ObjectRef = []v1alpha1.TrafficRoutingRef{{Service: "svc", GracePeriodSeconds: int32(g), Ingress: &v1alpha1.IngressTrafficRouting{Name: "web"}}}
	st := tmStrategy(in.Strategy)
	if st.Traffic != nil {
		w := 0
		fmt.Sscanf(*st.Traffic, "%d%%", &w)
		w32 := int32(w)
		tr.Spec.Strategy.Weight = &w32
	}
	tr.Spec.Strategy.Matches = nil
	for _, m := range st.Matches {
		tr.Spec.Strategy.Matches = append(tr.Spec.Strategy.Matches, v1alpha1.HttpRouteMatch{Headers: m.Headers})
	}
	tr.Status.Phase = v1alpha1.TrafficRoutingPhase(in.Phase)
	if in.OwnFin {
		tr.Finalizers = append(tr.Finalizers, util.TrafficRoutingFinalizer)
	}
	if in.Progressing {
		tr.Finalizers = append(tr.Finalizers, util.ProgressingRolloutFinalizer("ro"))
	}
	if in.Deleting {
		if len(tr.Finalizers) == 0 {
			tr.Finalizers = []string{"verif/hold"}
		}
		now := metav1.Now()
		tr.DeletionTimestamp = &now
	}
	objs := append([]client.Object{tr}, tmObjects(in.Net)...)
	grace.ResetExpectations()
	for _, p := range in.Pending {
		if p.Elapsed {
			grace.DefaultGraceExpectations.Expect(graceKeys[p.Action], grace.Action(p.Action))
		}
	}
	grace.VerifAge(time.Hour)
	for _, p := range in.Pending {
		if !p.Elapsed {
			grace.DefaultGraceExpectations.Expect(graceKeys[p.Action], grace.Action(p.Action))
		}
	}
	base := fake.NewClientBuilder().WithScheme(FullScheme()).WithObjects(objs...).Build()
	wl := &writeLog{Client: base, failIngress: in.Fail}
	rec := trctl.VerifNewReconciler(wl, FullScheme(), record.NewFakeRecorder(1000))
	var result ctrl.Result
	func() {
		defer func() {
			if p := recover(); p != nil {
				obs.Panic = fmt.Sprint(p)
			}
		}()
		var err error
		result, err = rec.Reconcile(context.TODO(), ctrl.Request{NamespacedName: types.NamespacedName{Namespace: "ns", Name: "tr"}})
		if err != nil {
			obs.Err = err.Error()
		}
	}()
	obs.Requeue = result.RequeueAfter > 0 || result.Requeue
	after := &v1alpha1.TrafficRouting{}
	if err := base.Get(context.TODO(), types.NamespacedName{Namespace: "ns", Name: "tr"}, after); err != nil {
		obs.Gone = true
	} else {
		obs.Phase = string(after.Status.Phase)
		for _, f := range after.Finalizers {
			if f == util.TrafficRoutingFinalizer {
				obs.OwnFin = true
			}
		}
	}
	for _, w := range wl.log {
		if strings.Contains(w, " Service ") || strings.Contains(w, " Ingress ") {
			obs.Writes = append(obs.Writes, w)
		}
	}
	obs.Net = tmProject(base)
	for _, p := range grace.VerifPending() {
		obs.Pending = append(obs.Pending, p[strings.LastIndex(p, "/")+1:])
	}
	sort.Strings(obs.Pending)
	grace.ResetExpectations()
	return obs
}

func coqTPhase(s string) string {
	m := map[string]string{"": "TpEmpty", "Initial": "TpInitial", "Healthy": "TpHealthy", "Progressing": "TpProgressing", "Finalizing": "TpFinalizing", "Terminating": "TpTerminating"}
	if v, ok := m[s]; ok {
		return v
	}
	return "TpUnknown"
}

func (trctlEngine) Coq(inAny any, obsAny any) string {
	in, obs := inAny.(TCInput), obsAny.(TCObs)
	o := emit.App("Build_trobj", coqTPhase(in.Phase), emit.Bool(in.Deleting), emit.Bool(in.OwnFin), emit.Bool(in.Progressing), coqTMStrategy(in.Strategy), emit.Bool(in.ZeroGrace), emit.Bool(in.Fail))
	pend := emit.ListOf(in.Pending, func(p TRPending) string { return emit.Pair(tmActionNames[p.Action], emit.Bool(p.Elapsed)) })
	opend := emit.ListOf(obs.Pending, func(p string) string { return tmActionNames[p] })
	return emit.App("Build_tccase", o, coqTMNet(in.Net), pend, emit.Bool(obs.Panic != ""), emit.Bool(obs.Err != ""), emit.Bool(obs.Gone), coqTPhase(obs.Phase), emit.Bool(obs.OwnFin),
		emit.Bool(obs.Requeue), emit.ListOf(obs.Writes, emit.Str), coqTMNet(obs.Net), opend, emit.Bool(in.Progressing || (in.Deleting && !in.OwnFin)))
}

func (trctlEngine) Gen(r *rand.Rand, idx int, tier string) any {
	in := TCInput{Phase: pick(r, "", "Initial", "Healthy", "Progressing", "Progressing", "Finalizing", "Finalizing", "Terminating"), OwnFin: !chance(r, 15), Progressing: chance(r, 45),
		ZeroGrace: chance(r, 20), Fail: chance(r, 12)}
	in.Deleting = chance(r, 35)
	if in.Deleting && chance(r, 60) {
		in.Phase = pick(r, "Terminating", "Progressing", "Healthy", "Finalizing")
	}
	in.Strategy = genTMStrategy(r)
	if in.Strategy.Weight == nil && in.Strategy.Match == "" && !chance(r, 35) {
		// (an empty strategy -- `strategy: {}` passes the CRD -- is kept in a third of the cases it is drawn)
		w := 20
		in.Strategy.Weight = &w
	}
	in.Net.StableExists = !chance(r, 5)
	if chance(r, 55) {
		s := in.Strategy
		if chance(r, 40) {
			s = genTMStrategy(r)
			if s.Weight == nil && s.Match == "" {
				z := 0
				s.Weight = &z
			}
		}
		in.Net.Route = &s
	}
	for _, a := range []string{"restoreGateway", "restoreService"} {
		if chance(r, 20) {
			in.Pending = append(in.Pending, TRPending{Action: a, Elapsed: chance(r, 50)})
		}
	}
	return in
}
