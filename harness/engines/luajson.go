package engines

import (
	"encoding/json"
	"fmt"
	"math/rand"
	"os"
	"path/filepath"
	"sort"
	"strings"
	"time"

	lua "github.com/yuin/gopher-lua"
	"k8s.io/apimachinery/pkg/apis/meta/v1/unstructured"

	"github.com/openkruise/rollouts/pkg/util/luamanager"

	"verifharness/emit"
)

// LJTable describes a Lua table to build through the same entry points the VM uses (RawSet).
type LJVal struct {
	T    string  `json:"t"` // nil | bool | num | str | fun | tab
	B    bool    `json:"b,omitempty"`
	N    int64   `json:"n,omitempty"`
	S    string  `json:"s,omitempty"`
	Arr  []LJVal `json:"arr,omitempty"`  // array part, nil entries are holes
	Hash []LJKV  `json:"hash,omitempty"` // in insertion order; string keys sorted by the generator
}

type LJKV struct {
	KT string `json:"kt"` // str | num | bool
	KS string `json:"ks,omitempty"`
	KN int64  `json:"kn,omitempty"` // < 1 (integer keys >= 1 live in the array part)
	KB bool   `json:"kb,omitempty"`
	V  LJVal  `json:"v"`
}

type LJInput struct {
	Kind   string `json:"kind"` // round | table | surface | hostile | fresh (Script = the victim, Name = the tampering script)
	Value  any    `json:"value,omitempty"`
	Floats bool   `json:"floats,omitempty"` // numbers handed over as float64 instead of int64
	Table  *LJVal `json:"table,omitempty"`
	Script string `json:"script,omitempty"`
	Name   string `json:"name,omitempty"`
}

type LJObs struct {
	Panic   string          `json:"panic,omitempty"`
	OK      bool            `json:"ok"`
	JSON    json.RawMessage `json:"json,omitempty"`
	Err     string          `json:"err,omitempty"`
	Names   []string        `json:"names,omitempty"`
	Probes  map[string]bool `json:"probes,omitempty"`
	Millis  int64           `json:"millis,omitempty"`
	Outcome string          `json:"outcome,omitempty"` // table | error | other | panic
	Before  string          `json:"before,omitempty"`  // fresh: the victim's result before / after the tampering script ran
	After   string          `json:"after,omitempty"`
	Leak    bool            `json:"leak,omitempty"` // fresh: a later script can see a global the tampering script left behind
}

type luajsonEngine struct{}

func init() { Register(luajsonEngine{}) }

func (luajsonEngine) Name() string      { return "luajson" }
func (luajsonEngine) CoqModule() string { return "Corr.LuaJson" }
func (luajsonEngine) Decode(raw json.RawMessage) (any, error) {
	var in LJInput
	err := json.Unmarshal(raw, &in)
	return in, err
}

func ljBuild(L *lua.LState, v LJVal) lua.LValue {
	switch v.T {
	case "bool":
		return lua.LBool(v.B)
	case "num":
		return lua.LNumber(v.N)
	case "str":
		return lua.LString(v.S)
	case "fun":
		return L.NewFunction(func(*lua.LState) int { return 0 })
	case "tab":
		t := L.NewTable()
		for i, x := range v.Arr {
			if x.T != "nil" {
				t.RawSet(lua.LNumber(i+1), ljBuild(L, x))
			}
		}
		for _, kv := range v.Hash {
			var k lua.LValue
			switch kv.KT {
			case "str":
				k = lua.LString(kv.KS)
			case "num":
				k = lua.LNumber(kv.KN)
			default:
				k = lua.LBool(kv.KB)
			}
			t.RawSet(k, ljBuild(L, kv.V))
		}
		return t
	}
	return lua.LNil
}

func toNumKind(v any, floats bool) any {
	switch t := v.(type) {
	case float64:
		if floats || t >= 9.2e18 || t <= -9.2e18 {
			return t
		}
		return int64(t)
	case map[string]any:
		for k, x := range t {
			t[k] = toNumKind(x, floats)
		}
		return t
	case []any:
		for i := range t {
			t[i] = toNumKind(t[i], floats)
		}
		return t
	}
	return v
}

const ljSurfaceScript = `
local names = {}
local function walk(prefix, t, depth)
  for k, v in pairs(t) do
    if type(k) == "string" and string.sub(k, 1, 2) ~= "__" and k ~= "obj" then
      local name = prefix .. k
      if type(v) == "table" and depth < 2 and v ~= _G then
        walk(name .. ".", v, depth + 1)
      else
        table.insert(names, name .. ":" .. type(v))
      end
    end
  end
end
walk("", _G, 0)
table.sort(names)
return names
`

func ljProbe(script string) (reached bool) {
	defer func() {
		if recover() != nil {
			reached = false
		}
	}()
	m := &luamanager.LuaManager{}
	l, err := m.RunLuaScript(&unstructured.Unstructured{Object: map[string]any{}}, script)
	if err != nil {
		return false
	}
	return lua.LVAsBool(l.Get(-1))
}

func (luajsonEngine) Run(inAny any) (out any) {
	in := inAny.(LJInput)
	obs := LJObs{}
	defer func() {
		if p := recover(); p != nil {
			obs.Panic = fmt.Sprint(p)
			obs.Outcome = "panic"
			out = obs
		}
	}()
	m := &luamanager.LuaManager{}
	switch in.Kind {
	case "round":
		var g any
		by, _ := json.Marshal(in.Value)
		_ = json.Unmarshal(by, &g)
		obj := map[string]any{"v": toNumKind(g, in.Floats)}
		l, err := m.RunLuaScript(&unstructured.Unstructured{Object: obj}, "return obj")
		if err != nil {
			obs.Err = err.Error()
			return obs
		}
		js, err := luamanager.Encode(l.Get(-1))
		if err != nil {
			obs.Err = err.Error()
			return obs
		}
		// the library's own decoder must agree with the one used for script input
		L := lua.NewState(lua.Options{SkipOpenLibs: true})
		defer L.Close()
		var g2 any
		_ = json.Unmarshal(by, &g2)
		js2, err2 := luamanager.Encode(luamanager.DecodeValue(L, map[string]any{"v": g2}))
		if err2 != nil || string(js2) != string(js) {
			obs.Err = fmt.Sprintf("decodeValue and DecodeValue disagree: %s vs %s (%v)", js, js2, err2)
			return obs
		}
		obs.OK, obs.JSON = true, js
	case "table":
		L := lua.NewState(lua.Options{SkipOpenLibs: true})
		defer L.Close()
		js, err := luamanager.Encode(ljBuild(L, *in.Table))
		if err != nil {
			obs.Err = err.Error()
			return obs
		}
		obs.OK, obs.JSON = true, js
	case "surface":
		l, err := m.RunLuaScript(&unstructured.Unstructured{Object: map[string]any{}}, ljSurfaceScript)
		if err != nil {
			obs.Err = err.Error()
			return obs
		}
		if t, ok := l.Get(-1).(*lua.LTable); ok {
			t.ForEach(func(_, v lua.LValue) { obs.Names = append(obs.Names, v.String()) })
		}
		sort.Strings(obs.Names)
		dir, _ := os.MkdirTemp("", "verif-lua-probe")
		defer os.RemoveAll(dir)
		file := filepath.Join(dir, "probe.lua")
		_ = os.WriteFile(file, []byte("return 42\n"), 0o644)
		q := fmt.Sprintf("%q", file)
		obs.Probes = map[string]bool{
			"dofile runs a file":      ljProbe("return dofile ~= nil and dofile(" + q + ") == 42"),
			"loadfile reads a file":   ljProbe("if loadfile == nil then return false end local f = loadfile(" + q + ") return f ~= nil and f() == 42"),
			"require loads a file":    ljProbe("package = package or {} local ok, r = pcall(require, " + fmt.Sprintf("%q", strings.TrimSuffix(file, ".lua")) + ") return ok and r == 42"),
			"io library is reachable": ljProbe("return io ~= nil"),
			"os library is reachable": ljProbe("return os ~= nil"),
			"load runs a string":      ljProbe("local f = (loadstring or load)('return 42') return f ~= nil and f() == 42"),
		}
		obs.OK = true
	case "fresh":
		// the same well-behaved script before and after another rollout's script that tampers with everything it can reach
		victim := func() string {
			l, err := m.RunLuaScript(&unstructured.Unstructured{Object: map[string]any{"weight": int64(20), "name": "web"}}, in.Script)
			if err != nil {
				return "error: " + firstLine(err.Error())
			}
			js, err := luamanager.Encode(l.Get(-1))
			if err != nil {
				return "encode error: " + firstLine(err.Error())
			}
			return string(js)
		}
		obs.Before = victim()
		_, _ = m.RunLuaScript(&unstructured.Unstructured{Object: map[string]any{"secret": "s3cr3t", "weight": int64(99)}}, in.Name)
		obs.After = victim()
		obs.Leak = ljProbe("return leaked ~= nil or (rawget(_G, 'counter') ~= nil)")
		obs.OK = true
	case "hostile":
		t0 := time.Now()
		func() {
			defer func() {
				if p := recover(); p != nil {
					obs.Panic = fmt.Sprint(p)
					obs.Outcome = "panic"
				}
			}()
			l, err := m.RunLuaScript(&unstructured.Unstructured{Object: map[string]any{"data": map[string]any{"spec": map[string]any{"a": int64(1)}}}}, in.Script)
			if err != nil {
				obs.Outcome, obs.Err = "error", firstLine(err.Error())
				return
			}
			rv := l.Get(-1)
			if rv.Type() != lua.LTTable {
				obs.Outcome = "other"
				return
			}
			if _, err := luamanager.Encode(rv); err != nil {
				obs.Outcome, obs.Err = "error", firstLine(err.Error())
				return
			}
			obs.Outcome = "table"
		}()
		obs.Millis = time.Since(t0).Milliseconds()
		obs.OK = true
	}
	return obs
}

func firstLine(s string) string {
	if i := strings.IndexByte(s, '\n'); i >= 0 {
		s = s[:i]
	}
	if len(s) > 160 {
		s = s[:160]
	}
	return s
}

func coqJSON(v any) string {
	switch t := v.(type) {
	case nil:
		return "JNull"
	case bool:
		return emit.App("JBool", emit.Bool(t))
	case float64:
		return emit.App("JNum", emit.ZFloat(t))
	case string:
		return emit.App("JStr", emit.Str(t))
	case []any:
		return emit.App("JArr", emit.ListOf(t, coqJSON))
	case map[string]any:
		var ks []string
		for k := range t {
			ks = append(ks, k)
		}
		sort.Strings(ks)
		return emit.App("JObj", emit.ListOf(ks, func(k string) string { return emit.Pair(emit.Str(k), coqJSON(t[k])) }))
	}
	return "JNull"
}

func coqLVal(v LJVal) string {
	switch v.T {
	case "bool":
		return emit.App("LBool", emit.Bool(v.B))
	case "num":
		return emit.App("LNum", emit.Z(v.N))
	case "str":
		return emit.App("LStr", emit.Str(v.S))
	case "fun":
		return "LFun"
	case "tab":
		return emit.App("LTab", emit.ListOf(v.Arr, coqLVal), emit.ListOf(v.Hash, func(kv LJKV) string {
			k := ""
			switch kv.KT {
			case "str":
				k = emit.App("KStr", emit.Str(kv.KS))
			case "num":
				k = emit.App("KNum", emit.Z(kv.KN))
			default:
				k = emit.App("KBool", emit.Bool(kv.KB))
			}
			return emit.Pair(k, coqLVal(kv.V))
		}))
	}
	return "LNil"
}

func coqObsJSON(obs LJObs) string {
	if !obs.OK || obs.Panic != "" {
		return "None"
	}
	var g any
	if err := json.Unmarshal(obs.JSON, &g); err != nil {
		return "None"
	}
	return emit.Some(coqJSON(g))
}

func (luajsonEngine) Coq(inAny any, obsAny any) string {
	in, obs := inAny.(LJInput), obsAny.(LJObs)
	switch in.Kind {
	case "round":
		var g any
		by, _ := json.Marshal(in.Value)
		_ = json.Unmarshal(by, &g)
		return emit.App("CRound", coqJSON(g), coqObsJSON(obs), emit.Bool(obs.Panic != ""))
	case "table":
		return emit.App("CTable", coqLVal(*in.Table), coqObsJSON(obs), emit.Bool(obs.Panic != ""))
	case "surface":
		var ps []string
		for k := range obs.Probes {
			ps = append(ps, k)
		}
		sort.Strings(ps)
		return emit.App("CSurface", emit.ListOf(obs.Names, emit.Str), emit.ListOf(ps, func(k string) string { return emit.Pair(emit.Str(k), emit.Bool(obs.Probes[k])) }))
	}
	if in.Kind == "fresh" {
		return emit.App("CFresh", emit.Str(obs.Before), emit.Str(obs.After), emit.Bool(obs.Leak), emit.Bool(obs.Panic != ""))
	}
	return emit.App("CHostile", emit.Str(in.Name), emit.Z(obs.Millis), emit.Str(obs.Outcome))
}

// scripts of one rollout that tamper with whatever a script can reach, and well-behaved scripts of another
var ljTamper = []string{
	"tostring = nil tonumber = nil return {}",
	"string.format = function() return 'pwned' end return {}",
	"table.insert = nil table.concat = function() return 'pwned' end return {}",
	"math.floor = function(x) return 0 end return {}",
	"json.encode = nil json.decode = nil return {}",
	"leaked = obj.secret counter = (counter or 0) + 1 return {}",
	"setmetatable(_G, {__index = function(t, k) return 7 end}) return {}",
	"getmetatable('').__index = function() return function() return 'pwned' end end return {}",
	"pairs = function(t) return function() return nil end, t, nil end ipairs = pairs return {}",
	"rawset(_G, 'obj', {weight = 1}) type = function() return 'nil' end return {}",
	"error('boom after tampering: ' .. tostring(rawset(_G, 'leaked', 1)))",
}
var ljVictim = []string{
	"local t = {} table.insert(t, tostring(obj.weight)) table.insert(t, obj.name) return {s = table.concat(t, '-'), n = tonumber('5')}",
	"return {s = string.format('%s:%d', obj.name, obj.weight), u = ('abc'):upper()}",
	"local n = 0 for k, v in pairs(obj) do n = n + 1 end return {n = n, f = math.floor(obj.weight / 3), ty = type(obj.weight)}",
	"local d = json.decode(json.encode({w = obj.weight})) return {w = d.w, undefined_is_nil = (some_undefined_name == nil)}",
	"return {w = obj.weight, seen = (leaked ~= nil), c = (counter or 0)}",
}

var ljHostile = [][2]string{
	{"loop", "while true do end"},
	{"loop-with-work", "local x = 0 while true do x = x + 1 end return {x = x}"},
	{"pcall-loop", "while true do pcall(function() while true do end end) end"},
	{"recursion", "local function f(n) return f(n + 1) + 1 end return {v = f(1)}"},
	{"mutual-recursion", "local g local function f(n) return g(n) + 1 end g = function(n) return f(n) + 1 end return {v = f(1)}"},
	{"error", "error('boom')"},
	{"error-table", "error({code = 1})"},
	{"nil-index", "local t = nil return t.x.y"},
	{"wrong-type-number", "return 5"},
	{"wrong-type-string", "return 'x'"},
	{"wrong-type-nil", "return nil"},
	{"no-return", "local x = 1"},
	{"function-value", "return {f = function() end}"},
	{"cyclic-table", "local t = {} t.self = t return t"},
	{"sparse-array", "local t = {} t[1] = 1 t[3] = 3 return t"},
	{"mixed-keys", "return {1, 2, a = 3}"},
	{"os-exit", "os.exit(1)"},
	{"os-execute", "return {r = os.execute('true')}"},
	{"io-open", "return {f = io.open('/etc/passwd')}"},
	{"require-os", "local o = require('os') return {t = o.time()}"},
	{"string-rep-loop", "local s = 'x' for i = 1, 20 do s = s .. s end return {n = #s}"},
	{"syntax-error", "return {"},
	{"coroutine", "return {c = coroutine ~= nil}"},
	{"setmetatable-index-loop", "local t = setmetatable({}, {__index = function(t, k) return t[k] end}) return {v = t.x}"},
	{"tostring-huge", "return {s = tostring(2^1000)}"},
	{"well-behaved", "obj.data.spec.a = 2 return obj.data"},
}

func genLJValue(r *rand.Rand, depth int) any {
	if depth <= 0 || chance(r, 30) {
		switch r.Intn(7) {
		case 0:
			return nil
		case 1:
			return chance(r, 50)
		case 2:
			return r.Intn(1000) - 300
		case 3:
			return pick(r, "", "a", "x y", "with \"quote\"", "tab-less")
		case 4:
			if chance(r, 35) {
				// whole numbers around and beyond the int64 range: Lua numbers are float64, these are all exactly representable
				return pick(r, float64(1<<53), float64(1<<62), 9223372036854775808.0, 18446744073709551616.0, 1e19, 1e21, -9223372036854775808.0, -1e19, 1e300)
			}
			return int64(1) << uint(20+r.Intn(32))
		case 5:
			return 0
		default:
			return pick(r, "svc", "v1")
		}
	}
	if chance(r, 50) {
		n := r.Intn(4)
		l := []any{}
		for i := 0; i < n; i++ {
			l = append(l, genLJValue(r, depth-1))
		}
		return l
	}
	m := map[string]any{}
	n := r.Intn(4)
	for i := 0; i < n; i++ {
		m[pick(r, "a", "b", "c", "1", "2", "key with space", "")] = genLJValue(r, depth-1)
	}
	return m
}

func genLJTable(r *rand.Rand, depth int) LJVal {
	if depth <= 0 || chance(r, 35) {
		switch r.Intn(6) {
		case 0:
			return LJVal{T: "nil"}
		case 1:
			return LJVal{T: "bool", B: chance(r, 50)}
		case 2:
			return LJVal{T: "num", N: int64(r.Intn(100) - 20)}
		case 3:
			return LJVal{T: "str", S: pick(r, "a", "", "b c")}
		case 4:
			if chance(r, 30) {
				return LJVal{T: "fun"}
			}
			return LJVal{T: "num", N: 7}
		default:
			return LJVal{T: "str", S: "v"}
		}
	}
	t := LJVal{T: "tab"}
	mode := r.Intn(10) // 0-3 array, 4-7 object, 8 mixed, 9 empty
	if mode <= 3 || mode == 8 {
		n := 1 + r.Intn(4)
		for i := 0; i < n; i++ {
			x := genLJTable(r, depth-1)
			if x.T == "nil" && !chance(r, 30) {
				x = LJVal{T: "num", N: int64(i)}
			}
			t.Arr = append(t.Arr, x)
		}
		// trailing holes are not holes
		for len(t.Arr) > 0 && t.Arr[len(t.Arr)-1].T == "nil" {
			t.Arr = t.Arr[:len(t.Arr)-1]
		}
	}
	if mode >= 4 && mode <= 8 {
		keys := []string{"a", "b", "c", "d"}
		n := 1 + r.Intn(3)
		for i := 0; i < n; i++ {
			t.Hash = append(t.Hash, LJKV{KT: "str", KS: keys[i], V: genLJTable(r, depth-1)})
		}
		if chance(r, 12) {
			pos := r.Intn(len(t.Hash) + 1)
			kv := LJKV{KT: "num", KN: int64(-r.Intn(3)), V: LJVal{T: "num", N: 1}}
			if chance(r, 40) {
				kv = LJKV{KT: "bool", KB: true, V: LJVal{T: "num", N: 1}}
			}
			t.Hash = append(t.Hash[:pos], append([]LJKV{kv}, t.Hash[pos:]...)...)
		}
	}
	return t
}

func (luajsonEngine) Gen(r *rand.Rand, idx int, tier string) any {
	if idx == 0 {
		return LJInput{Kind: "surface"}
	}
	if idx <= len(ljHostile) {
		h := ljHostile[idx-1]
		return LJInput{Kind: "hostile", Name: h[0], Script: h[1]}
	}
	if idx%9 == 5 {
		return LJInput{Kind: "fresh", Script: ljVictim[r.Intn(len(ljVictim))], Name: ljTamper[r.Intn(len(ljTamper))]}
	}
	if chance(r, 55) {
		return LJInput{Kind: "round", Value: genLJValue(r, 4), Floats: chance(r, 40)}
	}
	t := genLJTable(r, 3)
	if t.T != "tab" {
		t = LJVal{T: "tab", Arr: []LJVal{t}}
	}
	return LJInput{Kind: "table", Table: &t}
}
