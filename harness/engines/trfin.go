package engines

// trfin: the Rollout controller's handling of its "progressing" finalizer on a TrafficRouting object
// (handleTrafficRouting / finalizeTrafficRouting).  Model: coq/Model/TRFin.v.

import (
	"context"
	"encoding/json"
	"fmt"
	"math/rand"

	metav1 "k8s.io/apimachinery/pkg/apis/meta/v1"
	"k8s.io/apimachinery/pkg/types"
	"k8s.io/client-go/tools/record"
	"sigs.k8s.io/controller-runtime/pkg/client"
	"sigs.k8s.io/controller-runtime/pkg/client/fake"

	"github.com/openkruise/rollouts/api/v1alpha1"
	"github.com/openkruise/rollouts/pkg/controller/rollout"
	"github.com/openkruise/rollouts/pkg/util"

	"verifharness/emit"
)

type TFInput struct {
	Op       string `json:"op"` // handle | finalize
	Fail     bool   `json:"fail,omitempty"` // the Update of the TrafficRouting fails
	Exists   bool   `json:"exists"`
	Deleting bool   `json:"deleting,omitempty"`
	Phase    string `json:"phase,omitempty"`
	Mine     bool   `json:"mine,omitempty"`
	Others   bool   `json:"others,omitempty"`
}
type TFObs struct {
	Panic  string `json:"panic,omitempty"`
	Err    string `json:"err,omitempty"`
	Ready  bool   `json:"ready"`
	Exists bool   `json:"exists"`
	Mine   bool   `json:"mine"`
	Others bool   `json:"others"`
}

type trfinEngine struct{}

func init() { Register(trfinEngine{}) }

func (trfinEngine) Name() string      { return "trfin" }
func (trfinEngine) CoqModule() string { return "Corr.TRFin" }
func (trfinEngine) Decode(raw json.RawMessage) (any, error) {
	var in TFInput
	err := json.Unmarshal(raw, &in)
	return in, err
}
func (trfinEngine) Gen(r *rand.Rand, idx int, tier string) any {
	in := TFInput{Op: pick(r, "handle", "finalize"), Fail: chance(r, 15), Exists: !chance(r, 10), Deleting: chance(r, 40),
		Phase: pick(r, "", "Healthy", "Progressing", "Finalizing", "Terminating"), Mine: chance(r, 50), Others: chance(r, 60)}
	if in.Deleting && !in.Mine && !in.Others {
		in.Others = true // a deleting object without finalizers does not exist
	}
	if in.Deleting && chance(r, 50) {
		in.Phase = "Terminating"
	}
	return in
}

type failTRUpdate struct {
	client.Client
	fail bool
}

func (f *failTRUpdate) Update(ctx context.Context, obj client.Object, opts ...client.UpdateOption) error {
	if _, ok := obj.(*v1alpha1.TrafficRouting); ok && f.fail {
		return fmt.Errorf("injected: the API server is unavailable")
	}
	return f.Client.Update(ctx, obj, opts...)
}

func (trfinEngine) Run(inAny any) (res any) {
	in := inAny.(TFInput)
	obs := TFObs{}
	var objs []client.Object
	mine := util.ProgressingRolloutFinalizer("ro")
	if in.Exists {
		tr := &v1alpha1.TrafficRouting{ObjectMeta: metav1.ObjectMeta{Namespace: "ns", Name: "tr"}}
		tr.Status.Phase = v1alpha1.TrafficRoutingPhase(in.Phase)
		if in.Mine {
			tr.Finalizers = append(tr.Finalizers, mine)
		}
		if in.Others {
			tr.Finalizers = append(tr.Finalizers, util.TrafficRoutingFinalizer)
		}
		if in.Deleting {
			now := metav1.Now()
			tr.DeletionTimestamp = &now
		}
		objs = append(objs, tr)
	}
	base := fake.NewClientBuilder().WithScheme(FullScheme()).WithObjects(objs...).Build()
	cli := &failTRUpdate{Client: base, fail: in.Fail}
	rec := rollout.VerifNewReconciler(cli, FullScheme(), record.NewFakeRecorder(100))
	func() {
		defer func() {
			if p := recover(); p != nil {
				obs.Panic = fmt.Sprint(p)
			}
		}()
		if in.Op == "handle" {
			ready, err := rec.VerifHandleTrafficRouting("ns", "ro", "tr")
			obs.Ready = ready
			if err != nil {
				obs.Err = err.Error()
			}
		} else if err := rec.VerifFinalizeTrafficRouting("ns", "ro", "tr"); err != nil {
			obs.Err = err.Error()
		}
	}()
	after := &v1alpha1.TrafficRouting{}
	if err := base.Get(context.TODO(), types.NamespacedName{Namespace: "ns", Name: "tr"}, after); err == nil {
		obs.Exists = true
		for _, f := range after.Finalizers {
			if f == mine {
				obs.Mine = true
			} else {
				obs.Others = true
			}
		}
	}
	return obs
}

func (trfinEngine) Coq(inAny any, obsAny any) string {
	in, obs := inAny.(TFInput), obsAny.(TFObs)
	ph := map[string]string{"Finalizing": "TFinalizing", "Terminating": "TTerminating"}[in.Phase]
	if ph == "" {
		ph = "TOtherPhase"
	}
	op := "OpHandle"
	if in.Op == "finalize" {
		op = "OpFinalizeTR"
	}
	obj := emit.App("Build_trobj2", emit.Bool(in.Exists), emit.Bool(in.Deleting), ph, emit.Bool(in.Mine), emit.Bool(in.Others))
	o := emit.App("Build_t2obs", emit.Bool(obs.Panic != ""), emit.Bool(obs.Err != ""), emit.Bool(obs.Ready), emit.Bool(obs.Exists), emit.Bool(obs.Mine), emit.Bool(obs.Others))
	return emit.App("Build_t2case", op, emit.Bool(in.Fail), obj, o)
}
