package engines

import (
	"context"
	"encoding/json"
	"fmt"
	"math/rand"
	"strconv"

	apps "k8s.io/api/apps/v1"
	corev1 "k8s.io/api/core/v1"
	metav1 "k8s.io/apimachinery/pkg/apis/meta/v1"
	"k8s.io/apimachinery/pkg/runtime"
	"k8s.io/apimachinery/pkg/types"
	"k8s.io/apimachinery/pkg/util/intstr"
	"k8s.io/klog/v2"
	"sigs.k8s.io/controller-runtime/pkg/client"
	"sigs.k8s.io/controller-runtime/pkg/client/fake"

	"github.com/openkruise/rollouts/api/v1beta1"
	batchcontext "github.com/openkruise/rollouts/pkg/controller/batchrelease/context"
	"github.com/openkruise/rollouts/pkg/controller/batchrelease/labelpatch"
	"github.com/openkruise/rollouts/pkg/util"

	"verifharness/emit"
)

type LPPod struct {
	Name     string `json:"name"`
	Deleting bool   `json:"deleting,omitempty"`
	PTH      string `json:"pth,omitempty"`
	CRH      string `json:"crh,omitempty"`
	Owner    string `json:"owner,omitempty"` // "" | "missing" | "rs"
	RSTmpl   string `json:"rs_tmpl,omitempty"`
	RID      string `json:"rid,omitempty"`
	BID      string `json:"bid,omitempty"`
	NNU      string `json:"nnu,omitempty"`
}

type LPInput struct {
	Batches  []IOS   `json:"batches"`
	Replicas int     `json:"replicas"`
	Cur      int     `json:"cur"`
	RID      string  `json:"rid"`
	Rev      string  `json:"rev"`
	Pods     []LPPod `json:"pods"`
	Filter   string  `json:"filter"` // "none" | "unordered" | "ordered"
	Part     *IOS    `json:"partition,omitempty"` // ordered filter: ctx.DesiredPartition
	Desired  int     `json:"desired"`
	Planned  int     `json:"planned"`
}

type LPObs struct {
	Panic  string      `json:"panic,omitempty"`
	Err    string      `json:"err,omitempty"`
	Labels [][3]string `json:"labels"`
	N1     int         `json:"n1"`
	Second *int        `json:"second"`
	Perm   [][3]string `json:"perm,omitempty"` // ordered filter: labels (input order) when the same pods are listed in reverse order
}

type labelPatchEngine struct{}

func init() { Register(labelPatchEngine{}) }

func (labelPatchEngine) Name() string      { return "labelpatch" }
func (labelPatchEngine) CoqModule() string { return "Corr.LabelPatch" }

func (labelPatchEngine) Decode(raw json.RawMessage) (any, error) {
	var in LPInput
	err := json.Unmarshal(raw, &in)
	return in, err
}

// rsTemplate builds the ReplicaSet pod template identified by tmpl; rsHash is what the patcher computes for it.
func rsTemplate(tmpl string) corev1.PodTemplateSpec {
	return corev1.PodTemplateSpec{
		ObjectMeta: metav1.ObjectMeta{Labels: map[string]string{"app": "demo", "tmpl": tmpl, apps.DefaultDeploymentUniqueLabelKey: "pth-" + tmpl}},
		Spec:       corev1.PodSpec{Containers: []corev1.Container{{Name: "main", Image: "img:" + tmpl}}},
	}
}

func rsHash(tmpl string) string {
	t := rsTemplate(tmpl)
	delete(t.ObjectMeta.Labels, apps.DefaultDeploymentUniqueLabelKey)
	return util.ComputeHash(&t, nil)
}

func (labelPatchEngine) Gen(r *rand.Rand, idx int, tier string) any {
	n := pick(r, 0, 1, 2, 3, 5, 8, 10, 10, 20)
	if chance(r, 20) {
		n = r.Intn(30)
	}
	in := LPInput{Replicas: n, RID: pick(r, "r1", "r1", "r1", "r2", ""), Filter: "none"}
	if chance(r, 90) {
		in.RID = "r1"
	}
	in.Batches = genPlan(r, n)
	in.Cur = r.Intn(len(in.Batches))
	useRS := chance(r, 30)
	newTmpl, oldTmpl := "v2", "v1"
	if useRS {
		in.Rev = rsHash(newTmpl)
		if chance(r, 30) {
			in.Rev = "deploy-" + in.Rev
		}
	} else {
		in.Rev = pick(r, "web-7d9f", "7d9f", "sts-web-7d9f")
	}
	newHash := "7d9f"
	np := n
	if chance(r, 40) {
		np = r.Intn(n + 3)
	}
	bidPool := []string{"1", "1", "2", "2", "3", "", "x", "0", "7", "-3", "+1", "01", "99999999999999999999", "1 "}
	if tier == "fixed" { // only well-formed ids: used to show the fixed tree has no other difference
		bidPool = []string{"1", "2", "3", ""}
	}
	for k := 0; k < np; k++ {
		p := LPPod{Name: fmt.Sprintf("pod-%d", k)}
		isNew := chance(r, 65)
		p.Deleting = chance(r, 8)
		if useRS {
			t := oldTmpl
			if isNew {
				t = newTmpl
			}
			p.Owner = "rs"
			p.RSTmpl = t
			p.PTH = "pth-" + t
			switch r.Intn(10) {
			case 0:
				p.Owner = "missing"
			case 1:
				p.Owner = ""
			case 2, 3:
				p.CRH = rsHash(t) // already patched earlier
			case 4:
				if !isNew && chance(r, 60) {
					p.CRH = in.Rev // a stale / hand-written hash on a pod of the OLD ReplicaSet: says nothing about its siblings
				}
			}
		} else {
			h := "5c8a"
			if isNew {
				h = newHash
			}
			switch r.Intn(4) {
			case 0:
				p.PTH = h
			case 1:
				p.CRH = "web-" + h
				if isNew && in.Rev == "7d9f" {
					p.CRH = h
				}
			case 2:
				p.PTH, p.CRH = h, h
			default:
				p.CRH = h
			}
			if chance(r, 4) {
				p.PTH, p.CRH = "", ""
			}
			if chance(r, 6) {
				// an OLD revision whose hash happens to end with the update revision (hashes have no fixed length)
				if chance(r, 50) {
					p.PTH, p.CRH = "5"+in.Rev, ""
				} else {
					p.PTH, p.CRH = "", "5"+in.Rev
				}
			}
		}
		switch r.Intn(10) {
		case 0, 1, 2, 3: // unlabelled
		case 4, 5, 6: // labelled for this release
			p.RID = "r1"
			p.BID = strconv.Itoa(1 + r.Intn(len(in.Batches)))
			if chance(r, 25) {
				p.BID = bidPool[r.Intn(len(bidPool))]
			}
		case 7, 8: // stale release
			p.RID = pick(r, "r0", "old", "r10")
			p.BID = bidPool[r.Intn(len(bidPool))]
		default: // batch id without rollout id
			p.BID = bidPool[r.Intn(len(bidPool))]
		}
		if chance(r, 12) {
			p.NNU = pick(r, "r1", "r0")
		}
		in.Pods = append(in.Pods, p)
	}
	if chance(r, 25) {
		in.Filter = "unordered"
		in.Planned = r.Intn(n + 2)
		in.Desired = r.Intn(in.Planned + 2)
	}
	if chance(r, 30) && n > 0 && len(in.Pods) > 0 && in.RID != "" {
		// rollback in batches as the partition-style controls set it up: every pod is on the target
		// revision, some are marked no-need-update, some of those were already labelled by an earlier pass,
		// planned/desired come from the same formulas as CalculateBatchContext
		noNeed := 0
		for i := range in.Pods {
			p := &in.Pods[i]
			p.Owner, p.RSTmpl, p.Deleting = "", "", chance(r, 5)
			p.PTH, p.CRH = "", in.Rev
			p.NNU, p.RID, p.BID = "", "", ""
			if chance(r, 50) {
				p.NNU = in.RID
				if !p.Deleting {
					noNeed++
				}
				if chance(r, 40) {
					p.RID, p.BID = in.RID, strconv.Itoa(1+r.Intn(in.Cur+1))
				}
			} else if chance(r, 30) {
				p.RID, p.BID = in.RID, strconv.Itoa(1+r.Intn(in.Cur+1))
			}
		}
		r.Shuffle(len(in.Pods), func(i, j int) { in.Pods[i], in.Pods[j] = in.Pods[j], in.Pods[i] })
		step := in.Batches[in.Cur].K8s()
		scale := func(total int) int {
			v, _ := intstr.GetScaledValueFromIntOrPercent(&step, total, true)
			if v > total {
				v = total
			}
			if v < 0 {
				v = 0
			}
			return v
		}
		in.Filter = "unordered"
		in.Planned = scale(n)
		in.Desired = noNeed + scale(maxInt(n-noNeed, 0))
	}
	if idx%5 == 2 && n > 0 && len(in.Pods) > 0 {
		// a StatefulSet rolled back in batches: pods are "<name>-<ordinal>", all on the target revision, those below the
		// partition did not need the rollback; the informer lists them in no particular order
		ords := r.Perm(len(in.Pods) + r.Intn(3))
		for i := range in.Pods {
			p := &in.Pods[i]
			p.Name = fmt.Sprintf("web-%d", ords[i])
			p.Owner, p.RSTmpl, p.PTH, p.CRH, p.NNU = "", "", "", in.Rev, ""
			if chance(r, 10) {
				p.CRH = "web-5c8a"
			}
			if chance(r, 60) {
				p.RID, p.BID = "", ""
			}
		}
		// planned / partition as the StatefulSet control's CalculateBatchContext derives them from the number k of pods marked
		// no-need-update: planned = batch(n), partition = n - batch(n-k)
		step := in.Batches[in.Cur].K8s()
		scale := func(total int) int {
			v, _ := intstr.GetScaledValueFromIntOrPercent(&step, total, true)
			return minInt(maxInt(v, 0), total)
		}
		k := r.Intn(n + 1)
		in.Filter = "ordered"
		in.Planned = scale(n)
		in.Desired = in.Planned
		in.Part = &IOS{T: "int", V: int64(n - scale(n-k))}
		if chance(r, 3) {
			in.Pods[r.Intn(len(in.Pods))].Name = "standalone"
		}
	}
	return in
}

type countingClient struct {
	client.Client
	patches int
}

func (c *countingClient) Patch(ctx context.Context, obj client.Object, patch client.Patch, opts ...client.PatchOption) error {
	c.patches++
	return c.Client.Patch(ctx, obj, patch, opts...)
}

func lpScheme() *runtime.Scheme {
	s := runtime.NewScheme()
	_ = corev1.AddToScheme(s)
	_ = apps.AddToScheme(s)
	return s
}

func buildPod(p LPPod) *corev1.Pod {
	pod := &corev1.Pod{ObjectMeta: metav1.ObjectMeta{Namespace: "ns", Name: p.Name, Labels: map[string]string{"app": "demo"}}}
	if p.Deleting {
		now := metav1.Now()
		pod.DeletionTimestamp = &now
		pod.Finalizers = []string{"verif/hold"}
	}
	set := func(k, v string) {
		if v != "" {
			pod.Labels[k] = v
		}
	}
	set(apps.DefaultDeploymentUniqueLabelKey, p.PTH)
	set(apps.ControllerRevisionHashLabelKey, p.CRH)
	set(v1beta1.RolloutIDLabel, p.RID)
	set(v1beta1.RolloutBatchIDLabel, p.BID)
	set(util.NoNeedUpdatePodLabel, p.NNU)
	if p.Owner != "" {
		tr := true
		name := "rs-" + p.RSTmpl
		if p.Owner == "missing" {
			name = "rs-gone-" + p.RSTmpl
		}
		pod.OwnerReferences = []metav1.OwnerReference{{APIVersion: "apps/v1", Kind: "ReplicaSet", Name: name, UID: types.UID("uid-" + name), Controller: &tr}}
	}
	return pod
}

func (e labelPatchEngine) Run(inAny any) any {
	in := inAny.(LPInput)
	obs := e.run(in, false)
	if in.Filter == "ordered" && obs.Panic == "" && obs.Err == "" {
		o2 := e.run(in, true)
		if o2.Panic == "" && o2.Err == "" {
			obs.Perm = o2.Labels
		}
	}
	return obs
}

func (labelPatchEngine) run(in LPInput, reversed bool) LPObs {
	var objs []client.Object
	rsSeen := map[string]bool{}
	for _, p := range in.Pods {
		objs = append(objs, buildPod(p))
		if p.Owner == "rs" && !rsSeen[p.RSTmpl] {
			rsSeen[p.RSTmpl] = true
			objs = append(objs, &apps.ReplicaSet{ObjectMeta: metav1.ObjectMeta{Namespace: "ns", Name: "rs-" + p.RSTmpl, UID: types.UID("uid-rs-" + p.RSTmpl)},
				Spec: apps.ReplicaSetSpec{Template: rsTemplate(p.RSTmpl)}})
		}
	}
	cli := &countingClient{Client: fake.NewClientBuilder().WithScheme(lpScheme()).WithObjects(objs...).Build()}
	var batches []v1beta1.ReleaseBatch
	for _, b := range in.Batches {
		batches = append(batches, v1beta1.ReleaseBatch{CanaryReplicas: b.K8s()})
	}
	pass := func() (panicMsg, errMsg string) {
		// the patcher is given the pods as the executor lists them: fresh copies from the store, input order
		var pods []*corev1.Pod
		for _, p := range in.Pods {
			pod := &corev1.Pod{}
			if err := cli.Get(context.TODO(), types.NamespacedName{Namespace: "ns", Name: p.Name}, pod); err != nil {
				return "", "harness: " + err.Error()
			}
			pods = append(pods, pod)
		}
		if reversed {
			for a, b := 0, len(pods)-1; a < b; a, b = a+1, b-1 {
				pods[a], pods[b] = pods[b], pods[a]
			}
		}
		bc := &batchcontext.BatchContext{RolloutID: in.RID, CurrentBatch: int32(in.Cur), UpdateRevision: in.Rev,
			Replicas: int32(in.Replicas), Pods: pods, DesiredUpdatedReplicas: int32(in.Desired), PlannedUpdatedReplicas: int32(in.Planned)}
		if in.Filter == "unordered" {
			bc.FilterFunc = labelpatch.FilterPodsForUnorderedUpdate
		}
		if in.Filter == "ordered" {
			bc.FilterFunc = labelpatch.FilterPodsForOrderedUpdate
			bc.DesiredPartition = in.Part.K8s()
		}
		defer func() {
			if rec := recover(); rec != nil {
				panicMsg = fmt.Sprint(rec)
			}
		}()
		patcher := labelpatch.NewLabelPatcher(cli, klog.ObjectRef{Namespace: "ns", Name: "br"}, batches)
		if err := patcher.PatchPodBatchLabel(bc); err != nil {
			errMsg = err.Error()
		}
		return
	}
	obs := LPObs{}
	obs.Panic, obs.Err = pass()
	obs.N1 = cli.patches
	for _, p := range in.Pods {
		pod := &corev1.Pod{}
		_ = cli.Get(context.TODO(), types.NamespacedName{Namespace: "ns", Name: p.Name}, pod)
		obs.Labels = append(obs.Labels, [3]string{pod.Labels[v1beta1.RolloutIDLabel], pod.Labels[v1beta1.RolloutBatchIDLabel], pod.Labels[apps.ControllerRevisionHashLabelKey]})
	}
	if obs.Panic == "" && obs.Err == "" {
		before := cli.patches
		p2, e2 := pass()
		if p2 == "" && e2 == "" {
			n := cli.patches - before
			obs.Second = &n
		}
	}
	return obs
}

func (labelPatchEngine) Coq(inAny any, obsAny any) string {
	in := inAny.(LPInput)
	obs := obsAny.(LPObs)
	pods := emit.ListOf(in.Pods, func(p LPPod) string {
		owner := "NoRSOwner"
		switch p.Owner {
		case "missing":
			owner = "RSMissing"
		case "rs":
			owner = emit.App("RSHash", emit.Str(rsHash(p.RSTmpl)))
		}
		return emit.App("Build_pod", emit.Str(p.Name), emit.Bool(p.Deleting), emit.Str(p.PTH), emit.Str(p.CRH), owner,
			emit.Str(p.RID), emit.Str(p.BID), emit.Str(p.NNU))
	})
	filter := "FNone"
	if in.Filter == "unordered" {
		filter = "FUnordered"
	}
	if in.Filter == "ordered" {
		filter = emit.App("FOrdered", in.Part.Coq())
	}
	input := emit.App("Build_lp_input", emit.ListOf(in.Batches, IOS.Coq), emit.Z(int64(in.Replicas)), emit.Z(int64(in.Cur)),
		emit.Str(in.RID), emit.Str(in.Rev), pods, filter, emit.Z(int64(in.Desired)), emit.Z(int64(in.Planned)))
	second := "None"
	if obs.Second != nil {
		second = emit.Some(emit.Z(int64(*obs.Second)))
	}
	perm := "None"
	if obs.Perm != nil {
		perm = emit.Some(emit.ListOf(obs.Perm, func(l [3]string) string {
			return "(" + emit.Str(l[0]) + ", " + emit.Str(l[1]) + ", " + emit.Str(l[2]) + ")"
		}))
	}
	o := emit.App("Build_lp_obs", emit.Bool(obs.Panic != ""), emit.Bool(obs.Err != ""),
		emit.ListOf(obs.Labels, func(l [3]string) string {
			return "(" + emit.Str(l[0]) + ", " + emit.Str(l[1]) + ", " + emit.Str(l[2]) + ")"
		}), emit.Z(int64(obs.N1)), second, perm)
	return emit.Pair(input, o)
}
