package engines

import (
	kruiseappsv1alpha1 "github.com/openkruise/kruise-api/apps/v1alpha1"
	"context"
	"encoding/json"
	"fmt"
	"math/rand"
	"sort"
	"strconv"
	"strings"
	"time"

	corev1 "k8s.io/api/core/v1"
	netv1 "k8s.io/api/networking/v1"
	metav1 "k8s.io/apimachinery/pkg/apis/meta/v1"
	"k8s.io/apimachinery/pkg/types"
	"k8s.io/apimachinery/pkg/util/intstr"
	"sigs.k8s.io/controller-runtime/pkg/client"
	"sigs.k8s.io/controller-runtime/pkg/client/fake"
	gatewayv1beta1 "sigs.k8s.io/gateway-api/apis/v1beta1"

	"github.com/openkruise/rollouts/api/v1beta1"
	"github.com/openkruise/rollouts/pkg/trafficrouting"
	"github.com/openkruise/rollouts/pkg/util/grace"

	"verifharness/emit"
)

const revKey = "pod-template-hash"

type TMStrategy struct {
	Weight *int   `json:"weight,omitempty"`
	Match  string `json:"match,omitempty"` // header value of a single header match "user: <value>"
}

type TMNet struct {
	StableExists bool        `json:"stable_exists"`
	StableSel    string      `json:"stable_sel,omitempty"`
	CanarySvc    *string     `json:"canary_svc,omitempty"`
	Route        *TMStrategy `json:"route,omitempty"`
}

type TMOp struct {
	Kind       string     `json:"kind"` // do | restore_stable | patch_stable | restore_gateway | remove_canary | route_new | finalising | tick | crash
	Strategy   TMStrategy `json:"strategy,omitempty"`
	LastUpdate string     `json:"last_update,omitempty"` // "" | recent | old
	StableRev  string     `json:"stable_rev,omitempty"`
	CanaryRev  string     `json:"canary_rev,omitempty"`
	Fail       bool       `json:"fail,omitempty"` // the gateway provider's read of the Ingress fails once during this call
}

type TMInput struct {
	Refs      bool   `json:"refs"`
	ZeroGrace bool   `json:"zero_grace,omitempty"`
	Net       TMNet  `json:"net"`
	Ops       []TMOp `json:"ops"`
	// disableGenerateCanaryService: no canary Service is generated, the canary route points at the stable Service itself
	NoCanarySvc bool `json:"no_canary_service,omitempty"`
}

type TMStep struct {
	Panic   string   `json:"panic,omitempty"`
	OK      bool     `json:"ok"`
	Err     string   `json:"err,omitempty"`
	Writes  []string `json:"writes"`
	Net     TMNet    `json:"net"`
	Pending []string `json:"pending"`
	Touched bool     `json:"touched"`
}

type TMObs struct {
	Steps []TMStep `json:"steps"`
}

type trafficmgrEngine struct{}

func init() { Register(trafficmgrEngine{}) }

func (trafficmgrEngine) Name() string      { return "trafficmgr" }
func (trafficmgrEngine) CoqModule() string { return "Corr.TrafficMgr" }
func (trafficmgrEngine) Decode(raw json.RawMessage) (any, error) {
	var in TMInput
	err := json.Unmarshal(raw, &in)
	return in, err
}

// writeLog records every mutating call in order.
type writeLog struct {
	client.Client
	log         []string
	failIngress bool // fail the next Get of an Ingress (fault injection)
	failIngressAll bool // fail every Get of an Ingress (fault injection for a whole reconcile)
	failWorkload   bool // fail the next typed Get of the workload (a CloneSet)
}

func (w *writeLog) Get(ctx context.Context, key client.ObjectKey, obj client.Object, opts ...client.GetOption) error {
	if _, ok := obj.(*netv1.Ingress); ok && w.failIngress {
		w.failIngress = false
		return fmt.Errorf("injected: the API server is unavailable")
	}
	if _, ok := obj.(*netv1.Ingress); ok && w.failIngressAll {
		return fmt.Errorf("injected: the API server is unavailable")
	}
	if _, ok := obj.(*kruiseappsv1alpha1.CloneSet); ok && w.failWorkload {
		w.failWorkload = false
		return fmt.Errorf("injected: the API server is unavailable")
	}
	return w.Client.Get(ctx, key, obj, opts...)
}

func objKind(o client.Object) string {
	switch o.(type) {
	case *corev1.Service:
		return "Service"
	case *netv1.Ingress:
		return "Ingress"
	}
	return fmt.Sprintf("%T", o)
}

func (w *writeLog) Create(ctx context.Context, obj client.Object, opts ...client.CreateOption) error {
	err := w.Client.Create(ctx, obj, opts...)
	if err == nil {
		w.log = append(w.log, "create "+objKind(obj)+" "+obj.GetName())
	}
	return err
}
func (w *writeLog) Update(ctx context.Context, obj client.Object, opts ...client.UpdateOption) error {
	err := w.Client.Update(ctx, obj, opts...)
	if err == nil {
		w.log = append(w.log, "update "+objKind(obj)+" "+obj.GetName())
	}
	return err
}
func (w *writeLog) Patch(ctx context.Context, obj client.Object, patch client.Patch, opts ...client.PatchOption) error {
	err := w.Client.Patch(ctx, obj, patch, opts...)
	if err == nil {
		w.log = append(w.log, "patch "+objKind(obj)+" "+obj.GetName())
	}
	return err
}
func (w *writeLog) Delete(ctx context.Context, obj client.Object, opts ...client.DeleteOption) error {
	err := w.Client.Delete(ctx, obj, opts...)
	if err == nil {
		w.log = append(w.log, "delete "+objKind(obj)+" "+obj.GetName())
	}
	return err
}

func tmStrategy(s TMStrategy) v1beta1.TrafficRoutingStrategy {
	st := v1beta1.TrafficRoutingStrategy{}
	if s.Weight != nil {
		w := fmt.Sprintf("%d%%", *s.Weight)
		st.Traffic = &w
	}
	if s.Match != "" {
		t := gatewayv1beta1.HeaderMatchExact
		st.Matches = []v1beta1.HttpRouteMatch{{Headers: []gatewayv1beta1.HTTPHeaderMatch{{Type: &t, Name: "user", Value: s.Match}}}}
	}
	return st
}

func tmObjects(n TMNet) []client.Object { return tmObjectsKey(n, revKey) }

func tmObjectsKey(n TMNet, revKey string) []client.Object {
	var objs []client.Object
	pt := netv1.PathTypePrefix
	ing := &netv1.Ingress{ObjectMeta: metav1.ObjectMeta{Namespace: "ns", Name: "web", Annotations: map[string]string{"kubernetes.io/ingress.class": "nginx"}},
		Spec: netv1.IngressSpec{Rules: []netv1.IngressRule{{Host: "demo.example.com", IngressRuleValue: netv1.IngressRuleValue{HTTP: &netv1.HTTPIngressRuleValue{
			Paths: []netv1.HTTPIngressPath{{Path: "/", PathType: &pt, Backend: netv1.IngressBackend{Service: &netv1.IngressServiceBackend{Name: "svc", Port: netv1.ServiceBackendPort{Number: 80}}}}}}}}}}}
	objs = append(objs, ing)
	ports := []corev1.ServicePort{{Port: 80, TargetPort: intstr.FromInt(8080)}}
	if n.StableExists {
		sel := map[string]string{"app": "demo"}
		if n.StableSel != "" {
			sel[revKey] = n.StableSel
		}
		objs = append(objs, &corev1.Service{ObjectMeta: metav1.ObjectMeta{Namespace: "ns", Name: "svc", UID: "svc-uid"}, Spec: corev1.ServiceSpec{Selector: sel, Ports: ports}})
	}
	if n.CanarySvc != nil {
		sel := map[string]string{"app": "demo"}
		if *n.CanarySvc != "" {
			sel[revKey] = *n.CanarySvc
		}
		objs = append(objs, &corev1.Service{ObjectMeta: metav1.ObjectMeta{Namespace: "ns", Name: "svc-canary", UID: "svc-canary-uid"}, Spec: corev1.ServiceSpec{Selector: sel, Ports: ports}})
	}
	if n.Route != nil {
		c := ing.DeepCopy()
		c.Name = "web-canary"
		c.Annotations["nginx.ingress.kubernetes.io/canary"] = "true"
		if n.Route.Weight != nil {
			c.Annotations["nginx.ingress.kubernetes.io/canary-weight"] = strconv.Itoa(*n.Route.Weight)
		}
		if n.Route.Match != "" {
			c.Annotations["nginx.ingress.kubernetes.io/canary-by-header"] = "user"
			c.Annotations["nginx.ingress.kubernetes.io/canary-by-header-value"] = n.Route.Match
		}
		c.Spec.Rules[0].HTTP.Paths[0].Backend.Service.Name = "svc-canary"
		objs = append(objs, c)
	}
	return objs
}

func tmProject(cli client.Client) TMNet { return tmProjectKey(cli, revKey) }

func tmProjectKey(cli client.Client, revKey string) TMNet {
	n := TMNet{}
	svc := &corev1.Service{}
	if err := cli.Get(context.TODO(), types.NamespacedName{Namespace: "ns", Name: "svc"}, svc); err == nil {
		n.StableExists = true
		n.StableSel = svc.Spec.Selector[revKey]
	}
	csvc := &corev1.Service{}
	if err := cli.Get(context.TODO(), types.NamespacedName{Namespace: "ns", Name: "svc-canary"}, csvc); err == nil {
		s := csvc.Spec.Selector[revKey]
		n.CanarySvc = &s
	}
	ci := &netv1.Ingress{}
	if err := cli.Get(context.TODO(), types.NamespacedName{Namespace: "ns", Name: "web-canary"}, ci); err == nil {
		r := &TMStrategy{}
		if w, ok := ci.Annotations["nginx.ingress.kubernetes.io/canary-weight"]; ok {
			v, _ := strconv.Atoi(w)
			r.Weight = &v
		}
		r.Match = ci.Annotations["nginx.ingress.kubernetes.io/canary-by-header-value"]
		n.Route = r
	}
	return n
}

func tmContext(in TMInput, op TMOp) *trafficrouting.TrafficRoutingContext {
	c := &trafficrouting.TrafficRoutingContext{Key: "Rollout(ns/ro)", Namespace: "ns", Strategy: tmStrategy(op.Strategy),
		OwnerRef:         metav1.OwnerReference{APIVersion: "rollouts.kruise.io/v1beta1", Kind: "Rollout", Name: "ro", UID: "ro-uid"},
		RevisionLabelKey: revKey, StableRevision: op.StableRev, CanaryRevision: op.CanaryRev, DisableGenerateCanaryService: in.NoCanarySvc}
	if in.Refs {
		g := int32(3)
		if in.ZeroGrace {
			g = 0
		}
		c.ObjectRef = []v1beta1.TrafficRoutingRef{{Service: "svc", GracePeriodSeconds: g, Ingress: &v1beta1.IngressTrafficRouting{Name: "web"}}}
	}
	switch op.LastUpdate {
	case "recent":
		c.LastUpdateTime = &metav1.Time{Time: time.Now()}
	case "old":
		c.LastUpdateTime = &metav1.Time{Time: time.Now().Add(-time.Hour)}
	}
	return c
}

func (trafficmgrEngine) Run(inAny any) any {
	in := inAny.(TMInput)
	obs := TMObs{}
	grace.ResetExpectations()
	base := fake.NewClientBuilder().WithScheme(FullScheme()).WithObjects(tmObjects(in.Net)...).Build()
	cli := &writeLog{Client: base}
	m := trafficrouting.NewTrafficRoutingManager(cli)
	for _, op := range in.Ops {
		step := TMStep{}
		cli.log = nil
		func() {
			defer func() {
				if p := recover(); p != nil {
					step.Panic = fmt.Sprint(p)
				}
			}()
			switch op.Kind {
			case "tick":
				grace.VerifAge(10 * time.Second)
				step.OK = true
				return
			case "crash":
				grace.ResetExpectations()
				step.OK = true
				return
			}
			c := tmContext(in, op)
			cli.failIngress = op.Fail
			before := c.LastUpdateTime
			var ok bool
			var err error
			switch op.Kind {
			case "do":
				ok, err = m.DoTrafficRouting(c)
			case "finalising":
				ok, err = m.FinalisingTrafficRouting(c)
			case "restore_stable":
				ok, err = m.RestoreStableService(c)
				ok = !ok
			case "patch_stable":
				ok, err = m.PatchStableService(c)
				ok = !ok
			case "restore_gateway":
				ok, err = m.RestoreGateway(c)
				ok = !ok
			case "remove_canary":
				ok, err = m.RemoveCanaryService(c)
				ok = !ok
			case "route_new":
				ok, err = m.RouteAllTrafficToNewVersion(c)
				ok = !ok
			}
			step.OK = ok
			if err != nil {
				step.Err = err.Error()
			}
			step.Touched = c.LastUpdateTime != before
		}()
		cli.failIngress = false
		step.Writes = append([]string{}, cli.log...)
		step.Net = tmProject(base)
		for _, p := range grace.VerifPending() {
			step.Pending = append(step.Pending, p[strings.LastIndex(p, "/")+1:])
		}
		sort.Strings(step.Pending)
		obs.Steps = append(obs.Steps, step)
	}
	grace.ResetExpectations()
	return obs
}

func coqTMStrategy(s TMStrategy) string {
	w := "None"
	if s.Weight != nil {
		w = emit.Some(emit.Z(int64(*s.Weight)))
	}
	m := "None"
	if s.Match != "" {
		m = emit.Some(emit.Str(s.Match))
	}
	return emit.App("Build_strategy", w, m)
}

func coqTMNet(n TMNet) string {
	sel := "None"
	if n.StableSel != "" {
		sel = emit.Some(emit.Str(n.StableSel))
	}
	cs := "None"
	if n.CanarySvc != nil {
		cs = emit.Some(emit.Str(*n.CanarySvc))
	}
	r := "RNone"
	if n.Route != nil {
		r = emit.App("RSet", coqTMStrategy(*n.Route))
	}
	return emit.App("Build_net", emit.Bool(n.StableExists), sel, cs, r)
}

var tmActionNames = map[string]string{"updateRoute": "GUpdateRoute", "restoreGateway": "GRestoreGateway", "removeCanaryService": "GRemoveCanary",
	"patchService": "GPatchService", "restoreService": "GRestoreService"}

func (trafficmgrEngine) Coq(inAny any, obsAny any) string {
	in, obs := inAny.(TMInput), obsAny.(TMObs)
	ops := emit.ListOf(in.Ops, func(o TMOp) string {
		switch o.Kind {
		case "tick":
			return "TTick"
		case "crash":
			return "TCrash"
		}
		lu := "None"
		switch o.LastUpdate {
		case "recent":
			lu = "(Some false)"
		case "old":
			lu = "(Some true)"
		}
		kind := map[string]string{"do": "KDo", "finalising": "KFinalising", "restore_stable": "KRestoreStable", "patch_stable": "KPatchStable",
			"restore_gateway": "KRestoreGateway", "remove_canary": "KRemoveCanary", "route_new": "KRouteNew"}[o.Kind]
		return emit.App("TCall", kind, emit.App("Build_tctx", emit.Bool(in.Refs), emit.Bool(in.ZeroGrace), coqTMStrategy(o.Strategy),
			emit.Str(o.StableRev), emit.Str(o.CanaryRev), lu, "true", emit.Bool(o.Fail), emit.Bool(in.NoCanarySvc)))
	})
	steps := emit.ListOf(obs.Steps, func(s TMStep) string {
		pend := emit.ListOf(s.Pending, func(p string) string { return tmActionNames[p] })
		return emit.App("Build_tstep", emit.Bool(s.Panic != ""), emit.Bool(s.OK), emit.Bool(s.Err != ""), emit.ListOf(s.Writes, emit.Str), coqTMNet(s.Net), pend, emit.Bool(s.Touched))
	})
	return emit.App("Build_tcase", coqTMNet(in.Net), ops, steps)
}

func genTMStrategy(r *rand.Rand) TMStrategy {
	s := TMStrategy{}
	switch r.Intn(8) {
	case 0:
		s.Match = pick(r, "a", "b")
	case 1:
		s.Match = "a"
		w := pick(r, 10, 50)
		s.Weight = &w
	case 2: // empty strategy
	default:
		w := pick(r, 0, 5, 20, 50, 100)
		s.Weight = &w
	}
	return s
}

func (trafficmgrEngine) Gen(r *rand.Rand, idx int, tier string) any {
	in := TMInput{Refs: !chance(r, 6), ZeroGrace: chance(r, 20)}
	in.Net.StableExists = !chance(r, 5)
	if in.Net.StableExists && chance(r, 45) {
		in.Net.StableSel = pick(r, "v1", "v1", "v0")
	}
	if chance(r, 45) {
		s := pick(r, "v2", "v2", "v1", "")
		in.Net.CanarySvc = &s
	}
	if chance(r, 45) {
		s := genTMStrategy(r)
		if s.Weight == nil && s.Match == "" {
			w := 0
			s.Weight = &w
		}
		in.Net.Route = &s
	}
	if chance(r, 12) {
		in.NoCanarySvc = true
		if chance(r, 85) {
			in.Net.CanarySvc = nil
		}
	}
	strategies := []TMStrategy{genTMStrategy(r), genTMStrategy(r)}
	n := 2 + r.Intn(7)
	focus := pick(r, "", "", "do", "finalising", "remove_canary", "restore_gateway")
	for i := 0; i < n; i++ {
		k := pick(r, "do", "do", "do", "finalising", "restore_stable", "patch_stable", "restore_gateway", "remove_canary", "route_new", "tick", "tick", "crash")
		if focus != "" && chance(r, 55) {
			k = pick(r, focus, focus, "tick")
		}
		op := TMOp{Kind: k}
		if k != "tick" && k != "crash" {
			op.Strategy = strategies[r.Intn(2)]
			op.StableRev, op.CanaryRev = "v1", "v2"
			if chance(r, 6) {
				op.StableRev = ""
			}
			if chance(r, 6) {
				op.CanaryRev = ""
			}
			op.LastUpdate = pick(r, "", "old", "old", "old", "recent")
			op.Fail = in.Refs && chance(r, 12) && (k == "do" || k == "finalising" || k == "restore_gateway" || k == "route_new")
		}
		in.Ops = append(in.Ops, op)
	}
	return in
}
