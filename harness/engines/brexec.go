package engines

import (
	"context"
	"encoding/json"
	"fmt"
	"math/rand"
	"sigs.k8s.io/controller-runtime/pkg/handler"

	kruiseappsv1alpha1 "github.com/openkruise/kruise-api/apps/v1alpha1"
	corev1 "k8s.io/api/core/v1"
	metav1 "k8s.io/apimachinery/pkg/apis/meta/v1"
	"k8s.io/apimachinery/pkg/types"
	"k8s.io/apimachinery/pkg/util/intstr"
	"k8s.io/client-go/tools/record"
	"k8s.io/utils/pointer"
	ctrl "sigs.k8s.io/controller-runtime"
	"sigs.k8s.io/controller-runtime/pkg/client"
	"sigs.k8s.io/controller-runtime/pkg/client/fake"

	"github.com/openkruise/rollouts/api/v1beta1"
	"github.com/openkruise/rollouts/pkg/controller/batchrelease"
	"github.com/openkruise/rollouts/pkg/util"

	"verifharness/emit"
)

type BRStatus struct {
	Phase        string `json:"phase"`
	Batch        int    `json:"batch"`
	State        string `json:"state"`
	ReadyTime    bool   `json:"ready_time"`
	Stable       string `json:"stable"`
	Update       string `json:"update"`
	Hash         string `json:"hash"` // "" | "current" | "stale" on input; "" | "current" | other on output
	ObsReplicas  int    `json:"obs_replicas"`
	Updated      int    `json:"updated"`
	UpdatedReady int    `json:"updated_ready"`
	ObsGen       int    `json:"obs_gen"`
	Cond         bool   `json:"cond"`
}

type BRCloneSet struct {
	Exists         bool   `json:"exists"`
	Replicas       int    `json:"replicas"`
	Gen            int    `json:"gen"`
	ObsGen         int    `json:"obs_gen"`
	StReplicas     int    `json:"st_replicas"`
	StUpdated      int    `json:"st_updated"`
	StUpdatedReady int    `json:"st_updated_ready"`
	UpdateRev      string `json:"update_rev"`
	CurrentRev     string `json:"current_rev"`
	Partition      *IOS   `json:"partition,omitempty"`
	Paused         bool   `json:"paused"`
	Ctl            string `json:"ctl"` // none | mine | other
}

type BRInput struct {
	Plan        []IOS      `json:"plan"`
	Partition   *int       `json:"partition,omitempty"`
	FT          *IOS       `json:"ft,omitempty"`
	Deleting    bool       `json:"deleting"`
	Finalizer   bool       `json:"finalizer"`
	Generation  int        `json:"generation"`
	Status      BRStatus   `json:"status"`
	W           BRCloneSet `json:"w"`
	UnknownKind bool       `json:"unknown_kind,omitempty"` // workloadRef names a kind the controllers do not support (the CRD takes any string)
}

type BRObs struct {
	Panic     string     `json:"panic,omitempty"`
	Err       string     `json:"err,omitempty"`
	Gone      bool       `json:"gone"` // the BatchRelease no longer exists (finalizer removed while deleting)
	Status    BRStatus   `json:"status"`
	W         BRCloneSet `json:"w"`
	Finalizer bool       `json:"finalizer"`
	Requeue   bool       `json:"requeue"`
	// how the Rollout controller's harness (rolloutsm: readBR) reads the same object: consistent, batch Ready, current batch, completed
	View *BRView `json:"view,omitempty"`
}

type BRView struct {
	Consistent bool `json:"consistent"`
	StateReady bool `json:"state_ready"`
	Batch      int  `json:"batch"`
	Completed  bool `json:"completed"`
}

type brexecEngine struct{}

func init() { Register(brexecEngine{}) }

func (brexecEngine) Name() string      { return "brexec" }
func (brexecEngine) CoqModule() string { return "Corr.BRExec" }
func (brexecEngine) Decode(raw json.RawMessage) (any, error) {
	var in BRInput
	err := json.Unmarshal(raw, &in)
	return in, err
}

func (brexecEngine) Gen(r *rand.Rand, idx int, tier string) any {
	n := pick(r, 0, 1, 3, 5, 10, 10, 20, 100, 150)
	in := BRInput{Plan: genPlan(r, n), Finalizer: chance(r, 90), Generation: 1 + r.Intn(5)}
	if chance(r, 85) {
		p := r.Intn(len(in.Plan) + 1)
		if chance(r, 10) {
			p = len(in.Plan) + 2
		}
		in.Partition = &p
	}
	if chance(r, 40) {
		ft := pick(r, Int(1), Int(0), Pct(10), Pct(50))
		in.FT = &ft
	}
	in.Deleting = chance(r, 10)
	if in.Deleting {
		in.Finalizer = true
	}
	st := &in.Status
	st.Phase = pick(r, "", "Preparing", "Progressing", "Progressing", "Progressing", "Progressing", "Finalizing", "Completed", "Initial")
	w := &in.W
	w.Exists = chance(r, 93)
	w.Replicas = n
	w.Gen = 1 + r.Intn(4)
	w.ObsGen = w.Gen
	if chance(r, 10) {
		w.ObsGen = w.Gen - 1
	}
	w.UpdateRev, w.CurrentRev = "rev-v2", "rev-v1"
	if chance(r, 6) {
		w.UpdateRev = "rev-v1" // rolled back
	}
	w.StReplicas = n
	if st.Phase != "" && st.Phase != "Initial" {
		st.Batch = r.Intn(len(in.Plan))
		if chance(r, 5) {
			st.Batch = len(in.Plan) + r.Intn(2)
		}
		st.State = pick(r, "Upgrading", "Verifying", "Ready", "Ready", "", "Weird")
		st.ReadyTime = st.State == "Ready"
		st.Stable, st.Update = "rev-v1", "rev-v2"
		if chance(r, 6) {
			st.Update = "rev-v0" // a newer template arrived since
		}
		st.Hash = "current"
		if chance(r, 12) {
			st.Hash = "stale"
		}
		if chance(r, 4) {
			st.Hash = ""
		}
		st.ObsReplicas = n
		if chance(r, 8) {
			st.ObsReplicas = n + 1 + r.Intn(3)
		}
		if chance(r, 5) {
			st.ObsReplicas = -1
		}
		st.ObsGen = in.Generation
		if chance(r, 15) {
			st.ObsGen = in.Generation - 1
		}
		st.Cond = chance(r, 10)
		w.Ctl = pick(r, "mine", "mine", "mine", "none")
	} else {
		w.Ctl = pick(r, "none", "none", "other")
	}
	// workload progress relative to the current batch
	planned := 0
	if st.Batch < len(in.Plan) {
		v := in.Plan[st.Batch].K8s()
		planned, _ = intstr.GetScaledValueFromIntOrPercent(&v, n, true)
		if planned > n {
			planned = n
		}
	}
	switch r.Intn(5) {
	case 0:
		w.StUpdated = 0
	case 1:
		w.StUpdated = maxInt(planned-1, 0)
	case 2, 3:
		w.StUpdated = planned
	default:
		w.StUpdated = r.Intn(n + 1)
	}
	if chance(r, 4) {
		w.StUpdated = n // promoted
	}
	w.StUpdatedReady = w.StUpdated
	if chance(r, 35) && w.StUpdated > 0 {
		w.StUpdatedReady = r.Intn(w.StUpdated + 1)
	}
	if in.FT != nil && w.StUpdated > 0 && chance(r, 60) {
		// around the edge of the failure threshold, which is a share of the updated pods, not of the whole workload
		v := in.FT.K8s()
		allowed, _ := intstr.GetScaledValueFromIntOrPercent(&v, w.StUpdated, true)
		edge := maxInt(planned, 1) - allowed + pick(r, -1, 0, 0, 1)
		if chance(r, 30) {
			edge = 1 + r.Intn(maxInt(edge, 1))
		}
		w.StUpdatedReady = minInt(maxInt(edge, 0), w.StUpdated)
	}
	if chance(r, 8) && n > 1 {
		// the workload is ahead of the plan, none of its updated pods is ready, and the threshold tolerates all of them
		ft := pick(r, Pct(100), Pct(100), Pct(80), Int(n))
		in.FT = &ft
		w.StUpdated = minInt(maxInt(planned, 0)+1+r.Intn(n), n)
		w.StUpdatedReady = 0
	}
	st.Updated, st.UpdatedReady = w.StUpdated, w.StUpdatedReady
	if chance(r, 30) {
		st.Updated, st.UpdatedReady = r.Intn(n+1), 0
	}
	// current partition
	mk := func(v IOS) *IOS { return &v }
	switch r.Intn(5) {
	case 0:
		w.Partition = nil
	case 1:
		w.Partition = mk(Pct(100))
	case 2:
		w.Partition = mk(Int(n - planned))
	case 3:
		w.Partition = mk(Pct(maxInt(0, 100-100*planned/maxInt(n, 1))))
	default:
		w.Partition = mk(Int(r.Intn(n + 1)))
	}
	w.Paused = chance(r, 20)
	if chance(r, 12) && n >= 10 && st.Batch < len(in.Plan) && planned > 0 {
		// a healthy release being verified, with a percentage failure threshold and as many unready updated pods as it
		// just allows / just forbids: the threshold is a share of the updated pods
		ft := pick(r, Pct(10), Pct(20), Pct(30), Pct(50))
		in.FT = &ft
		in.Deleting = false
		st.Phase, st.State = "Progressing", pick(r, "Verifying", "Ready")
		st.ReadyTime = st.State == "Ready"
		st.Stable, st.Update, st.Hash, st.ObsReplicas, st.ObsGen = "rev-v1", "rev-v2", "current", n, in.Generation
		w.Exists, w.Ctl, w.ObsGen, w.UpdateRev, w.Paused = true, "mine", w.Gen, "rev-v2", false
		w.StUpdated = minInt(planned+pick(r, 0, 0, 1), n)
		v := ft.K8s()
		allowed, _ := intstr.GetScaledValueFromIntOrPercent(&v, w.StUpdated, true)
		w.StUpdatedReady = minInt(maxInt(planned-allowed+pick(r, -1, -1, 0, 0, 1), 1), w.StUpdated)
		st.Updated, st.UpdatedReady = w.StUpdated, w.StUpdatedReady
		w.Partition = mk(Int(n - planned))
	}
	in.UnknownKind = idx%25 == 7
	return in
}

const brUID = "br-uid"

func brPlan(in BRInput) v1beta1.ReleasePlan {
	p := v1beta1.ReleasePlan{}
	for _, b := range in.Plan {
		p.Batches = append(p.Batches, v1beta1.ReleaseBatch{CanaryReplicas: b.K8s()})
	}
	if in.Partition != nil {
		p.BatchPartition = pointer.Int32(int32(*in.Partition))
	}
	if in.FT != nil {
		p.FailureThreshold = ptrIOS(in.FT.K8s())
	}
	return p
}

func (brexecEngine) Run(inAny any) (res any) {
	in := inAny.(BRInput)
	obs := BRObs{}
	plan := brPlan(in)
	curHash := util.HashReleasePlanBatches(&plan)
	br := &v1beta1.BatchRelease{ObjectMeta: metav1.ObjectMeta{Namespace: "ns", Name: "br", UID: brUID, Generation: int64(in.Generation)},
		Spec: v1beta1.BatchReleaseSpec{WorkloadRef: v1beta1.ObjectRef{APIVersion: "apps.kruise.io/v1alpha1", Kind: "CloneSet", Name: "wl"}, ReleasePlan: plan}}
	if in.UnknownKind {
		br.Spec.WorkloadRef = v1beta1.ObjectRef{APIVersion: "example.io/v1", Kind: "Foo", Name: "wl"}
	}
	if in.Finalizer {
		br.Finalizers = []string{batchrelease.ReleaseFinalizer}
	}
	if in.Deleting {
		now := metav1.Now()
		br.DeletionTimestamp = &now
	}
	st := in.Status
	br.Status = v1beta1.BatchReleaseStatus{Phase: v1beta1.RolloutPhase(st.Phase), StableRevision: st.Stable, UpdateRevision: st.Update,
		ObservedWorkloadReplicas: int32(st.ObsReplicas), ObservedGeneration: int64(st.ObsGen)}
	switch st.Hash {
	case "current":
		br.Status.ObservedReleasePlanHash = curHash
	case "stale":
		br.Status.ObservedReleasePlanHash = "stale-hash"
	}
	br.Status.CanaryStatus = v1beta1.BatchReleaseCanaryStatus{CurrentBatchState: v1beta1.BatchReleaseBatchStateType(st.State), CurrentBatch: int32(st.Batch),
		UpdatedReplicas: int32(st.Updated), UpdatedReadyReplicas: int32(st.UpdatedReady)}
	if st.ReadyTime {
		t := metav1.Unix(1000, 0)
		br.Status.CanaryStatus.BatchReadyTime = &t
	}
	if st.Cond {
		br.Status.Conditions = []v1beta1.RolloutCondition{{Type: v1beta1.RolloutConditionProgressing, Status: corev1.ConditionTrue, Reason: "InRolling", Message: "old"}}
		br.Status.Message = "old"
	}
	objs := []client.Object{br}
	if in.W.Exists {
		n32 := int32(in.W.Replicas)
		cs := &kruiseappsv1alpha1.CloneSet{ObjectMeta: metav1.ObjectMeta{Namespace: "ns", Name: "wl", UID: "wl-uid", Generation: int64(in.W.Gen), Annotations: map[string]string{}},
			Spec: kruiseappsv1alpha1.CloneSetSpec{Replicas: &n32, Selector: &metav1.LabelSelector{MatchLabels: map[string]string{"app": "demo"}}, Template: podTemplate()}}
		cs.Spec.UpdateStrategy.Paused = in.W.Paused
		if in.W.Partition != nil {
			cs.Spec.UpdateStrategy.Partition = ptrIOS(in.W.Partition.K8s())
		}
		switch in.W.Ctl {
		case "mine":
			cs.Annotations[util.BatchReleaseControlAnnotation] = controlInfo
		case "other":
			cs.Annotations[util.BatchReleaseControlAnnotation] = `{"apiVersion":"rollouts.kruise.io/v1beta1","kind":"BatchRelease","name":"other","uid":"other-uid","controller":true}`
		}
		cs.Status = kruiseappsv1alpha1.CloneSetStatus{ObservedGeneration: int64(in.W.ObsGen), Replicas: int32(in.W.StReplicas), UpdatedReplicas: int32(in.W.StUpdated),
			UpdatedReadyReplicas: int32(in.W.StUpdatedReady), ReadyReplicas: int32(in.W.StReplicas), UpdateRevision: in.W.UpdateRev, CurrentRevision: in.W.CurrentRev}
		objs = append(objs, cs)
	}
	cli := fake.NewClientBuilder().WithScheme(FullScheme()).WithObjects(objs...).Build()
	rec := batchrelease.VerifNewReconciler(cli, FullScheme(), record.NewFakeRecorder(1000))
	var result ctrl.Result
	func() {
		defer func() {
			if p := recover(); p != nil {
				obs.Panic = fmt.Sprint(p)
			}
		}()
		var err error
		if in.UnknownKind {
			// the first reconcile of a new workload type only registers the watch and waits for the informer
			batchrelease.VerifSetRuntimeController(&scriptedController{ok: true}, &handler.EnqueueRequestForObject{})
			defer batchrelease.VerifSetRuntimeController(nil, nil)
			_, _ = rec.Reconcile(context.TODO(), ctrl.Request{NamespacedName: types.NamespacedName{Namespace: "ns", Name: "br"}})
		}
		result, err = rec.Reconcile(context.TODO(), ctrl.Request{NamespacedName: types.NamespacedName{Namespace: "ns", Name: "br"}})
		if err != nil {
			obs.Err = err.Error()
		}
	}()
	obs.Requeue = result.RequeueAfter > 0 || result.Requeue
	after := &v1beta1.BatchRelease{}
	if err := cli.Get(context.TODO(), types.NamespacedName{Namespace: "ns", Name: "br"}, after); err != nil {
		obs.Gone = true
	} else {
		s := after.Status
		obs.Status = BRStatus{Phase: string(s.Phase), Batch: int(s.CanaryStatus.CurrentBatch), State: string(s.CanaryStatus.CurrentBatchState), ReadyTime: s.CanaryStatus.BatchReadyTime != nil,
			Stable: s.StableRevision, Update: s.UpdateRevision, ObsReplicas: int(s.ObservedWorkloadReplicas), Updated: int(s.CanaryStatus.UpdatedReplicas),
			UpdatedReady: int(s.CanaryStatus.UpdatedReadyReplicas), ObsGen: int(s.ObservedGeneration), Cond: util.GetBatchReleaseCondition(s, v1beta1.RolloutConditionProgressing) != nil}
		switch s.ObservedReleasePlanHash {
		case "":
			obs.Status.Hash = ""
		case curHash:
			obs.Status.Hash = "current"
		default:
			obs.Status.Hash = "stale"
		}
		for _, f := range after.Finalizers {
			if f == batchrelease.ReleaseFinalizer {
				obs.Finalizer = true
			}
		}
		v := readBR(after)
		obs.View = &BRView{Consistent: v.Consistent, StateReady: v.StateReady, Batch: v.Batch, Completed: v.Completed}
	}
	obs.W = in.W
	if in.W.Exists {
		cs := &kruiseappsv1alpha1.CloneSet{}
		if err := cli.Get(context.TODO(), types.NamespacedName{Namespace: "ns", Name: "wl"}, cs); err == nil {
			obs.W.Paused = cs.Spec.UpdateStrategy.Paused
			obs.W.Partition = nil
			if cs.Spec.UpdateStrategy.Partition != nil {
				v := IOSFrom(*cs.Spec.UpdateStrategy.Partition)
				obs.W.Partition = &v
			}
			switch cs.Annotations[util.BatchReleaseControlAnnotation] {
			case "":
				obs.W.Ctl = "none"
			default:
				ref := &metav1.OwnerReference{}
				_ = json.Unmarshal([]byte(cs.Annotations[util.BatchReleaseControlAnnotation]), ref)
				if ref.UID == brUID {
					obs.W.Ctl = "mine"
				} else {
					obs.W.Ctl = "other"
				}
			}
		}
	}
	return obs
}

func coqBRStatus(s BRStatus) string {
	phase := map[string]string{"": "PhInitial", "Preparing": "PhPreparing", "Progressing": "PhProgressing", "Finalizing": "PhFinalizing", "Completed": "PhCompleted"}[s.Phase]
	if phase == "" {
		phase = emit.App("PhOther", emit.Str(s.Phase))
	}
	state := map[string]string{"": "SEmpty", "Upgrading": "SUpgrading", "Verifying": "SVerifying", "Ready": "SReady"}[s.State]
	if state == "" {
		state = emit.App("SOther", emit.Str(s.State))
	}
	return emit.App("Build_br_status", phase, emit.Z(int64(s.Batch)), state, emit.Bool(s.ReadyTime), emit.Str(s.Stable), emit.Str(s.Update), emit.Str(s.Hash),
		emit.Z(int64(s.ObsReplicas)), emit.Z(int64(s.Updated)), emit.Z(int64(s.UpdatedReady)), emit.Z(int64(s.ObsGen)), emit.Bool(s.Cond))
}

func coqBRCloneSet(w BRCloneSet) string {
	ctl := map[string]string{"none": "CtlNone", "": "CtlNone", "mine": "CtlMine", "other": "CtlOther"}[w.Ctl]
	return emit.App("Build_cloneset", emit.Bool(w.Exists), emit.Z(int64(w.Replicas)), emit.Z(int64(w.Gen)), emit.Z(int64(w.ObsGen)), emit.Z(int64(w.StReplicas)),
		emit.Z(int64(w.StUpdated)), emit.Z(int64(w.StUpdatedReady)), emit.Str(w.UpdateRev), emit.Str(w.CurrentRev), optIOS(w.Partition), emit.Bool(w.Paused), ctl)
}

func (brexecEngine) Coq(inAny any, obsAny any) string {
	in := inAny.(BRInput)
	obs := obsAny.(BRObs)
	part := "None"
	if in.Partition != nil {
		part = emit.Some(emit.Z(int64(*in.Partition)))
	}
	spec := emit.App("Build_br_spec", emit.ListOf(in.Plan, IOS.Coq), part, optIOS(in.FT), emit.Str("current"), emit.Bool(in.Deleting), emit.Bool(in.Finalizer), emit.Z(int64(in.Generation)))
	view := "None"
	if obs.View != nil {
		view = emit.Some("(" + emit.Bool(obs.View.Consistent) + ", " + emit.Bool(obs.View.StateReady) + ", " + emit.Z(int64(obs.View.Batch)) + ", " + emit.Bool(obs.View.Completed) + ")")
	}
	o := emit.App("Build_br_obs", emit.Bool(obs.Panic != ""), emit.Bool(obs.Err != ""), emit.Bool(obs.Gone), coqBRStatus(obs.Status), coqBRCloneSet(obs.W), emit.Bool(obs.Finalizer), emit.Bool(obs.Requeue), view, emit.Bool(in.UnknownKind))
	return "(" + spec + ", " + coqBRStatus(in.Status) + ", " + coqBRCloneSet(in.W) + ", " + o + ")"
}
