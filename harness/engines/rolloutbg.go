package engines

import (
	"encoding/json"
	"math/rand"
	"strings"
)

// rolloutbg: the rolloutsm cases run with the blue-green strategy.
type rolloutbgEngine struct{}

func init() { Register(rolloutbgEngine{}) }

func (rolloutbgEngine) Name() string      { return "rolloutbg" }
func (rolloutbgEngine) CoqModule() string { return "Corr.RolloutBG" }
func (rolloutbgEngine) Decode(raw json.RawMessage) (any, error) {
	var in RInput
	err := json.Unmarshal(raw, &in)
	return in, err
}
func (rolloutbgEngine) Run(inAny any) any {
	obs, _ := runRolloutCase(inAny.(RInput), nil)
	return obs
}
func (rolloutbgEngine) Gen(r *rand.Rand, idx int, tier string) any {
	in := rolloutsmEngine{}.Gen(r, idx, tier).(RInput)
	in.BlueGreen = true
	if in.Status.Sub != nil {
		// the cursor string of the blue-green-only task; unknown strings are not generated (the model reads FtOther as that task)
		switch {
		case in.Status.Sub.Fin != "" && !knownFin(in.Status.Sub.Fin):
			in.Status.Sub.Fin = "FinalisingStepRouteTrafficToNew"
		case chance(r, 8):
			in.Status.Sub.Fin = "FinalisingStepRouteTrafficToNew"
		}
	}
	// style switched after a completed canary release, then deleted or disabled before the next release starts
	if idx%12 == 5 {
		in.StaleCanary = true
		in.Paused = false
		st := &in.Status
		st.Sub = &RSub{ObsWlGen: in.W.Gen, ObsRID: "v2", Hash: "current", Stable: "v1", PTH: "v2", CanaryRev: "v2", Idx: len(in.Steps), Next: -1, State: "Completed", Elapsed: true}
		st.Prog, st.ProgStatus, st.ProgElapsed, st.Succ, st.Term = "Completed", false, true, "True", ""
		in.W.InProgress = false
		in.BR = nil
		if chance(r, 60) {
			in.Deleting, in.Disabled, in.Finalizer = true, false, true
			st.Phase = pick(r, "Healthy", "Terminating")
			if st.Phase == "Terminating" {
				st.Term = "InTerminating"
			}
		} else {
			in.Deleting, in.Disabled = false, true
			st.Phase = pick(r, "Healthy", "Disabling", "Disabled")
		}
	}
	return in
}
func knownFin(s string) bool {
	for _, k := range ftasks {
		if k == s {
			return true
		}
	}
	return false
}
func (rolloutbgEngine) Coq(inAny any, obsAny any) string {
	if in := inAny.(RInput); in.StaleCanary {
		in.Status.Sub = nil // what the blue-green manager sees
		inAny = in
	}
	s := rolloutsmEngine{}.Coq(inAny, obsAny)
	return strings.Replace(s, "Build_ro_case", "Build_ro_case", 1)
}
