package engines

import (
	"encoding/json"
	"math/rand"
	"strings"
)

// rolloutbg: the rolloutsm cases run with the blue-green strategy.
type rolloutbgEngine struct{}

func init() { Register(rolloutbgEngine{}) }

func (rolloutbgEngine) Name() string      { return "rolloutbg" }
func (rolloutbgEngine) CoqModule() string { return "Corr.RolloutBG" }
func (rolloutbgEngine) Decode(raw json.RawMessage) (any, error) {
	var in RInput
	err := json.Unmarshal(raw, &in)
	return in, err
}
func (rolloutbgEngine) Run(inAny any) any {
	obs, _ := runRolloutCase(inAny.(RInput), nil)
	return obs
}
func (rolloutbgEngine) Gen(r *rand.Rand, idx int, tier string) any {
	in := rolloutsmEngine{}.Gen(r, idx, tier).(RInput)
	in.BlueGreen = true
	if in.Status.Sub != nil {
		// the cursor string of the blue-green-only task; unknown strings are not generated (the model reads FtOther as that task)
		switch {
		case in.Status.Sub.Fin != "" && !knownFin(in.Status.Sub.Fin):
			in.Status.Sub.Fin = "FinalisingStepRouteTrafficToNew"
		case chance(r, 8):
			in.Status.Sub.Fin = "FinalisingStepRouteTrafficToNew"
		}
	}
	return in
}
func knownFin(s string) bool {
	for _, k := range ftasks {
		if k == s {
			return true
		}
	}
	return false
}
func (rolloutbgEngine) Coq(inAny any, obsAny any) string {
	s := rolloutsmEngine{}.Coq(inAny, obsAny)
	return strings.Replace(s, "Build_ro_case", "Build_ro_case", 1)
}
