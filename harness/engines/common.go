// Package engines: one correspondence engine per modelled piece of /repo.
package engines

import (
	"encoding/json"
	"fmt"
	"math/rand"
	"os"
	"path/filepath"
	"sort"
	"strings"

	"verifharness/emit"
)

// Engine runs real code of /repo on generated inputs and prints (input, observed) as Coq terms.
type Engine interface {
	Name() string
	// CoqModule is the Corr module that defines the case type, `judge` and `tag`.
	CoqModule() string
	// Gen draws the idx-th input from r (idx allows forcing boundary cases first).
	Gen(r *rand.Rand, idx int, tier string) any
	// Decode parses an input from JSON (replay, corpus).
	Decode(raw json.RawMessage) (any, error)
	// Run executes the implementation and returns the projected observables.
	Run(in any) any
	// Coq prints one case as a Coq term of the engine's case type.
	Coq(in any, obs any) string
}

var registry = map[string]Engine{}

func Register(e Engine) { registry[e.Name()] = e }
func Get(name string) Engine { return registry[name] }
func Names() []string {
	var ns []string
	for n := range registry {
		ns = append(ns, n)
	}
	sort.Strings(ns)
	return ns
}

type CaseRec struct {
	Index    int             `json:"index"`
	Input    json.RawMessage `json:"input"`
	Observed json.RawMessage `json:"observed"`
}

// RunEngine generates n cases (corpus and replay inputs first), runs them, and writes
// out/cases.json and out/cases_<k>.v (shards of at most shard cases).
func RunEngine(e Engine, seed int64, n int, tier string, out string, shard int, inputs []json.RawMessage) error {
	if err := os.MkdirAll(out, 0o755); err != nil {
		return err
	}
	r := rand.New(rand.NewSource(seed))
	emit.StartInterning()
	var recs []CaseRec
	var coq []string
	add := func(in any) error {
		inj, err := json.Marshal(in)
		if err != nil {
			return err
		}
		obs := e.Run(in)
		oj, err := json.Marshal(obs)
		if err != nil {
			return err
		}
		recs = append(recs, CaseRec{Index: len(recs), Input: inj, Observed: oj})
		coq = append(coq, e.Coq(in, obs))
		return nil
	}
	for _, raw := range inputs {
		in, err := e.Decode(raw)
		if err != nil {
			return fmt.Errorf("decode input: %w", err)
		}
		if err := add(in); err != nil {
			return err
		}
	}
	for i := 0; i < n; i++ {
		if err := add(e.Gen(r, i, tier)); err != nil {
			return err
		}
	}
	js, _ := json.Marshal(recs)
	if err := os.WriteFile(filepath.Join(out, "cases.json"), js, 0o644); err != nil {
		return err
	}
	if shard <= 0 {
		shard = 500
	}
	k := 0
	for lo := 0; lo < len(coq); lo += shard {
		hi := lo + shard
		if hi > len(coq) {
			hi = len(coq)
		}
		var b strings.Builder
		fmt.Fprintf(&b, "From RV Require Import %s.\n", e.CoqModule())
		b.WriteString(emit.Table())
		fmt.Fprintf(&b, "Definition cases : list case := [\n%s\n].\n", strings.Join(coq[lo:hi], ";\n"))
		fmt.Fprintf(&b, "Definition R := Eval vm_compute in run_cases judge cases.\nPrint R.\n")
		fmt.Fprintf(&b, "Definition H := Eval vm_compute in histogram (map tag cases).\nPrint H.\n")
		name := fmt.Sprintf("cases_%s_%d.v", e.Name(), k)
		if err := os.WriteFile(filepath.Join(out, name), []byte(b.String()), 0o644); err != nil {
			return err
		}
		fmt.Printf("SHARD %s base=%d count=%d\n", name, lo, hi-lo)
		k++
	}
	fmt.Printf("CASES %d\n", len(coq))
	return nil
}

// small helpers for generators
func pick[T any](r *rand.Rand, xs ...T) T { return xs[r.Intn(len(xs))] }
func chance(r *rand.Rand, pct int) bool   { return r.Intn(100) < pct }

var _ = emit.Str
