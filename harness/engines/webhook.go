package engines

import (
	"context"
	"crypto/sha1"
	"encoding/hex"
	"encoding/json"
	"fmt"
	"math/rand"
	"reflect"
	"sort"
	"strconv"
	"strings"

	jsonpatch "github.com/evanphx/json-patch"
	kruisev1alpha1 "github.com/openkruise/kruise-api/apps/v1alpha1"
	admissionv1 "k8s.io/api/admission/v1"
	admregv1 "k8s.io/api/admissionregistration/v1"
	apps "k8s.io/api/apps/v1"
	corev1 "k8s.io/api/core/v1"
	metav1 "k8s.io/apimachinery/pkg/apis/meta/v1"
	"k8s.io/apimachinery/pkg/runtime"
	"k8s.io/apimachinery/pkg/types"
	"k8s.io/apimachinery/pkg/util/intstr"
	"k8s.io/utils/pointer"
	"sigs.k8s.io/controller-runtime/pkg/client"
	"sigs.k8s.io/controller-runtime/pkg/client/fake"
	"sigs.k8s.io/controller-runtime/pkg/webhook/admission"

	"github.com/openkruise/rollouts/api/v1alpha1"
	"github.com/openkruise/rollouts/api/v1beta1"
	"github.com/openkruise/rollouts/pkg/util"
	"github.com/openkruise/rollouts/pkg/webhook/util/configuration"
	"github.com/openkruise/rollouts/pkg/webhook/workload/mutating"

	"verifharness/emit"
)

// WHObj describes one side (old or new) of the admitted workload.
type WHObj struct {
	Replicas  *int              `json:"replicas"`
	RID       string            `json:"rid,omitempty"`
	Tmpl      string            `json:"tmpl"`               // image tag of the template
	HashLabel string            `json:"hash_label,omitempty"` // pod-template-hash label inside the template
	Progress  string            `json:"progress,omitempty"`
	Labels    map[string]string `json:"labels,omitempty"`
	Annos     map[string]string `json:"annos,omitempty"` // unrelated annotations
	NilMaps   bool              `json:"nil_maps,omitempty"`
	// CloneSet
	Partition  *IOS `json:"partition,omitempty"`
	StReplicas int  `json:"st_replicas,omitempty"`
	StUpdated  int  `json:"st_updated,omitempty"`
	// DaemonSet
	DSType      string `json:"ds_type,omitempty"`
	DSRolling   bool   `json:"ds_rolling,omitempty"`
	DSPartition *int   `json:"ds_partition,omitempty"`
	// Deployment
	Paused        bool       `json:"paused,omitempty"`
	SType         string     `json:"stype,omitempty"`
	RU            *[2]string `json:"ru,omitempty"`
	Style         string     `json:"style,omitempty"` // rollingStyle inside the strategy annotation; "-" = no annotation
	AnnoPaused    bool       `json:"anno_paused,omitempty"`
	AnnoPartition *IOS       `json:"anno_partition,omitempty"`
	Original      string     `json:"original,omitempty"`
	StableLabel   string     `json:"stable_label,omitempty"`
	// StatefulSet-like
	WType        string `json:"wtype,omitempty"`
	STSType      string `json:"sts_type,omitempty"`
	STSHasUS     bool   `json:"sts_has_us,omitempty"`
	STSHasRU     bool   `json:"sts_has_ru,omitempty"`
	STSPartition *int   `json:"sts_partition,omitempty"`
	NoTmpl       bool   `json:"no_tmpl,omitempty"`
}

type WHRollout struct {
	Name       string `json:"name"`
	Deleting   bool   `json:"deleting,omitempty"`
	Phase      string `json:"phase,omitempty"`
	APIVersion string `json:"api_version"`
	Kind       string `json:"kind"`
	WLName     string `json:"wl_name"`
	Strategy   string `json:"strategy"` // "canary" | "bluegreen" | "empty"
	Traffic    bool   `json:"traffic,omitempty"`
}

type WHRS struct {
	Rev      int    `json:"rev"`
	Replicas int    `json:"replicas"`
	Deleting bool   `json:"deleting,omitempty"`
	Owned    bool   `json:"owned"`
	Tmpl     string `json:"tmpl"`
	Hash     string `json:"hash"`
}

type WHInput struct {
	Kind     string            `json:"kind"` // CloneSet | DaemonSet | Deployment | Other
	Group    string            `json:"group,omitempty"`
	KindName string            `json:"kind_name,omitempty"`
	Name     string            `json:"name"`
	New      WHObj             `json:"new"`
	Old      WHObj             `json:"old"`
	Rollouts []WHRollout       `json:"rollouts"`
	RSs      []WHRS            `json:"rss,omitempty"`
	Op       string            `json:"op"`
	Sub      string            `json:"sub,omitempty"`
	Rule     bool              `json:"rule"`
	Selector map[string]string `json:"selector,omitempty"`
}

type WHFields struct {
	Progress     string  `json:"progress"`
	Partition    *IOS    `json:"partition"`
	DSPartition  *int64  `json:"ds_partition"`
	Paused       bool    `json:"paused"`
	SType        string  `json:"stype"`
	RU           *string `json:"ru"`
	AnnoPaused   bool    `json:"anno_paused"`
	AnnoRaw      string  `json:"anno_raw"`
	StableLabel  string  `json:"stable_label"`
	STSPartition *int64  `json:"sts_partition"`
	STSType      string  `json:"sts_type"`
}

type WHObs struct {
	Panic   string   `json:"panic,omitempty"`
	Result  string   `json:"result"` // unchanged | patched | error
	Msg     string   `json:"msg,omitempty"`
	Before  WHFields `json:"before"`
	After   WHFields `json:"after"`
	Written bool     `json:"written"` // strategy annotation differs textually from the submitted one
	Frame   bool     `json:"frame"`   // nothing outside the modelled fields changed
	Diff    string   `json:"diff,omitempty"`
}

type webhookEngine struct{}

func init() { Register(webhookEngine{}) }

func (webhookEngine) Name() string      { return "webhook" }
func (webhookEngine) CoqModule() string { return "Corr.Webhook" }
func (webhookEngine) Decode(raw json.RawMessage) (any, error) {
	var in WHInput
	err := json.Unmarshal(raw, &in)
	return in, err
}

func whGroupKind(in WHInput) (string, string, string, string) { // group, version, kind, resource
	switch in.Kind {
	case "CloneSet":
		return "apps.kruise.io", "v1alpha1", "CloneSet", "clonesets"
	case "DaemonSet":
		return "apps.kruise.io", "v1alpha1", "DaemonSet", "daemonsets"
	case "Deployment":
		return "apps", "v1", "Deployment", "deployments"
	}
	v := "v1"
	if in.Group == "apps.kruise.io" {
		v = "v1beta1"
	}
	return in.Group, v, in.KindName, strings.ToLower(in.KindName) + "s"
}

func whTemplate(o WHObj) corev1.PodTemplateSpec {
	// "<tag>+m": the same containers, but the template's own labels / annotations were edited (a restartedAt stamp, a
	// version label): a new revision all the same
	tag, meta := o.Tmpl, false
	if strings.HasSuffix(tag, "+m") {
		tag, meta = strings.TrimSuffix(tag, "+m"), true
	}
	t := corev1.PodTemplateSpec{
		ObjectMeta: metav1.ObjectMeta{Labels: map[string]string{"app": "demo"}},
		Spec:       corev1.PodSpec{Containers: []corev1.Container{{Name: "main", Image: "img:" + tag}}},
	}
	if meta {
		t.Labels["version"] = "next"
		t.Annotations = map[string]string{"kubectl.kubernetes.io/restartedAt": "2026-01-01T00:00:00Z"}
	}
	if o.HashLabel != "" {
		t.Labels[apps.DefaultDeploymentUniqueLabelKey] = o.HashLabel
	}
	return t
}

func whMeta(in WHInput, o WHObj) metav1.ObjectMeta {
	m := metav1.ObjectMeta{Namespace: "ns", Name: in.Name, UID: types.UID("uid-" + in.Name)}
	if !o.NilMaps {
		m.Labels = map[string]string{}
		m.Annotations = map[string]string{}
	}
	setL := func(k, v string) {
		if v == "" {
			return
		}
		if m.Labels == nil {
			m.Labels = map[string]string{}
		}
		m.Labels[k] = v
	}
	setA := func(k, v string) {
		if v == "" {
			return
		}
		if m.Annotations == nil {
			m.Annotations = map[string]string{}
		}
		m.Annotations[k] = v
	}
	for k, v := range o.Labels {
		setL(k, v)
	}
	for k, v := range o.Annos {
		setA(k, v)
	}
	setA(v1beta1.RolloutIDLabel, o.RID)
	setA(util.InRolloutProgressingAnnotation, o.Progress)
	setL(util.WorkloadTypeLabel, o.WType)
	if in.Kind == "Deployment" {
		setL(v1alpha1.DeploymentStableRevisionLabel, o.StableLabel)
		setA(v1beta1.OriginalDeploymentStrategyAnnotation, o.Original)
		if o.Style != "-" {
			st := v1alpha1.DeploymentStrategy{RollingStyle: v1alpha1.RollingStyleType(o.Style), Paused: o.AnnoPaused}
			if o.AnnoPartition != nil {
				st.Partition = o.AnnoPartition.K8s()
			}
			by, _ := json.Marshal(st)
			setA(v1alpha1.DeploymentStrategyAnnotation, string(by))
		}
	}
	return m
}

func i32(p *int) *int32 {
	if p == nil {
		return nil
	}
	v := int32(*p)
	return &v
}

func whBuild(in WHInput, o WHObj) []byte {
	sel := &metav1.LabelSelector{MatchLabels: map[string]string{"app": "demo"}}
	var obj any
	switch in.Kind {
	case "CloneSet":
		cs := &kruisev1alpha1.CloneSet{TypeMeta: metav1.TypeMeta{APIVersion: "apps.kruise.io/v1alpha1", Kind: "CloneSet"}, ObjectMeta: whMeta(in, o)}
		cs.Spec.Replicas = i32(o.Replicas)
		cs.Spec.Selector = sel
		cs.Spec.Template = whTemplate(o)
		if o.Partition != nil {
			p := o.Partition.K8s()
			cs.Spec.UpdateStrategy.Partition = &p
		}
		cs.Status.Replicas, cs.Status.UpdatedReplicas = int32(o.StReplicas), int32(o.StUpdated)
		obj = cs
	case "DaemonSet":
		ds := &kruisev1alpha1.DaemonSet{TypeMeta: metav1.TypeMeta{APIVersion: "apps.kruise.io/v1alpha1", Kind: "DaemonSet"}, ObjectMeta: whMeta(in, o)}
		ds.Spec.Selector = sel
		ds.Spec.Template = whTemplate(o)
		ds.Spec.UpdateStrategy.Type = kruisev1alpha1.DaemonSetUpdateStrategyType(o.DSType)
		if o.DSRolling {
			mu := intstr.FromInt(1)
			ds.Spec.UpdateStrategy.RollingUpdate = &kruisev1alpha1.RollingUpdateDaemonSet{MaxUnavailable: &mu, Partition: i32(o.DSPartition)}
		}
		obj = ds
	case "Deployment":
		d := &apps.Deployment{TypeMeta: metav1.TypeMeta{APIVersion: "apps/v1", Kind: "Deployment"}, ObjectMeta: whMeta(in, o)}
		d.Spec.Replicas = i32(o.Replicas)
		d.Spec.Selector = sel
		d.Spec.Template = whTemplate(o)
		d.Spec.Paused = o.Paused
		d.Spec.Strategy.Type = apps.DeploymentStrategyType(o.SType)
		if o.RU != nil {
			mu, ms := intstr.Parse(o.RU[0]), intstr.Parse(o.RU[1])
			d.Spec.Strategy.RollingUpdate = &apps.RollingUpdateDeployment{MaxUnavailable: &mu, MaxSurge: &ms}
		}
		obj = d
	default:
		g, v, k, _ := whGroupKind(in)
		m := whMeta(in, o)
		meta := map[string]any{"namespace": m.Namespace, "name": m.Name, "uid": string(m.UID)}
		if m.Labels != nil {
			meta["labels"] = m.Labels
		}
		if m.Annotations != nil {
			meta["annotations"] = m.Annotations
		}
		spec := map[string]any{"selector": sel, "serviceName": "svc"}
		if o.Replicas != nil {
			spec["replicas"] = *o.Replicas
		}
		if !o.NoTmpl {
			spec["template"] = whTemplate(o)
		}
		if o.STSHasUS {
			us := map[string]any{}
			if o.STSType != "" {
				us["type"] = o.STSType
			}
			if o.STSHasRU {
				ru := map[string]any{}
				if o.STSPartition != nil {
					ru["partition"] = *o.STSPartition
				}
				us["rollingUpdate"] = ru
			}
			spec["updateStrategy"] = us
		}
		obj = map[string]any{"apiVersion": g + "/" + v, "kind": k, "metadata": meta, "spec": spec}
	}
	by, err := json.Marshal(obj)
	if err != nil {
		panic(err)
	}
	return by
}

func whDigest(v any) string {
	by, _ := json.Marshal(v)
	h := sha1.Sum(by)
	return hex.EncodeToString(h[:])[:12]
}

// whTmplDigest identifies the template up to the pod-template-hash label (what EqualIgnoreHash compares).
func whTmplDigest(o WHObj) string {
	if o.NoTmpl {
		return "none"
	}
	t := whTemplate(o)
	delete(t.Labels, apps.DefaultDeploymentUniqueLabelKey)
	return whDigest(t)
}

func nested(m map[string]any, path ...string) (any, bool) {
	var cur any = m
	for _, p := range path {
		mm, ok := cur.(map[string]any)
		if !ok {
			return nil, false
		}
		cur, ok = mm[p]
		if !ok {
			return nil, false
		}
	}
	return cur, true
}

func delNested(m map[string]any, path ...string) {
	cur := m
	for _, p := range path[:len(path)-1] {
		next, ok := cur[p].(map[string]any)
		if !ok {
			return
		}
		cur = next
	}
	delete(cur, path[len(path)-1])
}

// prune removes nulls and empty maps so that "absent" and "empty" compare equal.
func prune(v any) any {
	switch t := v.(type) {
	case map[string]any:
		for k, x := range t {
			px := prune(x)
			if px == nil {
				delete(t, k)
			} else {
				t[k] = px
			}
		}
		if len(t) == 0 {
			return nil
		}
		return t
	case []any:
		for i := range t {
			t[i] = prune(t[i])
		}
		return t
	}
	return v
}

func whProject(kind string, raw []byte) (WHFields, map[string]any) {
	var m map[string]any
	if err := json.Unmarshal(raw, &m); err != nil {
		panic(err)
	}
	f := WHFields{}
	str := func(path ...string) string {
		v, ok := nested(m, path...)
		if !ok {
			return ""
		}
		s, _ := v.(string)
		return s
	}
	num := func(path ...string) *int64 {
		v, ok := nested(m, path...)
		if !ok {
			return nil
		}
		fl, ok := v.(float64)
		if !ok {
			return nil
		}
		n := int64(fl)
		return &n
	}
	f.Progress = str("metadata", "annotations", util.InRolloutProgressingAnnotation)
	f.StableLabel = str("metadata", "labels", v1alpha1.DeploymentStableRevisionLabel)
	f.AnnoRaw = str("metadata", "annotations", v1alpha1.DeploymentStrategyAnnotation)
	if f.AnnoRaw != "" {
		st := v1alpha1.DeploymentStrategy{}
		_ = json.Unmarshal([]byte(f.AnnoRaw), &st)
		f.AnnoPaused = st.Paused
	}
	switch kind {
	case "CloneSet":
		if v, ok := nested(m, "spec", "updateStrategy", "partition"); ok && v != nil {
			by, _ := json.Marshal(v)
			var x intstr.IntOrString
			_ = json.Unmarshal(by, &x)
			i := IOSFrom(x)
			f.Partition = &i
		}
		delNested(m, "spec", "updateStrategy", "partition")
	case "DaemonSet":
		f.DSPartition = num("spec", "updateStrategy", "rollingUpdate", "partition")
		delNested(m, "spec", "updateStrategy", "rollingUpdate", "partition")
	case "Deployment":
		if v, ok := nested(m, "spec", "paused"); ok {
			f.Paused, _ = v.(bool)
		}
		f.SType = str("spec", "strategy", "type")
		if v, ok := nested(m, "spec", "strategy", "rollingUpdate"); ok && v != nil {
			d := whDigest(v)
			f.RU = &d
		}
		delNested(m, "spec", "paused")
		delNested(m, "spec", "strategy", "type")
		delNested(m, "spec", "strategy", "rollingUpdate")
	default:
		f.STSPartition = num("spec", "updateStrategy", "rollingUpdate", "partition")
		f.STSType = str("spec", "updateStrategy", "type")
		delNested(m, "spec", "updateStrategy", "rollingUpdate", "partition")
		delNested(m, "spec", "updateStrategy", "type")
	}
	delNested(m, "metadata", "annotations", util.InRolloutProgressingAnnotation)
	delNested(m, "metadata", "annotations", v1alpha1.DeploymentStrategyAnnotation)
	delNested(m, "metadata", "labels", v1alpha1.DeploymentStableRevisionLabel)
	rest, _ := prune(m).(map[string]any)
	return f, rest
}

func whScheme() *runtime.Scheme { return FullScheme() }

func (webhookEngine) Run(inAny any) (out any) {
	in := inAny.(WHInput)
	obs := WHObs{}
	defer func() {
		if p := recover(); p != nil {
			obs.Panic = fmt.Sprint(p)
			out = obs
		}
	}()
	scheme := whScheme()
	g, v, k, res := whGroupKind(in)
	newRaw, oldRaw := whBuild(in, in.New), whBuild(in, in.Old)
	obs.Before, _ = whProject(in.Kind, newRaw)

	var objs []client.Object
	cfg := &admregv1.MutatingWebhookConfiguration{ObjectMeta: metav1.ObjectMeta{Name: configuration.MutatingWebhookConfigurationName}}
	rule := admregv1.RuleWithOperations{
		Rule:       admregv1.Rule{APIGroups: []string{g}, APIVersions: []string{v}, Resources: []string{res}},
		Operations: []admregv1.OperationType{admregv1.Update},
	}
	other := admregv1.RuleWithOperations{
		Rule:       admregv1.Rule{APIGroups: []string{"batch"}, APIVersions: []string{"v1"}, Resources: []string{"jobs"}},
		Operations: []admregv1.OperationType{admregv1.Update},
	}
	wh := admregv1.MutatingWebhook{Name: "w1", Rules: []admregv1.RuleWithOperations{other}}
	if in.Rule {
		wh.Rules = append(wh.Rules, rule)
	}
	// the API server defaults objectSelector to {} (everything); a nil selector never reaches the handler
	wh.ObjectSelector = &metav1.LabelSelector{MatchLabels: in.Selector}
	cfg.Webhooks = []admregv1.MutatingWebhook{{Name: "w0", Rules: []admregv1.RuleWithOperations{other}}, wh}
	objs = append(objs, cfg)
	for _, r := range in.Rollouts {
		ro := &v1beta1.Rollout{ObjectMeta: metav1.ObjectMeta{Namespace: "ns", Name: r.Name}}
		if r.Deleting {
			now := metav1.Now()
			ro.DeletionTimestamp = &now
			ro.Finalizers = []string{"verif/hold"}
		}
		ro.Status.Phase = v1beta1.RolloutPhase(r.Phase)
		ro.Spec.WorkloadRef = v1beta1.ObjectRef{APIVersion: r.APIVersion, Kind: r.Kind, Name: r.WLName}
		var tr []v1beta1.TrafficRoutingRef
		if r.Traffic {
			tr = []v1beta1.TrafficRoutingRef{{Service: "svc", Ingress: &v1beta1.IngressTrafficRouting{Name: "ing"}}}
		}
		steps := []v1beta1.CanaryStep{{Replicas: &intstr.IntOrString{Type: intstr.String, StrVal: "50%"}}}
		switch r.Strategy {
		case "canary":
			ro.Spec.Strategy.Canary = &v1beta1.CanaryStrategy{Steps: steps, TrafficRoutings: tr}
		case "bluegreen":
			ro.Spec.Strategy.BlueGreen = &v1beta1.BlueGreenStrategy{Steps: steps, TrafficRoutings: tr}
		}
		objs = append(objs, ro)
	}
	for i, rs := range in.RSs {
		t := whTemplate(WHObj{Tmpl: rs.Tmpl, HashLabel: rs.Hash})
		o := &apps.ReplicaSet{ObjectMeta: metav1.ObjectMeta{Namespace: "ns", Name: fmt.Sprintf("rs-%d", i),
			Labels:            map[string]string{"app": "demo", apps.DefaultDeploymentUniqueLabelKey: rs.Hash},
			Annotations:       map[string]string{util.DeploymentRevisionAnnotation: strconv.Itoa(rs.Rev)},
			CreationTimestamp: metav1.Unix(int64(1000+i), 0)}}
		uid := types.UID("uid-" + in.Name)
		if !rs.Owned {
			uid = "uid-somebody-else"
		}
		o.OwnerReferences = []metav1.OwnerReference{{APIVersion: "apps/v1", Kind: "Deployment", Name: in.Name, UID: uid, Controller: pointer.Bool(true)}}
		if rs.Deleting {
			now := metav1.Now()
			o.DeletionTimestamp = &now
			o.Finalizers = []string{"verif/hold"}
		}
		o.Spec.Replicas = pointer.Int32(int32(rs.Replicas))
		o.Spec.Template = t
		objs = append(objs, o)
	}
	cli := fake.NewClientBuilder().WithScheme(scheme).WithObjects(objs...).Build()
	decoder, err := admission.NewDecoder(scheme)
	if err != nil {
		panic(err)
	}
	req := admission.Request{AdmissionRequest: admissionv1.AdmissionRequest{
		Name: in.Name, Namespace: "ns",
		Kind:        metav1.GroupVersionKind{Group: g, Version: v, Kind: k},
		Resource:    metav1.GroupVersionResource{Group: g, Version: v, Resource: res},
		SubResource: in.Sub,
		Operation:   admissionv1.Operation(in.Op),
		Object:      runtime.RawExtension{Raw: newRaw},
		OldObject:   runtime.RawExtension{Raw: oldRaw},
		DryRun:      pointer.Bool(false),
	}}
	var resp admission.Response
	if in.Kind == "Other" {
		h := &mutating.UnifiedWorkloadHandler{Client: cli, Decoder: decoder, Finder: util.NewControllerFinder(cli)}
		resp = h.Handle(context.TODO(), req)
	} else {
		h := &mutating.WorkloadHandler{Client: cli, Decoder: decoder, Finder: util.NewControllerFinder(cli)}
		resp = h.Handle(context.TODO(), req)
	}
	if !resp.Allowed {
		obs.Result = "error"
		if resp.Result != nil {
			obs.Msg = resp.Result.Message
		}
		return obs
	}
	if len(resp.Patches) == 0 {
		obs.Result = "unchanged"
		obs.After = obs.Before
		obs.Frame = true
		return obs
	}
	pj, _ := json.Marshal(resp.Patches)
	patch, err := jsonpatch.DecodePatch(pj)
	if err != nil {
		panic(err)
	}
	patched, err := patch.Apply(newRaw)
	if err != nil {
		panic(fmt.Sprintf("apply patch: %v", err))
	}
	obs.Result = "patched"
	var restBefore, restAfter map[string]any
	_, restBefore = whProject(in.Kind, newRaw)
	obs.After, restAfter = whProject(in.Kind, patched)
	obs.Written = obs.After.AnnoRaw != obs.Before.AnnoRaw
	obs.Frame = reflect.DeepEqual(restBefore, restAfter)
	if !obs.Frame {
		a, _ := json.Marshal(restBefore)
		b, _ := json.Marshal(restAfter)
		obs.Diff = string(a) + " => " + string(b)
	}
	return obs
}

func whStype(s string) string {
	switch s {
	case "RollingUpdate":
		return "StRolling"
	case "Recreate":
		return "StRecreate"
	}
	return "StEmpty"
}

func optInt64(p *int64) string {
	if p == nil {
		return "None"
	}
	return emit.Some(emit.Z(*p))
}

func optInt(p *int) string {
	if p == nil {
		return "None"
	}
	return emit.Some(emit.Z(int64(*p)))
}

func whFieldsCoq(f WHFields, written bool) string {
	ru := "None"
	if f.RU != nil {
		ru = emit.Some(emit.Str(*f.RU))
	}
	return emit.App("Build_wpatch", emit.Str(f.Progress), optIOS(f.Partition), optInt64(f.DSPartition), emit.Bool(f.Paused), whStype(f.SType), ru,
		emit.Bool(f.AnnoPaused), emit.Bool(written), emit.Str(f.StableLabel), optInt64(f.STSPartition), emit.Str(f.STSType))
}

func sortedPairs(m map[string]string) string {
	var ks []string
	for k := range m {
		ks = append(ks, k)
	}
	sort.Strings(ks)
	return emit.ListOf(ks, func(k string) string { return emit.Pair(emit.Str(k), emit.Str(m[k])) })
}

func (webhookEngine) Coq(inAny any, obsAny any) string {
	in, obs := inAny.(WHInput), obsAny.(WHObs)
	kind := "K" + in.Kind
	if in.Kind == "Other" {
		kind = emit.App("KOther", emit.Str(in.Group), emit.Str(in.KindName))
	}
	wobj := func(o WHObj) string {
		raw := whBuild(in, o)
		f, _ := whProject(in.Kind, raw)
		style := "DsOther"
		if o.Style == "-" || o.Style == "" {
			style = "DsNone"
		} else if strings.EqualFold(o.Style, "partition") {
			style = "DsPartition"
		}
		return emit.App("Build_wobj", emit.Str(in.Name), optInt(o.Replicas), emit.Str(o.RID), emit.Str(whTmplDigest(o)), whFieldsCoq(f, false),
			emit.Z(int64(o.StReplicas)), emit.Z(int64(o.StUpdated)), emit.Bool(o.DSRolling), style, emit.Bool(o.Original != ""),
			emit.Bool(strings.ToLower(o.WType) == "statefulset"), emit.Bool(o.STSHasUS), emit.Bool(!o.NoTmpl))
	}
	// the (fake) API server lists Rollouts by name: that is the order fetchMatchedRollout sees
	sortedRos := append([]WHRollout{}, in.Rollouts...)
	sort.SliceStable(sortedRos, func(a, b int) bool { return sortedRos[a].Name < sortedRos[b].Name })
	ros := emit.ListOf(sortedRos, func(r WHRollout) string {
		grp, ok := "", true
		parts := strings.Split(r.APIVersion, "/")
		switch len(parts) {
		case 1:
			grp = ""
		case 2:
			grp = parts[0]
		default:
			ok = false
		}
		if r.APIVersion == "" {
			grp = ""
		}
		return emit.App("Build_rollout_ref", emit.Str(r.Name), emit.Bool(r.Deleting), emit.Bool(r.Phase == string(v1beta1.RolloutPhaseDisabled)),
			emit.Bool(ok), emit.Str(grp), emit.Str(r.Kind), emit.Str(r.WLName), emit.Bool(r.Strategy == "empty"), emit.Bool(r.Traffic))
	})
	rss := emit.ListOf(in.RSs, func(rs WHRS) string {
		return emit.App("Build_rs_ref", emit.Z(int64(rs.Rev)), emit.Z(int64(rs.Replicas)), emit.Bool(rs.Deleting), emit.Bool(rs.Owned),
			emit.Str(whTmplDigest(WHObj{Tmpl: rs.Tmpl})), emit.Str(rs.Hash))
	})
	labels := map[string]string{}
	for k, v := range in.New.Labels {
		labels[k] = v
	}
	input := emit.App("Build_winput", kind, wobj(in.New), wobj(in.Old), ros, rss,
		emit.Bool(in.Op == "UPDATE" && in.Sub == ""), emit.Bool(in.Rule), sortedPairs(in.Selector), sortedPairs(labels))
	var res string
	switch {
	case obs.Panic != "":
		res = "WPanic"
	case obs.Result == "error":
		res = "WError"
	case obs.Result == "unchanged":
		res = "WUnchanged"
	default:
		res = emit.App("WPatched", whFieldsCoq(obs.After, obs.Written))
	}
	return emit.App("Build_wcase", input, res, emit.Bool(obs.Frame || obs.Result != "patched"))
}

func (webhookEngine) Gen(r *rand.Rand, idx int, tier string) any {
	in := WHInput{Name: "web", Op: "UPDATE", Rule: true}
	in.Kind = pick(r, "CloneSet", "CloneSet", "DaemonSet", "Deployment", "Deployment", "Deployment", "Other")
	if in.Kind == "Other" {
		gk := pick(r, [2]string{"apps", "StatefulSet"}, [2]string{"apps.kruise.io", "StatefulSet"}, [2]string{"example.io", "Foo"}, [2]string{"example.io", "Foo"})
		in.Group, in.KindName = gk[0], gk[1]
	}
	g, ver, k, _ := whGroupKind(in)
	if chance(r, 3) {
		in.Op = pick(r, "CREATE", "DELETE")
	}
	if chance(r, 3) {
		in.Sub = pick(r, "status", "scale")
	}
	if chance(r, 4) {
		in.Rule = false
	}
	base := WHObj{Tmpl: "v1", Style: "-", STSHasUS: true}
	if chance(r, 85) {
		n := pick(r, 1, 3, 5, 10)
		if chance(r, 12) {
			n = 0
		}
		base.Replicas = &n
	}
	if chance(r, 40) {
		base.RID = pick(r, "r1", "r2")
	}
	if chance(r, 30) {
		base.HashLabel = "h1"
	}
	base.Labels = map[string]string{}
	base.Annos = map[string]string{}
	if chance(r, 50) {
		base.Labels["team"] = "a"
	}
	if chance(r, 50) {
		base.Annos["note"] = "x"
	}
	if chance(r, 80) {
		in.Selector = map[string]string{"rollout.kruise.io": "true"}
		if chance(r, 93) {
			base.Labels["rollout.kruise.io"] = "true"
		} else if chance(r, 50) {
			base.Labels["rollout.kruise.io"] = "false"
		}
	}
	if len(base.Labels) == 0 && len(base.Annos) == 0 && base.RID == "" && chance(r, 50) {
		base.NilMaps = true
	}
	switch in.Kind {
	case "CloneSet":
		if chance(r, 50) {
			p := pick(r, Int(0), Pct(0), Pct(30), Int(2))
			base.Partition = &p
		}
		base.StReplicas = pick(r, 3, 5)
		base.StUpdated = base.StReplicas
		if chance(r, 25) {
			base.StUpdated = base.StReplicas - 1
		}
	case "DaemonSet":
		base.DSType = pick(r, "RollingUpdate", "RollingUpdate", "OnDelete", "")
		base.DSRolling = base.DSType == "RollingUpdate" || chance(r, 40)
		if base.DSRolling && chance(r, 40) {
			p := pick(r, 0, 2)
			base.DSPartition = &p
		}
	case "Deployment":
		base.SType = pick(r, "RollingUpdate", "RollingUpdate", "RollingUpdate", "Recreate", "")
		if base.SType == "RollingUpdate" && chance(r, 80) {
			base.RU = &[2]string{pick(r, "25%", "1", "0"), pick(r, "25%", "1", "2")}
		}
		base.Paused = chance(r, 20)
		if chance(r, 30) {
			base.StableLabel = "old-stable"
		}
	default:
		if k != "StatefulSet" || chance(r, 30) {
			base.WType = pick(r, "statefulset", "StatefulSet", "statefulset", "cloneset", "")
		}
		base.STSHasUS = chance(r, 75)
		if base.STSHasUS {
			base.STSType = pick(r, "RollingUpdate", "RollingUpdate", "", "OnDelete")
			base.STSHasRU = chance(r, 60)
			if base.STSHasRU && chance(r, 60) {
				p := pick(r, 0, 1)
				base.STSPartition = &p
			}
		}
		base.NoTmpl = chance(r, 4)
	}
	in.Old = base
	nw := base
	nw.Labels = map[string]string{}
	for a, b := range base.Labels {
		nw.Labels[a] = b
	}
	nw.Annos = map[string]string{}
	for a, b := range base.Annos {
		nw.Annos[a] = b
	}
	// the edit
	switch r.Intn(12) {
	case 0, 1, 2, 3, 10, 11: // template change
		nw.Tmpl = "v2"
		if chance(r, 30) {
			nw.Tmpl = base.Tmpl + "+m"
		}
	case 4: // rollout-id change only
		nw.RID = pick(r, "r2", "r3", "")
	case 5: // both
		nw.Tmpl = "v2"
		nw.RID = pick(r, "r2", "r3")
	case 6: // annotation / label only edit
		nw.Annos["note"] = "y"
		if chance(r, 50) {
			nw.HashLabel = "h2"
		}
	case 7: // scale
		n := pick(r, 0, 2, 7)
		nw.Replicas = &n
	default: // nothing
	}
	if in.Kind == "Other" && chance(r, 3) {
		nw.NoTmpl = true
	}
	if in.Kind == "Deployment" && chance(r, 45) {
		// a release is already in progress and somebody edits the Deployment
		name := "ro-web"
		for _, o := range []*WHObj{&in.Old, &nw} {
			o.Progress = `{"rolloutName":"` + name + `"}`
		}
		style := pick(r, "Partition", "partition", "PARTITION", "Canary", "", "-", "-", "BlueGreen")
		in.Old.Style, nw.Style = style, style
		in.Old.Paused, nw.Paused = true, true
		if strings.EqualFold(style, "partition") {
			in.Old.SType, in.Old.RU = "Recreate", nil
			nw.SType, nw.RU = "Recreate", nil
			ap := pick(r, Int(1), Pct(20), Pct(100))
			in.Old.AnnoPartition, nw.AnnoPartition = &ap, &ap
			ps := chance(r, 30)
			in.Old.AnnoPaused, nw.AnnoPaused = ps, ps
		}
		if chance(r, 30) && !strings.EqualFold(style, "partition") {
			in.Old.Original, nw.Original = `{"maxSurge":"25%"}`, `{"maxSurge":"25%"}`
			in.Old.SType, nw.SType = "RollingUpdate", "RollingUpdate"
		}
		// the user's edit on top
		if chance(r, 50) {
			nw.Paused = false
		}
		if chance(r, 30) {
			nw.SType = pick(r, "RollingUpdate", "Recreate", "")
			nw.RU = nil
			if nw.SType == "RollingUpdate" && chance(r, 70) {
				nw.RU = &[2]string{"1", "1"}
			}
		}
		if chance(r, 10) {
			nw.Progress = ""
		}
	}
	focused := idx%2 == 0 // a selected request carrying a release change, with a matching Rollout somewhere in the list
	if focused {
		in.Op, in.Sub, in.Rule = "UPDATE", "", true
		if in.Selector != nil {
			in.Old.Labels["rollout.kruise.io"], nw.Labels["rollout.kruise.io"] = "true", "true"
			in.Old.NilMaps, nw.NilMaps = false, false
		}
		if nw.RID == "" {
			if nw.Tmpl == in.Old.Tmpl {
				nw.Tmpl = "v2"
			}
		} else if nw.RID == in.Old.RID {
			nw.RID = "r9"
		}
		if in.Kind == "Other" && in.KindName != "StatefulSet" {
			in.Old.WType, nw.WType = "statefulset", "statefulset"
		}
	}
	in.New = nw
	// rollouts in the namespace
	apiv := g + "/" + ver
	mk := func(name string) WHRollout {
		return WHRollout{Name: name, APIVersion: apiv, Kind: k, WLName: in.Name, Strategy: pick(r, "canary", "canary", "bluegreen"), Traffic: chance(r, 40)}
	}
	nro := pick(r, 0, 1, 1, 1, 1, 2, 2, 3)
	for j := 0; j < nro; j++ {
		ro := mk(fmt.Sprintf("ro-%d", j))
		switch r.Intn(20) {
		case 0:
			ro.Deleting = true
		case 1:
			ro.Phase = "Disabled"
		case 2:
			ro.WLName = "other"
		case 3:
			ro.Kind = pick(r, "CloneSet", "Deployment", "StatefulSet", "DaemonSet")
		case 4:
			ro.APIVersion = pick(r, "apps/v1", "apps.kruise.io/v1alpha1", "a/b/c", "v1", "")
		case 5:
			ro.Strategy = "empty"
		case 6:
			ro.Phase = pick(r, "Progressing", "Healthy", "Terminating", "Initial")
		case 7:
			ro.APIVersion = g + "/v9" // another version of the same group still matches
		}
		in.Rollouts = append(in.Rollouts, ro)
	}
	if focused {
		pos := r.Intn(len(in.Rollouts) + 1)
		in.Rollouts = append(in.Rollouts[:pos], append([]WHRollout{mk("ro-main")}, in.Rollouts[pos:]...)...)
	}
	if in.Kind == "Deployment" {
		nrs := pick(r, 0, 1, 1, 1, 2, 2, 3)
		revs := r.Perm(6)
		for j := 0; j < nrs; j++ {
			rs := WHRS{Rev: revs[j] + 1, Replicas: pick(r, 0, 1, 3, 5), Owned: !chance(r, 10), Deleting: chance(r, 6),
				Tmpl: pick(r, "v1", "v1", "v0", "v2"), Hash: fmt.Sprintf("hash%d", j)}
			in.RSs = append(in.RSs, rs)
		}
	}
	return in
}
