// Package emit prints Go values as Coq terms.
package emit

import (
	"math/big"
	"fmt"
	"strings"
)

// Interning: string literals are expensive for coqc to elaborate (one constructor per character),
// and the same few strings occur thousands of times in a cases file. When interning is on, Str
// returns an identifier and Table() prints one Definition per distinct string.
var (
	interning bool
	internIDs = map[string]string{}
	internSeq []string
)

func StartInterning() { interning = true; internIDs = map[string]string{}; internSeq = nil }

// Table returns the definitions of all interned strings.
func Table() string {
	var b strings.Builder
	for _, s := range internSeq {
		fmt.Fprintf(&b, "Definition %s : string := %s.\n", internIDs[s], lit(s))
	}
	return b.String()
}

// Str prints a Coq string (a literal, or the name of an interned literal).
func Str(s string) string {
	if !interning || s == "" {
		return lit(s)
	}
	if id, ok := internIDs[s]; ok {
		return id
	}
	id := fmt.Sprintf("s'%d", len(internSeq))
	internIDs[s] = id
	internSeq = append(internSeq, s)
	return id
}

// lit prints a Coq string literal. Only printable ASCII is allowed (generators are restricted to it).
func lit(s string) string {
	var b strings.Builder
	b.WriteByte('"')
	for i := 0; i < len(s); i++ {
		c := s[i]
		if c < 32 || c > 126 {
			panic(fmt.Sprintf("emit.Str: non printable byte %d in %q", c, s))
		}
		if c == '"' {
			b.WriteString(`""`)
		} else {
			b.WriteByte(c)
		}
	}
	b.WriteByte('"')
	return b.String()
}

// ZFloat prints a whole float64 of any magnitude as a Coq Z literal (exact, through math/big).
func ZFloat(f float64) string {
	bi, _ := big.NewFloat(f).Int(nil)
	if bi.Sign() < 0 {
		return "(" + bi.String() + ")"
	}
	return bi.String()
}

func Z(n int64) string {
	if n < 0 {
		return fmt.Sprintf("(%d)", n)
	}
	return fmt.Sprintf("%d", n)
}

func Bool(b bool) string {
	if b {
		return "true"
	}
	return "false"
}

func List(items []string) string { return "[" + strings.Join(items, "; ") + "]" }

func ListOf[T any](xs []T, f func(T) string) string {
	items := make([]string, len(xs))
	for i, x := range xs {
		items[i] = f(x)
	}
	return List(items)
}

func Some(s string) string { return "(Some " + s + ")" }

func OptStr(s *string) string {
	if s == nil {
		return "None"
	}
	return Some(Str(*s))
}

func OptZ(z *int64) string {
	if z == nil {
		return "None"
	}
	return Some(Z(*z))
}

func Pair(a, b string) string { return "(" + a + ", " + b + ")" }

// Rec prints a record with positional constructor application: (Build a b c)
func App(ctor string, args ...string) string {
	if len(args) == 0 {
		return ctor
	}
	return "(" + ctor + " " + strings.Join(args, " ") + ")"
}
