// tasktables re-derives the finalising task orders from the source of nextCanaryTask and nextBlueGreenTask and prints
// them as Coq definitions (coq/gen/TaskTables.v). It refuses (exit 2) when the functions no longer have the shape it
// understands: a switch over `reason` whose clauses assign a literal task list, followed by the fixed lookup code.
package translate

import (
	"bytes"
	"fmt"
	"go/ast"
	"go/parser"
	"go/printer"
	"go/token"
	"path/filepath"
	"strings"
)

var taskCtor = map[string]string{
	"FinalisingStepRouteTrafficToNew":      "TRouteNew",
	"FinalisingStepRouteTrafficToStable":   "TRouteStable",
	"FinalisingStepRestoreStableService":   "TRestoreStable",
	"FinalisingStepRemoveCanaryService":    "TRemoveCanarySvc",
	"FinalisingStepResumeWorkload":         "TResume",
	"FinalisingStepReleaseWorkloadControl": "TRelease",
	"FinalisingStepWaitEndless":            "TWaitEndless",
	"FinalisingStepTypeEnd":                "TEnd",
}

var reasonCtor = map[string]string{
	"FinaliseReasonSuccess":    "RSuccess",
	"FinaliseReasonRollback":   "RRollback",
	"FinaliseReasonContinuous": "RContinuous",
	"FinaliseReasonDisalbed":   "RDisabled",
	"FinaliseReasonDelete":     "RDelete",
}

var allReasons = []string{"RSuccess", "RRollback", "RContinuous", "RDisabled", "RDelete"}

// the code after the switch, printed by go/printer with comments stripped
const expectedTail = `if len(currentTask) == 0 {
	return taskSequence[0]
}
for i := range taskSequence {
	if currentTask == taskSequence[i] && i < len(taskSequence)-1 {
		return taskSequence[i+1]
	}
}
return v1beta1.FinalisingStepTypeEnd`

// Refusal is raised (as a panic value) when the source no longer has the shape the translator understands.
type Refusal string

func die(f string, a ...any) {
	panic(Refusal(fmt.Sprintf("tasktables: "+f, a...)))
}

func selName(e ast.Expr) string {
	if s, ok := e.(*ast.SelectorExpr); ok {
		return s.Sel.Name
	}
	die("unexpected expression %T", e)
	return ""
}

func render(fset *token.FileSet, stmts []ast.Stmt) string {
	var parts []string
	for _, s := range stmts {
		var b bytes.Buffer
		_ = printer.Fprint(&b, fset, s)
		parts = append(parts, b.String())
	}
	return strings.Join(parts, "\n")
}

func table(file, fn string) map[string][]string {
	fset := token.NewFileSet()
	f, err := parser.ParseFile(fset, file, nil, 0) // comments dropped
	if err != nil {
		die("%v", err)
	}
	var decl *ast.FuncDecl
	for _, d := range f.Decls {
		if fd, ok := d.(*ast.FuncDecl); ok && fd.Name.Name == fn && fd.Recv == nil {
			decl = fd
		}
	}
	if decl == nil {
		die("%s: function %s not found", file, fn)
	}
	if len(decl.Type.Params.List) != 2 || decl.Type.Params.List[0].Names[0].Name != "reason" || decl.Type.Params.List[1].Names[0].Name != "currentTask" {
		die("%s: unexpected parameters", fn)
	}
	body := decl.Body.List
	if len(body) < 3 {
		die("%s: unexpected body", fn)
	}
	if _, ok := body[0].(*ast.DeclStmt); !ok {
		die("%s: expected `var taskSequence`", fn)
	}
	sw, ok := body[1].(*ast.SwitchStmt)
	if !ok {
		die("%s: expected a switch", fn)
	}
	if id, ok := sw.Tag.(*ast.Ident); !ok || id.Name != "reason" {
		die("%s: the switch is not over reason", fn)
	}
	if got := render(fset, body[2:]); got != expectedTail {
		die("%s: the lookup code changed:\n%s", fn, got)
	}
	res := map[string][]string{}
	var def []string
	seenDefault := false
	for _, c := range sw.Body.List {
		cc := c.(*ast.CaseClause)
		if len(cc.Body) != 1 {
			die("%s: a case does more than assign the task list", fn)
		}
		as, ok := cc.Body[0].(*ast.AssignStmt)
		if !ok || len(as.Lhs) != 1 || len(as.Rhs) != 1 {
			die("%s: unexpected case body", fn)
		}
		if id, ok := as.Lhs[0].(*ast.Ident); !ok || id.Name != "taskSequence" {
			die("%s: a case assigns something else", fn)
		}
		lit, ok := as.Rhs[0].(*ast.CompositeLit)
		if !ok {
			die("%s: the task list is not a literal", fn)
		}
		var tasks []string
		for _, e := range lit.Elts {
			t, ok := taskCtor[selName(e)]
			if !ok {
				die("%s: unknown task %s", fn, selName(e))
			}
			tasks = append(tasks, t)
		}
		if len(tasks) == 0 {
			die("%s: empty task list (taskSequence[0] would panic)", fn)
		}
		if cc.List == nil {
			def, seenDefault = tasks, true
			continue
		}
		for _, e := range cc.List {
			r, ok := reasonCtor[selName(e)]
			if !ok {
				die("%s: unknown reason %s", fn, selName(e))
			}
			res[r] = tasks
		}
	}
	if !seenDefault {
		die("%s: no default clause (taskSequence would be empty)", fn)
	}
	for _, r := range allReasons {
		if _, ok := res[r]; !ok {
			res[r] = def
		}
	}
	return res
}

func emit(name string, t map[string][]string) string {
	var b strings.Builder
	fmt.Fprintf(&b, "Definition %s (r : reason) : list task :=\n  match r with\n", name)
	for _, r := range allReasons {
		fmt.Fprintf(&b, "  | %s => [%s]\n", r, strings.Join(t[r], "; "))
	}
	b.WriteString("  end.\n")
	return b.String()
}

func TaskTables(repo string) string {
	dir := filepath.Join(repo, "pkg/controller/rollout")
	canary := table(filepath.Join(dir, "rollout_canary.go"), "nextCanaryTask")
	bg := table(filepath.Join(dir, "rollout_bluegreen.go"), "nextBlueGreenTask")
	var b strings.Builder
	b.WriteString(`(* GENERATED by the translator (harness/translate/tasktables.go) from pkg/controller/rollout/rollout_canary.go:nextCanaryTask
   and rollout_bluegreen.go:nextBlueGreenTask on every run of a check that needs it.  Do not edit. *)
From Coq Require Import List. Import ListNotations.
Inductive task := TRouteNew | TRouteStable | TRestoreStable | TRemoveCanarySvc | TResume | TRelease | TWaitEndless | TEnd.
Inductive reason := RSuccess | RRollback | RContinuous | RDisabled | RDelete.
`)
	b.WriteString(emit("canary_order", canary))
	b.WriteString(emit("bluegreen_order", bg))
	return b.String()
}
