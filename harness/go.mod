module verifharness

go 1.19

require (
	github.com/evanphx/json-patch v4.12.0+incompatible
	github.com/go-logr/logr v1.2.3
	github.com/openkruise/kruise-api v1.3.0
	github.com/openkruise/rollouts v0.0.0
	github.com/yuin/gopher-lua v0.0.0-20220504180219-658193537a64
	k8s.io/api v0.26.3
	k8s.io/apimachinery v0.26.3
	k8s.io/client-go v0.26.3
	k8s.io/klog/v2 v2.100.1
	k8s.io/utils v0.0.0-20221128185143-99ec85e7a448
	sigs.k8s.io/controller-runtime v0.14.6
	sigs.k8s.io/gateway-api v0.7.1
)

require (
	github.com/beorn7/perks v1.0.1 // indirect
	github.com/blang/semver/v4 v4.0.0 // indirect
	github.com/cespare/xxhash/v2 v2.1.2 // indirect
	github.com/davecgh/go-spew v1.1.1 // indirect
	github.com/emicklei/go-restful/v3 v3.9.0 // indirect
	github.com/evanphx/json-patch/v5 v5.6.0 // indirect
	github.com/fsnotify/fsnotify v1.6.0 // indirect
	github.com/go-openapi/jsonpointer v0.19.5 // indirect
	github.com/go-openapi/jsonreference v0.20.0 // indirect
	github.com/go-openapi/swag v0.19.14 // indirect
	github.com/gogo/protobuf v1.3.2 // indirect
	github.com/golang/groupcache v0.0.0-20210331224755-41bb18bfe9da // indirect
	github.com/golang/protobuf v1.5.2 // indirect
	github.com/google/gnostic v0.5.7-v3refs // indirect
	github.com/google/go-cmp v0.5.9 // indirect
	github.com/google/gofuzz v1.1.0 // indirect
	github.com/google/uuid v1.1.2 // indirect
	github.com/imdario/mergo v0.3.12 // indirect
	github.com/josharian/intern v1.0.0 // indirect
	github.com/json-iterator/go v1.1.12 // indirect
	github.com/mailru/easyjson v0.7.6 // indirect
	github.com/matttproud/golang_protobuf_extensions v1.0.2 // indirect
	github.com/modern-go/concurrent v0.0.0-20180306012644-bacd9c7ef1dd // indirect
	github.com/modern-go/reflect2 v1.0.2 // indirect
	github.com/munnerz/goautoneg v0.0.0-20191010083416-a7dc8b61c822 // indirect
	github.com/pkg/errors v0.9.1 // indirect
	github.com/prometheus/client_golang v1.14.0 // indirect
	github.com/prometheus/client_model v0.3.0 // indirect
	github.com/prometheus/common v0.37.0 // indirect
	github.com/prometheus/procfs v0.8.0 // indirect
	github.com/spf13/pflag v1.0.5 // indirect
	golang.org/x/net v0.7.0 // indirect
	golang.org/x/oauth2 v0.0.0-20220223155221-ee480838109b // indirect
	golang.org/x/sys v0.5.0 // indirect
	golang.org/x/term v0.5.0 // indirect
	golang.org/x/text v0.7.0 // indirect
	golang.org/x/time v0.3.0 // indirect
	gomodules.xyz/jsonpatch/v2 v2.2.0 // indirect
	google.golang.org/protobuf v1.28.1 // indirect
	gopkg.in/inf.v0 v0.9.1 // indirect
	gopkg.in/yaml.v2 v2.4.0 // indirect
	gopkg.in/yaml.v3 v3.0.1 // indirect
	k8s.io/apiextensions-apiserver v0.26.3 // indirect
	k8s.io/apiserver v0.26.3 // indirect
	k8s.io/component-base v0.26.3 // indirect
	k8s.io/kube-openapi v0.0.0-20221012153701-172d655c2280 // indirect
	sigs.k8s.io/json v0.0.0-20220713155537-f223a00ba0e2 // indirect
	sigs.k8s.io/structured-merge-diff/v4 v4.2.3 // indirect
	sigs.k8s.io/yaml v1.3.0 // indirect
)

replace github.com/openkruise/rollouts => /repo
