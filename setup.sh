#!/bin/sh
# MANIFEST.setup_cmd: build the Coq development and warm the Go build cache. Offline, from files on disk only.
set -e
cd "$(dirname "$0")"
export GOFLAGS=-mod=mod GOPROXY=off GOSUMDB=off GOTOOLCHAIN=local CGO_ENABLED=0
mkdir -p work/bin evidence
(cd coq && coq_makefile -f _CoqProject -o Makefile >/dev/null && (ulimit -s unlimited 2>/dev/null; timeout 3000 make -k -j16) | tail -3) || true
cp /repo/go.sum harness/go.sum
(cd harness && go build -tags verif -o ../work/bin/verifharness ./cmd/verifharness) || true
echo setup done
