#!/usr/bin/env python3
"""Writes MANIFEST.json from checkconf.py (so that the two never disagree)."""
import json, os, sys
sys.path.insert(0, os.path.dirname(os.path.abspath(__file__)))
from checkconf import PROPS, MANIFEST_TEXT, NOT_APPLICABLE, HOOK_COMMITS

checks = []
for pid in sorted(PROPS):
    c = PROPS[pid]
    t = MANIFEST_TEXT[pid]
    checks.append(dict(property_id=pid, quick_cmd="./check %s --tier quick" % pid, thorough_cmd="./check %s --tier thorough" % pid,
                       evidence_file="evidence/%s.json" % pid, replay_cmd_template="./check %s --replay {path}" % pid,
                       engine=",".join(e["name"] for e in c["engines"]),
                       level_claimed=dict(category=c.get("level", "proof"), text=t["text"], design_ref=t.get("design_ref", "DESIGN.md section 9")),
                       level_note=t["note"], technique=t.get("technique", "machine-checked proof in Coq 8.16.1 + differential correspondence check against the Go code")))
engines = {}
for pid, c in PROPS.items():
    for e in c["engines"]:
        engines.setdefault(e["name"], []).append(pid)
m = dict(version=1, setup_cmd="./setup.sh",
         hooks=dict(guard="verif", enable="go build -tags verif (harness module replaces github.com/openkruise/rollouts => /repo)",
                    baseline_off_cmd="cd /repo && go test -mod=mod -json -vet=off -count=1 -timeout 25m ./...",
                    source_commits=HOOK_COMMITS, add_only=True),
         engines=[dict(name=n, path="harness/engines", serves_properties=sorted(set(ps)), kind_free_text="Go correspondence engine: runs the real code on generated inputs, emits cases_*.v judged by Coq (Corr/*.v)") for n, ps in sorted(engines.items())],
         checks=checks, not_applicable=NOT_APPLICABLE,
         notes="Technique: machine-checked proof in Rocq/Coq 8.16.1 over hand-written executable models, tied to /repo by a correspondence check on every run (see DESIGN.md).")
json.dump(m, open(os.path.join(os.path.dirname(os.path.abspath(__file__)), "MANIFEST.json"), "w"), indent=1)
print("MANIFEST.json written:", len(checks), "checks")
