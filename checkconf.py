"""Which engines, theorems and assumptions serve which property (read by ./check)."""

COMMON_TRUSTED = [
    "Coq 8.16.1 kernel and vm_compute (no native_compute)",
    "correspondence harness: generators, Go->Coq term printer (harness/emit), projection of real objects to model inputs/observables",
    "controller-runtime fake client as the API server",
    "no extraction is used",
]

PROPS = {
    "C01": dict(
        engines=[dict(name="arith", quick=700, thorough=40000, shard=500, trivial_tags=[]),
                 dict(name="noneed", quick=500, thorough=20000, shard=250, trivial_tags=["not-a-rollback"])],
        rule="seeded generator over (workload kind of 7, plan of 1-6 int/percent/mixed steps, replicas 0..10^5 with boundary values and the "
             "99..219 region, current batch, noNeedUpdateReplicas, current knob: absent/initial/earlier batch/arbitrary) + corpus of the "
             "known-finding witnesses; every case runs the real CalculateBatchContext and UpgradeBatch on the fake client; distinct = distinct input JSON",
        trusted=["exposed(kind, knob, n): the number of new-revision pods the workload's own controller may run under a knob value is an assumption "
                 "(CloneSet/StatefulSet/DaemonSet/native Deployment controllers live outside /repo)",
                 "intstr float64 arithmetic equals the integer ceil/floor formulas for |p*total| < 2^53"],
        assumptions=["0 <= replicas, steps valid (int > 0, 0 < percent <= 100) as the validating webhook enforces", "int32 overflow not modelled (replicas <= 10^6 in the generator)"],
        explanation="C01 arithmetic theorems for all n; closed-loop history theorem not yet built (see level_note)",
    ),
    "C07": dict(
        engines=[dict(name="arith", quick=700, thorough=40000, shard=500, trivial_tags=[]),
                 dict(name="gateway", quick=200, thorough=10000, shard=25, search=400, trivial_tags=["no-stable-rule"]),
                 dict(name="ingress", quick=200, thorough=10000, shard=50, search=400, trivial_tags=[]),
                 dict(name="rolloutsm", quick=1200, thorough=60000, shard=400, trivial_tags=["no-change", "status-not-written"]),
                 dict(name="rolloutbg", quick=800, thorough=40000, shard=400, trivial_tags=["no-change", "status-not-written"]),
                 dict(name="brexec", quick=600, thorough=30000, shard=400, trivial_tags=["status-unchanged"]),
                 dict(name="rollouttr", quick=800, thorough=40000, shard=400, trivial_tags=["no-network-write"]),
                 dict(name="events", quick=800, thorough=30000, shard=400, trivial_tags=[]),
                 dict(name="trctl", quick=600, thorough=20000, shard=400, trivial_tags=[])],
        rule="as C01 (arith engine): the readiness target DesiredUpdatedReplicas returned by the real CalculateBatchContext is compared with what the knob "
             "left by the real UpgradeBatch admits; gateway / ingress engines: every provider operation is repeated once (fixed-point probe); rolloutsm / rolloutbg / "
             "brexec engines (see C02, C11): one real Reconcile per generated state; a reconcile that changed nothing, reported no error and asked for no requeue must be "
             "in one of the waiting states the theorems name",
        trusted=["exposed(kind, knob, n) as in C01", "hooks VerifNewReconciler (rollout, batchrelease)",
                 "Model/Loop.v br_view (how the Rollout side reads the BatchRelease) is compared with the rollout harness's readBR on the object the real BatchRelease reconcile wrote"],
        assumptions=["steps valid as enforced by admission", "wake-ups: an error is retried by the work queue with back-off; a change of an object's own status or of a watched object "
                     "(workload, BatchRelease) enqueues its owner -- the event handlers themselves are not modelled"],
        explanation="C07_target_suffices for all n outside three characterised regions, each refuted by a witness and listed as a known finding; quiet-is-waiting theorems for the "
                    "Rollout (canary, blue-green) and BatchRelease reconciles and the no-mutual-wait theorem; the same waiting predicates evaluated on real reconciles",
    ),
    "C13": dict(
        engines=[dict(name="gateway", quick=400, thorough=20000, shard=25, search=800, trivial_tags=["no-stable-rule"])],
        rule="seeded generator of HTTPRoutes (1-4 rules, 1-2 matches with path/headers/query/method, filters, 0-3 backendRefs naming the stable Service, "
             "other Services, nil or foreign kinds, weights) x sequences of 1-3 steps (weights 0..100 incl. 0/1/99/100, or 1-3 user matches mixing path, "
             "header and query matchers in any order) followed by finalise; every operation is run on the real provider through the fake client and then "
             "repeated once (fixed-point probe); non-trivial = the route has a rule that targets the stable Service; distinct = distinct input JSON",
        trusted=["opaque parts of rules and backendRefs (filters, ports, namespaces) are compared through a SHA-1 digest of their JSON",
                 "request semantics: accepts/rule_accepts/user_ok of Proofs/Gateway.v, parametric in the gateway's value comparison"],
        assumptions=["a rule's match list is non-empty (the HTTPRoute CRD defaults it to PathPrefix /)", "the user's own rules do not reference the canary Service",
                     "stable and canary Service names differ"],
        explanation="theorems over all rule lists; oracle booleans (exact_split etc.) are the same definitions the theorems are about",
    ),
    "C14": dict(
        engines=[dict(name="ingress", quick=400, thorough=20000, shard=50, search=800, trivial_tags=[])],
        rule="seeded generator of stable Ingresses (0-6 annotations incl. pre-existing canary/alb/mse keys, 1-3 rules with hosts, 1-3 paths to the stable Service, "
             "other Services or resource backends, rules without http section) x class (nginx, aliyun-alb, higress, mse) x sequences of 1-3 steps (weights, header / "
             "cookie / regex matches, query matches and header modifiers for mse), each step called 2-3 times, then finalise twice; the real provider runs on the fake "
             "client through the real gopher-lua VM; the last step is also applied to a freshly created canary Ingress; distinct = distinct input JSON",
        trusted=["the four .lua scripts are hand-modelled in clear-then-set normal form and tied to the files only by this differential run through the real VM",
                 "labels/class/TLS of the Ingress and backend ports are compared through digests"],
        assumptions=["alb and higress scripts are used with header matches only (a match without headers raises a script error in those classes: modelled as an error outcome)"],
        explanation="history independence proved for all four classes through one generic clear-then-set theorem; path exactness proved for all Ingresses",
    ),
    "C19": dict(
        engines=[dict(name="isolation", quick=240, thorough=6000, shard=400, trivial_tags=[], race=True, timeout=3000)],
        rule="the harness is built with the Go race detector (-race) for this check. Three quarters of the cases are histories on the REAL process-wide grace expectation store: "
             "2-3 owners with the key shapes the traffic manager derives (rollout UID / stable Service UID / namespace-name of the canary Service), 4-17 interleaved "
             "RunWithGraceSeconds calls (modified / unmodified / failing closures, zero grace), clock advances and restarts; each owner's answers are compared with a second real run "
             "containing only that owner's calls, and the whole history with the model. One quarter are 2-3 generated Rollouts with traffic routing (rollouttr generator: every "
             "phase, finalising cursors, network states), each in its own namespace with its own UIDs but identical object names, reconciled 2-4 times by one goroutine per Rollout "
             "CONCURRENTLY on one client and one process (shared grace store, watch registry, Lua configuration), compared object by object (timestamps scrubbed) with the same "
             "Rollout run alone; a data race report or a panic fails the check. Since round 5, one case in ten each: (expect-store) 5-20 Expect / Observe / "
             "SatisfiedExpectations / DeleteExpectations calls of 2-3 owners on the REAL creation-expectation store under namespace/name keys that share the name, compared with "
             "Model/Expect.v and with each owner's solo run; (expect-cp) 2-3 canary-style BatchReleases, 70%% with the SAME name in different namespaces, whose real canary "
             "control-plane Initialize and real workload event handler (creation observed) run in a generated interleaving, each tenant's per-step results compared with its solo "
             "run; (lua) 3-7 workers running fresh provider-like scripts through the real luamanager.RunLuaScript at the same moment, outputs compared with solo runs; "
             "non-trivial = every case; distinct = distinct input JSON",
        trusted=["Go race detector (dynamic: it sees the interleavings that occur)", "controller-runtime fake client is goroutine-safe",
                 "hooks VerifNewReconciler, grace.VerifAge, batchrelease.VerifWorkloadEventHandler, rollout.VerifSetRuntimeController (a scripted controller.Controller stands for the manager's); the harness replaces the exported package variable expectations.ResourceExpectations by a fresh store between runs"],
        assumptions=["Rollouts have distinct UIDs, their stable Services are distinct objects, canary Service namespace/name pairs are distinct (otherwise they share keys by design)",
                     "expectation timeouts (5 min) are not modelled: they only ever release the key they belong to",
                     "namespaces contain no '/' (Kubernetes names never do)"],
        explanation="non-interference theorem for the shared store over all interleavings; race freedom and equality with the solo run are tests on the real code under -race",
    ),
    "C20": dict(
        engines=[dict(name="convert", quick=900, thorough=45000, shard=300, trivial_tags=[])],
        rule="seeded generator of v1alpha1 Rollouts (every optional block nil or present, 0-4 steps with weight/replicas/pause/header modifier/header matches "
             "independently present, traffic routings of every provider kind, style and trafficrouting annotations in several spellings, full status), v1alpha1 "
             "BatchReleases (annotation/spec style combinations, nil workloadRef) and canary-strategy v1beta1 Rollouts restricted to v1alpha1-expressible fields "
             "(traffic and replicas varied independently, empty strategy); every scalar drawn so that swapped fields differ; the real ConvertTo/ConvertFrom run "
             "in both orders; distinct = distinct input JSON",
        trusted=["pass-through field groups (traffic routing refs, header matches, conditions, canary status, release plan, BatchRelease status) are compared through "
                 "a SHA-1 digest of their JSON on both sides; the model treats them as opaque values copied unchanged"],
        assumptions=["step weights within 0..100", "metadata other than the two conversion annotations is copied verbatim (not modelled)"],
        explanation="round-trip and totality theorems over all objects of the modelled shape",
    ),
    "C02": dict(
        engines=[dict(name="rolloutsm", quick=1200, thorough=60000, shard=400, trivial_tags=["no-change", "status-not-written"]),
                 dict(name="rolloutbg", quick=800, thorough=40000, shard=400, trivial_tags=["no-change", "status-not-written"])],
        rule="seeded generator of (Rollout spec: 1-6 canary steps with int/percent replicas and optional pause durations, paused, disabled, deleting, finalizer, rollback-in-batch "
             "annotation; persisted status: every phase, every Progressing reason, sub-status with every step state incl. unknown, step index, nextStepIndex incl. jumps and out-of-range "
             "values (0, negative, len+1, 99), stale/current/empty rollout hash, every finalising step, elapsed/fresh timestamps; CloneSet: missing, inconsistent generation, rolled back, "
             "new revision, rollout-id label; BatchRelease: absent, matching, stale partition, nil partition, foreign rollout-id, older plan, inconsistent, not ready, deleting); one real "
             "RolloutReconciler.Reconcile per case on the fake client; non-trivial = the model writes a status or BatchRelease change; distinct = distinct input JSON",
        trusted=["hook VerifNewReconciler (build tag verif)", "the workload is read through the real ControllerFinder and projected (revisions, in-progress, in-rollback)",
                 "rollout hash abstracted to current/stale/empty; timestamps abstracted to elapsed/fresh"],
        assumptions=["canary strategy over a CloneSet without traffic routing (the traffic manager's calls return immediately without routing configured); the traffic part of "
                     "'step k's traffic rule was applied' is C03's", "approval is an external status write"],
        explanation="C02 theorems over all statuses; same gating boolean evaluated on the real reconcile's result",
    ),
    "C09": dict(
        engines=[dict(name="rolloutsm", quick=1200, thorough=60000, shard=400, trivial_tags=["no-change", "status-not-written"]),
                 dict(name="brexec", quick=600, thorough=30000, shard=400, trivial_tags=["status-unchanged"]),
                 dict(name="labelpatch", quick=300, thorough=10000, shard=400, trivial_tags=["no-write"]),
                 dict(name="convert", quick=300, thorough=10000, shard=300, trivial_tags=[]),
                 dict(name="validate", quick=1500, thorough=40000, shard=500, trivial_tags=[]),
                 dict(name="rolloutbg", quick=1200, thorough=60000, shard=400, trivial_tags=["no-change", "status-not-written"]),
                 dict(name="ctlplane", quick=800, thorough=30000, shard=400, trivial_tags=[]),
                 dict(name="bgfinal", quick=300, thorough=10000, shard=300, trivial_tags=["partitioned"]),
                 dict(name="trctl", quick=600, thorough=20000, shard=400, trivial_tags=[])],
        rule="rolloutsm engine (see C02) with arbitrary nextStepIndex values; brexec, labelpatch, convert engines for the other crash surfaces; every reconcile/call runs under recover(). "
             "validate engine: generated v1beta1 Rollouts (workload kinds incl. unsupported, canary / blue-green / none / both, enableExtraWorkloadForCanary, 0-4 steps with number / "
             "percentage / malformed / absent replicas in pure and MIXED type plans incl. decreasing ones, traffic strings incl. 0%, 101%, non-percent, header matches, 0-2 traffic "
             "routings with missing service / gateway route / negative grace), CREATE and UPDATE against a live object in every phase with one structural field changed (workload "
             "ref, traffic routing, style, step count, step values), 0-2 other Rollouts possibly on the same workload; v1alpha1 UPDATEs of well-formed specs with the same changes; "
             "the real RolloutCreateUpdateHandler.Handle decides; non-trivial = every case; distinct = distinct input JSON",
        trusted=["hooks VerifNewReconciler", "controller-runtime admission decoder and fake client"],
        assumptions=["a BatchRelease owned by a Rollout carries a batchPartition inside its own plan (hand-edited BatchReleases are outside the property)",
                     "v1alpha1 spec validation (weights) is exercised only with well-formed specs; only its update rules are modelled",
                     "the old object of an update is itself a once-admitted Rollout (GetTrafficRouting / GetRollingStyle dereference its strategy)"],
        explanation="no-panic theorems for the Rollout reconcile (every nextStepIndex), the label patcher and the conversions; three theorems on what the validating webhook admits; "
                    "the same clause booleans on the implementation",
    ),
    "C10": dict(
        engines=[dict(name="rolloutsm", quick=1200, thorough=60000, shard=400, trivial_tags=["no-change", "status-not-written"]),
                 dict(name="rollouttr", quick=1200, thorough=60000, shard=400, trivial_tags=["no-network-write"]),
                 dict(name="rolloutbg", quick=600, thorough=30000, shard=400, trivial_tags=["no-change", "status-not-written"]),
                 dict(name="taskorder", quick=70, thorough=70, shard=70, trivial_tags=[]),
                 dict(name="bgfintr", quick=800, thorough=30000, shard=400, trivial_tags=[])],
        rule="seeded generator of (Rollout spec: 1-6 canary steps with int/percent replicas and optional pause durations, paused, disabled, deleting, finalizer, rollback-in-batch "
             "annotation; persisted status: every phase, every Progressing reason, sub-status with every step state incl. unknown, step index, nextStepIndex incl. jumps and out-of-range "
             "values (0, negative, len+1, 99), stale/current/empty rollout hash, every finalising step, elapsed/fresh timestamps; CloneSet: missing, inconsistent generation, rolled back, "
             "new revision, rollout-id label; BatchRelease: absent, matching, stale partition, nil partition, foreign rollout-id, older plan, inconsistent, not ready, deleting); one real "
             "RolloutReconciler.Reconcile per case on the fake client; non-trivial = the model writes a status or BatchRelease change; distinct = distinct input JSON",
        trusted=["as C02"],
        assumptions=["'before the pods are removed' is 'before the BatchRelease is patched to resume / deleted' (pods are represented by BatchRelease state)",
                     "the cancellation sequence is entered with the finalising invariant finv (C04 proves every history keeps it)"],
        explanation="rollback/supersession dispatch theorems; with traffic routing: the workload is touched only after the canary route is gone (rollback and supersession), "
                    "blue-green refuses supersession; the same clauses evaluated on real reconciles (rolloutsm, rollouttr, rolloutbg engines)",
    ),
    "C03": dict(
        engines=[dict(name="rollouttr", quick=1200, thorough=60000, shard=400, trivial_tags=["no-network-write"]),
                 dict(name="rolloutbg", quick=600, thorough=30000, shard=400, trivial_tags=["no-change", "status-not-written"]),
                 dict(name="trafficmgr", quick=800, thorough=40000, shard=400, trivial_tags=["no-write"]),
                 dict(name="gateway", quick=200, thorough=10000, shard=25, search=400, trivial_tags=["no-stable-rule"])],
        rule="rollouttr: the rolloutsm generator (any spec/status/workload/BatchRelease combination, focused modes at the gates) with traffic routing through an nginx Ingress: "
             "per-step strategies (weights, header match, none), stable Service pinned / unpinned / pinned elsewhere, canary Service absent / right / wrong selector, canary "
             "Ingress absent / weight 0 / this step's / previous step's / another strategy, zero or 3 s grace, in-memory grace expectations pending or elapsed per action; one "
             "real Reconcile through the hook with a client that logs every write; network state, write order and pending expectations compared with the model. trafficmgr: "
             "sequences of 2-8 direct calls of DoTrafficRouting / FinalisingTrafficRouting / RestoreStableService / PatchStableService / RestoreGateway / RemoveCanaryService / "
             "RouteAllTrafficToNewVersion on the real manager with the real Ingress provider, interleaved with time passing (hook ages the expectations) and process restarts "
             "(expectations dropped); non-trivial = a network write happened; distinct = distinct input JSON",
        trusted=["hooks VerifNewReconciler, VerifSetGraceSeconds, grace.VerifAge / VerifPending (build tag verif)",
                 "the gateway is the nginx Ingress provider (its annotations are related to strategies by C14); the fake client stands for the API server"],
        assumptions=["canary strategy over a CloneSet (partition style); other providers are covered at provider level by C13-C15, not in this reconcile model",
                     "pods Ready is what the BatchRelease reports (C11 ties that to the workload); the lag between a report and the route write is not modelled"],
        explanation="five theorems over all states of one reconcile / one manager call; the same clause booleans and the models are evaluated against the real reconciler and manager",
    ),
    "C04": dict(
        translator=True,
        engines=[dict(name="rollouttr", quick=1500, thorough=60000, shard=500, trivial_tags=["no-network-write"]),
                 dict(name="trafficmgr", quick=800, thorough=40000, shard=400, trivial_tags=["no-write"]),
                 dict(name="taskorder", quick=70, thorough=70, shard=70, trivial_tags=[]),
                 dict(name="bgfintr", quick=800, thorough=30000, shard=400, trivial_tags=[])],
        rule="the translator (go/ast) re-derives the finalising task orders from nextCanaryTask / nextBlueGreenTask and refuses any other shape of those functions; "
             "rollouttr and trafficmgr generators as for C03; for C04 the relevant cases are the finalising phases (Finalising / Cancelling / Terminating / Disabling) with every "
             "persisted cursor, every network state and every in-memory grace state: when the state satisfies the finalising invariant the state after the real reconcile must "
             "satisfy it again; non-trivial = a network write happened; distinct = distinct input JSON",
        trusted=["translator harness/translate/tasktables.go (go/parser, go/printer): maps the two switch statements to Coq lists and pins the lookup code textually",
                 "hooks VerifNewReconciler, VerifSetGraceSeconds, grace.VerifAge / VerifPending (build tag verif)"],
        assumptions=["canary strategy over a partition-style CloneSet with an nginx Ingress for the reconcile model; the blue-green order is covered by the order theorems only",
                     "'pods of that revision exist' is represented by the BatchRelease / partition state (C01, C11), not by a pod model",
                     "the exit reason does not change while the cursor is mid-sequence (known finding F31) and the workload exists (known finding F30)"],
        explanation="order theorems by computation over the regenerated tables; an inductive invariant of the finalising phase proved over all histories with arbitrary "
                    "restarts / time / failed status writes; the same invariant is checked on the real reconciler from generated states",
    ),
    "C06": dict(
        translator=True,
        engines=[dict(name="rollouttr", quick=1500, thorough=60000, shard=500, trivial_tags=["no-network-write"]),
                 dict(name="trafficmgr", quick=800, thorough=40000, shard=400, trivial_tags=["no-write"]),
                 dict(name="ctlplane", quick=800, thorough=30000, shard=400, trivial_tags=[]),
                 dict(name="handback", quick=600, thorough=30000, shard=400, trivial_tags=[])],
        rule="as C04; crash points are represented as (any persisted state, any network state reachable as a prefix of a reconcile's writes, any in-memory grace state): the "
             "generators draw the grace expectations independently of the persisted state (none / pending / elapsed per action) and the trafficmgr sequences contain explicit "
             "process restarts and clock advances between real manager calls; non-trivial = a network write happened; distinct = distinct input JSON",
        trusted=["hooks as C04", "a crash loses exactly the in-memory grace expectations and the reconcile in flight (informer caches are not modelled)"],
        assumptions=["as C04; equality of the final state with an undisturbed run is shown as 'every finalising history ends clean', not as a confluence theorem",
                     "API errors are modelled as 'the status write of that reconcile is lost'; errors in the middle of a provider call are not injected"],
        explanation="the reconcile model takes the in-memory state as an arbitrary argument, so every theorem of C03-C05 already quantifies over every restart point; plus the "
                    "history theorem with lost status writes and an idempotence theorem; clauses on the real reconciler and manager",
    ),
    "C05": dict(
        engines=[dict(name="rollouttr", quick=1500, thorough=60000, shard=500, trivial_tags=["no-network-write"]),
                 dict(name="rolloutsm", quick=1200, thorough=60000, shard=400, trivial_tags=["no-change", "status-not-written"]),
                 dict(name="custom", quick=400, thorough=20000, shard=200, trivial_tags=[]),
                 dict(name="gateway", quick=200, thorough=10000, shard=25, search=400, trivial_tags=["no-stable-rule"]),
                 dict(name="ctlplane", quick=800, thorough=30000, shard=400, trivial_tags=[]),
                 dict(name="handback", quick=600, thorough=30000, shard=400, trivial_tags=[])],
        rule="rollouttr / rolloutsm generators (see C03 / C02): every phase incl. Terminating and Disabling, every finalising task as persisted cursor, workload present / absent / "
             "with inconsistent status, BatchRelease present / resumed / completed / deleting / absent, network state arbitrary; one real Reconcile per case; non-trivial = the "
             "reconcile changed something; distinct = distinct input JSON",
        trusted=["hooks VerifNewReconciler, VerifSetGraceSeconds, grace.VerifAge / VerifPending (build tag verif)"],
        assumptions=["canary strategy over a partition-style CloneSet with an nginx Ingress", "provider-level exact restore is C13-C15, workload release by the BatchRelease "
                     "controller is C11, HPA handling (blue-green) is not modelled"],
        explanation="per-reconcile theorems: a finalising task is passed only when its effect is in place; an exit is declared finished only when the BatchRelease is gone and "
                    "the marker removed; the same booleans are evaluated on the real reconcile",
    ),
    "C08": dict(
        engines=[dict(name="webhook", quick=1500, thorough=60000, shard=500, trivial_tags=[])],
        rule="seeded structured generator of admission requests: kind in {CloneSet, Advanced DaemonSet, Deployment, native/advanced StatefulSet, custom StatefulSet-like kind}, "
             "(old,new) pairs differing by template / rollout-id / both / annotation-only / hash-label-only / scale / nothing, nil label and annotation maps, absent strategy blocks, "
             "0-3 Rollouts (matching, other name/kind/group, unparsable apiVersion, other version of the same group, deleting, Disabled, empty strategy, canary/blue-green, with and "
             "without traffic routing), webhook configuration with/without a matching rule and objectSelector, non-UPDATE operations and sub-resources, for Deployments 0-3 ReplicaSets "
             "(foreign, deleting, scaled to zero, any revision order) and in-progress releases of every rolling style with un-pause / strategy edits; the real Handle is called with a "
             "fake client, the returned JSON patch is applied to the submitted object; non-trivial = every case (each compares a full admission); distinct = distinct input JSON",
        trusted=["controller-runtime admission.Decoder, fake client and k8s rule Matcher; evanphx/json-patch applies the returned patch",
                 "whether some rule of the MutatingWebhookConfiguration matches the request is an input of the model (k8s.io/apiserver Matcher is not modelled)"],
        assumptions=["ReplicaSets have distinct integer revision annotations and non-nil spec.replicas (API-server defaulting)",
                     "contents of the rewritten deployment-strategy annotation other than its paused flag are not modelled"],
        explanation="five clause theorems over all requests; the model is compared with the real handlers on every case and the same clause booleans, plus a byte-level frame "
                    "comparison of everything outside the modelled fields, are evaluated on the real response",
    ),
    "C15": dict(
        engines=[dict(name="custom", quick=600, thorough=30000, shard=200, trivial_tags=[]),
                 dict(name="istio", quick=800, thorough=40000, shard=400, trivial_tags=[])],
        rule="seeded generator of (1-3 referenced resources: Istio VirtualService / DestinationRule with the built-in scripts, custom kinds with scripts from a small grammar "
             "(set spec fields from weights, add labels/annotations, insert routes, drop labels/annotations/spec, fail at one weight, return a non-table); objects with nested "
             "generated specs or no spec, nil / empty / non-empty labels and annotations, missing objects, a pre-existing empty snapshot; 1-3 strategies (weights incl. 0/100, "
             "header matches, header modifier) and 1-7 operations (EnsureRoutes with repeats, Finalise)); the real provider runs on a fake client that counts Update calls; "
             "every script evaluation the model needs is supplied by an independent run of the real Lua VM on the stored snapshot (oracle table); non-trivial = every case; "
             "distinct = distinct input JSON. istio engine: generated VirtualService specs (http/tcp/tls present or absent, 1-3 rules, rules with match, 1-3 destinations on "
             "the stable host in short / namespaced / FQDN form or on other hosts, subsets, weights absent/100/split, extra fields), weight 0..100 or none, 0-2 matches, "
             "canary service equal to the stable one (subset mode), DestinationRule with/without subsets; one real EnsureRoutes with the built-in scripts, result projected "
             "per rule",
        trusted=["gopher-lua and luamanager evaluate the oracle table (the script is a parameter of the model and of the theorems)",
                 "controller-runtime fake client stores unstructured objects as written"],
        assumptions=["scripts are deterministic functions of their input (no os/time access: C16)", "Update never fails (conflicts are not injected)",
                     "spec values survive a JSON round trip (integers of magnitude above 2^53 are outside the generator)"],
        explanation="three history theorems for ANY script and any number of references; the same clause booleans and the model itself are evaluated against the real provider",
    ),
    "C16": dict(
        engines=[dict(name="luajson", quick=1200, thorough=40000, shard=600, trivial_tags=[])],
        rule="case 0 enumerates the globals a script can name inside the real VM (two levels) and runs six capability probes (dofile / loadfile / require on a temp file, io, os, "
             "load of a string); cases 1-26 are the hostile-script corpus (busy loops incl. inside pcall, unbounded and mutual recursion, __index recursion, error with string / table, "
             "nil index, wrong return types, no return, function values, cyclic / sparse / mixed-key tables, os.exit, os.execute, io.open, require, string doubling, syntax error) "
             "run through RunLuaScript + Encode with wall time and recovered panics recorded; the rest are generated JSON-like values (depth <= 4: null, bool, ints incl. negative, "
             "0 and up to 2^51, strings incl. empty and quoted, empty and nested arrays/objects, null members/elements, numeric-looking keys) handed to a script as int64 or float64 "
             "and returned, and generated Lua tables (array part with holes, string-keyed part, non-positive numeric and boolean keys, function values, nesting) built through "
             "RawSet and passed to Encode; non-trivial = every case; distinct = distinct input JSON",
        trusted=["gopher-lua (VM, table implementation, context deadline) -- its termination and panic-freedom are tested, not proved",
                 "the classification reaches_os (which names touch files, processes or the network) is read off gopher-lua's library sources"],
        assumptions=["numbers are integers of magnitude below 2^53 (exact doubles); strings are printable ASCII in the generator",
                     "cyclic tables cannot be written in the tree model (covered by the corpus: errNested)", "memory and nesting bombs are outside the claim (property text)"],
        explanation="round-trip theorems over all JSON values by nested induction; capability surface proved by computation over the finite list and compared with the real VM; "
                    "time / panic clauses are tests on the corpus",
    ),
    "C17": dict(
        engines=[dict(name="deployctl", quick=1200, thorough=60000, shard=400, trivial_tags=["no-change"])],
        rule="seeded generator of (replicas 0..100, partition int/percent incl. 0/1/99/100%, maxSurge/maxUnavailable int/percent/absent, new ReplicaSet size and availability, 0-5 old "
             "ReplicaSets with sizes summing to, above (surge in flight) or below (deficit) what the partition reserves, partly unavailable, new ReplicaSet created before or after the "
             "old ones); one real syncDeployment through the hook on a fake clientset and listers; non-trivial = the model scales some ReplicaSet; distinct = distinct input JSON",
        trusted=["hook VerifSyncDeployment (build tag verif)", "k8s fake clientset and listers stand for the API server and informer cache",
                 "old ReplicaSets are created oldest first with increasing revisions (fixes the controller's three sort orders)"],
        assumptions=["the new ReplicaSet exists (its creation, candidate finding F19, is not modelled)", "no scaling event (desired-replicas annotations agree with spec.replicas)",
                     "ReplicaSet controller: unavailable pods are removed first (availability clause counts min(available, size))"],
        explanation="two of the four clauses proved over all states; the other two and the model itself are checked against the real controller on every case",
    ),
    "C18": dict(
        engines=[dict(name="rolloutsm", quick=1200, thorough=60000, shard=400, trivial_tags=["no-change", "status-not-written"]),
                 dict(name="brexec", quick=600, thorough=30000, shard=400, trivial_tags=["status-unchanged"]),
                 dict(name="trctl", quick=800, thorough=30000, shard=400, trivial_tags=[]),
                 dict(name="trfin", quick=400, thorough=10000, shard=400, trivial_tags=[]),
                 dict(name="ctlplane", quick=800, thorough=30000, shard=400, trivial_tags=[])],
        rule="rolloutsm and brexec engines with deleting objects in every phase, with and without finalizer; trctl engine: TrafficRouting objects in every persisted phase, live or "
             "deleting, with / without the controller's finalizer and finalizers of progressing Rollouts, network states (stable Service present / missing, canary Ingress absent / "
             "this / another strategy), pending or elapsed grace expectations, zero grace, and an injected failure of the gateway read; one real TrafficRoutingReconciler.Reconcile",
        trusted=["hooks VerifNewReconciler (rollout, batchrelease, trafficrouting controllers)"],
        assumptions=["faults between teardown calls are covered as 'any persisted state' plus an injected gateway error (TrafficRouting) -- not as errors at every API call"],
        explanation="finalizer-guard theorems for the Rollout, BatchRelease and TrafficRouting controllers (plus 'deletion is not blocked' for TrafficRouting); guard clauses on "
                    "the implementation",
    ),
    "C11": dict(
        engines=[dict(name="brexec", quick=1200, thorough=60000, shard=400, trivial_tags=["status-unchanged"]),
                 dict(name="bgfinal", quick=600, thorough=20000, shard=300, trivial_tags=["partitioned"]),
                 dict(name="ctlplane", quick=800, thorough=30000, shard=400, trivial_tags=[]),
                 dict(name="arith", quick=700, thorough=40000, shard=500, trivial_tags=[])],
        rule="seeded generator of (BatchRelease spec: plan, batchPartition incl. nil and beyond the plan, failureThreshold, deleting, finalizer; persisted status: every phase incl. "
             "empty/Initial/unknown, batch incl. out of range, every batch state incl. unknown, stale/current/empty plan hash, stale observed replicas/revisions; CloneSet: "
             "missing, unstable generation, promoted, scaled, rolled back, new template, progress below/at/above the batch, current partition absent/100%/target/arbitrary, "
             "control annotation mine/other/none); one real BatchReleaseReconciler.Reconcile per case on the fake client; non-trivial = the model changes the status; "
             "distinct = distinct input JSON",
        trusted=["hook VerifNewReconciler (build tag verif)", "the plan hash is abstracted to current/stale/empty by the harness"],
        assumptions=["partition-style CloneSet without rollout-id and without rollback-in-batches (labels: C12; other kinds' arithmetic: C01/C07)"],
        explanation="four clause theorems over all statuses/observations; the same booleans are evaluated on the real reconcile's result",
    ),
    "C12": dict(
        engines=[dict(name="labelpatch", quick=400, thorough=20000, shard=400, trivial_tags=["no-write"])],
        rule="seeded structured generator of (plan, replicas, current batch, rollout-id, update revision, pods with revision labels/"
             "ReplicaSet owners/terminating flags/pre-existing rollout-id and batch-id strings incl. foreign, non-numeric, signed, "
             "out-of-range, overflowing), with no filter, the unordered filter (incl. the rollback-in-batches set-up of the partition controls) or, one case in five, the "
             "ordered StatefulSet filter: pods named web-<ordinal> in shuffled listing order, planned / partition derived as the StatefulSet control derives them from a "
             "number of no-need-update pods, pre-existing labels anywhere; for the ordered filter the pass is run a second time on a fresh store with the REVERSED listing; "
             "a case is non-trivial when the model issues at least one label write, panics or errors; distinct = distinct input JSON",
        trusted=["util.ComputeHash of a ReplicaSet template is an opaque string supplied by the harness (computed by the real function)",
                 "strategic-merge patch of pod labels by the fake client = set the named labels"],
        assumptions=["pod names are distinct", "0 <= currentBatch < len(batches) (the executor never calls the patcher otherwise)",
                     "ordered filter: pod names are <statefulset>-<ordinal> with distinct ordinals (a name without '-' makes sortPodsByOrdinal panic; pod names are not user-writable)",
                     "a batch-id label is read as the number it spells (\"+1\", \"01\" are batch 1), as the patcher's strconv.Atoi does"],
        explanation="theorems over all pod lists/plans in Properties/C12.v; the same boolean clauses are evaluated on the real PatchPodBatchLabel output",
    ),
}

HOOK_COMMITS = ["bf5febd", "cd696c4", "9ed478c", "e2da513", "a1cf379", "74a10c2", "07fc074", "a8a8845"]
NOT_APPLICABLE = []

MANIFEST_TEXT = {
    "C01": dict(
        text="Proof (arithmetic layer): for every workload kind, every valid int/percent step, every replica count (unbounded) and with or without "
             "rollback-in-batches bookkeeping, the knob CalculateBatchContext computes exposes at most the step's allowance plus 1% of the size, "
             "UpgradeBatch writes exactly that knob and never lowers the exposure, and later steps of a same-typed plan allow no less. The Gallina "
             "functions are compared with the real CalculateBatchContext/UpgradeBatch of the seven control.go on every run.",
        note="Partial with respect to the full statement: the history layer (which batch the executor works on, batchPartition written by the Rollout "
             "reconciler, interleavings with scale events and plan edits) is covered by the C11/C02 single-reconcile theorems, not yet by a closed-loop "
             "history theorem. exposed() for external workload controllers is assumed. Known finding F12 (mixed int/percent partition Deployment).",
        design_ref="DESIGN.md section 9, C01"),
    "C07": dict(
        text="Proof, in three layers. (1) Arithmetic: the update target always suffices for the readiness criterion, proved for all kinds, steps and n "
             "outside three exactly characterised regions that are refuted by witnesses and listed as known findings (F1, F12, F21). (2) Wake-ups: for the "
             "Rollout reconcile (canary and blue-green) and the BatchRelease reconcile, for EVERY persisted state and observation, a reconcile that changes "
             "nothing, reports no error and asks for no requeue happens only while the next move is somebody else's (workload missing/lagging, this step's "
             "BatchRelease not yet Ready, a pause without duration, spec.paused, a Ready batch held by batchPartition, Completed); and the two controllers "
             "never wait for each other (C07_no_mutual_wait). The same predicates are evaluated on real reconciles. (3) Provider fixed points: second-call "
             "probes in the gateway / ingress engines (theorems under C13-C15).",
        note="Partial: deadlock-freedom and local progress are proved, a ranking function for the whole healthy rollout (a bound on the number of reconciles over fair "
             "schedules) is not; reconciles with traffic routing are covered by the clause on the implementation only. exposed() assumed.",
        design_ref="DESIGN.md section 9, C07"),
    "C13": dict(
        text="Proof: for every rule list, weight, match list (any mix/order of path, header, query matchers), every request and every value-comparison "
             "semantics: exact split with other backends/matches/filters untouched, unrelated rules untouched, original rules kept, each generated canary rule "
             "accepts only requests satisfying one of the user's matches, finalise removes every canary reference and keeps every user rule. The Gallina "
             "builder is compared with the real EnsureRoutes/Finalise on generated routes and step sequences on every run, and the same boolean oracles are "
             "evaluated on the implementation's output. Three genuine defects found this way were repaired (F3, F4, F22).",
        note="Rules with an empty match list are outside the domain (CRD defaulting). After Finalise the stable backendRef weight is 1 rather than the user's "
             "original weight (F15, judged under C05, not C13). Sequences are checked on the implementation; the sequence theorem is per step.",
        design_ref="DESIGN.md section 9, C13"),
    "C14": dict(
        text="Proof: for every built-in class, every annotation map and every pair of steps, applying a step after another yields key-by-key the annotations of "
             "applying it directly (one generic theorem about clear-then-set scripts, instantiated by showing that each class's assigned keys are cleared or always "
             "assigned); the canary Ingress's paths are exactly the stable Service paths re-targeted, for every Ingress. The model of provider and scripts is compared "
             "with the real EnsureRoutes/Finalise running the real .lua files in gopher-lua on generated Ingresses and step sequences, including a fresh-application "
             "probe for history independence and a stable-Ingress-unchanged check. Three defects found this way were repaired (F25, F8, F26).",
        note="The script models are tied to the .lua files by execution only (no Lua semantics in Coq). 'The stable Ingress is never modified' and 'finalise deletes the "
             "canary Ingress' are checked on the implementation, the model has no write to the stable object at all.",
        design_ref="DESIGN.md section 9, C14"),
    "C19": dict(
        text="Partial proof. Proved: for every interleaving of RunWithGraceSeconds calls of any number of Rollouts with clock advances and process restarts, the answers a Rollout "
             "gets from the process-wide expectation store are exactly those it gets alone, provided the others do not use its keys (the keys embed the Rollout's UID, the stable "
             "Service's UID or the canary Service's namespace/name). The store model is compared with the real store on generated histories, and the real store's answers "
             "interleaved vs alone are compared directly. Tested, not proved: 2-3 real Rollout reconcilers run concurrently in one process under the Go race detector reach, "
             "object by object, the state each reaches alone, with no race report and no panic. The second process-wide store, the creation expectations of canary-style "
             "BatchReleases, has its own model (Model/Expect.v, compared with the real store), the same non-interference theorem, and a theorem that the namespace/name key "
             "tells apart BatchReleases that share a name; the real canary control plane and event handler of same-named BatchReleases in different namespaces are run "
             "interleaved and compared with solo runs, and concurrent real Lua script runs are compared with solo runs under the race detector.",
        note="Data-race freedom is a property of the Go execution: it is tested dynamically (race detector), which is exploration, not proof. The dynamic watch registry and the Lua "
             "runtime are exercised by the concurrent run only.",
        design_ref="DESIGN.md section 9, C19"),
    "C20": dict(
        text="Proof: for every v1alpha1 Rollout/BatchRelease of the modelled shape (optional blocks absent or present, any step list) the v1alpha1 -> v1beta1 -> "
             "v1alpha1 round trip yields an object with the same meaning, every canary-strategy v1beta1 Rollout restricted to v1alpha1-expressible fields survives "
             "a read-modify-write through v1alpha1, and no conversion panics. The Gallina conversions are compared with the real ConvertTo/ConvertFrom on generated "
             "objects in both orders on every run; the same same-meaning relations are evaluated on the implementation's output. Two defects found this way were repaired (F10, F24).",
        note="Pass-through groups are opaque digests (a dropped field inside one changes the digest and is caught by the correspondence, but the model does not "
             "name it). A v1beta1 step with traffic and no replicas reads back with replicas = traffic (v1alpha1's meaning of a weight-only step); stated in beta_rmw.",
        design_ref="DESIGN.md section 9, C20"),
    "C02": dict(
        text="Proof: for one Rollout reconcile and EVERY spec, persisted status, workload and BatchRelease observation: while rolling without a pending user request the step "
             "cursor either stays or moves along the gated path (upgrade done only when the BatchRelease carries exactly this step's plan and partition, has observed it and reports "
             "Ready; pause left only through the elapsed duration or a 100%% last step; next step/completion only from StepReady), and a paused rollout writes nothing and keeps its "
             "cursor. The Gallina reconcile is compared with the real RolloutReconciler.Reconcile on generated states on every run; the gating boolean is evaluated on the real result.",
        note="Single-reconcile theorems over arbitrary persisted states, lifted to every history of reconciles in which each reconcile finds an arbitrary workload / BatchRelease "
             "observation and only the persisted status is carried over (C02_every_history_is_gated) -- so they hold across restarts between any two writes. Canary and blue-green strategies over a CloneSet without traffic routing (the blue-green reconcile has its own model, theorems "
             "C02_bluegreen_steps_are_gated / C02_bluegreen_manual_pause_waits and engine rolloutbg: no pause, the last one included, is left without its duration elapsing).",
        design_ref="DESIGN.md section 9, C02"),
    "C09": dict(
        text="Proof (controller half): for every Rollout status satisfying the controller's own invariants and EVERY integer nextStepIndex the Rollout reconcile model does not panic; "
             "the label patcher and the API conversions are total. Each model is tied to the code by its engine, which runs the real code under recover(). One crash found this way "
             "was repaired (F5); F2 and F10 are the corresponding repairs in the patcher and the conversions.",
        note="Validation half: a model of validateRollout / validateRolloutUpdate (v1beta1) and of the v1alpha1 update rules is proved to admit only non-empty plans whose steps are "
             "pairwise ordered per type, one Rollout per workload, and no change of workload reference, traffic routing, style or step count while Progressing or Terminating; it is "
             "compared with the real handler on every run. This found and repaired F13 (decreasing steps separated by a step of the other type) and F16 (step count changeable "
             "through v1alpha1). Blue-green reconciles have their own no-panic theorem and engine (rolloutbg); F17 is a panic inside the admission handler, recovered by net/http.",
        design_ref="DESIGN.md section 9, C09"),
    "C10": dict(
        text="Proof: a direct rollback switches the reconcile to Cancelling without touching the BatchRelease, the cancellation order starts with RouteTrafficToStable; with traffic "
             "routing, a reconcile of the cancellation sequence that patches or deletes the BatchRelease finds the canary route already gone and writes nothing to the network "
             "(for every persisted state satisfying the finalising invariant and every in-memory grace state); a newer revision removes the BatchRelease only in a reconcile "
             "after whose writes the canary route is gone, and resets the status to step one only once the BatchRelease is gone; a blue-green release leaves cursor and "
             "BatchRelease untouched when a newer revision arrives. Tied to the real Reconcile by the rolloutsm, rollouttr and rolloutbg engines; the clauses are evaluated on "
             "the real results.",
        note="'Before the new-revision pods are removed' is stated on the BatchRelease (its resume / deletion is what removes them). The end state 'reported as not succeeded' is "
             "part of the dispatch theorems (Completed with Succeeded=false in Model/RolloutSM.v).",
        design_ref="DESIGN.md section 9, C10"),
    "C03": dict(
        text="Proof: for one Rollout reconcile with traffic routing and EVERY persisted status, workload, BatchRelease, network state and in-memory grace state: a route is written "
             "only while rolling, in the traffic-routing state of the current step (which C02 shows is entered only after the BatchRelease for that step reported its pods Ready), "
             "behind an already pinned stable Service and an existing canary Service, after the grace period, as the only network write of the pass; a step reported as routed "
             "carries exactly its strategy on the gateway with both Services selecting the right revisions; the pass that lets the first step's pods be created leaves the stable "
             "Service pinned. The reconcile model (RolloutSM + traffic manager) and the manager model are compared with the real reconciler / manager (real Ingress provider) on "
             "generated states and call sequences on every run, write order included.",
        note="Canary strategy over a partition-style CloneSet with an nginx Ingress; blue-green and the other providers are not in this reconcile model (their provider-level "
             "behaviour is C13-C15). 'Every interleaving' is covered as 'every state a reconcile can start from'.",
        design_ref="DESIGN.md section 9, C03"),
    "C04": dict(
        text="Proof: (1) the finalising orders are regenerated from the source by a go/ast translator on every run; over them it is proved by computation that in every exit "
             "reason of both strategies routes are withdrawn before the canary Service is removed, the stable Service is un-pinned before the workload is resumed (on rollback: "
             "the route is withdrawn before the new pods go), and every cleanup task occurs exactly once. (2) For the canary reconcile model an inductive invariant of the "
             "finalising phase is proved over ALL histories -- any number of reconciles, each with an arbitrary workload / BatchRelease observation and arbitrary in-memory "
             "grace state, failed status writes included: no route ever points at a missing canary Service and the phase ends with no route, no canary Service and an un-pinned "
             "stable Service. (3) While rolling, the gateway is written only behind an existing canary Service and pinned stable Service, a no-traffic step deletes the canary "
             "Service only after the route is gone, and a full partition step un-pins the stable Service first. The models are compared with the real reconciler and manager on "
             "every run and the invariant is checked on the real reconciler from generated states.",
        note="Known findings F30 (no workload: revision key unknown) and F31 (exit reason changes mid-sequence) are exactly the two hypotheses of the history theorem. Pod existence "
             "is represented through BatchRelease / partition state; blue-green has order theorems only.",
        design_ref="DESIGN.md section 9, C04"),
    "C06": dict(
        text="Partial proof. The reconcile and manager models take the in-memory grace state as an arbitrary argument and every theorem of C03, C04 and C05 quantifies over it and "
             "over every persisted / network state, which is what a crash at any write leaves behind. Proved in addition: one finalising reconcile with a lost status write "
             "keeps the invariant; such a reconcile makes at most one network write; every finalising history with arbitrary restarts, clock advances and lost status writes "
             "ends clean; a completed gateway restore writes nothing when repeated; a control-plane Finalize never reports success when one of its API calls failed (the fault "
             "ranges over every call). The real manager is run through call sequences with explicit restarts and clock advances, the real reconciler from generated (state, "
             "grace-state) pairs including half-configured networks and a failing gateway, the control planes with the n-th Get/Patch/List/Update/Create failing.",
        note="'Same final state as an undisturbed run' is shown as 'every history ends clean' (safety), not as confluence; faults inside the BatchRelease controller are C11's "
             "per-reconcile theorems; informer-cache staleness and creation expectations are not modelled.",
        design_ref="DESIGN.md section 9, C06"),
    "C05": dict(
        text="Partial proof. Proved for every persisted state of one reconcile: doCanaryFinalising moves its cursor past RestoreStableService / RouteTrafficToStable / "
             "RemoveCanaryService only when the stable Service is un-pinned / the canary route withdrawn / the canary Service gone after that reconcile's writes; the three manager "
             "operations report completion only on a restored network; whichever exit (success, rollback, delete, disable) is declared finished only once the BatchRelease is gone "
             "and the in-progress marker removed. The reconcile models are compared with the real reconciler on generated states (every phase, every finalising cursor) on every "
             "run and the same booleans are evaluated on the real result. This check found F29 and F32 (delete while the workload status is inconsistent left the stable Service "
             "pinned). Workload side: a successful Finalize of the partition-style / canary-style Deployment control plane leaves no control marker, pause or finalizer behind "
             "(Model/CtlPlane.v, ctlplane engine); network side: custom resources and Gateway routes are restored (theorems of C15 / C13, their clauses evaluated under C05 too).",
        note="The end-to-end statement (final quiescent cluster equals the pre-rollout cluster) over whole histories, blue-green fields (minReadySeconds, maxSurge, HPA) and the "
             "other workload kinds are not modelled: the claim is the per-reconcile core plus C11 (workload released) and C13-C15 (provider restores exactly).",
        design_ref="DESIGN.md section 9, C05"),
    "C08": dict(
        text="Proof: Properties/C08.v states for EVERY admission request (any kind, any old/new pair, any list of Rollouts and ReplicaSets, any webhook selection) that the model of "
             "WorkloadHandler.Handle / UnifiedWorkloadHandler.Handle holds a release change of a running, selected workload with an active matching Rollout (paused / partition 100% / "
             "partition MaxInt16) and marks it in-progress for exactly that Rollout, re-pauses an un-paused Deployment in the middle of a canary- or partition-style release, admits "
             "everything else unchanged, never touches a field outside the per-kind write set, and never fails. The model is compared with the real handlers (real decoder, fake "
             "client, returned JSON patch applied to the submitted bytes) on generated requests on every run; the clause booleans and a byte-level frame check run on the real response.",
        note="The k8s rule Matcher and label-selector machinery are inputs; the full text of the rewritten deployment-strategy annotation is not modelled (only its paused flag).",
        design_ref="DESIGN.md section 9, C08"),
    "C15": dict(
        text="Proof: for ANY script (a parameter), any number of referenced resources and any history of EnsureRoutes / Finalise calls starting from what the user had: a successful "
             "step leaves every resource showing exactly script(stored original, step) (steps never accumulate), Finalise restores spec, labels and annotations (nil and empty maps "
             "identified) and removes the snapshot, a repeated step writes nothing and reports done, a second Finalise is a no-op. The Gallina provider (store / compare-and-update "
             "/ restore, error paths included) is compared with the real customController on generated objects, scripts and operation sequences on every run, with the script "
             "evaluations supplied by an independent run of the real Lua VM. For the built-in Istio scripts a Gallina model of trafficRouting.lua is proved to split a rule whose only "
             "destination is the stable service into exactly (100-w, w) and to leave rules with a match or on other hosts untouched, and is compared with the real script run "
             "through the provider on generated VirtualServices.",
        note="The Gallina model of the VirtualService script covers the weight path fully and the matches path up to the content of the generated match/headers blocks; Update failures are not injected; integers "
             "above 2^53 in a spec lose precision in the snapshot's JSON round trip (outside the generator, recorded as an observation in DESIGN.md).",
        design_ref="DESIGN.md section 9, C15"),
    "C16": dict(
        text="Partial proof. Proved for every JSON-like value (unbounded depth and size): handing a value to a script (decodeValue / DecodeValue) and taking it back (Encode) yields "
             "exactly the value with null members/elements removed and empty containers turned into null, and values without those come back unchanged; the finite list of globals "
             "a script can name contains nothing that reaches files, processes or the network. The Gallina decoder/encoder (including gopher-lua's table iteration order as far as "
             "the encoder depends on it) is compared with the real code on generated values and tables, and the list of globals with the real VM's global table plus six capability "
             "probes, on every run. Bounded return time, error-or-table result and absence of panics are TESTED on a corpus of 26 hostile scripts, not proved.",
        note="Termination within the 1 s deadline, stack limits and absence of Go panics are properties of the gopher-lua interpreter for which no formal semantics is available "
             "here: those clauses are tests (corpus + wall-clock bound of 3 s). Blocking of the worker by CPU-bound Go code inside the VM (e.g. string.rep) is outside the model.",
        design_ref="DESIGN.md section 9, C16"),
    "C17": dict(
        text="Proof (all four clauses): for every state of a partition-style Deployment and one sync of the advanced deployment controller, the new ReplicaSet never grows beyond "
             "max(current size, partition limit) while old pods exist and is never scaled up so that the total exceeds replicas + maxSurge; the old ReplicaSets are never shrunk below "
             "min(what they held, replicas - max(partition limit, new size)); the available pods kept by the sync number at least min(replicas - maxUnavailable, what was available). "
             "The model of reconcileNew/OldReplicaSets includes the slice aliasing of the scale-down order that the check discovered (the loop may walk, and shrink, the NEW "
             "ReplicaSet); the reserve and availability theorems hold in that case too. The model is compared with the real syncDeployment on every run (focused mode with several "
             "unhealthy old ReplicaSets, stale status.availableReplicas) and all four clause booleans are evaluated on the real result.",
        note="maxUnavailable is assumed non-negative (API validation). Convergence at full partition is not proved; ReplicaSet creation (F19) and the scaling-event branch are "
             "outside the model.",
        design_ref="DESIGN.md section 9, C17"),
    "C18": dict(
        text="Proof: the Rollout controller drops its finalizer only when the Terminating condition already reports Completed, the BatchRelease controller only for a deleting "
             "object in phase Completed (which C11 ties to a successful Finalize), the TrafficRouting controller only in a reconcile of a deleting object whose traffic cleanup "
             "completed without error (the canary route is gone when the finalizer goes). Conversely, for each of the three controllers: once the cleanup is recorded as complete "
             "the next reconcile drops the finalizer (deletion_not_blocked), and every reconcile of a deleting object that keeps the finalizer fails, asks for a requeue or "
             "moves its own recorded status (teardown_never_stalls). The three reconcile models are compared with the real reconcilers on deleting objects in every phase and "
             "the same clauses are evaluated on the real results, vanished objects included.",
        note="The TrafficRouting controller model found F7 (finalizer removed before the cleanup ran), repaired in /repo. Faults between teardown calls are covered as 'any "
             "persisted state' plus one injected gateway error, not as an error at every API call.",
        design_ref="DESIGN.md section 9, C18"),
    "C11": dict(
        text="Proof: for one BatchRelease reconcile on a partition-style CloneSet and for EVERY spec, persisted status and workload observation: Ready is entered only when "
             "the observed workload satisfies the readiness predicate for that batch, the batch cursor never advances beyond batchPartition, Completed is reported only by "
             "the reconcile whose Finalize released the workload, and a changed plan or scaled workload makes a Ready batch fall back. The Gallina reconcile (sync + execute + "
             "finalizer handling) is compared with the real Reconcile on generated states on every run; the same clause booleans are evaluated on the real result.",
        note="Finalize of three more control planes is modelled separately (Model/CtlPlane.v: partition-style and canary-style Deployment, with any one API call failing; "
             "Model/BGFinal.v: blue-green Deployment over histories of attempts): success only on a released -- and, with WaitResume, promoted -- workload. 'On every attempt "
             "including retries' is FALSE of the blue-green Deployment code: known finding F6 (refutation theorem + replay on the real control plane on every run; the one-line "
             "repair would break an existing spec that passes only because of the defect). StatefulSet / DaemonSet / blue-green CloneSet Finalize are not modelled. 'Only while' is "
             "per reconcile.",
        design_ref="DESIGN.md section 9, C11"),
    "C12": dict(
        text="Proof: Properties/C12.v states, for every pod list, plan, replica count, batch and every label string, that batch-label writes of "
             "the PatchPodBatchLabel model go only to live new-revision pods not yet labelled for this release, one label per pod, at most "
             "(increment - already counted) new labels per batch, that only live/current/parsable labels are counted, that no input panics, and that with the ordered "
             "(StatefulSet) filter the writes are the same for every permutation of the pod list. "
             "The model is tied to the Go code by running the real PatchPodBatchLabel (twice, for idempotence) on generated pod sets and comparing "
             "labels and patch counts with the model inside Coq; the property clauses are also evaluated on the implementation's output.",
        note="Idempotence of a second pass is checked on the implementation's output on every case, not yet proved for the model; "
             "ComputeHash is opaque; pod names distinct; the fake client stands for the API server.",
        design_ref="DESIGN.md section 9, C12"),
}

# ---- additions of round 6 (appended to the texts above) ----
_ADD = {
    "C03": " Blue-green: a step reaches its traffic-routing state only behind a BatchRelease reporting this step's batch Ready (theorem + clause on the real "
           "blue-green reconcile, rolloutbg engine).",
    "C04": " The taskorder engine walks the REAL nextCanaryTask / nextBlueGreenTask from every cursor of every reason and evaluates the order clauses on what they "
           "return; the bgfintr engine runs the blue-green exit sequences with traffic routing (Model/BGFinTR.v) and checks that every reconcile keeps the invariant. "
           "One defect found this way was repaired (F20).",
    "C06": " A failed first read of the workload inside a reconcile must end in an error with nothing changed (read_failed model and clause).",
    "C09": " The TrafficRouting reconcile (trctl engine, incl. an empty strategy) must not panic either.",
    "C10": " Blue-green exits with traffic routing have their own model (Model/BGFinTR.v, tied by the bgfintr engine) and two theorems: the rollback touches the "
           "BatchRelease only on a network without canary route, and the cursor leaves RouteTrafficToStable only once the route is gone.",
    "C16": " Proved in addition: whenever Encode succeeds on ANY table the output has exactly as many elements / members as the table has live entries. Tested in "
           "addition: a well-behaved script gives the same result before and after another script tampered with every global it can reach (fresh state per call).",
    "C05": " The blue-green control planes (Deployment, CloneSet) and the HPA have their own model (Model/HandBack.v, tied by the handback engine through the real "
           "control-plane wrappers): Initialize, any UpgradeBatch calls and Finalize, with any one Patch failing and phases retried, hand the workload back as "
           "configured (theorem C05_bluegreen_workload_handed_back_as_configured).",
    "C07": " The TrafficRouting controller (trctl engine) has its own theorem and clause: a reconcile that leaves an object Finalizing without an error has asked "
           "for a requeue -- nothing else would wake it.",
    "C11": " A canary-style Finalize with the WaitResume policy succeeds only on a promoted Deployment, on every attempt (clause on the ctlplane engine for theorem "
           "C11_canary_deployment_finalize_done_means_promoted).",
    "C18": " The ctlplane engine also runs Finalize of the canary-style control plane when the stable Deployment is already gone: success still means that no canary "
           "Deployment keeps the batch-release finalizer.",
    "C19": " Two more kinds of coupling are covered since round 7: the registry of dynamically watched workload types (model watch_step, theorems "
           "C19_workload_type_registered_only_by_a_successful_watch and C19_failed_watch_changes_nothing, the real Reconcile against a scripted controller whose "
           "Watch calls fail) and generated object names (theorem C19_canary_service_names_tell_rollouts_apart; Rollouts of ONE namespace with long, similar stable "
           "Service names drive the real traffic manager interleaved and are compared with their solo runs).",
    "C17": " A fifth, tested, clause covers the last sentence: at full partition with every pod available a sync of a not yet converged Deployment changes some "
           "ReplicaSet size.",
}
for _k, _v in _ADD.items():
    MANIFEST_TEXT[_k]["text"] += _v
