"""Which engines, theorems and assumptions serve which property (read by ./check)."""

COMMON_TRUSTED = [
    "Coq 8.16.1 kernel and vm_compute (no native_compute)",
    "correspondence harness: generators, Go->Coq term printer (harness/emit), projection of real objects to model inputs/observables",
    "controller-runtime fake client as the API server",
    "no extraction is used",
]

PROPS = {
    "C12": dict(
        engines=[dict(name="labelpatch", quick=400, thorough=20000, shard=400, trivial_tags=["no-write"])],
        rule="seeded structured generator of (plan, replicas, current batch, rollout-id, update revision, pods with revision labels/"
             "ReplicaSet owners/terminating flags/pre-existing rollout-id and batch-id strings incl. foreign, non-numeric, signed, "
             "out-of-range, overflowing); a case is non-trivial when the model issues at least one label write, panics or errors; "
             "distinct = distinct input JSON",
        trusted=["util.ComputeHash of a ReplicaSet template is an opaque string supplied by the harness (computed by the real function)",
                 "strategic-merge patch of pod labels by the fake client = set the named labels"],
        assumptions=["pod names are distinct", "0 <= currentBatch < len(batches) (the executor never calls the patcher otherwise)"],
        explanation="theorems over all pod lists/plans in Properties/C12.v; the same boolean clauses are evaluated on the real PatchPodBatchLabel output",
    ),
}

HOOK_COMMITS = []
NOT_APPLICABLE = []

MANIFEST_TEXT = {
    "C12": dict(
        text="Proof: Properties/C12.v states, for every pod list, plan, replica count, batch and every label string, that batch-label writes of "
             "the PatchPodBatchLabel model go only to live new-revision pods not yet labelled for this release, one label per pod, at most "
             "(increment - already counted) new labels per batch, that only live/current/parsable labels are counted, and that no input panics. "
             "The model is tied to the Go code by running the real PatchPodBatchLabel (twice, for idempotence) on generated pod sets and comparing "
             "labels and patch counts with the model inside Coq; the property clauses are also evaluated on the implementation's output.",
        note="Idempotence of a second pass is checked on the implementation's output on every case, not yet proved for the model; "
             "ComputeHash is opaque; pod names distinct; the fake client stands for the API server.",
        design_ref="DESIGN.md section 9, C12"),
}
