(* Proofs about Model/HandBack.v: the blue-green control planes hand the workload back as the user configured it (C05, C06). *)
From RV Require Import Base.Util Base.IntStr Model.HandBack Corr.HandBack.
Require Import Lia.

Definition cfg (k : bgkind) (w : bgw) : Z * Z * ios * ios :=
  (w_min_ready w, match k with BGDeploy => orelse (w_deadline w) 600 | BGClone => 0 end,
   orelse (w_surge w) (default_surge k), orelse (w_unavail w) (default_unavail k)).
Definition sv_cfg (k : bgkind) (sv : saved) : Z * Z * ios * ios :=
  (sv_min_ready sv, match k with BGDeploy => orelse (sv_deadline sv) 600 | BGClone => 0 end,
   orelse (sv_surge sv) (default_surge k), orelse (sv_unavail sv) (default_unavail k)).

Definition StA k c w := w_claimed w = false /\ w_saved w = None /\ cfg k w = c.
Definition StB k c w := w_claimed w = true /\ (exists sv, w_saved w = Some sv /\ sv_cfg k sv = c) /\ validate k w = true /\ w_hpa w <> Some false.
Definition StC k c w := StA k c w /\ (k = BGDeploy -> w_paused w = false /\ w_label w = false).

Lemma patch_cases f : (exists f', patch f = (true, f')) \/ (exists f', patch f = (false, f')).
Proof. destruct f as [[|[|n]]|]; cbn; eauto. Qed.

Ltac pc f := let f' := fresh "f" in let E := fresh "E" in destruct (patch_cases f) as [[f' E]|[f' E]]; rewrite E in *; cbn [fst snd] in *.

Ltac ok_B Hs Hcfg Eh :=
  split; [intros _|discriminate];
  split; [reflexivity|]; split; [eexists; split; [reflexivity|]; unfold sv_cfg, init_setting; cbn; rewrite Hs; cbn; exact Hcfg|];
  split; [cbn; try reflexivity|cbn; try rewrite Eh; discriminate].
Ltac ko st := split; [discriminate|intros _; exact st].

Lemma init_step k c w f e w' f' : StA k c w -> initialize k f w = (e, w', f') ->
  (e = false -> StB k c w') /\ (e = true -> StA k c w').
Proof.
  intros [Hc [Hs Hcfg]] H. unfold initialize in H. rewrite Hc in H.
  assert (HA : forall h r, StA k c (with_rs (with_hpa w h) r)) by (intros; repeat split; assumption).
  assert (HA1 : forall h, StA k c (with_hpa w h)) by (intros; repeat split; assumption).
  assert (HA2 : forall r, StA k c (with_rs w r)) by (intros; repeat split; assumption).
  assert (HA0 : StA k c w) by (repeat split; assumption).
  destruct (w_hpa w) as [[|]|] eqn:Eh.
  - destruct k; [destruct (w_rs_min_ready w) as [r|] eqn:Er|].
    + pc f. { injection H as <- <- <-. ko HA0. }
      pc f0. { injection H as <- <- <-. ko (HA2 (Some max_ready)). }
      injection H as <- <- <-. ok_B Hs Hcfg Eh.
    + pc f. { injection H as <- <- <-. ko HA0. }
      injection H as <- <- <-. ok_B Hs Hcfg Eh.
    + pc f. { injection H as <- <- <-. ko HA0. }
      injection H as <- <- <-. ok_B Hs Hcfg Eh.
  - pc f. { injection H as <- <- <-. ko HA0. }
    destruct k; [destruct (w_rs_min_ready w) as [r|] eqn:Er; cbn [with_hpa w_rs_min_ready] in H; rewrite ?Er in H|].
    + pc f0. { injection H as <- <- <-. ko (HA1 (Some true)). }
      pc f1. { injection H as <- <- <-. ko (HA (Some true) (Some max_ready)). }
      injection H as <- <- <-. ok_B Hs Hcfg Eh.
    + pc f0. { injection H as <- <- <-. ko (HA1 (Some true)). }
      injection H as <- <- <-. ok_B Hs Hcfg Eh.
    + cbn [with_hpa] in H. pc f0. { injection H as <- <- <-. ko (HA1 (Some true)). }
      injection H as <- <- <-. ok_B Hs Hcfg Eh.
  - destruct k; [destruct (w_rs_min_ready w) as [r|] eqn:Er|].
    + pc f. { injection H as <- <- <-. ko HA0. }
      pc f0. { injection H as <- <- <-. ko (HA2 (Some max_ready)). }
      injection H as <- <- <-. ok_B Hs Hcfg Eh.
    + pc f. { injection H as <- <- <-. ko HA0. }
      injection H as <- <- <-. ok_B Hs Hcfg Eh.
    + pc f. { injection H as <- <- <-. ko HA0. }
      injection H as <- <- <-. ok_B Hs Hcfg Eh.
Qed.

Lemma upgrade_step k c n s w f e w' f' : StB k c w -> upgrade k n s f w = (e, w', f') -> StB k c w'.
Proof.
  intros HB H. unfold upgrade in H.
  destruct (n =? 0); [injection H as _ <- _; exact HB|].
  destruct (negb (validate k w)); [injection H as _ <- _; exact HB|].
  destruct (scaled true s n <=? _); [injection H as _ <- _; exact HB|].
  pc f. { injection H as _ <- _; exact HB. }
  injection H as _ <- _. destruct HB as [Hc [Hsv [Hv Hh]]].
  split; [exact Hc|]. split; [exact Hsv|]. split; [|exact Hh].
  unfold validate in *. cbn. rewrite Hc in *. cbn [andb] in *. destruct k; [|exact Hv].
  apply andb_true_iff in Hv. destruct Hv as [Hv1 Hv3]. apply andb_true_iff in Hv1. destruct Hv1 as [_ Hv2].
  rewrite Hv2, Hv3. reflexivity.
Qed.

Lemma finalize_from_B k c w f e w' f' : StB k c w -> finalize k false f w = (e, w', f') ->
  (e = true -> StB k c w' \/ StC k c w') /\ (e = false -> StC k c w' /\ w_hpa w' <> Some true).
Proof.
  intros HB H. pose proof HB as [Hc [[sv [Hs Hcfg]] [Hv Hh]]]. unfold finalize in H. rewrite Hs in H.
  pc f. { injection H as <- <- _. split; [intros _; left; exact HB|discriminate]. }
  set (w1 := {| w_min_ready := sv_min_ready sv |}) in H.
  assert (HC : forall h, StC k c (with_hpa w1 h)).
  { intros h. split; [repeat split; try reflexivity; subst w1; cbn; destruct k; exact Hcfg|]. intros ->. subst w1. cbn. auto. }
  assert (HC1 : StC k c w1) by (split; [repeat split; try reflexivity; subst w1; cbn; destruct k; exact Hcfg|intros ->; subst w1; cbn; auto]).
  assert (Hh1 : w_hpa w1 = w_hpa w) by reflexivity.
  destruct (w_hpa w1) as [[|]|] eqn:Eh.
  - pc f0. { injection H as <- <- _. split; [intros _; right; exact HC1|discriminate]. }
    injection H as <- <- _. split; [discriminate|intros _]. split; [apply HC|cbn; discriminate].
  - exfalso. apply Hh. rewrite <- Hh1. reflexivity.
  - injection H as <- <- _. split; [discriminate|intros _]. split; [exact HC1|rewrite Eh; discriminate].
Qed.

Lemma finalize_from_C k c w f e w' f' : StC k c w -> finalize k false f w = (e, w', f') ->
  StC k c w' /\ (e = false -> w_hpa w' <> Some true).
Proof.
  intros HC H. pose proof HC as [[Hc [Hs Hcfg]] Hd]. unfold finalize in H. rewrite Hs in H.
  assert (HC' : forall h, StC k c (with_hpa w h)) by (intros h; split; [repeat split; assumption|exact Hd]).
  destruct (w_hpa w) as [[|]|] eqn:Eh.
  - pc f. { injection H as <- <- _. split; [exact HC|discriminate]. }
    injection H as <- <- _. split; [apply HC'|intros _; cbn; discriminate].
  - injection H as <- <- _. split; [exact HC|intros _; rewrite Eh; discriminate].
  - injection H as <- <- _. split; [exact HC|intros _; rewrite Eh; discriminate].
Qed.

Definition last_ok (l : list bool) : Prop := match rev l with false :: _ => True | _ => False end.

Lemma try_init k c n w f es w' f' : StA k c w -> try_phase k n false PInit f w = (es, w', f') -> last_ok es -> StB k c w'.
Proof.
  intros HA H Hl. unfold try_phase, run_phase in H.
  destruct (initialize k f w) as [[e1 w1] f1] eqn:E1. destruct (init_step _ _ _ _ _ _ _ HA E1) as [Ho1 Hk1].
  destruct e1; cbn [negb] in H; [|injection H as <- <- _; apply Ho1; reflexivity].
  specialize (Hk1 eq_refl).
  destruct (initialize k f1 w1) as [[e2 w2] f2] eqn:E2. destruct (init_step _ _ _ _ _ _ _ Hk1 E2) as [Ho2 Hk2].
  destruct e2; cbn [negb] in H; [|injection H as <- <- _; apply Ho2; reflexivity].
  specialize (Hk2 eq_refl).
  destruct (initialize k f2 w2) as [[e3 w3] f3] eqn:E3. destruct (init_step _ _ _ _ _ _ _ Hk2 E3) as [Ho3 Hk3].
  injection H as <- <- _. destruct e3; [cbn in Hl; contradiction|apply Ho3; reflexivity].
Qed.

Lemma try_upgrade k c n s w f es w' f' : StB k c w -> try_phase k n false (PUpgrade s) f w = (es, w', f') -> StB k c w'.
Proof.
  intros HB H. unfold try_phase, run_phase in H.
  destruct (upgrade k n s f w) as [[e1 w1] f1] eqn:E1. pose proof (upgrade_step _ _ _ _ _ _ _ _ _ HB E1) as H1.
  destruct e1; cbn [negb] in H; [|injection H as _ <- _; exact H1].
  destruct (upgrade k n s f1 w1) as [[e2 w2] f2] eqn:E2. pose proof (upgrade_step _ _ _ _ _ _ _ _ _ H1 E2) as H2.
  destruct e2; cbn [negb] in H; [|injection H as _ <- _; exact H2].
  destruct (upgrade k n s f2 w2) as [[e3 w3] f3] eqn:E3. pose proof (upgrade_step _ _ _ _ _ _ _ _ _ H2 E3) as H3.
  injection H as _ <- _. exact H3.
Qed.

(* one finalize attempt from "B or C" *)
Lemma finalize_step k c w f e w' f' : StB k c w \/ StC k c w -> finalize k false f w = (e, w', f') ->
  (StB k c w' \/ StC k c w') /\ (e = false -> StC k c w' /\ w_hpa w' <> Some true).
Proof.
  intros [HB|HC] H.
  - destruct (finalize_from_B _ _ _ _ _ _ _ HB H) as [Ht Hf]. split; [destruct e; [apply Ht; reflexivity|right; apply Hf; reflexivity]|exact Hf].
  - destruct (finalize_from_C _ _ _ _ _ _ _ HC H) as [Hc Hf]. split; [right; exact Hc|intros He; split; [exact Hc|apply Hf; exact He]].
Qed.

Lemma try_final k c n w f es w' f' : StB k c w \/ StC k c w -> try_phase k n false PFinal f w = (es, w', f') -> last_ok es ->
  StC k c w' /\ w_hpa w' <> Some true.
Proof.
  intros H0 H Hl. unfold try_phase, run_phase in H.
  destruct (finalize k false f w) as [[e1 w1] f1] eqn:E1. destruct (finalize_step _ _ _ _ _ _ _ H0 E1) as [H1 Ho1].
  destruct e1; cbn [negb] in H; [|injection H as _ <- _; apply Ho1; reflexivity].
  destruct (finalize k false f1 w1) as [[e2 w2] f2] eqn:E2. destruct (finalize_step _ _ _ _ _ _ _ H1 E2) as [H2 Ho2].
  destruct e2; cbn [negb] in H; [|injection H as _ <- _; apply Ho2; reflexivity].
  destruct (finalize k false f2 w2) as [[e3 w3] f3] eqn:E3. destruct (finalize_step _ _ _ _ _ _ _ H2 E3) as [H3 Ho3].
  injection H as <- <- _. destruct e3; [cbn in Hl; contradiction|apply Ho3; reflexivity].
Qed.


Lemma last_ok_b l : (match rev l with false :: _ => true | _ => false end) = true -> last_ok l.
Proof. unfold last_ok. destruct (rev l) as [|[|] t]; try discriminate; intros _; exact I. Qed.

Lemma upgrades_keep k c n : forall steps rest f w errs w',
  StB k c w -> scenario k n false (map PUpgrade steps ++ rest) f w = (errs, w') ->
  exists f1 w1 e1 e2, StB k c w1 /\ scenario k n false rest f1 w1 = (e2, w') /\ errs = e1 ++ e2.
Proof.
  induction steps as [|s steps IH]; intros rest f w errs w' HB H.
  - exists f, w, [], errs. auto.
  - cbn [map app scenario] in H. destruct (try_phase k n false (PUpgrade s) f w) as [[es w1] f1] eqn:E.
    destruct (scenario k n false (map PUpgrade steps ++ rest) f1 w1) as [ess w2] eqn:E2. injection H as <- <-.
    pose proof (try_upgrade _ _ _ _ _ _ _ _ _ HB E) as HB1.
    destruct (IH _ _ _ _ _ HB1 E2) as [f2 [w3 [e1 [e2 [H3 [H4 H5]]]]]].
    exists f2, w3, (es :: e1), e2. subst ess. auto.
Qed.

(* C05 / C06: a blue-green release -- Initialize, any number of UpgradeBatch calls, Finalize -- in which the n-th Patch call
   fails (any n, or none) and each phase is retried until it succeeds hands the workload back as the user configured it:
   minReadySeconds, progressDeadlineSeconds, maxSurge, maxUnavailable (absent fields read as their defaults), un-paused,
   the control and original-strategy annotations and the stable-revision label removed, the HPA pointing at it again *)
Theorem handed_back_as_configured k n steps f w0 errs w :
  fresh w0 = true -> scenario k n false (PInit :: map PUpgrade steps ++ [PFinal]) f w0 = (errs, w) ->
  all_phases_done errs = true -> handed_back k w0 w = true.
Proof.
  intros Hf H Hall. unfold fresh in Hf. apply andb_true_iff in Hf. destruct Hf as [Hf Hh0]. apply andb_true_iff in Hf. destruct Hf as [Hc0 Hs0].
  assert (HA : StA k (cfg k w0) w0).
  { split; [destruct (w_claimed w0); [discriminate|reflexivity]|]. split; [destruct (w_saved w0); [discriminate|reflexivity]|reflexivity]. }
  cbn [scenario] in H. destruct (try_phase k n false PInit f w0) as [[es w1] f1] eqn:E1.
  destruct (scenario k n false (map PUpgrade steps ++ [PFinal]) f1 w1) as [ess w2] eqn:E2. injection H as <- <-.
  unfold all_phases_done in Hall. cbn [forallb] in Hall. apply andb_true_iff in Hall. destruct Hall as [Hl1 Hall].
  pose proof (try_init _ _ _ _ _ _ _ _ HA E1 (last_ok_b _ Hl1)) as HB.
  destruct (upgrades_keep k (cfg k w0) n steps [PFinal] f1 w1 ess w2 HB E2) as [f2 [w3 [e1 [e2 [HB3 [H4 H5]]]]]].
  cbn [scenario] in H4. destruct (try_phase k n false PFinal f2 w3) as [[es3 w4] f4] eqn:E4. injection H4 as <- <-.
  subst ess. rewrite forallb_app in Hall. apply andb_true_iff in Hall. destruct Hall as [_ Hl3]. cbn [forallb] in Hl3. rewrite andb_true_r in Hl3.
  destruct (try_final _ _ _ _ _ _ _ _ (or_introl HB3) E4 (last_ok_b _ Hl3)) as [[[Hc [Hs Hcfg]] Hd] Hh].
  unfold handed_back, eff_eqb, eff. cbn. unfold cfg in Hcfg. injection Hcfg as Hm Hdl Hsu Hun.
  rewrite Hc, Hs. cbn.
  assert (E_hpa : Bool.eqb (match w_hpa w4 with Some true => false | _ => true end) (match w_hpa w0 with Some true => false | _ => true end) = true).
  { destruct (w_hpa w4) as [[|]|]; try (exfalso; apply Hh; reflexivity); destruct (w_hpa w0) as [[|]|]; try discriminate; reflexivity. }
  rewrite E_hpa, Hm, Z.eqb_refl, Hsu, Hun. 
  assert (Ei : forall x, ios_eqb x x = true) by (intros [z|z|]; cbn; try apply Z.eqb_refl; reflexivity).
  rewrite !Ei. cbn.
  destruct k.
  - rewrite Hdl, Z.eqb_refl. destruct (Hd eq_refl) as [-> ->]. reflexivity.
  - rewrite Z.eqb_refl. reflexivity.
Qed.

(* the hypotheses are met, e.g. by a Deployment with an HPA and a stable ReplicaSet whose third Patch call fails *)
Example handed_back_nonvacuous :
  let w0 := {| w_min_ready := 5; w_deadline := None; w_surge := Some (IPct 50); w_unavail := None; w_paused := true; w_partition := None;
               w_saved := None; w_claimed := false; w_label := true; w_hpa := Some false; w_rs_min_ready := Some 5 |} in
  fresh w0 = true /\
  all_phases_done (fst (scenario BGDeploy 10 false (PInit :: map PUpgrade [IPct 50; IPct 100] ++ [PFinal]) (Some 3%nat) w0)) = true /\
  fst (scenario BGDeploy 10 false (PInit :: map PUpgrade [IPct 50; IPct 100] ++ [PFinal]) (Some 3%nat) w0) = [[true; false]; [false]; [false]; [false]].
Proof. vm_compute. auto. Qed.

(* C06: the marker is written last.  From a workload nobody controls, whatever Patch fails and however often Initialize is
   attempted: if the workload carries the release marker afterwards, its HPA (if any) has been detached *)
Theorem marker_means_hpa_detached k n f w0 errs w :
  fresh w0 = true -> scenario k n false [PInit] f w0 = (errs, w) -> w_claimed w = true -> w_hpa w <> Some false.
Proof.
  intros Hf H Hc. unfold fresh in Hf. apply andb_true_iff in Hf. destruct Hf as [Hf _]. apply andb_true_iff in Hf. destruct Hf as [Hc0 Hs0].
  assert (HA : StA k (cfg k w0) w0).
  { split; [destruct (w_claimed w0); [discriminate|reflexivity]|]. split; [destruct (w_saved w0); [discriminate|reflexivity]|reflexivity]. }
  cbn [scenario] in H. destruct (try_phase k n false PInit f w0) as [[es w1] f1] eqn:E1. injection H as _ <-.
  unfold try_phase, run_phase in E1.
  destruct (initialize k f w0) as [[e1 x1] g1] eqn:I1. destruct (init_step _ _ _ _ _ _ _ HA I1) as [Ho1 Hk1].
  destruct e1; cbn [negb] in E1; [|injection E1 as _ <- _; destruct (Ho1 eq_refl) as [_ [_ [_ Hh]]]; exact Hh].
  specialize (Hk1 eq_refl).
  destruct (initialize k g1 x1) as [[e2 x2] g2] eqn:I2. destruct (init_step _ _ _ _ _ _ _ Hk1 I2) as [Ho2 Hk2].
  destruct e2; cbn [negb] in E1; [|injection E1 as _ <- _; destruct (Ho2 eq_refl) as [_ [_ [_ Hh]]]; exact Hh].
  specialize (Hk2 eq_refl).
  destruct (initialize k g2 x2) as [[e3 x3] g3] eqn:I3. destruct (init_step _ _ _ _ _ _ _ Hk2 I3) as [Ho3 Hk3].
  injection E1 as _ <- _. destruct e3.
  - destruct (Hk3 eq_refl) as [Hcl _]. congruence.
  - destruct (Ho3 eq_refl) as [_ [_ [_ Hh]]]. exact Hh.
Qed.
