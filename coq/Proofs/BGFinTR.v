(* Proofs about Model/BGFinTR.v: the exit sequences of a blue-green Rollout with traffic routing (C10, C04). *)
From RV Require Import Base.Util Base.IntStr Model.RolloutSM Model.TrafficMgr Model.RolloutTR Model.RolloutBG Model.BGFinTR
  Corr.RolloutSM Corr.TrafficMgr Corr.RolloutTR Corr.BGFinTR Proofs.RolloutTR.

(* finalise_bg touches the BatchRelease only in its two workload tasks *)
Lemma finalise_bg_br_change sp u w br r wr d u' br' : finalise_bg sp u w br r wr = (d, u', br') -> br' <> br ->
  su_fin u = FtResume \/ su_fin u = FtRelease.
Proof.
  intros H Hne. unfold finalise_bg in H.
  destruct (su_fin u) eqn:E; auto; exfalso; apply Hne; destruct r; cbn in H; rewrite ?E in H; cbn in H;
  repeat match type of H with
         | context [match ?c with Some _ => _ | None => _ end] => destruct c
         | context [if ?c then _ else _] => destruct c end;
  injection H as _ _ <-; reflexivity.
Qed.

Lemma bg_rollback_passes_route_first :
  passed_bg FrRollback FtRouteStable FtResume = true /\ passed_bg FrRollback FtRouteStable FtRelease = true.
Proof. split; reflexivity. Qed.

(* C10 (blue-green rollback with traffic routing): the reconcile of the cancellation sequence that patches or deletes the
   BatchRelease (the new pods go, the workload is handed back) finds the canary route already gone and writes nothing to the
   network itself.  finv_bg is the invariant every reconcile of the sequence keeps (next theorem) *)
Theorem bg_rollback_touches_workload_after_traffic_back t u w br wr n g done o :
  finalise_bgtr t u w br FrRollback wr n g = (done, o) -> finv_bg FrRollback u n = true -> co_br o <> br ->
  route_gone n = true /\ co_writes o = [].
Proof.
  intros H Hinv Hbr. unfold finalise_bgtr in H.
  destruct (ftask_eqb (su_fin u) FtEnd); [injection H as _ <-; cbn in Hbr; congruence|].
  set (u1 := match su_fin u with FtNone => _ | _ => u end) in H.
  assert (Htr : forall x, (if tr_err x then (false, {| co_sub := u1; co_br := br; co_requeue := false; co_writes := tr_writes x; co_graces := tr_graces x; co_err := true |})
       else if negb (tr_ok x) then (false, {| co_sub := u1; co_br := br; co_requeue := false; co_writes := tr_writes x; co_graces := tr_graces x; co_err := false |})
       else (ftask_eqb (bg_next_task FrRollback (su_fin u)) FtEnd,
             {| co_sub := upd_sub u1 (su_idx u1) (su_next u1) (su_state u1) (bg_next_task FrRollback (su_fin u)) false; co_br := br; co_requeue := false;
                co_writes := tr_writes x; co_graces := tr_graces x; co_err := false |})) = (done, o) -> False).
  { intros x E. destruct (tr_err x); [|destruct (negb (tr_ok x))]; injection E as _ <-; apply Hbr; reflexivity. }
  destruct (su_fin u1) eqn:E1; try (exfalso; eapply Htr; exact H).
  all: destruct (finalise_bg (ts_sp t) u w br FrRollback wr) as [[d' u'] br'] eqn:Hf; injection H as _ <-; cbn [co_br co_writes] in *;
       destruct (finalise_bg_br_change _ _ _ _ _ _ _ _ _ Hf Hbr) as [Hx|Hx].
  all: split; [|reflexivity].
  all: unfold finv_bg in Hinv; rewrite Hx in Hinv; cbn in Hinv;
       repeat (apply andb_true_iff in Hinv; destruct Hinv as [Hinv ?]); destruct (route_gone n); [reflexivity|discriminate].
Qed.

(* ... and the cursor of ANY exit sequence leaves RouteTrafficToStable only on a network whose canary route is gone -- whatever
   step the release had reached, routed or not *)
Theorem bg_cursor_passes_route_to_stable_only_when_gone t u w br r wr n g done o :
  finalise_bgtr t u w br r wr n g = (done, o) -> ts_refs t = true -> su_fin u = FtRouteStable -> su_fin (co_sub o) <> FtRouteStable ->
  n_route (apply_writes n (co_writes o)) = RNone.
Proof.
  intros H Hr Hu Hmoved. unfold finalise_bgtr in H. rewrite Hu in H. cbn [ftask_eqb] in H. cbn iota in H. rewrite Hu in H. cbn iota in H.
  match type of H with context [restore_gateway ?c n g] => remember (restore_gateway c n g) as x eqn:Hx; assert (Hc : tc_refs c = true) by exact Hr end.
  destruct (tr_err x); [injection H as _ <-; cbn in Hmoved; congruence|].
  destruct (tr_ok x) eqn:Hok; cbn [negb] in H; [|injection H as _ <-; cbn in Hmoved; congruence].
  injection H as _ <-. cbn [co_writes]. subst x. apply restore_gateway_ok_effect; [exact Hc|exact Hok].
Qed.
