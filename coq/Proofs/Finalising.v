(* The finalising phase as a whole (C04 / C05 / C06): any number of reconciles of doCanaryFinalising, each finding an
   arbitrary workload observation, BatchRelease and in-memory grace state (so: any amount of time passing, any restart of
   the controller between or during reconciles, any progress of the BatchRelease controller), with failed reconciles whose
   status is not persisted.  The task orders are the ones the translator re-derives from the source (gen/TaskTables.v). *)
From RV Require Import Base.Util Base.IntStr Model.RolloutSM Model.TrafficMgr Model.RolloutTR Corr.RolloutSM Corr.RolloutTR
  Proofs.RolloutSM Proofs.RolloutTR gen.TaskTables.

(* ---- the hand-written order of the reconcile model is the generated one ---- *)
Definition to_ftask (x : task) : ftask :=
  match x with
  | TRouteStable => FtRouteStable | TRestoreStable => FtRestoreStable | TRemoveCanarySvc => FtRemoveCanarySvc
  | TResume => FtResume | TRelease => FtRelease | TEnd => FtEnd | TRouteNew | TWaitEndless => FtOther
  end.
Definition to_reason (r : freason) : reason :=
  match r with FrSuccess => RSuccess | FrRollback => RRollback | FrDelete => RDelete | FrDisabled => RDisabled end.
Lemma tables_agree r : canary_tasks r = map to_ftask (canary_order (to_reason r)).
Proof. destruct r; reflexivity. Qed.

(* ---- order facts, by computation over the generated tables ---- *)
Fixpoint index_of (x : task) (l : list task) (i : nat) : option nat :=
  match l with [] => None | a :: t => if match a, x with
      | TRouteNew, TRouteNew | TRouteStable, TRouteStable | TRestoreStable, TRestoreStable | TRemoveCanarySvc, TRemoveCanarySvc
      | TResume, TResume | TRelease, TRelease | TWaitEndless, TWaitEndless | TEnd, TEnd => true | _, _ => false end
    then Some i else index_of x t (S i) end.
Definition before (a b : task) (l : list task) : bool :=
  match index_of a l O, index_of b l O with Some i, Some j => Nat.ltb i j | _, _ => false end.
Definition all_reasons : list reason := [RSuccess; RRollback; RContinuous; RDisabled; RDelete].

(* routes are withdrawn before the Service they point to is removed, in every order of both strategies *)
Lemma route_withdrawn_before_service_removed :
  forallb (fun r => before TRouteStable TRemoveCanarySvc (canary_order r) && before TRouteStable TRemoveCanarySvc (bluegreen_order r)) all_reasons = true.
Proof. vm_compute. reflexivity. Qed.
(* pods are replaced (ResumeWorkload) only after the stable Service was un-pinned -- or, on rollback, where the NEW pods go
   away, only after the route to them was withdrawn *)
Lemma unpinned_before_pods_replaced :
  forallb (fun r => match r with
                    | RRollback => before TRouteStable TResume (canary_order r) && before TRouteStable TResume (bluegreen_order r)
                    | _ => before TRestoreStable TResume (canary_order r) && before TRestoreStable TResume (bluegreen_order r)
                    end) all_reasons = true.
Proof. vm_compute. reflexivity. Qed.
(* the BatchRelease (workload control) is given up only after the workload was resumed *)
Lemma resumed_before_released :
  forallb (fun r => before TResume TRelease (canary_order r) && before TResume TRelease (bluegreen_order r)) all_reasons = true.
Proof. vm_compute. reflexivity. Qed.
(* every order performs every cleanup task exactly once *)
Definition complete (l : list task) : bool :=
  forallb (fun x => Nat.eqb (List.length (filter (fun a => match index_of x [a] O with Some _ => true | None => false end) l)) 1)
          [TRouteStable; TRestoreStable; TRemoveCanarySvc; TResume; TRelease].
Lemma every_order_is_complete : forallb (fun r => complete (canary_order r) && complete (bluegreen_order r)) all_reasons = true.
Proof. vm_compute. reflexivity. Qed.

(* ---- the cursor: pos, passed, current are defined in Corr/RolloutTR.v (the same functions judge the real reconciles) ---- *)

Definition all_freasons : list freason := [FrSuccess; FrRollback; FrDelete; FrDisabled].
Definition all_ftasks : list ftask := [FtNone; FtRestoreStable; FtRouteStable; FtRemoveCanarySvc; FtResume; FtRelease; FtEnd; FtOther].
Lemma all_freasons_complete r : In r all_freasons. Proof. destruct r; cbn; auto 10. Qed.
Lemma all_ftasks_complete f : In f all_ftasks. Proof. destruct f; cbn; auto 10. Qed.

Definition traffic_tasks : list ftask := [FtRestoreStable; FtRouteStable; FtRemoveCanarySvc].
Definition cursors : list ftask := [FtNone; FtRestoreStable; FtRouteStable; FtRemoveCanarySvc; FtResume; FtRelease].

(* moving one position along the order passes exactly the task the cursor stood on *)
Lemma newly_passed_is_current_b :
  forallb (fun r => forallb (fun T => forallb (fun f =>
     implb (passed r T (next_task r f) && negb (passed r T f)) (ftask_eqb (current r f) T)) cursors) traffic_tasks) all_freasons = true.
Proof. vm_compute. reflexivity. Qed.
(* standing on the first task means nothing has been passed *)
Lemma first_passes_nothing_b : forallb (fun r => forallb (fun T => negb (passed r T (next_task r FtNone))) traffic_tasks) all_freasons = true.
Proof. vm_compute. reflexivity. Qed.
(* the gateway task lies behind the cursor whenever the cursor stands on RemoveCanaryService *)
Lemma route_passed_at_remove_b : forallb (fun r => passed r FtRouteStable FtRemoveCanarySvc) all_freasons = true.
Proof. vm_compute. reflexivity. Qed.
(* nothing counts as passed before the sequence starts *)
Lemma nothing_passed_at_none_b : forallb (fun r => forallb (fun T => negb (passed r T FtNone)) traffic_tasks) all_freasons = true.
Proof. vm_compute. reflexivity. Qed.

(* ---- one reconcile of doCanaryFinalising: where the cursor goes and what is written ---- *)
Lemma finalise_cursor sp u w br r wr d u' br' : finalise sp u w br r wr = (d, u', br') -> su_fin u <> FtEnd ->
  su_fin u' = current r (su_fin u) \/ (su_fin u' = next_task r (su_fin u) /\ su_fin u <> FtOther) \/ su_fin u' = next_task r FtNone.
Proof.
  unfold finalise, current. intros H Hne.
  destruct (su_fin u) eqn:Hf; try congruence; cbn [ftask_eqb] in H; cbn iota in H; rewrite ?Hf in H; cbn [su_fin upd_sub] in H;
  repeat match type of H with
  | context [match ?x with _ => _ end] => destruct x eqn:?; cbn [su_fin upd_sub] in H
  | context [if ?c then _ else _] => destruct c eqn:?; cbn [su_fin upd_sub] in H
  end; inversion H; subst; cbn [su_fin upd_sub];
  first [ solve [left; reflexivity] | solve [left; assumption] | solve [right; right; reflexivity]
        | solve [right; left; split; [reflexivity|discriminate]] ].
Qed.

Inductive fin_writes (cur : ftask) : list write -> Prop :=
| FwNone : fin_writes cur []
| FwUnpin : cur = FtRestoreStable -> fin_writes cur [WUnpinStable]
| FwRoute : cur = FtRouteStable -> fin_writes cur [WDeleteRoute]
| FwSvc : cur = FtRemoveCanarySvc -> fin_writes cur [WDeleteCanarySvc].

Lemma restore_stable_writes c n g : tr_writes (restore_stable_service c n g) = [] \/ tr_writes (restore_stable_service c n g) = [WUnpinStable].
Proof. unfold restore_stable_service. destruct (negb (tc_refs c)); [auto|]. destruct (negb (n_stable_exists n)); [auto|].
  destruct (with_grace _ _ _ _ _). cbn. destruct (tc_key c && _); auto. Qed.
Lemma restore_gateway_writes c n g : tr_writes (restore_gateway c n g) = [] \/ tr_writes (restore_gateway c n g) = [WDeleteRoute].
Proof. unfold restore_gateway, finalise_routes. destruct (negb (tc_refs c)); [auto|]. destruct (tc_gateway_fails c); [auto|].
  destruct (n_route n); destruct (with_grace _ _ _ _ _); cbn; auto. Qed.
Lemma remove_canary_writes c n g : tr_writes (remove_canary_service c n g) = [] \/ tr_writes (remove_canary_service c n g) = [WDeleteCanarySvc].
Proof. unfold remove_canary_service. destruct (negb (tc_refs c)); [auto|]. destruct (tc_only_traffic c); [auto|]. destruct (with_grace _ _ _ _ _). cbn. destruct (n_canary_svc n); auto. Qed.

(* result of a reconcile in the finalising phase *)
Lemma finalise_tr_step t u w br r wr n g done o :
  finalise_tr t u w br r wr n g = (done, o) -> su_fin u <> FtEnd -> ts_refs t = true -> wl_exists w = true ->
  let cur := current r (su_fin u) in
  fin_writes cur (co_writes o) /\
  (su_fin (co_sub o) = cur \/ su_fin (co_sub o) = next_task r FtNone \/
   (su_fin (co_sub o) = next_task r (su_fin u) /\ su_fin u <> FtOther /\ (co_err o = false -> task_effect cur (apply_writes n (co_writes o))))).
Proof.
  intros H Hne Hr Hw cur. unfold finalise_tr in H.
  assert (Eend : ftask_eqb (su_fin u) FtEnd = false) by (destruct (su_fin u); cbn; congruence). rewrite Eend in H.
  set (u1 := match su_fin u with FtNone => upd_sub u (su_idx u) (su_next u) (su_state u) (next_task r (su_fin u)) false | _ => u end) in H.
  assert (Hc : su_fin u1 = cur) by (subst u1 cur; unfold current; destruct (su_fin u) eqn:E; cbn; rewrite ?E; reflexivity).
  assert (Htraffic : forall x, su_fin u <> FtOther -> tr_writes x = [] \/ (exists wr1, tr_writes x = [wr1] /\ fin_writes cur [wr1]) ->
      (tr_err x = false -> tr_ok x = true -> task_effect cur (apply_writes n (tr_writes x))) ->
      (if tr_err x then (false, {| co_sub := u1; co_br := br; co_requeue := false; co_writes := tr_writes x; co_graces := tr_graces x; co_err := true |})
       else if negb (tr_ok x) then (false, {| co_sub := u1; co_br := br; co_requeue := false; co_writes := tr_writes x; co_graces := tr_graces x; co_err := false |})
       else (ftask_eqb (next_task r (su_fin u)) FtEnd,
             {| co_sub := upd_sub u1 (su_idx u1) (su_next u1) (su_state u1) (next_task r (su_fin u)) false; co_br := br; co_requeue := false;
                co_writes := tr_writes x; co_graces := tr_graces x; co_err := false |})) = (done, o) ->
      fin_writes cur (co_writes o) /\
      (su_fin (co_sub o) = cur \/ su_fin (co_sub o) = next_task r FtNone \/
       (su_fin (co_sub o) = next_task r (su_fin u) /\ su_fin u <> FtOther /\ (co_err o = false -> task_effect cur (apply_writes n (co_writes o)))))).
  { intros x Hno Hws Heff E.
    assert (Hfw : fin_writes cur (tr_writes x)) by (destruct Hws as [->|(w1 & -> & Hf)]; [constructor|exact Hf]).
    destruct (tr_err x) eqn:Ex; [injection E as <- <-; cbn [co_writes co_sub]; split; [exact Hfw|left; exact Hc]|].
    destruct (tr_ok x) eqn:Eok; cbn [negb] in E; injection E as <- <-; cbn [co_writes co_sub co_err su_fin upd_sub]; (split; [exact Hfw|]).
    - right. right. split; [reflexivity|]. split; [exact Hno|]. intros _. apply Heff; reflexivity.
    - left. exact Hc. }
  destruct (su_fin u1) eqn:E1.
  all: assert (Hno : su_fin u1 <> FtOther -> su_fin u <> FtOther) by (subst u1; destruct (su_fin u) eqn:E; cbn; rewrite ?E; congruence).
  2:{ (* RestoreStable *) apply (Htraffic (restore_stable_service (mk_ctx_w t u1 w) n g)); [apply Hno; congruence| | |exact H].
      - destruct (restore_stable_writes (mk_ctx_w t u1 w) n g) as [-> | ->]; [auto|right; eexists; split; [reflexivity|constructor; congruence]].
      - intros _ Hok. rewrite <- Hc. cbn [task_effect]. intros Hex. rewrite apply_writes_exists in Hex.
        apply restore_stable_ok_effect; auto. }
  2:{ (* RouteStable *) apply (Htraffic (restore_gateway (mk_ctx t u1) n g)); [apply Hno; congruence| | |exact H].
      - destruct (restore_gateway_writes (mk_ctx t u1) n g) as [-> | ->]; [auto|right; eexists; split; [reflexivity|constructor; congruence]].
      - intros _ Hok. rewrite <- Hc. cbn [task_effect]. apply restore_gateway_ok_effect; auto. }
  2:{ (* RemoveCanarySvc *) apply (Htraffic (remove_canary_service (mk_ctx t u1) n g)); [apply Hno; congruence| | |exact H].
      - destruct (remove_canary_writes (mk_ctx t u1) n g) as [-> | ->]; [auto|right; eexists; split; [reflexivity|constructor; congruence]].
      - intros _ Hok. rewrite <- Hc. cbn [task_effect]. apply remove_canary_ok_effect; auto. }
  all: destruct (finalise (ts_sp t) u w br r wr) as [[d' u'] br'] eqn:Hf; injection H as <- <-; cbn [co_writes co_sub co_err];
       (split; [constructor|]);
       destruct (finalise_cursor _ _ _ _ _ _ _ _ _ Hf Hne) as [H1|[[H1 H2]|H1]]; fold cur in H1; auto;
       right; right; (split; [exact H1|]); (split; [exact H2|]); intros _; rewrite <- Hc; exact I.
Qed.

(* ---- the invariant of the finalising phase ---- *)
Record finv (r : freason) (u : sub) (n : net) : Prop := {
  fi_route : n_route n <> RNone -> n_canary_svc n <> None;                       (* no route into the void *)
  fi_gateway : passed r FtRouteStable (su_fin u) = true -> n_route n = RNone;
  fi_service : passed r FtRemoveCanarySvc (su_fin u) = true -> n_canary_svc n = None;
  fi_stable : passed r FtRestoreStable (su_fin u) = true -> n_stable_exists n = true -> unpinned n
}.

Lemma forallb_in {A} (f : A -> bool) l x : forallb f l = true -> In x l -> f x = true.
Proof. intros H. rewrite forallb_forall in H. auto. Qed.

Lemma newly_passed r T f : In T traffic_tasks -> In f cursors ->
  passed r T (next_task r f) = true -> passed r T f = false -> current r f = T.
Proof.
  intros HT Hf H1 H2. pose proof newly_passed_is_current_b as H.
  apply (forallb_in _ _ r) in H; [|apply all_freasons_complete]. cbv beta in H. apply (forallb_in _ _ T) in H; [|exact HT]. cbv beta in H.
  apply (forallb_in _ _ f) in H; [|exact Hf]. cbv beta in H.
  rewrite H1, H2 in H. cbn in H. destruct (current r f), T; cbn in H; congruence.
Qed.
Lemma first_passes_nothing r T : In T traffic_tasks -> passed r T (next_task r FtNone) = false.
Proof. intros HT. pose proof first_passes_nothing_b as H. apply (forallb_in _ _ r) in H; [|apply all_freasons_complete]. cbv beta in H.
  apply (forallb_in _ _ T) in H; [|exact HT]. cbv beta in H. apply Bool.negb_true_iff in H. exact H. Qed.
Lemma nothing_passed_at_none r T : In T traffic_tasks -> passed r T FtNone = false.
Proof. intros HT. pose proof nothing_passed_at_none_b as H. apply (forallb_in _ _ r) in H; [|apply all_freasons_complete]. cbv beta in H.
  apply (forallb_in _ _ T) in H; [|exact HT]. cbv beta in H. apply Bool.negb_true_iff in H. exact H. Qed.
Lemma route_passed_at_remove r : passed r FtRouteStable FtRemoveCanarySvc = true.
Proof. pose proof route_passed_at_remove_b as H. apply (forallb_in _ _ r) in H; [exact H|apply all_freasons_complete]. Qed.
Lemma passed_other r T : In T traffic_tasks -> passed r T FtOther = false.
Proof. intros HT. destruct r; destruct HT as [<-|[<-|[<-|[]]]]; reflexivity. Qed.
Lemma current_passed r T f : In T traffic_tasks -> passed r T (current r f) = passed r T f.
Proof. intros HT. unfold current. destruct f; try reflexivity. rewrite first_passes_nothing, nothing_passed_at_none; auto. Qed.
Lemma first_is_not_remove r : next_task r FtNone <> FtRemoveCanarySvc. Proof. destruct r; discriminate. Qed.

(* what the writes of the finalising phase do to the network *)
Lemma fin_writes_net cur ws n : fin_writes cur ws ->
  let n' := apply_writes n ws in
  (n_route n' = n_route n \/ n_route n' = RNone) /\ (n_canary_svc n' = n_canary_svc n \/ (cur = FtRemoveCanarySvc /\ n_canary_svc n' = None)) /\
  (n_stable_sel n' = n_stable_sel n \/ n_stable_sel n' = None) /\ n_stable_exists n' = n_stable_exists n.
Proof. intros H. destruct H; cbn; auto 8. Qed.

Lemma in_traffic_1 : In FtRestoreStable traffic_tasks. Proof. cbn; auto. Qed.
Lemma in_traffic_2 : In FtRouteStable traffic_tasks. Proof. cbn; auto. Qed.
Lemma in_traffic_3 : In FtRemoveCanarySvc traffic_tasks. Proof. cbn; auto. Qed.

(* one reconcile keeps the invariant; the status is persisted only when the reconcile did not fail *)
Theorem finalise_tr_keeps_finv t u w br r wr n g done o :
  finalise_tr t u w br r wr n g = (done, o) -> ts_refs t = true -> wl_exists w = true ->
  finv r u n -> finv r (if co_err o then u else co_sub o) (apply_writes n (co_writes o)).
Proof.
  intros H Hr Hw [J1 J2 J3 J4].
  destruct (ftask_eqb (su_fin u) FtEnd) eqn:Eend.
  { unfold finalise_tr in H. rewrite Eend in H. injection H as <- <-. cbn. constructor; assumption. }
  assert (Hne : su_fin u <> FtEnd) by (intros E; rewrite E in Eend; discriminate).
  destruct (finalise_tr_step _ _ _ _ _ _ _ _ _ _ H Hne Hr Hw) as [Hws Hcur]. cbn zeta in Hws, Hcur.
  destruct (fin_writes_net _ _ n Hws) as (Hro & Hsv & Hst & Hex). cbn zeta in Hro, Hsv, Hst, Hex.
  set (n' := apply_writes n (co_writes o)) in *.
  (* facts that hold whatever the cursor does: nothing already established is undone *)
  assert (K2 : passed r FtRouteStable (su_fin u) = true -> n_route n' = RNone) by (intros P; destruct Hro as [->| ->]; auto).
  assert (K3 : passed r FtRemoveCanarySvc (su_fin u) = true -> n_canary_svc n' = None) by (intros P; destruct Hsv as [->|[_ ->]]; auto).
  assert (K4 : passed r FtRestoreStable (su_fin u) = true -> n_stable_exists n' = true -> unpinned n').
  { intros P E. rewrite Hex in E. specialize (J4 P E). unfold unpinned in *. destruct Hst as [->| ->]; auto. }
  assert (K1 : n_route n' <> RNone -> n_canary_svc n' <> None).
  { intros Hroute. destruct Hsv as [->|[Hc Hnone]].
    - apply J1. destruct Hro as [E|E]; congruence.
    - exfalso. apply Hroute. apply K2.
      (* the canary Service is deleted only when the cursor stands on RemoveCanaryService *)
      unfold current in Hc. destruct (su_fin u) eqn:Ef; try discriminate; [exfalso; exact (first_is_not_remove r Hc)|apply route_passed_at_remove]. }
  destruct (co_err o) eqn:Eerr; [constructor; assumption|].
  destruct Hcur as [Hc|[Hc|[Hc [Hno Heff]]]].
  - (* the cursor stays on the current task *)
    constructor; auto; rewrite Hc, current_passed; auto using in_traffic_1, in_traffic_2, in_traffic_3.
  - (* restart from the first task: nothing counts as passed *)
    constructor; auto; rewrite Hc, first_passes_nothing; auto using in_traffic_1, in_traffic_2, in_traffic_3; discriminate.
  - (* the cursor moves on: the task it stood on has its effect in place *)
    specialize (Heff eq_refl).
    assert (Hcase : forall T, In T traffic_tasks -> passed r T (su_fin (co_sub o)) = true ->
              passed r T (su_fin u) = true \/ current r (su_fin u) = T).
    { intros T HT P. rewrite Hc in P. destruct (passed r T (su_fin u)) eqn:Eo; [auto|]. right.
      destruct (su_fin u) eqn:Ef; try congruence.
      - rewrite first_passes_nothing in P; [discriminate|exact HT].
      - apply newly_passed; cbn; auto 10.
      - apply newly_passed; cbn; auto 10.
      - apply newly_passed; cbn; auto 10.
      - apply newly_passed; cbn; auto 10.
      - apply newly_passed; cbn; auto 10. }
    constructor; auto.
    + intros P. destruct (Hcase _ in_traffic_2 P) as [Q|Q]; [auto|]. rewrite Q in Heff. exact Heff.
    + intros P. destruct (Hcase _ in_traffic_3 P) as [Q|Q]; [auto|]. rewrite Q in Heff. exact Heff.
    + intros P E. destruct (Hcase _ in_traffic_1 P) as [Q|Q]; [auto|]. rewrite Q in Heff. exact (Heff E).
Qed.

(* ---- histories ---- *)
(* what one reconcile finds besides the persisted status and the network: the workload, the BatchRelease, and the
   in-memory grace expectations (arbitrary: time may have passed, the process may have restarted) *)
Record fenv := { fe_w : wl; fe_br : option brel; fe_g : graces }.
Definition fin_step (t : tr_spec) (r : freason) (wr : bool) (st : sub * net) (x : fenv) : sub * net :=
  let '(u, n) := st in
  let '(_, o) := finalise_tr t u (fe_w x) (fe_br x) r wr n (fe_g x) in
  ((if co_err o then u else co_sub o), apply_writes n (co_writes o)).
Definition fin_run (t : tr_spec) (r : freason) (wr : bool) (st : sub * net) (xs : list fenv) : sub * net := fold_left (fin_step t r wr) xs st.

Lemma fin_step_inv t r wr u n x : ts_refs t = true -> wl_exists (fe_w x) = true -> finv r u n ->
  finv r (fst (fin_step t r wr (u, n) x)) (snd (fin_step t r wr (u, n) x)).
Proof. intros Hr Hw J. unfold fin_step. destruct (finalise_tr t u (fe_w x) (fe_br x) r wr n (fe_g x)) as [d o] eqn:E. cbn [fst snd].
  eapply finalise_tr_keeps_finv; eauto. Qed.

Theorem fin_run_inv t r wr xs : ts_refs t = true -> Forall (fun x => wl_exists (fe_w x) = true) xs ->
  forall u n, finv r u n -> finv r (fst (fin_run t r wr (u, n) xs)) (snd (fin_run t r wr (u, n) xs)).
Proof.
  intros Hr HF. unfold fin_run. induction HF as [|x xs Hx _ IH]; intros u n J; [exact J|]. cbn [fold_left].
  destruct (fin_step t r wr (u, n) x) as [u' n'] eqn:E. apply IH.
  pose proof (fin_step_inv t r wr u n x Hr Hx J) as H. rewrite E in H. exact H.
Qed.

(* the invariant holds when the finalising phase starts: the cursor is empty and the only requirement is that no route
   points at a missing canary Service *)
Lemma finv_start r u n : su_fin u = FtNone -> (n_route n <> RNone -> n_canary_svc n <> None) -> finv r u n.
Proof. intros Hf H1. constructor; auto; rewrite Hf, nothing_passed_at_none; auto using in_traffic_1, in_traffic_2, in_traffic_3; discriminate. Qed.

(* when the cursor reaches END the network is as the user configured it: no canary route, no canary Service, stable
   Service un-pinned *)
Lemma finv_end r u n : finv r u n -> su_fin u = FtEnd ->
  n_route n = RNone /\ n_canary_svc n = None /\ (n_stable_exists n = true -> unpinned n).
Proof. intros [J1 J2 J3 J4] Hf. rewrite Hf in *. auto. Qed.

(* C04 / C05 / C06 for the finalising phase of every exit reason: along ANY sequence of reconciles -- any time passing,
   any controller restarts, any failed status writes, any BatchRelease progress -- no route ever points at a missing canary
   Service, and once the sequence is over the network is clean *)
Theorem finalising_history_safe t r wr u n xs :
  ts_refs t = true -> Forall (fun x => wl_exists (fe_w x) = true) xs ->
  su_fin u = FtNone -> (n_route n <> RNone -> n_canary_svc n <> None) ->
  let '(u', n') := fin_run t r wr (u, n) xs in
  (n_route n' <> RNone -> n_canary_svc n' <> None) /\
  (su_fin u' = FtEnd -> n_route n' = RNone /\ n_canary_svc n' = None /\ (n_stable_exists n' = true -> unpinned n')).
Proof.
  intros Hr HF Hf H1. pose proof (fin_run_inv t r wr xs Hr HF u n (finv_start r u n Hf H1)) as J.
  destruct (fin_run t r wr (u, n) xs) as [u' n']. cbn [fst snd] in J. split; [apply J|]. intros He. eapply finv_end; eauto.
Qed.

(* every prefix of a history is a history: the safety half holds after every single reconcile, hence after every write
   (a reconcile of this phase makes at most one network write) *)
Lemma finalise_tr_one_write t u w br r wr n g done o : finalise_tr t u w br r wr n g = (done, o) -> su_fin u <> FtEnd ->
  ts_refs t = true -> wl_exists w = true -> (List.length (co_writes o) <= 1)%nat.
Proof. intros H Hne Hr Hw. destruct (finalise_tr_step _ _ _ _ _ _ _ _ _ _ H Hne Hr Hw) as [Hws _]. destruct Hws; cbn; lia. Qed.

(* FinalisingTrafficRouting (run when a step without traffic follows one with traffic): the canary Service is deleted
   only once the canary route is gone *)
Lemma finalising_traffic_service_after_route c n g : tc_refs c = true ->
  In WDeleteCanarySvc (tr_writes (finalising_traffic_routing c n g)) -> n_route (apply_writes n (tr_writes (finalising_traffic_routing c n g))) = RNone.
Proof.
  intros Hr. unfold finalising_traffic_routing. rewrite Hr. cbn [negb]. unfold seq_tres.
  set (a := restore_stable_service c n g).
  destruct (tr_err a || negb (tr_ok a)) eqn:Ea; cbn [tr_writes].
  { intros Hin. exfalso. subst a. destruct (restore_stable_writes c n g) as [E|E]; rewrite E in Hin; cbn in Hin; intuition discriminate. }
  set (b := restore_gateway c n (tr_graces a)).
  destruct (tr_err b || negb (tr_ok b)) eqn:Eb; cbn [tr_writes].
  { intros Hin. exfalso. apply in_app_or in Hin. subst a b.
    destruct (restore_stable_writes c n g) as [E|E]; rewrite E in Hin;
    destruct (restore_gateway_writes c n (tr_graces (restore_stable_service c n g))) as [E2|E2]; rewrite E2 in Hin; cbn in Hin; intuition discriminate. }
  intros _. apply Bool.orb_false_iff in Eb as [_ Eok]. apply Bool.negb_false_iff in Eok.
  pose proof (restore_gateway_ok_effect c n (tr_graces a) Hr Eok) as Hg. fold b in Hg.
  destruct (restore_stable_writes c n g) as [E1|E1]; fold a in E1; rewrite E1;
  destruct (restore_gateway_writes c n (tr_graces a)) as [E2|E2]; fold b in E2; rewrite E2 in Hg |- *;
  destruct (remove_canary_writes c n (tr_graces b)) as [E3|E3]; rewrite E3; cbn in Hg |- *; first [exact Hg | reflexivity].
Qed.

(* idempotence: a completed restore writes nothing when run again, whatever the expectations *)
Lemma restore_gateway_again c n g g' : tc_refs c = true -> tr_ok (restore_gateway c n g) = true ->
  tr_writes (restore_gateway c (apply_writes n (tr_writes (restore_gateway c n g))) g') = [].
Proof.
  intros Hr Hok. pose proof (restore_gateway_ok_effect c n g Hr Hok) as He.
  unfold restore_gateway at 1. rewrite Hr. cbn [negb]. destruct (tc_gateway_fails c); [reflexivity|]. rewrite He. cbn [finalise_routes].
  destruct (with_grace _ _ _ _ _). reflexivity.
Qed.

(* F31 (known finding): the theorems above fix the exit reason r.  If the reason changes while the cursor is mid-sequence
   the invariant is lost: here a rollback stands at ReleaseWorkloadControl (canary Service and pin still to be removed in
   ITS order), the Rollout is disabled, and the next reconcile reaches END with both left behind. *)
Definition f31_sub : sub := {| su_obs_wl_gen := 1; su_obs_rid := "v2"; su_hash := "h"; su_stable := "v1"; su_pth := "v2"; su_idx := 1; su_next := -1;
  su_state := StPaused; su_fin := FtRelease; su_elapsed := true; su_canary_rev := "v2"; su_creplicas := 0; su_cready := 0 |}.
Definition f31_wl : wl := {| wl_exists := true; wl_consistent := true; wl_stable := "v1"; wl_canary := "v1"; wl_pth := "v1"; wl_replicas := 5; wl_gen := 1;
  wl_in_progress := true; wl_in_rollback := true; wl_rid_label := ""; wl_typed := true |}.
Definition f31_net : net := {| n_stable_exists := true; n_stable_sel := Some "v1"; n_canary_svc := Some "v2"; n_route := RNone |}.
Example reason_change_refuted :
  finv_b FrRollback f31_sub f31_net = true /\
  let '(done, o) := finalise_tr f30_spec f31_sub f31_wl None FrDisabled false f31_net [] in
  done = true /\ su_fin (co_sub o) = FtEnd /\ n_canary_svc (apply_writes f31_net (co_writes o)) = Some "v2" /\
  n_stable_sel (apply_writes f31_net (co_writes o)) = Some "v1".
Proof. vm_compute. repeat split; reflexivity. Qed.

(* ---------- C10 with traffic routing: the workload is touched only after traffic is back on stable ---------- *)
(* finalise (the BatchRelease tasks) changes the BatchRelease only at ResumeWorkload / ReleaseWorkloadControl *)
Lemma finalise_br_change sp u w br r wr d u' br' : finalise sp u w br r wr = (d, u', br') -> br' <> br ->
  current r (su_fin u) = FtResume \/ current r (su_fin u) = FtRelease.
Proof.
  intros H Hne. unfold current. unfold finalise in H.
  destruct (su_fin u) eqn:E; destruct r; cbn in H |- *; auto; exfalso; apply Hne;
  rewrite ?E in H; cbn in H;
  repeat match type of H with
         | context [match ?c with Some _ => _ | None => _ end] => destruct c
         | context [if ?c then _ else _] => destruct c end;
  injection H as _ _ <-; reflexivity.
Qed.

Lemma rollback_passes_route_first : passed FrRollback FtRouteStable FtResume = true /\ passed FrRollback FtRouteStable FtRelease = true.
Proof. split; vm_compute; reflexivity. Qed.
Lemma rollback_starts_with_route : next_task FrRollback FtNone = FtRouteStable. Proof. reflexivity. Qed.

(* rollback: a reconcile of the cancellation sequence that patches or deletes the BatchRelease (resume the workload, hand it
   back to its native controller -- this is what removes the new-revision pods) finds the canary route already gone, and
   writes nothing to the network itself.  finv is the invariant every cancellation history keeps (finalising_history_safe) *)
Theorem rollback_touches_workload_after_traffic_back t u w br wr n g done o :
  finalise_tr t u w br FrRollback wr n g = (done, o) -> finv FrRollback u n -> co_br o <> br ->
  n_route n = RNone /\ co_writes o = [].
Proof.
  intros H Hinv Hbr. unfold finalise_tr in H.
  destruct (ftask_eqb (su_fin u) FtEnd); [injection H as _ <-; cbn in Hbr; congruence|].
  set (u1 := match su_fin u with FtNone => _ | _ => u end) in H.
  assert (Hc : su_fin u1 = current FrRollback (su_fin u))
    by (subst u1; unfold current; destruct (su_fin u) eqn:E; cbn; rewrite ?E; reflexivity).
  assert (Htr : forall x, (if tr_err x then (false, {| co_sub := u1; co_br := br; co_requeue := false; co_writes := tr_writes x; co_graces := tr_graces x; co_err := true |})
       else if negb (tr_ok x) then (false, {| co_sub := u1; co_br := br; co_requeue := false; co_writes := tr_writes x; co_graces := tr_graces x; co_err := false |})
       else (ftask_eqb (next_task FrRollback (su_fin u)) FtEnd,
             {| co_sub := upd_sub u1 (su_idx u1) (su_next u1) (su_state u1) (next_task FrRollback (su_fin u)) false; co_br := br; co_requeue := false;
                co_writes := tr_writes x; co_graces := tr_graces x; co_err := false |})) = (done, o) -> False).
  { intros x E. destruct (tr_err x); [|destruct (negb (tr_ok x))]; injection E as _ <-; apply Hbr; reflexivity. }
  destruct (su_fin u1) eqn:E1; try (exfalso; eapply Htr; exact H).
  all: destruct (finalise (ts_sp t) u w br FrRollback wr) as [[d' u'] br'] eqn:Hf; injection H as _ <-; cbn [co_br co_writes] in *;
       destruct (finalise_br_change _ _ _ _ _ _ _ _ _ Hf Hbr) as [Hx|Hx]; rewrite <- Hc in Hx; try discriminate.
  - (* ResumeWorkload *)
    split; [|reflexivity]. apply (fi_gateway _ _ _ Hinv).
    assert (Hu : su_fin u = FtResume).
    { unfold current in Hc. destruct (su_fin u) eqn:E; try congruence. rewrite rollback_starts_with_route in Hc. discriminate. }
    rewrite Hu. apply rollback_passes_route_first.
  - split; [|reflexivity]. apply (fi_gateway _ _ _ Hinv).
    assert (Hu : su_fin u = FtRelease).
    { unfold current in Hc. destruct (su_fin u) eqn:E; try congruence. rewrite rollback_starts_with_route in Hc. discriminate. }
    rewrite Hu. apply rollback_passes_route_first.
Qed.

Lemma apply_writes_app n ws1 ws2 : apply_writes n (ws1 ++ ws2) = apply_writes (apply_writes n ws1) ws2.
Proof. unfold apply_writes. apply fold_left_app. Qed.

(* supersession (a newer revision arrives while traffic routing is configured): the reset removes the BatchRelease only in
   a reconcile after whose writes the canary route is gone.  The hypothesis is the reset sequence's own invariant: its
   cursor stands behind RestoreGateway only once that task completed *)
Theorem supersession_removes_pods_after_traffic_back t u br n g done c :
  reset_tr t u br n g = (done, c) -> ts_refs t = true ->
  (su_fin u = FtRelease \/ su_fin u = FtRemoveCanarySvc -> n_route n = RNone) ->
  co_br c <> br -> n_route (apply_writes n (co_writes c)) = RNone.
Proof.
  intros H Hr Hinv Hbr. unfold reset_tr in H.
  assert (Hstage3 : forall (u0 : sub) (b0 : brw) ws g0, n_route (apply_writes n ws) = RNone ->
     (let x := remove_canary_service (mk_ctx t u0) (apply_writes n ws) g0 in
      if tr_err x then (false, {| co_sub := touch u0 x; co_br := b0; co_requeue := false; co_writes := ws ++ tr_writes x; co_graces := tr_graces x; co_err := true |})
      else (true, {| co_sub := u0; co_br := b0; co_requeue := false; co_writes := ws ++ tr_writes x; co_graces := tr_graces x; co_err := false |})) = (done, c) ->
     n_route (apply_writes n (co_writes c)) = RNone).
  { intros u0 b0 ws g0 Hn E. cbv zeta in E.
    match type of E with context [if ?b then _ else _] => destruct b end; injection E as _ <-; cbn [co_writes]; rewrite apply_writes_app;
    destruct (remove_canary_writes (mk_ctx t u0) (apply_writes n ws) g0) as [-> | ->]; cbn; exact Hn. }
  assert (Hstage2 : forall (u0 : sub) ws g0, n_route (apply_writes n ws) = RNone ->
     (let '(retry, br') := remove_br br in
      if retry then (false, {| co_sub := u0; co_br := br'; co_requeue := false; co_writes := ws; co_graces := g0; co_err := false |})
      else let x := remove_canary_service (mk_ctx t (upd_sub u0 (su_idx u0) (su_next u0) (su_state u0) FtRemoveCanarySvc false)) (apply_writes n ws) g0 in
           if tr_err x then (false, {| co_sub := touch (upd_sub u0 (su_idx u0) (su_next u0) (su_state u0) FtRemoveCanarySvc false) x; co_br := br'; co_requeue := false; co_writes := ws ++ tr_writes x; co_graces := tr_graces x; co_err := true |})
           else (true, {| co_sub := upd_sub u0 (su_idx u0) (su_next u0) (su_state u0) FtRemoveCanarySvc false; co_br := br'; co_requeue := false; co_writes := ws ++ tr_writes x; co_graces := tr_graces x; co_err := false |})) = (done, c) ->
     n_route (apply_writes n (co_writes c)) = RNone).
  { intros u0 ws g0 Hn E. destruct (remove_br br) as [retry br'].
    destruct retry; [injection E as _ <-; cbn [co_writes]; exact Hn|].
    cbv zeta in E. match type of E with context [if ?b then _ else _] => destruct b end; injection E as _ <-; cbn [co_writes]; rewrite apply_writes_app;
    match goal with |- context [remove_canary_service ?x ?m ?gg] => destruct (remove_canary_writes x m gg) as [-> | ->] end; cbn; exact Hn. }
  assert (Hstage1 : forall (u0 : sub),
     (let x := restore_gateway (mk_ctx t u0) n g in
      if tr_err x || negb (tr_ok x) then (false, {| co_sub := touch u0 x; co_br := br; co_requeue := false; co_writes := tr_writes x; co_graces := tr_graces x; co_err := tr_err x |})
      else (let '(retry, br') := remove_br br in
      if retry then (false, {| co_sub := upd_sub u0 (su_idx u0) (su_next u0) (su_state u0) FtRelease false; co_br := br'; co_requeue := false; co_writes := tr_writes x; co_graces := tr_graces x; co_err := false |})
      else let y := remove_canary_service (mk_ctx t (upd_sub (upd_sub u0 (su_idx u0) (su_next u0) (su_state u0) FtRelease false) (su_idx u0) (su_next u0) (su_state u0) FtRemoveCanarySvc false)) (apply_writes n (tr_writes x)) (tr_graces x) in
           if tr_err y then (false, {| co_sub := touch (upd_sub (upd_sub u0 (su_idx u0) (su_next u0) (su_state u0) FtRelease false) (su_idx u0) (su_next u0) (su_state u0) FtRemoveCanarySvc false) y; co_br := br'; co_requeue := false; co_writes := tr_writes x ++ tr_writes y; co_graces := tr_graces y; co_err := true |})
           else (true, {| co_sub := upd_sub (upd_sub u0 (su_idx u0) (su_next u0) (su_state u0) FtRelease false) (su_idx u0) (su_next u0) (su_state u0) FtRemoveCanarySvc false; co_br := br'; co_requeue := false; co_writes := tr_writes x ++ tr_writes y; co_graces := tr_graces y; co_err := false |}))) = (done, c) ->
     n_route (apply_writes n (co_writes c)) = RNone).
  { intros u0 E. cbv zeta in E.
    destruct (tr_err (restore_gateway (mk_ctx t u0) n g) || negb (tr_ok (restore_gateway (mk_ctx t u0) n g))) eqn:Eg.
    { injection E as _ <-. exfalso. apply Hbr. reflexivity. }
    apply Bool.orb_false_iff in Eg as [_ Eok]. apply Bool.negb_false_iff in Eok.
    pose proof (restore_gateway_ok_effect (mk_ctx t u0) n g Hr Eok) as Hn.
    destruct (remove_br br) as [retry br'].
    destruct retry; [injection E as _ <-; cbn [co_writes]; exact Hn|].
    match type of E with context [if ?b then _ else _] => destruct b end; injection E as _ <-; cbn [co_writes]; rewrite apply_writes_app;
    match goal with |- context [remove_canary_service ?x ?m ?gg] => destruct (remove_canary_writes x m gg) as [-> | ->] end; cbn; exact Hn. }
  destruct (su_fin u) eqn:Ef.
  all: try (apply (Hstage1 _ H)).
  - (* cursor at RemoveCanarySvc: the BatchRelease is not touched *)
    exfalso. cbv zeta in H. match type of H with context [if ?b then _ else _] => destruct b end; injection H as _ <-; apply Hbr; reflexivity.
  - (* cursor at Release *) apply (Hstage2 u [] g); [cbn; apply Hinv; auto|exact H].
Qed.
