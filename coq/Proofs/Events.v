(* Proofs about Model/Events.v: the wake-ups the quiet-is-waiting theorems of C07 rely on do come. *)
From RV Require Import Base.Util Base.IntStr Model.Events.

Lemma enq_named n : sempty n = false -> enq n = [n].
Proof. unfold enq. intros ->. reflexivity. Qed.

(* the BatchRelease controller stopped because the workload controller had not caught up (observedGeneration < generation):
   when the workload controller does catch up -- any status change -- the workload's BatchRelease is enqueued *)
Theorem workload_catching_up_wakes_its_batchrelease brs old new n :
  wo_ctl new = CiBatchRelease n -> sempty n = false -> wo_rv new <> wo_rv old ->
  ws_obs_gen (wo_status old) <> ws_obs_gen (wo_status new) ->
  br_on_workload_update brs old new = [n].
Proof.
  intros Hc Hn Hrv Hobs. unfold br_on_workload_update.
  destruct (wo_rv new =? wo_rv old) eqn:E; [apply Z.eqb_eq in E; contradiction|].
  assert (Hs : wstatus_eqb (wo_status old) (wo_status new) = false).
  { unfold wstatus_eqb. destruct (ws_obs_gen (wo_status old) =? ws_obs_gen (wo_status new)) eqn:E2; [apply Z.eqb_eq in E2; contradiction|].
    rewrite !andb_false_r. reflexivity. }
  rewrite Hs. rewrite orb_true_r. unfold get_batch_release. rewrite Hc. apply enq_named. exact Hn.
Qed.

(* more generally: every change of generation or of a counted status field of a claimed workload wakes its BatchRelease *)
Theorem claimed_workload_change_wakes_its_batchrelease brs old new n :
  wo_ctl new = CiBatchRelease n -> sempty n = false -> wo_rv new <> wo_rv old ->
  (wo_gen old <> wo_gen new \/ wstatus_eqb (wo_status old) (wo_status new) = false) ->
  br_on_workload_update brs old new = [n].
Proof.
  intros Hc Hn Hrv Hch. unfold br_on_workload_update.
  destruct (wo_rv new =? wo_rv old) eqn:E; [apply Z.eqb_eq in E; contradiction|].
  assert (Hb : negb (wo_gen old =? wo_gen new) || negb (wstatus_eqb (wo_status old) (wo_status new)) = true).
  { destruct Hch as [Hg|Hs]; [apply Z.eqb_neq in Hg; rewrite Hg; reflexivity|rewrite Hs; apply orb_true_r]. }
  rewrite Hb. unfold get_batch_release. rewrite Hc. apply enq_named. exact Hn.
Qed.

(* a pod of a claimed workload turning ready (or unready) wakes the workload's BatchRelease *)
Theorem pod_readiness_change_wakes_the_batchrelease brs w old new n :
  wo_ctl w = CiBatchRelease n -> sempty n = false -> po_rv old <> po_rv new -> po_ready old <> po_ready new ->
  br_on_pod_update brs (Some w) old new = [n].
Proof.
  intros Hc Hn Hrv Hr. unfold br_on_pod_update.
  destruct (po_rv old =? po_rv new) eqn:E; [apply Z.eqb_eq in E; contradiction|].
  assert (Hb : Bool.eqb (po_ready old) (po_ready new) = false) by (destruct (po_ready old), (po_ready new); cbn; congruence).
  rewrite Hb, andb_false_r. cbn [orb]. rewrite Hc. unfold get_batch_release. rewrite Hc. apply enq_named. exact Hn.
Qed.

(* every update of a BatchRelease wakes the Rollout of the same name; every event of a workload wakes the Rollout that
   references it (the first one, when several do) *)
Theorem batchrelease_update_wakes_its_rollout name : ro_on_batchrelease_event EvUpdate name = [name].
Proof. reflexivity. Qed.
Theorem workload_event_wakes_a_referencing_rollout ros w r : In r ros -> ro_targets w r = true ->
  exists r', ro_on_workload_event ros w = [rf_name r'] /\ In r' ros /\ ro_targets w r' = true.
Proof.
  intros Hin Ht. unfold ro_on_workload_event. destruct (find (ro_targets w) ros) as [r'|] eqn:E.
  - exists r'. apply find_some in E. tauto.
  - exfalso. eapply find_none in E; eauto. congruence.
Qed.
