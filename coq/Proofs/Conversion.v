(* Proofs about Model/Conversion.v (C20). *)
From RV Require Import Base.Util Base.IntStr Model.Conversion Corr.Conversion.

Lemma list_eqb_refl {A} (e : A -> A -> bool) (l : list A) : (forall x, In x l -> e x x = true) -> list_eqb e l l = true.
Proof. induction l as [|x l IH]; intros H; [reflexivity|]. cbn. rewrite (H x (or_introl eq_refl)), IH; [reflexivity|]. intros y Hy. apply H. right. exact Hy. Qed.
Lemma ios_eqb_refl v : ios_eqb v v = true.
Proof. destruct v; cbn; try apply Z.eqb_refl; reflexivity. Qed.
Lemma oios_eqb_refl v : oios_eqb v v = true. Proof. destruct v; cbn; [apply ios_eqb_refl|reflexivity]. Qed.
Lemma oz_eqb_refl v : oz_eqb v v = true. Proof. destruct v; cbn; [apply Z.eqb_refl|reflexivity]. Qed.
Lemma ostr_eqb_refl v : ostr_eqb v v = true. Proof. destruct v; cbn; [apply String.eqb_refl|reflexivity]. Qed.
Lemma wref_eqb_refl w : wref_eqb w w = true. Proof. destruct w as [[a b] c]. cbn. rewrite !String.eqb_refl. reflexivity. Qed.
Lemma patch_eqb_refl p : patch_eqb p p = true. Proof. destruct p as [[a b]|]; cbn; rewrite ?String.eqb_refl; reflexivity. Qed.
Lemma status_eqb_refl s : status_eqb s s = true.
Proof. unfold status_eqb. rewrite Z.eqb_refl, !String.eqb_refl, ostr_eqb_refl. reflexivity. Qed.
Lemma strs_eqb_refl l : list_eqb String.eqb l l = true. Proof. apply list_eqb_refl. intros. apply String.eqb_refl. Qed.

(* "w%" parses back to w for every weight the schema admits (finite domain, by computation) *)
Lemma weight_roundtrip_small : forallb (fun w => weight_of_traffic (pct_string w) =? w) (zseq 0 101) = true.
Proof. vm_compute. reflexivity. Qed.
Lemma zseq_in n : forall s x, s <= x < s + Z.of_nat n -> In x (zseq s n).
Proof. induction n as [|n IH]; intros s x H; [lia|]. cbn. destruct (Z.eq_dec s x); [left; auto|right; apply IH; lia]. Qed.
Lemma weight_roundtrip w : 0 <= w <= 100 -> weight_of_traffic (pct_string w) = w.
Proof. intros H. pose proof weight_roundtrip_small as Hs. rewrite forallb_forall in Hs.
  apply Z.eqb_eq. apply Hs. apply zseq_in. cbn. lia. Qed.

Definition weights_ok (a : alpha_rollout) : Prop :=
  forall c s w, a_canary a = Some c -> In s (ac_steps c) -> as_weight s = Some w -> 0 <= w <= 100.

Lemma step_roundtrip s : (forall w, as_weight s = Some w -> 0 <= w <= 100) -> alpha_step_same s (to_alpha_step (to_beta_step s)) = true.
Proof.
  intros Hw. unfold alpha_step_same, to_alpha_step, to_beta_step, eff_replicas. cbn.
  rewrite map_map. cbn. rewrite map_id, strs_eqb_refl, String.eqb_refl, oz_eqb_refl.
  destruct (as_weight s) as [w|] eqn:E.
  - rewrite (weight_roundtrip w (Hw w eq_refl)). cbn. rewrite Z.eqb_refl.
    destruct (as_replicas s); cbn; rewrite ?ios_eqb_refl, ?Z.eqb_refl; reflexivity.
  - cbn. destruct (as_replicas s); cbn; rewrite ?ios_eqb_refl; reflexivity.
Qed.

Lemma steps_roundtrip l : (forall s w, In s l -> as_weight s = Some w -> 0 <= w <= 100) ->
  list_eqb alpha_step_same l (map to_alpha_step (map to_beta_step l)) = true.
Proof. induction l as [|s l IH]; intros H; [reflexivity|]. cbn [map list_eqb]. rewrite step_roundtrip, IH; [reflexivity| |].
  - intros s' w Hin. apply H. right. exact Hin.
  - intros w. apply H. left. reflexivity. Qed.

(* C20: a v1alpha1 Rollout stored as v1beta1 reads back with the same meaning *)
Theorem rollout_alpha_roundtrip a : weights_ok a ->
  exists b a', rollout_to_beta a = Ok b /\ rollout_to_alpha b = Ok a' /\ alpha_same a a' = true.
Proof.
  intros Hw. eexists. eexists. split; [reflexivity|]. split; [reflexivity|].
  unfold alpha_same. cbn [a_style a_trref a_wref a_disabled a_paused a_canary a_status ac_steps ac_trs ac_ft ac_patch b_style b_trref b_wref b_disabled b_paused b_canary b_bluegreen b_status b_bgstatus bc_steps bc_trs bc_ft bc_patch bc_extra bc_trref bc_nosvc].
  replace (match a_canary a with Some c => c | None => empty_canary end) with (match a_canary a with Some c => c | None => empty_canary end) by reflexivity.
  rewrite wref_eqb_refl, !eqb_reflx, strs_eqb_refl, oios_eqb_refl, patch_eqb_refl, status_eqb_refl.
  assert (Hstyle : Bool.eqb (style_is (a_style a) "partition")
            (style_is (Some (if negb (style_is (a_style a) "partition") then "canary" else "partition")) "partition") = true).
  { destruct (style_is (a_style a) "partition"); reflexivity. }
  rewrite Hstyle.
  assert (Htr : ((match a_trref a with Some t => t | None => "" end) =?
                 (match (if sempty (match a_trref a with Some t => t | None => "" end) then a_trref a
                         else Some (match a_trref a with Some t => t | None => "" end)) with Some t => t | None => "" end))%string = true).
  { destruct (a_trref a) as [t|]; cbn; [|reflexivity]. destruct (sempty t); cbn; apply String.eqb_refl. }
  rewrite Htr. cbn [andb].
  rewrite steps_roundtrip; [reflexivity|].
  intros s w Hin Hsw. destruct (a_canary a) as [c|] eqn:Hc; [eapply Hw; eauto|destruct Hin].
Qed.

(* C20: conversion is total on every object of the modelled shape (absent optional blocks included) *)
Theorem conversion_total :
  (forall a, rollout_to_beta a <> Panic) /\ (forall b, rollout_to_alpha b <> Panic) /\ (forall a, br_to_beta a <> Panic).
Proof. repeat split; intros x; [discriminate| |discriminate].
  unfold rollout_to_alpha. destruct (b_bluegreen x); [discriminate|]. destruct (b_canary x); discriminate. Qed.

(* C20: a canary-strategy v1beta1 Rollout restricted to what v1alpha1 can express survives a
   read-modify-write through v1alpha1 *)
Lemma traffic_roundtrip t : valid_traffic t = true -> pct_string (weight_of_traffic t) = t.
Proof.
  unfold valid_traffic, weight_of_traffic. destruct (has_suffix t "%"); [|discriminate]. cbn [andb].
  destruct (atoi _) as [p|]; [|discriminate]. intros H. apply andb_true_iff in H. destruct H as [H Heq].
  apply andb_true_iff in H. destruct H as [H0 H1]. apply Z.leb_le in H0, H1. apply String.eqb_eq in Heq.
  assert (scaled true (IPct p) 100 = p).
  { unfold scaled, scaled_err. cbn [fst]. pose proof (ceil_div100_spec (p * 100)). lia. }
  rewrite H. symmetry. exact Heq.
Qed.

Lemma beta_step_rmw_holds s : (match bs_traffic s with Some t => valid_traffic t | None => true end = true) ->
  forallb (fun m => sempty (snd m)) (bs_matches s) = true ->
  beta_step_rmw s (to_beta_step (to_alpha_step s)) = true.
Proof.
  intros Ht Hm. unfold beta_step_rmw, to_beta_step, to_alpha_step. cbn.
  rewrite String.eqb_refl, oz_eqb_refl.
  assert (Hmm : list_eqb (fun p q => (fst p =? fst q)%string && (snd p =? snd q)%string) (bs_matches s)
                  (map (fun h => (h, "")) (map fst (bs_matches s))) = true).
  { induction (bs_matches s) as [|[h r] l IH]; [reflexivity|]. cbn in *. apply andb_true_iff in Hm. destruct Hm as [Hr Hl].
    rewrite String.eqb_refl, IH by exact Hl. destruct r; [reflexivity|discriminate]. }
  rewrite Hmm. destruct (bs_traffic s) as [t|] eqn:E.
  - rewrite (traffic_roundtrip t Ht). cbn. rewrite String.eqb_refl. destruct (bs_replicas s); cbn; rewrite ?ios_eqb_refl, ?Z.eqb_refl; reflexivity.
  - cbn. destruct (bs_replicas s); cbn; rewrite ?ios_eqb_refl; reflexivity.
Qed.

Theorem rollout_beta_rmw b : beta_expressible b = true ->
  exists a b', rollout_to_alpha b = Ok a /\ rollout_to_beta a = Ok b' /\ beta_rmw b b' = true.
Proof.
  unfold beta_expressible. intros H. apply andb_true_iff in H. destruct H as [H Hc].
  apply andb_true_iff in H. destruct H as [Hbg Hbs]. apply negb_true_iff in Hbg.
  destruct (b_canary b) as [c|] eqn:Hcan; [|discriminate]. apply andb_true_iff in Hc. destruct Hc as [Hc Hsteps].
  apply andb_true_iff in Hc. destruct Hc as [Hns Hanno]. apply negb_true_iff in Hns.
  unfold rollout_to_alpha. rewrite Hbg, Hcan. eexists. eexists. split; [reflexivity|]. split; [reflexivity|].
  unfold beta_rmw. cbn [a_style a_trref a_wref a_disabled a_paused a_canary a_status ac_steps ac_trs ac_ft ac_patch b_style b_trref b_wref b_disabled b_paused b_canary b_bluegreen b_status b_bgstatus bc_steps bc_trs bc_ft bc_patch bc_extra bc_trref bc_nosvc]. rewrite Hcan. cbn [a_style a_trref a_wref a_disabled a_paused a_canary a_status ac_steps ac_trs ac_ft ac_patch b_style b_trref b_wref b_disabled b_paused b_canary b_bluegreen b_status b_bgstatus bc_steps bc_trs bc_ft bc_patch bc_extra bc_trref bc_nosvc opt_eqb].
  rewrite wref_eqb_refl, !eqb_reflx, strs_eqb_refl, oios_eqb_refl, patch_eqb_refl, status_eqb_refl, Hns.
  assert (Hex : Bool.eqb (bc_extra c) (negb (style_is (Some (if bc_extra c then "canary" else "partition")) "partition")) = true)
    by (destruct (bc_extra c); reflexivity).
  rewrite Hex.
  assert (Htr : (bc_trref c =? match (if sempty (bc_trref c) then b_trref b else Some (bc_trref c)) with Some t => t | None => "" end)%string = true).
  { destruct (sempty (bc_trref c)) eqn:E; [|apply String.eqb_refl]. cbn in Hanno.
    destruct (bc_trref c); [|discriminate]. destruct (b_trref b) as [t|]; [|reflexivity]. destruct t; [reflexivity|discriminate]. }
  rewrite Htr.
  assert (Hsteps' : list_eqb beta_step_rmw (bc_steps c) (map to_beta_step (map to_alpha_step (bc_steps c))) = true).
  { clear -Hsteps. induction (bc_steps c) as [|s l IH]; [reflexivity|]. cbn in *. apply andb_true_iff in Hsteps. destruct Hsteps as [Hs Hl].
    apply andb_true_iff in Hs. destruct Hs as [Ht Hm]. rewrite beta_step_rmw_holds, IH; auto. }
  rewrite Hsteps'. reflexivity.
Qed.

(* C20: a v1alpha1 BatchRelease reads back with the same meaning (rollingStyle drawn from the documented enum) *)
Theorem br_alpha_roundtrip a : In (ab_rolling a) [""; "Canary"; "Partition"; "BlueGreen"] ->
  exists b, br_to_beta a = Ok b /\ br_same a (br_to_alpha b) = true.
Proof.
  intros Hr. eexists. split; [reflexivity|]. unfold br_same, br_style, style_class, br_to_alpha. cbn [ab_style ab_wref ab_plan ab_rolling ab_extra ab_status bb_style bb_wref bb_plan bb_rolling bb_extra bb_status].
  rewrite wref_eqb_refl, !String.eqb_refl, eqb_reflx. rewrite !andb_true_r.
  destruct (style_is (ab_style a) "bluegreen"); [reflexivity|].
  destruct (style_is (ab_style a) "canary"); [reflexivity|].
  destruct (style_is (ab_style a) "partition"); [reflexivity|].
  cbn in Hr. destruct Hr as [<-|[<-|[<-|[<-|[]]]]]; reflexivity.
Qed.
