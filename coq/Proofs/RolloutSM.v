(* Proofs about Model/RolloutSM.v (C02, C09, C10, C18). *)
From RV Require Import Base.Util Base.IntStr Model.RolloutSM Corr.RolloutSM.
From Coq Require Import ZifyBool.

Lemma sstate_eqb_refl s : sstate_eqb s s = true. Proof. destruct s; reflexivity. Qed.
Lemma sstate_eqb_eq a b : sstate_eqb a b = true -> a = b. Proof. destruct a, b; cbn; congruence. Qed.

(* ---------- the sub-state switch ---------- *)
Lemma canary_step_gated sp u w br cur u' br' rq :
  get_step sp (su_idx u) = Some cur -> canary_step sp u w br cur = COut u' br' rq ->
  (su_idx u' = su_idx u /\ su_state u' = su_state u) \/ gated_sub sp u w br u' = true.
Proof.
  intros Hcur H. unfold canary_step in H. destruct (su_state u) eqn:Hst.
  - inversion H; subst; clear H. right. unfold gated_sub. rewrite Hst. cbn. apply Z.eqb_refl.
  - unfold canary_upgrade in H. destruct br as [b|]; [|inversion H; subst; left; auto].
    destruct (negb (br_spec_eqb b _)) eqn:E1; [inversion H; subst; left; auto|].
    destruct (negb (br_consistent b)) eqn:E2; [inversion H; subst; left; auto|].
    destruct (negb (br_state_ready b) || (br_batch b + 1 <? su_idx u)) eqn:E3; [inversion H; subst; left; auto|].
    inversion H; subst; clear H. right. unfold gated_sub. rewrite Hst.
    apply negb_false_iff in E1, E2. apply orb_false_iff in E3. destruct E3 as [E3 E4]. apply negb_false_iff in E3.
    assert (Hr : br_ready_for sp u w (Some b) = true).
    { unfold br_ready_for. rewrite E1, E2, E3. cbn. apply Z.leb_le. apply Z.ltb_ge in E4. lia. }
    destruct (wl_replicas w <=? _); cbn -[br_ready_for]; rewrite Z.eqb_refl, Hr; reflexivity.
  - inversion H; subst; clear H. right. unfold gated_sub. rewrite Hst. cbn. apply Z.eqb_refl.
  - inversion H; subst; clear H. right. unfold gated_sub. rewrite Hst. cbn. apply Z.eqb_refl.
  - destruct ((nsteps sp =? su_idx u) && ios_eqb (sp_replicas cur) (IPct 100)) eqn:E1.
    + inversion H; subst; clear H. right. unfold gated_sub. rewrite Hst. cbn. rewrite Z.eqb_refl, Hcur, E1. reflexivity.
    + destruct (sp_pause cur) as [d|] eqn:Hp; [|inversion H; subst; left; auto].
      destruct (su_elapsed u || (d <=? 0)) eqn:He; [|inversion H; subst; left; auto].
      inversion H; subst; clear H. right. unfold gated_sub. rewrite Hst. cbn. rewrite Z.eqb_refl, Hcur, E1, Hp, He. reflexivity.
  - destruct (su_idx u <? nsteps sp) eqn:E1; inversion H; subst; clear H; right; unfold gated_sub; rewrite Hst; cbn.
    + rewrite Z.eqb_refl, E1. reflexivity.
    + rewrite Z.eqb_refl. cbn. apply Z.leb_le. apply Z.ltb_ge in E1. exact E1.
  - inversion H; subst; left; auto.
  - inversion H; subst; left; auto.
Qed.

(* projections that sync_br / fill_pth keep *)
Lemma sync_fill_keeps u0 br0 w : let u := fill_pth (fst (sync_br u0 br0)) w in
  su_idx u = su_idx u0 /\ su_state u = su_state u0 /\ su_next u = su_next u0 /\ su_elapsed u = su_elapsed u0 /\ su_obs_rid u = su_obs_rid u0.
Proof. unfold sync_br, fill_pth. destruct br0 as [b|]; cbn; destruct (sempty _); cbn; auto 10. Qed.
Lemma sync_br_is_synced u0 br0 : snd (sync_br u0 br0) = synced_br u0 br0.
Proof. unfold sync_br, synced_br. destruct br0 as [b|]; [|reflexivity]. cbn. destruct (String.eqb _ _); reflexivity. Qed.

Lemma gated_sub_ext sp u1 u2 w br v : su_idx u1 = su_idx u2 -> su_state u1 = su_state u2 -> su_elapsed u1 = su_elapsed u2 ->
  gated_sub sp u1 w br v = gated_sub sp u2 w br v.
Proof. intros H1 H2 H3. unfold gated_sub, br_ready_for. rewrite H1, H2, H3. reflexivity. Qed.

(* runCanary without a pending jump: the cursor stays or moves along the gated path *)
Theorem run_canary_gated sp u w br u' br' rq :
  run_canary sp u w br = COut u' br' rq ->
  (su_next u = next_index (nsteps sp) (su_idx u) \/ su_next u <= 0) ->
  (su_idx u' = su_idx u /\ su_state u' = su_state u) \/ gated_sub sp u w (synced_br u br) u' = true.
Proof.
  intros H Hnext. unfold run_canary in H. destruct (sync_br u br) as [u1 brs] eqn:Hs.
  pose proof (sync_fill_keeps u br w) as Hk. cbn zeta in Hk. rewrite Hs in Hk. cbn [fst] in Hk.
  destruct Hk as [Hi [Hst [Hn [He _]]]].
  pose proof (sync_br_is_synced u br) as Hsy. rewrite Hs in Hsy. cbn [snd] in Hsy. subst brs.
  set (u2 := fill_pth u1 w) in *.
  unfold do_jump in H. destruct (get_step sp (su_idx u2)) as [cur|] eqn:Hcur; [|discriminate].
  assert (Hnj : negb (su_next u2 =? next_index (nsteps sp) (su_idx u2)) && (0 <? su_next u2) = false).
  { rewrite Hn, Hi. destruct Hnext as [Hx|Hx]; [rewrite Hx, Z.eqb_refl; reflexivity|].
    apply andb_false_iff. right. apply Z.ltb_ge. exact Hx. }
  rewrite Hnj in H.
  destruct (canary_step_gated sp u2 w (synced_br u br) cur u' br' rq Hcur H) as [[A B]|G].
  - left. rewrite A, B. auto.
  - right. rewrite <- (gated_sub_ext sp u2 u w (synced_br u br) u' Hi Hst He). exact G.
Qed.

(* ---------- calculateRolloutStatus keeps the cursor ---------- *)
Lemma observed_sub_keeps w u : let u1 := observed_sub w u in
  su_idx u1 = su_idx u /\ su_state u1 = su_state u /\ su_next u1 = su_next u /\ su_elapsed u1 = su_elapsed u /\
  su_hash u1 = su_hash u /\ su_canary_rev u1 = su_canary_rev u /\ su_fin u1 = su_fin u.
Proof. unfold observed_sub. destruct (_ && _); cbn; auto 10. Qed.

Lemma calc_status_sub sp st w s u : calc_status sp st w = CalcStatus s -> rp_sub st = Some u ->
  rs_deleting sp = false -> rp_phase st = RpProgressing ->
  rp_sub s = None \/ (rp_sub s = Some (observed_sub w u) /\ rp_prog s = rp_prog st).
Proof.
  unfold calc_status. intros H Hu Hdel Hph. rewrite Hdel, Hph in H. cbn [rphase_eqb negb andb] in H. rewrite !andb_true_r in H.
  destruct (negb (wl_exists w)) eqn:Hex.
  { inversion H; subst; clear H. apply negb_true_iff in Hex. destruct (rs_disabled sp); cbn; [|left; reflexivity].
    right. unfold observed_sub. rewrite Hex. cbn. auto. }
  destruct (negb (wl_consistent w)) eqn:Hco; [discriminate|].
  apply negb_false_iff in Hex, Hco. inversion H; subst; clear H. right.
  unfold observed_sub. rewrite Hex, Hco. cbn [andb].
  destruct (rs_disabled sp); cbn [rp_sub set_rphase rp_phase rphase_eqb]; rewrite Hu;
  destruct (negb (sempty (su_canary_rev u)) && (su_canary_rev u =? wl_canary w)%string); cbn; rewrite ?Hu; auto.
Qed.

Lemma synced_br_ext a b br : su_obs_rid a = su_obs_rid b -> synced_br a br = synced_br b br.
Proof. intros H. unfold synced_br. rewrite H. reflexivity. Qed.

(* C02: while the Rollout is rolling and nobody asked for anything else (no step jump pending, plan unchanged, same
   revision being released), one reconcile either leaves the step cursor where it is or moves it along the gated path:
   upgrade only after the BatchRelease for exactly this step reports Ready, pause only through the timed gate or a full
   last step, next step / completion only from StepReady *)
Theorem steps_are_gated sp st w br m u x y :
  reconcile sp st w br = ROut m ->
  rp_phase st = RpProgressing -> rs_deleting sp = false ->
  rp_prog st = Some (PrInRolling, x, y) -> rp_sub st = Some u ->
  (su_next u = next_index (nsteps sp) (su_idx u) \/ su_next u <= 0) ->
  (sempty (su_hash u) = true \/ su_hash u = rs_hash sp) ->
  wl_canary w = su_canary_rev u ->
  forall s' v, o_status m = Some s' -> rp_sub s' = Some v ->
  (su_idx v = su_idx u /\ su_state v = su_state u) \/
  gated_sub sp (observed_sub w u) w (synced_br (observed_sub w u) br) v = true.
Proof.
  intros H Hph Hdel Hprog Hu Hnext Hhash Hrev s' v Hs' Hv.
  pose proof (observed_sub_keeps w u) as Hk. cbn zeta in Hk. destruct Hk as [Ki [Kst [Kn [Ke [Kh [Kc Kf]]]]]].
  unfold reconcile in H. destruct (calc_status sp st w) as [|s] eqn:Hcalc.
  { inversion H; subst. cbn in Hs'. discriminate. }
  rewrite Hph in H.
  destruct (progressing sp st s w br) as [| |po] eqn:Hp; try discriminate.
  { inversion H; subst. cbn in Hs'. discriminate. }
  inversion H; subst; clear H. cbn in Hs'. inversion Hs'; subst s'; clear Hs'.
  destruct (calc_status_sub _ _ _ _ _ Hcalc Hu Hdel Hph) as [Hnone|[Hsome Hsp]].
  - (* the sub-status was reset (workload gone): no cursor to speak of, or the reconcile stops *)
    unfold progressing in Hp. rewrite Hprog in Hp.
    destruct (negb (wl_exists w) || negb (wl_consistent w)).
    + inversion Hp; subst. cbn in Hv. congruence.
    + unfold in_rolling in Hp. rewrite Hu, Hnone in Hp. discriminate.
  - unfold progressing in Hp. rewrite Hprog in Hp.
    destruct (negb (wl_exists w) || negb (wl_consistent w)).
    { inversion Hp; subst. cbn in Hv. rewrite Hsome in Hv. inversion Hv; subst. left. auto. }
    unfold in_rolling in Hp. rewrite Hu, Hsome in Hp.
    assert (Hrd : negb (String.eqb (wl_canary w) (su_canary_rev u)) = false) by (rewrite Hrev, String.eqb_refl; reflexivity).
    rewrite Hrd in Hp. rewrite !andb_false_r in Hp. cbn [andb] in Hp.
    destruct (rs_paused sp).
    { inversion Hp; subst. cbn in Hv. rewrite Hsome in Hv. inversion Hv; subst. left. auto. }
    assert (Hhc : negb (sempty (su_hash u)) && negb (String.eqb (su_hash u) (rs_hash sp)) = false).
    { destruct Hhash as [He|He]; [rewrite He; reflexivity|rewrite He, String.eqb_refl; apply andb_false_r]. }
    rewrite Hhc in Hp.
    destruct (sstate_eqb (su_state (observed_sub w u)) StCompleted).
    { inversion Hp; subst. cbn in Hv. rewrite Hsome in Hv. inversion Hv; subst. left. auto. }
    set (nx := if (su_next u <=? 0) || (nsteps sp <? su_next u) then next_index (nsteps sp) (su_idx u) else su_next u) in *.
    set (u2 := upd_sub (observed_sub w u) (su_idx (observed_sub w u)) nx (su_state (observed_sub w u)) (su_fin (observed_sub w u)) (su_elapsed (observed_sub w u))) in *.
    destruct (run_canary sp u2 w br) as [|u' br' rq] eqn:Hrun; [discriminate|].
    inversion Hp; subst; clear Hp. cbn in Hv. inversion Hv; subst v; clear Hv.
    assert (Hnx : su_next u2 = next_index (nsteps sp) (su_idx u2) \/ su_next u2 <= 0).
    { left. unfold u2. cbn. rewrite Ki. unfold nx. destruct Hnext as [Hx|Hx].
      - rewrite Hx. match goal with |- (if ?c then _ else _) = _ => destruct c; reflexivity end.
      - replace (su_next u <=? 0) with true by (symmetry; apply Z.leb_le; exact Hx). reflexivity. }
    destruct (run_canary_gated _ _ _ _ _ _ _ Hrun Hnx) as [[A B]|G].
    + left. unfold u2 in A, B. cbn in A, B. rewrite A, B, Ki, Kst. auto.
    + right. rewrite (gated_sub_ext sp (observed_sub w u) u2 w _ u') by (unfold u2; cbn; auto).
      rewrite (synced_br_ext (observed_sub w u) u2 br) by (unfold u2; cbn; auto). exact G.
Qed.

(* ---------- C18: the Rollout's finalizer ---------- *)
Theorem finalizer_guard sp st w br m : reconcile sp st w br = ROut m -> o_finalizer m = false ->
  rs_deleting sp = true /\ (rp_term st = Some true \/ rs_finalizer sp = false).
Proof.
  unfold reconcile. intros H Hf.
  assert (Hfin : (if rs_deleting sp then (if match rp_term st with Some true => true | _ => false end then false else rs_finalizer sp) else true) = false).
  { destruct (calc_status sp st w); [inversion H; subst; exact Hf|].
    destruct (rp_phase st); try (inversion H; subst; exact Hf).
    - destruct (progressing sp st s w br); try discriminate; inversion H; subst; exact Hf.
    - destruct (rp_term st) as [[|]|]; try discriminate; [inversion H; subst; exact Hf|].
      destruct (wl_exists w && negb (wl_consistent w)); [inversion H; subst; exact Hf|].
      destruct (do_finalising _ _ _ _ _ _) as [[[d s1] b'] a]. inversion H; subst; exact Hf.
    - destruct (wl_exists w && negb (wl_consistent w)); [inversion H; subst; exact Hf|].
      destruct (do_finalising _ _ _ _ _ _) as [[[d s1] b'] a]. inversion H; subst; exact Hf. }
  destruct (rs_deleting sp); [|discriminate]. split; [reflexivity|].
  destruct (rp_term st) as [[|]|]; auto.
Qed.

(* ---------- C02: no forward progress while paused ---------- *)
Theorem paused_no_progress sp st w br m u x y :
  reconcile sp st w br = ROut m ->
  rp_phase st = RpProgressing -> rs_deleting sp = false -> rs_paused sp = true ->
  rp_prog st = Some (PrInRolling, x, y) -> rp_sub st = Some u ->
  (wl_in_rollback w && negb (String.eqb (wl_canary w) (su_canary_rev u)) && negb (rs_rollback_in_batch sp)) = false ->
  o_br m = br /\
  forall s' v, o_status m = Some s' -> rp_sub s' = Some v -> su_idx v = su_idx u /\ su_state v = su_state u.
Proof.
  intros H Hph Hdel Hpa Hprog Hu Hrb.
  pose proof (observed_sub_keeps w u) as Hk. cbn zeta in Hk. destruct Hk as [Ki [Kst _]].
  unfold reconcile in H. destruct (calc_status sp st w) as [|s] eqn:Hcalc.
  { inversion H; subst. cbn. split; [reflexivity|]. intros s' v Hs'. discriminate. }
  rewrite Hph in H. destruct (progressing sp st s w br) as [| |po] eqn:Hp; try discriminate.
  { inversion H; subst. cbn. split; [reflexivity|]. intros s' v Hs'. discriminate. }
  inversion H; subst; clear H. cbn.
  unfold progressing in Hp. rewrite Hprog in Hp.
  destruct (calc_status_sub _ _ _ _ _ Hcalc Hu Hdel Hph) as [Hnone|[Hsome _]].
  - destruct (negb (wl_exists w) || negb (wl_consistent w)).
    + inversion Hp; subst. cbn. split; [reflexivity|]. intros s' v Hs' Hv. inversion Hs'; subst. congruence.
    + unfold in_rolling in Hp. rewrite Hu, Hnone in Hp. discriminate.
  - destruct (negb (wl_exists w) || negb (wl_consistent w)).
    { inversion Hp; subst. cbn. split; [reflexivity|]. intros s' v Hs' Hv. inversion Hs'; subst. rewrite Hsome in Hv. inversion Hv; subst. auto. }
    unfold in_rolling in Hp. rewrite Hu, Hsome, Hrb, Hpa in Hp. inversion Hp; subst; clear Hp. cbn.
    split; [reflexivity|]. intros s' v Hs' Hv. inversion Hs'; subst. cbn in Hv. rewrite Hsome in Hv. inversion Hv; subst. auto.
Qed.

Lemma calc_status_sub_exists sp st w s u : calc_status sp st w = CalcStatus s -> rp_sub st = Some u ->
  rs_deleting sp = false -> rp_phase st = RpProgressing -> wl_exists w = true ->
  rp_sub s = Some (observed_sub w u) /\ rp_prog s = rp_prog st.
Proof.
  unfold calc_status. intros H Hu Hdel Hph Hex. rewrite Hdel, Hph, Hex in H. cbn [rphase_eqb negb andb] in H. rewrite !andb_true_r in H.
  destruct (negb (wl_consistent w)) eqn:Hco; [discriminate|].
  apply negb_false_iff in Hco. inversion H; subst; clear H.
  unfold observed_sub. rewrite Hex, Hco. cbn [andb].
  destruct (rs_disabled sp); cbn [rp_sub set_rphase rp_phase rphase_eqb]; rewrite Hu;
  destruct (negb (sempty (su_canary_rev u)) && (su_canary_rev u =? wl_canary w)%string); cbn; rewrite ?Hu; auto.
Qed.

Lemma calc_not_retry sp st w : wl_consistent w = true -> calc_status sp st w <> CalcRetry.
Proof. intros Hco. unfold calc_status. rewrite Hco. cbn [negb].
  destruct (rs_deleting sp); [discriminate|]. destruct (negb (wl_exists w)); discriminate. Qed.

(* ---------- C10: rollback and supersession dispatch ---------- *)
(* a direct rollback is answered by Cancelling without any write to the BatchRelease in that reconcile *)
Theorem rollback_cancels_first sp st w br m u x y :
  reconcile sp st w br = ROut m ->
  rp_phase st = RpProgressing -> rs_deleting sp = false ->
  rp_prog st = Some (PrInRolling, x, y) -> rp_sub st = Some u ->
  wl_exists w = true -> wl_consistent w = true ->
  wl_in_rollback w = true -> wl_canary w <> su_canary_rev u -> rs_rollback_in_batch sp = false ->
  o_br m = br /\ exists s' e, o_status m = Some s' /\ rp_prog s' = Some (PrCancelling, true, e).
Proof.
  intros H Hph Hdel Hprog Hu Hex Hco Hrb Hrev Hpol.
  unfold reconcile in H. destruct (calc_status sp st w) as [|s] eqn:Hcalc.
  { exfalso. eapply calc_not_retry; eauto. }
  rewrite Hph in H. unfold progressing in H. rewrite Hprog, Hex, Hco in H. cbn [negb orb] in H.
  destruct (calc_status_sub_exists _ _ _ _ _ Hcalc Hu Hdel Hph Hex) as [Hsome Hsp].
  unfold in_rolling in H. rewrite Hu, Hsome, Hrb, Hpol in H.
  assert (Hd : negb (String.eqb (wl_canary w) (su_canary_rev u)) = true).
  { apply negb_true_iff. apply String.eqb_neq. exact Hrev. }
  rewrite Hd in H. cbn [andb negb] in H. inversion H; subst; clear H. cbn. split; [reflexivity|].
  eexists. eexists. split; [reflexivity|]. cbn. rewrite Hsp, Hprog. reflexivity.
Qed.

(* a newer revision: the BatchRelease is deleted first; the status is reset to Initializing (step one) only once it is gone *)
Theorem supersession_resets_after_cleanup sp st w br m u x y :
  reconcile sp st w br = ROut m ->
  rp_phase st = RpProgressing -> rs_deleting sp = false -> rs_paused sp = false ->
  rp_prog st = Some (PrInRolling, x, y) -> rp_sub st = Some u ->
  wl_exists w = true -> wl_consistent w = true ->
  wl_in_rollback w = false -> sempty (su_canary_rev u) = false -> wl_canary w <> su_canary_rev u ->
  match br with
  | Some b => o_br m = Some (mark_deleting b) /\ exists s', o_status m = Some s' /\ rp_sub s' <> None /\ o_requeue m = true
  | None => o_br m = None /\ exists s' e, o_status m = Some s' /\ rp_sub s' = None /\ rp_prog s' = Some (PrInitializing, true, e)
  end.
Proof.
  intros H Hph Hdel Hpa Hprog Hu Hex Hco Hrb Hne Hrev.
  unfold reconcile in H. destruct (calc_status sp st w) as [|s] eqn:Hcalc.
  { exfalso. eapply calc_not_retry; eauto. }
  rewrite Hph in H. unfold progressing in H. rewrite Hprog, Hex, Hco in H. cbn [negb orb] in H.
  destruct (calc_status_sub_exists _ _ _ _ _ Hcalc Hu Hdel Hph Hex) as [Hsome Hsp].
  unfold in_rolling in H. rewrite Hu, Hsome, Hrb, Hpa, Hne in H.
  assert (Hd : negb (String.eqb (wl_canary w) (su_canary_rev u)) = true).
  { apply negb_true_iff. apply String.eqb_neq. exact Hrev. }
  rewrite Hd in H. cbn [andb negb] in H. unfold remove_br in H.
  destruct br as [b|].
  - destruct (br_deleting b) eqn:Hbd; inversion H; subst; clear H; cbn.
    + split; [destruct b; cbn in *; rewrite Hbd; reflexivity|]. eexists. split; [reflexivity|]. split; [rewrite Hsome; discriminate|reflexivity].
    + split; [reflexivity|]. eexists. split; [reflexivity|]. split; [rewrite Hsome; discriminate|reflexivity].
  - inversion H; subst; clear H; cbn. split; [reflexivity|].
    exists (set_prog (set_sub s None) PrInitializing true), y. split; [reflexivity|]. split; [reflexivity|].
    unfold set_prog, set_sub. cbn. rewrite Hsp, Hprog. reflexivity.
Qed.

(* ---------- C09: no reachable status, and no value of the user-editable nextStepIndex, makes the reconcile panic ---------- *)
Lemma znth_some {A} (l : list A) i : 0 <= i < zlen l -> exists x, znth l i = Some x.
Proof. intros H. unfold znth, zlen in *. destruct (i <? 0) eqn:E0; [apply Z.ltb_lt in E0; lia|].
  destruct (nth_error l (Z.to_nat i)) eqn:E; [eauto|]. apply nth_error_None in E. lia. Qed.
Lemma get_step_some sp i : 1 <= i <= nsteps sp -> exists c, get_step sp i = Some c.
Proof. intros H. unfold get_step, nsteps in *. apply znth_some. lia. Qed.

Lemma recalc_go_range sp cur rep : forall l last, (forall i, In i l -> 0 <= i < nsteps sp) ->
  (l <> [] \/ 1 <= last <= nsteps sp) -> 1 <= recalc_go sp cur rep l last <= nsteps sp.
Proof.
  induction l as [|i r IH]; intros last Hin Hne; cbn.
  - destruct Hne as [H|H]; [congruence|exact H].
  - assert (Hi : 0 <= i < nsteps sp) by (apply Hin; left; reflexivity).
    assert (Hrec : 1 <= recalc_go sp cur rep r (i + 1) <= nsteps sp).
    { apply IH; [intros j Hj; apply Hin; right; exact Hj|right; lia]. }
    destruct (znth (rs_steps sp) i); [destruct (cur <=? _); [lia|exact Hrec]|exact Hrec].
Qed.
Lemma zseq_range n : forall s i, In i (zseq s n) -> s <= i < s + Z.of_nat n.
Proof. induction n as [|n IH]; intros s i H; cbn in H; [destruct H|]. destruct H as [<-|H]; [lia|]. apply IH in H. lia. Qed.
Lemma recalc_order_range sp ci : 0 < nsteps sp -> (forall i, In i (recalc_order sp ci) -> 0 <= i < nsteps sp) /\ recalc_order sp ci <> [].
Proof.
  intros Hn. unfold recalc_order. split.
  - intros i H. apply in_app_or in H. destruct H as [H|H].
    + destruct ((0 <=? ci) && (ci <? nsteps sp)) eqn:E; [|destruct H]. destruct H as [<-|[]]. lia.
    + apply filter_In in H. destruct H as [H _]. apply zseq_range in H. lia.
  - destruct ((0 <=? ci) && (ci <? nsteps sp)) eqn:E; [discriminate|]. cbn [app].
    (* ci is outside 0..n-1, so index 0 survives the filter *)
    assert (H0 : In 0 (filter (fun i => negb (i =? ci)) (zseq 0 (Z.to_nat (nsteps sp))))).
    { apply filter_In. split.
      - destruct (Z.to_nat (nsteps sp)) eqn:En; [lia|]. cbn. left. reflexivity.
      - apply negb_true_iff. apply Z.eqb_neq. intros Hc. subst ci. cbn in E. lia. }
    intros Habs. rewrite Habs in H0. destruct H0.
Qed.

Lemma do_jump_some sp u : 1 <= su_idx u <= nsteps sp ->
  (su_next u = next_index (nsteps sp) (su_idx u) \/ su_next u <= 0 \/ 1 <= su_next u <= nsteps sp) ->
  do_jump sp u <> None.
Proof.
  intros Hi Hn. unfold do_jump. destruct (get_step_some sp (su_idx u) Hi) as [c ->].
  destruct (negb (su_next u =? next_index (nsteps sp) (su_idx u)) && (0 <? su_next u)) eqn:E; [|discriminate].
  apply andb_true_iff in E. destruct E as [E1 E2]. apply negb_true_iff, Z.eqb_neq in E1. apply Z.ltb_lt in E2.
  destruct Hn as [H|[H|H]]; try lia. destruct (get_step_some sp (su_next u) H) as [c' ->]. discriminate.
Qed.

Lemma canary_step_no_panic sp u w br cur : canary_step sp u w br cur <> CPanic.
Proof. unfold canary_step, canary_upgrade. destruct (su_state u); try discriminate;
  repeat match goal with |- context [match ?x with _ => _ end] => destruct x end; discriminate. Qed.

Lemma run_canary_no_panic sp u w br : 1 <= su_idx u <= nsteps sp ->
  (su_next u = next_index (nsteps sp) (su_idx u) \/ su_next u <= 0 \/ 1 <= su_next u <= nsteps sp) ->
  run_canary sp u w br <> CPanic.
Proof.
  intros Hi Hn. unfold run_canary. destruct (sync_br u br) as [u1 brs] eqn:Hs.
  pose proof (sync_fill_keeps u br w) as Hk. cbn zeta in Hk. rewrite Hs in Hk. cbn [fst] in Hk. destruct Hk as [Ki [_ [Kn _]]].
  set (u2 := fill_pth u1 w) in *.
  assert (Hj : do_jump sp u2 <> None) by (apply do_jump_some; rewrite ?Ki, ?Kn; auto).
  destruct (do_jump sp u2) as [[u'|]|]; [discriminate| |congruence].
  destruct (get_step_some sp (su_idx u2)) as [c Hc]; [rewrite Ki; exact Hi|]. rewrite Hc. apply canary_step_no_panic.
Qed.

Record rollout_wf (sp : ro_spec) (st : ro_status) (br : option brel) : Prop := {
  wf_steps : 0 < nsteps sp;
  wf_prog : rp_phase st = RpProgressing -> exists r a b, rp_prog st = Some (r, a, b) /\
            (r = PrInRolling -> exists u, rp_sub st = Some u /\ 1 <= su_idx u <= nsteps sp);
  wf_term : rp_phase st = RpTerminating -> rp_term st <> None;
  (* the BatchRelease the Rollout owns carries a batchPartition inside its own plan *)
  wf_br : match br with Some b => exists p, br_partition b = Some p /\ 0 <= p < zlen (br_batches b) | None => True end
}.

Lemma calc_status_sub_any sp st w s u : calc_status sp st w = CalcStatus s -> rp_sub st = Some u -> rp_phase st = RpProgressing ->
  wl_exists w = true ->
  exists u1, rp_sub s = Some u1 /\ su_idx u1 = su_idx u /\ su_next u1 = su_next u /\ su_state u1 = su_state u.
Proof.
  intros H Hu Hph Hex. destruct (rs_deleting sp) eqn:Hdel.
  - unfold calc_status in H. rewrite Hdel, Hph in H. cbn in H. inversion H; subst. cbn. exists u. auto.
  - destruct (calc_status_sub_exists _ _ _ _ _ H Hu Hdel Hph Hex) as [Hs _]. exists (observed_sub w u). split; [exact Hs|].
    pose proof (observed_sub_keeps w u) as Hk. cbn zeta in Hk. tauto.
Qed.

Theorem reconcile_no_panic sp st w br : rollout_wf sp st br -> reconcile sp st w br <> RPanic.
Proof.
  intros [Hn Hprog Hterm Hbr]. unfold reconcile.
  destruct (calc_status sp st w) as [|s] eqn:Hcalc; [discriminate|].
  destruct (rp_phase st) eqn:Hph; try discriminate.
  - (* Progressing *)
    destruct (Hprog eq_refl) as [r [a [b [Hp Hroll]]]].
    assert (Hok : progressing sp st s w br <> PPanic).
    { unfold progressing. rewrite Hp.
      destruct (negb (wl_exists w) || negb (wl_consistent w)) eqn:Hwe; [discriminate|].
      apply orb_false_iff in Hwe. destruct Hwe as [Hex _]. apply negb_false_iff in Hex.
      destruct r; try discriminate.
      - (* Initializing *) cbv zeta. match goal with |- context [if ?c then _ else _] => destruct c end; discriminate.
      - (* InRolling *)
        destruct (Hroll eq_refl) as [u [Hu Hidx]].
        destruct (calc_status_sub_any _ _ _ _ _ Hcalc Hu Hph Hex) as [u1 [Hs1 [Ki [Kn Kst]]]].
        unfold in_rolling. rewrite Hu, Hs1.
        repeat match goal with |- context [if ?c then _ else _] => destruct c eqn:? end; try discriminate.
        all: try (destruct (remove_br br) as [[|] ?]; discriminate).
        all: match goal with
        | |- context [recalc_step] =>
          (* plan changed *)
          unfold recalc_step; destruct br as [bb|];
          [ destruct Hbr as [p [Hpp Hpr]]; rewrite Hpp; destruct (znth_some (br_batches bb) p Hpr) as [cr ->];
            match goal with |- context [recalc_go ?a ?b ?c ?d ?e] => set (ni := recalc_go a b c d e) end;
            assert (Hni : 1 <= ni <= nsteps sp) by
              (unfold ni; destruct (recalc_order_range sp (su_idx u1 - 1) Hn) as [Hr1 Hr2]; apply recalc_go_range; auto);
            destruct (su_next u1 =? ni); [discriminate|];
            match goal with |- context [do_jump _ ?uu] => assert (Hj : do_jump sp uu <> None) by (apply do_jump_some; cbn; rewrite ?Ki; auto) end;
            destruct (do_jump sp _) as [[u'|]|]; [discriminate|discriminate|congruence]
          | destruct (su_next u1 =? 1); [discriminate|];
            match goal with |- context [do_jump _ ?uu] => assert (Hj : do_jump sp uu <> None) by (apply do_jump_some; cbn; rewrite ?Ki; [exact Hidx|right; right; lia]) end;
            destruct (do_jump sp _) as [[u'|]|]; [discriminate|discriminate|congruence] ]
        | |- context [run_canary _ ?uu _ _] =>
          (* normal rolling: the corrected nextStepIndex is the regular next step, non-positive, or within the plan *)
          assert (Hr : run_canary sp uu w br <> CPanic) by
            (apply run_canary_no_panic; cbn; rewrite ?Ki; [exact Hidx|];
             first [ left; reflexivity
                   | match goal with H : (_ <=? 0) || (_ <? _) = false |- _ =>
                       apply orb_false_iff in H; destruct H as [E1 E2]; apply Z.leb_gt in E1; apply Z.ltb_ge in E2; right; right; lia end ]);
          destruct (run_canary sp uu w br); [congruence|discriminate]
        end.
      - destruct (do_finalising sp s w br FrSuccess true) as [[[d s1] b'] an]. destruct d; discriminate.
      - destruct (do_finalising sp s w br FrRollback false) as [[[d s1] b'] an]. destruct d; discriminate. }
    destruct (progressing sp st s w br); [congruence|discriminate|discriminate].
  - (* Terminating *)
    specialize (Hterm eq_refl). destruct (rp_term st) as [[|]|]; [discriminate| |congruence].
    destruct (wl_exists w && negb (wl_consistent w)); [discriminate|].
    destruct (do_finalising _ _ _ _ _ _) as [[[d s1] b'] an]. discriminate.
  - destruct (wl_exists w && negb (wl_consistent w)); [discriminate|].
    destruct (do_finalising _ _ _ _ _ _) as [[[d s1] b'] an]. discriminate.
Qed.

(* ---------- C18 / C05: an exit is declared finished only when the BatchRelease is gone ---------- *)
Lemma finalise_done_clean sp u w br r wr u' br' :
  finalise sp u w br r wr = (true, u', br') -> su_fin u <> FtEnd -> release_not_yet_done r (su_fin u) = true -> br' = None.
Proof.
  unfold finalise. intros H Hne Hrel.
  destruct (su_fin u) eqn:Hf; try congruence; destruct r; cbn in H, Hrel; try discriminate;
  repeat match type of H with
  | context [match ?x with _ => _ end] => destruct x eqn:?; cbn in H; try discriminate
  | context [if ?c then _ else _] => destruct c eqn:?; cbn in H; try discriminate
  end; inversion H; subst; try reflexivity; try discriminate.
Qed.

(* whichever exit (success, rollback, delete, disable) is being finalised: the finalising sequence reports done only
   once the BatchRelease is gone, and the in-progress marker is removed from the workload in the same reconcile *)
Theorem do_finalising_done_clean sp s w br r wr u s1 br' anno :
  do_finalising sp s w br r wr = (true, s1, br', anno) -> rp_sub s = Some u -> su_fin u <> FtEnd ->
  release_not_yet_done r (su_fin u) = true ->
  br' = None /\ anno = (wl_exists w && wl_consistent w && wl_in_progress w).
Proof.
  unfold do_finalising. intros H Hu Hne Hrel. rewrite Hu in H.
  destruct (finalise sp u w br r wr) as [[d u'] b'] eqn:Hf. inversion H; subst. split; [|reflexivity].
  eapply finalise_done_clean; eauto.
Qed.

(* ---------- C18, the converse: the Rollout's teardown is neither blocked nor quiet ---------- *)
(* a reconcile of a Rollout in phase Terminating that keeps the finalizer asked for a requeue, or has just recorded the
   Terminating condition as Completed *)
Theorem rollout_teardown_never_stalls sp st w br m :
  rs_deleting sp = true -> rp_phase st = RpTerminating -> reconcile sp st w br = ROut m -> o_finalizer m = true ->
  o_requeue m = true \/ (rp_term st = Some false /\ exists s', o_status m = Some s' /\ rp_term s' = Some true).
Proof.
  intros Hd Hph H Hf. unfold reconcile in H. rewrite Hd in H.
  destruct (calc_status sp st w) as [|s] eqn:Hc.
  { injection H as <-. left. reflexivity. }
  rewrite Hph in H. destruct (rp_term st) as [[|]|] eqn:Ht; [|destruct (wl_exists w && negb (wl_consistent w))|discriminate].
  - injection H as <-. cbn in Hf. discriminate.
  - injection H as <-. left. reflexivity.
  - destruct (do_finalising sp s w br FrDelete false) as [[[done s1] br'] anno]. injection H as <-. cbn.
    destruct done; [right; split; [reflexivity|]; eexists; split; reflexivity | left; reflexivity].
Qed.
(* and once the condition says Completed, the next reconcile gives the finalizer up: deletion is not blocked *)
Theorem rollout_deletion_not_blocked sp st w br m :
  rs_deleting sp = true -> rp_term st = Some true -> reconcile sp st w br = ROut m -> o_finalizer m = false.
Proof.
  intros Hd Ht H. unfold reconcile in H. rewrite Hd, Ht in H.
  destruct (calc_status sp st w) as [|s]; [injection H as <-; reflexivity|].
  destruct (rp_phase st); try (injection H as <-; reflexivity).
  - destruct (progressing sp st s w br); [discriminate|injection H as <-; reflexivity|injection H as <-; reflexivity].
  - destruct (wl_exists w && negb (wl_consistent w)); [injection H as <-; reflexivity|].
    destruct (do_finalising sp s w br FrDisabled false) as [[[done s1] br'] anno]. injection H as <-. reflexivity.
Qed.

(* ---------- C07: a quiet reconcile is waiting for somebody else ---------- *)
Lemma list_eqb_refl' {A} (e : A -> A -> bool) (l : list A) : (forall x, e x x = true) -> list_eqb e l l = true.
Proof. intros H. induction l as [|a l IH]; cbn; [reflexivity|]. rewrite H, IH. reflexivity. Qed.
Lemma ios_eqb_refl' v : ios_eqb v v = true.
Proof. destruct v; cbn; rewrite ?Z.eqb_refl; reflexivity. Qed.
Lemma br_spec_eqb_refl b : br_spec_eqb b b = true.
Proof.
  unfold br_spec_eqb. rewrite (list_eqb_refl' ios_eqb _ ios_eqb_refl'), !String.eqb_refl, eqb_reflx.
  destruct (br_partition b); cbn; rewrite ?Z.eqb_refl; destruct (br_ft b); cbn; rewrite ?ios_eqb_refl'; reflexivity.
Qed.

Lemma canary_step_quiet sp u w br cur u' br' :
  get_step sp (su_idx u) = Some cur -> canary_step sp u w br cur = COut u' br' false ->
  br' = br -> su_idx u' = su_idx u -> su_state u' = su_state u ->
  su_state u = StCompleted \/ waits_rolling sp u w br = true.
Proof.
  intros Hcur H Hbr Hi Hs. unfold canary_step in H. unfold waits_rolling. destruct (su_state u) eqn:Hst.
  - injection H as <- _. cbn in Hs. discriminate.
  - right. unfold canary_upgrade in H. unfold br_waiting. destruct br as [b|].
    + destruct (br_spec_eqb b _) eqn:E1; cbn [negb] in H.
      * destruct (br_consistent b) eqn:E2; cbn [negb] in H; [|rewrite andb_true_l; reflexivity].
        destruct (negb (br_state_ready b) || (br_batch b + 1 <? su_idx u)) eqn:E3.
        { rewrite andb_true_l. cbn [negb orb]. exact E3. }
        injection H as <- _. cbn in Hs. destruct (wl_replicas w <=? _); discriminate.
      * injection H as _ <-. injection Hbr as Hb. rewrite Hb, br_spec_eqb_refl in E1. discriminate.
    + injection H as _ <-. discriminate.
  - discriminate.
  - injection H as <- _. cbn in Hs. discriminate.
  - right. unfold manual_pause. rewrite Hcur. cbn [andb].
    destruct ((nsteps sp =? su_idx u) && ios_eqb (sp_replicas cur) (IPct 100)) eqn:E1.
    { injection H as <- _. cbn in Hs. discriminate. }
    cbn [negb andb]. destruct (sp_pause cur) as [d|]; [|reflexivity].
    destruct (su_elapsed u || (d <=? 0)); [injection H as <- _; cbn in Hs; discriminate|discriminate].
  - destruct (su_idx u <? nsteps sp); injection H as <- _; cbn in Hs; discriminate.
  - left. reflexivity.
  - right. reflexivity.
Qed.

Lemma waits_rolling_ext sp u1 u2 w br : su_idx u1 = su_idx u2 -> su_state u1 = su_state u2 ->
  waits_rolling sp u1 w br = waits_rolling sp u2 w br.
Proof. intros H1 H2. unfold waits_rolling, br_waiting, manual_pause. rewrite H1, H2. reflexivity. Qed.

Lemma run_canary_quiet sp u w br u' br' :
  run_canary sp u w br = COut u' br' false ->
  (su_next u = next_index (nsteps sp) (su_idx u) \/ su_next u <= 0) ->
  synced_br u br = br -> br' = br -> su_idx u' = su_idx u -> su_state u' = su_state u ->
  su_state u = StCompleted \/ waits_rolling sp u w br = true.
Proof.
  intros H Hnext Hal Hbr Hi' Hs'. unfold run_canary in H. destruct (sync_br u br) as [u1 brs] eqn:Hs.
  pose proof (sync_fill_keeps u br w) as Hk. cbn zeta in Hk. rewrite Hs in Hk. cbn [fst] in Hk.
  destruct Hk as [Hi [Hst [Hn [He _]]]].
  pose proof (sync_br_is_synced u br) as Hsy. rewrite Hs in Hsy. cbn [snd] in Hsy. rewrite Hal in Hsy. subst brs.
  set (u2 := fill_pth u1 w) in *.
  unfold do_jump in H. destruct (get_step sp (su_idx u2)) as [cur|] eqn:Hcur; [|discriminate].
  assert (Hnj : negb (su_next u2 =? next_index (nsteps sp) (su_idx u2)) && (0 <? su_next u2) = false).
  { rewrite Hn, Hi. destruct Hnext as [Hx|Hx]; [rewrite Hx, Z.eqb_refl; reflexivity|].
    apply andb_false_iff. right. apply Z.ltb_ge. exact Hx. }
  rewrite Hnj in H.
  destruct (canary_step_quiet sp u2 w br cur u' br' Hcur H Hbr) as [C|W].
  - rewrite Hi', Hi. reflexivity.
  - rewrite Hs', Hst. reflexivity.
  - left. rewrite <- Hst. exact C.
  - right. rewrite <- (waits_rolling_ext sp u2 u w br Hi Hst). exact W.
Qed.

(* C07: while rolling (no user request pending, BatchRelease's rollout-id aligned), a reconcile that leaves the cursor, the
   Progressing reason and the BatchRelease alone and asks for no requeue is waiting for the BatchRelease controller, for
   an approval, or sits in a hand-written state -- or the workload is missing / lagging *)
Theorem quiet_rolling_is_waiting sp st w br m u x y :
  reconcile sp st w br = ROut m ->
  rp_phase st = RpProgressing -> rs_deleting sp = false ->
  rp_prog st = Some (PrInRolling, x, y) -> rp_sub st = Some u ->
  (su_next u = next_index (nsteps sp) (su_idx u) \/ su_next u <= 0) ->
  (sempty (su_hash u) = true \/ su_hash u = rs_hash sp) ->
  wl_canary w = su_canary_rev u ->
  synced_br (observed_sub w u) br = br ->
  (* quiet *)
  o_requeue m = false -> o_br m = br ->
  (forall s', o_status m = Some s' -> rp_prog s' = rp_prog st /\ exists v, rp_sub s' = Some v /\ su_idx v = su_idx u /\ su_state v = su_state u) ->
  o_status m <> None ->
  wl_exists w = false \/ wl_consistent w = false \/
  waits_rolling sp (observed_sub w u) w br = true.
Proof.
  intros H Hph Hdel Hprog Hu Hnext Hhash Hrev Hal Hrq Hbr Hq Hsome'.
  pose proof (observed_sub_keeps w u) as Hk. cbn zeta in Hk. destruct Hk as [Ki [Kst [Kn [Ke [Kh [Kc Kf]]]]]].
  unfold reconcile in H. destruct (calc_status sp st w) as [|s] eqn:Hcalc.
  { injection H as <-. cbn in Hsome'. congruence. }
  rewrite Hph in H.
  destruct (progressing sp st s w br) as [| |po] eqn:Hp; try discriminate.
  { injection H as <-. cbn in Hsome'. congruence. }
  injection H as <-. cbn in Hrq, Hbr, Hq. clear Hsome'.
  destruct (Hq _ eq_refl) as [Hqp [v [Hv [Hvi Hvs]]]]. clear Hq.
  destruct (wl_exists w) eqn:Hex; [|left; reflexivity].
  destruct (wl_consistent w) eqn:Hco; [|right; left; reflexivity].
  right. right.
  destruct (calc_status_sub _ _ _ _ _ Hcalc Hu Hdel Hph) as [Hnone|[Hsome Hsp]].
  - unfold progressing in Hp. rewrite Hprog, Hex, Hco in Hp. cbn [negb orb] in Hp.
    unfold in_rolling in Hp. rewrite Hu, Hnone in Hp. discriminate.
  - unfold progressing in Hp. rewrite Hprog, Hex, Hco in Hp. cbn [negb orb] in Hp.
    unfold in_rolling in Hp. rewrite Hu, Hsome in Hp.
    assert (Hrd : negb (String.eqb (wl_canary w) (su_canary_rev u)) = false) by (rewrite Hrev, String.eqb_refl; reflexivity).
    rewrite Hrd in Hp. rewrite !andb_false_r in Hp. cbn [andb] in Hp.
    destruct (rs_paused sp).
    { injection Hp as <-. cbn in Hqp. rewrite Hprog in Hqp. discriminate. }
    assert (Hhc : negb (sempty (su_hash u)) && negb (String.eqb (su_hash u) (rs_hash sp)) = false).
    { destruct Hhash as [He|He]; [rewrite He; reflexivity|rewrite He, String.eqb_refl; apply andb_false_r]. }
    rewrite Hhc in Hp.
    destruct (sstate_eqb (su_state (observed_sub w u)) StCompleted) eqn:Hc.
    { injection Hp as <-. cbn in Hqp. rewrite Hprog in Hqp. discriminate. }
    set (nx := if (su_next u <=? 0) || (nsteps sp <? su_next u) then next_index (nsteps sp) (su_idx u) else su_next u) in *.
    set (u2 := upd_sub (observed_sub w u) (su_idx (observed_sub w u)) nx (su_state (observed_sub w u)) (su_fin (observed_sub w u)) (su_elapsed (observed_sub w u))) in *.
    destruct (run_canary sp u2 w br) as [|u' br' rq] eqn:Hrun; [discriminate|].
    injection Hp as <-. cbn in Hrq, Hbr, Hv. subst rq. injection Hv as <-.
    assert (Hnx : su_next u2 = next_index (nsteps sp) (su_idx u2) \/ su_next u2 <= 0).
    { left. unfold u2. cbn. rewrite Ki. unfold nx. destruct Hnext as [Hx|Hx].
      - rewrite Hx. match goal with |- (if ?c then _ else _) = _ => destruct c; reflexivity end.
      - replace (su_next u <=? 0) with true by (symmetry; apply Z.leb_le; exact Hx). reflexivity. }
    assert (Hal2 : synced_br u2 br = br) by (rewrite <- (synced_br_ext (observed_sub w u) u2 br) by (unfold u2; cbn; auto); exact Hal).
    destruct (run_canary_quiet sp u2 w br u' br' Hrun Hnx Hal2 Hbr) as [C|W].
    + unfold u2. cbn. rewrite Hvi, Ki. reflexivity.
    + unfold u2. cbn. rewrite Hvs, Kst. reflexivity.
    + unfold u2 in C. cbn in C. rewrite C in Hc. cbn in Hc. discriminate.
    + rewrite (waits_rolling_ext sp (observed_sub w u) u2 w br) by (unfold u2; cbn; auto). exact W.
Qed.

Lemma calc_status_prog sp st w s : calc_status sp st w = CalcStatus s -> rs_deleting sp = false -> rp_phase st = RpProgressing ->
  wl_exists w = true -> wl_consistent w = true ->
  rp_prog s = rp_prog st /\ (rp_phase s = RpProgressing \/ rp_phase s = RpDisabling).
Proof.
  unfold calc_status. intros H Hdel Hph Hex Hco. rewrite Hdel, Hph, Hex, Hco in H. cbn [rphase_eqb negb andb rp_phase] in H.
  rewrite !andb_true_r in H. injection H as <-.
  destruct (rs_disabled sp); cbn [rp_sub set_rphase rp_phase rphase_eqb];
  destruct (rp_sub st) as [u|]; cbn [rp_phase set_sub set_rphase rp_prog];
  try destruct (negb (sempty (su_canary_rev u)) && (su_canary_rev u =? wl_canary w)%string); cbn; auto.
Qed.

(* the other Progressing reasons: only "paused by the user" and an unknown reason are quiet *)
Theorem quiet_progressing_is_waiting sp st w br m reason x y :
  reconcile sp st w br = ROut m ->
  rp_phase st = RpProgressing -> rs_deleting sp = false ->
  rp_prog st = Some (reason, x, y) -> reason <> PrInRolling ->
  wl_exists w = true -> wl_consistent w = true ->
  o_requeue m = false ->
  (forall s', o_status m = Some s' -> rp_prog s' = rp_prog st /\ rp_phase s' = rp_phase st) -> o_status m <> None ->
  (reason = PrPaused /\ rs_paused sp = true) \/ reason = PrOther.
Proof.
  intros H Hph Hdel Hprog Hne Hex Hco Hrq Hq Hsome.
  unfold reconcile in H. destruct (calc_status sp st w) as [|s] eqn:Hcalc.
  { injection H as <-. cbn in Hsome. congruence. }
  destruct (calc_status_prog _ _ _ _ Hcalc Hdel Hph Hex Hco) as [Hsp Hsph].
  rewrite Hph in H.
  destruct (progressing sp st s w br) as [| |po] eqn:Hp; try discriminate.
  { injection H as <-. cbn in Hsome. congruence. }
  injection H as <-. cbn in Hrq, Hq. destruct (Hq _ eq_refl) as [Hqp Hqph]. clear Hq Hsome.
  unfold progressing in Hp. rewrite Hprog, Hex, Hco in Hp. cbn [negb orb] in Hp.
  destruct reason; try congruence.
  - (* Initializing *)
    cbn [rp_prog set_sub] in Hp. rewrite Hsp, Hprog in Hp.
    destruct y; injection Hp as <-; cbn in Hrq, Hqp; [rewrite Hprog in Hqp|]; discriminate.
  - destruct (do_finalising sp s w br FrSuccess true) as [[[d s1] b'] an].
    destruct d; injection Hp as <-; cbn in Hrq, Hqp; [rewrite Hprog in Hqp|]; discriminate.
  - left. split; [reflexivity|]. destruct (rs_paused sp); [reflexivity|].
    injection Hp as <-. cbn in Hqp. rewrite Hprog in Hqp. discriminate.
  - destruct (do_finalising sp s w br FrRollback false) as [[[d s1] b'] an].
    destruct d; injection Hp as <-; cbn in Hrq, Hqp; [rewrite Hprog in Hqp|]; discriminate.
  - injection Hp as <-. cbn in Hqph. rewrite Hph in Hqph. discriminate.
  - right. reflexivity.
Qed.

(* ---------- C02 over histories ----------
   A history: the controller reconciles again and again; before each reconcile the rest of the world (workload controller,
   BatchRelease controller, user) may have changed what it observes.  The persisted status is the only thing carried from one
   reconcile to the next (a crash loses nothing else); a reconcile that panics or writes no status leaves it as it was. *)
Record obs_env := { oe_w : wl; oe_br : option brel }.
Definition next_status (sp : ro_spec) (st : ro_status) (e : obs_env) : ro_status :=
  match reconcile sp st (oe_w e) (oe_br e) with
  | ROut m => match o_status m with Some s' => s' | None => st end
  | RPanic => st
  end.
Fixpoint trace (sp : ro_spec) (st : ro_status) (es : list obs_env) : list (ro_status * obs_env * ro_status) :=
  match es with
  | [] => []
  | e :: es' => let st' := next_status sp st e in (st, e, st') :: trace sp st' es'
  end.

(* every step of every history: while rolling without a pending user request, the cursor stays or moves along the gated path *)
Theorem every_history_is_gated sp : forall es st0 st e st',
  In (st, e, st') (trace sp st0 es) ->
  forall u x y, rp_phase st = RpProgressing -> rs_deleting sp = false ->
  rp_prog st = Some (PrInRolling, x, y) -> rp_sub st = Some u ->
  (su_next u = next_index (nsteps sp) (su_idx u) \/ su_next u <= 0) ->
  (sempty (su_hash u) = true \/ su_hash u = rs_hash sp) ->
  wl_canary (oe_w e) = su_canary_rev u ->
  forall v, rp_sub st' = Some v ->
  (su_idx v = su_idx u /\ su_state v = su_state u) \/
  gated_sub sp (observed_sub (oe_w e) u) (oe_w e) (synced_br (observed_sub (oe_w e) u) (oe_br e)) v = true.
Proof.
  induction es as [|e0 es IH]; intros st0 st e st' Hin; [destruct Hin|].
  cbn [trace] in Hin. destruct Hin as [E|Hin]; [|eapply IH; exact Hin].
  injection E as <- <- <-. intros u x y Hph Hdel Hprog Hu Hnext Hhash Hrev v Hv.
  unfold next_status in Hv. destruct (reconcile sp st0 (oe_w e0) (oe_br e0)) as [|m] eqn:Hr.
  { left. rewrite Hu in Hv. injection Hv as <-. auto. }
  destruct (o_status m) as [s'|] eqn:Hs.
  - eapply steps_are_gated; eauto.
  - left. rewrite Hu in Hv. injection Hv as <-. auto.
Qed.

(* ---------- C02 and plan edits ----------
   After an edit of the plan the rollout is re-positioned at the first step (the current one is tried first) whose replicas
   cover what is already released.  In particular: while the current step of the NEW plan still covers the released
   replicas, the rollout stays at that step -- the edit is no way around its pause. *)
Lemma recalc_current_step_covers sp u w b p cr cur :
  1 <= su_idx u <= nsteps sp -> br_partition b = Some p -> znth (br_batches b) p = Some cr ->
  get_step sp (su_idx u) = Some cur ->
  scaled true cr (wl_replicas w) <= scaled true (sp_replicas cur) (wl_replicas w) ->
  recalc_step sp u w (Some b) = Some (su_idx u).
Proof.
  intros Hi Hp Hcr Hcur Hle. unfold recalc_step. rewrite Hp, Hcr. f_equal.
  unfold recalc_order.
  replace ((0 <=? su_idx u - 1) && (su_idx u - 1 <? nsteps sp)) with true by (symmetry; apply andb_true_iff; split; [apply Z.leb_le|apply Z.ltb_lt]; lia).
  cbn [app recalc_go]. unfold get_step in Hcur. rewrite Hcur.
  replace (scaled true cr (wl_replicas w) <=? scaled true (sp_replicas cur) (wl_replicas w)) with true by (symmetry; apply Z.leb_le; exact Hle).
  lia.
Qed.
