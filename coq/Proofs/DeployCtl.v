(* Proofs about Model/DeployCtl.v (C17). *)
From RV Require Import Base.Util Base.IntStr Model.BatchArith Model.DeployCtl.
From Coq Require Import ZifyBool.

Lemma sumspec_nonneg l : (forall r, In r l -> 0 <= r_spec r) -> 0 <= sumspec l.
Proof. induction l as [|r l IH]; intros H; [cbn; lia|]. cbn [sumspec fold_right].
  pose proof (H r (or_introl eq_refl)) as H0. assert (H1 : 0 <= sumspec l) by (apply IH; intros; apply H; right; auto).
  unfold sumspec in H1. lia. Qed.

(* NewRSNewReplicas never exceeds max(current size, partition limit) while old pods exist, and never pushes the
   total above replicas + maxSurge *)
Lemma new_replicas_bounds d : 0 < sumspec (d_olds d) ->
  let x := new_rs_new_replicas d in
  x <= Z.max (r_spec (d_new d)) (limit d) /\
  (r_spec (d_new d) < x -> x + sumspec (d_olds d) <= d_n d + max_surge d).
Proof.
  intros Hold x. subst x. unfold new_rs_new_replicas.
  destruct (r_spec (d_new d) <? r_spec (d_new d) + sumspec (d_olds d)) eqn:E1; [|apply Z.ltb_ge in E1; lia].
  destruct (limit d <=? r_spec (d_new d)) eqn:E2; [lia|].
  destruct (d_n d + max_surge d <=? r_spec (d_new d) + sumspec (d_olds d)) eqn:E3; [lia|].
  apply Z.leb_gt in E2, E3. lia.
Qed.

(* the scale-down loop only shrinks the new ReplicaSet if it ever visits it *)
Lemma scale_slots_shrink_new get l : 0 <= get SNew -> forall m v, In (SNew, v) (scale_slots get l m) -> v <= get SNew.
Proof. intros Hn. induction l as [|y l IH]; intros m v H; cbn in H; [destruct H|].
  destruct (m <=? 0) eqn:Em; [destruct H|]. destruct (get y =? 0); [eapply IH; eauto|].
  destruct H as [H|H]; [inversion H; subst; apply Z.leb_gt in Em; lia|eapply IH; eauto]. Qed.

Lemma fold_apply_new l : forall d,
  r_spec (d_new (fold_left apply_slot l d)) =
  fold_left (fun acc xv => match fst xv with SNew => snd xv | SOld _ => acc end) l (r_spec (d_new d)).
Proof. induction l as [|[x v] l IH]; intros d; cbn [fold_left]; [reflexivity|]. rewrite IH. f_equal.
  unfold apply_slot. cbn [fst snd]. destruct x; reflexivity. Qed.
Lemma fold_new_bound (l : list (slot * Z)) B : forall acc, acc <= B -> (forall x v, In (x, v) l -> x = SNew -> v <= B) ->
  fold_left (fun acc xv => match fst xv with SNew => snd xv | SOld _ => acc end) l acc <= B.
Proof. induction l as [|[x v] l IH]; intros acc Ha H; cbn [fold_left]; [exact Ha|]. apply IH.
  - cbn [fst snd]. destruct x; [apply (H SNew v); [left; reflexivity|reflexivity]|exact Ha].
  - intros x' v' Hin. apply H. right. exact Hin. Qed.
Lemma fold_apply_olds_new_unchanged l d : d_n (fold_left apply_slot l d) = d_n d.
Proof. revert d. induction l as [|[x v] l IH]; intros d; cbn [fold_left]; [reflexivity|]. rewrite IH. unfold apply_slot. cbn. destruct x; reflexivity. Qed.

(* reconcileOldReplicaSets never grows the new ReplicaSet *)
Lemma reconcile_old_new_le d : 0 <= r_spec (d_new d) -> r_spec (d_new (reconcile_old d)) <= r_spec (d_new d).
Proof.
  intros Hn. unfold reconcile_old.
  repeat match goal with
  | |- context [if ?c then _ else _] => destruct c eqn:?
  | |- context [let '(_, _) := ?x in _] => destruct x eqn:?
  end; cbn [d_new set_olds r_spec]; try lia.
  all: rewrite fold_apply_new; apply fold_new_bound; [cbn; lia|].
  all: intros x v Hin ->; apply scale_slots_shrink_new in Hin; cbn; cbn in Hin; [exact Hin|exact Hn].
Qed.

(* C17: the new ReplicaSet is never grown beyond what the current partition allows (while old pods exist) *)
Theorem new_within_partition d : wf_state d = true -> p_new_within_partition d (sync d) = true.
Proof.
  intros Hwf. assert (Hn0 : 0 <= r_spec (d_new d)).
  { unfold wf_state in Hwf. repeat (apply andb_true_iff in Hwf; destruct Hwf as [Hwf ?]). lia. }
  unfold p_new_within_partition. destruct (0 <? sumspec (d_olds d)) eqn:Hold; [|reflexivity]. cbn [implb].
  apply Z.ltb_lt in Hold. apply Z.leb_le. unfold sync, reconcile_new.
  destruct (r_spec (d_new d) =? d_n d) eqn:E1.
  { cbn. pose proof (reconcile_old_new_le d Hn0). lia. }
  destruct (d_n d <? r_spec (d_new d)) eqn:E2.
  { cbn. apply Z.ltb_lt in E2. lia. }
  pose proof (new_replicas_bounds d Hold) as [Hb _]. cbn zeta in Hb.
  destruct (negb (new_rs_new_replicas d =? r_spec (d_new d))) eqn:E3.
  - cbn. exact Hb.
  - apply negb_false_iff, Z.eqb_eq in E3.
    pose proof (reconcile_old_new_le (set_new d (new_rs_new_replicas d))) as Hle. cbn in Hle. rewrite E3 in Hle. specialize (Hle Hn0). rewrite E3. lia.
Qed.

(* C17: the new ReplicaSet is never scaled up so that the total exceeds replicas + maxSurge *)
Theorem total_within_surge d : wf_state d = true -> p_total_within_surge d (sync d) = true.
Proof.
  intros Hwf. assert (Hn0 : 0 <= r_spec (d_new d)).
  { unfold wf_state in Hwf. repeat (apply andb_true_iff in Hwf; destruct Hwf as [Hwf ?]). lia. }
  unfold p_total_within_surge.
  destruct (r_spec (d_new d) <? r_spec (d_new (sync d))) eqn:Hup; [|reflexivity]. cbn [implb].
  destruct (0 <? sumspec (d_olds d)) eqn:Hold; [|reflexivity]. cbn [implb].
  apply Z.ltb_lt in Hup, Hold. apply Z.leb_le. revert Hup. unfold sync, reconcile_new.
  destruct (r_spec (d_new d) =? d_n d) eqn:E1.
  { cbn. intros Hup. pose proof (reconcile_old_new_le d Hn0). lia. }
  destruct (d_n d <? r_spec (d_new d)) eqn:E2.
  { cbn. apply Z.ltb_lt in E2. intros; lia. }
  pose proof (new_replicas_bounds d Hold) as [_ Hs]. cbn zeta in Hs.
  destruct (negb (new_rs_new_replicas d =? r_spec (d_new d))) eqn:E3.
  - cbn. intros Hup. apply Hs. exact Hup.
  - intros Hup. apply negb_false_iff, Z.eqb_eq in E3.
    pose proof (reconcile_old_new_le (set_new d (new_rs_new_replicas d))) as Hle. cbn in Hle. rewrite E3 in Hle. specialize (Hle Hn0).
    rewrite E3 in Hup. lia.
Qed.
