(* Proofs about Model/DeployCtl.v (C17). *)
From RV Require Import Base.Util Base.IntStr Model.BatchArith Model.DeployCtl.
From Coq Require Import ZifyBool.

Lemma sumspec_nonneg l : (forall r, In r l -> 0 <= r_spec r) -> 0 <= sumspec l.
Proof. induction l as [|r l IH]; intros H; [cbn; lia|]. cbn [sumspec fold_right].
  pose proof (H r (or_introl eq_refl)) as H0. assert (H1 : 0 <= sumspec l) by (apply IH; intros; apply H; right; auto).
  unfold sumspec in H1. lia. Qed.

(* NewRSNewReplicas never exceeds max(current size, partition limit) while old pods exist, and never pushes the
   total above replicas + maxSurge *)
Lemma new_replicas_bounds d : 0 < sumspec (d_olds d) ->
  let x := new_rs_new_replicas d in
  x <= Z.max (r_spec (d_new d)) (limit d) /\
  (r_spec (d_new d) < x -> x + sumspec (d_olds d) <= d_n d + max_surge d).
Proof.
  intros Hold x. subst x. unfold new_rs_new_replicas.
  destruct (r_spec (d_new d) <? r_spec (d_new d) + sumspec (d_olds d)) eqn:E1; [|apply Z.ltb_ge in E1; lia].
  destruct (limit d <=? r_spec (d_new d)) eqn:E2; [lia|].
  destruct (d_n d + max_surge d <=? r_spec (d_new d) + sumspec (d_olds d)) eqn:E3; [lia|].
  apply Z.leb_gt in E2, E3. lia.
Qed.

(* the scale-down loop only shrinks the new ReplicaSet if it ever visits it *)
Lemma scale_slots_shrink_new get l : 0 <= get SNew -> forall m v, In (SNew, v) (scale_slots get l m) -> v <= get SNew.
Proof. intros Hn. induction l as [|y l IH]; intros m v H; cbn in H; [destruct H|].
  destruct (m <=? 0) eqn:Em; [destruct H|]. destruct (get y =? 0); [eapply IH; eauto|].
  destruct H as [H|H]; [inversion H; subst; apply Z.leb_gt in Em; lia|eapply IH; eauto]. Qed.

Lemma fold_apply_new l : forall d,
  r_spec (d_new (fold_left apply_slot l d)) =
  fold_left (fun acc xv => match fst xv with SNew => snd xv | SOld _ => acc end) l (r_spec (d_new d)).
Proof. induction l as [|[x v] l IH]; intros d; cbn [fold_left]; [reflexivity|]. rewrite IH. f_equal.
  unfold apply_slot. cbn [fst snd]. destruct x; reflexivity. Qed.
Lemma fold_new_bound (l : list (slot * Z)) B : forall acc, acc <= B -> (forall x v, In (x, v) l -> x = SNew -> v <= B) ->
  fold_left (fun acc xv => match fst xv with SNew => snd xv | SOld _ => acc end) l acc <= B.
Proof. induction l as [|[x v] l IH]; intros acc Ha H; cbn [fold_left]; [exact Ha|]. apply IH.
  - cbn [fst snd]. destruct x; [apply (H SNew v); [left; reflexivity|reflexivity]|exact Ha].
  - intros x' v' Hin. apply H. right. exact Hin. Qed.
Lemma fold_apply_olds_new_unchanged l d : d_n (fold_left apply_slot l d) = d_n d.
Proof. revert d. induction l as [|[x v] l IH]; intros d; cbn [fold_left]; [reflexivity|]. rewrite IH. unfold apply_slot. cbn. destruct x; reflexivity. Qed.

(* reconcileOldReplicaSets never grows the new ReplicaSet *)
Lemma reconcile_old_new_le d : 0 <= r_spec (d_new d) -> r_spec (d_new (reconcile_old d)) <= r_spec (d_new d).
Proof.
  intros Hn. unfold reconcile_old.
  repeat match goal with
  | |- context [if ?c then _ else _] => destruct c eqn:?
  | |- context [let '(_, _) := ?x in _] => destruct x eqn:?
  end; cbn [d_new set_olds r_spec]; try lia.
  all: rewrite fold_apply_new; apply fold_new_bound; [cbn; lia|].
  all: intros x v Hin ->; apply scale_slots_shrink_new in Hin; cbn; cbn in Hin; [exact Hin|exact Hn].
Qed.

(* C17: the new ReplicaSet is never grown beyond what the current partition allows (while old pods exist) *)
Theorem new_within_partition d : wf_state d = true -> p_new_within_partition d (sync d) = true.
Proof.
  intros Hwf. assert (Hn0 : 0 <= r_spec (d_new d)).
  { unfold wf_state in Hwf. repeat (apply andb_true_iff in Hwf; destruct Hwf as [Hwf ?]). lia. }
  unfold p_new_within_partition. destruct (0 <? sumspec (d_olds d)) eqn:Hold; [|reflexivity]. cbn [implb].
  apply Z.ltb_lt in Hold. apply Z.leb_le. unfold sync, reconcile_new.
  destruct (r_spec (d_new d) =? d_n d) eqn:E1.
  { cbn. pose proof (reconcile_old_new_le d Hn0). lia. }
  destruct (d_n d <? r_spec (d_new d)) eqn:E2.
  { cbn. apply Z.ltb_lt in E2. lia. }
  pose proof (new_replicas_bounds d Hold) as [Hb _]. cbn zeta in Hb.
  destruct (negb (new_rs_new_replicas d =? r_spec (d_new d))) eqn:E3.
  - cbn. exact Hb.
  - apply negb_false_iff, Z.eqb_eq in E3.
    pose proof (reconcile_old_new_le (set_new d (new_rs_new_replicas d))) as Hle. cbn in Hle. rewrite E3 in Hle. specialize (Hle Hn0). rewrite E3. lia.
Qed.

(* C17: the new ReplicaSet is never scaled up so that the total exceeds replicas + maxSurge *)
Theorem total_within_surge d : wf_state d = true -> p_total_within_surge d (sync d) = true.
Proof.
  intros Hwf. assert (Hn0 : 0 <= r_spec (d_new d)).
  { unfold wf_state in Hwf. repeat (apply andb_true_iff in Hwf; destruct Hwf as [Hwf ?]). lia. }
  unfold p_total_within_surge.
  destruct (r_spec (d_new d) <? r_spec (d_new (sync d))) eqn:Hup; [|reflexivity]. cbn [implb].
  destruct (0 <? sumspec (d_olds d)) eqn:Hold; [|reflexivity]. cbn [implb].
  apply Z.ltb_lt in Hup, Hold. apply Z.leb_le. revert Hup. unfold sync, reconcile_new.
  destruct (r_spec (d_new d) =? d_n d) eqn:E1.
  { cbn. intros Hup. pose proof (reconcile_old_new_le d Hn0). lia. }
  destruct (d_n d <? r_spec (d_new d)) eqn:E2.
  { cbn. apply Z.ltb_lt in E2. intros; lia. }
  pose proof (new_replicas_bounds d Hold) as [_ Hs]. cbn zeta in Hs.
  destruct (negb (new_rs_new_replicas d =? r_spec (d_new d))) eqn:E3.
  - cbn. intros Hup. apply Hs. exact Hup.
  - intros Hup. apply negb_false_iff, Z.eqb_eq in E3.
    pose proof (reconcile_old_new_le (set_new d (new_rs_new_replicas d))) as Hle. cbn in Hle. rewrite E3 in Hle. specialize (Hle Hn0).
    rewrite E3 in Hup. lia.
Qed.

(* ================= the old ReplicaSets: reserve and availability ================= *)
Definition spec_at (l : list rs) (i : nat) : Z := match nth_error l i with Some r => r_spec r | None => 0 end.
Definition avail_at (l : list rs) (i : nat) : Z := match nth_error l i with Some r => r_avail r | None => 0 end.
Definition nonneg (l : list rs) : Prop := forall r, In r l -> 0 <= r_avail r <= r_spec r.
Definition sumkept (l : list rs) : Z := fold_right (fun r a => kept_avail r + a) 0 l.

Lemma sumspec_cons r l : sumspec (r :: l) = r_spec r + sumspec l. Proof. reflexivity. Qed.
Lemma sumavail_cons r l : sumavail (r :: l) = r_avail r + sumavail l. Proof. reflexivity. Qed.
Lemma sumkept_cons r l : sumkept (r :: l) = kept_avail r + sumkept l. Proof. reflexivity. Qed.
Lemma nonneg_cons r l : nonneg (r :: l) <-> (0 <= r_avail r <= r_spec r) /\ nonneg l.
Proof. unfold nonneg. split.
  - intros H. split; [apply H; left; reflexivity|intros x Hx; apply H; right; exact Hx].
  - intros [H1 H2] x [<-|Hx]; auto. Qed.
Lemma nonneg_sums l : nonneg l -> 0 <= sumavail l <= sumspec l /\ sumkept l = sumavail l.
Proof. induction l as [|r l IH]; intros H; [cbn; lia|]. apply nonneg_cons in H. destruct H as [Hr Hl]. specialize (IH Hl).
  rewrite sumspec_cons, sumavail_cons, sumkept_cons. unfold kept_avail. lia. Qed.

(* ---- cleanupUnhealthyReplicas ---- *)
Ltac split_and := repeat match goal with |- _ /\ _ => split end.
Lemma cleanup_spec l : forall m l1 t, cleanup l m = (l1, t) -> nonneg l ->
  nonneg l1 /\ List.length l1 = List.length l /\ 0 <= t <= Z.max 0 m /\ sumspec l1 = sumspec l - t /\ sumavail l1 = sumavail l /\
  (forall i, spec_at l1 i <= spec_at l i).
Proof.
  induction l as [|r l IH]; intros m l1 t H Hn.
  - cbn in H. injection H as <- <-. split_and; auto; try lia; try (cbn; lia).
  - apply nonneg_cons in Hn. destruct Hn as [Hr Hl]. cbn [cleanup] in H.
    destruct (m <=? 0) eqn:Em.
    { injection H as <- <-. split_and; auto; try lia; try (intros i; lia). apply nonneg_cons; auto. }
    apply Z.leb_gt in Em.
    destruct ((r_spec r =? 0) || (r_spec r =? r_avail r)) eqn:Esk.
    + destruct (cleanup l m) as [l2 t2] eqn:Hc. injection H as <- <-.
      destruct (IH _ _ _ Hc Hl) as [N [L [T [S [A P]]]]].
      split_and; try lia.
      * apply nonneg_cons; auto.
      * cbn [List.length]; lia.
      * rewrite !sumspec_cons; lia.
      * rewrite !sumavail_cons; lia.
      * intros [|i]; unfold spec_at; cbn [nth_error]; [lia|apply P].
    + apply orb_false_iff in Esk. destruct Esk as [E1 E2]. apply Z.eqb_neq in E1, E2.
      destruct (cleanup l (m - Z.min m (r_spec r - r_avail r))) as [l2 t2] eqn:Hc. injection H as <- <-.
      destruct (IH _ _ _ Hc Hl) as [N [L [T [S [A P]]]]].
      split_and; try lia.
      * apply nonneg_cons. split; [cbn; lia|exact N].
      * cbn [List.length]; lia.
      * rewrite !sumspec_cons. cbn [r_spec]. lia.
      * rewrite !sumavail_cons. cbn [r_avail]. lia.
      * intros [|i]; unfold spec_at; cbn [nth_error r_spec]; [lia|apply P].
Qed.

(* ---- the scale-down loop ---- *)
Definition red (get : slot -> Z) (ups : list (slot * Z)) : Z := fold_right (fun xv a => (get (fst xv) - snd xv) + a) 0 ups.
Definition red_old (get : slot -> Z) (ups : list (slot * Z)) : Z :=
  fold_right (fun xv a => match fst xv with SOld _ => get (fst xv) - snd xv | SNew => 0 end + a) 0 ups.

Lemma scale_slots_spec get : (forall x, 0 <= get x) -> forall l m,
  (forall x v, In (x, v) (scale_slots get l m) -> 0 <= v <= get x) /\
  0 <= red_old get (scale_slots get l m) <= red get (scale_slots get l m) /\ red get (scale_slots get l m) <= Z.max 0 m.
Proof.
  intros Hg. induction l as [|y l IH]; intros m; cbn [scale_slots].
  - split; [intros x v []|cbn; lia].
  - destruct (m <=? 0) eqn:Em; [split; [intros x v []|cbn; lia]|]. apply Z.leb_gt in Em.
    destruct (get y =? 0); [destruct (IH m) as [A B]; split; [exact A|lia]|].
    destruct (IH (m - Z.min (get y) m)) as [A [B C]]. pose proof (Hg y) as Hy. split.
    + intros x v [E|Hin]; [injection E as <- <-; lia|apply A; exact Hin].
    + cbn [red red_old fold_right fst snd]. fold (red get (scale_slots get l (m - Z.min (get y) m))).
      fold (red_old get (scale_slots get l (m - Z.min (get y) m))). destruct y; lia.
Qed.

Lemma sumspec_zupd l : forall i v, sumspec (zupd l i (fun r => {| r_spec := v; r_avail := r_avail r |})) =
  sumspec l + (if Nat.ltb i (List.length l) then v - spec_at l i else 0).
Proof. induction l as [|r l IH]; intros i v; [destruct i; reflexivity|]. destruct i as [|i]; cbn [zupd].
  - rewrite !sumspec_cons. cbn. unfold spec_at. cbn. lia.
  - rewrite !sumspec_cons, IH. unfold spec_at. cbn [nth_error List.length]. change (Nat.ltb (S i) (S (List.length l))) with (Nat.ltb i (List.length l)). lia. Qed.
Lemma sumkept_zupd l : forall i v, sumkept (zupd l i (fun r => {| r_spec := v; r_avail := r_avail r |})) =
  sumkept l + (if Nat.ltb i (List.length l) then Z.min (avail_at l i) v - Z.min (avail_at l i) (spec_at l i) else 0).
Proof. induction l as [|r l IH]; intros i v; [destruct i; reflexivity|]. destruct i as [|i]; cbn [zupd].
  - rewrite !sumkept_cons. unfold kept_avail, spec_at, avail_at. cbn. lia.
  - rewrite !sumkept_cons, IH. unfold spec_at, avail_at. cbn [nth_error List.length]. change (Nat.ltb (S i) (S (List.length l))) with (Nat.ltb i (List.length l)). lia. Qed.
Lemma spec_at_zupd l : forall i j v, spec_at (zupd l i (fun r => {| r_spec := v; r_avail := r_avail r |})) j =
  if Nat.eqb i j && Nat.ltb i (List.length l) then v else spec_at l j.
Proof. induction l as [|r l IH]; intros i j v.
  - replace (Nat.ltb i (List.length (@nil rs))) with false by (destruct i; reflexivity). rewrite andb_false_r. destruct i; reflexivity.
  - destruct i as [|i], j as [|j]; cbn [zupd]; unfold spec_at in *; cbn [nth_error]; try reflexivity.
    rewrite IH. cbn [List.length]. reflexivity. Qed.
Lemma spec_at_out l i : (List.length l <= i)%nat -> spec_at l i = 0.
Proof. intros H. unfold spec_at. apply nth_error_None in H. rewrite H. reflexivity. Qed.
Lemma zupd_len {A} (l : list A) i f : List.length (zupd l i f) = List.length l.
Proof. revert i. induction l as [|x l IH]; intros [|i]; cbn; auto. Qed.

(* the updates are applied to a state that is pointwise below the reference sizes get0 *)
Definition below (get0 : slot -> Z) (d : dstate) : Prop :=
  r_spec (d_new d) <= get0 SNew /\ forall i, spec_at (d_olds d) i <= get0 (SOld i).
Definition keptD (d : dstate) : Z := kept_avail (d_new d) + sumkept (d_olds d).

Lemma apply_slot_step get0 d x v : (forall y, 0 <= get0 y) -> below get0 d -> 0 <= v <= get0 x ->
  let d' := apply_slot d (x, v) in
  below get0 d' /\
  sumspec (d_olds d') >= sumspec (d_olds d) - (match x with SOld _ => get0 x - v | SNew => 0 end) /\
  keptD d' >= keptD d - (get0 x - v) /\ d_n d' = d_n d /\ d_partition d' = d_partition d /\ d_surge d' = d_surge d /\ d_unavail d' = d_unavail d.
Proof.
  intros Hg [Bn Bo] Hv. unfold apply_slot. cbn [fst snd]. destruct x as [|i].
  - cbn [set_new d_olds d_new d_n d_partition d_surge d_unavail r_spec]. split_and; try reflexivity.
    + split; [cbn; lia|exact Bo].
    + lia.
    + unfold keptD, kept_avail. cbn [set_new d_olds d_new r_spec r_avail]. lia.
  - cbn [set_olds d_olds d_new d_n d_partition d_surge d_unavail]. split_and; try reflexivity.
    + unfold below. cbn [set_olds d_olds d_new]. split; [exact Bn|]. intros j. rewrite spec_at_zupd.
      destruct (Nat.eqb i j && Nat.ltb i (List.length (d_olds d))) eqn:E; [|apply Bo].
      apply andb_true_iff in E. destruct E as [E _]. apply Nat.eqb_eq in E. subst j. lia.
    + rewrite sumspec_zupd. specialize (Bo i). destruct (Nat.ltb i (List.length (d_olds d))); lia.
    + unfold keptD. cbn [d_new d_olds set_olds]. rewrite sumkept_zupd. specialize (Bo i). destruct (Nat.ltb i (List.length (d_olds d))); lia.
Qed.

Lemma fold_apply_bounds get0 : (forall y, 0 <= get0 y) -> forall ups d, below get0 d ->
  (forall x v, In (x, v) ups -> 0 <= v <= get0 x) ->
  let d' := fold_left apply_slot ups d in
  sumspec (d_olds d') >= sumspec (d_olds d) - red_old get0 ups /\ keptD d' >= keptD d - red get0 ups /\
  d_n d' = d_n d /\ d_partition d' = d_partition d /\ d_surge d' = d_surge d /\ d_unavail d' = d_unavail d.
Proof.
  intros Hg. induction ups as [|[x v] ups IH]; intros d Hb Hin; cbn [fold_left].
  - cbn. split_and; try reflexivity; lia.
  - destruct (apply_slot_step get0 d x v Hg Hb (Hin x v (or_introl eq_refl))) as [Hb' [S1 [K1 [E1 [E2 [E3 E4]]]]]].
    destruct (IH (apply_slot d (x, v)) Hb' (fun x' v' H => Hin x' v' (or_intror H))) as [S2 [K2 [F1 [F2 [F3 F4]]]]].
    cbn [red red_old fold_right fst snd]. fold (red get0 ups). fold (red_old get0 ups).
    split_and; try congruence; lia.
Qed.

(* ---- what the loop may take: sums over the visited slots ---- *)
Definition sumf {A} (f : A -> Z) (l : list A) : Z := fold_right (fun x a => f x + a) 0 l.
Lemma sumf_cons {A} (f : A -> Z) x l : sumf f (x :: l) = f x + sumf f l. Proof. reflexivity. Qed.
Lemma sumf_nil {A} (f : A -> Z) : sumf f [] = 0. Proof. reflexivity. Qed.
Lemma sumf_app {A} (f : A -> Z) l1 l2 : sumf f (l1 ++ l2) = sumf f l1 + sumf f l2.
Proof. induction l1 as [|x l1 IH]; [reflexivity|]. rewrite <- app_comm_cons, !sumf_cons, IH. lia. Qed.
Lemma sumf_rev {A} (f : A -> Z) l : sumf f (rev l) = sumf f l.
Proof. induction l as [|x l IH]; [reflexivity|]. cbn [rev]. rewrite sumf_app, IH, !sumf_cons, sumf_nil. lia. Qed.
Lemma sumf_nonneg {A} (f : A -> Z) l : (forall x, 0 <= f x) -> 0 <= sumf f l.
Proof. intros H. induction l as [|x l IH]; [rewrite sumf_nil; lia|]. rewrite sumf_cons. specialize (H x). lia. Qed.
Lemma sumf_firstn {A} (f : A -> Z) l : (forall x, 0 <= f x) -> forall k, sumf f (firstn k l) <= sumf f l.
Proof. intros H. induction l as [|x l IH]; intros [|k]; cbn [firstn]; rewrite ?sumf_cons, ?sumf_nil; try lia.
  - pose proof (sumf_nonneg f l H). specialize (H x). lia.
  - specialize (IH k). lia. Qed.
Lemma sumf_map {A B} (f : B -> Z) (g : A -> B) l : sumf f (map g l) = sumf (fun x => f (g x)) l.
Proof. induction l as [|x l IH]; [reflexivity|]. cbn [map]. rewrite !sumf_cons, IH. reflexivity. Qed.
Lemma sumf_filter_combine {B} (g : nat -> Z) (p : nat * B -> bool) : (forall i, 0 <= g i) -> forall s (l : list B),
  sumf (fun ir => g (fst ir)) (filter p (combine s l)) <= sumf g s.
Proof. intros Hg. induction s as [|i s IH]; intros l; [cbn [combine filter]; rewrite !sumf_nil; lia|]. destruct l as [|b l]; cbn [combine filter].
  - pose proof (sumf_nonneg g (i :: s) Hg). rewrite sumf_nil. lia.
  - specialize (IH l). specialize (Hg i). rewrite sumf_cons. destruct (p (i, b)); rewrite ?sumf_cons; cbn [fst]; lia. Qed.
Lemma sumf_ext_in {A} (f g : A -> Z) l : (forall x, In x l -> f x = g x) -> sumf f l = sumf g l.
Proof. induction l as [|x l IH]; intros H; [reflexivity|]. rewrite !sumf_cons, IH, (H x) by (try (left; reflexivity); intros y Hy; apply H; right; exact Hy). reflexivity. Qed.
Lemma sumf_seq_spec l : forall a, sumf (fun i => spec_at l (i - a)) (seq a (List.length l)) = sumspec l.
Proof. induction l as [|r l IH]; intros a; [reflexivity|]. cbn [List.length seq]. rewrite sumf_cons, sumspec_cons.
  replace (a - a)%nat with O by lia. unfold spec_at at 1. cbn [nth_error]. f_equal.
  rewrite <- (IH (S a)). apply sumf_ext_in. intros i Hi. apply in_seq in Hi.
  replace (i - a)%nat with (S (i - S a)) by lia. unfold spec_at. cbn [nth_error]. reflexivity.
Qed.

(* the loop takes from the OLD ReplicaSets at most what the slots behind a possibly leading new-ReplicaSet slot hold
   above the reserve R -- also when the (aliased) slice starts with the new ReplicaSet, which is then shrunk first *)
Lemma walk_red_old get walk rest cnt R : (forall x, 0 <= get x) -> (walk = rest \/ walk = SNew :: rest) ->
  cnt <= sumf get walk - R ->
  red_old get (scale_slots get walk cnt) <= Z.max 0 (sumf get rest - R).
Proof.
  intros Hg Hw Hc. destruct Hw as [-> | ->].
  - destruct (scale_slots_spec get Hg rest cnt) as [_ [A B]]. lia.
  - rewrite sumf_cons in Hc. cbn [scale_slots]. destruct (cnt <=? 0) eqn:E0; [cbn; lia|]. apply Z.leb_gt in E0.
    destruct (get SNew =? 0) eqn:En.
    + apply Z.eqb_eq in En. destruct (scale_slots_spec get Hg rest cnt) as [_ [A B]]. lia.
    + cbn [red_old fold_right fst snd]. fold (red_old get (scale_slots get rest (cnt - Z.min (get SNew) cnt))).
      destruct (scale_slots_spec get Hg rest (cnt - Z.min (get SNew) cnt)) as [_ [A B]]. pose proof (Hg SNew). lia.
Qed.

Lemma spec_at_nonneg l i : nonneg l -> 0 <= spec_at l i.
Proof. intros H. unfold spec_at. destruct (nth_error l i) as [r|] eqn:E; [|lia]. apply nth_error_In in E. specialize (H r E). lia. Qed.

Lemma active_sum l1 olds (p : nat * rs -> bool) : nonneg l1 -> List.length l1 = List.length olds ->
  sumf (fun x => match x with SNew => 0 | SOld i => spec_at l1 i end)
       (map (fun ir : nat * rs => SOld (fst ir)) (filter p (combine (seq 0 (List.length olds)) olds))) <= sumspec l1.
Proof.
  intros Hn Hl. rewrite sumf_map. cbn [fst].
  eapply Z.le_trans; [apply (sumf_filter_combine (spec_at l1) p (fun i => spec_at_nonneg l1 i Hn))|].
  rewrite <- Hl, <- (sumf_seq_spec l1 0). apply Z.eq_le_incl. apply sumf_ext_in. intros i _. f_equal. lia.
Qed.

Lemma scale_up_old_ge l c : sumspec (scale_up_old l c) >= sumspec l /\ sumkept (scale_up_old l c) >= sumkept l.
Proof.
  unfold scale_up_old. destruct (c <=? 0) eqn:Ec; [lia|]. apply Z.leb_gt in Ec.
  destruct (argmax_first l 0 None) as [j|]; [|lia]. clear -Ec. revert j.
  induction l as [|r l IH]; intros [|j]; cbn [zupd]; try lia.
  - rewrite !sumspec_cons, !sumkept_cons. unfold kept_avail. cbn [r_spec r_avail]. lia.
  - rewrite !sumspec_cons, !sumkept_cons. specialize (IH j). lia.
Qed.

(* reconcileOldReplicaSets: the reserve and the availability floor *)
Lemma reconcile_old_bounds d : nonneg (d_olds d) -> 0 <= r_avail (d_new d) <= r_spec (d_new d) ->
  sumspec (d_olds (reconcile_old d)) >= Z.min (sumspec (d_olds d)) (d_n d - Z.max (limit d) (r_spec (d_new d))) /\
  keptD (reconcile_old d) >= Z.min (d_n d - max_unavail d) (keptD d).
Proof.
  intros Hn Hnew. unfold reconcile_old.
  destruct (sumspec (d_olds d) =? 0) eqn:E0; [split; lia|].
  unfold scale_down_limit.
  set (R := d_n d - Z.max (limit d) (r_spec (d_new d))).
  destruct (sumspec (d_olds d) - R <=? 0) eqn:E1.
  { destruct (scale_up_old_ge (d_olds d) (- (sumspec (d_olds d) - R))) as [A B]. unfold keptD. cbn [set_olds d_olds d_new]. split; lia. }
  apply Z.leb_gt in E1. cbv zeta.
  set (min_avail := d_n d - max_unavail d).
  set (max_down := Z.min _ (sumspec (d_olds d) - R)).
  destruct (max_down <=? 0) eqn:E2; [split; lia|]. apply Z.leb_gt in E2.
  destruct (cleanup (d_olds d) max_down) as [l1 t] eqn:Hc.
  destruct (cleanup_spec _ _ _ _ Hc Hn) as [N1 [L1 [T1 [S1 [A1 P1]]]]].
  destruct (nonneg_sums _ Hn) as [Hs0 Hk0]. destruct (nonneg_sums _ N1) as [Hs1 Hk1].
  assert (Hkd : keptD d = r_avail (d_new d) + sumavail (d_olds d)) by (unfold keptD, kept_avail; lia).
  assert (Hmd : max_down <= sumspec (d_olds d) - R) by (subst max_down; lia).
  destruct (r_avail (d_new d) + sumavail l1 <=? min_avail) eqn:E3.
  { unfold keptD, kept_avail. cbn [set_olds d_olds d_new]. split; lia. }
  apply Z.leb_gt in E3.
  set (get := fun x : slot => match x with SNew => r_spec (d_new (set_olds d l1)) | SOld i => match nth_error l1 i with Some r => r_spec r | None => 0 end end).
  set (ids := map (fun ir : nat * rs => SOld (fst ir)) (filter (fun ir : nat * rs => 0 <? r_spec (snd ir)) (combine (seq 0 (List.length (d_olds d))) (d_olds d)))).
  set (k := zlen (filter (fun ir : nat * rs => 0 <? r_spec (snd ir)) (combine (seq 0 (List.length (d_olds d))) (d_olds d)))).
  set (walk := if shares_backing k then if d_new_oldest d then firstn (Z.to_nat k) (SNew :: ids) else ids else rev ids).
  change (fold_right (fun (x : slot) (a : Z) => get x + a) 0 walk) with (sumf get walk).
  set (cnt := Z.min _ _).
  assert (Hg : forall x, 0 <= get x).
  { intros [|i]; unfold get; cbn [set_olds d_new]; [lia|]. apply (spec_at_nonneg l1 i N1). }
  assert (Hb : below get (set_olds d l1)) by (split; [unfold get; cbn [set_olds d_new]; lia|intros i; unfold get, spec_at; cbn [set_olds d_olds]; lia]).
  destruct (scale_slots_spec get Hg walk cnt) as [Hv [Hro Hr]].
  destruct (fold_apply_bounds get Hg _ _ Hb Hv) as [SS [KK _]].
  assert (Hids : sumf get ids <= sumspec l1).
  { unfold ids. eapply Z.le_trans; [|apply (active_sum l1 (d_olds d) (fun ir => 0 <? r_spec (snd ir)) N1 L1)].
    apply Z.eq_le_incl. apply sumf_ext_in. intros x Hx. apply in_map_iff in Hx. destruct Hx as [ir [<- _]]. reflexivity. }
  (* the slots behind a possibly leading new-ReplicaSet slot *)
  assert (Hrest : exists rest, (walk = rest \/ walk = SNew :: rest) /\ sumf get rest <= sumspec l1).
  { unfold walk. destruct (shares_backing k).
    - destruct (d_new_oldest d).
      + destruct (Z.to_nat k) as [|k']; cbn [firstn].
        * exists []. split; [left; reflexivity|rewrite sumf_nil; lia].
        * exists (firstn k' ids). split; [right; reflexivity|]. pose proof (sumf_firstn get ids Hg k'). lia.
      + exists ids. split; [left; reflexivity|exact Hids].
    - exists (rev ids). split; [left; reflexivity|rewrite sumf_rev; exact Hids]. }
  destruct Hrest as [rest [Hw Hsr]].
  assert (Hcnt : cnt <= sumf get walk - R).
  { subst cnt. match goal with |- Z.min _ ?b <= _ => assert (Hbb : b = sumf get walk - R) by (unfold R, get; cbn [set_olds d_new]; reflexivity); rewrite Hbb end. lia. }
  pose proof (walk_red_old get walk rest cnt R Hg Hw Hcnt) as Hro2.
  assert (Hk1' : keptD (set_olds d l1) = r_avail (d_new d) + sumavail l1) by (unfold keptD, kept_avail; cbn [set_olds d_olds d_new]; lia).
  rewrite Hk1' in KK. change (d_olds (set_olds d l1)) with l1 in SS.
  split.
  - (* the reserve *) lia.
  - (* availability *) subst cnt. lia.
Qed.

Lemma wf_parts d : wf_state d = true -> 0 <= d_n d /\ 0 <= r_avail (d_new d) <= r_spec (d_new d) /\ nonneg (d_olds d).
Proof.
  unfold wf_state. intros H. repeat (apply andb_true_iff in H; destruct H as [H ?]).
  split_and; try lia. intros r Hr.
  match goal with Hf : forallb _ _ = true |- _ => rewrite forallb_forall in Hf; specialize (Hf r Hr) end. lia.
Qed.

Lemma new_replicas_ge d : nonneg (d_olds d) -> r_spec (d_new d) < d_n d -> r_spec (d_new d) <= new_rs_new_replicas d.
Proof.
  intros Hn Hlt. unfold new_rs_new_replicas. destruct (nonneg_sums _ Hn) as [Hs _].
  repeat match goal with |- context [if ?c then _ else _] => destruct c eqn:? end; lia.
Qed.

(* C17: the old ReplicaSets are never shrunk below what the partition reserves for them *)
Theorem old_not_below_reserve d : wf_state d = true -> p_old_not_below_reserve d (sync d) = true.
Proof.
  intros Hwf. destruct (wf_parts d Hwf) as [Hn0 [Hnew Hn]]. unfold p_old_not_below_reserve. apply Z.leb_le.
  unfold sync, reconcile_new.
  destruct (r_spec (d_new d) =? d_n d) eqn:E1.
  { destruct (reconcile_old_bounds d Hn Hnew) as [A _]. lia. }
  destruct (d_n d <? r_spec (d_new d)) eqn:E2; [cbn [set_new d_olds]; lia|].
  destruct (negb (new_rs_new_replicas d =? r_spec (d_new d))) eqn:E3; [cbn [set_new d_olds]; lia|].
  apply negb_false_iff, Z.eqb_eq in E3.
  destruct (reconcile_old_bounds (set_new d (new_rs_new_replicas d))) as [A _]; [exact Hn|cbn [set_new d_new r_avail r_spec]; lia|].
  cbn [set_new d_olds d_new d_n r_spec] in A. unfold limit in *. cbn [set_new d_partition d_n] in A. rewrite E3 in A |- *. lia.
Qed.

(* C17: available pods are never scaled down below replicas - maxUnavailable (maxUnavailable is non-negative, as the
   API server validates) *)
Theorem availability_budget d : wf_state d = true -> 0 <= max_unavail d -> p_availability_budget d (sync d) = true.
Proof.
  intros Hwf Hmu. destruct (wf_parts d Hwf) as [Hn0 [Hnew Hn]]. unfold p_availability_budget. apply Z.leb_le.
  change (total_kept d) with (keptD d). change (total_kept (sync d)) with (keptD (sync d)).
  destruct (nonneg_sums _ Hn) as [Hs Hk].
  unfold sync, reconcile_new.
  destruct (r_spec (d_new d) =? d_n d) eqn:E1.
  { destruct (reconcile_old_bounds d Hn Hnew) as [_ B]. lia. }
  destruct (d_n d <? r_spec (d_new d)) eqn:E2.
  { unfold keptD, kept_avail. cbn [set_new d_olds d_new r_spec r_avail]. lia. }
  assert (Hge : r_spec (d_new d) <= new_rs_new_replicas d) by (apply new_replicas_ge; [exact Hn|lia]).
  destruct (negb (new_rs_new_replicas d =? r_spec (d_new d))) eqn:E3.
  { unfold keptD, kept_avail. cbn [set_new d_olds d_new r_spec r_avail]. lia. }
  apply negb_false_iff, Z.eqb_eq in E3.
  destruct (reconcile_old_bounds (set_new d (new_rs_new_replicas d))) as [_ B]; [exact Hn|cbn [set_new d_new r_avail r_spec]; lia|].
  assert (Hk' : keptD (set_new d (new_rs_new_replicas d)) = keptD d) by (unfold keptD, kept_avail; cbn [set_new d_olds d_new r_spec r_avail]; rewrite E3; reflexivity).
  assert (Hm' : max_unavail (set_new d (new_rs_new_replicas d)) = max_unavail d) by reflexivity.
  cbn [set_new d_n] in B. rewrite Hk', Hm' in B. lia.
Qed.
