(* Proofs about Model/BatchArith.v (C01, C07 arithmetic). *)
From RV Require Import Base.Util Base.IntStr Model.BatchArith.
From Coq Require Import ZifyBool.
Ltac Zify.zify_post_hook ::= Z.div_mod_to_equations.

Definition valid_step (s : ios) : Prop := match s with IInt z => 0 < z | IPct p => 0 < p <= 100 | IBad => False end.

(* replace every ceil_div100 / floor_div100 by its specification *)
Ltac spec_div :=
  repeat match goal with
  | |- context [ceil_div100 ?x] => let H := fresh "Hc" in pose proof (ceil_div100_spec x) as H; generalize dependent (ceil_div100 x); intros
  | H : context [ceil_div100 ?x] |- _ => let H' := fresh "Hc" in pose proof (ceil_div100_spec x) as H'; generalize dependent (ceil_div100 x); intros
  | |- context [floor_div100 ?x] => let H := fresh "Hf" in pose proof (floor_div100_spec x) as H; generalize dependent (floor_div100 x); intros
  end.
Ltac split_ifs :=
  repeat match goal with
  | |- context [if ?c then _ else _] => destruct c eqn:?
  | H : context [if ?c then _ else _] |- _ => destruct c eqn:?
  end.

Lemma planned_of_int z n : 0 <= n -> 0 < z -> planned_of (IInt z) n = Z.min z n.
Proof. intros. unfold planned_of, scaled, scaled_err; cbn [fst]. split_ifs; lia. Qed.
Lemma planned_of_pct p n : 0 <= n -> 0 < p <= 100 ->
  let x := planned_of (IPct p) n in 0 <= x <= n /\ 100 * x >= p * n /\ 100 * x < p * n + 100.
Proof. intros Hn Hp x. subst x. unfold planned_of, scaled, scaled_err; cbn [fst]. spec_div. split_ifs; nia. Qed.
Lemma planned_of_range s n : 0 <= n -> valid_step s -> 0 <= planned_of s n <= n.
Proof. intros Hn Hs. destruct s as [z|p|]; cbn in Hs; [rewrite planned_of_int by lia; lia| |tauto].
  pose proof (planned_of_pct p n Hn Hs). cbn in H. lia. Qed.

Lemma scaled_pct_spec p n : let x := scaled true (IPct p) n in 100 * x >= p * n /\ 100 * x < p * n + 100.
Proof. intros x. subst x. unfold scaled, scaled_err; cbn [fst]. spec_div. lia. Qed.

(* ParseIntegerAsPercentageIfPossible: the restored partition never exceeds the stable count asked
   for, and misses it by less than 1% of the workload (outside the "1%" arm) *)
Lemma parse_pct_restores stable n plan : 0 <= stable <= n -> 0 < n ->
  let part := scaled true (parse_pct stable n plan) n in
  if one_pct_arm stable n plan then 100 * stable < n /\ 100 * part >= n /\ 100 * part < n + 100
  else part <= stable /\ 100 * (stable - part) < n.
Proof.
  intros Hs Hn part. subst part. unfold parse_pct. destruct (one_pct_arm stable n plan) eqn:Harm.
  - unfold one_pct_arm in Harm. repeat (apply andb_true_iff in Harm; destruct Harm as [Harm ?]).
    apply negb_true_iff in Harm. apply negb_true_iff in H1. rewrite Harm, H1.
    pose proof (scaled_pct_spec (stable * 100 / n) n) as Hq. cbn zeta in Hq.
    pose proof (scaled_pct_spec 1 n) as H1p. cbn zeta in H1p.
    apply Z.leb_le in H0. apply Z.leb_gt in Harm, H1. split; [nia|lia].
  - destruct (n <=? stable) eqn:E1; [apply Z.leb_le in E1; pose proof (scaled_pct_spec 100 n) as Hq; cbn zeta in Hq; lia|].
    destruct (stable <=? 0) eqn:E2; [apply Z.leb_le in E2; pose proof (scaled_pct_spec 0 n) as Hq; cbn zeta in Hq; lia|].
    pose proof (scaled_pct_spec (stable * 100 / n) n) as Hq. cbn zeta in Hq. apply Z.leb_gt in E1, E2. nia.
Qed.

Lemma parse_pct_zero plan : scaled true (parse_pct 0 0 plan) 0 = 0.
Proof. unfold parse_pct. cbn [Z.leb Z.compare]. pose proof (scaled_pct_spec 100 0) as H. cbn zeta in H. lia. Qed.

(* ---------- well-formed inputs ---------- *)
Definition partition_kind (k : kind) : bool := match k with CloneSetK | StsK _ | DaemonK => true | _ => false end.
Definition int_knob_kind (k : kind) : bool := match k with StsK _ | DaemonK | DeployCanaryK => true | _ => false end.
Definition knob_ok (v : ios) : Prop := match v with IInt z => 0 <= z | IPct p => 0 <= p <= 100 | IBad => False end.

Record wf (a : arith_in) (step : ios) : Prop := {
  wf_n : 0 <= a_n a;
  wf_step : valid_step step;
  wf_idx : znth (a_plan a) (a_cur a) = Some step;
  wf_nn : match a_noneed a with Some nn => 0 <= nn <= a_n a /\ partition_kind (a_kind a) = true | None => True end;
  wf_knob : match a_knob a with
            | Some v => knob_ok v /\ (int_knob_kind (a_kind a) = true -> exists z, v = IInt z)
            | None => True end
}.

Ltac brute :=
  unfold within_step, not_backwards, suffices, upgrade, exposed, knob_default, planned_of, new_rs_limit, cur_ge_desired,
         scaled, scaled_err, nn_of, is_str, is_pct100, ios_eqb in *;
  cbn [fst snd a_kind a_n a_noneed a_knob a_plan a_cur c_planned c_desired c_target c_current] in *;
  spec_div; split_ifs; try lia; try nia.

Lemma upgrade_target k c n k' : upgrade k c n = Some k' ->
  k' = c_target c \/ (k = DeployCanaryK /\ k' = IInt (c_desired c)).
Proof. intros Hup. unfold upgrade in Hup.
  destruct k; try (split_ifs; inversion Hup; auto; fail);
  destruct (c_current c), (c_target c); try discriminate; split_ifs; inversion Hup; auto. Qed.

(* the pair (desired stable, desired update) of the partition kinds *)
Lemma stable_update_spec step n nn : 0 <= n -> valid_step step -> 0 <= nn <= n ->
  let dn := planned_of step (n - nn) in 0 <= dn <= n - nn.
Proof. intros Hn Hs Hnn dn. subst dn. apply planned_of_range; [lia|exact Hs]. Qed.

(* C01: the knob the control plane computes for a step stays within the step's allowance + 1% *)
Theorem target_within_step a step c : wf a step -> calc_ctx a = Some c -> within_step a step (c_target c) = true.
Proof.
  intros [Hn Hs Hi Hnn _] Hc. unfold calc_ctx in Hc. rewrite Hi in Hc.
  destruct a as [k plan n cur nn knob]. cbn [a_kind a_n a_noneed a_knob a_plan a_cur] in *.
  assert (Hp := planned_of_range step n Hn Hs).
  destruct nn as [nn|].
  - destruct Hnn as [Hnn Hk].
    assert (Hd := stable_update_spec step n nn Hn Hs Hnn). cbn zeta in Hd.
    destruct (0 <? nn) eqn:Hpos.
    + destruct k as [|u| | | | |]; try discriminate Hk; inversion Hc; subst c; clear Hc.
      * (* CloneSet *) destruct step as [z|p|]; [| |destruct Hs].
        -- unfold within_step, exposed, nn_of, is_str. cbn [a_kind a_n a_noneed c_target scaled scaled_err fst].
           rewrite Hpos. apply orb_true_iff. left. apply Z.leb_le. lia.
        -- unfold within_step, exposed, nn_of, is_str. cbn [a_kind a_n a_noneed c_target]. rewrite Hpos.
           set (dn := planned_of (IPct p) (n - nn)) in *. set (ds := n - nn - dn).
           assert (Hn0 : 0 < n) by lia.
           pose proof (parse_pct_restores ds n (IPct p) ltac:(subst ds; lia) Hn0) as Hr. cbn zeta in Hr.
           destruct (one_pct_arm ds n (IPct p)); apply orb_true_iff; [left|right]; apply Z.leb_le; subst ds; lia.
      * (* StatefulSet *) destruct u; unfold within_step, exposed, nn_of; cbn [a_kind a_n a_noneed c_target scaled scaled_err fst];
        rewrite Hpos; apply orb_true_iff; left; apply Z.leb_le; lia.
      * (* DaemonSet *) unfold within_step, exposed, nn_of; cbn [a_kind a_n a_noneed c_target scaled scaled_err fst];
        rewrite Hpos; apply orb_true_iff; left; apply Z.leb_le; destruct (n - nn - planned_of step (n - nn) <=? 0) eqn:E; lia.
    + assert (nn = 0) by lia. subst nn. replace (n - 0) with n in * by lia.
      destruct k as [|u| | | | |]; try discriminate Hk; inversion Hc; subst c; clear Hc.
      * destruct step as [z|p|]; [| |destruct Hs].
        -- unfold within_step, exposed, nn_of, is_str. cbn [a_kind a_n a_noneed c_target scaled scaled_err fst].
           rewrite Hpos. rewrite ?Z.sub_0_r. apply orb_true_iff. left. apply Z.leb_le. lia.
        -- unfold within_step, exposed, nn_of, is_str. cbn [a_kind a_n a_noneed c_target]. rewrite Hpos. rewrite ?Z.sub_0_r.
           destruct (Z.eq_dec n 0) as [->|Hn0].
           { assert (Hz : planned_of (IPct p) 0 = 0) by lia. rewrite ?Z.sub_0_r, ?Hz. cbn [Z.sub Z.opp Z.add]. rewrite ?Hz, parse_pct_zero. reflexivity. }
           set (pl := planned_of (IPct p) n) in *.
           pose proof (parse_pct_restores (n - pl) n (IPct p) ltac:(lia) ltac:(lia)) as Hr. cbn zeta in Hr.
           rewrite ?Z.sub_0_r. fold pl.
           destruct (one_pct_arm (n - pl) n (IPct p)); apply orb_true_iff; [left|right]; apply Z.leb_le; lia.
      * destruct u; unfold within_step, exposed, nn_of; cbn [a_kind a_n a_noneed c_target scaled scaled_err fst];
        rewrite Hpos; apply orb_true_iff; left; rewrite ?Z.sub_0_r; apply Z.leb_le; lia.
      * unfold within_step, exposed, nn_of; cbn [a_kind a_n a_noneed c_target scaled scaled_err fst];
        rewrite Hpos; apply orb_true_iff; left; rewrite ?Z.sub_0_r; apply Z.leb_le; destruct (n - planned_of step n <=? 0) eqn:E; lia.
  - destruct k as [|u| | | | |]; inversion Hc; subst c; clear Hc.
    + destruct step as [z|p|]; [| |destruct Hs].
      * unfold within_step, exposed, nn_of, is_str. cbn [a_kind a_n a_noneed c_target scaled scaled_err fst].
        rewrite ?Z.sub_0_r. apply orb_true_iff. left. apply Z.leb_le. lia.
      * unfold within_step, exposed, nn_of, is_str. cbn [a_kind a_n a_noneed c_target].
        destruct (Z.eq_dec n 0) as [->|Hn0].
        { assert (Hz : planned_of (IPct p) 0 = 0) by lia. rewrite ?Z.sub_0_r, ?Hz. cbn [Z.sub Z.opp Z.add]. rewrite ?Hz, parse_pct_zero. reflexivity. }
        set (pl := planned_of (IPct p) n) in *.
        pose proof (parse_pct_restores (n - pl) n (IPct p) ltac:(lia) ltac:(lia)) as Hr. cbn zeta in Hr.
        rewrite ?Z.sub_0_r. fold pl.
        destruct (one_pct_arm (n - pl) n (IPct p)); apply orb_true_iff; [left|right]; apply Z.leb_le; lia.
    + destruct u; unfold within_step, exposed, nn_of; cbn [a_kind a_n a_noneed c_target scaled scaled_err fst];
      apply orb_true_iff; left; rewrite ?Z.sub_0_r; apply Z.leb_le; lia.
    + unfold within_step, exposed, nn_of; cbn [a_kind a_n a_noneed c_target scaled scaled_err fst];
      apply orb_true_iff; left; rewrite ?Z.sub_0_r; apply Z.leb_le; destruct (n - planned_of step n <=? 0) eqn:E; lia.
    + (* partition Deployment *) destruct step as [z|p|]; [| |destruct Hs]; cbn in Hs; apply orb_true_iff; left; brute.
    + (* canary Deployment *) apply orb_true_iff; left; unfold within_step, exposed, nn_of; cbn [a_kind a_n a_noneed c_target scaled scaled_err fst].
      rewrite ?Z.sub_0_r. apply Z.leb_le. lia.
    + destruct step as [z|p|]; [| |destruct Hs]; cbn in Hs; apply orb_true_iff; left; brute.
    + destruct step as [z|p|]; [| |destruct Hs]; cbn in Hs; apply orb_true_iff; left; brute.
Qed.

(* ---------- monotonicity of NewRSReplicasLimit ---------- *)
Lemma limit_int z n : new_rs_limit (IInt z) n = Z.max (Z.min z n) 0.
Proof. unfold new_rs_limit, is_str, scaled, scaled_err. cbn [fst]. rewrite andb_false_r. reflexivity. Qed.
Lemma limit_pct p n : 0 <= n ->
  let s := scaled true (IPct p) n in
  new_rs_limit (IPct p) n = if (1 <? n) && negb (p =? 100) then Z.min (Z.max (Z.min s n) 0) (n - 1) else Z.max (Z.min s n) 0.
Proof. intros Hn s. subst s. unfold new_rs_limit, is_str.
  assert (Hp : is_pct100 (IPct p) = (p =? 100)).
  { unfold is_pct100. destruct (Z.eq_dec p 100) as [->|Hne]; [reflexivity|].
    replace (p =? 100) with false by (symmetry; apply Z.eqb_neq; exact Hne).
    destruct p as [|q|q]; try reflexivity. repeat (destruct q as [q|q|]; try reflexivity; try lia). }
  rewrite Hp. destruct (1 <? n); cbn [andb]; reflexivity. Qed.
Lemma limit_mono_int z1 z2 n : z1 <= z2 -> new_rs_limit (IInt z1) n <= new_rs_limit (IInt z2) n.
Proof. intros. rewrite !limit_int. lia. Qed.
Lemma limit_mono_pct p1 p2 n : 0 <= n -> 0 <= p1 <= p2 -> p2 <= 100 -> new_rs_limit (IPct p1) n <= new_rs_limit (IPct p2) n.
Proof. intros Hn H1 H2. rewrite !limit_pct by exact Hn.
  pose proof (scaled_pct_spec p1 n) as S1. pose proof (scaled_pct_spec p2 n) as S2. cbn zeta in S1, S2.
  set (s1 := scaled true (IPct p1) n) in *. set (s2 := scaled true (IPct p2) n) in *.
  assert (s1 <= s2) by nia.
  destruct (1 <? n) eqn:E1; cbn [andb]; [|lia].
  destruct (p1 =? 100) eqn:E2, (p2 =? 100) eqn:E3; cbn [negb]; lia. Qed.

Lemma scaled_1e7 p : scaled true (IPct p) 10000000 = p * 100000.
Proof. pose proof (scaled_pct_spec p 10000000) as H. cbn zeta in H. lia. Qed.

(* C01: an UpgradeBatch write never lowers the number of pods the workload may run on the new revision *)
Theorem write_never_moves_back a step c : wf a step -> calc_ctx a = Some c ->
  f12_region a = false -> not_backwards a c = true.
Proof.
  intros [Hn Hs Hi Hnn Hkn] Hc Hreg. unfold not_backwards.
  destruct (upgrade (a_kind a) c (a_n a)) as [k'|] eqn:Hup; [|reflexivity].
  apply Z.leb_le. unfold upgrade in Hup. unfold f12_region in Hreg. rewrite Hc in Hreg.
  destruct (a_kind a) eqn:Hk.
  - (* CloneSet *) destruct (scaled true (c_current c) (a_n a) <=? scaled true (c_target c) (a_n a)) eqn:E; [discriminate|].
    inversion Hup; subst k'. unfold exposed. apply Z.leb_gt in E. lia.
  - destruct (c_current c) as [x| |] eqn:E1; try discriminate. destruct (c_target c) as [y| |] eqn:E2; try discriminate.
    destruct (x <=? y) eqn:E; [discriminate|]. inversion Hup; subst k'. unfold exposed, scaled, scaled_err. cbn [fst]. apply Z.leb_gt in E. lia.
  - destruct (c_current c) as [x| |] eqn:E1; try discriminate. destruct (c_target c) as [y| |] eqn:E2; try discriminate.
    destruct (x <=? y) eqn:E; [discriminate|]. inversion Hup; subst k'. unfold exposed, scaled, scaled_err. cbn [fst]. apply Z.leb_gt in E. lia.
  - (* partition Deployment *)
    destruct (cur_ge_desired (c_current c) (c_target c)) eqn:E; [discriminate|]. inversion Hup; subst k'. unfold exposed.
    apply negb_false_iff in Hreg. unfold same_type in Hreg. apply Bool.eqb_prop in Hreg.
    unfold cur_ge_desired in E. apply Z.leb_gt in E.
    (* the target is the (valid) step; the current knob is well-formed *)
    assert (Hcc : c_current c = knob_default DeployPartK (a_knob a) /\ c_target c = step).
    { unfold calc_ctx in Hc. rewrite Hi, Hk in Hc. destruct (a_noneed a) as [nn0|]; [destruct (0 <? nn0)|]; inversion Hc; subst c; auto. }
    destruct Hcc as [Hc1 Hc2]. rewrite Hc1, Hc2 in *. clear Hc1 Hc2.
    unfold knob_default in *. destruct (a_knob a) as [v|] eqn:Hv.
    + destruct Hkn as [Hok _]. destruct v as [x|p|], step as [y|q|]; cbn in Hreg, Hok, Hs; try discriminate; try tauto.
      * unfold scaled, scaled_err in E. cbn [fst] in E. apply limit_mono_int. lia.
      * rewrite !scaled_1e7 in E. apply limit_mono_pct; lia.
    + destruct step as [y|q|]; cbn in Hreg, Hs; try discriminate; try tauto.
      unfold scaled, scaled_err in E. cbn [fst] in E. apply limit_mono_int. lia.
  - (* canary Deployment *) destruct (c_current c) as [x| |] eqn:E1; try discriminate.
    destruct (c_desired c <=? x) eqn:E; [discriminate|]. inversion Hup; subst k'. unfold exposed, scaled, scaled_err. cbn [fst]. apply Z.leb_gt in E. lia.
  - destruct (scaled true (c_target c) (a_n a) <=? scaled true (c_current c) (a_n a)) eqn:E; [discriminate|].
    inversion Hup; subst k'. unfold exposed. apply Z.leb_gt in E. lia.
  - destruct (scaled true (c_target c) (a_n a) <=? scaled true (c_current c) (a_n a)) eqn:E; [discriminate|].
    inversion Hup; subst k'. unfold exposed. apply Z.leb_gt in E. lia.
Qed.

(* ---------- C07: the target suffices for the readiness criterion ---------- *)
Lemma ctx_current a step c : znth (a_plan a) (a_cur a) = Some step -> calc_ctx a = Some c ->
  c_current c = knob_default (a_kind a) (a_knob a).
Proof. intros Hi Hc. unfold calc_ctx in Hc. rewrite Hi in Hc.
  destruct (a_noneed a) as [nn0|]; [destruct (0 <? nn0)|]; destruct (a_kind a) as [|u| | | | |];
  try destruct u; inversion Hc; subst c; reflexivity. Qed.

Lemma ctx_target_int a step c : znth (a_plan a) (a_cur a) = Some step -> calc_ctx a = Some c ->
  int_knob_kind (a_kind a) = true -> exists z, c_target c = IInt z.
Proof. intros Hi Hc Hk. unfold calc_ctx in Hc. rewrite Hi in Hc.
  destruct (a_noneed a) as [nn0|]; [destruct (0 <? nn0)|]; destruct (a_kind a) as [|u| | | | |]; try discriminate Hk;
  try destruct u; inversion Hc; subst c; cbn [c_target]; eauto. Qed.

Lemma written_suffices a step c : wf a step -> calc_ctx a = Some c ->
  f1_region a = false -> f21_region a = false -> suffices a (c_desired c) (c_target c) = true.
Proof.
  intros [Hn Hs Hi Hnn _] Hc Hf1 Hf21. unfold f1_region, f21_region in *. rewrite Hc, ?Hi in *.
  unfold calc_ctx in Hc. rewrite Hi in Hc.
  destruct a as [k plan n cur nn knob]. cbn [a_kind a_n a_noneed a_knob a_plan a_cur] in *.
  assert (Hp := planned_of_range step n Hn Hs). apply Z.leb_le.
  destruct nn as [nn|].
  - destruct Hnn as [Hnn Hk].
    assert (Hd := stable_update_spec step n nn Hn Hs Hnn). cbn zeta in Hd.
    destruct (0 <? nn) eqn:Hpos.
    + destruct k as [|u| | | | |]; try discriminate Hk; inversion Hc; subst c; clear Hc; cbn [c_desired c_target c_current] in *.
      * destruct step as [z|p|]; [| |destruct Hs]; unfold exposed, nn_of, is_str in *; cbn [a_kind a_n a_noneed scaled scaled_err fst] in *.
        -- lia.
        -- cbn [andb] in Hf1. set (dn := planned_of (IPct p) (n - nn)) in *. set (ds := n - nn - dn) in *.
           replace (n - (n - ds)) with ds in Hf1 by lia.
           pose proof (parse_pct_restores ds n (IPct p) ltac:(subst ds; lia) ltac:(lia)) as Hr. cbn zeta in Hr. rewrite Hf1 in Hr. lia.
      * destruct u; unfold exposed, nn_of; cbn [a_kind a_n a_noneed scaled scaled_err fst c_desired c_target]; rewrite ?Hpos; lia.
      * unfold exposed, nn_of; cbn [a_kind a_n a_noneed scaled scaled_err fst]. destruct (n - nn - planned_of step (n - nn) <=? 0) eqn:E; lia.
    + assert (nn = 0) by lia. subst nn. rewrite ?Z.sub_0_r in *.
      destruct k as [|u| | | | |]; try discriminate Hk; inversion Hc; subst c; clear Hc; cbn [c_desired c_target c_current] in *.
      * destruct step as [z|p|]; [| |destruct Hs]; unfold exposed, nn_of, is_str in *; cbn [a_kind a_n a_noneed scaled scaled_err fst] in *.
        -- lia.
        -- cbn [andb] in Hf1. set (pl := planned_of (IPct p) n) in *.
           destruct (Z.eq_dec n 0) as [->|Hn0].
           { assert (Hz : pl = 0) by lia. rewrite Hz. cbn [Z.sub Z.opp Z.add]. rewrite parse_pct_zero. lia. }
           pose proof (parse_pct_restores (n - pl) n (IPct p) ltac:(lia) ltac:(lia)) as Hr. cbn zeta in Hr. rewrite Hf1 in Hr. lia.
      * destruct u; unfold exposed, nn_of; cbn [a_kind a_n a_noneed scaled scaled_err fst c_desired c_target]; rewrite ?Hpos; lia.
      * unfold exposed, nn_of; cbn [a_kind a_n a_noneed scaled scaled_err fst]. destruct (n - planned_of step n <=? 0) eqn:E; lia.
  - destruct k as [|u| | | | |]; inversion Hc; subst c; clear Hc; cbn [c_desired c_target c_current] in *.
    + destruct step as [z|p|]; [| |destruct Hs]; unfold exposed, nn_of, is_str in *; cbn [a_kind a_n a_noneed scaled scaled_err fst] in *.
      * lia.
      * cbn [andb] in Hf1. set (pl := planned_of (IPct p) n) in *.
        destruct (Z.eq_dec n 0) as [->|Hn0].
        { assert (Hz : pl = 0) by lia. rewrite Hz. cbn [Z.sub Z.opp Z.add]. rewrite parse_pct_zero. lia. }
        pose proof (parse_pct_restores (n - pl) n (IPct p) ltac:(lia) ltac:(lia)) as Hr. cbn zeta in Hr. rewrite Hf1 in Hr. lia.
    + destruct u; unfold exposed, nn_of; cbn [a_kind a_n a_noneed scaled scaled_err fst c_desired c_target]; lia.
    + unfold exposed, nn_of; cbn [a_kind a_n a_noneed scaled scaled_err fst]. destruct (n - planned_of step n <=? 0) eqn:E; lia.
    + unfold exposed. cbn [a_kind a_n]. lia.
    + unfold exposed, nn_of; cbn [a_kind a_n a_noneed scaled scaled_err fst]. lia.
    + (* blue-green Deployment: NewRSReplicasLimit(step) <= min n (scaled step) *)
      unfold exposed. cbn [a_kind a_n]. destruct step as [z|p|]; [| |destruct Hs]; cbn in Hs.
      * rewrite limit_int. unfold scaled, scaled_err; cbn [fst]. lia.
      * rewrite limit_pct by exact Hn. cbn zeta. destruct ((1 <? n) && negb (p =? 100)); lia.
    + (* blue-green CloneSet, step within the workload size *)
      unfold exposed. cbn [a_kind a_n] in *. apply Z.ltb_ge in Hf21.
      destruct step as [z|p|]; [| |destruct Hs]; cbn in Hs; unfold scaled, scaled_err in *; cbn [fst] in *; [lia|].
      pose proof (ceil_div100_spec (p * n)). nia.
Qed.

Lemma noop_keeps a step c : wf a step -> calc_ctx a = Some c -> f12_region a = false ->
  upgrade (a_kind a) c (a_n a) = None ->
  exposed (a_kind a) (c_target c) (a_n a) <= exposed (a_kind a) (c_current c) (a_n a).
Proof.
  intros Hwf Hc Hreg Hup. pose proof Hwf as [Hn Hs Hi Hnn Hkn].
  pose proof (ctx_current _ _ _ Hi Hc) as Hcur.
  unfold upgrade in Hup. unfold f12_region in Hreg. rewrite Hc in Hreg.
  destruct (a_kind a) eqn:Hk.
  - destruct (scaled true (c_current c) (a_n a) <=? scaled true (c_target c) (a_n a)) eqn:E; [|discriminate].
    unfold exposed. apply Z.leb_le in E. lia.
  - destruct (ctx_target_int a step c Hi Hc ltac:(rewrite Hk; reflexivity)) as [y Hy]. rewrite Hy in *.
    unfold knob_default in Hcur. destruct (a_knob a) as [v|].
    + destruct Hkn as [_ Hint]. destruct (Hint ltac:(first [reflexivity | rewrite Hk; reflexivity])) as [x ->]. rewrite Hcur in *.
      destruct (x <=? y) eqn:E; [|discriminate]. unfold exposed, scaled, scaled_err. cbn [fst]. apply Z.leb_le in E. lia.
    + rewrite Hcur in *. destruct (0 <=? y) eqn:E; [|discriminate]. unfold exposed, scaled, scaled_err. cbn [fst]. apply Z.leb_le in E. lia.
  - destruct (ctx_target_int a step c Hi Hc ltac:(rewrite Hk; reflexivity)) as [y Hy]. rewrite Hy in *.
    unfold knob_default in Hcur. destruct (a_knob a) as [v|].
    + destruct Hkn as [_ Hint]. destruct (Hint ltac:(first [reflexivity | rewrite Hk; reflexivity])) as [x ->]. rewrite Hcur in *.
      destruct (x <=? y) eqn:E; [|discriminate]. unfold exposed, scaled, scaled_err. cbn [fst]. apply Z.leb_le in E. lia.
    + rewrite Hcur in *. destruct (0 <=? y) eqn:E; [|discriminate]. unfold exposed, scaled, scaled_err. cbn [fst]. apply Z.leb_le in E. lia.
  - destruct (cur_ge_desired (c_current c) (c_target c)) eqn:E; [|discriminate]. unfold exposed.
    apply negb_false_iff in Hreg. unfold same_type in Hreg. apply Bool.eqb_prop in Hreg.
    unfold cur_ge_desired in E. apply Z.leb_le in E.
    assert (Htg : c_target c = step).
    { unfold calc_ctx in Hc. rewrite Hi, Hk in Hc. destruct (a_noneed a) as [nn0|]; [destruct (0 <? nn0)|]; inversion Hc; subst c; auto. }
    rewrite Htg, Hcur in *. unfold knob_default in *. destruct (a_knob a) as [v|] eqn:Hv.
    + destruct Hkn as [Hok _]. destruct v as [x|p|], step as [y|q|]; cbn in Hreg, Hok, Hs; try discriminate; try tauto.
      * unfold scaled, scaled_err in E. cbn [fst] in E. apply limit_mono_int. lia.
      * rewrite !scaled_1e7 in E. apply limit_mono_pct; lia.
    + destruct step as [y|q|]; cbn in Hreg, Hs; try discriminate; try tauto.
      unfold scaled, scaled_err in E. cbn [fst] in E. apply limit_mono_int. lia.
  - destruct (ctx_target_int a step c Hi Hc ltac:(rewrite Hk; reflexivity)) as [y Hy]. rewrite Hy in *.
    assert (Hdes : c_desired c = y).
    { unfold calc_ctx in Hc. rewrite Hi, Hk in Hc. destruct (a_noneed a) as [nn0|]; [destruct (0 <? nn0)|]; inversion Hc; subst c; cbn in Hy; inversion Hy; auto. }
    unfold knob_default in Hcur. destruct (a_knob a) as [v|].
    + destruct Hkn as [_ Hint]. destruct (Hint ltac:(first [reflexivity | rewrite Hk; reflexivity])) as [x ->]. rewrite Hcur in *.
      destruct (c_desired c <=? x) eqn:E; [|discriminate]. unfold exposed, scaled, scaled_err. cbn [fst]. apply Z.leb_le in E. lia.
    + rewrite Hcur in *. destruct (c_desired c <=? 0) eqn:E; [|discriminate]. unfold exposed, scaled, scaled_err. cbn [fst]. apply Z.leb_le in E. lia.
  - destruct (scaled true (c_target c) (a_n a) <=? scaled true (c_current c) (a_n a)) eqn:E; [|discriminate].
    unfold exposed. apply Z.leb_le in E. lia.
  - destruct (scaled true (c_target c) (a_n a) <=? scaled true (c_current c) (a_n a)) eqn:E; [|discriminate].
    unfold exposed. apply Z.leb_le in E. lia.
Qed.

(* C07: after UpgradeBatch (write or no-op) the workload may run at least DesiredUpdatedReplicas pods *)
Theorem target_suffices a step c : wf a step -> calc_ctx a = Some c ->
  f1_region a = false -> f12_region a = false -> f21_region a = false ->
  suffices a (c_desired c) (knob_after a c) = true.
Proof.
  intros Hwf Hc H1 H12 H21. pose proof (written_suffices _ _ _ Hwf Hc H1 H21) as Hw.
  unfold knob_after. destruct (upgrade (a_kind a) c (a_n a)) as [k'|] eqn:Hup.
  - destruct (upgrade_target _ _ _ _ Hup) as [->|[Hk ->]]; [exact Hw|].
    pose proof Hwf as [_ _ Hi _ _].
    assert (c_target c = IInt (c_desired c)).
    { unfold calc_ctx in Hc. rewrite Hi, Hk in Hc. destruct (a_noneed a) as [nn0|]; [destruct (0 <? nn0)|]; inversion Hc; subst c; reflexivity. }
    rewrite <- H. exact Hw.
  - pose proof (noop_keeps _ _ _ Hwf Hc H12 Hup). unfold suffices in *. apply Z.leb_le in Hw. apply Z.leb_le. lia.
Qed.

(* ---------- plan monotonicity ---------- *)
Lemma planned_monotone s1 s2 n : 0 <= n -> valid_step s1 -> valid_step s2 ->
  match s1, s2 with IInt a, IInt b => a <= b | IPct a, IPct b => a <= b | _, _ => False end ->
  planned_of s1 n <= planned_of s2 n.
Proof.
  intros Hn H1 H2 Hle. destruct s1 as [a|a|], s2 as [b|b|]; try tauto; cbn in H1, H2.
  - rewrite !planned_of_int by lia. lia.
  - pose proof (planned_of_pct a n Hn H1) as Ha. pose proof (planned_of_pct b n Hn H2) as Hb. cbn zeta in Ha, Hb. nia.
Qed.

(* ---------- witnesses of the known findings (the faithful model does not satisfy the full statements) ---------- *)
Definition f1_witness := {| a_kind := CloneSetK; a_plan := [IPct 99]; a_n := 150; a_cur := 0; a_noneed := None; a_knob := Some (IPct 100) |}.
Lemma f1_refutes : exists a c, wf a (IPct 99) /\ calc_ctx a = Some c /\ f1_region a = true /\ suffices a (c_desired c) (knob_after a c) = false.
Proof. exists f1_witness. eexists. split; [|split; [vm_compute; reflexivity|split; vm_compute; reflexivity]].
  constructor; cbn; try lia; try reflexivity; try (split; [lia|discriminate]). Qed.

Definition f12_witness_stall := {| a_kind := DeployPartK; a_plan := [IInt 20]; a_n := 100; a_cur := 0; a_noneed := None; a_knob := Some (IPct 10) |}.
Lemma f12_refutes_suffices : exists a c, wf a (IInt 20) /\ calc_ctx a = Some c /\ f12_region a = true /\ suffices a (c_desired c) (knob_after a c) = false.
Proof. exists f12_witness_stall. eexists. split; [|split; [vm_compute; reflexivity|split; vm_compute; reflexivity]].
  constructor; cbn; try lia; try reflexivity; try (split; [lia|discriminate]). Qed.
Definition f12_witness_back := {| a_kind := DeployPartK; a_plan := [IPct 10]; a_n := 20; a_cur := 0; a_noneed := None; a_knob := Some (IInt 5) |}.
Lemma f12_refutes_noback : exists a c, wf a (IPct 10) /\ calc_ctx a = Some c /\ f12_region a = true /\ not_backwards a c = false.
Proof. exists f12_witness_back. eexists. split; [|split; [vm_compute; reflexivity|split; vm_compute; reflexivity]].
  constructor; cbn; try lia; try reflexivity; try (split; [lia|discriminate]). Qed.

Definition f21_witness := {| a_kind := BGCloneK; a_plan := [IInt 15]; a_n := 10; a_cur := 0; a_noneed := None; a_knob := Some (IInt 1) |}.
Lemma f21_refutes : exists a c, wf a (IInt 15) /\ calc_ctx a = Some c /\ f21_region a = true /\ suffices a (c_desired c) (knob_after a c) = false.
Proof. exists f21_witness. eexists. split; [|split; [vm_compute; reflexivity|split; vm_compute; reflexivity]].
  constructor; cbn; try lia; try reflexivity; try (split; [lia|discriminate]). Qed.

(* non-vacuity: a non-trivial input satisfies the hypotheses of the three theorems *)
Example wf_example : let a := {| a_kind := CloneSetK; a_plan := [IPct 20; IPct 50; IPct 100]; a_n := 37; a_cur := 1;
                                 a_noneed := Some 4; a_knob := Some (IPct 80) |} in
  wf a (IPct 50) /\ f1_region a = false /\ f12_region a = false /\ f21_region a = false /\ exists c, calc_ctx a = Some c.
Proof. cbn zeta. split.
  { constructor; cbn; try lia; try reflexivity; try (split; [lia|discriminate]); try (split; [lia|reflexivity]). }
  repeat split; try (vm_compute; reflexivity). eexists. vm_compute. reflexivity. Qed.

(* C11: the readiness target of an ordinary batch (no rollback bookkeeping) is what the batch calls for: the step's share of
   the workload rounded UP and capped at its size; Deployment kinds keep one old pod below 100% by design (new_rs_limit) *)
Definition batch_calls_for (k : kind) (step : ios) (n : Z) : Z :=
  match k with DeployPartK | BGDeployK => new_rs_limit step n | _ => Z.min n (scaled true step n) end.
Theorem desired_is_what_the_batch_calls_for a step c : 0 <= a_n a ->
  znth (a_plan a) (a_cur a) = Some step -> calc_ctx a = Some c -> a_noneed a = None ->
  batch_calls_for (a_kind a) step (a_n a) <= c_desired c.
Proof.
  intros Hn Hs H Hnn. unfold calc_ctx in H. rewrite Hs, Hnn in H. injection H as <-.
  unfold batch_calls_for, planned_of. destruct (a_kind a); cbn [c_desired]; try lia.
  all: repeat match goal with |- context [if ?c then _ else _] => destruct c eqn:? end; lia.
Qed.
