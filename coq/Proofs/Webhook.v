(* Proofs about Model/Webhook.v (C08). *)
From RV Require Import Base.Util Base.IntStr Model.Webhook Corr.Webhook.
From Coq Require Import ZifyBool.

Lemma ios_eqb_refl x : ios_eqb x x = true.
Proof. destruct x; cbn; auto using Z.eqb_refl. Qed.
Lemma stype_eqb_refl x : stype_eqb x x = true. Proof. destruct x; reflexivity. Qed.
Lemma opt_eqb_refl {A} (e : A -> A -> bool) (H : forall x, e x x = true) o : opt_eqb e o o = true.
Proof. destruct o; cbn; auto. Qed.

Ltac refl_simpl :=
  repeat rewrite ?String.eqb_refl, ?Z.eqb_refl, ?ios_eqb_refl, ?stype_eqb_refl, ?Bool.eqb_reflx,
                 ?(opt_eqb_refl ios_eqb ios_eqb_refl), ?(opt_eqb_refl Z.eqb Z.eqb_refl), ?(opt_eqb_refl String.eqb String.eqb_refl);
  cbn [andb orb negb implb].

(* case split on the next `if`/`match` scrutinee of the goal, innermost conditions first *)
Ltac split_goal :=
  match goal with
  | |- context[if ?b then _ else _] =>
      lazymatch b with
      | context[if _ then _ else _] => fail
      | context[match _ with _ => _ end] => fail
      | _ => destruct b eqn:?
      end
  | |- context[match ?b with _ => _ end] =>
      lazymatch b with
      | context[if _ then _ else _] => fail
      | context[match _ with _ => _ end] => fail
      | _ => destruct b eqn:?
      end
  end.

(* the in-progress marker names exactly the Rollout found; the object is held *)
Lemma release_held i : release_is_held i (handle i) = true.
Proof.
  unfold release_is_held, must_hold, handle, active_rollout, running, served, single_revision, in_progress.
  destruct (selected i) eqn:Hsel; cbn [negb andb]; [|reflexivity].
  destruct (wi_kind i) eqn:Hk; cbn [andb negb].
  - (* CloneSet *) unfold handle_cloneset.
    destruct (zero_replicas (wi_new i)); cbn [negb andb]; [reflexivity|].
    destruct (release_change (wi_new i) (wi_old i)); cbn [negb andb]; [|reflexivity].
    destruct (matched KCloneSet (wo_name (wi_new i)) (wi_rollouts i)) as [r|]; [|reflexivity].
    destruct (rr_empty r); [reflexivity|]. destruct (rr_traffic r); cbn [negb orb andb].
    + destruct (wo_st_replicas (wi_new i) =? wo_st_updated (wi_new i)); cbn [negb]; [|reflexivity]. cbn. refl_simpl. reflexivity.
    + cbn. refl_simpl. reflexivity.
  - (* DaemonSet *) unfold handle_daemonset.
    destruct (release_change (wi_new i) (wi_old i)); cbn [negb andb]; [|reflexivity].
    destruct (matched KDaemonSet (wo_name (wi_new i)) (wi_rollouts i)) as [r|]; [|reflexivity].
    destruct (rr_empty r); [reflexivity|]. destruct (rr_traffic r); cbn; refl_simpl; reflexivity.
  - (* Deployment *) unfold handle_deployment.
    destruct (sempty (wp_progress (wo_f (wi_new i)))); cbn [negb andb]; [|reflexivity].
    destruct (zero_replicas (wi_new i)); cbn [negb andb]; [reflexivity|].
    destruct (0 <? zlen (filter rs_active (wi_rss i))) eqn:Hact; cbn [andb]; [|reflexivity].
    destruct (release_change (wi_new i) (wi_old i)); cbn [negb andb]; [|reflexivity].
    destruct (matched KDeployment (wo_name (wi_new i)) (wi_rollouts i)) as [r|]; [|reflexivity].
    destruct (rr_empty r); [reflexivity|].
    destruct (zlen (filter rs_active (wi_rss i)) =? 0) eqn:H0; [lia|].
    destruct (rr_traffic r); cbn [negb orb andb].
    + destruct (zlen (filter rs_active (wi_rss i)) =? 1); cbn [negb]; [|reflexivity].
      destruct (stable_rs _ _); cbn; refl_simpl; reflexivity.
    + destruct (stable_rs _ _); cbn; refl_simpl; reflexivity.
  - (* StatefulSet-like *) unfold handle_stateful.
    destruct (wo_sts_label (wi_new i) || (kind =? "StatefulSet")%string) eqn:Hl; cbn [andb negb].
    2:{ reflexivity. }
    assert (Hl' : negb (wo_sts_label (wi_new i)) && negb (kind =? "StatefulSet")%string = false)
      by (destruct (wo_sts_label (wi_new i)), (kind =? "StatefulSet")%string; cbn in *; congruence).
    rewrite Hl'.
    destruct (sempty (wp_sts_type (wo_f (wi_new i))) || (wp_sts_type (wo_f (wi_new i)) =? "RollingUpdate")%string) eqn:Ht; cbn [andb negb].
    2:{ reflexivity. }
    destruct (wo_has_tmpl (wi_new i)); cbn [andb negb orb]; [|reflexivity].
    destruct (wo_has_tmpl (wi_old i)); cbn [andb negb orb]; [|reflexivity].
    destruct (zero_replicas (wi_new i)); cbn [negb andb]; [reflexivity|].
    destruct (release_change (wi_new i) (wi_old i)); cbn [negb andb]; [|reflexivity].
    destruct (matched (KOther group kind) (wo_name (wi_new i)) (wi_rollouts i)) as [r|]; [|reflexivity].
    destruct (rr_empty r); [reflexivity|].
    assert (Hh : held (KOther group kind) (set_progress (state_json (rr_name r))
             (set_sts (Some max_int16) (if wo_sts_has_us (wi_new i) then wp_sts_type (wo_f (wi_new i)) else "RollingUpdate") (wo_f (wi_new i)))) = true).
    { cbn. destruct (wo_sts_has_us (wi_new i)); [rewrite Ht|]; reflexivity. }
    destruct (rr_traffic r); cbn [negb orb]; rewrite Hh; cbn [wp_progress set_progress]; rewrite String.eqb_refl; reflexivity.
Qed.

(* everything else is admitted unchanged *)
Lemma unchanged i : unchanged_otherwise i (handle i) = true.
Proof.
  unfold unchanged_otherwise, must_be_unchanged, handle, active_rollout, in_progress.
  destruct (selected i) eqn:Hsel; cbn [negb andb orb]; [|reflexivity].
  destruct (wi_kind i) eqn:Hk; cbn [andb negb orb].
  - unfold handle_cloneset. destruct (zero_replicas (wi_new i)); [destruct (_ || _); reflexivity|].
    destruct (release_change (wi_new i) (wi_old i)); cbn [negb orb]; [|reflexivity].
    destruct (matched KCloneSet _ _) as [r|]; [|reflexivity]. destruct (rr_empty r); [reflexivity|].
    cbn [is_some negb]. reflexivity.
  - unfold handle_daemonset.
    destruct (release_change (wi_new i) (wi_old i)); cbn [negb orb]; [|reflexivity].
    destruct (matched KDaemonSet _ _) as [r|]; [|reflexivity]. destruct (rr_empty r); reflexivity.
  - unfold handle_deployment.
    destruct (sempty (wp_progress (wo_f (wi_new i)))); cbn [negb andb orb]; [|reflexivity].
    destruct (zero_replicas (wi_new i)); [destruct (_ || _); reflexivity|].
    destruct (release_change (wi_new i) (wi_old i)); cbn [negb orb]; [|reflexivity].
    destruct (matched KDeployment _ _) as [r|]; [|reflexivity]. destruct (rr_empty r); reflexivity.
  - unfold handle_stateful.
    destruct (negb (wo_sts_label (wi_new i)) && _); [destruct (_ || _); reflexivity|].
    destruct (zero_replicas (wi_new i)); [destruct (_ || _); reflexivity|].
    destruct (negb (sempty _ || _)); [destruct (_ || _); reflexivity|].
    destruct (negb (wo_has_tmpl (wi_old i)) || _); [destruct (_ || _); reflexivity|].
    destruct (release_change (wi_new i) (wi_old i)); cbn [negb orb]; [|reflexivity].
    destruct (matched (KOther group kind) _ _) as [r|]; [|reflexivity]. destruct (rr_empty r); reflexivity.
Qed.

(* fields outside the per-kind write set keep their submitted values; the in-progress marker of a running release is kept *)
Lemma frame i : frame_ok i (handle i) = true.
Proof.
  unfold frame_ok, handle, in_progress.
  destruct (selected i); cbn [negb]; [|reflexivity].
  destruct (wi_kind i) eqn:Hk.
  - unfold handle_cloneset. repeat split_goal; try reflexivity; cbn; refl_simpl; reflexivity.
  - unfold handle_daemonset. repeat split_goal; try reflexivity; cbn; refl_simpl; reflexivity.
  - unfold handle_deployment.
    destruct (sempty (wp_progress (wo_f (wi_new i)))) eqn:Hp; cbn [negb].
    + repeat split_goal; try reflexivity; cbn; refl_simpl; reflexivity.
    + repeat split_goal; try reflexivity; cbn; refl_simpl; reflexivity.
  - unfold handle_stateful. repeat split_goal; try reflexivity; cbn; refl_simpl; reflexivity.
Qed.

(* a Deployment in the middle of a canary- or partition-style release leaves admission paused *)
Lemma unpause i : unpause_corrected i (handle i) = true.
Proof.
  unfold unpause_corrected, handle, in_progress.
  destruct (selected i); cbn [negb andb]; [|reflexivity].
  destruct (wi_kind i) eqn:Hk; try reflexivity.
  unfold handle_deployment.
  destruct (sempty (wp_progress (wo_f (wi_new i)))) eqn:Hp; cbn [negb andb]; [reflexivity|].
  destruct (wo_style (wi_new i)); [| |].
  - destruct (wo_original (wi_new i)); cbn [negb]; [reflexivity|].
    destruct (wp_paused (wo_f (wi_new i))) eqn:Hpa; cbn [negb orb]; [|reflexivity].
    destruct (is_recreate _); [reflexivity|reflexivity].
  - destruct (wp_paused (wo_f (wi_new i))) eqn:Hpa; cbn [negb orb]; [|reflexivity].
    destruct (is_rolling _ || _ || _); [reflexivity|reflexivity].
  - destruct (wo_original (wi_new i)); cbn [negb]; [reflexivity|].
    destruct (wp_paused (wo_f (wi_new i))) eqn:Hpa; cbn [negb orb]; [|reflexivity].
    destruct (is_recreate _); [reflexivity|reflexivity].
Qed.

(* the handlers are total: no request makes admission fail *)
Lemma total i : no_failure (handle i) = true.
Proof.
  unfold handle, handle_cloneset, handle_daemonset, handle_deployment, handle_stateful.
  repeat split_goal; reflexivity.
Qed.

(* fetchMatchedRollout returns the first Rollout of the list that is live, enabled and references the workload *)
Lemma matched_is_first k name rs r : matched k name rs = Some r ->
  exists l1 l2, rs = l1 ++ r :: l2 /\ rollout_matches k name r = true /\ forallb (fun x => negb (rollout_matches k name x)) l1 = true.
Proof.
  unfold matched. induction rs as [|x rs IH]; cbn [find]; [discriminate|].
  destruct (rollout_matches k name x) eqn:Hx.
  - intros H; injection H as <-. exists [], rs. cbn. auto.
  - intros H. destruct (IH H) as (l1 & l2 & -> & Hm & Hall). exists (x :: l1), l2. cbn. rewrite Hx. auto.
Qed.
Lemma matched_none k name rs : matched k name rs = None -> forallb (fun x => negb (rollout_matches k name x)) rs = true.
Proof.
  unfold matched. induction rs as [|x rs IH]; cbn [find forallb]; [reflexivity|].
  destruct (rollout_matches k name x); [discriminate|]. intros H; cbn; auto.
Qed.

(* non-vacuity: a held CloneSet release, an un-pause correction, a request that must stay *)
Definition ex_patch := {| wp_progress := ""; wp_partition := Some (IInt 0); wp_ds_partition := None; wp_paused := false; wp_stype := StRolling;
  wp_ru := None; wp_anno_paused := false; wp_anno_written := false; wp_stable_label := ""; wp_sts_partition := None; wp_sts_type := "" |}.
Definition ex_obj tmpl := {| wo_name := "web"; wo_replicas := Some 3; wo_rid := ""; wo_tmpl := tmpl; wo_f := ex_patch; wo_st_replicas := 3; wo_st_updated := 3;
  wo_ds_rolling := true; wo_style := DsNone; wo_original := false; wo_sts_label := false; wo_sts_has_us := false; wo_has_tmpl := true |}.
Definition ex_rollout := {| rr_name := "ro"; rr_deleting := false; rr_disabled_phase := false; rr_apiversion_ok := true; rr_group := "apps.kruise.io";
  rr_kind := "CloneSet"; rr_wlname := "web"; rr_empty := false; rr_traffic := true |}.
Definition ex_input := {| wi_kind := KCloneSet; wi_new := ex_obj "v2"; wi_old := ex_obj "v1"; wi_rollouts := [ex_rollout]; wi_rss := [];
  wi_update := true; wi_rule := true; wi_selector := [("rollout", "true")]; wi_labels := [("rollout", "true")] |}.
Example held_somewhere : must_hold ex_input = Some "ro" /\
  handle ex_input = WPatched (set_progress "{""rolloutName"":""ro""}" (set_partition (Some (IPct 100)) ex_patch)).
Proof. vm_compute. split; reflexivity. Qed.
