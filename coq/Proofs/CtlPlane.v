(* Proofs about Model/CtlPlane.v: Finalize succeeds only on a released workload, whatever call fails. *)
From RV Require Import Base.Util Base.IntStr Model.CtlPlane.

(* partition-style Deployment: a successful Finalize of a claimed, paused Deployment (no batchPartition pending) hands it back *)
Theorem pdep_finalize_done_means_released f d d' : pd_claimed d = true -> pd_paused d = true ->
  pdep_finalize false f d = (Done, d') -> pdep_released d' = true.
Proof.
  intros Hc Hp. unfold pdep_finalize. destruct (api f VGet) as [[|] f1]; [discriminate|]. rewrite Hc, Hp. cbn [andb negb].
  destruct (api f1 VPatch) as [[|] f2]; [discriminate|]. intros H. injection H as <-. reflexivity.
Qed.
(* with a batchPartition pending it at least gives up the claim *)
Theorem pdep_finalize_done_unclaims p f d d' : pd_claimed d = true -> pd_paused d = true ->
  pdep_finalize p f d = (Done, d') -> pd_claimed d' = false.
Proof.
  intros Hc Hp. unfold pdep_finalize. destruct (api f VGet) as [[|] f1]; [discriminate|]. rewrite Hc, Hp. cbn [andb negb].
  destruct (api f1 VPatch) as [[|] f2]; [discriminate|]. intros H. injection H as <-. destruct p; reflexivity.
Qed.
(* a failure leaves the Deployment as it was *)
Theorem pdep_finalize_failed_unchanged p f d d' : pdep_finalize p f d = (Failed, d') -> d' = d.
Proof.
  unfold pdep_finalize. destruct (api f VGet) as [[|] f1]; [intros H; injection H as <-; reflexivity|].
  destruct (negb _); [discriminate|]. destruct (api f1 VPatch) as [[|] f2]; [intros H; injection H as <-; reflexivity|discriminate].
Qed.

(* canary-style Deployment *)
Lemma drop_finalizers_done f : forall l l' f', drop_finalizers f l = (Done, l', f') -> forallb negb l' = true.
Proof.
  intros l. revert f. induction l as [|b l IH]; intros f l' f' H; cbn [drop_finalizers] in H.
  - injection H as <- _. reflexivity.
  - destruct b.
    + destruct (api f VGet) as [[|] f1]; [discriminate|]. destruct (api f1 VUpdate) as [[|] f2]; [discriminate|].
      destruct (drop_finalizers f2 l) as [[o rest'] f3] eqn:E. injection H as -> <- _. cbn. eapply IH; eauto.
    + destruct (drop_finalizers f l) as [[o rest'] f3] eqn:E. injection H as -> <- _. cbn. eapply IH; eauto.
Qed.

(* Finalize reports success only when the stable Deployment is un-claimed and no owned canary Deployment keeps the
   batch-release finalizer -- whichever API call was made to fail *)
Theorem cdep_finalize_done_means_released p wr f d d' : cdep_finalize p wr f d = (Done, d') -> cdep_released d' = true.
Proof.
  unfold cdep_finalize. destruct (api f VGet) as [[|] f1]; [discriminate|]. destruct (api f1 VPatch) as [[|] f2]; [discriminate|].
  destruct (wr && negb _); [discriminate|]. destruct (api f2 VList) as [[|] f3]; [discriminate|]. destruct (api f3 VList) as [[|] f4]; [discriminate|].
  destruct (drop_finalizers f4 (cd_canaries d)) as [[o l'] f5] eqn:E. intros H. injection H as -> <-.
  unfold cdep_released. cbn. eapply drop_finalizers_done; eauto.
Qed.
(* ... and, with "wait for resume", only when the promoted Deployment is fully updated and available *)
Theorem cdep_finalize_done_means_promoted p f d d' : cdep_finalize p true f d = (Done, d') -> cdep_promoted p (cd_status d) = true.
Proof.
  unfold cdep_finalize. destruct (api f VGet) as [[|] f1]; [discriminate|]. destruct (api f1 VPatch) as [[|] f2]; [discriminate|].
  cbn [andb]. destruct (cdep_promoted p (cd_status d)); [reflexivity|discriminate].
Qed.

(* Initialize is total (it never panics in the model: every branch returns), claims before it creates, and creates at most
   one canary Deployment, only when none exists *)
Theorem cdep_initialize_creates_at_most_one f d o d' : cdep_initialize f d = (o, d') ->
  cd_canaries d' = cd_canaries d \/ (cd_canaries d = [] /\ cd_canaries d' = [true] /\ cd_claimed d' = true).
Proof.
  unfold cdep_initialize. destruct (api f VGet) as [[|] f1]; [intros H; injection H as _ <-; auto|].
  destruct (if cd_claimed d then _ else _) as [[|] f2]; [intros H; injection H as _ <-; auto|].
  destruct (api f2 VList) as [[|] f3]; [intros H; injection H as _ <-; auto|].
  destruct (cd_canaries d) as [|b l] eqn:E; [|intros H; injection H as _ <-; cbn; auto].
  destruct (api f3 VGet) as [[|] f4]; [intros H; injection H as _ <-; cbn; auto|].
  destruct (api f4 VCreate) as [[|] f5]; intros H; injection H as _ <-; cbn; auto.
Qed.
