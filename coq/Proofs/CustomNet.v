(* Proofs about Model/CustomNet.v (C15): for ANY script (the Section parameter), any number of references, any history. *)
From RV Require Import Base.Util Model.CustomNet Corr.CustomNet.

Lemma list_eqb_eq {A} (e : A -> A -> bool) (He : forall x y, e x y = true -> x = y) : forall a b, list_eqb e a b = true -> a = b.
Proof. induction a as [|x a IH]; destruct b as [|y b]; cbn; try discriminate; auto.
  intros H. apply andb_prop in H as [H1 H2]. f_equal; auto. Qed.
Lemma list_eqb_refl {A} (e : A -> A -> bool) (He : forall x, e x x = true) : forall a, list_eqb e a a = true.
Proof. induction a as [|x a IH]; cbn; auto. rewrite He, IH. reflexivity. Qed.
Lemma opt_eqb_eq {A} (e : A -> A -> bool) (He : forall x y, e x y = true -> x = y) a b : opt_eqb e a b = true -> a = b.
Proof. destruct a, b; cbn; try discriminate; auto. intros H; f_equal; auto. Qed.
Lemma opt_eqb_refl {A} (e : A -> A -> bool) (He : forall x, e x x = true) a : opt_eqb e a a = true.
Proof. destruct a; cbn; auto. Qed.

Lemma smap_eqb_eq a b : smap_eqb a b = true -> a = b.
Proof. apply list_eqb_eq. intros [k v] [k' v']; cbn. intros H. apply andb_prop in H as [H1 H2].
  apply String.eqb_eq in H1, H2. congruence. Qed.
Lemma smap_eqb_refl a : smap_eqb a a = true.
Proof. apply list_eqb_refl. intros [k v]; cbn. rewrite !String.eqb_refl. reflexivity. Qed.
Lemma omap_eqb_eq a b : omap_eqb a b = true -> a = b. Proof. apply opt_eqb_eq, smap_eqb_eq. Qed.
Lemma omap_eqb_refl a : omap_eqb a a = true. Proof. apply opt_eqb_refl, smap_eqb_refl. Qed.
Lemma ostr_eqb_eq a b : opt_eqb String.eqb a b = true -> a = b. Proof. apply opt_eqb_eq. intros x y; apply String.eqb_eq. Qed.
Lemma ostr_eqb_refl a : opt_eqb String.eqb a a = true. Proof. apply opt_eqb_refl, String.eqb_refl. Qed.

Lemma omit_empty_idem m : omit_empty (omit_empty m) = omit_empty m.
Proof. destruct m as [[|]|]; reflexivity. Qed.

Lemma same_user_config_snapshot a b : same_user_config a b = true -> snapshot_of a = snapshot_of b.
Proof. unfold same_user_config, snapshot_of. intros H. apply andb_prop in H as [H H3]. apply andb_prop in H as [H1 H2].
  apply ostr_eqb_eq in H1. apply omap_eqb_eq in H2, H3. congruence. Qed.
Lemma same_user_config_refl a : same_user_config a a = true.
Proof. unfold same_user_config. rewrite ostr_eqb_refl, !omap_eqb_refl. reflexivity. Qed.

Section Laws.
  Context {S : Type}.
  Variable script : nat -> data -> S -> option data.

  (* the invariant of one managed object w.r.t. what the user had (u): either untouched (up to nil/empty maps) or
     carrying the snapshot of u *)
  Definition inv1 (u o : obj) : Prop :=
    (o_snap o = SAbsent /\ same_user_config u o = true) \/ o_snap o = SData (snapshot_of u).
  Definition inv_opt (u o : option obj) : Prop :=
    match u, o with Some a, Some b => inv1 a b | None, None => True | _, _ => False end.
  Definition inv (us l : list (option obj)) : Prop := Forall2 inv_opt us l.

  Definition fresh1 (u : obj) : Prop := o_snap u = SAbsent.
  Definition all_fresh (us : list (option obj)) : Prop := Forall (fun x => match x with Some u => fresh1 u | None => True end) us.

  Lemma inv_init us : all_fresh us -> inv us us.
  Proof. unfold inv. induction 1 as [|x us Hx _ IH]; constructor; auto.
    destruct x as [u|]; cbn; auto. left. split; [exact Hx|apply same_user_config_refl]. Qed.

  (* ---- single object steps ---- *)
  Lemma store_inv u o : inv1 u o -> o_snap (fst (store o)) = SData (snapshot_of u).
  Proof. unfold store. intros [[Hs Hc]|Hs]; rewrite Hs; cbn; [|exact Hs].
    f_equal. symmetry. apply same_user_config_snapshot, Hc. Qed.
  Lemma apply_data_snap d o : o_snap (fst (apply_data d o)) = o_snap o.
  Proof. unfold apply_data. destruct (_ && _ && _); reflexivity. Qed.
  Lemma apply_data_shows d o : shows d (fst (apply_data d o)) = true.
  Proof. unfold apply_data, same_spec. destruct (_ && _ && _) eqn:E; cbn [fst].
    - unfold shows. exact E.
    - unfold shows; cbn [o_spec o_labels o_annos]. rewrite ostr_eqb_refl, !omap_eqb_refl. reflexivity. Qed.
  Lemma apply_data_noop d o : shows d o = true -> apply_data d o = (o, 0).
  Proof. unfold apply_data, shows, same_spec. intros ->. reflexivity. Qed.
  Lemma restore_inv u o : inv1 u o ->
    o_snap (fst (restore o)) = SAbsent /\ same_user_config u (fst (restore o)) = true.
  Proof. unfold restore. intros [[Hs Hc]|Hs]; rewrite Hs; cbn [fst]; [auto|].
    split; [reflexivity|]. unfold same_user_config, snapshot_of; cbn.
    rewrite ostr_eqb_refl, !omit_empty_idem, !omap_eqb_refl. reflexivity. Qed.

  (* ---- lists ---- *)
  Lemma all_present_spec l objs : all_present l = Some objs -> l = map Some objs.
  Proof. revert objs. induction l as [|[o|] l IH]; cbn; intros objs H; [injection H as <-; reflexivity| |discriminate].
    destruct (all_present l); [|discriminate]. injection H as <-. cbn. f_equal. auto. Qed.

  Definition snaps_are (us : list obj) (l : list obj) : Prop := Forall2 (fun u o => o_snap o = SData (snapshot_of u)) us l.

  Lemma inv_map_some us objs : inv us (map Some objs) -> exists us', us = map Some us' /\ Forall2 inv1 us' objs.
  Proof. revert us. induction objs as [|o objs IH]; intros us H; inversion H; subst.
    - exists []. split; [reflexivity|constructor].
    - match goal with H1 : inv_opt ?x (Some o), H2 : Forall2 _ ?l (map Some objs) |- _ =>
        destruct x as [u|]; [|destruct H1]; destruct (IH l H2) as (us' & -> & HF); exists (u :: us'); split; [reflexivity|constructor; auto] end. Qed.

  Lemma stored_snaps us objs : Forall2 inv1 us objs -> snaps_are us (map fst (map store objs)).
  Proof. induction 1; cbn; constructor; auto using store_inv. Qed.

  Lemma snaps_inv us l : snaps_are us l -> inv (map Some us) (map Some l).
  Proof. induction 1; cbn; constructor; auto. cbn. right. assumption. Qed.

  Lemma apply_all_snaps ds : forall us l, snaps_are us l -> snaps_are us (fst (apply_all ds l)).
  Proof. induction ds as [|d ds IH]; intros us l H; [destruct l; exact H|].
    destruct H as [|u o us l Ho Hl]; [constructor|]. cbn.
    destruct (apply_data d o) as [o' w] eqn:E. specialize (IH _ _ Hl). destruct (apply_all ds l) as [t' w']. cbn in *.
    constructor; auto. replace o' with (fst (apply_data d o)) by (rewrite E; reflexivity). rewrite apply_data_snap. exact Ho. Qed.

  (* what the scripts are asked: always the snapshot of what the user had *)
  Definition expected (i : nat) (us : list obj) (s : S) : list (option data) :=
    map (fun p => script (fst p) (snapshot_of (snd p)) s) (combine (seq i (List.length us)) us).

  Lemma run_scripts_spec s : forall i us l ds, snaps_are us l -> run_scripts script i l s = Some ds -> map Some ds = expected i us s.
  Proof. intros i us l ds H. revert i ds. induction H as [|u o us l Ho Hl IH]; intros i ds; cbn.
    - intros H; injection H as <-. reflexivity.
    - rewrite Ho. destruct (script i (snapshot_of u) s) as [r|] eqn:Er; [|discriminate].
      destruct (run_scripts script (Datatypes.S i) l s) as [rs|] eqn:Ers; [|discriminate]. intros H; injection H as <-.
      unfold expected. cbn. try rewrite Er. f_equal. apply IH. exact Ers. Qed.

  Lemma run_scripts_snaps s : forall i l l', map o_snap l = map o_snap l' -> run_scripts script i l s = run_scripts script i l' s.
  Proof. intros i l. revert i. induction l as [|o l IH]; intros i [|o' l'] H; try discriminate; [reflexivity|].
    cbn in H. injection H as H1 H2. cbn. rewrite H1. destruct (o_snap o'); try reflexivity.
    destruct (script i d s); [|reflexivity]. rewrite (IH _ _ H2). reflexivity. Qed.

  Lemma apply_all_shows : forall ds l, List.length ds = List.length l -> Forall2 (fun d o => shows d o = true) ds (fst (apply_all ds l)).
  Proof. induction ds as [|d ds IH]; intros [|o l] H; try discriminate; [constructor|]. cbn.
    destruct (apply_data d o) as [o' w] eqn:E. injection H as H. specialize (IH _ H). destruct (apply_all ds l) as [t' w']. cbn in *.
    constructor; auto. replace o' with (fst (apply_data d o)) by (rewrite E; reflexivity). apply apply_data_shows. Qed.
  Lemma apply_all_noop : forall ds l, Forall2 (fun d o => shows d o = true) ds l -> apply_all ds l = (l, 0).
  Proof. induction 1 as [|d o ds l Hd _ IH]; [reflexivity|]. cbn. rewrite (apply_data_noop _ _ Hd), IH. reflexivity. Qed.
  Lemma apply_all_snap_list : forall ds l, map o_snap (fst (apply_all ds l)) = map o_snap l.
  Proof. induction ds as [|d ds IH]; intros [|o l]; try reflexivity. cbn.
    destruct (apply_data d o) as [o' w] eqn:E. specialize (IH l). destruct (apply_all ds l) as [t' w']. cbn in *.
    f_equal; auto. replace o' with (fst (apply_data d o)) by (rewrite E; reflexivity). apply apply_data_snap. Qed.
  Lemma run_scripts_length s : forall l i ds, run_scripts script i l s = Some ds -> List.length ds = List.length l.
  Proof. induction l as [|o l IH]; intros i ds; cbn; [intros H; injection H as <-; reflexivity|].
    destruct (o_snap o); try discriminate. destruct (script i d s); [|discriminate].
    destruct (run_scripts script (Datatypes.S i) l s) eqn:E; [|discriminate]. intros H; injection H as <-. cbn. f_equal. eauto. Qed.

  (* ---- the provider operations preserve the invariant ---- *)
  Lemma ensure_inv us l s : inv us l -> inv us (fst (fst (ensure script l s))).
  Proof. intros H. unfold ensure. destruct (all_present l) as [objs|] eqn:Ep; [|exact H].
    apply all_present_spec in Ep. subst l. destruct (inv_map_some _ _ H) as (us' & -> & HF).
    pose proof (stored_snaps _ _ HF) as Hs.
    destruct (run_scripts script 0 (map fst (map store objs)) s) as [ds|]; cbn [fst].
    - destruct (apply_all ds (map fst (map store objs))) as [objs2 w2] eqn:Ea. cbn [fst].
      apply snaps_inv. replace objs2 with (fst (apply_all ds (map fst (map store objs)))) by (rewrite Ea; reflexivity).
      apply apply_all_snaps, Hs.
    - apply snaps_inv, Hs. Qed.

  Lemma finalise_inv us l : inv us l -> inv us (fst (finalise l)).
  Proof. unfold finalise. cbn [fst]. induction 1 as [|u o us l Huo _ IH]; cbn; constructor; auto.
    destruct u as [u|], o as [o|]; cbn in *; try contradiction; auto.
    destruct (restore o) as [o' m] eqn:E. cbn. destruct (restore_inv _ _ Huo) as [H1 H2]. rewrite E in H1, H2. left. auto. Qed.

  Lemma run_inv us ops : forall l, inv us l -> inv us (run script l ops).
  Proof. unfold run. induction ops as [|o ops IH]; intros l H; [exact H|]. cbn. apply IH.
    destruct o; cbn [step]; [apply ensure_inv|apply finalise_inv]; exact H. Qed.

  (* ---- stateless apply ---- *)
  Lemma ensure_stateless us l s l' b w : inv us l -> ensure script l s = (l', EDone b, w) ->
    exists us' objs', us = map Some us' /\ l' = map Some objs' /\
      Forall2 (fun e o => exists d, e = Some d /\ shows d o = true) (expected 0 us' s) objs'.
  Proof. intros H. unfold ensure. destruct (all_present l) as [objs|] eqn:Ep; [|discriminate].
    apply all_present_spec in Ep. subst l. destruct (inv_map_some _ _ H) as (us' & -> & HF).
    pose proof (stored_snaps _ _ HF) as Hs.
    destruct (run_scripts script 0 (map fst (map store objs)) s) as [ds|] eqn:Er; [|discriminate].
    destruct (apply_all ds (map fst (map store objs))) as [objs2 w2] eqn:Ea. intros E; injection E as <- _ _.
    exists us', objs2. split; [reflexivity|]. split; [reflexivity|].
    rewrite <- (run_scripts_spec _ _ _ _ _ Hs Er).
    pose proof (apply_all_shows ds _ (run_scripts_length _ _ _ _ Er)) as Hsh. rewrite Ea in Hsh. cbn in Hsh.
    clear -Hsh. induction Hsh; cbn; constructor; eauto. Qed.

  (* ---- a repeated step writes nothing ---- *)
  Lemma ensure_idempotent us l s l' b w : inv us l -> ensure script l s = (l', EDone b, w) -> ensure script l' s = (l', EDone true, 0).
  Proof. intros H. unfold ensure at 1. destruct (all_present l) as [objs|] eqn:Ep; [|discriminate].
    apply all_present_spec in Ep. subst l. destruct (inv_map_some _ _ H) as (us' & -> & HF).
    pose proof (stored_snaps _ _ HF) as Hs. set (objs1 := map fst (map store objs)) in *.
    destruct (run_scripts script 0 objs1 s) as [ds|] eqn:Er; [|discriminate].
    destruct (apply_all ds objs1) as [objs2 w2] eqn:Ea. intros E; injection E as <- _ _.
    assert (Hsn : map o_snap objs2 = map o_snap objs1).
    { replace objs2 with (fst (apply_all ds objs1)) by (rewrite Ea; reflexivity). apply apply_all_snap_list. }
    assert (Hs2 : snaps_are us' objs2).
    { replace objs2 with (fst (apply_all ds objs1)) by (rewrite Ea; reflexivity). apply apply_all_snaps, Hs. }
    unfold ensure.
    assert (Hp : all_present (map Some objs2) = Some objs2) by (clear; induction objs2; cbn; [|rewrite IHobjs2]; reflexivity).
    rewrite Hp.
    assert (Hst : map store objs2 = map (fun o => (o, 0)) objs2).
    { clear -Hs2. induction Hs2 as [|u o us l Ho _ IH]; cbn; [reflexivity|]. rewrite IH. f_equal. unfold store. rewrite Ho. reflexivity. }
    rewrite Hst. rewrite !map_map. cbn [fst snd]. rewrite map_id.
    rewrite (run_scripts_snaps s 0 objs2 objs1 Hsn), Er.
    pose proof (apply_all_shows ds _ (run_scripts_length _ _ _ _ Er)) as Hsh. rewrite Ea in Hsh. cbn in Hsh.
    rewrite (apply_all_noop _ _ Hsh).
    replace (fold_right Z.add 0 (map (fun _ : obj => 0) objs2)) with 0 by (clear; induction objs2; cbn; lia).
    reflexivity. Qed.

  (* ---- exact restore ---- *)
  Lemma finalise_restores us l : inv us l ->
    Forall2 (fun u o => match u, o with
                        | Some a, Some b => o_snap b = SAbsent /\ same_user_config a b = true
                        | None, None => True | _, _ => False end) us (fst (finalise l)).
  Proof. unfold finalise. cbn [fst]. induction 1 as [|u o us l Huo _ IH]; cbn; constructor; auto.
    destruct u as [u|], o as [o|]; cbn in *; try contradiction; auto.
    destruct (restore o) as [o' m] eqn:E. cbn. destruct (restore_inv _ _ Huo) as [H1 H2]. rewrite E in H1, H2. auto. Qed.

  (* a second Finalise changes nothing *)
  Lemma finalise_twice l : finalise (fst (finalise l)) = (fst (finalise l), false).
  Proof. unfold finalise. cbn [fst]. induction l as [|[o|] l IH]; cbn; [reflexivity| |].
    - injection IH as IH1 IH2. destruct (restore o) as [o' m] eqn:E. cbn.
      assert (Hr : restore o' = (o', false)).
      { unfold restore in E |- *. destruct (o_snap o) eqn:Es; injection E as <- <-; cbn; rewrite ?Es; reflexivity. }
      rewrite Hr. cbn. rewrite IH1, IH2. reflexivity.
    - injection IH as IH1 IH2. rewrite IH1, IH2. reflexivity. Qed.
  (* ---- histories: any sequence of steps and finalisations from what the user had ---- *)
  Lemma history_stateless us ops s l' b w : all_fresh us -> ensure script (run script us ops) s = (l', EDone b, w) ->
    exists us' objs', us = map Some us' /\ l' = map Some objs' /\
      Forall2 (fun e o => exists d, e = Some d /\ shows d o = true) (expected 0 us' s) objs'.
  Proof. intros Hf. apply ensure_stateless. apply run_inv, inv_init, Hf. Qed.
  Lemma history_restore us ops : all_fresh us ->
    Forall2 (fun u o => match u, o with
                        | Some a, Some b => o_snap b = SAbsent /\ same_user_config a b = true
                        | None, None => True | _, _ => False end) us (fst (finalise (run script us ops))).
  Proof. intros Hf. apply finalise_restores. apply run_inv, inv_init, Hf. Qed.
  Lemma history_idempotent us ops s l' b w : all_fresh us -> ensure script (run script us ops) s = (l', EDone b, w) ->
    ensure script l' s = (l', EDone true, 0).
  Proof. intros Hf. apply ensure_idempotent with (us := us). apply run_inv, inv_init, Hf. Qed.
End Laws.

(* non-vacuity: a script that sets a weight label; two steps and a finalise *)
Definition ex_script (i : nat) (d : data) (s : Z) : option data :=
  Some {| d_spec := d_spec d; d_labels := Some [("weight", itoa s)]; d_annos := d_annos d |}.
Definition ex_user := {| o_spec := Some "{""a"":1}"; o_labels := Some []; o_annos := None; o_snap := SAbsent |}.
Example ex_history :
  let l := run ex_script [Some ex_user] [OEnsure 10; OEnsure 50] in
  l = [Some {| o_spec := Some "{""a"":1}"; o_labels := Some [("weight", "50")]; o_annos := Some [];
               o_snap := SData {| d_spec := Some "{""a"":1}"; d_labels := None; d_annos := None |} |}] /\
  fst (finalise l) = [Some {| o_spec := Some "{""a"":1}"; o_labels := None; o_annos := None; o_snap := SAbsent |}].
Proof. vm_compute. split; reflexivity. Qed.
