(* Proofs about Model/Validate.v (C09, validation half). *)
From RV Require Import Base.Util Base.IntStr Model.Validate Corr.Validate.

(* the same-type chain check implies that EVERY pair of same-typed steps is ordered *)
Lemma monotone_bounds : forall steps lp li, monotone_from lp li steps = true ->
  (forall p, lp = Some p -> forallb (fun x => negb (is_pct (vs_replicas x)) || (p <=? val100 (vs_replicas x))) steps = true) /\
  (forall p, li = Some p -> forallb (fun x => is_pct (vs_replicas x) || (p <=? val100 (vs_replicas x))) steps = true) /\
  all_pairs_ordered steps = true.
Proof.
  induction steps as [|s t IH]; intros lp li H; cbn [monotone_from] in H; [cbn; auto|].
  destruct (is_pct (vs_replicas s)) eqn:Ep; apply andb_prop in H as [H1 H2]; destruct (IH _ _ H2) as (A & B & C).
  - repeat split.
    + intros p ->. cbn [forallb]. rewrite Ep. cbn [negb orb]. rewrite H1. cbn [andb].
      specialize (A _ eq_refl). apply Z.leb_le in H1. rewrite forallb_forall in A |- *. intros x Hx. specialize (A x Hx).
      destruct (is_pct (vs_replicas x)); cbn in *; [|reflexivity]. apply Z.leb_le in A. apply Z.leb_le. lia.
    + intros p ->. cbn [forallb]. rewrite Ep. cbn [orb andb]. apply (B _ eq_refl).
    + cbn [all_pairs_ordered]. rewrite C, andb_true_r. specialize (A _ eq_refl). rewrite forallb_forall in A |- *. intros x Hx. specialize (A x Hx).
      rewrite Ep. destruct (is_pct (vs_replicas x)); cbn in *; [exact A|reflexivity].
  - repeat split.
    + intros p ->. cbn [forallb]. rewrite Ep. cbn [negb orb andb]. apply (A _ eq_refl).
    + intros p ->. cbn [forallb]. rewrite Ep. cbn [orb]. rewrite H1. cbn [andb].
      specialize (B _ eq_refl). apply Z.leb_le in H1. rewrite forallb_forall in B |- *. intros x Hx. specialize (B x Hx).
      destruct (is_pct (vs_replicas x)); cbn in *; [reflexivity|]. apply Z.leb_le in B. apply Z.leb_le. lia.
    + cbn [all_pairs_ordered]. rewrite C, andb_true_r. specialize (B _ eq_refl). rewrite forallb_forall in B |- *. intros x Hx. specialize (B x Hx).
      rewrite Ep. destruct (is_pct (vs_replicas x)); cbn in *; [reflexivity|exact B].
Qed.

Lemma step_ok_replicas style s : step_ok style s = true ->
  match vs_replicas s with Some x => negb (snd (scaled_err true x 100)) && (0 <? scaled true x 100) | None => false end = true.
Proof.
  unfold step_ok, scaled. destruct (vs_replicas s) as [r|]; [|discriminate].
  destruct (scaled_err true r 100) as [v err] eqn:E. cbn [fst snd].
  destruct err; cbn [orb negb andb]; [discriminate|]. destruct (v <=? 0) eqn:Ev; cbn [orb]; [discriminate|]. intros _.
  apply Z.leb_gt in Ev. apply Z.ltb_lt. lia.
Qed.

(* what an admitted Rollout looks like *)
Theorem admitted_steps_promise r others : create_ok r others = true -> steps_promise r = true.
Proof.
  unfold create_ok, spec_ok, steps_promise. intros H. apply andb_prop in H as [H _]. apply andb_prop in H as [_ H].
  destruct (v_strategy r) as [| |ex steps trs|steps trs]; try discriminate; cbn [steps_of];
  apply andb_prop in H as [H _]; apply andb_prop in H as [H _]; unfold steps_ok in H;
  apply andb_prop in H as [H Hm]; apply andb_prop in H as [Hne Hall];
  rewrite Hne; cbn [andb]; (apply andb_true_intro; split; [|apply (monotone_bounds _ _ _ Hm)]);
  rewrite forallb_forall in Hall |- *; intros s Hs; apply (step_ok_replicas _ _ (Hall s Hs)).
Qed.

Theorem admitted_has_no_conflict r others : create_ok r others = true -> conflicts r others = false.
Proof. unfold create_ok. intros H. apply andb_prop in H as [_ H]. apply Bool.negb_true_iff in H. exact H. Qed.

Theorem update_keeps_structure old new others same : update_ok old new others true same = true ->
  vr_key (v_ref old) = vr_key (v_ref new) /\ same = true /\ rolling_style old = rolling_style new /\
  zlen (steps_of (v_strategy old)) = zlen (steps_of (v_strategy new)).
Proof.
  unfold update_ok. intros H. apply andb_prop in H as [_ H]. repeat (apply andb_prop in H as [H ?]).
  repeat split.
  - apply String.eqb_eq. assumption.
  - assumption.
  - destruct (rolling_style old), (rolling_style new); cbn in *; congruence.
  - apply Z.eqb_eq. assumption.
Qed.

Example mixed_plan_rejected :
  let st r := {| vs_replicas := Some r; vs_traffic := None; vs_matches := false; vs_weight := None |} in
  steps_ok (Some VsPartition) [st (IPct 50); st (IInt 5); st (IPct 10)] = false /\
  steps_ok (Some VsPartition) [st (IPct 10); st (IInt 5); st (IPct 50)] = true.
Proof. vm_compute. split; reflexivity. Qed.
