(* Proofs about Model/Gateway.v (C13). *)
From RV Require Import Base.Util Model.Gateway.

(* ---------- request semantics ---------- *)
(* How a gateway compares a pattern with an actual value (Exact, PathPrefix, RegularExpression, ...)
   is left abstract: the theorems hold for every comparison function. *)
Section Semantics.
  Variable cmp : string (* match type *) -> string (* pattern *) -> string (* actual *) -> bool.

  Record request := { q_path : string; q_headers : list (string * string); q_query : list (string * string); q_method : string }.

  Definition kv_ok (actual : list (string * string)) (m : kv) : bool :=
    existsb (fun nv => String.eqb (fst nv) (k_name m) && cmp (k_type m) (k_val m) (snd nv)) actual.
  Definition accepts (q : request) (m : hmatch) : bool :=
    (match m_path m with None => true | Some (t, v) => cmp t v (q_path q) end) &&
    forallb (kv_ok (q_headers q)) (m_headers m) && forallb (kv_ok (q_query q)) (m_query m) &&
    (sempty (m_method m) || String.eqb (m_method m) (q_method q)).
  Definition rule_accepts (q : request) (r : rule) : bool := existsb (accepts q) (r_matches r).

  (* what the user asked for: a match with a path stands alone; a match without a path narrows the
     original rule's own conditions *)
  Definition user_ok (q : request) (ms : list hmatch) (orig : rule) : bool :=
    existsb (fun u => if has_path u then accepts q u else accepts q u && rule_accepts q orig) ms.

  Lemma accepts_path_only q u : sempty (m_method u) = true -> accepts q (path_only u) = accepts q u.
  Proof. intros H. unfold accepts, path_only. cbn. rewrite H. reflexivity. Qed.

  Lemma accepts_add_user q base u : m_path u = None -> sempty (m_method u) = true ->
    accepts q (add_user base u) = accepts q base && accepts q u.
  Proof.
    intros Hp Hm. unfold accepts, add_user. cbn. rewrite Hp, Hm, !forallb_app. cbn.
    destruct (match m_path base with Some (t, v) => cmp t v (q_path q) | None => true end); cbn; [|reflexivity].
    destruct (forallb (kv_ok (q_headers q)) (m_headers base)); cbn; [|reflexivity].
    destruct (forallb (kv_ok (q_headers q)) (m_headers u)); cbn; [|now rewrite !andb_false_r].
    destruct (forallb (kv_ok (q_query q)) (m_query base)); cbn; [|reflexivity].
    destruct (forallb (kv_ok (q_query q)) (m_query u)); cbn; [|now rewrite !andb_false_r].
    rewrite andb_true_r. reflexivity.
  Qed.

  (* the matches of a generated canary rule *)
  Definition canary_matches (ms : list hmatch) (pm : list hmatch) (o : rule) : list hmatch :=
    map path_only pm ++ flat_map (fun base => map (add_user base) (filter (fun m => negb (has_path m)) ms)) (r_matches o).

  Lemma canary_matches_narrow q ms pm o : (forall u, In u ms -> sempty (m_method u) = true) -> incl pm (filter has_path ms) ->
    existsb (accepts q) (canary_matches ms pm o) = true -> user_ok q ms o = true.
  Proof.
    intros Hmeth Hpm H. unfold canary_matches in H. rewrite existsb_app in H. apply orb_true_iff in H.
    unfold user_ok. apply existsb_exists. destruct H as [H|H].
    - apply existsb_exists in H. destruct H as [m' [Hin Hacc]]. apply in_map_iff in Hin. destruct Hin as [u [<- Hu]].
      apply Hpm in Hu. apply filter_In in Hu. destruct Hu as [Hu Hp]. exists u. split; [exact Hu|]. rewrite Hp.
      rewrite accepts_path_only in Hacc by (apply Hmeth; exact Hu). exact Hacc.
    - apply existsb_exists in H. destruct H as [m' [Hin Hacc]]. apply in_flat_map in Hin. destruct Hin as [base [Hb Hin]].
      apply in_map_iff in Hin. destruct Hin as [u [<- Hu]]. apply filter_In in Hu. destruct Hu as [Hu Hp].
      apply negb_true_iff in Hp. exists u. split; [exact Hu|]. rewrite Hp.
      assert (Hnone : m_path u = None) by (unfold has_path in Hp; destruct (m_path u); [discriminate|reflexivity]).
      rewrite accepts_add_user in Hacc by (auto). apply andb_true_iff in Hacc. destruct Hacc as [Hab Hau].
      rewrite Hau. cbn. unfold rule_accepts. apply existsb_exists. exists base. auto.
  Qed.
End Semantics.

(* ---------- structure of header_rules ---------- *)
Definition nonpath (ms : list hmatch) : list hmatch := filter (fun m => negb (has_path m)) ms.

Lemma restore_none_id c r : get_ref (g_canary c) r = None -> restore_for_match c r = Some r.
Proof. intros H. unfold restore_for_match. rewrite H. reflexivity. Qed.

(* every input rule that does not reference the canary Service is kept as it is *)
Lemma header_go_keeps c np : forall rules pm d cs, header_rules_go c np rules pm = (d, cs) ->
  forall r, In r rules -> get_ref (g_canary c) r = None -> In r d.
Proof.
  induction rules as [|r0 rules IH]; intros pm d cs H r Hin Hn; [destruct Hin|].
  cbn [header_rules_go] in H. destruct (restore_for_match c r0) as [r1|] eqn:Hres.
  - destruct (get_ref (g_stable c) r1) as [[i s]|] eqn:Hst.
    + destruct (header_rules_go c np rules []) as [d' cs'] eqn:Hrec.
      assert (Hd : d = r1 :: d') by (destruct (_ && _); inversion H; reflexivity). subst d.
      destruct Hin as [<-|Hin]; [left; rewrite restore_none_id in Hres by exact Hn; inversion Hres; reflexivity|right; eapply IH; eauto].
    + destruct (header_rules_go c np rules pm) as [d' cs'] eqn:Hrec. inversion H; subst.
      destruct Hin as [<-|Hin]; [left; rewrite restore_none_id in Hres by exact Hn; inversion Hres; reflexivity|right; eapply IH; eauto].
  - destruct Hin as [<-|Hin]; [rewrite restore_none_id in Hres by exact Hn; discriminate|eapply IH; eauto].
Qed.

(* shape of every generated canary rule *)
Lemma header_go_generated c ms : forall rules pm d cs, incl pm (filter has_path ms) ->
  header_rules_go c (nonpath ms) rules pm = (d, cs) ->
  forall g, In g cs -> exists r0 r s pm', In r0 rules /\ restore_for_match c r0 = Some r /\ incl pm' (filter has_path ms) /\
       get_ref (g_stable c) r = Some s /\ r_refs g = [set_name (snd s) (g_canary c)] /\ r_rest g = r_rest r /\
       r_matches g = map path_only pm' ++ flat_map (fun base => map (add_user base) (nonpath ms)) (r_matches r) /\
       (nonpath ms <> [] \/ pm' <> []).
Proof.
  induction rules as [|r0 rules IH]; intros pm d cs Hpm H g Hg.
  { cbn in H. inversion H; subst. destruct Hg. }
  assert (Hnil : incl (@nil hmatch) (filter has_path ms)) by (intros x []).
  assert (Hlift : forall pm0 d0 cs0, incl pm0 (filter has_path ms) -> header_rules_go c (nonpath ms) rules pm0 = (d0, cs0) -> In g cs0 ->
            exists r0' r s pm', In r0' (r0 :: rules) /\ restore_for_match c r0' = Some r /\ incl pm' (filter has_path ms) /\
              get_ref (g_stable c) r = Some s /\ r_refs g = [set_name (snd s) (g_canary c)] /\ r_rest g = r_rest r /\
              r_matches g = map path_only pm' ++ flat_map (fun base => map (add_user base) (nonpath ms)) (r_matches r) /\
              (nonpath ms <> [] \/ pm' <> [])).
  { intros pm0 d0 cs0 Hp0 Hr0 Hg0. destruct (IH _ _ _ Hp0 Hr0 g Hg0) as [r1 [r2 [s2 [pm2 [Hin Hrest]]]]].
    exists r1, r2, s2, pm2. split; [right; exact Hin|exact Hrest]. }
  cbn [header_rules_go] in H. destruct (restore_for_match c r0) as [r|] eqn:Hres; [|exact (Hlift pm d cs Hpm H Hg)].
  destruct (get_ref (g_stable c) r) as [[i s]|] eqn:Hst.
  - destruct (header_rules_go c (nonpath ms) rules []) as [d' cs'] eqn:Hrec.
    destruct ((Nat.eqb (List.length (nonpath ms)) 0) && (Nat.eqb (List.length (map path_only pm)) 0)) eqn:Hempty.
    + inversion H; subst. exact (Hlift [] d' cs Hnil Hrec Hg).
    + inversion H; subst. destruct Hg as [<-|Hg]; [|exact (Hlift [] d' cs' Hnil Hrec Hg)].
      exists r0, r, (i, s), pm. split; [left; reflexivity|]. split; [exact Hres|]. split; [exact Hpm|]. split; [exact Hst|].
      cbn. split; [reflexivity|]. split; [reflexivity|]. split; [reflexivity|].
      apply andb_false_iff in Hempty. destruct Hempty as [He|He]; apply Nat.eqb_neq in He.
      * left. intros Habs. rewrite Habs in He. cbn in He. lia.
      * right. intros Habs. rewrite Habs in He. cbn in He. lia.
  - destruct (header_rules_go c (nonpath ms) rules pm) as [d' cs'] eqn:Hrec. inversion H; subst. exact (Hlift pm d' cs Hpm Hrec Hg).
Qed.

Definition header_split (c : gconf) (ms : list hmatch) (rules : list rule) : list rule * list rule :=
  header_rules_go c (nonpath ms) rules (filter has_path ms).
Lemma header_rules_split c ms rules : header_rules c ms rules = fst (header_split c ms rules) ++ snd (header_split c ms rules).
Proof. unfold header_rules, header_split, nonpath. destruct (header_rules_go _ _ _ _). reflexivity. Qed.

(* C13: the original rules are kept by a match step *)
Theorem originals_kept c ms rules r : In r rules -> get_ref (g_canary c) r = None -> In r (header_rules c ms rules).
Proof. intros Hin Hn. rewrite header_rules_split. apply in_or_app. left.
  unfold header_split. destruct (header_rules_go _ _ _ _) as [d cs] eqn:H. cbn. eapply header_go_keeps; eauto. Qed.

(* C13: each generated canary rule accepts only requests that satisfy one of the user's matches
   (a path match standalone; a header/query match together with one of the original rule's own
   matches), whatever comparison semantics the gateway implements. *)
Theorem canary_rule_is_narrow (cmp : string -> string -> string -> bool) c ms rules g q :
  (forall u, In u ms -> sempty (m_method u) = true) ->
  In g (snd (header_split c ms rules)) ->
  exists r0 o s, In r0 rules /\ restore_for_match c r0 = Some o /\ get_ref (g_stable c) o = Some s /\
    r_refs g = [set_name (snd s) (g_canary c)] /\
    (rule_accepts cmp q g = true -> user_ok cmp q ms o = true).
Proof.
  intros Hmeth Hg. unfold header_split in Hg. destruct (header_rules_go _ _ _ _) as [d cs] eqn:H. cbn in Hg.
  destruct (header_go_generated c ms rules _ d cs (incl_refl _) H g Hg) as [r0 [o [s [pm' [Hin [Hres [Hpm [Hst [Hrefs [_ [Hm _]]]]]]]]]]].
  exists r0, o, s. repeat split; auto. intros Hacc. unfold rule_accepts in Hacc. rewrite Hm in Hacc.
  eapply canary_matches_narrow; eauto.
Qed.

(* ---------- finalise ---------- *)
Definition canary_count (c : gconf) (r : rule) : nat := List.length (filter (is_svc (g_canary c)) (r_refs r)).

Lemma find_ref_none name refs i : find_ref name refs i = None <-> filter (is_svc name) refs = [].
Proof. revert i. induction refs as [|b refs IH]; intros i; cbn; [tauto|]. destruct (is_svc name b); [split; discriminate|apply IH]. Qed.

Lemma find_ref_remove name refs : forall i j b, find_ref name refs i = Some (j, b) ->
  (i <= j)%nat /\ filter (is_svc name) (remove_at refs (j - i)) = tl (filter (is_svc name) refs) /\
  filter (fun x => negb (is_svc name x)) (remove_at refs (j - i)) = filter (fun x => negb (is_svc name x)) refs.
Proof.
  induction refs as [|x refs IH]; intros i j b H; [discriminate|]. cbn in H. destruct (is_svc name x) eqn:E.
  - inversion H; subst. replace (j - j)%nat with O by lia. cbn. rewrite E. cbn. auto.
  - apply IH in H. destruct H as [Hle [H1 H2]]. split; [lia|]. replace (j - i)%nat with (S (j - S i)) by lia. cbn. rewrite E. cbn.
    rewrite H1, H2. auto.
Qed.

Lemma find_ref_nth name refs : forall i j b, find_ref name refs i = Some (j, b) ->
  (i <= j)%nat /\ nth_error refs (j - i) = Some b /\ is_svc name b = true.
Proof.
  induction refs as [|x refs IH]; intros i j b H; [discriminate|]. cbn in H. destruct (is_svc name x) eqn:E.
  - inversion H; subst. replace (j - j)%nat with O by lia. cbn. auto.
  - apply IH in H. destruct H as [Hle [H1 H2]]. split; [lia|]. replace (j - i)%nat with (S (j - S i)) by lia. cbn. auto.
Qed.

Lemma filter_replace_at {A} (f : A -> bool) l : forall i x y, nth_error l i = Some x -> f x = f y ->
  (f x = false -> filter f (replace_at l i y) = filter f l) /\
  List.length (filter f (replace_at l i y)) = List.length (filter f l).
Proof.
  induction l as [|h l IH]; intros i x y Hn Hf; [destruct i; discriminate|]. destruct i; cbn in *.
  - inversion Hn; subst. rewrite <- Hf. destruct (f x); cbn; split; auto; discriminate.
  - destruct (IH i x y Hn Hf) as [H1 H2]. destruct (f h); cbn; split; auto; intros; f_equal; auto.
Qed.

Lemma is_svc_set_weight name b w : is_svc name (set_weight b w) = is_svc name b.
Proof. reflexivity. Qed.
Lemma is_svc_other a b x : a <> b -> is_svc a x = true -> is_svc b x = false.
Proof. unfold is_svc. destruct (b_kind x) as [k|]; [|discriminate]. intros Hne H. apply andb_true_iff in H. destruct H as [Hk Hn].
  rewrite Hk. cbn. apply String.eqb_eq in Hn. apply String.eqb_neq. congruence. Qed.

(* set_ref with a re-weighted copy of the ref found under that name only changes that ref's weight *)
Lemma set_ref_found name r i s w : get_ref name r = Some (i, s) ->
  set_ref r (set_weight s w) = with_refs r (replace_at (r_refs r) i (set_weight s w)).
Proof.
  intros H. pose proof (find_ref_nth _ _ _ _ _ H) as [_ [_ Hs]]. unfold set_ref. cbn [b_kind b_name set_weight].
  unfold is_svc in Hs. destruct (b_kind s) as [k|]; [|discriminate]. apply andb_true_iff in Hs. destruct Hs as [Hk Hn].
  rewrite Hk. apply String.eqb_eq in Hn. rewrite Hn in *. rewrite H. reflexivity.
Qed.

(* C13: finalising removes every canary reference (rules carry at most one, as all rules built by
   this provider do) *)
Theorem finalise_removes_canary c rules : g_stable c <> g_canary c ->
  (forall r, In r rules -> (canary_count c r <= 1)%nat) ->
  forall r', In r' (finalise_rules c rules) -> canary_count c r' = O.
Proof.
  intros Hne Hcnt r' Hin. unfold finalise_rules in Hin. apply in_flat_map in Hin. destruct Hin as [r [Hr Hin]].
  specialize (Hcnt r Hr). unfold finalise_rule in Hin.
  set (r1 := filter_out r (g_canary c)) in *.
  assert (H1 : canary_count c r1 = O).
  { unfold r1, filter_out, get_ref, canary_count in *. destruct (find_ref (g_canary c) (r_refs r) 0) as [[j b]|] eqn:Hf.
    - apply find_ref_remove in Hf. destruct Hf as [_ [Hf _]]. cbn [r_refs with_refs]. rewrite Nat.sub_0_r in Hf. rewrite Hf.
      destruct (filter (is_svc (g_canary c)) (r_refs r)) as [|x [|y l]]; cbn in *; lia.
    - apply find_ref_none in Hf. rewrite Hf. reflexivity. }
  assert (H2 : forall r2, r2 = match get_ref (g_stable c) r1 with Some (_, s) => set_ref r1 (set_weight s 1) | None => r1 end ->
               canary_count c r2 = O).
  { intros r2 ->. destruct (get_ref (g_stable c) r1) as [[i s]|] eqn:Hs; [|exact H1].
    rewrite (set_ref_found _ _ _ _ _ Hs). unfold canary_count in *. cbn [r_refs with_refs].
    pose proof (find_ref_nth _ _ _ _ _ Hs) as [_ [Hn Hsv]]. rewrite Nat.sub_0_r in Hn.
    destruct (filter_replace_at (is_svc (g_canary c)) (r_refs r1) i s (set_weight s 1) Hn eq_refl) as [_ Hl].
    rewrite Hl. exact H1. }
  destruct (r_refs (match get_ref (g_stable c) r1 with Some (_, s) => set_ref r1 (set_weight s 1) | None => r1 end)) eqn:Hrefs;
    [destruct (match get_ref (g_canary c) r with Some _ => true | None => false end)|]; cbn in Hin;
    try (destruct Hin as [<-|[]]; apply H2; reflexivity); try destruct Hin.
Qed.

(* C13: finalising keeps every rule that does not reference the canary Service; only the weight of
   its stable reference may change *)
Definition same_but_weights (a b : rule) : Prop :=
  r_matches a = r_matches b /\ r_rest a = r_rest b /\
  map (fun x => (b_kind x, b_name x, b_rest x)) (r_refs a) = map (fun x => (b_kind x, b_name x, b_rest x)) (r_refs b).

Lemma map_replace_at {A B} (f : A -> B) l : forall i x y, nth_error l i = Some x -> f x = f y -> map f (replace_at l i y) = map f l.
Proof. induction l as [|h l IH]; intros i x y Hn Hf; [destruct i; discriminate|]. destruct i; cbn in *.
  - inversion Hn; subst. now rewrite Hf. - f_equal. eapply IH; eauto. Qed.

Theorem finalise_keeps_user_rules c rules r : In r rules -> get_ref (g_canary c) r = None ->
  exists r', In r' (finalise_rules c rules) /\ same_but_weights r r'.
Proof.
  intros Hin Hn. unfold finalise_rules.
  assert (Hr1 : filter_out r (g_canary c) = r) by (unfold filter_out; rewrite Hn; reflexivity).
  set (r2 := match get_ref (g_stable c) r with Some (_, s) => set_ref r (set_weight s 1) | None => r end).
  assert (Hsame : same_but_weights r r2).
  { unfold r2. destruct (get_ref (g_stable c) r) as [[i s]|] eqn:Hs; [|repeat split].
    rewrite (set_ref_found _ _ _ _ _ Hs). repeat split. cbn [r_refs with_refs].
    pose proof (find_ref_nth _ _ _ _ _ Hs) as [_ [Hnth _]]. rewrite Nat.sub_0_r in Hnth.
    symmetry. eapply map_replace_at; eauto. }
  exists r2. split; [|exact Hsame]. apply in_flat_map. exists r. split; [exact Hin|].
  unfold finalise_rule. rewrite Hr1, Hn. fold r2. destruct (r_refs r2); left; reflexivity.
Qed.

(* ---------- weight step ---------- *)
From RV Require Import Corr.Gateway.

Lemma find_ref_replace_other name l : forall j x y k, nth_error l j = Some x -> is_svc name x = false -> is_svc name y = false ->
  find_ref name (replace_at l j y) k = find_ref name l k.
Proof. induction l as [|h l IH]; intros j x y k Hn Hx Hy; [destruct j; discriminate|]. destruct j; cbn in *.
  - inversion Hn; subst. rewrite Hx, Hy. reflexivity.
  - destruct (is_svc name h); [reflexivity|]. eapply IH; eauto. Qed.
Lemma find_ref_replace_same name l : forall i s y k, find_ref name l k = Some (i, s) -> is_svc name y = true ->
  find_ref name (replace_at l (i - k) y) k = Some (i, y).
Proof. induction l as [|h l IH]; intros i s y k H Hy; [discriminate|]. cbn in H. destruct (is_svc name h) eqn:E.
  - inversion H; subst. replace (i - i)%nat with O by lia. cbn. rewrite Hy. reflexivity.
  - pose proof (find_ref_nth _ _ _ _ _ H) as [Hle _]. replace (i - k)%nat with (S (i - S k)) by lia. cbn. rewrite E. eapply IH; eauto. Qed.
Lemma find_ref_app name l y : forall k, find_ref name (l ++ [y]) k =
  match find_ref name l k with Some p => Some p | None => if is_svc name y then Some ((k + List.length l)%nat, y) else None end.
Proof. induction l as [|h l IH]; intros k; cbn.
  - rewrite Nat.add_0_r. reflexivity.
  - destruct (is_svc name h); [reflexivity|]. rewrite IH. replace (S k + List.length l)%nat with (k + S (List.length l))%nat by lia. reflexivity. Qed.

Lemma is_svc_kind name b : is_svc name b = true -> b_kind b = Some "Service" /\ b_name b = name.
Proof. unfold is_svc. destruct (b_kind b) as [k|]; [|discriminate]. intros H. apply andb_true_iff in H. destruct H as [Hk Hn].
  apply String.eqb_eq in Hk, Hn. subst. auto. Qed.
Lemma is_svc_intro name b : b_kind b = Some "Service" -> b_name b = name -> is_svc name b = true.
Proof. intros Hk Hn. unfold is_svc. rewrite Hk, Hn, !String.eqb_refl. reflexivity. Qed.

Lemma not_other (c : gconf) b : is_svc (g_stable c) b = true \/ is_svc (g_canary c) b = true ->
  negb (is_svc (g_stable c) b) && negb (is_svc (g_canary c) b) = false.
Proof. intros [H|H]; rewrite H; cbn; [reflexivity|apply andb_false_r]. Qed.

Lemma set_ref_append r b : b_kind b = Some "Service" -> get_ref (b_name b) r = None -> set_ref r b = with_refs r (r_refs r ++ [b]).
Proof. intros Hk Hn. unfold set_ref. rewrite Hk, Hn. reflexivity. Qed.

Theorem weight_rule_spec c w r i s : g_stable c <> g_canary c -> get_ref (g_stable c) r = Some (i, s) ->
  let r' := weight_rule c w r in
  ref_weight (g_stable c) r' = Some (Some (100 - w)) /\ ref_weight (g_canary c) r' = Some (Some w) /\
  other_refs c r' = other_refs c r /\ r_matches r' = r_matches r /\ r_rest r' = r_rest r.
Proof.
  intros Hne Hs r'. subst r'. unfold weight_rule. rewrite Hs.
  pose proof (find_ref_nth _ _ _ _ _ Hs) as [_ [Hnth Hsv]]. rewrite Nat.sub_0_r in Hnth.
  pose proof (is_svc_kind _ _ Hsv) as [Hkind Hname].
  assert (Hs_nc : is_svc (g_canary c) s = false) by (eapply is_svc_other; eauto).
  rewrite (set_ref_found _ _ _ _ (100 - w) Hs).
  set (s1 := set_weight s (100 - w)).
  assert (Hs1 : is_svc (g_stable c) s1 = true) by exact Hsv.
  assert (Hs1c : is_svc (g_canary c) s1 = false) by exact Hs_nc.
  set (refs1 := replace_at (r_refs r) i s1).
  assert (Hst1 : find_ref (g_stable c) refs1 0 = Some (i, s1)).
  { unfold refs1. rewrite <- (Nat.sub_0_r i) at 1. eapply find_ref_replace_same; eauto. }
  assert (Hcan1 : find_ref (g_canary c) refs1 0 = find_ref (g_canary c) (r_refs r) 0).
  { unfold refs1. eapply find_ref_replace_other; eauto. }
  assert (Hoth1 : filter (fun b => negb (is_svc (g_stable c) b) && negb (is_svc (g_canary c) b)) refs1 =
                  filter (fun b => negb (is_svc (g_stable c) b) && negb (is_svc (g_canary c) b)) (r_refs r)).
  { unfold refs1. eapply (filter_replace_at _ _ _ _ _ Hnth).
    - rewrite !not_other by (left; assumption). reflexivity.
    - apply not_other. left. exact Hsv. }
  assert (Hnth1 : nth_error refs1 i = Some s1).
  { pose proof (find_ref_nth _ _ _ _ _ Hst1) as [_ [H _]]. rewrite Nat.sub_0_r in H. exact H. }
  change (find_ref (g_canary c) (r_refs r) 0) with (get_ref (g_canary c) r) in Hcan1.
  destruct (get_ref (g_canary c) r) as [[j x]|] eqn:Hcan.
  - (* the rule already has a canary reference: it is re-weighted in place *)
    pose proof (find_ref_nth _ _ _ _ _ Hcan) as [_ [_ Hxv]].
    assert (Hcan1' : get_ref (g_canary c) (with_refs r refs1) = Some (j, x)) by (unfold get_ref; cbn [r_refs with_refs]; exact Hcan1).
    rewrite (set_ref_found _ _ _ _ _ Hcan1'). cbn [r_refs with_refs r_matches r_rest].
    pose proof (find_ref_nth _ _ _ _ _ Hcan1') as [_ [Hnj _]]. rewrite Nat.sub_0_r in Hnj. cbn [r_refs with_refs] in Hnj.
    assert (Hx_ns : is_svc (g_stable c) x = false) by (eapply is_svc_other; [intro E; apply Hne; symmetry; exact E|exact Hxv]).
    unfold ref_weight, get_ref, other_refs. cbn [r_refs with_refs].
    rewrite (find_ref_replace_other (g_stable c) refs1 j x (set_weight x w) 0 Hnj Hx_ns Hx_ns), Hst1.
    assert (Hc2 : find_ref (g_canary c) (replace_at refs1 j (set_weight x w)) 0 = Some (j, set_weight x w)).
    { rewrite <- (Nat.sub_0_r j) at 1. eapply find_ref_replace_same; [exact Hcan1|exact Hxv]. }
    rewrite Hc2. cbn [b_weight set_weight s1]. repeat split; auto.
    rewrite <- Hoth1. eapply (filter_replace_at _ _ _ _ _ Hnj).
    + rewrite !not_other by (right; assumption). reflexivity.
    + apply not_other. right. exact Hxv.
  - (* no canary reference yet: a copy of the stable reference, renamed, is appended *)
    set (cn := set_weight (set_name s (g_canary c)) w).
    assert (Hcnv : is_svc (g_canary c) cn = true) by (apply is_svc_intro; [exact Hkind|reflexivity]).
    assert (Hcn_ns : is_svc (g_stable c) cn = false) by (eapply is_svc_other; [intro E; apply Hne; symmetry; exact E|exact Hcnv]).
    rewrite (set_ref_append (with_refs r refs1) cn) by (first [exact Hkind | exact Hcan1]).
    unfold ref_weight, get_ref, other_refs. cbn [r_refs with_refs r_matches r_rest].
    rewrite !find_ref_app, Hst1, Hcan1, Hcnv. cbn [b_weight set_weight s1 cn]. repeat split; auto.
    rewrite filter_app. cbn [filter]. rewrite (not_other c cn) by (right; exact Hcnv). rewrite app_nil_r. exact Hoth1.
Qed.

(* C13: the oracle evaluated on implementation outputs holds of the model's output, for all rule lists *)
Theorem exact_split_holds c w rules : g_stable c <> g_canary c -> exact_split c w rules (weight_rules c w rules) = true.
Proof.
  intros Hne. unfold exact_split, weight_rules. rewrite map_length, Nat.eqb_refl. cbn [andb].
  induction rules as [|r rules IH]; [reflexivity|]. cbn [map combine forallb]. rewrite IH, andb_true_r.
  unfold has_ref. destruct (get_ref (g_stable c) r) as [[i s]|] eqn:Hs; [|reflexivity].
  destruct (weight_rule_spec c w r i s Hne Hs) as [H1 [H2 [H3 [H4 H5]]]]. rewrite H1, H2, H3, H4, H5.
  cbn [opt_eqb]. rewrite !Z.eqb_refl. cbn [andb].
  assert (L1 : forall l, list_eqb bref_eqb l l = true).
  { induction l as [|b l IHl]; [reflexivity|]. cbn. rewrite IHl, andb_true_r. unfold bref_eqb.
    destruct (b_kind b); cbn; rewrite ?String.eqb_refl; destruct (b_weight b); cbn; rewrite ?Z.eqb_refl, ?String.eqb_refl; reflexivity. }
  assert (L2 : forall l, list_eqb kv_eqb l l = true).
  { induction l as [|b l IHl]; [reflexivity|]. cbn. rewrite IHl, andb_true_r. unfold kv_eqb. rewrite !String.eqb_refl. reflexivity. }
  assert (L3 : forall l, list_eqb hmatch_eqb l l = true).
  { induction l as [|b l IHl]; [reflexivity|]. cbn. rewrite IHl, andb_true_r. unfold hmatch_eqb, path_eqb. rewrite !L2, String.eqb_refl.
    destruct (m_path b) as [[t v]|]; cbn; rewrite ?String.eqb_refl; reflexivity. }
  rewrite L1, L3, String.eqb_refl. reflexivity.
Qed.

(* C13: rules that do not reference the stable Service are never altered by a weight step *)
Theorem weight_rules_unrelated c w r : get_ref (g_stable c) r = None -> weight_rule c w r = r.
Proof. intros H. unfold weight_rule. rewrite H. reflexivity. Qed.
