(* Proofs about Model/TRFin.v (C18: the progressing finalizer on a TrafficRouting object). *)
From RV Require Import Base.Util Base.IntStr Model.TRFin.

(* "deletion is not blocked for ever": when the Rollout is done with a TrafficRouting object, its progressing finalizer goes --
   whether or not the object is being deleted, whatever its phase; and a deleting object that held nothing else disappears *)
Theorem finalize_removes_my_finalizer t e t' : t2_exists t = true -> finalize_tr false t = (e, t') -> e = false /\ t2_mine t' = false.
Proof.
  unfold finalize_tr. intros Hex. rewrite Hex. cbn [negb].
  destruct (t2_mine t) eqn:Em; intros H; injection H as <- <-; split; try reflexivity; [|exact Em].
  unfold settle. cbn. destruct (t2_deleting t && true && negb (t2_others t)); reflexivity.
Qed.
Theorem finalize_lets_a_deleting_object_go t e t' : t2_exists t = true -> t2_deleting t = true -> t2_others t = false -> t2_mine t = true ->
  finalize_tr false t = (e, t') -> t2_exists t' = false.
Proof.
  unfold finalize_tr, settle. intros Hex Hd Ho Hm. rewrite Hex, Hm. cbn. rewrite Hd, Ho. cbn. intros H. injection H as _ <-. reflexivity.
Qed.
(* "stays until cleanup completed": the finalizer is put on before the Rollout counts the object as usable, and only on an
   object that is not on its way out *)
Theorem handle_ready_means_guarded f t r t' : handle_tr f t = (r, t') -> r = T2Ready -> t2_mine t' = true /\ t' = t.
Proof.
  unfold handle_tr. destruct (negb (t2_exists t)); [intros H; injection H as <- _; discriminate|].
  destruct (t2_mine t) eqn:Em; [intros H _; injection H as _ <-; auto|].
  destruct (t2_phase t); try (intros H; injection H as <- _; discriminate).
  destruct f; intros H; injection H as <- _; discriminate.
Qed.
Theorem handle_never_guards_an_object_on_its_way_out f t r t' : handle_tr f t = (r, t') -> t2_mine t = false ->
  t2_phase t <> TOtherPhase -> t2_mine t' = false.
Proof.
  unfold handle_tr. destruct (negb (t2_exists t)); [intros H Hm _; injection H as _ <-; exact Hm|]. intros H Hm Hp. rewrite Hm in H.
  destruct (t2_phase t); try congruence; injection H as _ <-; exact Hm.
Qed.
