(* Proofs about Model/BRExec.v (C11). *)
From RV Require Import Base.Util Base.IntStr Model.BatchArith Model.BRExec Corr.BRExec.
From Coq Require Import ZifyBool.

Definition obs_of (r : br_result) : br_obs :=
  {| bo_panic := false; bo_err := r_err r; bo_gone := false; bo_status := r_status r; bo_workload := r_workload r;
     bo_finalizer := r_finalizer r; bo_requeue := match r_requeue r with RqAfter => true | RqNone => false end; bo_view := None; bo_in_unknown_kind := false |}.

(* ---------- shape of the status after the sync phase ---------- *)
(* what execute can do to (phase, batch, state) *)
Lemma brphase_eqb_refl p : brphase_eqb p p = true.
Proof. destruct p; cbn; try reflexivity. apply String.eqb_refl. Qed.
Lemma bstate_eqb_refl p : bstate_eqb p p = true.
Proof. destruct p; cbn; try reflexivity. apply String.eqb_refl. Qed.
Lemma brphase_eqb_eq p q : brphase_eqb p q = true -> p = q.
Proof. destruct p, q; cbn; try discriminate; try reflexivity. intros H. apply String.eqb_eq in H. now subst. Qed.
Lemma bstate_eqb_eq p q : bstate_eqb p q = true -> p = q.
Proof. destruct p, q; cbn; try discriminate; try reflexivity. intros H. apply String.eqb_eq in H. now subst. Qed.

(* execute: the batch cursor moves only through move_to_next, i.e. by one and only below the partition *)
Lemma execute_batch sp old s w s' w' rq err up :
  execute sp old s w = Exec s' w' rq err up ->
  bs_batch s' = bs_batch s \/
  (bs_batch s' = bs_batch s + 1 /\ match sp_partition sp with Some p => bs_batch s < p | None => True end).
Proof.
  unfold execute. intros H.
  repeat match type of H with
  | context [match ?x with _ => _ end] => destruct x eqn:?; try discriminate
  | context [if ?x then _ else _] => destruct x eqn:?; try discriminate
  end; inversion H; subst; cbn; auto.
  all: unfold move_to_next; cbn; repeat match goal with |- context [match ?x with _ => _ end] => destruct x eqn:? end; cbn; try lia; auto.
  all: try (right; split; [lia|]; try lia; auto).
Qed.

Lemma status_eqb_eq a b : status_eqb a b = true -> a = b.
Proof.
  destruct a, b. unfold status_eqb. cbn. intros H.
  repeat (apply andb_true_iff in H; destruct H as [H ?]).
  repeat match goal with
  | H : brphase_eqb _ _ = true |- _ => apply brphase_eqb_eq in H
  | H : bstate_eqb _ _ = true |- _ => apply bstate_eqb_eq in H
  | H : (_ =? _)%string = true |- _ => apply String.eqb_eq in H
  | H : (_ =? _) = true |- _ => apply Z.eqb_eq in H
  | H : Bool.eqb _ _ = true |- _ => apply Bool.eqb_prop in H
  end. subst. reflexivity.
Qed.

Ltac split_all :=
  repeat match goal with
  | H : context [if ?x then _ else _] |- _ => destruct x eqn:?
  | H : context [match ?x with _ => _ end] |- _ => destruct x eqn:?
  end.

(* the sync phase never enters Ready, never reports Completed by itself, and moves the batch cursor only
   through signalRecalculate / signalRestartAll *)
Lemma sync_shape sp st w s2 stop : sync_status sp st w = (s2, stop) ->
  (bs_state s2 = SReady -> bs_state st = SReady /\ bs_batch s2 = bs_batch st /\ bs_phase st <> PhInitial) /\
  (bs_phase s2 = PhCompleted -> bs_phase st = PhCompleted) /\
  (bs_batch s2 = bs_batch st \/ bs_batch s2 = 0 \/
   (is_progressing st = true /\ exists p, sp_partition sp = Some p /\ bs_batch s2 = Z.min p (zlen (sp_plan sp) - 1))).
Proof.
  unfold sync_status. destruct (sync_workload sp _ w) as [ev has_info]. unfold is_progressing.
  intros H. split_all;
  repeat match goal with H : (_, _) = (_, _) |- _ => inversion H; subst; clear H end; cbn in *;
  (split; [intros Hx; try discriminate Hx; repeat split; auto; try congruence|]);
  (split; [intros Hx; try discriminate Hx; auto; try congruence|]); auto.
  all: try (exfalso; match goal with H : _ && false = true |- _ => rewrite andb_false_r in H; discriminate H end).
  all: try (right; right; split; [reflexivity|eexists; split; [reflexivity|reflexivity]]).
Qed.

(* execute: Ready is produced only by a successful readiness check on the observed workload *)
Lemma execute_ready sp old s w s' w' rq err up :
  execute sp old s w = Exec s' w' rq err up -> bs_state s' = SReady -> bs_phase s' = PhProgressing ->
  bs_batch s' = bs_batch s /\
  (bs_state s = SReady \/ (w_replicas w =? 0) = true \/
   exists c, calc_ctx (arith_of sp s w) = Some c /\
             is_batch_ready (c_desired c) (w_st_updated w) (w_st_updated_ready w) (sp_ft sp) = true).
Proof.
  unfold execute. intros H Hst Hph.
  repeat match type of H with
  | context [match ?x with _ => _ end] => destruct x eqn:?; try discriminate
  | context [if ?x then _ else _] => destruct x eqn:?; try discriminate
  end; inversion H; subst; clear H; cbn in *; try discriminate; try congruence.
  all: try (split; [reflexivity|]).
  all: try (left; assumption).
  all: try (right; left; assumption).
  all: try (right; right; eexists; split; [reflexivity|]; congruence).
  all: try (unfold move_to_next in Hst; cbn in Hst; discriminate).
  all: match goal with H : (if ?c then _ else _) = Some true |- _ => destruct c eqn:Hz; [right; left; reflexivity|] end.
  all: match goal with H : match ?x with Some _ => _ | None => _ end = Some true |- _ => destruct x as [c0|] eqn:Hcc; [|discriminate] end.
  all: right; right; exists c0; split; [reflexivity|congruence].
Qed.

Lemma execute_completed sp old s w s' w' rq err up :
  execute sp old s w = Exec s' w' rq err up -> bs_phase s' = PhCompleted -> bs_phase s <> PhCompleted ->
  w_exists w = false \/
  (w_ctl w' = CtlNone /\ match sp_partition sp with None => w_paused w' = false /\ w_partition w' = None | Some _ => True end).
Proof.
  unfold execute. intros H Hph Hn.
  repeat match type of H with
  | context [match ?x with _ => _ end] => destruct x eqn:?; try discriminate
  | context [if ?x then _ else _] => destruct x eqn:?; try discriminate
  end; inversion H; subst; clear H; cbn in *; try discriminate; try congruence; auto.
  all: try (left; apply negb_true_iff; assumption).
  all: try (right; split; [reflexivity|]; auto).
  all: try (unfold move_to_next in Hph; cbn in Hph; discriminate).
Qed.

Lemma gen_cond_proj s g c : bs_state (set_gen_cond s g c) = bs_state s /\ bs_batch (set_gen_cond s g c) = bs_batch s /\ bs_phase (set_gen_cond s g c) = bs_phase s.
Proof. repeat split. Qed.

(* C11: a reconcile enters Ready only if, on the workload it observed, the batch really is ready *)
Theorem ready_is_true_holds sp st w r : reconcile sp st w = Some r -> ready_is_true sp st w (obs_of r) = true.
Proof.
  unfold reconcile. intros H.
  destruct (sp_deleting sp && brphase_eqb (bs_phase st) PhCompleted && sp_finalizer sp).
  { inversion H; subst; clear H. unfold ready_is_true, obs_of. cbn.
    destruct (bstate_eqb (bs_state st) SReady); cbn; [|reflexivity]. rewrite Z.eqb_refl. cbn. now rewrite andb_false_r. }
  destruct (sync_status sp st w) as [s2 stop] eqn:Hsync. pose proof (sync_shape _ _ _ _ _ Hsync) as [Hready _].
  assert (Hsame : forall rq err up wl, ready_is_true sp st w (obs_of {| r_status := set_gen_cond s2 (sp_generation sp) (bs_cond s2); r_workload := wl;
                   r_finalizer := true; r_requeue := rq; r_err := err; r_upgraded := up |}) = true).
  { intros. unfold ready_is_true, obs_of. cbn.
    destruct (bstate_eqb (bs_state s2) SReady) eqn:E; cbn; [|reflexivity].
    apply bstate_eqb_eq in E. destruct (Hready E) as [E1 [E2 _]]. rewrite E1, E2, Z.eqb_refl. cbn. now rewrite andb_false_r. }
  destruct (negb (status_eqb st s2)) eqn:Hretry; [inversion H; subst; apply Hsame|].
  destruct stop; [inversion H; subst; apply Hsame|].
  apply negb_false_iff in Hretry. apply status_eqb_eq in Hretry. subst s2.
  destruct (execute sp st st w) as [|s' w' rq err up] eqn:Hex; [discriminate|]. inversion H; subst; clear H.
  unfold ready_is_true, obs_of. cbn.
  destruct (bstate_eqb (bs_state s') SReady) eqn:E1; cbn; [|reflexivity].
  destruct (brphase_eqb (bs_phase s') PhProgressing) eqn:E2; cbn; [|reflexivity].
  apply bstate_eqb_eq in E1. apply brphase_eqb_eq in E2.
  destruct (execute_ready _ _ _ _ _ _ _ _ _ Hex E1 E2) as [Hb Hr].
  destruct (bstate_eqb (bs_state st) SReady && (bs_batch st =? bs_batch s')) eqn:E3; cbn; [reflexivity|].
  destruct Hr as [Hold|[Hz|[c [Hc Hrd]]]]; [|rewrite Hz; reflexivity|].
  { rewrite Hold, Hb, Z.eqb_refl in E3. discriminate E3. }
  apply orb_true_iff. right. unfold desired_now. unfold arith_of in Hc. rewrite Hb, Hc. exact Hrd.
Qed.

Lemma execute_enters_ready sp old s w s' w' rq err up :
  execute sp old s w = Exec s' w' rq err up -> bs_state s' = SReady -> bs_phase s' = PhProgressing ->
  (bs_state s = SReady /\ bs_batch s' = bs_batch s) \/ (bs_phase s = PhProgressing /\ bs_state s = SVerifying).
Proof.
  unfold execute. intros H Hst Hph.
  repeat match type of H with
  | context [match ?x with _ => _ end] => destruct x eqn:?; try discriminate
  | context [if ?x then _ else _] => destruct x eqn:?; try discriminate
  end; inversion H; subst; clear H; cbn in *; try discriminate; try congruence; auto.
  all: try (unfold move_to_next in Hst; cbn in Hst; discriminate).
Qed.

Lemma sync_unobserved_stops sp st w s2 : sp_deleting sp = false -> w_exists w = true -> (w_obs_gen w <? w_gen w) = true ->
  bs_phase st = PhProgressing -> bs_state st = SVerifying -> sync_status sp st w = (s2, false) ->
  bs_state s2 = bs_state st -> bs_phase s2 = bs_phase st -> False.
Proof.
  intros Hd He Hu Hp Hs. unfold sync_status, sync_workload, is_progressing. rewrite Hd, He, Hu. cbn [negb]. destruct (bs_phase st) eqn:Hp'; try discriminate Hp. cbn [negb brphase_eqb orb andb].
  destruct (sp_partition sp) as [p|]; cbn [orb].
  2:{ intros H. inversion H; subst; clear H. cbn. try rewrite Hp'. discriminate. }
  destruct (negb (String.eqb (bs_hash st) (sp_hash sp))); cbn [andb].
  { intros H. inversion H; subst; clear H. cbn. rewrite Hs. discriminate. }
  rewrite andb_true_r. destruct (zlen (sp_plan sp) <=? bs_batch st).
  { intros H. inversion H; subst; clear H. cbn. try rewrite Hp'. discriminate. }
  intros H. inversion H.
Qed.

(* C11: Ready is entered only on a workload status that is current *)
Theorem ready_needs_a_current_status_holds sp st w r : reconcile sp st w = Some r -> ready_needs_a_current_status sp st w (obs_of r) = true.
Proof.
  unfold reconcile. intros H.
  destruct (sp_deleting sp && brphase_eqb (bs_phase st) PhCompleted && sp_finalizer sp).
  { inversion H; subst; clear H. unfold ready_needs_a_current_status, obs_of. cbn.
    destruct (bstate_eqb (bs_state st) SReady); cbn; [|reflexivity]. rewrite Z.eqb_refl. cbn. now rewrite andb_false_r. }
  destruct (sync_status sp st w) as [s2 stop] eqn:Hsync. pose proof (sync_shape _ _ _ _ _ Hsync) as [Hready _].
  assert (Hsame : forall rq err up wl, ready_needs_a_current_status sp st w (obs_of {| r_status := set_gen_cond s2 (sp_generation sp) (bs_cond s2); r_workload := wl;
                   r_finalizer := true; r_requeue := rq; r_err := err; r_upgraded := up |}) = true).
  { intros. unfold ready_needs_a_current_status, obs_of. cbn.
    destruct (bstate_eqb (bs_state s2) SReady) eqn:E; cbn; [|reflexivity].
    apply bstate_eqb_eq in E. destruct (Hready E) as [E1 [E2 _]]. rewrite E1, E2, Z.eqb_refl. cbn. now rewrite andb_false_r. }
  destruct (negb (status_eqb st s2)) eqn:Hretry; [inversion H; subst; apply Hsame|].
  destruct stop; [inversion H; subst; apply Hsame|].
  apply negb_false_iff in Hretry. apply status_eqb_eq in Hretry. subst s2.
  destruct (execute sp st st w) as [|s' w' rq err up] eqn:Hex; [discriminate|]. inversion H; subst; clear H.
  unfold ready_needs_a_current_status, obs_of. cbn.
  destruct (bstate_eqb (bs_state s') SReady) eqn:E1; cbn; [|reflexivity].
  destruct (brphase_eqb (bs_phase s') PhProgressing) eqn:E2; cbn; [|reflexivity].
  apply bstate_eqb_eq in E1. apply brphase_eqb_eq in E2.
  destruct (execute_enters_ready _ _ _ _ _ _ _ _ _ Hex E1 E2) as [[Hr Hb]|[Hp Hv]].
  { rewrite Hr, Hb, Z.eqb_refl. reflexivity. }
  destruct (bstate_eqb (bs_state st) SReady && (bs_batch st =? bs_batch s')); cbn; [reflexivity|].
  destruct (w_exists w) eqn:He; cbn; [|reflexivity].
  destruct (w_obs_gen w <? w_gen w) eqn:Hu; cbn; [|reflexivity]. exfalso.
  destruct (sp_deleting sp) eqn:Hd.
  - (* a deleting release in phase Progressing is moved to Finalizing by the sync: the status would have changed *)
    revert Hsync. unfold sync_status. destruct (sync_workload sp _ w) as [ev hi]. rewrite Hp, Hd. cbn.
    intros Hx. inversion Hx as [Hy]. apply (f_equal bs_phase) in Hy. cbn in Hy. rewrite Hp in Hy. discriminate.
  - eapply sync_unobserved_stops; eauto.
Qed.

(* C11: Completed is reported only in the reconcile whose Finalize released the workload *)
Theorem completed_means_released_holds sp st w r : reconcile sp st w = Some r -> completed_means_released sp st w (obs_of r) = true.
Proof.
  unfold reconcile. intros H.
  destruct (sp_deleting sp && brphase_eqb (bs_phase st) PhCompleted && sp_finalizer sp).
  { inversion H; subst; clear H. unfold completed_means_released, obs_of. cbn.
    destruct (brphase_eqb (bs_phase st) PhCompleted); reflexivity. }
  destruct (sync_status sp st w) as [s2 stop] eqn:Hsync. pose proof (sync_shape _ _ _ _ _ Hsync) as [_ [Hcompl _]].
  assert (Hsame : forall rq err up wl, completed_means_released sp st w (obs_of {| r_status := set_gen_cond s2 (sp_generation sp) (bs_cond s2); r_workload := wl;
                   r_finalizer := true; r_requeue := rq; r_err := err; r_upgraded := up |}) = true).
  { intros. unfold completed_means_released, obs_of. cbn.
    destruct (brphase_eqb (bs_phase s2) PhCompleted) eqn:E; cbn; [|reflexivity].
    apply brphase_eqb_eq in E. rewrite (Hcompl E). reflexivity. }
  destruct (negb (status_eqb st s2)) eqn:Hretry; [inversion H; subst; apply Hsame|].
  destruct stop; [inversion H; subst; apply Hsame|].
  apply negb_false_iff in Hretry. apply status_eqb_eq in Hretry. subst s2.
  destruct (execute sp st st w) as [|s' w' rq err up] eqn:Hex; [discriminate|]. inversion H; subst; clear H.
  unfold completed_means_released, obs_of. cbn.
  destruct (brphase_eqb (bs_phase s') PhCompleted) eqn:E1; cbn; [|reflexivity].
  destruct (brphase_eqb (bs_phase st) PhCompleted) eqn:E2; cbn; [reflexivity|].
  apply brphase_eqb_eq in E1.
  assert (Hn : bs_phase st <> PhCompleted) by (intros Hc; rewrite Hc in E2; discriminate).
  destruct (execute_completed _ _ _ _ _ _ _ _ _ Hex E1 Hn) as [Hgone|[Hctl Hpart]].
  - rewrite Hgone. reflexivity.
  - rewrite Hctl. cbn. destruct (sp_partition sp); [apply orb_true_r|]. destruct Hpart as [Hp1 Hp2]. rewrite Hp1, Hp2. apply orb_true_r.
Qed.

(* C11: the batch cursor never advances beyond batchPartition *)
Theorem never_beyond_partition_holds sp st w r : 0 <= bs_batch st -> reconcile sp st w = Some r -> never_beyond_partition sp st (obs_of r) = true.
Proof.
  unfold reconcile. intros Hpos H.
  destruct (sp_deleting sp && brphase_eqb (bs_phase st) PhCompleted && sp_finalizer sp).
  { inversion H; subst; clear H. unfold never_beyond_partition, obs_of. cbn. rewrite Z.leb_refl. cbn. now rewrite ?orb_true_r. }
  destruct (sync_status sp st w) as [s2 stop] eqn:Hsync. pose proof (sync_shape _ _ _ _ _ Hsync) as [_ [_ Hbatch]].
  assert (Hsame : forall rq err up wl, never_beyond_partition sp st (obs_of {| r_status := set_gen_cond s2 (sp_generation sp) (bs_cond s2); r_workload := wl;
                   r_finalizer := true; r_requeue := rq; r_err := err; r_upgraded := up |}) = true).
  { intros. unfold never_beyond_partition, obs_of. cbn.
    destruct Hbatch as [Hb|[Hb|[_ [p [Hp Hb]]]]].
    - rewrite Hb, Z.leb_refl. cbn. now rewrite ?orb_true_r.
    - rewrite Hb. replace (0 <=? bs_batch st) with true by (symmetry; apply Z.leb_le; exact Hpos). cbn. now rewrite ?orb_true_r.
    - rewrite Hp, Hb. replace (Z.min p (zlen (sp_plan sp) - 1) <=? p) with true by (symmetry; apply Z.leb_le; lia). now rewrite ?orb_true_r. }
  destruct (negb (status_eqb st s2)) eqn:Hretry; [inversion H; subst; apply Hsame|].
  destruct stop; [inversion H; subst; apply Hsame|].
  apply negb_false_iff in Hretry. apply status_eqb_eq in Hretry. subst s2.
  destruct (execute sp st st w) as [|s' w' rq err up] eqn:Hex; [discriminate|]. inversion H; subst; clear H.
  unfold never_beyond_partition, obs_of. cbn.
  destruct (execute_batch _ _ _ _ _ _ _ _ _ Hex) as [Hb|[Hb Hp]].
  - rewrite Hb, Z.leb_refl. cbn. now rewrite ?orb_true_r.
  - rewrite Hb. destruct (sp_partition sp) as [p|]; [|now rewrite ?orb_true_r].
    replace (bs_batch st + 1 <=? p) with true by (symmetry; apply Z.leb_le; lia). now rewrite ?orb_true_r.
Qed.

(* C11: a changed plan or a scaled workload makes a Ready batch fall back (it never stays Ready) *)
Theorem falls_back_holds sp st w r : reconcile sp st w = Some r -> falls_back sp st w (obs_of r) = true.
Proof.
  intros H. unfold falls_back.
  destruct (bstate_eqb (bs_state st) SReady && brphase_eqb (bs_phase st) PhProgressing) eqn:Hwas; cbn [andb]; [|reflexivity].
  apply andb_true_iff in Hwas. destruct Hwas as [Hst Hph]. apply bstate_eqb_eq in Hst. apply brphase_eqb_eq in Hph.
  match goal with |- (if ?c then _ else _) = true => destruct c eqn:Hcond; [|reflexivity] end.
  apply andb_true_iff in Hcond. destruct Hcond as [Hcond Hwhy].
  apply andb_true_iff in Hcond. destruct Hcond as [Hstill Hdel]. apply negb_true_iff in Hdel.
  unfold reconcile in H. rewrite Hdel in H. cbn [andb] in H.
  unfold sync_status in H. rewrite Hph, Hdel in H. cbn [brphase_eqb orb] in H.
  destruct (sp_partition sp) as [p|] eqn:Hpart.
  2:{ (* no partition: the plan is finalising, the new phase cannot be Progressing *)
      destruct (sync_workload sp st w) as [ev hi]. cbn [andb] in H.
      match type of H with (if negb (status_eqb st ?s2) then _ else _) = _ => assert (Hne : status_eqb st s2 = false) end.
      { unfold status_eqb. rewrite Hph. cbn. reflexivity. }
      rewrite Hne in H. cbn in H. inversion H; subst; clear H. cbn in Hstill. discriminate. }
  cbn [orb] in H. unfold is_progressing in H. rewrite Hph in H. cbn [brphase_eqb andb] in H. rewrite andb_true_r in H.
  destruct (negb (bs_hash st =? sp_hash sp)%string) eqn:Hchanged.
  - (* plan changed: signalRecalculate *)
    destruct (sync_workload sp st w) as [ev hi].
    match type of H with (if negb (status_eqb st ?s2) then _ else _) = _ => assert (Hne : status_eqb st s2 = false) end.
    { unfold status_eqb. rewrite Hst. cbn. now rewrite !andb_false_r. }
    rewrite Hne in H. cbn in H. inversion H; subst; clear H. reflexivity.
  - cbn [orb] in Hwhy.
    apply andb_true_iff in Hwhy. destruct Hwhy as [Hwhy Hlen]. apply andb_true_iff in Hwhy. destruct Hwhy as [Hstable Hscaled].
    apply Z.ltb_lt in Hlen. replace (zlen (sp_plan sp) <=? bs_batch st) with false in H by (symmetry; apply Z.leb_gt; exact Hlen).
    apply andb_true_iff in Hstable. destruct Hstable as [Hstable Hnp]. apply andb_true_iff in Hstable. destruct Hstable as [Hex Hgen].
    unfold sync_workload in H. rewrite Hdel, Hex in H. cbn [negb] in H.
    apply negb_true_iff in Hgen. rewrite Hgen in H. apply negb_true_iff in Hnp. rewrite Hnp in H. rewrite Hscaled in H.
    cbn beta iota zeta delta [andb] in H.
    match type of H with (if negb (status_eqb st ?s2) then _ else _) = _ => assert (Hne : status_eqb st s2 = false) end.
    { unfold status_eqb. rewrite Hst. cbn. now rewrite !andb_false_r. }
    rewrite Hne in H. cbn in H. inversion H; subst; clear H. reflexivity.
Qed.

(* C18: the BatchRelease finalizer is dropped only for a deleting object whose phase is Completed *)
Theorem br_finalizer_guard sp st w r : reconcile sp st w = Some r -> r_finalizer r = false ->
  sp_deleting sp = true /\ bs_phase st = PhCompleted /\ sp_finalizer sp = true.
Proof.
  unfold reconcile. intros H Hf.
  destruct (sp_deleting sp && brphase_eqb (bs_phase st) PhCompleted && sp_finalizer sp) eqn:E.
  - apply andb_true_iff in E. destruct E as [E E3]. apply andb_true_iff in E. destruct E as [E1 E2].
    apply brphase_eqb_eq in E2. auto.
  - destruct (sync_status sp st w) as [s2 stop].
    destruct (negb (status_eqb st s2)); [inversion H; subst; discriminate|].
    destruct stop; [inversion H; subst; discriminate|].
    destruct (execute sp st s2 w); [discriminate|]. inversion H; subst. discriminate.
Qed.

(* C18, the converse for the BatchRelease: a deleting object that keeps its finalizer is on its way to Completed and says
   so -- every such reconcile asks for a requeue or changes the recorded status (which wakes the controller through its
   own watch); and a deleting object recorded as Completed loses the finalizer in the next reconcile *)
Lemma sync_deleting_phase sp st w s2 stop : sp_deleting sp = true -> bs_phase st <> PhCompleted ->
  sync_status sp st w = (s2, stop) -> bs_phase s2 = PhFinalizing /\ stop = false.
Proof.
  intros Hd Hne. unfold sync_status. destruct (sync_workload sp _ w) as [ev has_info].
  destruct (brphase_eqb (bs_phase st) PhCompleted) eqn:E; [apply brphase_eqb_eq in E; congruence|].
  rewrite Hd. cbn [orb]. intros H. injection H as <- <-. split; reflexivity.
Qed.

Theorem br_teardown_never_stalls sp st w r : sp_deleting sp = true -> sp_finalizer sp = true ->
  reconcile sp st w = Some r -> r_finalizer r = true ->
  r_requeue r = RqAfter \/ status_eqb st (r_status r) = false.
Proof.
  intros Hd Hfin H Hf. unfold reconcile in H. rewrite Hd, Hfin in H. cbn [andb] in H. rewrite andb_true_r in H.
  destruct (brphase_eqb (bs_phase st) PhCompleted) eqn:E.
  { injection H as <-. cbn in Hf. discriminate. }
  assert (Hne : bs_phase st <> PhCompleted) by (intros Hx; rewrite Hx in E; cbn in E; discriminate).
  destruct (sync_status sp st w) as [s2 stop] eqn:Hs.
  destruct (sync_deleting_phase sp st w s2 stop Hd Hne Hs) as [Hp ->].
  destruct (negb (status_eqb st s2)) eqn:En.
  { injection H as <-. left. reflexivity. }
  apply negb_false_iff in En. apply status_eqb_eq in En. subst s2.
  unfold execute in H. rewrite Hp in H.
  right. destruct (status_eqb st (r_status r)) eqn:Eq; [|reflexivity]. apply status_eqb_eq in Eq.
  exfalso. assert (Hph : bs_phase (r_status r) = PhCompleted).
  { destruct (negb (w_exists w)); injection H as <-; reflexivity. }
  rewrite <- Eq in Hph. congruence.
Qed.

Theorem br_deletion_not_blocked sp st w r : sp_deleting sp = true -> sp_finalizer sp = true -> bs_phase st = PhCompleted ->
  reconcile sp st w = Some r -> r_finalizer r = false.
Proof.
  intros Hd Hfin Hp H. unfold reconcile in H. rewrite Hd, Hfin, Hp in H. cbn in H. injection H as <-. reflexivity.
Qed.

(* ---------- C07: a quiet BatchRelease reconcile is waiting for somebody else ---------- *)
Lemma sync_completed_stops sp st w s2 stop : bs_phase st = PhCompleted -> sync_status sp st w = (s2, stop) -> stop = true.
Proof.
  intros Hp. unfold sync_status. rewrite Hp. cbn [brphase_eqb].
  destruct (sync_workload sp st w) as [ev has_info]. intros H. injection H as _ <-. reflexivity.
Qed.

Theorem br_quiet_is_waiting sp st w r :
  reconcile sp st w = Some r -> r_finalizer r = true ->
  r_requeue r = RqNone -> r_err r = false -> status_eqb st (r_status r) = true ->
  waits_br sp st w = true.
Proof.
  intros H Hf Hrq He Hs. unfold waits_br. unfold reconcile in H.
  destruct (sp_deleting sp && brphase_eqb (bs_phase st) PhCompleted && sp_finalizer sp).
  { injection H as <-. cbn in Hf. discriminate. }
  destruct (sync_status sp st w) as [s2 stop] eqn:Hsync. cbn [snd].
  destruct (negb (status_eqb st s2)) eqn:En.
  { injection H as <-. cbn in Hrq. discriminate. }
  destruct stop; [reflexivity|]. cbn [orb].
  apply negb_false_iff in En. apply status_eqb_eq in En. subst s2.
  apply status_eqb_eq in Hs.
  destruct (execute sp st st w) as [|s w' rq err up] eqn:Hx; [discriminate|].
  injection H as <-. cbn in Hrq, He, Hs. subst rq err.
  assert (Hph : bs_phase s = bs_phase st /\ bs_state s = bs_state st) by (rewrite Hs; cbn; auto).
  destruct Hph as [Hph Hst]. clear Hs.
  unfold execute in Hx. destruct (bs_phase st) eqn:Ep.
  - (* Initial and other phases: prepare *)
    destruct (negb (w_exists w)); [discriminate|discriminate].
  - destruct (negb (w_exists w)); [discriminate|discriminate].
  - (* Progressing *)
    destruct (negb (w_exists w)); [discriminate|].
    destruct (bs_state st) eqn:Es.
    + destruct (w_replicas w =? 0); [discriminate|]. destruct (calc_ctx _); discriminate.
    + destruct (if w_replicas w =? 0 then Some true else _) as [[|]|]; discriminate.
    + cbn [brphase_eqb bstate_eqb andb].
      destruct (if w_replicas w =? 0 then Some true else _) as [[|]|]; try discriminate.
      destruct (is_partitioned sp st); [reflexivity|discriminate].
    + destruct (w_replicas w =? 0); [discriminate|]. destruct (calc_ctx _); discriminate.
    + destruct (w_replicas w =? 0); [discriminate|]. destruct (calc_ctx _); discriminate.
  - (* Finalizing: the status moves to Completed *)
    exfalso. destruct (negb (w_exists w)); injection Hx; intros; subst s; cbn in Hph; discriminate.
  - (* Completed: the sync phase had stopped *)
    exfalso. pose proof (sync_completed_stops sp st w st false Ep Hsync). discriminate.
  - destruct (negb (w_exists w)); [discriminate|discriminate].
Qed.

(* ---------- C07, stronger: a reconcile that will not wake itself leaves a state in which it has nothing to do ----------
   The BatchRelease controller's watch ignores updates of its own status (unless the object is being deleted), so a
   status change is no wake-up for it.  A reconcile that returns neither an error nor a requeue therefore must have
   written the workload (whose event comes back), or leave behind a state of waits_br: Completed, stopped by the sync
   phase for the workload / the Rollout, or a Ready batch held by batchPartition. *)
Lemma sync_workload_ext sp s0 s0' w : bs_obs_replicas s0 = bs_obs_replicas s0' -> bs_update s0 = bs_update s0' -> bs_stable s0 = bs_stable s0' ->
     sync_workload sp s0 w = sync_workload sp s0' w.
Proof. intros H1 H2 H3. unfold sync_workload. rewrite H1, H2, H3. reflexivity. Qed.
Lemma sync_stop_ignores_gen_cond sp st w g c : snd (sync_status sp (set_gen_cond st g c) w) = snd (sync_status sp st w).
Proof.
  unfold sync_status. cbv zeta.
  rewrite (sync_workload_ext sp (match bs_phase (set_gen_cond st g c) with PhInitial => reset_status (set_gen_cond st g c) | _ => set_gen_cond st g c end)
             (match bs_phase st with PhInitial => reset_status st | _ => st end) w) by (destruct st as [ph ? ? ? ? ? ? ? ? ? ? ?]; destruct ph; reflexivity).
  destruct (sync_workload sp _ w) as [ev hi].
  unfold is_progressing. cbn [bs_phase bs_hash bs_batch set_gen_cond].
  repeat match goal with |- context [if ?x then _ else _] => destruct x; cbn [snd] end; try reflexivity.
  all: destruct ev; cbn [snd]; try reflexivity.
  all: repeat match goal with |- context [if ?x then _ else _] => destruct x; cbn [snd] end; try reflexivity.
Qed.

Theorem br_no_self_wake_means_settled sp st w r :
  reconcile sp st w = Some r -> r_finalizer r = true -> r_requeue r = RqNone -> r_err r = false ->
  wl_eqb w (r_workload r) = false \/ waits_br sp (r_status r) (r_workload r) = true.
Proof.
  intros H Hf Hrq He. unfold reconcile in H.
  destruct (sp_deleting sp && brphase_eqb (bs_phase st) PhCompleted && sp_finalizer sp).
  { injection H as <-. cbn in Hf. discriminate. }
  destruct (sync_status sp st w) as [s2 stop] eqn:Hsync.
  destruct (negb (status_eqb st s2)) eqn:En.
  { injection H as <-. cbn in Hrq. discriminate. }
  apply negb_false_iff in En. apply status_eqb_eq in En. subst s2.
  destruct stop.
  { injection H as <-. right. cbn [r_status r_workload]. unfold waits_br.
    rewrite sync_stop_ignores_gen_cond, Hsync. reflexivity. }
  destruct (execute sp st st w) as [|s w' rq err up] eqn:Hx; [discriminate|].
  injection H as <-. cbn in Hrq, He. subst rq err. cbn [r_status r_workload].
  unfold execute in Hx. destruct (bs_phase st) eqn:Ep.
  - destruct (negb (w_exists w)); discriminate.
  - destruct (negb (w_exists w)); discriminate.
  - destruct (negb (w_exists w)); [discriminate|].
    destruct (bs_state st) eqn:Es.
    + destruct (w_replicas w =? 0); [discriminate|]. destruct (calc_ctx _); discriminate.
    + destruct (if w_replicas w =? 0 then Some true else _) as [[|]|]; discriminate.
    + destruct (if w_replicas w =? 0 then Some true else _) as [[|]|]; try discriminate.
      destruct (is_partitioned sp st) eqn:Hpart; [|discriminate]. injection Hx as <- <- _.
      right. unfold waits_br. apply orb_true_iff. right.
      cbn [bs_phase bs_state set_gen_cond]. rewrite Ep, Es. cbn [brphase_eqb bstate_eqb andb].
      unfold is_partitioned in *. cbn [bs_batch set_gen_cond]. exact Hpart.
    + destruct (w_replicas w =? 0); [discriminate|]. destruct (calc_ctx _); discriminate.
    + destruct (w_replicas w =? 0); [discriminate|]. destruct (calc_ctx _); discriminate.
  - (* Finalizing -> Completed: nothing left to do *)
    right. unfold waits_br. apply orb_true_iff. left.
    assert (Hc : bs_phase (set_gen_cond s (sp_generation sp) (bs_cond s)) = PhCompleted).
    { destruct (negb (w_exists w)); injection Hx; intros; subst s; reflexivity. }
    destruct (sync_status sp (set_gen_cond s (sp_generation sp) (bs_cond s)) w') as [s3 stop3] eqn:H3.
    cbn [snd]. exact (sync_completed_stops _ _ _ _ _ Hc H3).
  - exfalso. pose proof (sync_completed_stops sp st w st false Ep Hsync). discriminate.
  - destruct (negb (w_exists w)); discriminate.
Qed.
