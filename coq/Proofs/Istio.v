(* Proofs about Model/Istio.v (C15, built-in Istio scripts). *)
From RV Require Import Base.Util Model.Istio Corr.Istio.

Lemma forall2b_map {A} (f : A -> A -> bool) (g : A -> A) l : (forall x, f x (g x) = true) -> forall2b f l (map g l) = true.
Proof. intros H. induction l as [|x l IH]; cbn; [reflexivity|]. rewrite H, IH. reflexivity. Qed.

Lemma route_eqb_refl r : route_eqb r r = true.
Proof. unfold route_eqb. rewrite !String.eqb_refl. destruct (rt_weight r); cbn; rewrite ?Z.eqb_refl; reflexivity. Qed.
Lemma routes_eqb_refl l : list_eqb route_eqb l l = true.
Proof. induction l as [|r l IH]; cbn; [reflexivity|]. rewrite route_eqb_refl, IH. reflexivity. Qed.
Lemma vrule_eqb_refl r : vrule_eqb r r = true.
Proof. unfold vrule_eqb. rewrite Bool.eqb_reflx, routes_eqb_refl, String.eqb_refl. reflexivity. Qed.
Lemma rules_eqb_refl l : rules_eqb 0 l l = true.
Proof. induction l as [|r l IH]; cbn; [reflexivity|]. rewrite vrule_eqb_refl, IH. reflexivity. Qed.

(* a rule whose only destination is the stable service gets exactly (100-w, w) *)
Lemma split_rule stable canary w r :
  split_ok stable canary w r (patch_rule stable canary (fst (weights w)) (snd (weights w)) r) = true.
Proof.
  unfold split_ok, single_stable. destruct (vr_match r) eqn:Em; [reflexivity|].
  destruct (vr_routes r) as [|rt [|rt2 rest]] eqn:Er; try reflexivity.
  destruct (String.eqb (host_of rt) stable) eqn:Eh; cbn [andb]; [|reflexivity].
  destruct (match rt_weight rt with None | Some 100 => true | _ => false end) eqn:Ew; [|reflexivity].
  destruct (weights w) as [sw cw] eqn:EW. cbn [fst snd].
  unfold patch_rule, visits. rewrite Em, Er. cbn [filter]. rewrite Eh. cbn [List.length iter vr_routes vr_match vr_rest].
  unfold patch_once. cbn [map app]. change (zlen [rt]) with 1.
  assert (Hc : calc_weight rt sw 1 = sw).
  { unfold calc_weight. destruct (rt_weight rt) as [x|]; [|apply Z.div_1_r].
    assert (x = 100) by (destruct x as [|p|p]; try discriminate; repeat (destruct p as [p|p|]; try discriminate); reflexivity).
    subst x. rewrite Z.mul_comm. apply Z.div_mul. discriminate. }
  rewrite Hc. cbn [list_eqb]. rewrite !route_eqb_refl, String.eqb_refl. reflexivity.
Qed.

(* rules with a match, or without any destination on the stable service, are not touched *)
Lemma untouched_rule stable canary sw cw r : untouched_ok stable r (patch_rule stable canary sw cw r) = true.
Proof.
  unfold untouched_ok. destruct (vr_match r || negb (existsb (fun rt => String.eqb (host_of rt) stable) (vr_routes r))) eqn:E; [|reflexivity].
  assert (Hv : visits stable r = O).
  { unfold visits. destruct (vr_match r); [reflexivity|]. cbn in E. apply Bool.negb_true_iff in E.
    induction (vr_routes r) as [|rt l IH]; [reflexivity|]. cbn in E |- *. apply Bool.orb_false_iff in E as [E1 E2].
    rewrite E1. apply IH, E2. }
  unfold patch_rule. rewrite Hv. cbn [iter]. destruct r; apply vrule_eqb_refl.
Qed.

Lemma per_rule_gen f stable canary sw cw rules :
  (forall r, f r (patch_rule stable canary sw cw r) = true) -> per_rule f rules (gen_routes stable canary sw cw rules) = true.
Proof. intros H. destruct rules as [l|]; cbn; [apply forall2b_map, H|reflexivity]. Qed.

Lemma split_thm stable canary w s : split_holds stable canary w s (virtual_service stable canary w O s) = true.
Proof.
  unfold split_holds, virtual_service, on_spec.
  replace (if w =? -1 then 100 else w) with (snd (weights w)) by (unfold weights; destruct (w =? -1); reflexivity).
  replace (if w =? -1 then 0 else 100 - w) with (fst (weights w)) by (unfold weights; destruct (w =? -1); reflexivity).
  cbv beta iota delta [vs_http vs_tcp vs_tls].
  rewrite !per_rule_gen; try reflexivity; intros r; apply split_rule.
Qed.

Lemma untouched_thm stable canary w s : untouched_holds stable s (virtual_service stable canary w O s) = true.
Proof.
  unfold untouched_holds, virtual_service, on_spec. cbv beta iota delta [vs_http vs_tcp vs_tls].
  rewrite !per_rule_gen; try reflexivity; intros r; apply untouched_rule.
Qed.

Lemma skipn_repeat_app {A} (x : A) n l : skipn n (repeat x n ++ l) = l.
Proof. induction n; cbn; auto. Qed.

(* on the matches path nothing the user had is changed: the generated rules are put in front *)
Lemma originals_kept_thm stable canary w n s : n <> O ->
  match virtual_service stable canary w n s with
  | Some a => originals_kept n s (Some a) = true
  | None => vs_http s = None
  end.
Proof.
  intros Hn. unfold virtual_service. destruct n as [|n]; [contradiction|].
  destruct (vs_http s) as [l|] eqn:Eh; [|reflexivity].
  unfold originals_kept. rewrite Eh. cbn [vs_http vs_tcp vs_tls].
  rewrite skipn_repeat_app. cbn [opt_eqb]. rewrite rules_eqb_refl.
  destruct (vs_tcp s), (vs_tls s); cbn; rewrite ?rules_eqb_refl; reflexivity.
Qed.

(* the sum of the two weights of a split rule is 100 whenever a weight was given in 0..100 *)
Lemma split_sums_to_100 w : w <> -1 -> fst (weights w) + snd (weights w) = 100.
Proof. intros H. unfold weights. destruct (w =? -1) eqn:E; [apply Z.eqb_eq in E; contradiction|cbn [fst snd]; lia]. Qed.

Example split_example :
  virtual_service "svc" "svc-canary" 20 O
    {| vs_http := Some [ {| vr_match := false; vr_routes := [ {| rt_host := "svc.ns.svc.cluster.local"; rt_subset := ""; rt_weight := None; rt_rest := "" |} ]; vr_rest := "" |} ];
       vs_tcp := None; vs_tls := None; vs_rest := "" |} =
  Some {| vs_http := Some [ {| vr_match := false;
                               vr_routes := [ {| rt_host := "svc.ns.svc.cluster.local"; rt_subset := ""; rt_weight := Some 80; rt_rest := "" |};
                                              {| rt_host := "svc-canary"; rt_subset := ""; rt_weight := Some 20; rt_rest := "" |} ]; vr_rest := "" |} ];
          vs_tcp := None; vs_tls := None; vs_rest := "" |}.
Proof. vm_compute. reflexivity. Qed.
