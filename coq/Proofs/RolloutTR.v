(* Proofs about Model/TrafficMgr.v and Model/RolloutTR.v: where and when a reconcile writes to the gateway (C03). *)
From RV Require Import Base.Util Base.IntStr Model.RolloutSM Model.TrafficMgr Model.RolloutTR Corr.RolloutSM Corr.TrafficMgr Corr.RolloutTR Proofs.RolloutSM.

Definition is_route_write (w : write) : bool := match w with WRoute _ => true | _ => false end.
Definition no_route_writes (ws : list write) : Prop := forallb (fun w => negb (is_route_write w)) ws = true.

Lemma no_route_app a b : no_route_writes a -> no_route_writes b -> no_route_writes (a ++ b).
Proof. unfold no_route_writes. rewrite forallb_app. intros -> ->. reflexivity. Qed.
Lemma no_route_app_inv a b : no_route_writes (a ++ b) -> no_route_writes a /\ no_route_writes b.
Proof. unfold no_route_writes. rewrite forallb_app. intros H. apply andb_prop in H. exact H. Qed.
Lemma no_route_nil : no_route_writes []. Proof. reflexivity. Qed.

(* ---- manager ---- *)
Lemma with_grace_fst z a m g : fst (with_grace z a m false g) = fst (with_grace z a m false g). Proof. reflexivity. Qed.

Lemma restore_stable_no_route c n g : no_route_writes (tr_writes (restore_stable_service c n g)).
Proof. unfold restore_stable_service. destruct (negb (tc_refs c)); [reflexivity|]. destruct (negb (n_stable_exists n)); [reflexivity|].
  destruct (with_grace _ _ _ _ _) as [rt g']. cbn [tr_writes]. destruct (tc_key c && match n_stable_sel n with Some r => negb (sempty r) | None => false end); reflexivity. Qed.
Lemma patch_stable_no_route c n g : no_route_writes (tr_writes (patch_stable_service c n g)).
Proof. unfold patch_stable_service. destruct (negb (tc_refs c)); [reflexivity|]. destruct (tc_only_traffic c); [reflexivity|]. destruct (negb (n_stable_exists n)); [reflexivity|].
  destruct (with_grace _ _ _ _ _) as [rt g']. cbn [tr_writes]. destruct (negb _); reflexivity. Qed.
Lemma restore_gateway_no_route c n g : no_route_writes (tr_writes (restore_gateway c n g)).
Proof. unfold restore_gateway, finalise_routes. destruct (negb (tc_refs c)); [reflexivity|]. destruct (tc_gateway_fails c); [reflexivity|]. destruct (n_route n);
  destruct (with_grace _ _ _ _ _) as [rt g']; reflexivity. Qed.
Lemma remove_canary_no_route c n g : no_route_writes (tr_writes (remove_canary_service c n g)).
Proof. unfold remove_canary_service. destruct (negb (tc_refs c)); [reflexivity|]. destruct (tc_only_traffic c); [reflexivity|].
  destruct (with_grace _ _ _ _ _) as [rt g']. cbn [tr_writes]. destruct (n_canary_svc n); reflexivity. Qed.
Lemma seq_tres_no_route a k : no_route_writes (tr_writes a) -> (forall g, no_route_writes (tr_writes (k g))) -> no_route_writes (tr_writes (seq_tres a k)).
Proof. intros Ha Hk. unfold seq_tres. destruct (tr_err a || negb (tr_ok a)); cbn [tr_writes]; [exact Ha|]. apply no_route_app; auto. Qed.
Lemma finalising_no_route c n g : no_route_writes (tr_writes (finalising_traffic_routing c n g)).
Proof. unfold finalising_traffic_routing. destruct (negb (tc_refs c)); [reflexivity|].
  apply seq_tres_no_route; [apply restore_stable_no_route|]. intros g1. apply seq_tres_no_route; [apply restore_gateway_no_route|]. intros g2. apply remove_canary_no_route. Qed.

(* DoTrafficRouting touches the gateway only when both Services are already as they must be and the grace period
   after the last change has passed; it writes nothing else in that call *)
Lemma do_traffic_route_write c n g : tc_only_traffic c = false ->
  no_route_writes (tr_writes (do_traffic_routing c n g)) \/
  (n_canary_svc n = Some (tc_canary_rev c) /\ n_stable_sel n = Some (tc_stable_rev c) /\ tc_last_update c <> Some false /\
   exists s, tr_writes (do_traffic_routing c n g) = [WRoute s] /\ (s = tc_strategy c \/ (n_route n = RNone /\ s = init_strategy))).
Proof.
  intros Honly. unfold do_traffic_routing. rewrite Honly. cbn [negb andb].
  destruct (negb (tc_refs c)); [left; reflexivity|]. destruct (strategy_empty (tc_strategy c)); [left; reflexivity|].
  destruct (negb (n_stable_exists n)); [left; reflexivity|].
  destruct (match tc_last_update c with Some false => true | _ => false end) eqn:Elu; [left; reflexivity|].
  destruct (sempty (tc_stable_rev c) || sempty (tc_canary_rev c)); [left; reflexivity|].
  destruct (n_canary_svc n) as [cs|] eqn:Ec; [destruct (String.eqb cs (tc_canary_rev c)) eqn:Ecs|].
  2:{ left. destruct (n_stable_sel n) as [ss|]; [destruct (String.eqb ss (tc_stable_rev c))|]; reflexivity. }
  2:{ left. destruct (n_stable_sel n) as [ss|]; [destruct (String.eqb ss (tc_stable_rev c))|]; reflexivity. }
  destruct (n_stable_sel n) as [ss|] eqn:Es; [destruct (String.eqb ss (tc_stable_rev c)) eqn:Ess|]; [|left; reflexivity|left; reflexivity].
  cbn [app]. apply String.eqb_eq in Ecs, Ess. subst cs ss.
  destruct (tc_gateway_fails c); [left; reflexivity|].
  unfold ensure_routes. destruct (n_route n) as [|x] eqn:Er.
  - destruct (strategy_eqb (tc_strategy c) init_strategy); [left; reflexivity|]. right. repeat split; auto.
    + destruct (tc_last_update c) as [[|]|]; congruence.
    + exists init_strategy. split; [reflexivity|]. right. auto.
  - destruct (strategy_eqb x (tc_strategy c)); [left; reflexivity|]. right. repeat split; auto.
    + destruct (tc_last_update c) as [[|]|]; congruence.
    + exists (tc_strategy c). split; [reflexivity|]. left. reflexivity.
Qed.

Lemma strategy_eqb_eq a b : strategy_eqb a b = true -> a = b.
Proof. destruct a as [w1 m1], b as [w2 m2]. unfold strategy_eqb; cbn. intros H. apply andb_prop in H as [H1 H2].
  f_equal; [destruct w1, w2; cbn in H1; try discriminate; [apply Z.eqb_eq in H1; congruence|reflexivity]
           |destruct m1, m2; cbn in H2; try discriminate; [apply String.eqb_eq in H2; congruence|reflexivity]]. Qed.

(* when DoTrafficRouting reports done for a step that configures traffic, the gateway carries exactly that strategy and
   both Services select what they must; nothing was written by that call *)
Lemma do_traffic_done c n g : tc_refs c = true -> tc_only_traffic c = false -> strategy_empty (tc_strategy c) = false ->
  tr_ok (do_traffic_routing c n g) = true ->
  tr_writes (do_traffic_routing c n g) = [] /\ n_canary_svc n = Some (tc_canary_rev c) /\ n_stable_sel n = Some (tc_stable_rev c) /\
  (n_route n = RSet (tc_strategy c) \/ (n_route n = RNone /\ tc_strategy c = init_strategy)).
Proof.
  intros Hr Honly He. unfold do_traffic_routing. rewrite Hr, Honly, He. cbn [negb andb].
  destruct (negb (n_stable_exists n)); [discriminate|].
  destruct (match tc_last_update c with Some false => true | _ => false end); [discriminate|].
  destruct (sempty (tc_stable_rev c) || sempty (tc_canary_rev c)); [discriminate|].
  destruct (n_canary_svc n) as [cs|]; [destruct (String.eqb cs (tc_canary_rev c)) eqn:Ecs|];
  (destruct (n_stable_sel n) as [ss|]; [destruct (String.eqb ss (tc_stable_rev c)) eqn:Ess|]); cbn [app tr_ok]; try discriminate.
  apply String.eqb_eq in Ecs, Ess. subst.
  destruct (tc_gateway_fails c); [discriminate|].
  unfold ensure_routes. destruct (n_route n) as [|x].
  - destruct (strategy_eqb (tc_strategy c) init_strategy) eqn:E; cbn [tr_ok tr_writes]; [|discriminate]. intros _.
    apply strategy_eqb_eq in E. auto 6.
  - destruct (strategy_eqb x (tc_strategy c)) eqn:E; cbn [tr_ok tr_writes]; [|discriminate]. intros _.
    apply strategy_eqb_eq in E. subst. auto 6.
Qed.

(* ---- release manager ---- *)
Lemma canary_upgrade_shape sp u w br cur : exists u' br' rq, canary_upgrade sp u w br cur = COut u' br' rq.
Proof. unfold canary_upgrade. destruct br as [b|]; [|eauto]. destruct (negb (br_spec_eqb _ _)); [eauto|].
  destruct (negb (br_consistent b)); [eauto|]. destruct (negb (br_state_ready b) || _); eauto. Qed.

(* destruct the condition of the first `if` of hypothesis H *)
Ltac if_in H := match type of H with context[if ?b then _ else _] =>
  lazymatch b with context[if _ then _ else _] => fail | _ => destruct b eqn:? end end.

(* a route write by the step machine happens in the traffic-routing state only, as the single write of that reconcile *)
Lemma canary_step_route_write t u w br cur n g ws0 o : no_route_writes ws0 ->
  canary_step_tr t u w br cur n g ws0 = CrOut o -> ~ no_route_writes (co_writes o) ->
  su_state u = StTraffic /\ exists s, co_writes o = ws0 ++ [WRoute s] /\
    n_canary_svc n = Some (su_pth u) /\ n_stable_sel n = Some (su_stable u) /\ su_elapsed u = true.
Proof.
  intros H0 H Hw. revert H. unfold canary_step_tr, cr. destruct (su_state u) eqn:Est.
  - intros H. exfalso. apply Hw. clear Hw. revert H.
    destruct (strategy_empty (tr_strategy t (su_idx u))); [intros H; injection H as <-; exact H0|].
    set (a := if full_step w cur then restore_stable_service (mk_ctx t u) n g else tdone true g).
    assert (Ha : no_route_writes (tr_writes a)) by (subst a; destruct (full_step w cur); [apply restore_stable_no_route|reflexivity]).
    destruct (tr_err a); [intros H; injection H as <-; apply no_route_app; auto|].
    destruct (negb (tr_ok a)); [intros H; injection H as <-; apply no_route_app; auto|].
    set (b := if su_idx u =? 1 then _ else _).
    assert (Hb : no_route_writes (tr_writes b)) by (subst b; destruct (su_idx u =? 1); [apply patch_stable_no_route|reflexivity]).
    assert (Hab : no_route_writes (ws0 ++ tr_writes a ++ tr_writes b)) by (repeat apply no_route_app; auto).
    destruct (tr_err b); [intros H; injection H as <-; exact Hab|]. destruct (negb (tr_ok b)); [intros H; injection H as <-; exact Hab|].
    destruct (canary_upgrade_shape (ts_sp t) (set_state u StUpgrade false) w br cur) as (u' & br' & rq & E). rewrite E. intros H; injection H as <-. exact Hab.
  - intros H. exfalso. apply Hw. revert H. destruct (canary_upgrade_shape (ts_sp t) u w br cur) as (u' & br' & rq & E). rewrite E. intros H; injection H as <-. exact H0.
  - split; [reflexivity|]. revert H.
    destruct (do_traffic_route_write (mk_ctx t u) n g eq_refl) as [Hn|(Hc & Hs & Hl & s & Hws & _)].
    + intros H. exfalso. apply Hw. revert H. destruct (tr_err (do_traffic_routing (mk_ctx t u) n g)); intros H; injection H as <-; apply no_route_app; auto.
    + exists s. cbn [mk_ctx tc_canary_rev tc_stable_rev tc_last_update] in Hc, Hs, Hl.
      assert (Hel : su_elapsed u = true) by (destruct (su_elapsed u); congruence).
      revert H. destruct (tr_err (do_traffic_routing (mk_ctx t u) n g)); intros H; injection H as <-; cbn [co_writes]; rewrite Hws; auto.
  - intros H. exfalso. apply Hw. revert H. unfold of_canary_out. destruct (canary_step (ts_sp t) u w br cur) eqn:E; [discriminate|]. intros H; injection H as <-. exact H0.
  - intros H. exfalso. apply Hw. revert H. unfold of_canary_out. destruct (canary_step (ts_sp t) u w br cur) eqn:E; [discriminate|]. intros H; injection H as <-. exact H0.
  - intros H. exfalso. apply Hw. revert H. unfold of_canary_out. destruct (canary_step (ts_sp t) u w br cur) eqn:E; [discriminate|]. intros H; injection H as <-. exact H0.
  - intros H. exfalso. apply Hw. revert H. unfold of_canary_out. destruct (canary_step (ts_sp t) u w br cur) eqn:E; [discriminate|]. intros H; injection H as <-. exact H0.
  - intros H. exfalso. apply Hw. revert H. unfold of_canary_out. destruct (canary_step (ts_sp t) u w br cur) eqn:E; [discriminate|]. intros H; injection H as <-. exact H0.
Qed.

Lemma do_traffic_empty c n g : strategy_empty (tc_strategy c) = true -> tr_writes (do_traffic_routing c n g) = [].
Proof. intros H. unfold do_traffic_routing. destruct (negb (tc_refs c)); [reflexivity|]. rewrite H. reflexivity. Qed.

Lemma canary_step_empty_no_route t u w br cur n g ws0 o : strategy_empty (tr_strategy t (su_idx u)) = true -> no_route_writes ws0 ->
  canary_step_tr t u w br cur n g ws0 = CrOut o -> no_route_writes (co_writes o).
Proof.
  intros He H0 H. destruct (forallb (fun w => negb (is_route_write w)) (co_writes o)) eqn:E; [exact E|]. exfalso.
  assert (Hn : ~ no_route_writes (co_writes o)) by (unfold no_route_writes; congruence).
  destruct (canary_step_route_write _ _ _ _ _ _ _ _ _ H0 H Hn) as (Hst & s & Hws & _).
  revert H. unfold canary_step_tr, cr. rewrite Hst.
  pose proof (do_traffic_empty (mk_ctx t u) n g He) as Hd.
  destruct (tr_err (do_traffic_routing (mk_ctx t u) n g)); intros H; injection H as <-; cbn [co_writes] in *; rewrite Hd, app_nil_r in *;
  apply Hn; exact H0.
Qed.

Lemma touch_keeps u r : su_idx (touch u r) = su_idx u /\ su_state (touch u r) = su_state u /\ su_stable (touch u r) = su_stable u /\ su_pth (touch u r) = su_pth u.
Proof. unfold touch. destruct (tr_touched r); cbn; auto. Qed.

Lemma sync_fill_keeps_stable u0 br0 w : let u := fill_pth (fst (sync_br u0 br0)) w in su_stable u = su_stable u0.
Proof. unfold sync_br, fill_pth. destruct br0 as [b|]; cbn; destruct (sempty _); reflexivity. Qed.

(* runCanary: a route write happens only in the traffic-routing state of the current step, behind Services that already
   select the right revisions, and after the grace period since the last change *)
Lemma run_canary_route_write t u0 w br0 n g o :
  run_canary_tr t u0 w br0 n g = CrOut o -> ~ no_route_writes (co_writes o) ->
  su_state u0 = StTraffic /\ n_stable_sel n = Some (su_stable u0) /\ (exists r, n_canary_svc n = Some r) /\ su_elapsed u0 = true /\
  exists s, co_writes o = [WRoute s].
Proof.
  unfold run_canary_tr, cr. destruct (sync_br u0 br0) as [u1 br] eqn:Es.
  pose proof (sync_fill_keeps u0 br0 w) as Hk. pose proof (sync_fill_keeps_stable u0 br0 w) as Hks. rewrite Es in Hk, Hks. cbn [fst] in Hk, Hks. cbn zeta in Hk, Hks.
  destruct Hk as (Hi & Hst & _ & Hel & _).
  set (u := fill_pth u1 w) in *.
  destruct (do_jump (ts_sp t) u) as [[u'|]|]; [intros H Hn; injection H as <-; exfalso; apply Hn; reflexivity| |discriminate].
  destruct (get_step (ts_sp t) (su_idx u)) as [cur|]; [|discriminate].
  destruct (strategy_empty (tr_strategy t (su_idx u))) eqn:Ee.
  - set (r := finalising_traffic_routing (mk_ctx t u) n g).
    pose proof (finalising_no_route (mk_ctx t u) n g) as Hr. fold r in Hr.
    destruct (tr_err r); [intros H Hn; injection H as <-; exfalso; apply Hn; exact Hr|].
    destruct (negb (tr_ok r)); [intros H Hn; injection H as <-; exfalso; apply Hn; exact Hr|].
    intros H Hn. exfalso. apply Hn. destruct (touch_keeps u r) as (Hti & _).
    eapply canary_step_empty_no_route; [| exact Hr | exact H]. rewrite Hti. exact Ee.
  - intros H Hn. destruct (canary_step_route_write _ _ _ _ _ _ _ _ _ no_route_nil H Hn) as (Hs & s & Hws & Hc & Hss & He).
    rewrite <- Hst, <- Hks, <- Hel. repeat split; auto; eauto.
Qed.

Lemma finalise_tr_no_route t u w br r wr n g : no_route_writes (co_writes (snd (finalise_tr t u w br r wr n g))).
Proof.
  unfold finalise_tr. destruct (ftask_eqb (su_fin u) FtEnd); [reflexivity|].
  set (u1 := match su_fin u with FtNone => _ | _ => u end).
  assert (Ht : forall x, no_route_writes (tr_writes x) ->
    no_route_writes (co_writes (snd (if tr_err x then (false, {| co_sub := u1; co_br := br; co_requeue := false; co_writes := tr_writes x; co_graces := tr_graces x; co_err := true |})
      else if negb (tr_ok x) then (false, {| co_sub := u1; co_br := br; co_requeue := false; co_writes := tr_writes x; co_graces := tr_graces x; co_err := false |})
      else (ftask_eqb (next_task r (su_fin u)) FtEnd,
            {| co_sub := upd_sub u1 (su_idx u1) (su_next u1) (su_state u1) (next_task r (su_fin u)) false; co_br := br; co_requeue := false;
               co_writes := tr_writes x; co_graces := tr_graces x; co_err := false |})))))
    by (intros x Hx; destruct (tr_err x); [exact Hx|]; destruct (negb (tr_ok x)); exact Hx).
  destruct (su_fin u1); try (destruct (finalise (ts_sp t) u w br r wr) as [[d u'] br']; reflexivity).
  - apply Ht, restore_stable_no_route.
  - apply Ht, restore_gateway_no_route.
  - apply Ht, remove_canary_no_route.
Qed.

Lemma reset_tr_no_route t u br n g : no_route_writes (co_writes (snd (reset_tr t u br n g))).
Proof.
  unfold reset_tr.
  assert (H3 : forall u br ws g, no_route_writes ws ->
     no_route_writes (co_writes (snd (let x := remove_canary_service (mk_ctx t u) (apply_writes n ws) g in
       if tr_err x then (false, {| co_sub := touch u x; co_br := br; co_requeue := false; co_writes := ws ++ tr_writes x; co_graces := tr_graces x; co_err := true |})
       else (true, {| co_sub := u; co_br := br; co_requeue := false; co_writes := ws ++ tr_writes x; co_graces := tr_graces x; co_err := false |}))))).
  { intros u' br' ws g' Hws. cbn zeta. pose proof (remove_canary_no_route (mk_ctx t u') (apply_writes n ws) g') as Hr.
    destruct (tr_err _); cbn [snd co_writes]; apply no_route_app; auto. }
  assert (H2 : forall u ws g, no_route_writes ws ->
     no_route_writes (co_writes (snd (let '(retry, br') := remove_br br in
       if retry then (false, {| co_sub := u; co_br := br'; co_requeue := false; co_writes := ws; co_graces := g; co_err := false |})
       else let x := remove_canary_service (mk_ctx t (upd_sub u (su_idx u) (su_next u) (su_state u) FtRemoveCanarySvc false)) (apply_writes n ws) g in
       if tr_err x then (false, {| co_sub := touch (upd_sub u (su_idx u) (su_next u) (su_state u) FtRemoveCanarySvc false) x; co_br := br'; co_requeue := false; co_writes := ws ++ tr_writes x; co_graces := tr_graces x; co_err := true |})
       else (true, {| co_sub := upd_sub u (su_idx u) (su_next u) (su_state u) FtRemoveCanarySvc false; co_br := br'; co_requeue := false; co_writes := ws ++ tr_writes x; co_graces := tr_graces x; co_err := false |}))))).
  { intros u' ws g' Hws. destruct (remove_br br) as [retry br']. destruct retry; [exact Hws|]. apply (H3 _ br' ws g' Hws). }
  assert (H1 : forall u, no_route_writes (co_writes (snd (
       let x := restore_gateway (mk_ctx t u) n g in
       if tr_err x || negb (tr_ok x) then (false, {| co_sub := touch u x; co_br := br; co_requeue := false; co_writes := tr_writes x; co_graces := tr_graces x; co_err := tr_err x |})
       else let '(retry, br') := remove_br br in
       if retry then (false, {| co_sub := upd_sub u (su_idx u) (su_next u) (su_state u) FtRelease false; co_br := br'; co_requeue := false; co_writes := tr_writes x; co_graces := tr_graces x; co_err := false |})
       else let u2 := upd_sub u (su_idx u) (su_next u) (su_state u) FtRelease false in
            let y := remove_canary_service (mk_ctx t (upd_sub u2 (su_idx u2) (su_next u2) (su_state u2) FtRemoveCanarySvc false)) (apply_writes n (tr_writes x)) (tr_graces x) in
       if tr_err y then (false, {| co_sub := touch (upd_sub u2 (su_idx u2) (su_next u2) (su_state u2) FtRemoveCanarySvc false) y; co_br := br'; co_requeue := false; co_writes := tr_writes x ++ tr_writes y; co_graces := tr_graces y; co_err := true |})
       else (true, {| co_sub := upd_sub u2 (su_idx u2) (su_next u2) (su_state u2) FtRemoveCanarySvc false; co_br := br'; co_requeue := false; co_writes := tr_writes x ++ tr_writes y; co_graces := tr_graces y; co_err := false |}))))).
  { intros u'. cbn zeta. pose proof (restore_gateway_no_route (mk_ctx t u') n g) as Hx.
    destruct (tr_err _ || negb _); [exact Hx|]. apply (H2 _ _ _ Hx). }
  destruct (su_fin u); try apply H1.
  - apply (H3 u br [] g no_route_nil).
  - apply (H2 u [] g no_route_nil).
Qed.

Lemma of_prog_no_route r s br g o : of_prog r s br g = TpOk o -> tp_writes o = [].
Proof. unfold of_prog, tp. destruct r; [discriminate| |]; intros H; injection H as <-; reflexivity. Qed.

(* what the sub-status looks like when a reconcile writes a route *)
Definition routing_state (u : sub) (n : net) : Prop :=
  su_state u = StTraffic /\ n_stable_sel n = Some (su_stable u) /\ (exists r, n_canary_svc n = Some r) /\ su_elapsed u = true.

Lemma in_rolling_route_write t old s w br n g o :
  in_rolling_tr t old s w br n g = TpOk o -> ~ no_route_writes (tp_writes o) ->
  exists u, rp_sub s = Some u /\ routing_state u n /\ exists x, tp_writes o = [WRoute x].
Proof.
  unfold in_rolling_tr, tp. destruct (rp_sub old) as [ou|]; [|discriminate]. destruct (rp_sub s) as [u|]; [|discriminate].
  destruct (_ || rs_paused (policy_sp t) || _).
  { intros H Hn. rewrite (of_prog_no_route _ _ _ _ _ H) in Hn. exfalso; apply Hn; reflexivity. }
  destruct (negb (sempty (su_canary_rev ou)) && _ && _).
  { destruct (negb (ts_refs t)).
    { intros H Hn. rewrite (of_prog_no_route _ _ _ _ _ H) in Hn. exfalso; apply Hn; reflexivity. }
    pose proof (reset_tr_no_route t u br n g) as Hr. destruct (reset_tr t u br n g) as [done c]. cbn [snd] in Hr.
    destruct (co_err c); [|destruct done]; intros H Hn; injection H as <-; exfalso; apply Hn; exact Hr. }
  destruct (_ || sstate_eqb (su_state u) StCompleted).
  { intros H Hn. rewrite (of_prog_no_route _ _ _ _ _ H) in Hn. exfalso; apply Hn; reflexivity. }
  set (u2 := upd_sub u _ _ _ _ _).
  destruct (run_canary_tr t u2 w br n g) as [|c] eqn:Er; [discriminate|].
  intros H Hn. assert (Hw : tp_writes o = co_writes c) by (destruct (co_err c); injection H as <-; reflexivity).
  rewrite Hw in Hn. destruct (run_canary_route_write _ _ _ _ _ _ _ Er Hn) as (H1 & H2 & H3 & H4 & x & H5).
  exists u. split; [reflexivity|]. split; [|exists x; congruence]. subst u2. cbn in H1, H2, H4. repeat split; auto.
Qed.

Lemma do_finalising_tr_no_route t s w br r wr n g :
  let '(_, _, _, _, ws, _, _) := do_finalising_tr t s w br r wr n g in no_route_writes ws.
Proof. unfold do_finalising_tr. destruct (rp_sub s) as [u|]; [|reflexivity].
  pose proof (finalise_tr_no_route t u w br r wr n g) as H. destruct (finalise_tr t u w br r wr n g) as [d c]. exact H. Qed.

Lemma progressing_route_write t old s w br n g o :
  progressing_tr t old s w br n g = TpOk o -> ~ no_route_writes (tp_writes o) ->
  (exists st el, rp_prog old = Some (PrInRolling, st, el)) /\
  exists u, rp_sub s = Some u /\ routing_state u n /\ exists x, tp_writes o = [WRoute x].
Proof.
  unfold progressing_tr, tp. destruct (rp_prog old) as [[[reason st] el]|]; [|discriminate].
  destruct (negb (wl_exists w) || negb (wl_consistent w)); [intros H Hn; injection H as <-; exfalso; apply Hn; reflexivity|].
  destruct reason.
  - destruct (ts_refs t && (negb (n_stable_exists n) || ts_gateway_fails t)); [intros H Hn; injection H as <-; exfalso; apply Hn; reflexivity|].
    intros H Hn. rewrite (of_prog_no_route _ _ _ _ _ H) in Hn. exfalso; apply Hn; reflexivity.
  - intros H Hn. split; [eauto|]. eapply in_rolling_route_write; eauto.
  - pose proof (do_finalising_tr_no_route t s w br FrSuccess true n g) as Hf.
    destruct (do_finalising_tr t s w br FrSuccess true n g) as [[[[[[d s1] br'] an] ws] g'] err].
    destruct err; [|destruct d]; intros H Hn; injection H as <-; exfalso; apply Hn; exact Hf.
  - intros H Hn. rewrite (of_prog_no_route _ _ _ _ _ H) in Hn. exfalso; apply Hn; reflexivity.
  - pose proof (do_finalising_tr_no_route t s w br FrRollback false n g) as Hf.
    destruct (do_finalising_tr t s w br FrRollback false n g) as [[[[[[d s1] br'] an] ws] g'] err].
    destruct err; [|destruct d]; intros H Hn; injection H as <-; exfalso; apply Hn; exact Hf.
  - intros H Hn. rewrite (of_prog_no_route _ _ _ _ _ H) in Hn. exfalso; apply Hn; reflexivity.
  - intros H Hn. rewrite (of_prog_no_route _ _ _ _ _ H) in Hn. exfalso; apply Hn; reflexivity.
Qed.

Lemma calc_status_none_sub sp st w s : calc_status sp st w = CalcStatus s -> rp_phase st = RpProgressing -> rp_sub st = None -> rp_sub s = None.
Proof.
  unfold calc_status. intros H Hph Hn. rewrite Hph in H. cbn [rphase_eqb rp_phase set_rphase] in H.
  destruct (rs_deleting sp); [injection H as <-; cbn; exact Hn|].
  cbn [negb andb] in H. rewrite ?andb_true_r in H.
  destruct (rs_disabled sp); cbn [andb rp_phase set_rphase rphase_eqb] in H.
  - destruct (negb (wl_exists w)); [injection H as <-; cbn; exact Hn|]. destruct (negb (wl_consistent w)); [discriminate|].
    injection H as <-. cbn. rewrite Hn. cbn. first [exact Hn | reflexivity].
  - destruct (negb (wl_exists w)); [injection H as <-; reflexivity|]. destruct (negb (wl_consistent w)); [discriminate|].
    injection H as <-. cbn. rewrite Hn. cbn. first [exact Hn | reflexivity].
Qed.

(* C03, first half.  One reconcile, ANY persisted state / network state / in-memory grace state: if it writes to the
   gateway at all, the Rollout is rolling (Progressing / InRolling), the current step is in its traffic-routing state --
   which C02 shows is entered only after the BatchRelease for this step reported its pods Ready --, the stable Service is
   already pinned to the stable revision, the canary Service exists, the grace period since the last change has elapsed,
   and that route write is the only network write of the reconcile *)
Theorem route_written_only_after_ready t st w br n g r :
  reconcile_tr t st w br n g = TrOut r -> ~ no_route_writes (t_writes r) ->
  rp_phase st = RpProgressing /\ (exists s e, rp_prog st = Some (PrInRolling, s, e)) /\
  exists u0 x, rp_sub st = Some u0 /\ su_state u0 = StTraffic /\ su_elapsed u0 = true /\
               n_stable_sel n = Some (su_stable u0) /\ (exists c, n_canary_svc n = Some c) /\ t_writes r = [WRoute x].
Proof.
  unfold reconcile_tr.
  assert (Hplain : forall rr, match rr with RPanic => TrPanic | ROut o => TrOut {| t_out := o; t_writes := []; t_graces := g |} end = TrOut r ->
                  ~ no_route_writes (t_writes r) -> False).
  { intros rr H Hn. destruct rr; [discriminate|]. injection H as <-. apply Hn. reflexivity. }
  destruct (calc_status (ts_sp t) st w) as [|s] eqn:Ec; [intros H Hn; destruct (Hplain _ H Hn)|].
  destruct (rp_phase st) eqn:Eph; try (intros H Hn; destruct (Hplain _ H Hn)).
  - (* Progressing *)
    destruct (progressing_tr t st s w br n g) as [|o] eqn:Ep; [discriminate|].
    intros H Hn. assert (Hw : t_writes r = tp_writes o) by (destruct (tp_err o); injection H as <-; reflexivity).
    rewrite Hw in Hn. destruct (progressing_route_write _ _ _ _ _ _ _ _ Ep Hn) as ((sx & ex & Hpr) & u & Hu & (H1 & H2 & H3 & H4) & x & Hx).
    split; [reflexivity|]. split; [eauto|].
    (* relate the recomputed sub-status to the persisted one *)
    destruct (rp_sub st) as [u0|] eqn:Eu0.
    + destruct (rs_deleting (ts_sp t)) eqn:Edel.
      * unfold calc_status in Ec. rewrite Edel, Eph in Ec. cbn in Ec. injection Ec as <-. rewrite Eu0 in Hu. injection Hu as <-.
        exists u0, x. repeat split; auto. congruence.
      * destruct (calc_status_sub _ _ _ _ _ Ec Eu0 Edel Eph) as [Hnone|[Hsome _]]; [congruence|].
        rewrite Hsome in Hu. injection Hu as <-.
        pose proof (observed_sub_keeps w u0) as Hk. cbn zeta in Hk. destruct Hk as (_ & Hst & _ & Hel & _).
        assert (Hstab : su_stable (observed_sub w u0) = su_stable u0) by (unfold observed_sub; destruct (_ && _); reflexivity).
        exists u0, x. repeat split; first [congruence | exact H3].
    + exfalso. rewrite (calc_status_none_sub _ _ _ _ Ec Eph Eu0) in Hu. discriminate.
  - (* Terminating *)
    destruct (rp_term st) as [[|]|]; try (intros H Hn; destruct (Hplain _ H Hn)).
    destruct (wl_exists w && negb (wl_consistent w)); [intros H Hn; injection H as <-; exfalso; apply Hn; reflexivity|].
    pose proof (do_finalising_tr_no_route t s w br FrDelete false n g) as Hf.
    destruct (do_finalising_tr t s w br FrDelete false n g) as [[[[[[d s1] br'] an] ws] g'] err].
    destruct err; intros H Hn; injection H as <-; exfalso; apply Hn; exact Hf.
  - (* Disabling *)
    destruct (wl_exists w && negb (wl_consistent w)); [intros H Hn; injection H as <-; exfalso; apply Hn; reflexivity|].
    pose proof (do_finalising_tr_no_route t s w br FrDisabled false n g) as Hf.
    destruct (do_finalising_tr t s w br FrDisabled false n g) as [[[[[[d s1] br'] an] ws] g'] err].
    destruct err; intros H Hn; injection H as <-; exfalso; apply Hn; exact Hf.
Qed.

(* ---- C03, second half: a step reported as routed carries exactly its strategy ---- *)
Lemma do_jump_state sp u u' : do_jump sp u = Some (Some u') -> su_state u' = StTraffic \/ su_state u' = StInit.
Proof. unfold do_jump. destruct (get_step sp (su_idx u)); [|discriminate]. destruct (_ && _); [|discriminate].
  destruct (get_step sp (su_next u)); [|discriminate]. intros H; injection H as <-. cbn. destruct (_ && _); auto. Qed.

(* a jump reaches the traffic-routing state only when the target step calls for the same replicas as the current one *)
Ltac split_and := repeat match goal with |- _ /\ _ => split end.
Lemma jump_routes_only_between_equal_replicas sp u u' cur nx : do_jump sp u = Some (Some u') ->
  get_step sp (su_idx u) = Some cur -> get_step sp (su_next u) = Some nx ->
  su_idx u' = su_next u /\
  (su_state u' = StTraffic -> ios_eqb (sp_replicas nx) (sp_replicas cur) = true /\ su_state u <> StInit /\ su_state u <> StUpgrade) /\
  (su_state u' = StTraffic \/ su_state u' = StInit).
Proof. unfold do_jump. intros H Hc Hn. rewrite Hc in H. destruct (_ && _); [|discriminate]. rewrite Hn in H. injection H as <-. cbn.
  destruct (ios_eqb (sp_replicas nx) (sp_replicas cur)); cbn [andb]; [|split_and; auto; discriminate].
  destruct (su_state u); cbn; split_and; auto; intros Hx; try discriminate Hx; split_and; try reflexivity; discriminate. Qed.

Lemma sync_fill_pth u0 br0 w : su_pth u0 <> ""%string -> su_pth (fill_pth (fst (sync_br u0 br0)) w) = su_pth u0.
Proof. intros H. unfold sync_br, fill_pth. destruct br0 as [b|]; cbn; destruct (sempty (su_pth u0)) eqn:E; try reflexivity;
  destruct (su_pth u0); cbn in E; congruence. Qed.

Lemma run_canary_routed t u0 w br0 n g o :
  run_canary_tr t u0 w br0 n g = CrOut o -> su_state u0 = StTraffic -> co_err o = false -> su_state (co_sub o) = StMetrics ->
  ts_refs t = true -> strategy_empty (tr_strategy t (su_idx u0)) = false ->
  co_writes o = [] /\ n_stable_sel n = Some (su_stable u0) /\ n_canary_svc n = Some (su_pth (co_sub o)) /\
  (n_route n = RSet (tr_strategy t (su_idx u0)) \/ (n_route n = RNone /\ tr_strategy t (su_idx u0) = init_strategy)).
Proof.
  unfold run_canary_tr, cr. destruct (sync_br u0 br0) as [u1 br] eqn:Es.
  pose proof (sync_fill_keeps u0 br0 w) as Hk. pose proof (sync_fill_keeps_stable u0 br0 w) as Hks. rewrite Es in Hk, Hks. cbn [fst] in Hk, Hks. cbn zeta in Hk, Hks.
  destruct Hk as (Hi & Hst & _ & Hel & _). set (u := fill_pth u1 w) in *.
  destruct (do_jump (ts_sp t) u) as [[u'|]|] eqn:Ej; [|  |discriminate].
  { intros H _ _ Hm. injection H as <-. cbn in Hm. destruct (do_jump_state _ _ _ Ej); congruence. }
  destruct (get_step (ts_sp t) (su_idx u)) as [cur|]; [|discriminate].
  intros H Hs He Hm Hr Hne. rewrite <- Hi in Hne. rewrite Hne in H.
  revert H. unfold canary_step_tr, cr. rewrite Hst, Hs.
  set (x := do_traffic_routing (mk_ctx t u) n g).
  destruct (tr_err x) eqn:Ex; intros H; injection H as <-; cbn in He; [discriminate|].
  cbn [co_sub co_writes] in *. destruct (tr_ok x) eqn:Eok.
  - destruct (do_traffic_done (mk_ctx t u) n g Hr eq_refl Hne Eok) as (Hw & Hc & Hss & Hroute). fold x in Hw.
    cbn [mk_ctx tc_canary_rev tc_stable_rev tc_strategy] in Hc, Hss, Hroute. rewrite Hw.
    destruct (touch_keeps u x) as (_ & _ & _ & Hp).
    split; [reflexivity|]. split; [congruence|]. split; [cbn; rewrite Hp; exact Hc|]. rewrite <- Hi. exact Hroute.
  - exfalso. destruct (touch_keeps u x) as (_ & Hts & _). congruence.
Qed.

(* C03, third part: the reconcile that creates or re-targets the BatchRelease for the first step of a plan whose first step
   configures traffic leaves the stable Service pinned to the stable revision (unless that step replaces every pod, where
   the ingress-nginx bypass un-pins it on purpose) *)
Lemma canary_step_first_pinned t u w br cur n g o :
  canary_step_tr t u w br cur n g [] = CrOut o -> su_state u = StInit -> su_idx u = 1 -> co_err o = false ->
  ts_refs t = true -> n_stable_exists n = true -> su_stable u <> ""%string ->
  strategy_empty (tr_strategy t 1) = false -> full_step w cur = false ->
  co_br o <> br -> n_stable_sel (apply_writes n (co_writes o)) = Some (su_stable u).
Proof.
  unfold canary_step_tr, cr. intros H Hs Hi. rewrite Hs, Hi in H. intros He Hr Hex Hne Hse Hf Hbr. rewrite Hse, Hf in H.
  cbn [tdone tr_err tr_ok tr_writes tr_graces negb app apply_writes fold_left] in H. change (1 =? 1) with true in H. cbn iota in H.
  set (b := patch_stable_service (mk_ctx t u) n g) in H.
  destruct (tr_err b) eqn:Eb; [injection H as <-; discriminate|].
  destruct (tr_ok b) eqn:Eok; cbn [negb] in H.
  2:{ injection H as <-. exfalso. apply Hbr. reflexivity. }
  (* patch_stable_service ok: the selector is already right, or zero grace and it was just written *)
  assert (Hpin : n_stable_sel (apply_writes n (tr_writes b)) = Some (su_stable u)).
  { subst b. revert Eok. unfold patch_stable_service. cbn [mk_ctx tc_refs tc_stable_rev tc_zero_grace tc_only_traffic]. rewrite Hr, Hex. cbn [negb].
    set (m := negb (opt_eqb String.eqb _ _)).
    destruct (with_grace (ts_zero_grace t) GPatchService m false g) as [rt g'] eqn:Ew. cbn [tr_ok tr_writes].
    unfold with_grace in Ew. destruct m eqn:Em.
    - destruct (ts_zero_grace t); injection Ew as <- <-; cbn [negb]; [|discriminate]. intros _.
      cbn [apply_writes fold_left apply_write n_stable_sel]. destruct (sempty (su_stable u)) eqn:E; [destruct (su_stable u); cbn in E; congruence|reflexivity].
    - intros _. cbn [apply_writes fold_left]. subst m. apply Bool.negb_false_iff in Em.
      destruct (n_stable_sel n) as [r|]; cbn in Em; [apply String.eqb_eq in Em; congruence|].
      exfalso. apply Hne. destruct (su_stable u); [reflexivity|discriminate]. }
  destruct (canary_upgrade_shape (ts_sp t) (set_state u StUpgrade false) w br cur) as (u' & br' & rq & E).
  rewrite E in H. cbn [of_canary_out cr] in H. unfold cr in H. injection H as <-. exact Hpin.
Qed.

(* ---- C05 (per reconcile): a finalising task is passed only when its effect is in place ---- *)
Definition unpinned (n : net) : Prop := match n_stable_sel n with Some r => r = ""%string | None => True end.
Definition task_effect (f : ftask) (n : net) : Prop :=
  match f with
  | FtRestoreStable => n_stable_exists n = true -> unpinned n
  | FtRouteStable => n_route n = RNone
  | FtRemoveCanarySvc => n_canary_svc n = None
  | _ => True
  end.

Lemma apply_writes_exists ws : forall n, n_stable_exists (apply_writes n ws) = n_stable_exists n.
Proof. unfold apply_writes. induction ws as [|x ws IH]; intros n; [reflexivity|]. cbn [fold_left]. rewrite IH. destruct x; reflexivity. Qed.

Lemma restore_stable_ok_effect c n g : tc_refs c = true -> tc_key c = true -> tr_ok (restore_stable_service c n g) = true ->
  n_stable_exists n = true -> unpinned (apply_writes n (tr_writes (restore_stable_service c n g))).
Proof.
  intros Hr Hk. unfold restore_stable_service, unpinned. rewrite Hr, Hk. cbn [negb andb]. intros Hok Hex. revert Hok. rewrite Hex. cbn [negb].
  destruct (n_stable_sel n) as [r|] eqn:Es.
  - destruct (negb (sempty r)) eqn:Ee; destruct (with_grace _ _ _ _ _) as [rt g']; cbn; intros _; [exact I|].
    rewrite Es. apply Bool.negb_false_iff in Ee. destruct r; [reflexivity|discriminate].
  - destruct (with_grace _ _ _ _ _) as [rt g']. cbn. intros _. rewrite Es. exact I.
Qed.

Lemma restore_gateway_ok_effect c n g : tc_refs c = true -> tr_ok (restore_gateway c n g) = true ->
  n_route (apply_writes n (tr_writes (restore_gateway c n g))) = RNone.
Proof.
  intros Hr. unfold restore_gateway, finalise_routes. rewrite Hr. cbn [negb]. destruct (tc_gateway_fails c); [discriminate|].
  destruct (n_route n) eqn:Er; destruct (with_grace _ _ _ _ _) as [rt g']; cbn; intros _; [exact Er|reflexivity].
Qed.

Lemma remove_canary_ok_effect c n g : tc_refs c = true -> tc_only_traffic c = false -> tr_ok (remove_canary_service c n g) = true ->
  n_canary_svc (apply_writes n (tr_writes (remove_canary_service c n g))) = None.
Proof.
  intros Hr Honly. unfold remove_canary_service. rewrite Hr, Honly. cbn [negb].
  destruct (n_canary_svc n) eqn:Ec; destruct (with_grace _ _ _ _ _) as [rt g']; cbn; intros _; [reflexivity|exact Ec].
Qed.

(* doCanaryFinalising: when the finalising cursor moves off a traffic task, that task's effect holds on the network *)
Theorem finalise_tr_task_effect t u w br r wr n g done o :
  finalise_tr t u w br r wr n g = (done, o) -> ts_refs t = true -> wl_exists w = true -> co_err o = false ->
  su_fin u <> FtNone -> su_fin (co_sub o) <> su_fin u ->
  task_effect (su_fin u) (apply_writes n (co_writes o)).
Proof.
  unfold finalise_tr. destruct (ftask_eqb (su_fin u) FtEnd) eqn:Eend.
  { intros H; injection H as <- <-. cbn. congruence. }
  intros H Hr Hw He Hnn Hmv. destruct (su_fin u) eqn:Ef; try congruence; cbn [task_effect]; try exact I;
  cbn iota in H; rewrite Ef in H.
  - (* RestoreStable *)
    set (x := restore_stable_service (mk_ctx_w t u w) n g) in H.
    destruct (tr_err x) eqn:Ex; [injection H as <- <-; discriminate|].
    destruct (tr_ok x) eqn:Eok; cbn [negb] in H; injection H as <- <-; cbn [co_sub co_writes] in *; [|congruence].
    intros Hex. rewrite apply_writes_exists in Hex. apply restore_stable_ok_effect; auto.
  - set (x := restore_gateway (mk_ctx t u) n g) in H.
    destruct (tr_err x) eqn:Ex; [injection H as <- <-; discriminate|].
    destruct (tr_ok x) eqn:Eok; cbn [negb] in H; injection H as <- <-; cbn [co_sub co_writes] in *; [|congruence].
    apply restore_gateway_ok_effect; auto.
  - set (x := remove_canary_service (mk_ctx t u) n g) in H.
    destruct (tr_err x) eqn:Ex; [injection H as <- <-; discriminate|].
    destruct (tr_ok x) eqn:Eok; cbn [negb] in H; injection H as <- <-; cbn [co_sub co_writes] in *; [|congruence].
    apply remove_canary_ok_effect; auto.
Qed.

(* F30 (known finding): when the workload is gone the task IS passed with the stable Service still pinned *)
Definition f30_sub : sub := {| su_obs_wl_gen := 1; su_obs_rid := "v2"; su_hash := "h"; su_stable := "v1"; su_pth := "v2"; su_idx := 1; su_next := -1;
  su_state := StUpgrade; su_fin := FtRestoreStable; su_elapsed := true; su_canary_rev := "v2"; su_creplicas := 0; su_cready := 0 |}.
Definition f30_wl : wl := {| wl_exists := false; wl_consistent := true; wl_stable := ""; wl_canary := ""; wl_pth := ""; wl_replicas := 0; wl_gen := 0;
  wl_in_progress := false; wl_in_rollback := false; wl_rid_label := ""; wl_typed := false |}.
Definition f30_spec : tr_spec := {| ts_sp := {| rs_steps := [{| sp_replicas := IPct 50; sp_pause := None |}]; rs_paused := false; rs_disabled := true; rs_deleting := false;
  rs_finalizer := true; rs_generation := 1; rs_hash := "h"; rs_rollback_in_batch := false; rs_ft := None |};
  ts_strategies := [weight_only 20]; ts_refs := true; ts_zero_grace := false; ts_gateway_fails := false |}.
Definition f30_net : net := {| n_stable_exists := true; n_stable_sel := Some "v1"; n_canary_svc := None; n_route := RNone |}.
Example task_passed_without_workload_refuted :
  let '(_, o) := finalise_tr f30_spec f30_sub f30_wl None FrDisabled false f30_net [] in
  su_fin (co_sub o) = FtRouteStable /\ n_stable_sel (apply_writes f30_net (co_writes o)) = Some "v1".
Proof. vm_compute. split; reflexivity. Qed.

(* ---- C04, rolling part ---- *)
(* a step that replaces every stable pod (partition style) re-targets the BatchRelease only behind an un-pinned stable
   Service (the first step is the exception the code makes on purpose: it pins again, see DESIGN.md) *)
Lemma canary_step_full_unpinned t u w br cur n g o :
  canary_step_tr t u w br cur n g [] = CrOut o -> su_state u = StInit -> co_err o = false ->
  ts_refs t = true -> n_stable_exists n = true -> strategy_empty (tr_strategy t (su_idx u)) = false ->
  full_step w cur = true -> su_idx u <> 1 -> co_br o <> br -> unpinned (apply_writes n (co_writes o)).
Proof.
  unfold canary_step_tr, cr. intros H Hs He Hr Hex Hne Hf Hi Hbr. rewrite Hs, Hne, Hf in H.
  assert (E1 : (su_idx u =? 1) = false) by (apply Z.eqb_neq; exact Hi). rewrite E1 in H.
  set (a := restore_stable_service (mk_ctx t u) n g) in H.
  destruct (tr_err a) eqn:Ea; [injection H as <-; discriminate|].
  destruct (tr_ok a) eqn:Eok; cbn [negb] in H.
  2:{ injection H as <-. exfalso. apply Hbr. reflexivity. }
  cbn [tdone tr_err tr_ok tr_writes tr_graces negb] in H. rewrite app_nil_r in H. cbn [app] in H.
  destruct (canary_upgrade_shape (ts_sp t) (set_state u StUpgrade false) w br cur) as (u' & br' & rq & E).
  rewrite E in H. unfold of_canary_out, cr in H. injection H as <-. cbn [co_writes].
  apply restore_stable_ok_effect; auto.
Qed.


(* ---- C06: the wait after a Service change survives a restart because it is measured on the persisted status ---- *)
Definition is_service_write_w (w : write) : bool := match w with WCreateCanarySvc _ | WPatchCanarySvc _ | WPinStable _ | WUnpinStable => true | _ => false end.

Lemma do_traffic_service_write_touches c n g : existsb is_service_write_w (tr_writes (do_traffic_routing c n g)) = true -> tr_touched (do_traffic_routing c n g) = true.
Proof.
  unfold do_traffic_routing.
  destruct (negb (tc_refs c)); [discriminate|]. destruct (strategy_empty (tc_strategy c)); [discriminate|].
  destruct (negb (n_stable_exists n)); [discriminate|]. destruct (match tc_last_update c with Some false => true | _ => false end); [discriminate|].
  destruct (negb (tc_only_traffic c) && (sempty (tc_stable_rev c) || sempty (tc_canary_rev c))); [discriminate|].
  destruct (_ ++ _) eqn:E; [|reflexivity].
  destruct (tc_gateway_fails c); [discriminate|]. unfold ensure_routes. destruct (n_route n); [destruct (strategy_eqb _ _)|destruct (strategy_eqb _ _)]; cbn; discriminate.
Qed.

Lemma traffic_service_change_is_persisted t u w br cur n g o :
  canary_step_tr t u w br cur n g [] = CrOut o -> su_state u = StTraffic -> co_err o = false ->
  existsb is_service_write_w (co_writes o) = true -> su_elapsed (co_sub o) = false.
Proof.
  unfold canary_step_tr, cr. intros H Hs. rewrite Hs in H. revert H.
  set (r := do_traffic_routing (mk_ctx t u) n g).
  destruct (tr_err r) eqn:Er; intros H; injection H as <-; cbn [co_err co_writes co_sub app]; [discriminate|].
  intros _ Hw. pose proof (do_traffic_service_write_touches _ _ _ Hw) as Ht. fold r in Ht.
  unfold touch. rewrite Ht. destruct (tr_ok r); reflexivity.
Qed.
