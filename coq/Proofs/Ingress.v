(* Proofs about Model/Ingress.v (C14). *)
From RV Require Import Base.Util Model.Ingress.

(* ---------- association lists ---------- *)
Lemma aget_adel k k' m : aget k (adel k' m) = if String.eqb k k' then None else aget k m.
Proof. induction m as [|[k0 v0] m IH]; cbn; [destruct (String.eqb k k'); reflexivity|].
  destruct (String.eqb k' k0) eqn:E1.
  - rewrite IH. apply String.eqb_eq in E1. subst k0. destruct (String.eqb k k'); reflexivity.
  - cbn. rewrite IH. destruct (String.eqb k k0) eqn:E2; [|reflexivity].
    apply String.eqb_eq in E2. subst k0. rewrite String.eqb_sym, E1. reflexivity. Qed.
Lemma aget_aset k k' v m : aget k (aset k' v m) = if String.eqb k k' then Some v else aget k m.
Proof. unfold aset. cbn. destruct (String.eqb k k') eqn:E; [reflexivity|]. rewrite aget_adel, E. reflexivity. Qed.
Lemma aget_clear k ks : forall m, aget k (clear ks m) = if existsb (String.eqb k) ks then None else aget k m.
Proof. induction ks as [|k0 ks IH]; intros m; cbn; [reflexivity|]. unfold clear in *. cbn. rewrite IH, aget_adel.
  destruct (String.eqb k k0); cbn; [destruct (existsb _ ks); reflexivity|reflexivity]. Qed.

Definition last_set (k : string) (l : list (string * string)) : option string :=
  fold_left (fun acc kv => if String.eqb k (fst kv) then Some (snd kv) else acc) l None.
Lemma fold_last_acc k l : forall acc, fold_left (fun acc kv => if String.eqb k (fst kv) then Some (snd kv) else acc) l acc =
  match last_set k l with Some v => Some v | None => acc end.
Proof. unfold last_set. induction l as [|[k0 v0] l IH]; intros acc; cbn; [reflexivity|].
  rewrite IH. rewrite (IH (if String.eqb k k0 then Some v0 else None)).
  destruct (fold_left _ l None); [reflexivity|]. destruct (String.eqb k k0); reflexivity. Qed.
Lemma last_set_cons k k0 v0 l : last_set k ((k0, v0) :: l) =
  match last_set k l with Some v => Some v | None => if String.eqb k k0 then Some v0 else None end.
Proof. unfold last_set at 1. cbn [fold_left fst snd]. rewrite fold_last_acc. reflexivity. Qed.
Lemma aget_apply k l : forall m, aget k (apply_sets l m) = match last_set k l with Some v => Some v | None => aget k m end.
Proof. induction l as [|[k0 v0] l IH]; intros m; [reflexivity|].
  unfold apply_sets in *. cbn [fold_left fst snd]. rewrite IH, aget_aset, last_set_cons.
  destruct (last_set k l); [reflexivity|]. destruct (String.eqb k k0); reflexivity. Qed.
Lemma last_set_in k l : last_set k l <> None -> In k (map fst l).
Proof. induction l as [|[k0 v0] l IH]; [cbn; congruence|]. rewrite last_set_cons. cbn [map fst In].
  destruct (last_set k l) eqn:E; [intros _; right; apply IH; discriminate|].
  destruct (String.eqb k k0) eqn:E2; [intros _; left; apply String.eqb_eq in E2; auto|congruence]. Qed.
Lemma in_last_set k l : In k (map fst l) -> last_set k l <> None.
Proof. induction l as [|[k0 v0] l IH]; [cbn; tauto|]. rewrite last_set_cons. cbn [map fst In].
  intros [H|H].
  - subst k0. destruct (last_set k l); [discriminate|]. rewrite String.eqb_refl. discriminate.
  - specialize (IH H). destruct (last_set k l); [discriminate|congruence]. Qed.

(* ---------- the generic clear-then-set theorem ---------- *)
Section Generic.
  Variable K : list string.
  Variable setsf : istrategy -> bool -> option (list (string * string)).
  Variable feature : amap -> bool.
  Definition gscript (a : amap) (s : istrategy) : option amap :=
    match setsf s (feature a) with Some l => Some (apply_sets l (clear K a)) | None => None end.
  Hypothesis feature_stable : forall a s a', gscript a s = Some a' -> feature a' = feature a.
  (* every key some step sets is either cleared by the script or set by every step *)
  Hypothesis sets_covered : forall s1 s2 b l1 l2, setsf s1 b = Some l1 -> setsf s2 b = Some l2 ->
    forall k, In k (map fst l1) -> In k K \/ In k (map fst l2).

  Lemma in_existsb k ks : In k ks -> existsb (String.eqb k) ks = true.
  Proof. intros H. apply existsb_exists. exists k. split; [exact H|apply String.eqb_refl]. Qed.

  Theorem history_independent_generic a s1 s2 a1 a2 :
    gscript a s1 = Some a1 -> gscript a1 s2 = Some a2 ->
    exists a2', gscript a s2 = Some a2' /\ forall k, aget k a2 = aget k a2'.
  Proof.
    intros H1 H2. pose proof (feature_stable _ _ _ H1) as Hf. unfold gscript in *.
    destruct (setsf s1 (feature a)) as [l1|] eqn:E1; [|discriminate]. inversion H1; subst a1; clear H1.
    rewrite Hf in H2. destruct (setsf s2 (feature a)) as [l2|] eqn:E2; [|discriminate]. inversion H2; subst a2; clear H2.
    eexists. split; [reflexivity|]. intros k. rewrite !aget_apply, !aget_clear, aget_apply, aget_clear.
    destruct (last_set k l2) eqn:L2; [reflexivity|].
    destruct (existsb (String.eqb k) K) eqn:EK; [reflexivity|].
    destruct (last_set k l1) eqn:L1; [|reflexivity].
    exfalso. assert (Hin : In k (map fst l1)) by (apply last_set_in; rewrite L1; discriminate).
    destruct (sets_covered s1 s2 _ l1 l2 E1 E2 k Hin) as [HK|H2'].
    - rewrite (in_existsb _ _ HK) in EK. discriminate.
    - apply in_last_set in H2'. congruence.
  Qed.
End Generic.

(* ---------- instantiation for the four built-in scripts ---------- *)
Lemma header_sets_keys p h k : In k (map fst (header_sets p h)) ->
  In k [p "canary-by-cookie"; p "canary-by-header"; p "canary-by-header-pattern"; p "canary-by-header-value"].
Proof. unfold header_sets. destruct (String.eqb (h_name h) "canary-by-cookie"); cbn; [tauto|].
  destruct (String.eqb (h_type h) "RegularExpression"); cbn; tauto. Qed.
Lemma query_sets_keys q k : In k (map fst (query_sets q)) ->
  In k [nginx_p "canary-by-query"; nginx_p "canary-by-query-pattern"; nginx_p "canary-by-query-value"].
Proof. unfold query_sets. destruct (String.eqb (h_type q) "RegularExpression"); cbn; tauto. Qed.

Lemma match_sets_keys c m l k : match_sets c m = Some l -> In k (map fst l) -> In k (cleared c).
Proof.
  unfold match_sets. destruct c.
  - intros H; inversion H; subst; clear H. destruct (im_headers m); cbn [map In]; [tauto|]. intros Hk. apply header_sets_keys in Hk. cbn in *. tauto.
  - destruct (im_headers m); [discriminate|]. intros H; inversion H; subst; clear H. intros Hk. apply header_sets_keys in Hk. cbn in *. tauto.
  - destruct (im_headers m); [discriminate|]. intros H; inversion H; subst; clear H. intros Hk. apply header_sets_keys in Hk. cbn in *. tauto.
  - intros H; inversion H; subst; clear H. rewrite map_app. intros Hk. apply in_app_or in Hk. destruct Hk as [Hk|Hk].
    + destruct (im_headers m); [destruct Hk|]. apply header_sets_keys in Hk. cbn in *. tauto.
    + destruct (im_query m); [destruct Hk|]. apply query_sets_keys in Hk. cbn in *. tauto.
Qed.
Lemma all_match_sets_keys c ms : forall l k, all_match_sets c ms = Some l -> In k (map fst l) -> In k (cleared c).
Proof. induction ms as [|m ms IH]; intros l k H Hk; cbn in H; [inversion H; subst; destruct Hk|].
  destruct (match_sets c m) as [a|] eqn:Ea; [|discriminate]. destruct (all_match_sets c ms) as [b|] eqn:Eb; [|discriminate].
  inversion H; subst. rewrite map_app in Hk. apply in_app_or in Hk. destruct Hk; [eapply match_sets_keys; eauto|eapply IH; eauto]. Qed.

(* the keys every run of the class's script sets *)
Definition always (c : iclass) (b : bool) : list string :=
  prefix_of c "canary" :: (match c with Alb => [alb_p "order"] | Mse => if b then [mse_p "service-subset"] else [] | _ => [] end).

Lemma sets_keys c s b l k : sets c s b = Some l -> In k (map fst l) -> In k (cleared c) \/ In k (always c b).
Proof.
  unfold sets. intros H Hk. cbv zeta in H.
  destruct (match c with Mse => _ | _ => Some [] end) as [e|] eqn:Ee; [|discriminate].
  destruct (all_match_sets c (is_matches s)) as [m|] eqn:Em; [|discriminate]. inversion H; subst; clear H.
  cbn [map fst] in Hk. destruct Hk as [<-|Hk]; [right; left; reflexivity|].
  rewrite !map_app in Hk. apply in_app_or in Hk. destruct Hk as [Hk|Hk].
  { right. unfold always. destruct c; cbn in *; tauto. }
  apply in_app_or in Hk. destruct Hk as [Hk|Hk].
  { left. destruct (String.eqb (weight_str s) "-1"); [destruct Hk|]. cbn in Hk. destruct Hk as [<-|[]]. destruct c; cbn; tauto. }
  apply in_app_or in Hk. destruct Hk as [Hk|Hk]; [|left; eapply all_match_sets_keys; eauto].
  destruct c; try (inversion Ee; subst; destruct Hk).
  destruct (is_modifier s) as [[|x r]|]; try discriminate; inversion Ee; subst; clear Ee.
  - rewrite map_app in Hk. apply in_app_or in Hk. destruct Hk as [Hk|Hk].
    + right. unfold always. destruct b; cbn in *; tauto.
    + left. cbn in Hk. destruct Hk as [<-|[]]. cbn. tauto.
  - right. unfold always. destruct b; cbn in *; tauto.
Qed.
Lemma sets_always c s b l k : sets c s b = Some l -> In k (always c b) -> In k (map fst l).
Proof.
  unfold sets. intros H Hk. cbv zeta in H.
  destruct (match c with Mse => _ | _ => Some [] end) as [e|] eqn:Ee; [|discriminate].
  destruct (all_match_sets c (is_matches s)) as [m|] eqn:Em; [|discriminate]. inversion H; subst; clear H.
  cbn [map fst]. unfold always in Hk. destruct Hk as [<-|Hk]; [left; reflexivity|]. right.
  rewrite !map_app.
  destruct c.
  - destruct Hk.
  - destruct Hk as [<-|[]]. apply in_or_app. left. cbn. tauto.
  - destruct Hk.
  - destruct b; [|destruct Hk]. destruct Hk as [<-|[]]. apply in_or_app. right. apply in_or_app. right. apply in_or_app. left.
    destruct (is_modifier s) as [[|x r]|]; try discriminate; inversion Ee; subst; cbn; tauto.
Qed.

Lemma script_is_gscript c a s : script c a s = gscript (cleared c) (sets c) has_subset a s.
Proof. reflexivity. Qed.

Lemma has_subset_stable c a s a' : script c a s = Some a' -> has_subset a' = has_subset a.
Proof.
  unfold script. destruct (sets c s (has_subset a)) as [l|] eqn:E; [|discriminate].
  intros H. assert (Ha' : a' = apply_sets l (clear (cleared c) a)) by congruence. rewrite Ha'. clear H Ha'.
  unfold has_subset at 1. rewrite aget_apply, aget_clear.
  replace (existsb (String.eqb (mse_p "service-subset")) (cleared c)) with false by (destruct c; reflexivity).
  destruct (last_set (mse_p "service-subset") l) eqn:L; [|reflexivity].
  assert (Hin : In (mse_p "service-subset") (map fst l)) by (apply last_set_in; rewrite L; discriminate).
  destruct (sets_keys _ _ _ _ _ E Hin) as [HK|HA].
  - exfalso. destruct c; cbn in HK; repeat (destruct HK as [HK|HK]; [discriminate HK|]); destruct HK.
  - unfold always in HA. destruct c; cbn in HA.
    + destruct HA as [HA|[]]. discriminate HA.
    + destruct HA as [HA|[HA|[]]]; discriminate HA.
    + destruct HA as [HA|[]]. discriminate HA.
    + destruct (has_subset a); [reflexivity|]. cbn in HA. destruct HA as [HA|[]]. discriminate HA.
Qed.

(* C14: the canary annotations are a function of the stable Ingress and the current step alone: entering
   step s2 after any step s1 gives the same annotations as entering it directly, for every class *)
Theorem history_independent c a s1 s2 a1 a2 : script c a s1 = Some a1 -> script c a1 s2 = Some a2 ->
  exists a2', script c a s2 = Some a2' /\ forall k, aget k a2 = aget k a2'.
Proof.
  intros H1 H2. rewrite script_is_gscript in *.
  eapply (history_independent_generic (cleared c) (sets c) has_subset); eauto.
  - intros a0 s a' H. exact (has_subset_stable c a0 s a' H).
  - intros s1' s2' b l1 l2 E1 E2 k Hk. destruct (sets_keys _ _ _ _ _ E1 Hk) as [?|HA]; [left; assumption|right; eapply sets_always; eauto].
Qed.

(* C14: the canary Ingress has exactly the stable Ingress's paths that point at the stable Service, re-targeted *)
Definition svc_is (s : string) (p : ipath) : bool := opt_eqb String.eqb (ip_svc p) (Some s).
Definition retarget_path (canary : string) (p : ipath) : ipath :=
  {| ip_path := ip_path p; ip_type := ip_type p; ip_svc := Some canary; ip_port := ip_port p |}.
Lemma canary_paths_spec stable canary ps : canary_paths stable canary ps = map (retarget_path canary) (filter (svc_is stable) ps).
Proof. induction ps as [|p ps IH]; [reflexivity|]. cbn [canary_paths filter]. unfold svc_is at 1.
  destruct (ip_svc p) as [svc|]; cbn [opt_eqb]; [|exact IH]. destruct (String.eqb svc stable); cbn [map]; rewrite IH; reflexivity. Qed.
Definition all_paths (rs : list irule) : list (string * ipath) :=
  flat_map (fun r => match ir_http r with Some ps => map (fun p => (ir_host r, p)) ps | None => [] end) rs.
Theorem canary_paths_exact stable canary rs :
  all_paths (canary_rules stable canary rs) =
  map (fun hp => (fst hp, retarget_path canary (snd hp))) (filter (fun hp => svc_is stable (snd hp)) (all_paths rs)).
Proof.
  induction rs as [|r rs IH]; [reflexivity|]. cbn [canary_rules]. destruct (ir_http r) as [ps|] eqn:Eh.
  - unfold all_paths at 2. cbn [flat_map]. rewrite Eh. fold (all_paths rs). rewrite filter_app, map_app, <- IH.
    assert (Hps : map (fun hp => (fst hp, retarget_path canary (snd hp))) (filter (fun hp => svc_is stable (snd hp)) (map (fun p => (ir_host r, p)) ps))
                  = map (fun p => (ir_host r, p)) (canary_paths stable canary ps)).
    { rewrite canary_paths_spec. clear. induction ps as [|p ps IH]; [reflexivity|]. cbn. destruct (svc_is stable p); cbn; rewrite IH; reflexivity. }
    rewrite Hps. destruct (canary_paths stable canary ps) as [|p0 ps0]; [reflexivity|].
    unfold all_paths at 1. cbn [flat_map ir_http ir_host]. reflexivity.
  - unfold all_paths at 2. cbn [flat_map]. rewrite Eh. exact IH.
Qed.
