(* Proofs about Model/TRCtl.v (C18): the TrafficRouting controller's own finalizer. *)
From RV Require Import Base.Util Model.TrafficMgr Model.TRCtl Corr.TrafficMgr Corr.TRCtl Proofs.RolloutTR Proofs.Finalising.

Lemma finalising_only_ok_route c n g : tc_refs c = true -> tr_err (finalising_traffic_routing c n g) = false ->
  tr_ok (finalising_traffic_routing c n g) = true -> n_route (apply_writes n (tr_writes (finalising_traffic_routing c n g))) = RNone.
Proof.
  intros Hr. unfold finalising_traffic_routing. rewrite Hr. cbn [negb]. unfold seq_tres.
  set (a := restore_stable_service c n g).
  destruct (tr_err a || negb (tr_ok a)) eqn:Ea; cbn [tr_err tr_ok tr_writes].
  { intros He Hok. apply Bool.orb_true_iff in Ea. destruct Ea as [E|E]; [congruence|discriminate]. }
  set (b := restore_gateway c n (tr_graces a)).
  destruct (tr_err b || negb (tr_ok b)) eqn:Eb; cbn [tr_err tr_ok tr_writes].
  { intros He Hok. apply Bool.orb_true_iff in Eb. destruct Eb as [E|E]; [congruence|discriminate]. }
  intros _ _. apply Bool.orb_false_iff in Eb as [_ Eok]. apply Bool.negb_false_iff in Eok.
  pose proof (restore_gateway_ok_effect c n (tr_graces a) Hr Eok) as Hg. fold b in Hg.
  destruct (restore_stable_writes c n g) as [E1|E1]; fold a in E1; rewrite E1;
  destruct (restore_gateway_writes c n (tr_graces a)) as [E2|E2]; fold b in E2; rewrite E2 in Hg |- *;
  destruct (remove_canary_writes c n (tr_graces b)) as [E3|E3]; rewrite E3; cbn in Hg |- *; first [exact Hg | reflexivity].
Qed.

(* the own finalizer is given up only by a reconcile of a DELETING object whose cleanup ran to completion without error in
   that very reconcile: the gateway is restored when the finalizer goes *)
Theorem tr_finalizer_guard o n g : to_own_finalizer o = true -> ro_own_finalizer (tr_reconcile o n g) = false ->
  to_deleting o = true /\ ro_err (tr_reconcile o n g) = false /\ n_route (apply_writes n (ro_writes (tr_reconcile o n g))) = RNone.
Proof.
  intros Hown. unfold tr_reconcile. destruct (to_deleting o) eqn:Ed.
  - rewrite Hown. cbn iota.
    set (r := finalising_traffic_routing (tr_ctx o) n g).
    destruct (tr_err r) eqn:Ee; [cbn; discriminate|]. destruct (tr_ok r) eqn:Eo; [|cbn; discriminate].
    cbn [ro_own_finalizer ro_err ro_writes]. intros _. repeat split. apply finalising_only_ok_route; auto.
  - destruct (to_phase o); cbn iota;
    repeat match goal with |- context [if ?b then _ else _] => destruct b end; cbn; discriminate.
Qed.

Lemma g_lookup_remove_other a b g : gaction_eqb a b = false -> g_lookup b (g_remove a g) = g_lookup b g.
Proof.
  intros Hab. unfold g_lookup, g_remove. induction g as [|[x e] t IH]; [reflexivity|]. cbn [filter find fst].
  destruct (gaction_eqb x a) eqn:Exa; cbn [negb].
  - destruct (gaction_eqb x b) eqn:Exb; [|exact IH]. exfalso. destruct x, a, b; cbn in *; congruence.
  - cbn [find fst]. destruct (gaction_eqb x b); [reflexivity|exact IH].
Qed.
Lemma with_grace_unmodified z a g : (z = true \/ g_lookup a g <> Some false) -> with_grace z a false false g = (false, g_remove a g).
Proof. unfold with_grace. intros [-> | H]; [reflexivity|]. destruct z; [reflexivity|]. destruct (g_lookup a g) as [[|]|]; try reflexivity. congruence. Qed.

(* conversely deletion is not blocked: a deleting object whose gateway is already restored and whose grace waits are over
   loses the finalizer in the next reconcile *)
Theorem tr_deletion_not_blocked o n g : to_deleting o = true -> to_gateway_fails o = false -> n_route n = RNone ->
  (to_zero_grace o = true \/ (g_lookup GRestoreGateway g <> Some false /\ g_lookup GRestoreService g <> Some false)) ->
  ro_own_finalizer (tr_reconcile o n g) = false.
Proof.
  intros Hd Hf Hr Hg. unfold tr_reconcile. rewrite Hd. cbn iota.
  unfold finalising_traffic_routing, seq_tres, restore_stable_service, restore_gateway, remove_canary_service, tr_ctx.
  cbn [tc_refs tc_key tc_only_traffic tc_gateway_fails tc_zero_grace negb andb]. rewrite Hf, Hr. cbn [finalise_routes].
  assert (H1 : with_grace (to_zero_grace o) GRestoreService false false g = (false, g_remove GRestoreService g))
    by (apply with_grace_unmodified; tauto).
  assert (H2 : with_grace (to_zero_grace o) GRestoreGateway false false (g_remove GRestoreService g) = (false, g_remove GRestoreGateway (g_remove GRestoreService g))).
  { apply with_grace_unmodified. destruct Hg as [Hz|[Ha Hb]]; [auto|]. right. rewrite g_lookup_remove_other; [exact Ha|reflexivity]. }
  destruct (n_stable_exists n); cbn [negb].
  - rewrite H1. cbn [tr_err tr_ok tr_graces tr_writes negb orb]. rewrite H2. reflexivity.
  - cbn [tdone tr_err tr_ok tr_graces tr_writes negb orb].
    assert (H3 : with_grace (to_zero_grace o) GRestoreGateway false false g = (false, g_remove GRestoreGateway g))
      by (apply with_grace_unmodified; tauto).
    rewrite H3. reflexivity.
Qed.

(* and the way there never goes quiet: a reconcile of a deleting object that keeps the finalizer either failed (the work
   queue retries with back-off) or asked to be woken again; it never waits on a wake-up that will not come *)
Theorem tr_teardown_never_stalls o n g : to_deleting o = true ->
  let r := tr_reconcile o n g in ro_own_finalizer r = false \/ ro_err r = true \/ ro_requeue r = true.
Proof.
  intros Hd. unfold tr_reconcile. rewrite Hd. cbn iota.
  destruct (tr_err (finalising_traffic_routing (tr_ctx o) n g)); [right; left; reflexivity|].
  destruct (tr_ok (finalising_traffic_routing (tr_ctx o) n g)); [left; reflexivity|right; right; reflexivity].
Qed.

(* C07 for the TrafficRouting controller: the controller watches only its own objects, so a reconcile that leaves the object in
   the Finalizing phase -- clean-up not finished -- without an error must have asked for a requeue; otherwise nothing would
   ever reconcile it again (and a Rollout that references it waits in Initializing for ever) *)
Theorem tr_finalizing_never_goes_quiet o n g :
  to_deleting o = false -> ro_phase (tr_reconcile o n g) = TpFinalizing -> ro_err (tr_reconcile o n g) = false ->
  ro_requeue (tr_reconcile o n g) = true \/ to_phase o <> TpFinalizing.
Proof.
  intros Hd. destruct (to_phase o) eqn:Ep; try (intros; right; discriminate).
  unfold tr_reconcile. rewrite Hd, Ep. cbn iota.
  destruct (finalising_traffic_routing (tr_ctx o) n g) as [ok err ws gs t]. cbn [tr_err tr_ok tr_writes tr_graces].
  destruct err; [cbn; discriminate|]. destruct ok; cbn; [discriminate|]. intros _ _. left. reflexivity.
Qed.
