(* Proofs about Model/BGFinal.v (C11, Finalize of the blue-green Deployment control plane). *)
From RV Require Import Base.Util Base.IntStr Model.BGFinal.

(* the attempt that restores the strategy (the first one) reports done only when, on the Deployment as it leaves it, every
   pod is updated and ready *)
Theorem first_attempt_done_means_ready d r d' : bd_restored d = false ->
  finalize false d = (r, d') -> r = FinDone -> all_updated_and_ready d' = true.
Proof.
  unfold finalize. intros Hn H Hr. rewrite Hn in H. injection H as H1 <-. rewrite Hr in H1.
  destruct (all_updated_and_ready (restore d)); [reflexivity|discriminate].
Qed.

(* "on every attempt including retries" is FALSE of the code (known finding F6): a retry on an already restored Deployment
   reports done while pods are neither updated nor ready *)
Definition f6_dep : bgdep :=
  {| bd_n := 3; bd_restored := true; bd_paused := false; bd_max_surge := 1; bd_max_unavail := 0; bd_released := true;
     bd_status := {| ds_replicas := 4; ds_updated := 1; ds_ready := 0; ds_available := 0 |} |}.
Theorem every_attempt_done_means_ready_refuted :
  exists d d', finalize false d = (FinDone, d') /\ all_updated_and_ready d' = false.
Proof. exists f6_dep, f6_dep. split; vm_compute; reflexivity. Qed.

(* every attempt leaves the workload released from control and un-paused, or finds it so *)
Theorem finalize_releases d r d' : finalize false d = (r, d') -> bd_restored d' = true /\ (bd_restored d = false -> bd_released d' = true /\ bd_paused d' = false).
Proof.
  unfold finalize. intros H. destruct (bd_restored d) eqn:E; injection H as _ <-; cbn; [split; [exact E|discriminate]|auto].
Qed.

(* over every history of attempts: the attempts that start on a not yet restored Deployment and report done saw every pod
   updated and ready; after the first attempt that got as far as the patch, every later one reports done (F6) *)
Theorem history_after_restore_always_done : forall sts d, bd_restored d = true ->
  forall r d', In (r, d') (attempts false d sts) -> r = FinDone.
Proof.
  induction sts as [|s sts IH]; intros d Hr r d' Hin; [destruct Hin|].
  cbn [attempts] in Hin. unfold finalize in Hin at 1. cbn [with_status bd_restored] in Hin. rewrite Hr in Hin.
  destruct Hin as [E|Hin]; [congruence|]. cbn [snd] in Hin. unfold finalize in Hin. cbn [with_status bd_restored] in Hin. rewrite Hr in Hin. cbn [snd] in Hin.
  eapply IH; [|exact Hin]. exact Hr.
Qed.
