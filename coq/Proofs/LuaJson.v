(* Proofs about Model/LuaJson.v (C16): the value conversion around a script call. *)
From RV Require Import Base.Util Model.LuaJson Corr.LuaJson.

(* induction over json values with the nested lists *)
Section JsonInd.
  Variable P : json -> Prop.
  Hypothesis Hnull : P JNull.
  Hypothesis Hbool : forall b, P (JBool b).
  Hypothesis Hnum : forall z, P (JNum z).
  Hypothesis Hstr : forall s, P (JStr s).
  Hypothesis Harr : forall l, Forall P l -> P (JArr l).
  Hypothesis Hobj : forall m, Forall (fun kv => P (snd kv)) m -> P (JObj m).
  Fixpoint json_ind' (v : json) : P v :=
    match v with
    | JNull => Hnull | JBool b => Hbool b | JNum z => Hnum z | JStr s => Hstr s
    | JArr l => Harr l ((fix go (l : list json) : Forall P l := match l with [] => Forall_nil _ | x :: t => Forall_cons _ (json_ind' x) (go t) end) l)
    | JObj m => Hobj m ((fix go (m : list (string * json)) : Forall (fun kv => P (snd kv)) m :=
                           match m with [] => Forall_nil _ | kv :: t => Forall_cons _ (json_ind' (snd kv)) (go t) end) m)
    end.
End JsonInd.

(* the two traversals inside encode, as functions of the element encoder *)
Section Traversals.
  Variable enc : lval -> option json.
  Fixpoint enc_arr (l : list lval) (i : Z) : list (lkey * option json) :=
    match l with
    | [] => []
    | x :: t => match x with LNil => enc_arr t (i + 1) | _ => (KNum i, enc x) :: enc_arr t (i + 1) end
    end.
  Fixpoint enc_hash (l : list (lkey * lval)) : list (lkey * option json) :=
    match l with
    | [] => []
    | (k, x) :: t => match x with LNil => enc_hash t | _ => (k, enc x) :: enc_hash t end
    end.
End Traversals.
Lemma encode_table arr hash : encode (LTab arr hash) = finish (enc_arr encode arr 1 ++ enc_hash encode hash).
Proof. reflexivity. Qed.

Lemma decode_nil v : non_nil (decode v) = negb (is_null v).
Proof. destruct v; reflexivity. Qed.

(* norm's inner loops *)
Lemma norm_arr l : norm (JArr l) = match map norm (filter (fun x => negb (is_null x)) l) with [] => JNull | l' => JArr l' end.
Proof. cbn [norm].
  match goal with |- match ?f l with _ => _ end = _ => assert (H : f l = map norm (filter (fun x => negb (is_null x)) l)) end.
  { induction l as [|x t IH]; [reflexivity|]. cbn [filter]. destruct (is_null x); cbn [negb map]; [exact IH|]. f_equal. exact IH. }
  rewrite H. reflexivity. Qed.
Lemma norm_obj m : norm (JObj m) = match map (fun kv => (fst kv, norm (snd kv))) (filter (fun kv => negb (is_null (snd kv))) m) with [] => JNull | m' => JObj m' end.
Proof. cbn [norm].
  match goal with |- match ?f m with _ => _ end = _ =>
    assert (H : f m = map (fun kv => (fst kv, norm (snd kv))) (filter (fun kv => negb (is_null (snd kv))) m)) end.
  { induction m as [|[k x] t IH]; [reflexivity|]. cbn [filter snd]. destruct (is_null x); cbn [negb map fst snd]; [exact IH|]. f_equal. exact IH. }
  rewrite H. reflexivity. Qed.

(* array mode on a hole-free array whose elements all encode *)
Lemma enc_arr_nonnil enc l i : forallb non_nil l = true ->
  enc_arr enc l i = map (fun p => (KNum (fst p), enc (snd p))) (combine (zseq i (List.length l)) l).
Proof. revert i. induction l as [|x t IH]; intros i H; [reflexivity|]. cbn in H. apply andb_prop in H as [Hx Ht].
  cbn [enc_arr List.length zseq combine map fst snd]. destruct x; try discriminate; rewrite (IH (i + 1) Ht); reflexivity. Qed.

Lemma finish_array_go : forall (js : list json) (i : Z) (acc : list json),
  (fix go (expected : Z) (l : list (lkey * option json)) (acc : list json) : option json :=
     match l with
     | [] => Some (JArr (rev acc))
     | (KNum k, Some j) :: t => if k =? expected then go (expected + 1) t (j :: acc) else None
     | _ => None
     end) i (map (fun p => (KNum (fst p), Some (snd p))) (combine (zseq i (List.length js)) js)) acc = Some (JArr (rev acc ++ js)).
Proof. induction js as [|j t IH]; intros i acc; cbn [List.length zseq combine map fst snd]; [rewrite app_nil_r; reflexivity|].
  rewrite Z.eqb_refl. rewrite IH. cbn [rev]. rewrite <- app_assoc. reflexivity. Qed.

Lemma finish_array (js : list json) : js <> [] ->
  finish (map (fun p => (KNum (fst p), Some (snd p))) (combine (zseq 1 (List.length js)) js)) = Some (JArr js).
Proof. destruct js as [|j t]; [congruence|]. intros _. unfold finish. cbn [List.length zseq combine map fst snd].
  change ((KNum 1, Some j) :: map (fun p => (KNum (fst p), Some (snd p))) (combine (zseq (1 + 1) (List.length t)) t))
    with (map (fun p => (KNum (fst p), Some (snd p))) (combine (zseq 1 (List.length (j :: t))) (j :: t))).
  rewrite finish_array_go. reflexivity. Qed.

Lemma finish_object_go : forall (ms : list (string * json)) (acc : list (string * json)),
  (fix go (l : list (lkey * option json)) (acc : list (string * json)) : option json :=
     match l with
     | [] => Some (JObj (rev acc))
     | (KStr k, Some j) :: t => go t ((k, j) :: acc)
     | _ => None
     end) (map (fun kv => (KStr (fst kv), Some (snd kv))) ms) acc = Some (JObj (rev acc ++ ms)).
Proof. induction ms as [|[k j] t IH]; intros acc; cbn [map fst snd]; [rewrite app_nil_r; reflexivity|].
  rewrite IH. cbn [rev]. rewrite <- app_assoc. reflexivity. Qed.
Lemma finish_object (ms : list (string * json)) : ms <> [] ->
  finish (map (fun kv => (KStr (fst kv), Some (snd kv))) ms) = Some (JObj ms).
Proof. destruct ms as [|[k j] t]; [congruence|]. intros _. unfold finish. cbn [map fst snd].
  change ((KStr k, Some j) :: map (fun kv => (KStr (fst kv), Some (snd kv))) t) with (map (fun kv : string * json => (KStr (fst kv), Some (snd kv))) ((k, j) :: t)).
  rewrite finish_object_go. reflexivity. Qed.

Lemma enc_hash_nonnil enc (l : list (lkey * lval)) : forallb (fun kv => non_nil (snd kv)) l = true ->
  enc_hash enc l = map (fun kv => (fst kv, enc (snd kv))) l.
Proof. induction l as [|[k x] t IH]; intros H; [reflexivity|]. cbn in H. apply andb_prop in H as [Hx Ht].
  cbn [enc_hash map fst snd]. destruct x; try discriminate; rewrite (IH Ht); reflexivity. Qed.

(* decode then encode = norm, for every JSON value *)
Theorem roundtrip : forall v, encode (decode v) = Some (norm v).
Proof.
  induction v as [| b | z | s | l IH | m IH] using json_ind'; try reflexivity.
  - (* arrays *)
    rewrite norm_arr. cbn [decode]. rewrite encode_table. cbn [enc_hash]. rewrite app_nil_r.
    set (l' := filter (fun x => negb (is_null x)) l).
    assert (Hf : filter (fun x => match x with LNil => false | _ => true end) (map decode l) = map decode l').
    { subst l'. clear IH. induction l as [|x t IHl]; [reflexivity|]. cbn [map filter].
      change (match decode x with LNil => false | _ => true end) with (non_nil (decode x)). rewrite decode_nil.
      destruct (negb (is_null x)); cbn [map]; [f_equal|]; exact IHl. }
    rewrite Hf.
    assert (Hnn : forallb non_nil (map decode l') = true).
    { subst l'. clear. induction l as [|x t IHl]; [reflexivity|]. cbn [filter]. destruct (negb (is_null x)) eqn:E; [|exact IHl].
      cbn [map forallb]. rewrite decode_nil, E. exact IHl. }
    rewrite (enc_arr_nonnil _ _ _ Hnn). rewrite map_length.
    assert (IH' : Forall (fun x => encode (decode x) = Some (norm x)) l').
    { subst l'. apply Forall_forall. intros x Hx. apply filter_In in Hx as [Hx _]. rewrite Forall_forall in IH. auto. }
    assert (Hm : map (fun p => (KNum (fst p), encode (snd p))) (combine (zseq 1 (List.length l')) (map decode l')) =
                 map (fun p => (KNum (fst p), Some (snd p))) (combine (zseq 1 (List.length (map norm l'))) (map norm l'))).
    { rewrite map_length. generalize 1 as i. clear -IH'. induction IH' as [|x t Hx _ IHt]; intros i; [reflexivity|].
      cbn [List.length zseq map combine fst snd]. rewrite Hx, IHt. reflexivity. }
    rewrite Hm. destruct (map norm l') as [|j js] eqn:El; [reflexivity|]. apply finish_array. discriminate.
  - (* objects *)
    rewrite norm_obj. cbn [decode]. rewrite encode_table. cbn [enc_arr app].
    set (m' := filter (fun kv => negb (is_null (snd kv))) m).
    assert (Hf : filter (fun kv : lkey * lval => match snd kv with LNil => false | _ => true end) (map (fun kv => (KStr (fst kv), decode (snd kv))) m) =
                 map (fun kv => (KStr (fst kv), decode (snd kv))) m').
    { subst m'. clear IH. induction m as [|[k x] t IHl]; [reflexivity|]. cbn [map filter fst snd].
      change (match decode x with LNil => false | _ => true end) with (non_nil (decode x)). rewrite decode_nil.
      destruct (negb (is_null x)); cbn [map fst snd]; [f_equal|]; exact IHl. }
    rewrite Hf.
    assert (Hnn : forallb (fun kv : lkey * lval => non_nil (snd kv)) (map (fun kv => (KStr (fst kv), decode (snd kv))) m') = true).
    { subst m'. clear. induction m as [|[k x] t IHl]; [reflexivity|]. cbn [filter snd]. destruct (negb (is_null x)) eqn:E; [|exact IHl].
      cbn [map forallb fst snd]. rewrite decode_nil, E. exact IHl. }
    rewrite (enc_hash_nonnil _ _ Hnn). rewrite map_map. cbn [fst snd].
    assert (IH' : Forall (fun kv => encode (decode (snd kv)) = Some (norm (snd kv))) m').
    { subst m'. apply Forall_forall. intros x Hx. apply filter_In in Hx as [Hx _]. rewrite Forall_forall in IH. auto. }
    assert (Hm : map (fun x : string * json => (KStr (fst x), encode (decode (snd x)))) m' =
                 map (fun kv => (KStr (fst kv), Some (snd kv))) (map (fun kv => (fst kv, norm (snd kv))) m')).
    { rewrite map_map. cbn [fst snd]. clear -IH'. induction IH' as [|x t Hx _ IHt]; [reflexivity|]. cbn [map]. rewrite Hx, IHt. reflexivity. }
    rewrite Hm. destruct (map (fun kv => (fst kv, norm (snd kv))) m') as [|j js] eqn:El; [reflexivity|]. apply finish_object. discriminate.
Qed.

(* values without null members/elements and without empty containers come back unchanged *)
Lemma lossless_arr l : lossless (JArr l) = negb (match l with [] => true | _ => false end) && forallb (fun x => negb (is_null x) && lossless x) l.
Proof. cbn [lossless].
  match goal with |- _ && ?f l = _ => assert (H : f l = forallb (fun x => negb (is_null x) && lossless x) l) end.
  { induction l as [|x t IH]; [reflexivity|]. cbn [forallb]. rewrite <- IH. reflexivity. }
  rewrite H. reflexivity. Qed.
Lemma lossless_obj m : lossless (JObj m) = negb (match m with [] => true | _ => false end) && forallb (fun kv => negb (is_null (snd kv)) && lossless (snd kv)) m.
Proof. cbn [lossless].
  match goal with |- _ && ?f m = _ => assert (H : f m = forallb (fun kv => negb (is_null (snd kv)) && lossless (snd kv)) m) end.
  { induction m as [|[k x] t IH]; [reflexivity|]. cbn [forallb snd]. rewrite <- IH. reflexivity. }
  rewrite H. reflexivity. Qed.

Theorem norm_lossless : forall v, lossless v = true -> norm v = v.
Proof.
  induction v as [| b | z | s | l IH | m IH] using json_ind'; try reflexivity.
  - rewrite lossless_arr, norm_arr. intros H. apply andb_prop in H as [Hne Hall].
    assert (Hf : filter (fun x => negb (is_null x)) l = l).
    { clear -Hall. induction l as [|x t IHl]; [reflexivity|]. cbn in Hall |- *. apply andb_prop in Hall as [Hx Ht]. apply andb_prop in Hx as [Hx _].
      rewrite Hx. f_equal. auto. }
    rewrite Hf.
    assert (Hm : map norm l = l).
    { clear -IH Hall. induction IH as [|x t Hx _ IHt]; [reflexivity|]. cbn in Hall |- *. apply andb_prop in Hall as [H1 H2]. apply andb_prop in H1 as [_ H1].
      rewrite (Hx H1), (IHt H2). reflexivity. }
    rewrite Hm. destruct l; [discriminate|reflexivity].
  - rewrite lossless_obj, norm_obj. intros H. apply andb_prop in H as [Hne Hall].
    assert (Hf : filter (fun kv : string * json => negb (is_null (snd kv))) m = m).
    { clear -Hall. induction m as [|x t IHl]; [reflexivity|]. cbn in Hall |- *. apply andb_prop in Hall as [Hx Ht]. apply andb_prop in Hx as [Hx _].
      rewrite Hx. f_equal. auto. }
    rewrite Hf.
    assert (Hm : map (fun kv : string * json => (fst kv, norm (snd kv))) m = m).
    { clear -IH Hall. induction IH as [|[k x] t Hx _ IHt]; [reflexivity|]. cbn in Hall, Hx |- *. apply andb_prop in Hall as [H1 H2]. apply andb_prop in H1 as [_ H1].
      rewrite (Hx H1), (IHt H2). reflexivity. }
    rewrite Hm. destruct m; [discriminate|reflexivity].
Qed.

Corollary roundtrip_lossless v : lossless v = true -> encode (decode v) = Some v.
Proof. intros H. rewrite roundtrip, (norm_lossless _ H). reflexivity. Qed.

(* the encoder is total on the tree model, and refuses what JSON cannot express *)
Example sparse_refused : encode (LTab [LNum 1; LNil; LNum 3] []) = None. Proof. reflexivity. Qed.
Example mixed_refused : encode (LTab [LNum 1] [(KStr "a", LNum 2)]) = None. Proof. reflexivity. Qed.
Example function_refused : encode (LTab [] [(KStr "f", LFun)]) = None. Proof. reflexivity. Qed.
Example roundtrip_example :
  encode (decode (JObj [("a", JArr [JNum 1; JNull; JNum 2]); ("b", JObj []); ("c", JNull); ("d", JStr "x")])) =
  Some (JObj [("a", JArr [JNum 1; JNum 2]); ("b", JNull); ("d", JStr "x")]).
Proof. reflexivity. Qed.

(* ---- capability surface (finite: proved by computation over the whole list) ---- *)
From RV Require Import Corr.LuaJson.
Lemma surface_is_safe : surface_safe surface = true.
Proof. vm_compute. reflexivity. Qed.
(* the encoder never fails on what decode produces: every input value comes back as some JSON *)
Lemma decode_always_encodes v : exists j, encode (decode v) = Some j.
Proof. eexists. apply roundtrip. Qed.

(* ---------- encoding a table loses no entry: whenever Encode succeeds, the array / object it writes has exactly as many
   elements / members as the table has live (non-nil) entries -- for ANY table, not only decoded ones ---------- *)

Lemma count_cons_any {A} (f : A -> bool) x l : count f (x :: l) = (if f x then 1 else 0) + count f l.
Proof. unfold count. cbn [filter]. destruct (f x); cbn [List.length]; lia. Qed.
Lemma enc_arr_length enc l : forall i, zlen (enc_arr enc l i) = count non_nil l.
Proof. induction l as [|x t IH]; intros i; [reflexivity|]. cbn [enc_arr]. rewrite count_cons_any.
  destruct x; cbn [non_nil]; rewrite <- (IH (i + 1)); unfold zlen; cbn [List.length]; lia. Qed.
Lemma enc_hash_length enc l : zlen (enc_hash enc l) = count (fun kv => non_nil (snd kv)) l.
Proof. induction l as [|[k x] t IH]; [reflexivity|]. cbn [enc_hash]. rewrite count_cons_any. cbn [snd].
  destruct x; cbn [non_nil]; rewrite <- IH; unfold zlen; cbn [List.length]; lia. Qed.

Lemma finish_width es j : finish es = Some j -> jwidth j = zlen es.
Proof.
  unfold finish. destruct es as [|[k o] t]; [intros H; inversion H; reflexivity|].
  destruct k as [s|z|b]; [| |discriminate].
  - assert (G : forall l acc j, (fix go (l : list (lkey * option json)) (acc : list (string * json)) : option json :=
       match l with [] => Some (JObj (rev acc)) | (KStr k, Some j) :: t => go t ((k, j) :: acc) | _ => None end) l acc = Some j ->
       jwidth j = zlen l + zlen acc).
    { induction l as [|[k' o'] l IH]; intros acc j0 H.
      - inversion H. cbn [jwidth]. unfold zlen. rewrite rev_length. cbn. lia.
      - destruct k'; try discriminate. destruct o'; try discriminate. apply IH in H. rewrite H. unfold zlen. cbn [List.length]. lia. }
    intros H. destruct o as [j0|]; [|discriminate]. apply G in H. rewrite H. unfold zlen. cbn. lia.
  - assert (G : forall l e acc j, (fix go (expected : Z) (l : list (lkey * option json)) (acc : list json) : option json :=
       match l with [] => Some (JArr (rev acc)) | (KNum k, Some j) :: t => if k =? expected then go (expected + 1) t (j :: acc) else None | _ => None end) e l acc = Some j ->
       jwidth j = zlen l + zlen acc).
    { induction l as [|[k' o'] l IH]; intros e acc j0 H.
      - inversion H. cbn [jwidth]. unfold zlen. rewrite rev_length. cbn. lia.
      - destruct k'; try discriminate. destruct o'; try discriminate. destruct (z0 =? e); [|discriminate].
        apply IH in H. rewrite H. unfold zlen. cbn [List.length]. lia. }
    intros H. destruct o as [j0|]; [|discriminate]. destruct (z =? 1); [|discriminate]. apply G in H. rewrite H. unfold zlen. cbn. lia.
Qed.

Theorem encode_loses_no_entry arr hash j : encode (LTab arr hash) = Some j -> jwidth j = live (LTab arr hash).
Proof.
  rewrite encode_table. intros H. apply finish_width in H. rewrite H. unfold zlen. rewrite app_length.
  pose proof (enc_arr_length encode arr 1) as Ha. pose proof (enc_hash_length encode hash) as Hh. unfold zlen in Ha, Hh.
  cbn [live]. lia.
Qed.
