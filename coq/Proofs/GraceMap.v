(* Proofs about Model/GraceMap.v (C19): Rollouts whose grace keys are disjoint cannot influence each other through the
   process-wide expectation store, under any interleaving of their calls with clock advances and restarts. *)
From RV Require Import Base.Util Model.GraceMap.

Section Isolation.
  Variable mine : gkey -> bool.                          (* the keys one Rollout uses *)
  Hypothesis mine_ext : forall a b, gkey_eqb a b = true -> mine a = mine b.

  Definition restrict (s : gstore) : gstore := filter (fun p => mine (fst p)) s.
  (* what this Rollout sees of a history: its own calls, and the global events *)
  Definition visible (o : gop) : bool := match o with GCall c => mine (gc_key c) | _ => true end.
  Definition proj (ops : list gop) : list gop := filter visible ops.
  (* the retry answers this Rollout gets *)
  Fixpoint answers (s : gstore) (ops : list gop) : list bool :=
    match ops with
    | [] => []
    | o :: t => let '(s', r) := gstep s o in
                match o, r with GCall c, Some b => if mine (gc_key c) then b :: answers s' t else answers s' t | _, _ => answers s' t end
    end.

  Lemma restrict_remove k s : restrict (gs_remove k s) = if mine k then gs_remove k (restrict s) else restrict s.
  Proof.
    unfold restrict, gs_remove. induction s as [|[k' v] s IH]; [destruct (mine k); reflexivity|]. cbn [filter fst].
    destruct (gkey_eqb k' k) eqn:Ek; cbn [negb].
    - rewrite IH. rewrite (mine_ext _ _ Ek). destruct (mine k); cbn [filter fst]; [rewrite Ek; reflexivity|reflexivity].
    - cbn [filter fst]. rewrite IH. destruct (mine k'); destruct (mine k); cbn [filter fst]; rewrite ?Ek; reflexivity.
  Qed.
  Lemma restrict_expect k s : restrict (gs_expect k s) = if mine k then gs_expect k (restrict s) else restrict s.
  Proof. unfold gs_expect. cbn [restrict filter fst]. fold (restrict (gs_remove k s)). rewrite restrict_remove. destruct (mine k); reflexivity. Qed.
  Lemma restrict_tick s : restrict (gs_tick s) = gs_tick (restrict s).
  Proof. unfold restrict, gs_tick. induction s as [|[k v] s IH]; [reflexivity|]. cbn [map filter fst]. rewrite IH. destruct (mine k); reflexivity. Qed.
  Lemma lookup_restrict k s : mine k = true -> gs_lookup k (restrict s) = gs_lookup k s.
  Proof.
    intros Hk. unfold gs_lookup, restrict. induction s as [|[k' v] s IH]; [reflexivity|]. cbn [filter find fst].
    destruct (gkey_eqb k' k) eqn:Ek.
    - rewrite (mine_ext _ _ Ek), Hk. cbn [find fst]. rewrite Ek. reflexivity.
    - destruct (mine k'); cbn [find fst]; rewrite ?Ek; exact IH.
  Qed.

  (* a call with one of my keys behaves the same on the whole store and on my part of it, and keeps the rest untouched;
     a call with a foreign key does not change my part *)
  Lemma run_call_mine c s : mine (gc_key c) = true ->
    fst (run_call c (restrict s)) = fst (run_call c s) /\ restrict (snd (run_call c s)) = snd (run_call c (restrict s)).
  Proof.
    intros Hk. unfold run_call. destruct (gc_failed c); [auto|]. destruct (gc_zero_grace c).
    { cbn [fst snd]. rewrite restrict_remove, Hk. auto. }
    destruct (gc_modified c).
    { cbn [fst snd]. rewrite restrict_expect, Hk. auto. }
    rewrite (lookup_restrict _ s Hk). destruct (gs_lookup (gc_key c) s) as [[|]|]; cbn [fst snd]; rewrite ?restrict_remove, ?Hk; auto.
  Qed.
  Lemma run_call_foreign c s : mine (gc_key c) = false -> restrict (snd (run_call c s)) = restrict s.
  Proof.
    intros Hk. unfold run_call. destruct (gc_failed c); [reflexivity|]. destruct (gc_zero_grace c).
    { cbn [fst snd]. rewrite restrict_remove, Hk. reflexivity. }
    destruct (gc_modified c).
    { cbn [fst snd]. rewrite restrict_expect, Hk. reflexivity. }
    destruct (gs_lookup (gc_key c) s) as [[|]|]; cbn [fst snd]; rewrite ?restrict_remove, ?Hk; reflexivity.
  Qed.

  (* non-interference: the answers a Rollout gets in ANY interleaving with other Rollouts' calls are the answers it gets
     when it runs alone (same clock advances and restarts), provided the others never use its keys *)
  Theorem isolated : forall ops s, answers s ops = answers (restrict s) (proj ops).
  Proof.
    induction ops as [|o ops IH]; intros s; [reflexivity|].
    destruct o as [c| |]; cbn [answers proj filter visible gstep].
    - destruct (mine (gc_key c)) eqn:Hk.
      + cbn [answers gstep]. destruct (run_call_mine c s Hk) as [H1 H2].
        destruct (run_call c s) as [r s'] eqn:E1. destruct (run_call c (restrict s)) as [r2 s2] eqn:E2. cbn [fst snd] in *.
        rewrite Hk. subst r2 s2. f_equal. apply IH.
      + pose proof (run_call_foreign c s Hk) as H. destruct (run_call c s) as [r s'] eqn:E1. cbn [snd] in H. rewrite IH, H. reflexivity.
    - cbn [answers gstep]. rewrite IH, restrict_tick. reflexivity.
    - cbn [answers gstep]. rewrite IH. reflexivity.
  Qed.
End Isolation.

(* the keys the traffic manager derives are disjoint for Rollouts with different UIDs, different stable Services and
   different canary Service names: they embed the object's UID or namespace/name *)
Definition rollout_keys (rollout_uid stable_svc_uid canary_svc_nsname : string) (k : gkey) : bool :=
  String.eqb (fst k) rollout_uid || String.eqb (fst k) stable_svc_uid || String.eqb (fst k) canary_svc_nsname.
Lemma rollout_keys_ext a b c x y : gkey_eqb x y = true -> rollout_keys a b c x = rollout_keys a b c y.
Proof. unfold gkey_eqb, rollout_keys. intros H. apply andb_prop in H as [H _]. apply String.eqb_eq in H. rewrite H. reflexivity. Qed.

Example two_rollouts_interleaved :
  let a := {| gc_key := ("uid-a", "restoreGateway"); gc_zero_grace := false; gc_modified := true; gc_failed := false |} in
  let a' := {| gc_key := ("uid-a", "restoreGateway"); gc_zero_grace := false; gc_modified := false; gc_failed := false |} in
  let b := {| gc_key := ("uid-b", "restoreGateway"); gc_zero_grace := false; gc_modified := true; gc_failed := false |} in
  answers (rollout_keys "uid-a" "svc-a" "ns/a-canary") [] [GCall a; GCall b; GCall a'; GTick; GCall b; GCall a'] = [true; true; false].
Proof. vm_compute. reflexivity. Qed.
