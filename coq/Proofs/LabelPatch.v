(* Proofs about Model/LabelPatch.v (C12). *)
From RV Require Import Base.Util Base.IntStr Model.LabelPatch.

Definition is_batch_write (w : lwrite) : bool := match w_bid w with Some _ => true | None => false end.
Definition has_bid (k : Z) (w : lwrite) : bool := match w_bid w with Some b => b =? k | None => false end.
Definition pn (pc : pod * option string) : string := p_name (fst pc).
Definition crh_after (pc : pod * option string) : string := match snd pc with Some h => h | None => p_crh (fst pc) end.

Lemma count_app {A} (f : A -> bool) l1 l2 : count f (l1 ++ l2) = count f l1 + count f l2.
Proof. unfold count. rewrite filter_app, app_length. lia. Qed.
Lemma count_nonneg {A} (f : A -> bool) l : 0 <= count f l.
Proof. unfold count. lia. Qed.
Lemma count_cons {A} (f : A -> bool) x l : count f (x :: l) = (if f x then 1 else 0) + count f l.
Proof. unfold count. cbn [filter]. destruct (f x); cbn [List.length]; lia. Qed.
Lemma count_nil {A} (f : A -> bool) : count f [] = 0. Proof. reflexivity. Qed.

Lemma skipn_skipn_add {A} (n m : nat) (l : list A) : skipn m (skipn n l) = skipn (n + m) l.
Proof. revert l. induction n as [|n IH]; intros l; [reflexivity|]. destruct l; [now rewrite !skipn_nil|]. cbn. apply IH. Qed.

(* ---------- take_for_batch / assign ---------- *)
Lemma count_mk_same bid rid l : count (has_bid bid) (map (mk_write bid rid) l) = zlen l.
Proof. induction l as [|x l IH]; [reflexivity|]. cbn [map]. rewrite count_cons, IH.
  unfold has_bid, mk_write; cbn. rewrite Z.eqb_refl. unfold zlen. cbn [List.length]. lia. Qed.
Lemma count_mk_other k bid rid l : k <> bid -> count (has_bid k) (map (mk_write bid rid) l) = 0.
Proof. intros Hk. induction l as [|x l IH]; [reflexivity|]. cbn [map]. rewrite count_cons, IH.
  unfold has_bid, mk_write; cbn. destruct (bid =? k) eqn:E; [apply Z.eqb_eq in E; lia|lia]. Qed.

Lemma assign_spec rid pr : forall u ws lft, assign rid pr u = (ws, lft) ->
  (exists m, map (fun w => (w_pod w, w_crh w)) ws = map (fun pc => (pn pc, snd pc)) (firstn m u) /\ lft = skipn m u) /\
  (forall w, In w ws -> w_rid w = Some rid /\ exists idx cnt, In (idx, cnt) pr /\ w_bid w = Some (idx + 1)).
Proof.
  induction pr as [|[idx cnt] pr IH]; intros u ws lft H.
  - cbn in H. inversion H; subst. split; [exists O; cbn; auto | intros w []].
  - cbn [assign] in H. unfold take_for_batch in H.
    destruct (Nat.ltb (List.length u) (Z.to_nat cnt)) eqn:Hout.
    + inversion H; subst. split.
      * exists (Z.to_nat cnt). rewrite !map_map. cbn. auto.
      * intros w Hw. apply in_map_iff in Hw. destruct Hw as [pc [<- _]]. cbn. split; auto.
        exists idx, cnt. split; [left; reflexivity|reflexivity].
    + destruct (assign rid pr (skipn (Z.to_nat cnt) u)) as [ws' lft'] eqn:Hrec.
      inversion H; subst. apply IH in Hrec. destruct Hrec as [[m [Hm1 Hm3]] Hw'].
      apply Nat.ltb_ge in Hout. split.
      * exists (Z.to_nat cnt + m)%nat.
        assert (Hsplit : firstn (Z.to_nat cnt + m) u = firstn (Z.to_nat cnt) u ++ firstn m (skipn (Z.to_nat cnt) u)).
        { rewrite <- (firstn_skipn (Z.to_nat cnt) u) at 1. rewrite firstn_app, firstn_length.
          rewrite Nat.min_l by lia. replace (Z.to_nat cnt + m - Z.to_nat cnt)%nat with m by lia.
          rewrite firstn_all2; [reflexivity|]. rewrite firstn_length. lia. }
        rewrite Hsplit, !map_app, !map_map. cbn. rewrite Hm1. repeat split; auto.
        subst lft. rewrite skipn_skipn_add. reflexivity.
      * intros w Hw. apply in_app_or in Hw. destruct Hw as [Hw|Hw].
        -- apply in_map_iff in Hw. destruct Hw as [pc [<- _]]. cbn. split; auto.
           exists idx, cnt. split; [left; reflexivity|reflexivity].
        -- destruct (Hw' w Hw) as [Hr [i' [c' [Hin Hb]]]]. split; auto. exists i', c'. split; [right; exact Hin|exact Hb].
Qed.

Lemma assign_count rid pr : forall u ws lft, assign rid pr u = (ws, lft) -> NoDup (map fst pr) ->
  forall k, count (has_bid k) ws <= match find (fun ic => fst ic + 1 =? k) pr with Some ic => Z.max 0 (snd ic) | None => 0 end.
Proof.
  induction pr as [|[idx cnt] pr IH]; intros u ws lft H Hnd k.
  - cbn in H. inversion H; subst. cbn. lia.
  - cbn [assign] in H. unfold take_for_batch in H. cbn [map fst] in Hnd. inversion Hnd as [|? ? Hnotin Hnd']; subst.
    assert (Hfirst : forall l, count (has_bid k) (map (mk_write (idx + 1) rid) (firstn (Z.to_nat cnt) l))
                      <= if idx + 1 =? k then Z.max 0 cnt else 0).
    { intros l. destruct (idx + 1 =? k) eqn:E.
      - apply Z.eqb_eq in E. subst k. rewrite count_mk_same. unfold zlen. rewrite firstn_length. lia.
      - apply Z.eqb_neq in E. rewrite count_mk_other by lia. lia. }
    cbn [find fst snd].
    destruct (Nat.ltb (List.length u) (Z.to_nat cnt)) eqn:Hout.
    + inversion H; subst. specialize (Hfirst u). destruct (idx + 1 =? k) eqn:E; [exact Hfirst|].
      destruct (find _ pr) as [ic|]; lia.
    + destruct (assign rid pr (skipn (Z.to_nat cnt) u)) as [ws' lft'] eqn:Hrec.
      inversion H; subst. rewrite count_app. specialize (IH _ _ _ Hrec Hnd' k). specialize (Hfirst u).
      destruct (idx + 1 =? k) eqn:E; rewrite ?E in Hfirst.
      * apply Z.eqb_eq in E. subst k.
        destruct (find (fun ic => fst ic + 1 =? idx + 1) pr) as [ic|] eqn:Hf.
        -- exfalso. apply find_some in Hf. destruct Hf as [Hin Heq]. apply Z.eqb_eq in Heq.
           apply Hnotin. apply in_map_iff. exists ic. split; [lia|exact Hin].
        -- cbn [snd]; lia.
      * lia.
Qed.

(* ---------- scan ---------- *)
Definition is_counted (i : lp_input) (k : Z) (p : pod) : bool :=
  match classify i p with PCounted b => b =? k | _ => false end.

Lemma classify_unpatched i p ch : classify i p = PUnpatched ch ->
  p_deleting p = false /\ consistent (p_pth p) (crh_after (p, ch)) (i_rev i) = true /\
  String.eqb (p_rid p) (i_rid i) = false.
Proof.
  unfold classify. destruct (p_deleting p); [discriminate|].
  destruct (sempty (p_crh p)) eqn:Hc; [destruct (p_owner p) eqn:Ho|]; cbn; try discriminate;
  repeat match goal with |- context [if ?c then _ else _] => destruct c eqn:? end; try discriminate;
  try (destruct (atoi (p_bid p)); discriminate);
  intros H; inversion H; subst; cbn;
  repeat match goal with H : negb _ = false |- _ => apply negb_false_iff in H end;
  repeat match goal with H : negb _ = true |- _ => apply negb_true_iff in H end; auto.
Qed.

Lemma nth_zupd_same (l : list Z) k f : (k < List.length l)%nat -> nth k (zupd l k f) 0 = f (nth k l 0).
Proof. revert k. induction l as [|x l IH]; intros k Hk; [cbn in Hk; lia|]. destruct k; cbn; [reflexivity|]. apply IH. cbn in Hk. lia. Qed.
Lemma nth_zupd_other (l : list Z) k j f : k <> j -> nth j (zupd l k f) 0 = nth j l 0.
Proof. revert k j. induction l as [|x l IH]; intros k j Hk; [destruct k; reflexivity|].
  destruct k, j; cbn; try reflexivity; try lia. apply IH. lia. Qed.
Lemma zupd_length {A} (l : list A) k f : List.length (zupd l k f) = List.length l.
Proof. revert k. induction l as [|x l IH]; intros k; [destruct k; reflexivity|]. destruct k; cbn; [reflexivity|]. now rewrite IH. Qed.

Lemma scan_spec i : forall pods plan unp ho plan' unp' ho',
  scan_pods i pods plan unp ho = ScanOk plan' unp' ho' ->
  List.length plan' = List.length plan /\
  (forall k, (k < List.length plan)%nat -> nth k plan' 0 = nth k plan 0 - count (is_counted i (Z.of_nat k + 1)) pods) /\
  (exists new, unp' = unp ++ new /\ map fst new = filter (fun p => match classify i p with PUnpatched _ => true | _ => false end) pods /\
               forall pc, In pc new -> classify i (fst pc) = PUnpatched (snd pc)).
Proof.
  induction pods as [|p pods IH]; intros plan unp ho plan' unp' ho' H.
  - cbn in H. inversion H; subst. split; [reflexivity|]. split; [intros; rewrite count_nil; lia|].
    exists []. rewrite app_nil_r. repeat split; auto. intros pc [].
  - cbn [scan_pods] in H. cbn [filter]. unfold is_counted in *. 
    destruct (classify i p) as [| ch | b | h |] eqn:Hc; try discriminate.
    + apply IH in H. destruct H as [Hl [Hn Hu]]. split; [exact Hl|]. split; [|exact Hu].
      intros k Hk. rewrite count_cons, Hc. rewrite Hn by exact Hk. lia.
    + apply IH in H. destruct H as [Hl [Hn [new [Hu1 [Hu2 Hu3]]]]]. split; [exact Hl|]. split.
      * intros k Hk. rewrite count_cons, Hc. rewrite Hn by exact Hk. lia.
      * exists ((p, ch) :: new). rewrite Hu1, <- app_assoc. cbn. split; [reflexivity|]. split; [now rewrite Hu2|].
        intros pc [<-|Hin]; [exact Hc|auto].
    + unfold dec_plan in H.
      destruct ((1 <=? b) && (b <=? zlen plan)) eqn:Hr.
      * apply IH in H. destruct H as [Hl [Hn Hu]]. rewrite zupd_length in Hl. split; [exact Hl|]. split; [|exact Hu].
        intros k Hk. rewrite count_cons, Hc. rewrite Hn by (rewrite zupd_length; exact Hk).
        apply andb_true_iff in Hr. destruct Hr as [Hr1 Hr2]. apply Z.leb_le in Hr1, Hr2. unfold zlen in Hr2.
        destruct (b =? Z.of_nat k + 1) eqn:E.
        -- apply Z.eqb_eq in E. replace (Z.to_nat (b - 1)) with k by lia. rewrite nth_zupd_same by exact Hk. lia.
        -- apply Z.eqb_neq in E. rewrite nth_zupd_other by lia. lia.
      * apply IH in H. destruct H as [Hl [Hn Hu]]. split; [exact Hl|]. split; [|exact Hu].
        intros k Hk. rewrite count_cons, Hc. rewrite Hn by exact Hk.
        destruct (b =? Z.of_nat k + 1) eqn:E; [|lia]. apply Z.eqb_eq in E. exfalso.
        apply andb_false_iff in Hr. unfold zlen in Hr. destruct Hr as [Hr|Hr]; apply Z.leb_gt in Hr; lia.
    + apply IH in H. destruct H as [Hl [Hn Hu]]. split; [exact Hl|]. split; [|exact Hu].
      intros k Hk. rewrite count_cons, Hc. rewrite Hn by exact Hk. lia.
Qed.

(* ---------- number_from ---------- *)
Lemma number_from_in {A} (l : list A) : forall s j x, In (j, x) (number_from s l) ->
  exists n, j = s + Z.of_nat n /\ nth_error l n = Some x.
Proof. induction l as [|y l IH]; intros s j x H; [destruct H|]. cbn in H. destruct H as [H|H].
  - inversion H; subst. exists O. split; [lia|reflexivity].
  - apply IH in H. destruct H as [n [Hj Hn]]. exists (S n). split; [lia|exact Hn]. Qed.
Lemma number_from_fst_lt {A} (l : list A) : forall s j x, In (j, x) (number_from s l) -> s <= j.
Proof. intros s j x H. apply number_from_in in H. destruct H as [n [-> _]]. lia. Qed.
Lemma number_from_nodup {A} (l : list A) : forall s, NoDup (map fst (number_from s l)).
Proof. induction l as [|y l IH]; intros s; cbn; constructor; [|apply IH].
  intros H. apply in_map_iff in H. destruct H as [[j x] [Hj Hin]]. cbn in Hj. subst j.
  apply number_from_fst_lt in Hin. lia. Qed.

Lemma NoDup_map_filter {A B} (f : A -> B) (g : A -> bool) l : NoDup (map f l) -> NoDup (map f (filter g l)).
Proof. induction l as [|x l IH]; intros H; [constructor|]. cbn in *. inversion H as [|? ? Hn Hd]; subst.
  destruct (g x); [|auto]. cbn. constructor; [|auto]. intros Hin. apply Hn.
  apply in_map_iff in Hin. destruct Hin as [y [Hy Hin]]. apply filter_In in Hin. apply in_map_iff. exists y. tauto. Qed.
Lemma NoDup_firstn {A} n (l : list A) : NoDup l -> NoDup (firstn n l).
Proof. revert n. induction l as [|x l IH]; intros n H; [rewrite firstn_nil; constructor|].
  destruct n; [constructor|]. cbn. inversion H; subst. constructor; [|auto].
  intros Hin. apply H2. eapply (In_nth_error) in Hin. destruct Hin as [k Hk].
  assert (In x (firstn n l)) by (eapply nth_error_In; eauto).
  rewrite <- (firstn_skipn n l). apply in_or_app. left. assumption. Qed.

(* ---------- the patcher ---------- *)
Definition pods_used (i : lp_input) : list pod :=
  match pods_used_opt i with Some l => l | None => [] end.
Definition incs (i : lp_input) : list Z := planned_increments (i_batches i) (i_replicas i) (i_cur i).

Lemma patch_ok_inv i ws : patch_pod_batch_label i = Ok ws -> ws <> [] ->
  exists plan unp ho ws1 lft hw,
    scan_pods i (pods_used i) (incs i) [] [] = ScanOk plan unp ho /\
    assign (i_rid i) (rev (number_from 0 plan)) (rev unp) = (ws1, lft) /\
    ws = ws1 ++ hw /\ forall w, In w hw -> w_bid w = None.
Proof.
  unfold patch_pod_batch_label, pods_used, incs. intros H Hne.
  destruct (sempty (i_rid i) || (zlen (i_pods i) =? 0)); [inversion H; congruence|].
  destruct (pods_used_opt i) as [pu|]; [|discriminate].
  destruct ((i_cur i <? 0) || (zlen (i_batches i) <=? i_cur i)); [discriminate|].
  destruct (scan_pods _ _ _ _ _) as [plan unp ho| |] eqn:Hs; try discriminate.
  destruct (assign _ _ _) as [ws1 lft] eqn:Ha. inversion H; subst.
  exists plan, unp, ho, ws1, lft. eexists. split; [reflexivity|]. split; [exact Ha|]. split; [reflexivity|].
  intros w Hw. apply in_map_iff in Hw. destruct Hw as [ph [<- _]]. reflexivity.
Qed.

(* C12, clauses "only live pods of the new revision" and "never relabelled": every batch-label write
   targets a pod of the (filtered) input that is not terminating, is consistent with the update
   revision (judged with the controller-revision-hash it carries after the write) and does not
   already carry this rollout-id. *)
Theorem batch_write_target i ws w : patch_pod_batch_label i = Ok ws -> In w ws -> is_batch_write w = true ->
  w_rid w = Some (i_rid i) /\
  exists p, In p (pods_used i) /\ p_name p = w_pod w /\ p_deleting p = false /\
            consistent (p_pth p) (match w_crh w with Some h => h | None => p_crh p end) (i_rev i) = true /\
            String.eqb (p_rid p) (i_rid i) = false.
Proof.
  intros H Hin Hb. destruct (patch_ok_inv i ws H) as [plan [unp [ho [ws1 [lft [hw [Hs [Ha [-> Hhw]]]]]]]]].
  { intros ->. destruct Hin. }
  apply in_app_or in Hin. destruct Hin as [Hin|Hin].
  2:{ apply Hhw in Hin. unfold is_batch_write in Hb. rewrite Hin in Hb. discriminate. }
  destruct (assign_spec _ _ _ _ _ Ha) as [[m [Hm _]] Hw]. split; [apply Hw; exact Hin|].
  assert (Hx : In (w_pod w, w_crh w) (map (fun pc => (pn pc, snd pc)) (firstn m (rev unp)))).
  { rewrite <- Hm. apply in_map_iff. exists w. auto. }
  apply in_map_iff in Hx. destruct Hx as [[p ch] [Heq Hpc]]. unfold pn in Heq. cbn in Heq. injection Heq as Hname Hch.
  assert (Hpc' : In (p, ch) unp).
  { apply in_rev. rewrite <- (firstn_skipn m (rev unp)). apply in_or_app. left. exact Hpc. }
  destruct (scan_spec _ _ _ _ _ _ _ _ Hs) as [_ [_ [new [Hu [Hf Hc]]]]]. cbn in Hu. subst unp.
  pose proof (Hc _ Hpc') as Hcl. cbn in Hcl. apply classify_unpatched in Hcl. destruct Hcl as [Hd [Hcons Hr]].
  exists p. split.
  { assert (Hin' : In p (map fst new)) by (apply in_map_iff; exists (p, ch); auto). rewrite Hf in Hin'. apply filter_In in Hin'. tauto. }
  split; [exact Hname|]. split; [exact Hd|]. split; [|exact Hr].
  rewrite <- Hch. exact Hcons.
Qed.

(* distinct batch writes go to distinct pods *)
Theorem batch_writes_distinct i ws : patch_pod_batch_label i = Ok ws -> NoDup (map p_name (pods_used i)) ->
  NoDup (map w_pod (filter is_batch_write ws)).
Proof.
  intros H Hnd. destruct ws as [|w0 ws0]; [constructor|].
  destruct (patch_ok_inv i _ H) as [plan [unp [ho [ws1 [lft [hw [Hs [Ha [Heq Hhw]]]]]]]]]; [discriminate|].
  rewrite Heq. rewrite filter_app.
  assert (Hnil : filter is_batch_write hw = []).
  { clear -Hhw. induction hw as [|x hw IH]; [reflexivity|]. cbn. unfold is_batch_write at 1. rewrite (Hhw x) by (left; reflexivity).
    apply IH. intros w Hw. apply Hhw. right. exact Hw. }
  rewrite Hnil, app_nil_r.
  destruct (assign_spec _ _ _ _ _ Ha) as [[m [Hm _]] Hw].
  assert (Hall : filter is_batch_write ws1 = ws1).
  { clear -Hw. induction ws1 as [|x l IH]; [reflexivity|]. cbn.
    destruct (Hw x (or_introl eq_refl)) as [_ [idx [cnt [_ Hb]]]]. unfold is_batch_write at 1. rewrite Hb. f_equal.
    apply IH. intros w Hin. apply Hw. right. exact Hin. }
  rewrite Hall.
  assert (Hp : map w_pod ws1 = map pn (firstn m (rev unp))).
  { replace (map w_pod ws1) with (map fst (map (fun w => (w_pod w, w_crh w)) ws1)) by (rewrite map_map; reflexivity).
    rewrite Hm, map_map. reflexivity. }
  rewrite Hp. rewrite <- firstn_map. apply NoDup_firstn. rewrite map_rev. apply NoDup_rev.
  destruct (scan_spec _ _ _ _ _ _ _ _ Hs) as [_ [_ [new [Hu [Hf _]]]]]. cbn in Hu. subst unp.
  replace (map pn new) with (map p_name (map fst new)) by (rewrite map_map; reflexivity).
  rewrite Hf. apply NoDup_map_filter. exact Hnd.
Qed.

(* C12, clause "never over budget": the number of pods newly given batch k+1 is at most the increment
   of batch k under the plan minus the live new-revision pods already counted for k+1 *)
Theorem batch_budget i ws k : patch_pod_batch_label i = Ok ws -> (k < List.length (incs i))%nat ->
  count (has_bid (Z.of_nat k + 1)) ws <=
  Z.max 0 (nth k (incs i) 0 - count (is_counted i (Z.of_nat k + 1)) (pods_used i)).
Proof.
  intros H Hk. destruct ws as [|w0 ws0]; [rewrite count_nil; lia|].
  destruct (patch_ok_inv i _ H) as [plan [unp [ho [ws1 [lft [hw [Hs [Ha [Heq Hhw]]]]]]]]]; [discriminate|].
  rewrite Heq, count_app.
  assert (Hz : count (has_bid (Z.of_nat k + 1)) hw = 0).
  { clear -Hhw. induction hw as [|x hw IH]; [reflexivity|]. rewrite count_cons. unfold has_bid at 1. rewrite (Hhw x) by (left; reflexivity).
    rewrite IH; [lia|]. intros w Hw. apply Hhw. right. exact Hw. }
  rewrite Hz. destruct (scan_spec _ _ _ _ _ _ _ _ Hs) as [Hl [Hn _]].
  pose proof (assign_count _ _ _ _ _ Ha) as Hc.
  assert (Hnd : NoDup (map fst (rev (number_from 0 plan)))) by (rewrite map_rev; apply NoDup_rev, number_from_nodup).
  specialize (Hc Hnd (Z.of_nat k + 1)).
  destruct (find _ _) as [[j x]|] eqn:Hf.
  - apply find_some in Hf. destruct Hf as [Hin Hj]. cbn in Hj. apply Z.eqb_eq in Hj.
    apply in_rev in Hin. apply number_from_in in Hin. destruct Hin as [n [Hjn Hx]].
    assert (n = k) by lia. subst n. cbn [snd] in Hc.
    rewrite <- (Hn k) by (rewrite <- Hl in Hk; lia). 
    rewrite (nth_error_nth _ _ _ Hx). lia.
  - lia.
Qed.

(* stale / foreign labels: a pod is counted for batch k only if it is live, of the new revision,
   carries this rollout-id and its batch id parses to k *)
Lemma counted_belongs i k p : is_counted i k p = true ->
  p_deleting p = false /\ String.eqb (p_rid p) (i_rid i) = true /\ atoi (p_bid p) = Some k.
Proof.
  unfold is_counted, classify. destruct (p_deleting p); [discriminate|].
  destruct (sempty (p_crh p)); [destruct (p_owner p)|]; cbn; try discriminate;
  repeat match goal with |- context [if ?c then _ else _] => destruct c eqn:? end; try discriminate;
  destruct (atoi (p_bid p)) as [b|] eqn:Hb; try discriminate; intros H; apply Z.eqb_eq in H; subst;
  repeat match goal with H : negb _ = false |- _ => apply negb_false_iff in H end; auto.
Qed.

Lemma scan_no_panic i : forall pods plan unp ho, scan_pods i pods plan unp ho <> ScanPanic.
Proof. induction pods as [|p pods IH]; intros plan unp ho; cbn [scan_pods]; [discriminate|].
  destruct (classify i p); try apply IH; try discriminate.
  unfold dec_plan. destruct ((1 <=? b) && (b <=? zlen plan)); apply IH. Qed.

(* C12, clause "arbitrary label values are tolerated": for any label strings whatsoever the patcher
   does not panic (the executor only calls it with 0 <= currentBatch < len(batches)) *)
(* the ordered filter (StatefulSets) parses the ordinal out of the pod name: names are "<statefulset>-<ordinal>" *)
Definition names_ok (i : lp_input) : bool :=
  match i_filter i with
  | FOrdered _ => forallb (fun p => match sort_key p with Some _ => true | None => false end) (i_pods i)
  | _ => true
  end.
Lemma names_ok_some i : names_ok i = true -> pods_used_opt i <> None.
Proof.
  unfold names_ok, pods_used_opt. destruct (i_filter i) as [| |dp]; try discriminate. intros H. unfold filter_ordered.
  replace (existsb (fun p => match sort_key p with None => true | Some _ => false end) (i_pods i)) with false.
  2:{ symmetry. apply not_true_is_false. intros He. apply existsb_exists in He. destruct He as [p [Hp Hk]].
      rewrite forallb_forall in H. specialize (H p Hp). destruct (sort_key p); discriminate. }
  cbn [andb]. destruct (_ <=? 0); discriminate.
Qed.

Theorem patch_total i : (0 <=? i_cur i) && (i_cur i <? zlen (i_batches i)) = true -> names_ok i = true -> patch_pod_batch_label i <> Panic.
Proof.
  intros Hd Hn. apply names_ok_some in Hn. apply andb_true_iff in Hd. destruct Hd as [H1 H2]. apply Z.leb_le in H1. apply Z.ltb_lt in H2.
  unfold patch_pod_batch_label. destruct (sempty (i_rid i) || (zlen (i_pods i) =? 0)); [discriminate|].
  destruct (pods_used_opt i) as [pu|]; [|congruence].
  replace ((i_cur i <? 0) || (zlen (i_batches i) <=? i_cur i)) with false.
  2:{ symmetry. apply orb_false_iff. split; [apply Z.ltb_ge|apply Z.leb_gt]; lia. }
  destruct (scan_pods _ _ _ _ _) eqn:Hs; try discriminate.
  - destruct (assign _ _ _). discriminate.
  - exfalso. eapply scan_no_panic. exact Hs.
Qed.

(* ---------- last sentence of C12: only pods that belong to a batch use its budget, and the budget is used ---------- *)
(* a pod counted for batch k is also of the NEW revision (judged with the controller-revision-hash it carries, or the one
   computed from its ReplicaSet when it carries none) *)
Lemma counted_is_new_revision i k p : is_counted i k p = true ->
  exists crh, consistent (p_pth p) crh (i_rev i) = true /\ (crh = p_crh p \/ p_owner p = RSHash crh).
Proof.
  unfold is_counted, classify. destruct (p_deleting p); [discriminate|].
  destruct (sempty (p_crh p)).
  - destruct (p_owner p) as [| |h]; cbn; try discriminate.
    + destruct (negb (consistent (p_pth p) (p_crh p) (i_rev i))) eqn:E; [discriminate|]. intros _.
      exists (p_crh p). apply negb_false_iff in E. auto.
    + destruct (negb (consistent (p_pth p) h (i_rev i))) eqn:E; [discriminate|]. intros _.
      exists h. apply negb_false_iff in E. auto.
  - cbn. destruct (negb (consistent (p_pth p) (p_crh p) (i_rev i))) eqn:E; [discriminate|]. intros _.
    exists (p_crh p). apply negb_false_iff in E. auto.
Qed.

Lemma assign_bids rid pr u ws lft w : assign rid pr u = (ws, lft) -> In w ws -> exists idx cnt, In (idx, cnt) pr /\ w_bid w = Some (idx + 1).
Proof. intros H Hw. destruct (assign_spec rid pr u ws lft H) as [_ Hs]. destruct (Hs w Hw) as [_ Hx]. exact Hx. Qed.

Lemma count_has_bid_zero k ws : (forall w, In w ws -> w_bid w <> Some k) -> count (has_bid k) ws = 0.
Proof.
  induction ws as [|w ws IH]; intros H; [reflexivity|]. rewrite count_cons, IH by (intros x Hx; apply H; right; exact Hx).
  unfold has_bid. destruct (w_bid w) as [b|] eqn:E; [|reflexivity].
  destruct (b =? k) eqn:Eb; [|reflexivity]. apply Z.eqb_eq in Eb. subst b. exfalso. apply (H w); [left; reflexivity|exact E].
Qed.

Lemma number_from_nth {A} (l : list A) : forall s k x, nth_error l k = Some x -> In (s + Z.of_nat k, x) (number_from s l).
Proof.
  induction l as [|a l IH]; intros s k x Hx; [destruct k; discriminate|].
  destruct k; cbn [number_from nth_error] in *.
  - injection Hx as <-. left. f_equal. lia.
  - right. replace (s + Z.of_nat (S k)) with ((s + 1) + Z.of_nat k) by lia. apply IH. exact Hx.
Qed.

(* the hand-out stops only when the pods run out or every batch got its whole remaining budget *)
Lemma assign_fills rid pr : forall u ws lft, assign rid pr u = (ws, lft) -> NoDup (map fst pr) ->
  lft = [] \/ forall idx cnt, In (idx, cnt) pr -> count (has_bid (idx + 1)) ws = Z.max 0 cnt.
Proof.
  induction pr as [|[idx cnt] pr IH]; intros u ws lft H Hnd.
  - right. intros idx cnt [].
  - cbn [assign] in H. unfold take_for_batch in H. cbn [map fst] in Hnd. inversion Hnd as [|? ? Hnotin Hnd']; subst.
    destruct (Nat.ltb (List.length u) (Z.to_nat cnt)) eqn:Hout.
    + left. injection H as _ <-. apply Nat.ltb_lt in Hout. apply skipn_all2. lia.
    + destruct (assign rid pr (skipn (Z.to_nat cnt) u)) as [ws' lft'] eqn:Hrec. injection H as <- <-.
      destruct (IH _ _ _ Hrec Hnd') as [He|Hall]; [left; exact He|]. right.
      apply Nat.ltb_ge in Hout.
      intros j c [Hjc|Hin].
      * injection Hjc as <- <-. rewrite count_app, count_mk_same.
        rewrite count_has_bid_zero.
        -- unfold zlen. rewrite firstn_length, Nat.min_l by lia. lia.
        -- intros w Hw Hb. destruct (assign_bids _ _ _ _ _ _ Hrec Hw) as [i' [c' [Hin' Hb']]].
           rewrite Hb in Hb'. injection Hb' as Hb'. apply Hnotin. apply in_map_iff. exists (i', c'). split; [cbn; lia|exact Hin'].
      * rewrite count_app, (Hall j c Hin). rewrite count_mk_other; [lia|].
        intros Heq. apply Hnotin. apply in_map_iff. exists (j, c). split; [cbn; lia|exact Hin].
Qed.

(* C12: unless the unlabelled live pods of the new revision ran out (every one of them received a label), batch k+1
   receives exactly its increment minus the pods that BELONG to it already -- pods of another revision, terminating pods,
   pods of another release or with an unparsable batch id take nothing away *)
Theorem budget_filled i ws : patch_pod_batch_label i = Ok ws -> ws <> [] ->
  count is_batch_write ws = count (fun p => match classify i p with PUnpatched _ => true | _ => false end) (pods_used i) \/
  forall k, (k < List.length (incs i))%nat ->
    count (has_bid (Z.of_nat k + 1)) ws = Z.max 0 (nth k (incs i) 0 - count (is_counted i (Z.of_nat k + 1)) (pods_used i)).
Proof.
  intros H Hne.
  destruct (patch_ok_inv i _ H Hne) as [plan [unp [ho [ws1 [lft [hw [Hs [Ha [Heq Hhw]]]]]]]]].
  destruct (scan_spec _ _ _ _ _ _ _ _ Hs) as [Hl [Hn [new [Hu1 [Hu2 _]]]]]. cbn [app] in Hu1. subst unp.
  assert (Hnd : NoDup (map fst (rev (number_from 0 plan)))) by (rewrite map_rev; apply NoDup_rev, number_from_nodup).
  assert (Hzero : forall f, (forall w, In w hw -> f w = false) -> count f hw = 0).
  { intros f Hf. clear -Hf. induction hw as [|x hw IH]; [reflexivity|]. rewrite count_cons, (Hf x) by (left; reflexivity).
    rewrite IH; [reflexivity|]. intros w Hw. apply Hf. right. exact Hw. }
  destruct (assign_fills _ _ _ _ _ Ha Hnd) as [He|Hall].
  - (* the pods ran out: every unpatched pod was labelled *)
    left. subst lft. destruct (assign_spec _ _ _ _ _ Ha) as [[m [Hm1 Hm2]] Hw].
    rewrite Heq, count_app, (Hzero is_batch_write) by (intros w Hw'; unfold is_batch_write; rewrite (Hhw w Hw'); reflexivity).
    assert (Hall : count is_batch_write ws1 = zlen ws1).
    { clear -Hw. induction ws1 as [|w ws1 IH]; [reflexivity|]. rewrite count_cons. unfold zlen in *. cbn [List.length].
      destruct (Hw w (or_introl eq_refl)) as [_ [i0 [c0 [_ Hb]]]]. unfold is_batch_write at 1. rewrite Hb.
      rewrite IH by (intros x Hx; apply Hw; right; exact Hx). lia. }
    rewrite Hall, Z.add_0_r.
    assert (Hlen : List.length ws1 = List.length new).
    { apply (f_equal (@List.length _)) in Hm1. rewrite !map_length in Hm1. rewrite Hm1.
      symmetry in Hm2. apply (f_equal (@List.length _)) in Hm2. rewrite skipn_length in Hm2. cbn in Hm2.
      rewrite firstn_length, rev_length in *. lia. }
    unfold zlen. rewrite Hlen. rewrite <- (map_length fst new), Hu2.
    clear. induction (pods_used i) as [|p l IH]; [reflexivity|]. cbn [filter]. rewrite count_cons.
    destruct (classify i p); cbn [List.length]; lia.
  - right. intros k Hk.
    rewrite Heq, count_app, (Hzero (has_bid (Z.of_nat k + 1))) by (intros w Hw'; unfold has_bid; rewrite (Hhw w Hw'); reflexivity).
    rewrite Z.add_0_r.
    assert (Hk' : (k < List.length plan)%nat) by (rewrite Hl; exact Hk).
    destruct (nth_error plan k) as [x|] eqn:Hx; [|apply nth_error_None in Hx; lia].
    assert (Hin : In (Z.of_nat k, x) (rev (number_from 0 plan))).
    { apply -> in_rev. replace (Z.of_nat k) with (0 + Z.of_nat k) by lia. apply number_from_nth. exact Hx. }
    rewrite (Hall _ _ Hin). rewrite <- (Hn k Hk). rewrite (nth_error_nth _ _ _ Hx). reflexivity.
Qed.

(* ---------- the ordered filter (StatefulSets): the listing order of the pods is irrelevant ---------- *)
Require Import Coq.Sorting.Permutation.
Definition with_pods (i : lp_input) (l : list pod) : lp_input :=
  {| i_batches := i_batches i; i_replicas := i_replicas i; i_cur := i_cur i; i_rid := i_rid i; i_rev := i_rev i; i_pods := l;
     i_filter := i_filter i; i_desired := i_desired i; i_planned := i_planned i |}.

Lemma insert_comm x y : key0 x <> key0 y -> forall s, insert_by x (insert_by y s) = insert_by y (insert_by x s).
Proof.
  intros Hne. induction s as [|h t IH]; cbn [insert_by].
  - destruct (key0 x <=? key0 y) eqn:E1, (key0 y <=? key0 x) eqn:E2; try reflexivity; lia.
  - destruct (key0 y <=? key0 h) eqn:Ey, (key0 x <=? key0 h) eqn:Ex; cbn [insert_by]; rewrite ?Ey, ?Ex.
    + destruct (key0 x <=? key0 y) eqn:E1, (key0 y <=? key0 x) eqn:E2; try reflexivity; lia.
    + destruct (key0 x <=? key0 y) eqn:E1; [lia|]. reflexivity.
    + destruct (key0 y <=? key0 x) eqn:E1; [lia|]. reflexivity.
    + rewrite IH. reflexivity.
Qed.

Lemma sort_perm l l' : Permutation l l' -> NoDup (map key0 l) -> sort_by_ordinal l = sort_by_ordinal l'.
Proof.
  induction 1 as [|x l l' Hp IH|x y l|l l' l'' Hp1 IH1 Hp2 IH2]; intros Hnd.
  - reflexivity.
  - cbn [sort_by_ordinal fold_right]. cbn [map] in Hnd. inversion Hnd; subst. unfold sort_by_ordinal in IH. rewrite IH by assumption. reflexivity.
  - cbn [sort_by_ordinal fold_right]. cbn [map] in Hnd. inversion Hnd as [|? ? Hn ?]; subst.
    apply insert_comm. intros He. apply Hn. left. symmetry. exact He.
  - rewrite IH1 by assumption. apply IH2. eapply Permutation_NoDup; [apply Permutation_map; exact Hp1|exact Hnd].
Qed.

Lemma existsb_perm {A} (f : A -> bool) l l' : Permutation l l' -> existsb f l = existsb f l'.
Proof. induction 1; cbn [existsb]; try congruence. destruct (f x), (f y); reflexivity. Qed.

Lemma scan_pods_with i l l' : forall pods plan unp ho, scan_pods (with_pods i l) pods plan unp ho = scan_pods (with_pods i l') pods plan unp ho.
Proof.
  induction pods as [|p pods IH]; intros plan unp ho; [reflexivity|]. cbn [scan_pods].
  change (classify (with_pods i l) p) with (classify (with_pods i l') p).
  destruct (classify (with_pods i l') p); try apply IH; try reflexivity.
  destruct (dec_plan plan b); [apply IH|reflexivity].
Qed.

(* C12 "repeating the labelling pass changes nothing", for StatefulSets also when the second pass lists the pods in another
   order (an informer cache promises none): with the ordered filter the writes do not depend on the order at all *)
Theorem ordered_filter_ignores_listing_order i dp l l' : i_filter i = FOrdered dp -> Permutation l l' -> NoDup (map key0 l) ->
  patch_pod_batch_label (with_pods i l) = patch_pod_batch_label (with_pods i l').
Proof.
  intros Hf Hp Hnd. unfold patch_pod_batch_label, pods_used_opt. cbn [with_pods i_rid i_pods i_filter i_cur i_batches i_replicas].
  rewrite Hf. unfold zlen. rewrite (Permutation_length Hp).
  destruct (sempty (i_rid i) || _); [reflexivity|].
  unfold filter_ordered. cbn [with_pods i_rid i_pods i_filter i_cur i_batches i_replicas i_rev i_planned].
  rewrite (existsb_perm _ _ _ Hp), (sort_perm _ _ Hp Hnd). unfold zlen. rewrite (Permutation_length Hp).
  destruct (existsb _ l' && _); [reflexivity|].
  match goal with |- match (if ?a then _ else _) with _ => _ end = _ => destruct a end;
    (destruct (_ || _); [reflexivity|]); rewrite (scan_pods_with i l l'); reflexivity.
Qed.

(* ---------- hashes written by the pass ---------- *)

Lemma firstn_In_local {A} (l : list A) : forall n x, In x (firstn n l) -> In x l.
Proof. induction l as [|y l IH]; intros n x H; [rewrite firstn_nil in H; exact H|]. destruct n; [destruct H|]. cbn in H. destruct H as [->|H]; [left; reflexivity|right; eapply IH; exact H]. Qed.
Lemma skipn_In_local {A} (l : list A) : forall n x, In x (skipn n l) -> In x l.
Proof. induction l as [|y l IH]; intros n x H; [rewrite skipn_nil in H; exact H|]. destruct n; [exact H|]. cbn in H. right. eapply IH; exact H. Qed.
Lemma In_rev_local {A} (l : list A) x : In x (rev l) -> In x l.
Proof. intros H. apply in_rev. exact H. Qed.

Definition owner_hash (p : pod) (h : string) : Prop := sempty (p_crh p) = true /\ p_owner p = RSHash h.

Lemma classify_unpatched_hash i p h : classify i p = PUnpatched (Some h) -> owner_hash p h.
Proof.
  unfold classify, owner_hash. destruct (p_deleting p); [discriminate|].
  destruct (sempty (p_crh p)) eqn:E.
  - destruct (p_owner p) as [| |h0]; cbn; try discriminate.
    + destruct (negb _); [discriminate|]. destruct (negb _); [discriminate|]. destruct (atoi _); discriminate.
    + destruct (negb _); [discriminate|]. destruct (negb _); [intros H; injection H as <-; auto|]. destruct (atoi _); discriminate.
  - cbn. destruct (negb _); [discriminate|]. destruct (negb _); [discriminate|]. destruct (atoi _); discriminate.
Qed.
Lemma classify_hashonly_hash i p h : classify i p = PHashOnly h -> owner_hash p h.
Proof.
  unfold classify, owner_hash. destruct (p_deleting p); [discriminate|].
  destruct (sempty (p_crh p)) eqn:E.
  - destruct (p_owner p) as [| |h0]; cbn; try discriminate.
    + destruct (negb _); [discriminate|]. destruct (negb _); [discriminate|]. destruct (atoi _); discriminate.
    + destruct (negb _); [intros H; injection H as <-; auto|]. destruct (negb _); [discriminate|]. destruct (atoi _); [discriminate|intros H; injection H as <-; auto].
  - cbn. destruct (negb _); [discriminate|]. destruct (negb _); [discriminate|]. destruct (atoi _); discriminate.
Qed.

Lemma scan_ho i : forall pods plan unp ho plan' unp' ho',
  scan_pods i pods plan unp ho = ScanOk plan' unp' ho' ->
  forall ph, In ph ho' -> In ph ho \/ (In (fst ph) pods /\ owner_hash (fst ph) (snd ph)).
Proof.
  induction pods as [|p pods IH]; intros plan unp ho plan' unp' ho' H ph Hin.
  - cbn in H. inversion H; subst. left; exact Hin.
  - cbn [scan_pods] in H. destruct (classify i p) as [| ch | b | h |] eqn:Hc; try discriminate.
    + destruct (IH _ _ _ _ _ _ H ph Hin) as [Hl|[Hp Ho]]; [left; exact Hl|right; split; [right; exact Hp|exact Ho]].
    + destruct (IH _ _ _ _ _ _ H ph Hin) as [Hl|[Hp Ho]]; [left; exact Hl|right; split; [right; exact Hp|exact Ho]].
    + destruct (dec_plan plan b) as [plan1|]; [|discriminate].
      destruct (IH _ _ _ _ _ _ H ph Hin) as [Hl|[Hp Ho]]; [|right; split; [right; exact Hp|exact Ho]].
      destruct (sempty (p_crh p)) eqn:E; [|left; exact Hl].
      destruct (p_owner p) as [| |h0] eqn:Eo; try (left; exact Hl).
      apply in_app_or in Hl. destruct Hl as [Hl|[<-|[]]]; [left; exact Hl|]. right. cbn. split; [left; reflexivity|split; assumption].
    + destruct (IH _ _ _ _ _ _ H ph Hin) as [Hl|[Hp Ho]]; [|right; split; [right; exact Hp|exact Ho]].
      apply in_app_or in Hl. destruct Hl as [Hl|[<-|[]]]; [left; exact Hl|]. right. cbn. split; [left; reflexivity|]. eapply classify_hashonly_hash; exact Hc.
Qed.

(* C12: a controller-revision-hash the pass writes onto a pod is the template hash of that pod's OWN ReplicaSet, and the pod
   carried no hash before -- hashes never travel from one pod (or ReplicaSet) to another *)
Theorem written_hash_is_the_owners i ws w h : patch_pod_batch_label i = Ok ws -> In w ws -> w_crh w = Some h ->
  exists p, In p (pods_used i) /\ p_name p = w_pod w /\ owner_hash p h.
Proof.
  intros H Hw Hh. assert (Hne : ws <> []) by (intros ->; destruct Hw).
  unfold patch_pod_batch_label in H. unfold pods_used.
  destruct (sempty (i_rid i) || (zlen (i_pods i) =? 0)); [inversion H; subst; destruct Hw|].
  destruct (pods_used_opt i) as [pu|]; [|discriminate].
  destruct ((i_cur i <? 0) || (zlen (i_batches i) <=? i_cur i)); [discriminate|].
  destruct (scan_pods i pu _ [] []) as [plan unp ho| |] eqn:Hs; try discriminate.
  destruct (assign _ _ _) as [ws1 lft] eqn:Ha. inversion H; subst ws; clear H.
  destruct (scan_spec _ _ _ _ _ _ _ _ Hs) as [_ [_ [new [Hu [Hf Hcl]]]]]. cbn [app] in Hu. subst unp.
  assert (Hunp : forall pc, In pc new -> In (fst pc) pu /\ (forall h0, snd pc = Some h0 -> owner_hash (fst pc) h0)).
  { intros pc Hpc. split.
    - assert (Hi : In (fst pc) (map fst new)) by (apply in_map; exact Hpc). rewrite Hf in Hi. apply filter_In in Hi. tauto.
    - intros h0 E. eapply classify_unpatched_hash. rewrite <- E. apply Hcl. exact Hpc. }
  destruct (assign_spec _ _ _ _ _ Ha) as [[m [Hm Hl]] _].
  apply in_app_or in Hw. destruct Hw as [Hw|Hw].
  - (* a batch write: its pod and hash come from the unpatched list *)
    assert (Hi : In (w_pod w, w_crh w) (map (fun w => (w_pod w, w_crh w)) ws1)) by (apply in_map_iff; exists w; auto).
    rewrite Hm in Hi. apply in_map_iff in Hi. destruct Hi as [pc [Hpc Hin]]. injection Hpc as Hn Hc.
    assert (Hin' : In pc new). { apply In_rev_local. eapply firstn_In_local. exact Hin. }
    destruct (Hunp pc Hin') as [Hp Ho]. exists (fst pc). split; [exact Hp|]. split; [exact Hn|]. apply Ho. congruence.
  - apply in_map_iff in Hw. destruct Hw as [ph [<- Hph]]. cbn in Hh. injection Hh as <-. cbn [w_pod].
    apply in_app_or in Hph. destruct Hph as [Hph|Hph].
    + destruct (scan_ho _ _ _ _ _ _ _ _ Hs ph Hph) as [[]|[Hp Ho]]. exists (fst ph). auto.
    + apply in_flat_map in Hph. destruct Hph as [pc [Hpc Hx]]. destruct (snd pc) as [h0|] eqn:E; [|destruct Hx].
      destruct Hx as [<-|[]]. cbn [fst snd].
      assert (Hin' : In pc new). { apply In_rev_local. subst lft. eapply skipn_In_local. exact Hpc. }
      destruct (Hunp pc Hin') as [Hp Ho]. exists (fst pc). split; [exact Hp|]. split; [reflexivity|]. apply Ho. exact E.
Qed.
