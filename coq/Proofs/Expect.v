(* Proofs about Model/Expect.v (C19: BatchReleases do not influence each other through the creation expectations). *)
From RV Require Import Base.Util Base.IntStr Model.Expect.

Lemma estep_other s o k : String.eqb k (ekey o) = false -> fst (estep s o) k = s k.
Proof. destruct o; cbn [estep fst ekey]; intros H; unfold eupd; try rewrite H; reflexivity. Qed.
Lemma estep_same s s' o k : ekey o = k -> s k = s' k -> fst (estep s o) k = fst (estep s' o) k /\ snd (estep s o) = snd (estep s' o).
Proof. intros <- H. destruct o; cbn [estep fst snd ekey] in *; unfold eupd; rewrite ?String.eqb_refl, ?H; auto. Qed.

(* what one key is told depends only on the calls made with that key: any interleaving with calls on other keys gives it the
   answers it gets alone *)
Theorem expectations_isolated mine : forall ops s s', s mine = s' mine ->
  eanswers mine s ops = eanswers mine s' (filter (fun o => String.eqb (ekey o) mine) ops).
Proof.
  induction ops as [|o ops IH]; intros s s' H; [reflexivity|].
  cbn [eanswers filter]. destruct (String.eqb (ekey o) mine) eqn:E.
  - apply String.eqb_eq in E. destruct (estep_same s s' o mine E H) as [H1 H2].
    cbn [eanswers]. destruct (estep s o) as [s1 a1], (estep s' o) as [s1' a1']. cbn [fst snd] in *. subst a1'.
    rewrite E, String.eqb_refl.
    destruct a1 as [b|]; [f_equal|]; apply IH; exact H1.
  - assert (Hk : String.eqb mine (ekey o) = false) by (rewrite String.eqb_sym; exact E).
    pose proof (estep_other s o mine Hk) as Ho. destruct (estep s o) as [s1 a1]. cbn [fst] in Ho.
    destruct a1 as [b|]; apply IH; congruence.
Qed.

(* the key separates BatchReleases of different namespaces even when their names are equal, as long as namespaces contain
   no '/' (Kubernetes names never do): two keys are equal only for the same namespace and name *)
Fixpoint no_slash (s : string) : bool :=
  match s with EmptyString => true | String c r => negb (Ascii.eqb c "/"%char) && no_slash r end.
Lemma controller_key_injective ns1 n1 ns2 n2 : no_slash ns1 = true -> no_slash ns2 = true ->
  controller_key ns1 n1 = controller_key ns2 n2 -> ns1 = ns2 /\ n1 = n2.
Proof.
  unfold controller_key. revert ns2. induction ns1 as [|c r IH]; intros ns2 H1 H2 H.
  - destruct ns2 as [|c2 r2]; cbn in H; [injection H as H; auto|].
    injection H as Hc Hr. subst c2. cbn in H2. discriminate.
  - destruct ns2 as [|c2 r2]; cbn in H.
    + injection H as Hc Hr. subst c. cbn in H1. discriminate.
    + injection H as Hc Hr. subst c2. cbn in H1, H2. apply andb_true_iff in H1, H2.
      destruct (IH r2 (proj2 H1) (proj2 H2) Hr) as [-> ->]. auto.
Qed.

(* generated names tell Rollouts of one namespace apart: different stable Services get different canary Services *)
Lemma list_of_append a b : list_ascii_of_string (a ++ b) = (list_ascii_of_string a ++ list_ascii_of_string b)%list.
Proof. induction a as [|c a IH]; cbn; [reflexivity|]. rewrite IH. reflexivity. Qed.
Lemma canary_service_name_injective a b : canary_service_name a = canary_service_name b -> a = b.
Proof.
  unfold canary_service_name. intros H. apply (f_equal list_ascii_of_string) in H. rewrite !list_of_append in H.
  apply app_inv_tail in H. rewrite <- (string_of_list_ascii_of_string a), <- (string_of_list_ascii_of_string b), H. reflexivity.
Qed.

(* the watch registry: a reconcile goes on to the Rollout's logic only when a watch for its workload type has been
   registered successfully before -- whatever other Rollouts (of that or other types) did in between, failures included *)
Definition wres_eqb (a b : wres) : bool := match a, b with WProceed, WProceed | WWatchedNow, WWatchedNow | WError, WError => true | _, _ => false end.
Fixpoint watched_after (watched : list string) (ops : list (string * bool)) : list string :=
  match ops with [] => watched | (g, ok) :: t => watched_after (snd (watch_step watched g ok)) t end.
Lemma watch_step_registry w g ok x : In x (snd (watch_step w g ok)) <-> In x w \/ (x = g /\ ok = true /\ existsb (String.eqb g) w = false).
Proof.
  unfold watch_step. destruct (existsb (String.eqb g) w) eqn:E; cbn [snd]; [intuition congruence|].
  destruct ok; cbn [snd In]; intuition congruence.
Qed.
Theorem registered_only_by_a_successful_watch : forall ops w0 x, In x (watched_after w0 ops) ->
  In x w0 \/ In (x, true) ops.
Proof.
  induction ops as [|[g ok] t IH]; intros w0 x H; [left; exact H|]. cbn [watched_after] in H.
  destruct (IH _ _ H) as [Hw|Ht]; [|right; right; exact Ht].
  apply watch_step_registry in Hw. destruct Hw as [Hw|[-> [-> _]]]; [left; exact Hw|right; left; reflexivity].
Qed.
(* and a failed registration leaves the registry as it was: the next Rollout of that type tries again *)
Theorem failed_watch_changes_nothing w g : existsb (String.eqb g) w = false -> watch_step w g false = (WError, w).
Proof. intros H. unfold watch_step. rewrite H. reflexivity. Qed.
