(* Proofs about Model/Expect.v (C19: BatchReleases do not influence each other through the creation expectations). *)
From RV Require Import Base.Util Base.IntStr Model.Expect.

Lemma estep_other s o k : String.eqb k (ekey o) = false -> fst (estep s o) k = s k.
Proof. destruct o; cbn [estep fst ekey]; intros H; unfold eupd; try rewrite H; reflexivity. Qed.
Lemma estep_same s s' o k : ekey o = k -> s k = s' k -> fst (estep s o) k = fst (estep s' o) k /\ snd (estep s o) = snd (estep s' o).
Proof. intros <- H. destruct o; cbn [estep fst snd ekey] in *; unfold eupd; rewrite ?String.eqb_refl, ?H; auto. Qed.

(* what one key is told depends only on the calls made with that key: any interleaving with calls on other keys gives it the
   answers it gets alone *)
Theorem expectations_isolated mine : forall ops s s', s mine = s' mine ->
  eanswers mine s ops = eanswers mine s' (filter (fun o => String.eqb (ekey o) mine) ops).
Proof.
  induction ops as [|o ops IH]; intros s s' H; [reflexivity|].
  cbn [eanswers filter]. destruct (String.eqb (ekey o) mine) eqn:E.
  - apply String.eqb_eq in E. destruct (estep_same s s' o mine E H) as [H1 H2].
    cbn [eanswers]. destruct (estep s o) as [s1 a1], (estep s' o) as [s1' a1']. cbn [fst snd] in *. subst a1'.
    rewrite E, String.eqb_refl.
    destruct a1 as [b|]; [f_equal|]; apply IH; exact H1.
  - assert (Hk : String.eqb mine (ekey o) = false) by (rewrite String.eqb_sym; exact E).
    pose proof (estep_other s o mine Hk) as Ho. destruct (estep s o) as [s1 a1]. cbn [fst] in Ho.
    destruct a1 as [b|]; apply IH; congruence.
Qed.

(* the key separates BatchReleases of different namespaces even when their names are equal, as long as namespaces contain
   no '/' (Kubernetes names never do): two keys are equal only for the same namespace and name *)
Fixpoint no_slash (s : string) : bool :=
  match s with EmptyString => true | String c r => negb (Ascii.eqb c "/"%char) && no_slash r end.
Lemma controller_key_injective ns1 n1 ns2 n2 : no_slash ns1 = true -> no_slash ns2 = true ->
  controller_key ns1 n1 = controller_key ns2 n2 -> ns1 = ns2 /\ n1 = n2.
Proof.
  unfold controller_key. revert ns2. induction ns1 as [|c r IH]; intros ns2 H1 H2 H.
  - destruct ns2 as [|c2 r2]; cbn in H; [injection H as H; auto|].
    injection H as Hc Hr. subst c2. cbn in H2. discriminate.
  - destruct ns2 as [|c2 r2]; cbn in H.
    + injection H as Hc Hr. subst c. cbn in H1. discriminate.
    + injection H as Hc Hr. subst c2. cbn in H1, H2. apply andb_true_iff in H1, H2.
      destruct (IH r2 (proj2 H1) (proj2 H2) Hr) as [-> ->]. auto.
Qed.
