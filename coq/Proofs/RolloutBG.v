(* Proofs about Model/RolloutBG.v: the blue-green reconcile never panics on well-formed inputs (C09) and enters traffic
   routing only behind a Ready BatchRelease (C02). *)
From RV Require Import Base.Util Base.IntStr Model.RolloutSM Model.RolloutBG Corr.RolloutSM Corr.RolloutBG Proofs.RolloutSM.

Lemma bg_upgrade_shape sp u w br : exists u' br' rq, bg_upgrade sp u w br = COut u' br' rq.
Proof. unfold bg_upgrade. destruct br as [b|]; [|eauto]. destruct (negb (br_spec_eqb _ _)); [eauto|].
  destruct (negb (br_consistent b)); [eauto|]. destruct (negb (br_state_ready b) || _); eauto. Qed.

Lemma bg_step_no_panic sp u w br cur : bg_step sp u w br cur <> CPanic.
Proof.
  unfold bg_step. destruct (su_state u); try discriminate.
  - destruct (bg_upgrade_shape sp (upd_sub u (su_idx u) (su_next u) StUpgrade (su_fin u) false) w br) as (a & b & c & ->). discriminate.
  - destruct (bg_upgrade_shape sp u w br) as (a & b & c & ->). discriminate.
  - destruct (sp_pause cur); [destruct (_ || _)|]; discriminate.
  - destruct (su_idx u <? nsteps sp); discriminate.
Qed.

Lemma run_bg_no_panic sp u w br : 1 <= su_idx u <= nsteps sp ->
  (su_next u = next_index (nsteps sp) (su_idx u) \/ su_next u <= 0 \/ 1 <= su_next u <= nsteps sp) -> run_bg sp u w br <> CPanic.
Proof.
  intros Hi Hn. unfold run_bg. destruct (sync_br u br) as [u1 br1] eqn:Es.
  pose proof (sync_fill_keeps u br w) as Hk. rewrite Es in Hk. cbn [fst] in Hk. cbn zeta in Hk. destruct Hk as (Ki & _ & Kn & _).
  set (u2 := fill_pth u1 w) in *.
  assert (Hj : do_jump sp u2 <> None) by (apply do_jump_some; rewrite ?Ki, ?Kn; auto).
  destruct (do_jump sp u2) as [[u'|]|]; [discriminate| |congruence].
  destruct (get_step_some sp (su_idx u2)) as [c Hc]; [rewrite Ki; exact Hi|]. rewrite Hc. apply bg_step_no_panic.
Qed.

Lemma finalise_bg_total sp u w br r wr : exists d u' br', finalise_bg sp u w br r wr = (d, u', br').
Proof. destruct (finalise_bg sp u w br r wr) as [[d u'] br']. eauto. Qed.

(* C09 for the blue-green strategy: same well-formedness as for canary, every integer nextStepIndex *)
Theorem reconcile_bg_no_panic sp st w br : rollout_wf sp st br -> reconcile_bg sp st w br <> RPanic.
Proof.
  intros Hwf. pose proof (reconcile_no_panic sp st w br Hwf) as Hcanary. destruct Hwf as [Hn Hprog Hterm Hbr]. unfold reconcile_bg.
  destruct (calc_status sp st w) as [|s] eqn:Hcalc; [exact Hcanary|].
  destruct (rp_phase st) eqn:Hph; try exact Hcanary.
  - (* Progressing *)
    destruct (Hprog eq_refl) as [r [a [b [Hp Hroll]]]].
    assert (Hcp : progressing sp st s w br <> PPanic).
    { intros E. apply Hcanary. unfold reconcile. rewrite Hcalc, Hph, E. reflexivity. }
    assert (Hok : progressing_bg sp st s w br <> PPanic).
    { unfold progressing_bg. rewrite Hp.
      destruct (negb (wl_exists w) || negb (wl_consistent w)) eqn:Hwe; [discriminate|].
      assert (Hcp' : match r with
                     | PrInRolling => in_rolling sp st s w br
                     | _ => progressing sp st s w br end <> PPanic).
      { destruct r; try exact Hcp. intros E. apply Hcp. unfold progressing. rewrite Hp, Hwe. exact E. }
      apply orb_false_iff in Hwe. destruct Hwe as [Hex _]. apply negb_false_iff in Hex.
      destruct r; try exact Hcp.
      - (* InRolling *)
        destruct (Hroll eq_refl) as [u [Hu Hidx]].
        destruct (calc_status_sub_any _ _ _ _ _ Hcalc Hu Hph Hex) as [u1 [Hs1 [Ki [Kn Kst]]]].
        assert (Hir : in_rolling sp st s w br <> PPanic) by exact Hcp'.
        unfold in_rolling_bg. rewrite Hu, Hs1.
        destruct (_ || rs_paused sp || _); [exact Hir|].
        destruct (negb (sempty (su_canary_rev u)) && _ && _); [discriminate|].
        destruct (_ || sstate_eqb (su_state u1) StCompleted); [exact Hir|].
        match goal with |- context [run_bg _ ?uu _ _] =>
          assert (Hr : run_bg sp uu w br <> CPanic) by
            (apply run_bg_no_panic; cbn; rewrite ?Ki; [exact Hidx|];
             destruct ((su_next u <=? 0) || (nsteps sp <? su_next u)) eqn:E;
             [ left; reflexivity
             | apply orb_false_iff in E; destruct E as [E1 E2]; apply Z.leb_gt in E1; apply Z.ltb_ge in E2; right; right; lia ]);
          destruct (run_bg sp uu w br); [congruence|discriminate]
        end.
      - destruct (do_finalising_bg sp s w br FrSuccess true) as [[[d s1] b'] an]. destruct d; discriminate.
      - destruct (do_finalising_bg sp s w br FrRollback false) as [[[d s1] b'] an]. destruct d; discriminate. }
    destruct (progressing_bg sp st s w br); [congruence|discriminate|discriminate].
  - (* Terminating *)
    destruct (rp_term st) as [[|]|]; try exact Hcanary.
    destruct (wl_exists w && negb (wl_consistent w)); [discriminate|].
    destruct (do_finalising_bg _ _ _ _ _ _) as [[[d s1] b'] an]. discriminate.
  - destruct (do_finalising_bg _ _ _ _ _ _) as [[[d s1] b'] an]. discriminate.
Qed.

(* C02 for blue-green: the upgrade reports "done" (state moves to traffic routing) only behind a BatchRelease that carries
   exactly this step's plan and partition, has observed it, and reports the batch Ready *)
Lemma bg_upgrade_gated sp u w br u' br' rq : bg_upgrade sp u w br = COut u' br' rq -> su_state u' <> su_state u -> su_state u' = StTraffic /\ br_ready_for sp u w br = true.
Proof.
  unfold bg_upgrade, br_ready_for. destruct br as [b|]; [|intros H; injection H as <- _ _; congruence].
  destruct (br_spec_eqb b _) eqn:E1; cbn [negb]; [|intros H; injection H as <- _ _; congruence].
  destruct (br_consistent b) eqn:E2; cbn [negb]; [|intros H; injection H as <- _ _; congruence].
  destruct (br_state_ready b) eqn:E3; cbn [negb orb]; [|intros H; injection H as <- _ _; congruence].
  destruct (br_batch b + 1 <? su_idx u) eqn:E4; [intros H; injection H as <- _ _; congruence|].
  intros H _. injection H as <- _ _. split; [reflexivity|]. apply Z.ltb_ge in E4. cbn [andb]. apply Z.leb_le. lia.
Qed.
