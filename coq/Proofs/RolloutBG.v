(* Proofs about Model/RolloutBG.v: the blue-green reconcile never panics on well-formed inputs (C09) and enters traffic
   routing only behind a Ready BatchRelease (C02). *)
From RV Require Import Base.Util Base.IntStr Model.RolloutSM Model.RolloutBG Corr.RolloutSM Corr.RolloutBG Proofs.RolloutSM.

Lemma bg_upgrade_shape sp u w br : exists u' br' rq, bg_upgrade sp u w br = COut u' br' rq.
Proof. unfold bg_upgrade. destruct br as [b|]; [|eauto]. destruct (negb (br_spec_eqb _ _)); [eauto|].
  destruct (negb (br_consistent b)); [eauto|]. destruct (negb (br_state_ready b) || _); eauto. Qed.

Lemma bg_step_no_panic sp u w br cur : bg_step sp u w br cur <> CPanic.
Proof.
  unfold bg_step. destruct (su_state u); try discriminate.
  - destruct (bg_upgrade_shape sp (upd_sub u (su_idx u) (su_next u) StUpgrade (su_fin u) false) w br) as (a & b & c & ->). discriminate.
  - destruct (bg_upgrade_shape sp u w br) as (a & b & c & ->). discriminate.
  - destruct (sp_pause cur); [destruct (_ || _)|]; discriminate.
  - destruct (su_idx u <? nsteps sp); discriminate.
Qed.

Lemma run_bg_no_panic sp u w br : 1 <= su_idx u <= nsteps sp ->
  (su_next u = next_index (nsteps sp) (su_idx u) \/ su_next u <= 0 \/ 1 <= su_next u <= nsteps sp) -> run_bg sp u w br <> CPanic.
Proof.
  intros Hi Hn. unfold run_bg. destruct (sync_br u br) as [u1 br1] eqn:Es.
  pose proof (sync_fill_keeps u br w) as Hk. rewrite Es in Hk. cbn [fst] in Hk. cbn zeta in Hk. destruct Hk as (Ki & _ & Kn & _).
  set (u2 := fill_pth u1 w) in *.
  assert (Hj : do_jump sp u2 <> None) by (apply do_jump_some; rewrite ?Ki, ?Kn; auto).
  destruct (do_jump sp u2) as [[u'|]|]; [discriminate| |congruence].
  destruct (get_step_some sp (su_idx u2)) as [c Hc]; [rewrite Ki; exact Hi|]. rewrite Hc. apply bg_step_no_panic.
Qed.

Lemma finalise_bg_total sp u w br r wr : exists d u' br', finalise_bg sp u w br r wr = (d, u', br').
Proof. destruct (finalise_bg sp u w br r wr) as [[d u'] br']. eauto. Qed.

(* C09 for the blue-green strategy: same well-formedness as for canary, every integer nextStepIndex *)
Theorem reconcile_bg_no_panic sp st w br : rollout_wf sp st br -> reconcile_bg sp st w br <> RPanic.
Proof.
  intros Hwf. pose proof (reconcile_no_panic sp st w br Hwf) as Hcanary. destruct Hwf as [Hn Hprog Hterm Hbr]. unfold reconcile_bg.
  destruct (calc_status sp st w) as [|s] eqn:Hcalc; [exact Hcanary|].
  destruct (rp_phase st) eqn:Hph; try exact Hcanary.
  - (* Progressing *)
    destruct (Hprog eq_refl) as [r [a [b [Hp Hroll]]]].
    assert (Hcp : progressing sp st s w br <> PPanic).
    { intros E. apply Hcanary. unfold reconcile. rewrite Hcalc, Hph, E. reflexivity. }
    assert (Hok : progressing_bg sp st s w br <> PPanic).
    { unfold progressing_bg. rewrite Hp.
      destruct (negb (wl_exists w) || negb (wl_consistent w)) eqn:Hwe; [discriminate|].
      assert (Hcp' : match r with
                     | PrInRolling => in_rolling sp st s w br
                     | _ => progressing sp st s w br end <> PPanic).
      { destruct r; try exact Hcp. intros E. apply Hcp. unfold progressing. rewrite Hp, Hwe. exact E. }
      apply orb_false_iff in Hwe. destruct Hwe as [Hex _]. apply negb_false_iff in Hex.
      destruct r; try exact Hcp.
      - (* InRolling *)
        destruct (Hroll eq_refl) as [u [Hu Hidx]].
        destruct (calc_status_sub_any _ _ _ _ _ Hcalc Hu Hph Hex) as [u1 [Hs1 [Ki [Kn Kst]]]].
        assert (Hir : in_rolling sp st s w br <> PPanic) by exact Hcp'.
        unfold in_rolling_bg. rewrite Hu, Hs1.
        destruct (_ || rs_paused sp || _); [exact Hir|].
        destruct (negb (sempty (su_canary_rev u)) && _ && _); [discriminate|].
        destruct (_ || sstate_eqb (su_state u1) StCompleted); [exact Hir|].
        match goal with |- context [run_bg _ ?uu _ _] =>
          assert (Hr : run_bg sp uu w br <> CPanic) by
            (apply run_bg_no_panic; cbn; rewrite ?Ki; [exact Hidx|];
             destruct ((su_next u <=? 0) || (nsteps sp <? su_next u)) eqn:E;
             [ left; reflexivity
             | apply orb_false_iff in E; destruct E as [E1 E2]; apply Z.leb_gt in E1; apply Z.ltb_ge in E2; right; right; lia ]);
          destruct (run_bg sp uu w br); [congruence|discriminate]
        end.
      - destruct (do_finalising_bg sp s w br FrSuccess true) as [[[d s1] b'] an]. destruct d; discriminate.
      - destruct (do_finalising_bg sp s w br FrRollback false) as [[[d s1] b'] an]. destruct d; discriminate. }
    destruct (progressing_bg sp st s w br); [congruence|discriminate|discriminate].
  - (* Terminating *)
    destruct (rp_term st) as [[|]|]; try exact Hcanary.
    destruct (wl_exists w && negb (wl_consistent w)); [discriminate|].
    destruct (do_finalising_bg _ _ _ _ _ _) as [[[d s1] b'] an]. discriminate.
  - destruct (wl_exists w && negb (wl_consistent w)); [discriminate|].
    destruct (do_finalising_bg _ _ _ _ _ _) as [[[d s1] b'] an]. discriminate.
Qed.

(* C02 for blue-green: the upgrade reports "done" (state moves to traffic routing) only behind a BatchRelease that carries
   exactly this step's plan and partition, has observed it, and reports the batch Ready *)
Lemma bg_upgrade_gated sp u w br u' br' rq : bg_upgrade sp u w br = COut u' br' rq -> su_state u' <> su_state u -> su_state u' = StTraffic /\ br_ready_for sp u w br = true.
Proof.
  unfold bg_upgrade, br_ready_for. destruct br as [b|]; [|intros H; injection H as <- _ _; congruence].
  destruct (br_spec_eqb b _) eqn:E1; cbn [negb]; [|intros H; injection H as <- _ _; congruence].
  destruct (br_consistent b) eqn:E2; cbn [negb]; [|intros H; injection H as <- _ _; congruence].
  destruct (br_state_ready b) eqn:E3; cbn [negb orb]; [|intros H; injection H as <- _ _; congruence].
  destruct (br_batch b + 1 <? su_idx u) eqn:E4; [intros H; injection H as <- _ _; congruence|].
  intros H _. injection H as <- _ _. split; [reflexivity|]. apply Z.ltb_ge in E4. cbn [andb]. apply Z.leb_le. lia.
Qed.

(* ---------- C02 for blue-green: the whole step cursor ---------- *)
Lemma br_ready_for_ext sp u1 u2 w br : su_idx u1 = su_idx u2 -> br_ready_for sp u1 w br = br_ready_for sp u2 w br.
Proof. intros H. unfold br_ready_for. rewrite H. reflexivity. Qed.

Lemma bg_upgrade_cursor sp u w br u' br' rq : bg_upgrade sp u w br = COut u' br' rq ->
  su_idx u' = su_idx u /\ (su_state u' = su_state u \/ (su_state u' = StTraffic /\ br_ready_for sp u w br = true)).
Proof.
  intros H. assert (Hi : su_idx u' = su_idx u).
  { revert H. unfold bg_upgrade. destruct br as [b|]; [|intros H; injection H as <- _ _; reflexivity].
    destruct (negb (br_spec_eqb b _)); [intros H; injection H as <- _ _; reflexivity|].
    destruct (negb (br_consistent b)); [intros H; injection H as <- _ _; reflexivity|].
    destruct (negb (br_state_ready b) || _); intros H; injection H as <- _ _; reflexivity. }
  split; [exact Hi|].
  destruct (sstate_eqb (su_state u') (su_state u)) eqn:E.
  - left. apply sstate_eqb_eq. exact E.
  - right. apply (bg_upgrade_gated sp u w br u' br' rq H). intros Heq. rewrite Heq, sstate_eqb_refl in E. discriminate.
Qed.

Lemma bg_step_gated sp u w br cur u' br' rq :
  get_step sp (su_idx u) = Some cur -> bg_step sp u w br cur = COut u' br' rq ->
  (su_idx u' = su_idx u /\ su_state u' = su_state u) \/ gated_sub_bg sp u w br u' = true.
Proof.
  intros Hcur H. unfold bg_step in H. destruct (su_state u) eqn:Hst.
  - (* Init: falls through into the upgrade *)
    set (u1 := upd_sub u (su_idx u) (su_next u) StUpgrade (su_fin u) false) in *.
    destruct (bg_upgrade_cursor sp u1 w br u' br' rq H) as [Hi [Hs|[Hs Hr]]]; right; unfold gated_sub_bg; rewrite Hst.
    + rewrite Hs. change (su_state u1) with StUpgrade. rewrite Hi. change (su_idx u1) with (su_idx u). apply Z.eqb_refl.
    + rewrite Hs, Hi. change (su_idx u1) with (su_idx u). rewrite Z.eqb_refl. cbn [andb].
      rewrite (br_ready_for_ext sp u u1 w br) by reflexivity. exact Hr.
  - destruct (bg_upgrade_cursor sp u w br u' br' rq H) as [Hi [Hs|[Hs Hr]]].
    + left. rewrite Hs, Hst. auto.
    + right. unfold gated_sub_bg. rewrite Hst, Hs, Hi, Z.eqb_refl. exact Hr.
  - injection H as <- _ _. right. unfold gated_sub_bg. rewrite Hst. cbn. apply Z.eqb_refl.
  - injection H as <- _ _. right. unfold gated_sub_bg. rewrite Hst. cbn. apply Z.eqb_refl.
  - destruct (sp_pause cur) as [d|] eqn:Hp; [|injection H as <- _ _; left; auto].
    destruct (su_elapsed u || (d <=? 0)) eqn:He; [|injection H as <- _ _; left; auto].
    injection H as <- _ _. right. unfold gated_sub_bg. rewrite Hst. cbn. rewrite Z.eqb_refl, Hcur, Hp, He. reflexivity.
  - destruct (su_idx u <? nsteps sp) eqn:E1; injection H as <- _ _; right; unfold gated_sub_bg; rewrite Hst; cbn.
    + rewrite Z.eqb_refl, E1. reflexivity.
    + rewrite Z.eqb_refl. cbn. apply Z.leb_le. apply Z.ltb_ge in E1. exact E1.
  - injection H as <- _ _. left. auto.
  - injection H as <- _ _. left. auto.
Qed.

Lemma gated_sub_bg_ext sp u1 u2 w br v : su_idx u1 = su_idx u2 -> su_state u1 = su_state u2 -> su_elapsed u1 = su_elapsed u2 ->
  gated_sub_bg sp u1 w br v = gated_sub_bg sp u2 w br v.
Proof. intros H1 H2 H3. unfold gated_sub_bg, br_ready_for. rewrite H1, H2, H3. reflexivity. Qed.

Theorem run_bg_gated sp u w br u' br' rq :
  run_bg sp u w br = COut u' br' rq ->
  (su_next u = next_index (nsteps sp) (su_idx u) \/ su_next u <= 0) ->
  (su_idx u' = su_idx u /\ su_state u' = su_state u) \/ gated_sub_bg sp u w (synced_br u br) u' = true.
Proof.
  intros H Hnext. unfold run_bg in H. destruct (sync_br u br) as [u1 brs] eqn:Hs.
  pose proof (sync_fill_keeps u br w) as Hk. cbn zeta in Hk. rewrite Hs in Hk. cbn [fst] in Hk.
  destruct Hk as [Hi [Hst [Hn [He _]]]].
  pose proof (sync_br_is_synced u br) as Hsy. rewrite Hs in Hsy. cbn [snd] in Hsy. subst brs.
  set (u2 := fill_pth u1 w) in *.
  unfold do_jump in H. destruct (get_step sp (su_idx u2)) as [cur|] eqn:Hcur; [|discriminate].
  assert (Hnj : negb (su_next u2 =? next_index (nsteps sp) (su_idx u2)) && (0 <? su_next u2) = false).
  { rewrite Hn, Hi. destruct Hnext as [Hx|Hx]; [rewrite Hx, Z.eqb_refl; reflexivity|].
    apply andb_false_iff. right. apply Z.ltb_ge. exact Hx. }
  rewrite Hnj in H.
  destruct (bg_step_gated sp u2 w (synced_br u br) cur u' br' rq Hcur H) as [[A B]|G].
  - left. rewrite A, B. auto.
  - right. rewrite <- (gated_sub_bg_ext sp u2 u w (synced_br u br) u' Hi Hst He). exact G.
Qed.

(* the canary branches the blue-green manager shares (paused, Completed) leave the cursor alone *)
Lemma in_rolling_stays sp st s w br po u :
  rp_sub st = Some u -> rp_sub s = Some (observed_sub w u) -> wl_canary w = su_canary_rev u ->
  (sempty (su_hash u) = true \/ su_hash u = rs_hash sp) ->
  (rs_paused sp = true \/ su_state (observed_sub w u) = StCompleted) ->
  in_rolling sp st s w br = POk po -> rp_sub (po_status po) = Some (observed_sub w u).
Proof.
  intros Hu Hsome Hrev Hhash Hwhy Hp. unfold in_rolling in Hp. rewrite Hu, Hsome in Hp.
  assert (Hrd : negb (String.eqb (wl_canary w) (su_canary_rev u)) = false) by (rewrite Hrev, String.eqb_refl; reflexivity).
  rewrite Hrd in Hp. rewrite !andb_false_r in Hp. cbn [andb] in Hp.
  destruct (rs_paused sp) eqn:Hpa.
  { injection Hp as <-. cbn. exact Hsome. }
  assert (Hhc : negb (sempty (su_hash u)) && negb (String.eqb (su_hash u) (rs_hash sp)) = false).
  { destruct Hhash as [He|He]; [rewrite He; reflexivity|rewrite He, String.eqb_refl; apply andb_false_r]. }
  rewrite Hhc in Hp. destruct Hwhy as [Hx|Hx]; [discriminate|]. rewrite Hx in Hp. cbn in Hp.
  injection Hp as <-. cbn. exact Hsome.
Qed.

(* C02 (blue-green): while rolling, with no jump pending, the plan unchanged and the same revision being released, one
   reconcile leaves the step cursor where it is or moves it along the blue-green gated path *)
Theorem bg_steps_are_gated sp st w br m u x y :
  reconcile_bg sp st w br = ROut m ->
  rp_phase st = RpProgressing -> rs_deleting sp = false ->
  rp_prog st = Some (PrInRolling, x, y) -> rp_sub st = Some u ->
  (su_next u = next_index (nsteps sp) (su_idx u) \/ su_next u <= 0) ->
  (sempty (su_hash u) = true \/ su_hash u = rs_hash sp) ->
  wl_canary w = su_canary_rev u ->
  forall s' v, o_status m = Some s' -> rp_sub s' = Some v ->
  (su_idx v = su_idx u /\ su_state v = su_state u) \/
  gated_sub_bg sp (observed_sub w u) w (synced_br (observed_sub w u) br) v = true.
Proof.
  intros H Hph Hdel Hprog Hu Hnext Hhash Hrev s' v Hs' Hv.
  pose proof (observed_sub_keeps w u) as Hk. cbn zeta in Hk. destruct Hk as [Ki [Kst [Kn [Ke [Kh [Kc Kf]]]]]].
  unfold reconcile_bg in H. destruct (calc_status sp st w) as [|s] eqn:Hcalc.
  { unfold reconcile in H. rewrite Hcalc in H. injection H as <-. cbn in Hs'. discriminate. }
  rewrite Hph in H.
  destruct (progressing_bg sp st s w br) as [| |po] eqn:Hp; try discriminate.
  { injection H as <-. cbn in Hs'. discriminate. }
  injection H as <-. cbn in Hs'. injection Hs' as <-.
  unfold progressing_bg in Hp. rewrite Hprog in Hp.
  destruct (calc_status_sub _ _ _ _ _ Hcalc Hu Hdel Hph) as [Hnone|[Hsome Hsp]].
  - destruct (negb (wl_exists w) || negb (wl_consistent w)).
    + injection Hp as <-. cbn in Hv. congruence.
    + unfold in_rolling_bg in Hp. rewrite Hu, Hnone in Hp. discriminate.
  - destruct (negb (wl_exists w) || negb (wl_consistent w)).
    { injection Hp as <-. cbn in Hv. rewrite Hsome in Hv. injection Hv as <-. left. auto. }
    unfold in_rolling_bg in Hp. rewrite Hu, Hsome in Hp.
    assert (Hrd : negb (String.eqb (wl_canary w) (su_canary_rev u)) = false) by (rewrite Hrev, String.eqb_refl; reflexivity).
    rewrite Hrd in Hp. rewrite !andb_false_r in Hp. cbn [andb orb] in Hp.
    destruct (rs_paused sp) eqn:Hpa.
    { cbn [orb] in Hp. rewrite (in_rolling_stays sp st s w br po u Hu Hsome Hrev Hhash (or_introl Hpa) Hp) in Hv.
      injection Hv as <-. left. auto. }
    cbn [orb] in Hp.
    assert (Hhc : negb (sempty (su_hash u)) && negb (String.eqb (su_hash u) (rs_hash sp)) = false).
    { destruct Hhash as [He|He]; [rewrite He; reflexivity|rewrite He, String.eqb_refl; apply andb_false_r]. }
    rewrite Hhc in Hp. cbn [orb] in Hp.
    destruct (sstate_eqb (su_state (observed_sub w u)) StCompleted) eqn:Hc.
    { apply sstate_eqb_eq in Hc.
      rewrite (in_rolling_stays sp st s w br po u Hu Hsome Hrev Hhash (or_intror Hc) Hp) in Hv. injection Hv as <-. left. auto. }
    set (nx := if (su_next u <=? 0) || (nsteps sp <? su_next u) then next_index (nsteps sp) (su_idx u) else su_next u) in *.
    set (u2 := upd_sub (observed_sub w u) (su_idx (observed_sub w u)) nx (su_state (observed_sub w u)) (su_fin (observed_sub w u)) (su_elapsed (observed_sub w u))) in *.
    destruct (run_bg sp u2 w br) as [|u' br' rq] eqn:Hrun; [discriminate|].
    injection Hp as <-. cbn in Hv. injection Hv as <-.
    assert (Hnx : su_next u2 = next_index (nsteps sp) (su_idx u2) \/ su_next u2 <= 0).
    { left. unfold u2. cbn. rewrite Ki. unfold nx. destruct Hnext as [Hx|Hx].
      - rewrite Hx. match goal with |- (if ?c then _ else _) = _ => destruct c; reflexivity end.
      - replace (su_next u <=? 0) with true by (symmetry; apply Z.leb_le; exact Hx). reflexivity. }
    destruct (run_bg_gated _ _ _ _ _ _ _ Hrun Hnx) as [[A B]|G].
    + left. unfold u2 in A, B. cbn in A, B. rewrite A, B, Ki, Kst. auto.
    + right. rewrite (gated_sub_bg_ext sp (observed_sub w u) u2 w _ u') by (unfold u2; cbn; auto).
      rewrite (synced_br_ext (observed_sub w u) u2 br) by (unfold u2; cbn; auto). exact G.
Qed.

(* in particular: a pause without a duration is never left by a reconcile, on any step -- the last one included *)
Corollary bg_manual_pause_waits sp st w br m u x y cur :
  reconcile_bg sp st w br = ROut m ->
  rp_phase st = RpProgressing -> rs_deleting sp = false ->
  rp_prog st = Some (PrInRolling, x, y) -> rp_sub st = Some u ->
  (su_next u = next_index (nsteps sp) (su_idx u) \/ su_next u <= 0) ->
  (sempty (su_hash u) = true \/ su_hash u = rs_hash sp) ->
  wl_canary w = su_canary_rev u ->
  su_state u = StPaused -> get_step sp (su_idx u) = Some cur -> sp_pause cur = None ->
  forall s' v, o_status m = Some s' -> rp_sub s' = Some v -> su_idx v = su_idx u /\ su_state v = StPaused.
Proof.
  intros H Hph Hdel Hprog Hu Hnext Hhash Hrev Hst Hcur Hp s' v Hs' Hv.
  destruct (bg_steps_are_gated sp st w br m u x y H Hph Hdel Hprog Hu Hnext Hhash Hrev s' v Hs' Hv) as [[A B]|G].
  - rewrite <- Hst. auto.
  - exfalso. pose proof (observed_sub_keeps w u) as Hk. cbn zeta in Hk. destruct Hk as [Ki [Kst _]].
    unfold gated_sub_bg in G. rewrite Kst, Hst, Ki, Hcur, Hp in G. destruct (su_state v); try discriminate.
    rewrite andb_false_r in G. discriminate.
Qed.

(* ---------- C07 for blue-green: a quiet reconcile is waiting for somebody else ---------- *)
Lemma bg_upgrade_quiet sp u w br u' br' : bg_upgrade sp u w br = COut u' br' false -> br' = br -> su_state u' = su_state u ->
  su_state u = StTraffic \/ br_waiting sp u w br = true.
Proof.
  intros H Hbr Hs. unfold bg_upgrade in H. unfold br_waiting. destruct br as [b|].
  - destruct (br_spec_eqb b _) eqn:E1; cbn [negb] in H.
    + destruct (br_consistent b) eqn:E2; cbn [negb] in H; [|right; rewrite andb_true_l; reflexivity].
      destruct (negb (br_state_ready b) || (br_batch b + 1 <? su_idx u)) eqn:E3.
      { right. rewrite andb_true_l. cbn [negb orb]. exact E3. }
      injection H as <- _. cbn in Hs. left. symmetry. exact Hs.
    + injection H as _ <-. injection Hbr as Hb. rewrite Hb, br_spec_eqb_refl in E1. discriminate.
  - injection H as _ <-. discriminate.
Qed.

Lemma bg_step_quiet sp u w br cur u' br' :
  get_step sp (su_idx u) = Some cur -> bg_step sp u w br cur = COut u' br' false ->
  br' = br -> su_idx u' = su_idx u -> su_state u' = su_state u ->
  su_state u = StCompleted \/ waits_rolling_bg sp u w br = true.
Proof.
  intros Hcur H Hbr Hi Hs. unfold bg_step in H. unfold waits_rolling_bg. destruct (su_state u) eqn:Hst.
  - (* Init falls into the upgrade: the state is Upgrade or TrafficRouting afterwards *)
    exfalso. set (u1 := upd_sub u (su_idx u) (su_next u) StUpgrade (su_fin u) false) in *.
    destruct (bg_upgrade_cursor sp u1 w br u' br' false H) as [_ [E|[E _]]]; rewrite E in Hs; discriminate.
  - right. destruct (bg_upgrade_quiet sp u w br u' br' H Hbr) as [E|E]; [rewrite Hs, Hst; reflexivity|congruence|exact E].
  - discriminate.
  - injection H as <- _. cbn in Hs. discriminate.
  - right. unfold manual_pause. rewrite Hcur. cbn [andb negb].
    destruct (sp_pause cur) as [d|]; [|reflexivity].
    destruct (su_elapsed u || (d <=? 0)); [injection H as <- _; cbn in Hs; discriminate|discriminate].
  - destruct (su_idx u <? nsteps sp); injection H as <- _; cbn in Hs; discriminate.
  - left. reflexivity.
  - right. reflexivity.
Qed.

Lemma waits_rolling_bg_ext sp u1 u2 w br : su_idx u1 = su_idx u2 -> su_state u1 = su_state u2 ->
  waits_rolling_bg sp u1 w br = waits_rolling_bg sp u2 w br.
Proof. intros H1 H2. unfold waits_rolling_bg, br_waiting, manual_pause. rewrite H1, H2. reflexivity. Qed.

Lemma run_bg_quiet sp u w br u' br' :
  run_bg sp u w br = COut u' br' false ->
  (su_next u = next_index (nsteps sp) (su_idx u) \/ su_next u <= 0) ->
  synced_br u br = br -> br' = br -> su_idx u' = su_idx u -> su_state u' = su_state u ->
  su_state u = StCompleted \/ waits_rolling_bg sp u w br = true.
Proof.
  intros H Hnext Hal Hbr Hi' Hs'. unfold run_bg in H. destruct (sync_br u br) as [u1 brs] eqn:Hs.
  pose proof (sync_fill_keeps u br w) as Hk. cbn zeta in Hk. rewrite Hs in Hk. cbn [fst] in Hk.
  destruct Hk as [Hi [Hst [Hn [He _]]]].
  pose proof (sync_br_is_synced u br) as Hsy. rewrite Hs in Hsy. cbn [snd] in Hsy. rewrite Hal in Hsy. subst brs.
  set (u2 := fill_pth u1 w) in *.
  unfold do_jump in H. destruct (get_step sp (su_idx u2)) as [cur|] eqn:Hcur; [|discriminate].
  assert (Hnj : negb (su_next u2 =? next_index (nsteps sp) (su_idx u2)) && (0 <? su_next u2) = false).
  { rewrite Hn, Hi. destruct Hnext as [Hx|Hx]; [rewrite Hx, Z.eqb_refl; reflexivity|].
    apply andb_false_iff. right. apply Z.ltb_ge. exact Hx. }
  rewrite Hnj in H.
  destruct (bg_step_quiet sp u2 w br cur u' br' Hcur H Hbr) as [C|W].
  - rewrite Hi', Hi. reflexivity.
  - rewrite Hs', Hst. reflexivity.
  - left. rewrite <- Hst. exact C.
  - right. rewrite <- (waits_rolling_bg_ext sp u2 u w br Hi Hst). exact W.
Qed.

Theorem bg_quiet_rolling_is_waiting sp st w br m u x y :
  reconcile_bg sp st w br = ROut m ->
  rp_phase st = RpProgressing -> rs_deleting sp = false ->
  rp_prog st = Some (PrInRolling, x, y) -> rp_sub st = Some u ->
  (su_next u = next_index (nsteps sp) (su_idx u) \/ su_next u <= 0) ->
  (sempty (su_hash u) = true \/ su_hash u = rs_hash sp) ->
  wl_canary w = su_canary_rev u ->
  synced_br (observed_sub w u) br = br ->
  o_requeue m = false -> o_br m = br ->
  (forall s', o_status m = Some s' -> rp_prog s' = rp_prog st /\ exists v, rp_sub s' = Some v /\ su_idx v = su_idx u /\ su_state v = su_state u) ->
  o_status m <> None ->
  wl_exists w = false \/ wl_consistent w = false \/
  waits_rolling_bg sp (observed_sub w u) w br = true.
Proof.
  intros H Hph Hdel Hprog Hu Hnext Hhash Hrev Hal Hrq Hbr Hq Hsome'.
  pose proof (observed_sub_keeps w u) as Hk. cbn zeta in Hk. destruct Hk as [Ki [Kst [Kn [Ke [Kh [Kc Kf]]]]]].
  unfold reconcile_bg in H. destruct (calc_status sp st w) as [|s] eqn:Hcalc.
  { unfold reconcile in H. rewrite Hcalc in H. injection H as <-. cbn in Hsome'. congruence. }
  rewrite Hph in H.
  destruct (progressing_bg sp st s w br) as [| |po] eqn:Hp; try discriminate.
  { injection H as <-. cbn in Hsome'. congruence. }
  injection H as <-. cbn in Hrq, Hbr, Hq. clear Hsome'.
  destruct (Hq _ eq_refl) as [Hqp [v [Hv [Hvi Hvs]]]]. clear Hq.
  destruct (wl_exists w) eqn:Hex; [|left; reflexivity].
  destruct (wl_consistent w) eqn:Hco; [|right; left; reflexivity].
  right. right.
  unfold progressing_bg in Hp. rewrite Hprog, Hex, Hco in Hp. cbn [negb orb] in Hp.
  destruct (calc_status_sub _ _ _ _ _ Hcalc Hu Hdel Hph) as [Hnone|[Hsome Hsp]].
  - unfold in_rolling_bg in Hp. rewrite Hu, Hnone in Hp. discriminate.
  - unfold in_rolling_bg in Hp. rewrite Hu, Hsome in Hp.
    assert (Hrd : negb (String.eqb (wl_canary w) (su_canary_rev u)) = false) by (rewrite Hrev, String.eqb_refl; reflexivity).
    rewrite Hrd in Hp. rewrite !andb_false_r in Hp. cbn [andb orb] in Hp.
    destruct (rs_paused sp) eqn:Hpa.
    { cbn [orb] in Hp. exfalso. unfold in_rolling in Hp. rewrite Hu, Hsome, Hrd, Hpa in Hp. rewrite !andb_false_r in Hp. cbn [andb] in Hp.
      injection Hp as <-. cbn in Hqp. rewrite Hprog in Hqp. discriminate. }
    cbn [orb] in Hp.
    assert (Hhc : negb (sempty (su_hash u)) && negb (String.eqb (su_hash u) (rs_hash sp)) = false).
    { destruct Hhash as [He|He]; [rewrite He; reflexivity|rewrite He, String.eqb_refl; apply andb_false_r]. }
    rewrite Hhc in Hp. cbn [orb] in Hp.
    destruct (sstate_eqb (su_state (observed_sub w u)) StCompleted) eqn:Hc.
    { exfalso. unfold in_rolling in Hp. rewrite Hu, Hsome, Hrd, Hpa, Hhc, Hc in Hp. rewrite !andb_false_r in Hp. cbn [andb] in Hp.
      injection Hp as <-. cbn in Hqp. rewrite Hprog in Hqp. discriminate. }
    set (nx := if (su_next u <=? 0) || (nsteps sp <? su_next u) then next_index (nsteps sp) (su_idx u) else su_next u) in *.
    set (u2 := upd_sub (observed_sub w u) (su_idx (observed_sub w u)) nx (su_state (observed_sub w u)) (su_fin (observed_sub w u)) (su_elapsed (observed_sub w u))) in *.
    destruct (run_bg sp u2 w br) as [|u' br' rq] eqn:Hrun; [discriminate|].
    injection Hp as <-. cbn in Hrq, Hbr, Hv. subst rq. injection Hv as <-.
    assert (Hnx : su_next u2 = next_index (nsteps sp) (su_idx u2) \/ su_next u2 <= 0).
    { left. unfold u2. cbn. rewrite Ki. unfold nx. destruct Hnext as [Hx|Hx].
      - rewrite Hx. match goal with |- (if ?c then _ else _) = _ => destruct c; reflexivity end.
      - replace (su_next u <=? 0) with true by (symmetry; apply Z.leb_le; exact Hx). reflexivity. }
    assert (Hal2 : synced_br u2 br = br) by (rewrite <- (synced_br_ext (observed_sub w u) u2 br) by (unfold u2; cbn; auto); exact Hal).
    destruct (run_bg_quiet sp u2 w br u' br' Hrun Hnx Hal2 Hbr) as [C|W].
    + unfold u2. cbn. rewrite Hvi, Ki. reflexivity.
    + unfold u2. cbn. rewrite Hvs, Kst. reflexivity.
    + unfold u2 in C. cbn in C. rewrite C in Hc. cbn in Hc. discriminate.
    + rewrite (waits_rolling_bg_ext sp (observed_sub w u) u2 w br) by (unfold u2; cbn; auto). exact W.
Qed.

(* ---------- C10: a blue-green release refuses supersession ---------- *)
Theorem bg_refuses_supersession sp st w br m u x y :
  reconcile_bg sp st w br = ROut m ->
  rp_phase st = RpProgressing -> rs_deleting sp = false ->
  rp_prog st = Some (PrInRolling, x, y) -> rp_sub st = Some u ->
  wl_exists w = true -> wl_consistent w = true -> rs_paused sp = false ->
  sempty (su_canary_rev u) = false -> wl_canary w <> su_canary_rev u -> wl_in_rollback w = false ->
  o_br m = br /\ exists s', o_status m = Some s' /\ rp_sub s' = Some u /\ rp_prog s' = rp_prog st.
Proof.
  intros H Hph Hdel Hprog Hu Hex Hco Hpa Hne Hrev Hrb.
  unfold reconcile_bg in H. destruct (calc_status sp st w) as [|s] eqn:Hcalc.
  { exfalso. apply (calc_not_retry sp st w Hco). exact Hcalc. }
  rewrite Hph in H.
  destruct (calc_status_sub _ _ _ _ _ Hcalc Hu Hdel Hph) as [Hnone|[Hsome Hsp]].
  { exfalso. unfold calc_status in Hcalc. rewrite Hdel, Hph, Hex, Hco in Hcalc. cbn [rphase_eqb negb andb rp_phase] in Hcalc.
    rewrite !andb_true_r in Hcalc. injection Hcalc as <-.
    destruct (rs_disabled sp); cbn in Hnone; rewrite Hu in Hnone;
    destruct (negb (sempty (su_canary_rev u)) && (su_canary_rev u =? wl_canary w)%string); cbn in Hnone; congruence. }
  assert (Hobs : observed_sub w u = u).
  { unfold observed_sub. replace (String.eqb (su_canary_rev u) (wl_canary w)) with false; [rewrite !andb_false_r; reflexivity|].
    symmetry. apply String.eqb_neq. congruence. }
  rewrite Hobs in Hsome.
  unfold progressing_bg in H. rewrite Hprog, Hex, Hco in H. cbn [negb orb] in H.
  unfold in_rolling_bg in H. rewrite Hu, Hsome, Hrb, Hpa, Hne in H. cbn [andb orb negb] in H.
  replace (negb (String.eqb (wl_canary w) (su_canary_rev u))) with true in H by (symmetry; apply negb_true_iff, String.eqb_neq; exact Hrev).
  cbn in H. injection H as <-. cbn. split; [reflexivity|]. exists s. auto.
Qed.

(* C03 (blue-green): a reconcile brings a step from Init / Upgrade to its traffic-routing state only when the BatchRelease
   reports this step's batch Ready for exactly this step's plan: the step's traffic is written only behind ready pods *)
Theorem bg_traffic_only_behind_ready_pods sp st w br m u x y :
  reconcile_bg sp st w br = ROut m ->
  rp_phase st = RpProgressing -> rs_deleting sp = false ->
  rp_prog st = Some (PrInRolling, x, y) -> rp_sub st = Some u ->
  (su_next u = next_index (nsteps sp) (su_idx u) \/ su_next u <= 0) ->
  (sempty (su_hash u) = true \/ su_hash u = rs_hash sp) ->
  wl_canary w = su_canary_rev u ->
  forall s' v, o_status m = Some s' -> rp_sub s' = Some v ->
  (su_state u = StInit \/ su_state u = StUpgrade) -> su_state v = StTraffic ->
  br_ready_for sp (observed_sub w u) w (synced_br (observed_sub w u) br) = true.
Proof.
  intros H Hph Hdel Hprog Hu Hnext Hhash Hrev s' v Hs' Hv Hst Hv'.
  pose proof (observed_sub_keeps w u) as Hk. cbn zeta in Hk. destruct Hk as [Ki [Kst _]].
  destruct (bg_steps_are_gated sp st w br m u x y H Hph Hdel Hprog Hu Hnext Hhash Hrev s' v Hs' Hv) as [[_ Hs]|Hg].
  - rewrite Hv' in Hs. destruct Hst as [Hst|Hst]; rewrite Hst in Hs; discriminate.
  - unfold gated_sub_bg in Hg. rewrite Kst, Hv' in Hg.
    destruct Hst as [Hst|Hst]; rewrite Hst in Hg; apply andb_true_iff in Hg; exact (proj2 Hg).
Qed.
