(* C07: the two controllers never wait for each other. *)
From RV Require Import Base.Util Base.IntStr Model.Loop.
From RV Require Model.RolloutSM Model.BRExec Corr.RolloutSM Corr.BRExec Proofs.BRExec.
From Coq Require Import ZifyBool.

Module R := RV.Model.RolloutSM.
Module B := RV.Model.BRExec.

(* a quiet BatchRelease reconcile has recorded the generation it saw *)
Lemma br_quiet_observed sp st w r :
  B.reconcile sp st w = Some r -> B.r_finalizer r = true -> B.status_eqb st (B.r_status r) = true ->
  B.bs_obs_gen st = B.sp_generation sp.
Proof.
  intros H Hf Hs. apply Proofs.BRExec.status_eqb_eq in Hs. unfold B.reconcile in H.
  destruct (B.sp_deleting sp && _ && _). { injection H as <-. discriminate. }
  destruct (B.sync_status sp st w) as [s2 stop].
  destruct (negb (B.status_eqb st s2)); [injection H as <-; rewrite Hs; reflexivity|].
  destruct stop; [injection H as <-; rewrite Hs; reflexivity|].
  destruct (B.execute sp st s2 w); [discriminate|]. injection H as <-. rewrite Hs. reflexivity.
Qed.

(* while Progressing, a sync phase that neither stops nor changes the status has seen the current plan hash *)
Lemma br_quiet_hash sp st w s2 : B.sync_status sp st w = (s2, false) -> B.status_eqb st s2 = true ->
  B.bs_phase st = B.PhProgressing -> B.sp_deleting sp = false -> B.sp_partition sp <> None ->
  B.bs_hash st = B.sp_hash sp.
Proof.
  intros H Hs Hp Hd Hpart. apply Proofs.BRExec.status_eqb_eq in Hs. subst s2.
  destruct (String.eqb (B.bs_hash st) (B.sp_hash sp)) eqn:E; [apply String.eqb_eq; exact E|]. exfalso.
  unfold B.sync_status in H. rewrite Hp, Hd in H. cbn [B.brphase_eqb orb] in H.
  destruct (B.sync_workload sp st w) as [ev hi].
  destruct (B.sp_partition sp) as [p|] eqn:Epart; [|congruence].
  unfold B.is_progressing in H. rewrite Hp, E in H. cbn [B.brphase_eqb negb andb] in H.
  (* signalRecalculate records the current hash: the status would have changed *)
  injection H as H. apply (f_equal B.bs_hash) in H. cbn in H.
  destruct (sempty (B.sp_hash sp)); rewrite <- H, String.eqb_refl in E; discriminate.
Qed.

(* C07, no circular wait: whenever the BatchRelease controller's reconcile is quiet while the release is Progressing and its
   sync phase did not stop for the workload (so, by br_quiet_is_waiting, it holds a Ready batch at batchPartition and
   waits for the Rollout), the Rollout controller is NOT waiting for the BatchRelease: its upgrade gate is open, for
   whatever step it is on.  Together with quiet_rolling_is_waiting (a quiet Rollout in StepUpgrade waits for exactly that
   gate) the two controllers never wait for each other. *)
Theorem no_mutual_wait rsp u wl bsp bst cs r rid pol anno :
  B.reconcile bsp bst cs = Some r -> B.r_finalizer r = true -> B.r_requeue r = B.RqNone -> B.r_err r = false ->
  B.status_eqb bst (B.r_status r) = true ->
  B.bs_phase bst = B.PhProgressing -> B.sp_deleting bsp = false ->
  snd (B.sync_status bsp bst cs) = false ->
  Corr.RolloutSM.br_waiting rsp u wl (Some (br_view bsp bst rid pol anno)) = false.
Proof.
  intros H Hf Hrq He Hs Hp Hd Hstop.
  pose proof (Proofs.BRExec.br_quiet_is_waiting bsp bst cs r H Hf Hrq He Hs) as Hw.
  unfold Corr.BRExec.waits_br in Hw. rewrite Hstop in Hw. cbn [orb] in Hw.
  apply andb_true_iff in Hw. destruct Hw as [Hw Hpart]. apply andb_true_iff in Hw. destruct Hw as [_ Hready].
  pose proof (br_quiet_observed bsp bst cs r H Hf Hs) as Hgen.
  unfold B.is_partitioned in Hpart. destruct (B.sp_partition bsp) as [p|] eqn:Epart; [|discriminate].
  assert (Hhash : B.bs_hash bst = B.sp_hash bsp).
  { unfold B.reconcile in H. rewrite Hd in H. cbn [andb] in H.
    destruct (B.sync_status bsp bst cs) as [s2 stop] eqn:Hsync. cbn [snd] in Hstop. subst stop.
    destruct (negb (B.status_eqb bst s2)) eqn:En. { injection H as <-. cbn in Hrq. discriminate. }
    apply negb_false_iff in En.
    apply (br_quiet_hash bsp bst cs s2 Hsync En Hp Hd). rewrite Epart. discriminate. }
  unfold Corr.RolloutSM.br_waiting.
  destruct (R.br_spec_eqb _ _) eqn:Espec; [|reflexivity]. cbn [andb].
  unfold br_view. cbn [R.br_consistent R.br_state_ready R.br_batch].
  rewrite Hgen, Z.eqb_refl, Hhash, String.eqb_refl, Hready. cbn [andb negb orb].
  (* the plan the Rollout wants for this step is the one in place: batchPartition = step - 1 <= current batch *)
  unfold R.br_spec_eqb in Espec.
  repeat (apply andb_true_iff in Espec; destruct Espec as [Espec ?]).
  match goal with Hx : opt_eqb Z.eqb (R.br_partition _) _ = true |- _ =>
    unfold br_view in Hx; cbn [R.br_partition R.desired_br] in Hx; rewrite Epart in Hx; cbn [opt_eqb] in Hx;
    apply Z.eqb_eq in Hx; apply Z.leb_le in Hpart; apply Z.ltb_ge; lia end.
Qed.
