(* C17 — Partition-style Deployment scaling respects partition, surge and availability.  Statements only.
   One rolloutRolling sync of the advanced deployment controller, for every (replicas, partition int/percent,
   maxSurge, maxUnavailable, new and old ReplicaSet sizes and availability). *)
From RV Require Import Base.Util Base.IntStr Model.BatchArith Model.DeployCtl Proofs.DeployCtl.

(* the new ReplicaSet is never grown beyond the number of pods the current partition allows (while old pods exist;
   with a single active ReplicaSet the controller aligns it with spec.replicas by design) *)
Theorem C17_new_within_partition : forall d, wf_state d = true -> p_new_within_partition d (sync d) = true.
Proof. exact new_within_partition. Qed.
Print Assumptions C17_new_within_partition.

(* the new ReplicaSet is never scaled up so that the total exceeds replicas + maxSurge *)
Theorem C17_total_within_surge : forall d, wf_state d = true -> p_total_within_surge d (sync d) = true.
Proof. exact total_within_surge. Qed.
Print Assumptions C17_total_within_surge.

(* arithmetic core: NewRSNewReplicas stays within max(current, partition limit) and within the surge budget *)
Theorem C17_new_replicas_bounds : forall d, 0 < sumspec (d_olds d) ->
  let x := new_rs_new_replicas d in
  x <= Z.max (r_spec (d_new d)) (limit d) /\ (r_spec (d_new d) < x -> x + sumspec (d_olds d) <= d_n d + max_surge d).
Proof. exact new_replicas_bounds. Qed.
Print Assumptions C17_new_replicas_bounds.

(* the old ReplicaSets are never shrunk below what the partition reserves for them: after the sync they hold at least
   min(what they held, replicas - max(partition limit, new ReplicaSet size)) pods -- including the runs in which Go's slice
   aliasing makes the scale-down loop walk a slice that starts with the NEW ReplicaSet (it is then the new one that shrinks) *)
Theorem C17_old_not_below_reserve : forall d, wf_state d = true -> p_old_not_below_reserve d (sync d) = true.
Proof. exact old_not_below_reserve. Qed.
Print Assumptions C17_old_not_below_reserve.

(* available pods are never scaled down below replicas - maxUnavailable: the pods counted as available and kept by the
   sync number at least min(replicas - maxUnavailable, what was available before).  maxUnavailable is non-negative (API
   validation) *)
Theorem C17_availability_budget : forall d, wf_state d = true -> 0 <= max_unavail d -> p_availability_budget d (sync d) = true.
Proof. exact availability_budget. Qed.
Print Assumptions C17_availability_budget.
