(* C08 — No unsupervised release: admission pauses every relevant change.  Statements only.
   `handle` is the model of WorkloadHandler.Handle / UnifiedWorkloadHandler.Handle; a request (winput) is any kind, any
   (old, new) pair, any list of Rollouts and ReplicaSets in the namespace, any webhook selection.  The predicates are
   defined in Corr/Webhook.v without reference to the handlers and are evaluated on the real responses as well. *)
From RV Require Import Base.Util Base.IntStr Model.Webhook Corr.Webhook Proofs.Webhook.

(* a release change of a running, selected workload referenced by an active Rollout (single revision if the Rollout routes
   traffic) is admitted held back -- paused / partition 100% / partition MaxInt16 -- and marked in-progress for that Rollout *)
Theorem C08_release_is_held : forall i, release_is_held i (handle i) = true.
Proof. exact release_held. Qed.
Print Assumptions C08_release_is_held.

(* unselected requests, updates that are not a release change, and workloads without a matching active Rollout are
   admitted unchanged *)
Theorem C08_unchanged_otherwise : forall i, unchanged_otherwise i (handle i) = true.
Proof. exact unchanged. Qed.
Print Assumptions C08_unchanged_otherwise.

(* frame: a patch touches only the write set of the request's kind; during a release the marker is kept *)
Theorem C08_frame : forall i, frame_ok i (handle i) = true.
Proof. exact frame. Qed.
Print Assumptions C08_frame.

(* an edit that would un-pause a Deployment in the middle of a canary- or partition-style release is corrected *)
Theorem C08_unpause_corrected : forall i, unpause_corrected i (handle i) = true.
Proof. exact unpause. Qed.
Print Assumptions C08_unpause_corrected.

(* admission never fails: no request makes the handlers return an error or panic *)
Theorem C08_admission_never_fails : forall i, no_failure (handle i) = true.
Proof. exact total. Qed.
Print Assumptions C08_admission_never_fails.

(* the Rollout the marker names is the first live, enabled Rollout of the namespace that references the workload *)
Theorem C08_marker_names_first_match : forall k name rs r, matched k name rs = Some r ->
  exists l1 l2, rs = l1 ++ r :: l2 /\ rollout_matches k name r = true /\ forallb (fun x => negb (rollout_matches k name x)) l1 = true.
Proof. exact matched_is_first. Qed.
Print Assumptions C08_marker_names_first_match.
