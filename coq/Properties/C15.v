(* C15 — Custom (Lua) network resources: stateless apply, exact restore.  Statements only.
   `script` is ANY function (the Lua script of the i-th reference, deterministic); `us` is what the user had: any number
   of referenced resources (None = missing), each with any spec, nil/empty/non-empty labels and annotations and no
   snapshot yet; `ops` is any sequence of EnsureRoutes steps and Finalise calls, including steps whose script failed. *)
From RV Require Import Base.Util Model.CustomNet Corr.CustomNet Proofs.CustomNet.

(* after any history, a successful step leaves every resource showing exactly script(original, step): steps never accumulate *)
Theorem C15_apply_is_stateless : forall (S : Type) (script : nat -> data -> S -> option data) us ops s l' b w,
  all_fresh us -> ensure script (run script us ops) s = (l', EDone b, w) ->
  exists us' objs', us = map Some us' /\ l' = map Some objs' /\
    Forall2 (fun e o => exists d, e = Some d /\ shows d o = true) (expected script 0 us' s) objs'.
Proof. exact @history_stateless. Qed.
Print Assumptions C15_apply_is_stateless.

(* after any history, Finalise gives spec, labels and annotations back as the user had them (nil and empty maps are the
   same configuration) and removes the snapshot; missing resources stay missing *)
Theorem C15_restore_exact : forall (S : Type) (script : nat -> data -> S -> option data) us ops,
  all_fresh us ->
  Forall2 (fun u o => match u, o with
                      | Some a, Some b => o_snap b = SAbsent /\ same_user_config a b = true
                      | None, None => True | _, _ => False end) us (fst (finalise (run script us ops))).
Proof. exact @history_restore. Qed.
Print Assumptions C15_restore_exact.

(* repeating a step that succeeded writes nothing and reports done *)
Theorem C15_no_noop_writes : forall (S : Type) (script : nat -> data -> S -> option data) us ops s l' b w,
  all_fresh us -> ensure script (run script us ops) s = (l', EDone b, w) -> ensure script l' s = (l', EDone true, 0).
Proof. exact @history_idempotent. Qed.
Print Assumptions C15_no_noop_writes.

(* a second Finalise changes nothing *)
Theorem C15_finalise_idempotent : forall l, finalise (fst (finalise l)) = (fst (finalise l), false).
Proof. exact finalise_twice. Qed.
Print Assumptions C15_finalise_idempotent.
