(* C15 — Custom (Lua) network resources: stateless apply, exact restore.  Statements only.
   `script` is ANY function (the Lua script of the i-th reference, deterministic); `us` is what the user had: any number
   of referenced resources (None = missing), each with any spec, nil/empty/non-empty labels and annotations and no
   snapshot yet; `ops` is any sequence of EnsureRoutes steps and Finalise calls, including steps whose script failed. *)
From RV Require Import Base.Util Model.CustomNet Corr.CustomNet Proofs.CustomNet.

(* after any history, a successful step leaves every resource showing exactly script(original, step): steps never accumulate *)
Theorem C15_apply_is_stateless : forall (S : Type) (script : nat -> data -> S -> option data) us ops s l' b w,
  all_fresh us -> ensure script (run script us ops) s = (l', EDone b, w) ->
  exists us' objs', us = map Some us' /\ l' = map Some objs' /\
    Forall2 (fun e o => exists d, e = Some d /\ shows d o = true) (expected script 0 us' s) objs'.
Proof. exact @history_stateless. Qed.
Print Assumptions C15_apply_is_stateless.

(* after any history, Finalise gives spec, labels and annotations back as the user had them (nil and empty maps are the
   same configuration) and removes the snapshot; missing resources stay missing *)
Theorem C15_restore_exact : forall (S : Type) (script : nat -> data -> S -> option data) us ops,
  all_fresh us ->
  Forall2 (fun u o => match u, o with
                      | Some a, Some b => o_snap b = SAbsent /\ same_user_config a b = true
                      | None, None => True | _, _ => False end) us (fst (finalise (run script us ops))).
Proof. exact @history_restore. Qed.
Print Assumptions C15_restore_exact.

(* repeating a step that succeeded writes nothing and reports done *)
Theorem C15_no_noop_writes : forall (S : Type) (script : nat -> data -> S -> option data) us ops s l' b w,
  all_fresh us -> ensure script (run script us ops) s = (l', EDone b, w) -> ensure script l' s = (l', EDone true, 0).
Proof. exact @history_idempotent. Qed.
Print Assumptions C15_no_noop_writes.

(* a second Finalise changes nothing *)
Theorem C15_finalise_idempotent : forall l, finalise (fst (finalise l)) = (fst (finalise l), false).
Proof. exact finalise_twice. Qed.
Print Assumptions C15_finalise_idempotent.

(* ---- the built-in Istio scripts (Model/Istio.v) ---- *)
From RV Require Import Model.Istio Corr.Istio Proofs.Istio.

(* weight path, any VirtualService spec: a rule whose only destination is the stable service (weight absent or 100)
   ends up with exactly [stable: 100-w; canary: w], on http, tcp and tls alike *)
Theorem C15_istio_split : forall stable canary w s, split_holds stable canary w s (virtual_service stable canary w O s) = true.
Proof. exact split_thm. Qed.
Print Assumptions C15_istio_split.

(* weight path: rules carrying a match, and rules with no destination on the stable service, are left exactly as they were *)
Theorem C15_istio_others_untouched : forall stable canary w s, untouched_holds stable s (virtual_service stable canary w O s) = true.
Proof. exact untouched_thm. Qed.
Print Assumptions C15_istio_others_untouched.

(* matches path: every rule the user had is still there unchanged, behind the generated ones; the script fails only
   when the spec has no http section *)
Theorem C15_istio_matches_keep_originals : forall stable canary w n s, n <> O ->
  match virtual_service stable canary w n s with
  | Some a => originals_kept n s (Some a) = true
  | None => vs_http s = None
  end.
Proof. exact originals_kept_thm. Qed.
Print Assumptions C15_istio_matches_keep_originals.
