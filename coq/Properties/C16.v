(* C16 — A Lua plugin cannot hang, crash or escape the controller.  Statements only.
   What a proof can carry: the value conversion (decodeValue / DecodeValue, Encode) on all JSON-like values, and the
   finite capability surface a script can name.  Termination within the deadline and absence of Go panics inside
   gopher-lua are properties of the interpreter and are TESTED by the hostile-script corpus (see DESIGN.md, C16). *)
From RV Require Import Base.Util Model.LuaJson Corr.LuaJson Proofs.LuaJson.

(* handing any JSON value to a script and taking it back yields exactly norm v: null members and elements vanish and an
   empty container becomes null, nothing else changes -- at any nesting depth and size *)
Theorem C16_value_roundtrip : forall v, encode (decode v) = Some (norm v).
Proof. exact roundtrip. Qed.
Print Assumptions C16_value_roundtrip.

(* values without null members/elements and without empty containers survive unchanged *)
Theorem C16_value_roundtrip_lossless : forall v, lossless v = true -> encode (decode v) = Some v.
Proof. exact roundtrip_lossless. Qed.
Print Assumptions C16_value_roundtrip_lossless.

(* no global a script can name reaches files, processes or the network (the list is compared with the real VM's
   global table on every run) *)
Theorem C16_no_os_access : surface_safe surface = true.
Proof. exact surface_is_safe. Qed.
Print Assumptions C16_no_os_access.

(* "survive the conversion unchanged in meaning", towards the controller: whenever Encode succeeds on a table -- ANY table a
   script can build, not only decoded ones -- the array / object it writes has exactly as many elements / members as the
   table has live entries; nothing is dropped, nothing is padded (applies at every nesting level: members are themselves
   results of encode) *)
Theorem C16_encoding_loses_no_entry : forall arr hash j, encode (LTab arr hash) = Some j -> jwidth j = live (LTab arr hash).
Proof. exact encode_loses_no_entry. Qed.
Print Assumptions C16_encoding_loses_no_entry.
