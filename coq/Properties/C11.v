(* C11 — BatchRelease status means what it says.  Statements only.  One reconcile of the BatchRelease
   controller on a partition-style CloneSet, for every spec, every persisted status (including ones the
   controller itself would never write) and every workload observation. *)
From RV Require Import Base.Util Base.IntStr Model.BatchArith Model.BRExec Corr.BRExec Proofs.BRExec.

(* Ready is entered only if, on the workload observed in this very reconcile: updated >= desired,
   ready + tolerance >= desired, and at least one ready pod when any is called for (is_batch_ready) *)
Theorem C11_ready_is_true :
  forall sp st w r, reconcile sp st w = Some r -> ready_is_true sp st w (obs_of r) = true.
Proof. exact ready_is_true_holds. Qed.
Print Assumptions C11_ready_is_true.

(* the batch cursor never advances beyond batchPartition *)
Theorem C11_never_beyond_partition :
  forall sp st w r, 0 <= bs_batch st -> reconcile sp st w = Some r -> never_beyond_partition sp st (obs_of r) = true.
Proof. exact never_beyond_partition_holds. Qed.
Print Assumptions C11_never_beyond_partition.

(* Completed is reported only by the reconcile whose Finalize released the workload (control marker removed;
   partition cleared and unpaused when the plan has no batchPartition), on every attempt *)
Theorem C11_completed_means_released :
  forall sp st w r, reconcile sp st w = Some r -> completed_means_released sp st w (obs_of r) = true.
Proof. exact completed_means_released_holds. Qed.
Print Assumptions C11_completed_means_released.

(* a changed plan or a scaled workload makes a Ready batch fall back *)
Theorem C11_falls_back :
  forall sp st w r, reconcile sp st w = Some r -> falls_back sp st w (obs_of r) = true.
Proof. exact falls_back_holds. Qed.
Print Assumptions C11_falls_back.
