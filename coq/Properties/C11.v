(* C11 — BatchRelease status means what it says.  Statements only.  One reconcile of the BatchRelease
   controller on a partition-style CloneSet, for every spec, every persisted status (including ones the
   controller itself would never write) and every workload observation. *)
From RV Require Import Base.Util Base.IntStr Model.BatchArith Model.BRExec Corr.BRExec Proofs.BRExec.

(* Ready is entered only if, on the workload observed in this very reconcile: updated >= desired,
   ready + tolerance >= desired, and at least one ready pod when any is called for (is_batch_ready) *)
Theorem C11_ready_is_true :
  forall sp st w r, reconcile sp st w = Some r -> ready_is_true sp st w (obs_of r) = true.
Proof. exact ready_is_true_holds. Qed.
Print Assumptions C11_ready_is_true.

(* ... and only on a workload status that is current (observedGeneration caught up with generation) *)
Theorem C11_ready_needs_a_current_workload_status :
  forall sp st w r, reconcile sp st w = Some r -> ready_needs_a_current_status sp st w (obs_of r) = true.
Proof. exact ready_needs_a_current_status_holds. Qed.
Print Assumptions C11_ready_needs_a_current_workload_status.

(* the batch cursor never advances beyond batchPartition *)
Theorem C11_never_beyond_partition :
  forall sp st w r, 0 <= bs_batch st -> reconcile sp st w = Some r -> never_beyond_partition sp st (obs_of r) = true.
Proof. exact never_beyond_partition_holds. Qed.
Print Assumptions C11_never_beyond_partition.

(* Completed is reported only by the reconcile whose Finalize released the workload (control marker removed;
   partition cleared and unpaused when the plan has no batchPartition), on every attempt *)
Theorem C11_completed_means_released :
  forall sp st w r, reconcile sp st w = Some r -> completed_means_released sp st w (obs_of r) = true.
Proof. exact completed_means_released_holds. Qed.
Print Assumptions C11_completed_means_released.

(* a changed plan or a scaled workload makes a Ready batch fall back *)
Theorem C11_falls_back :
  forall sp st w r, reconcile sp st w = Some r -> falls_back sp st w (obs_of r) = true.
Proof. exact falls_back_holds. Qed.
Print Assumptions C11_falls_back.

(* ---------- Finalize of the blue-green Deployment control plane: "on every attempt including retries" ---------- *)
From RV Require Model.BGFinal Proofs.BGFinal.
(* the attempt that restores the user's strategy reports done (the executor then records Completed) only when, on the
   Deployment as that attempt leaves it, every pod is updated and ready and the workload is un-paused *)
Theorem C11_bluegreen_first_attempt_done_means_ready : forall d r d',
  BGFinal.bd_restored d = false -> BGFinal.finalize false d = (r, d') -> r = BGFinal.FinDone -> BGFinal.all_updated_and_ready d' = true.
Proof. exact Proofs.BGFinal.first_attempt_done_means_ready. Qed.
Print Assumptions C11_bluegreen_first_attempt_done_means_ready.
(* "on every attempt including retries" does NOT hold of the code (known finding F6): a retry on an already restored
   Deployment waits on an empty object and reports done whatever the pods do.  The witness is replayed on the real
   control plane by the bgfinal engine on every run. *)
Theorem C11_bluegreen_every_attempt_done_means_ready_refuted :
  exists d d', BGFinal.finalize false d = (BGFinal.FinDone, d') /\ BGFinal.all_updated_and_ready d' = false.
Proof. exact Proofs.BGFinal.every_attempt_done_means_ready_refuted. Qed.
Print Assumptions C11_bluegreen_every_attempt_done_means_ready_refuted.
Theorem C11_bluegreen_history_after_restore_always_done : forall sts d, BGFinal.bd_restored d = true ->
  forall r d', In (r, d') (BGFinal.attempts false d sts) -> r = BGFinal.FinDone.
Proof. exact Proofs.BGFinal.history_after_restore_always_done. Qed.
Print Assumptions C11_bluegreen_history_after_restore_always_done.
(* every attempt leaves the workload released from control and un-paused, or finds it so *)
Theorem C11_bluegreen_finalize_releases : forall d r d',
  BGFinal.finalize false d = (r, d') ->
  BGFinal.bd_restored d' = true /\ (BGFinal.bd_restored d = false -> BGFinal.bd_released d' = true /\ BGFinal.bd_paused d' = false).
Proof. exact Proofs.BGFinal.finalize_releases. Qed.
Print Assumptions C11_bluegreen_finalize_releases.

(* ---------- Finalize of the partition-style and canary-style Deployment control planes ---------- *)
From RV Require Model.CtlPlane Proofs.CtlPlane.
(* success (the executor then records Completed) only on a workload that has been handed back -- for every API call that
   may have been made to fail on the way *)
Theorem C11_partition_deployment_finalize_done_means_released : forall f d d',
  CtlPlane.pd_claimed d = true -> CtlPlane.pd_paused d = true ->
  CtlPlane.pdep_finalize false f d = (CtlPlane.Done, d') -> CtlPlane.pdep_released d' = true.
Proof. exact Proofs.CtlPlane.pdep_finalize_done_means_released. Qed.
Print Assumptions C11_partition_deployment_finalize_done_means_released.
Theorem C11_canary_deployment_finalize_done_means_released : forall p wr f d d',
  CtlPlane.cdep_finalize p wr f d = (CtlPlane.Done, d') -> CtlPlane.cdep_released d' = true.
Proof. exact Proofs.CtlPlane.cdep_finalize_done_means_released. Qed.
Print Assumptions C11_canary_deployment_finalize_done_means_released.
(* "where the policy is to wait": with WaitResume, only when the promoted Deployment is fully updated and available *)
Theorem C11_canary_deployment_finalize_done_means_promoted : forall p f d d',
  CtlPlane.cdep_finalize p true f d = (CtlPlane.Done, d') -> CtlPlane.cdep_promoted p (CtlPlane.cd_status d) = true.
Proof. exact Proofs.CtlPlane.cdep_finalize_done_means_promoted. Qed.
Print Assumptions C11_canary_deployment_finalize_done_means_promoted.

(* the readiness target itself (every workload kind of the batch arithmetic, Model/BatchArith.v): for an ordinary batch it is
   at least the step's share of the workload rounded UP and capped at its size -- no pod is excused by rounding *)
From RV Require Model.BatchArith Proofs.BatchArith.
Theorem C11_readiness_target_is_what_the_batch_calls_for : forall a step c, 0 <= BatchArith.a_n a ->
  znth (BatchArith.a_plan a) (BatchArith.a_cur a) = Some step -> BatchArith.calc_ctx a = Some c -> BatchArith.a_noneed a = None ->
  Proofs.BatchArith.batch_calls_for (BatchArith.a_kind a) step (BatchArith.a_n a) <= BatchArith.c_desired c.
Proof. exact Proofs.BatchArith.desired_is_what_the_batch_calls_for. Qed.
Print Assumptions C11_readiness_target_is_what_the_batch_calls_for.
