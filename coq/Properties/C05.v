(* C05 — Every exit path leaves the cluster as the user configured it.  Statements only (partial: see DESIGN.md, C05).
   What is proved here is the per-reconcile core on which the exit guarantee rests, for ANY persisted state:
   the finalising cursor of doCanaryFinalising moves past a task only when that task's effect is in place, and an exit is
   declared finished only when the BatchRelease is gone and the in-progress marker is removed.  Provider-level exact
   restore is C13-C15; workload release by the BatchRelease controller is C11. *)
From RV Require Import Base.Util Base.IntStr Model.RolloutSM Model.TrafficMgr Model.RolloutTR Corr.RolloutSM Corr.RolloutTR
  Proofs.RolloutSM Proofs.RolloutTR.

(* moving off RestoreStableService / RouteTrafficToStable / RemoveCanaryService means: the stable Service is un-pinned /
   the canary route is withdrawn / the canary Service is gone, after the writes of that very reconcile *)
Theorem C05_task_passed_means_done : forall t u w br r wr n g done o,
  finalise_tr t u w br r wr n g = (done, o) -> ts_refs t = true -> wl_exists w = true -> co_err o = false ->
  su_fin u <> FtNone -> su_fin (co_sub o) <> su_fin u ->
  task_effect (su_fin u) (apply_writes n (co_writes o)).
Proof. exact finalise_tr_task_effect. Qed.
Print Assumptions C05_task_passed_means_done.

(* whichever exit (success, rollback, delete, disable): done is reported only once the BatchRelease is gone, and the
   in-progress marker is removed from the workload in the same reconcile *)
Theorem C05_exit_declared_only_when_clean : forall sp s w br r wr u s1 br' anno,
  do_finalising sp s w br r wr = (true, s1, br', anno) -> rp_sub s = Some u -> su_fin u <> FtEnd ->
  release_not_yet_done r (su_fin u) = true ->
  br' = None /\ anno = (wl_exists w && wl_consistent w && wl_in_progress w).
Proof. exact do_finalising_done_clean. Qed.
Print Assumptions C05_exit_declared_only_when_clean.

(* the traffic manager's three restore operations report completion only on a restored network *)
Theorem C05_restore_stable_service_done : forall c n g, tc_refs c = true -> tc_key c = true -> tr_ok (restore_stable_service c n g) = true ->
  n_stable_exists n = true -> unpinned (apply_writes n (tr_writes (restore_stable_service c n g))).
Proof. exact restore_stable_ok_effect. Qed.
Print Assumptions C05_restore_stable_service_done.
Theorem C05_restore_gateway_done : forall c n g, tc_refs c = true -> tr_ok (restore_gateway c n g) = true ->
  n_route (apply_writes n (tr_writes (restore_gateway c n g))) = RNone.
Proof. exact restore_gateway_ok_effect. Qed.
Print Assumptions C05_restore_gateway_done.
Theorem C05_remove_canary_service_done : forall c n g, tc_refs c = true -> tc_only_traffic c = false -> tr_ok (remove_canary_service c n g) = true ->
  n_canary_svc (apply_writes n (tr_writes (remove_canary_service c n g))) = None.
Proof. exact remove_canary_ok_effect. Qed.
Print Assumptions C05_remove_canary_service_done.

(* ---------- the workload side of every exit: the BatchRelease control plane hands the workload back ---------- *)
From RV Require Model.CtlPlane Proofs.CtlPlane.
(* partition-style Deployment: after a successful Finalize (no batchPartition pending) no control marker is left and the
   Deployment is un-paused with its native strategy: control-info annotation, strategy annotation, control label, Recreate *)
Theorem C05_partition_deployment_handed_back : forall f d d',
  CtlPlane.pd_claimed d = true -> CtlPlane.pd_paused d = true ->
  CtlPlane.pdep_finalize false f d = (CtlPlane.Done, d') -> CtlPlane.pdep_released d' = true.
Proof. exact Proofs.CtlPlane.pdep_finalize_done_means_released. Qed.
Print Assumptions C05_partition_deployment_handed_back.
(* canary-style Deployment: the stable Deployment is un-claimed and no canary Deployment keeps the batch-release finalizer
   (it is then garbage-collected with the BatchRelease) *)
Theorem C05_canary_deployment_handed_back : forall p wr f d d',
  CtlPlane.cdep_finalize p wr f d = (CtlPlane.Done, d') -> CtlPlane.cdep_released d' = true.
Proof. exact Proofs.CtlPlane.cdep_finalize_done_means_released. Qed.
Print Assumptions C05_canary_deployment_handed_back.

(* ---------- blue-green control planes (Deployment, CloneSet) and the HPA: handed back as configured ---------- *)
From RV Require Model.HandBack Corr.HandBack Proofs.HandBack.
(* a blue-green release -- Initialize, any number of UpgradeBatch calls, Finalize -- in which the n-th Patch call fails (any
   n, or none) and each phase is retried until it succeeds hands the workload back as the user configured it:
   minReadySeconds, progressDeadlineSeconds, maxSurge, maxUnavailable (absent fields read as their defaults), un-paused,
   control and original-strategy annotations and the stable-revision label removed, the HPA pointing at it again *)
Theorem C05_bluegreen_workload_handed_back_as_configured : forall k n steps f w0 errs w,
  HandBack.fresh w0 = true ->
  HandBack.scenario k n false (HandBack.PInit :: map HandBack.PUpgrade steps ++ [HandBack.PFinal]) f w0 = (errs, w) ->
  Corr.HandBack.all_phases_done errs = true -> HandBack.handed_back k w0 w = true.
Proof. exact Proofs.HandBack.handed_back_as_configured. Qed.
Print Assumptions C05_bluegreen_workload_handed_back_as_configured.
