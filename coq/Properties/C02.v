(* C02 — Steps are gated: no advance without readiness and approval.  Statements only.
   One Rollout reconcile (canary strategy, CloneSet, no traffic routing configured), for every spec,
   every persisted status, every workload and BatchRelease observation. *)
From RV Require Import Base.Util Base.IntStr Model.RolloutSM Corr.RolloutSM Proofs.RolloutSM.

(* While rolling, with no step jump pending, the plan unchanged and the same revision being released, a reconcile
   either leaves the step cursor where it is or moves it along the gated path (gated_sub):
   Init->Upgrade; Upgrade->TrafficRouting/MetricsAnalysis only if the BatchRelease carries exactly this step's plan and
   partition, has observed it and reports the batch Ready; ->Paused; Paused->Ready only through the configured duration
   having elapsed or a last step that already covers 100%; Ready->next step / Completed.  (Approval is an external
   status write and is therefore not a transition of the reconcile.) *)
Theorem C02_steps_are_gated :
  forall sp st w br m u x y,
  reconcile sp st w br = ROut m ->
  rp_phase st = RpProgressing -> rs_deleting sp = false ->
  rp_prog st = Some (PrInRolling, x, y) -> rp_sub st = Some u ->
  (su_next u = next_index (nsteps sp) (su_idx u) \/ su_next u <= 0) ->
  (sempty (su_hash u) = true \/ su_hash u = rs_hash sp) ->
  wl_canary w = su_canary_rev u ->
  forall s' v, o_status m = Some s' -> rp_sub s' = Some v ->
  (su_idx v = su_idx u /\ su_state v = su_state u) \/
  gated_sub sp (observed_sub w u) w (synced_br (observed_sub w u) br) v = true.
Proof. exact steps_are_gated. Qed.
Print Assumptions C02_steps_are_gated.

(* no forward progress at all while the rollout is marked paused: no BatchRelease write, cursor unchanged *)
Theorem C02_paused_no_progress :
  forall sp st w br m u x y,
  reconcile sp st w br = ROut m ->
  rp_phase st = RpProgressing -> rs_deleting sp = false -> rs_paused sp = true ->
  rp_prog st = Some (PrInRolling, x, y) -> rp_sub st = Some u ->
  (wl_in_rollback w && negb (String.eqb (wl_canary w) (su_canary_rev u)) && negb (rs_rollback_in_batch sp)) = false ->
  o_br m = br /\
  forall s' v, o_status m = Some s' -> rp_sub s' = Some v -> su_idx v = su_idx u /\ su_state v = su_state u.
Proof. exact paused_no_progress. Qed.
Print Assumptions C02_paused_no_progress.

(* the sub-state switch itself, for any BatchRelease view *)
Theorem C02_run_canary_gated :
  forall sp u w br u' br' rq,
  run_canary sp u w br = COut u' br' rq ->
  (su_next u = next_index (nsteps sp) (su_idx u) \/ su_next u <= 0) ->
  (su_idx u' = su_idx u /\ su_state u' = su_state u) \/ gated_sub sp u w (synced_br u br) u' = true.
Proof. exact run_canary_gated. Qed.
Print Assumptions C02_run_canary_gated.

(* blue-green: the upgrade gate *)
From RV Require Model.RolloutBG Corr.RolloutBG Proofs.RolloutBG.
Theorem C02_bluegreen_upgrade_is_gated : forall sp u w br u' br' rq,
  RolloutBG.bg_upgrade sp u w br = RolloutSM.COut u' br' rq -> RolloutSM.su_state u' <> RolloutSM.su_state u ->
  RolloutSM.su_state u' = RolloutSM.StTraffic /\ Corr.RolloutSM.br_ready_for sp u w br = true.
Proof. exact Proofs.RolloutBG.bg_upgrade_gated. Qed.
Print Assumptions C02_bluegreen_upgrade_is_gated.

(* blue-green: the whole step cursor.  gated_sub_bg differs from gated_sub in that Init falls through into the upgrade and
   that NO pause is left without its duration having elapsed -- not even on a last step that already covers 100%, because
   leaving the last blue-green pause is what routes everything to the new version and scales the old one down. *)
Theorem C02_bluegreen_steps_are_gated :
  forall sp st w br m u x y,
  RolloutBG.reconcile_bg sp st w br = ROut m ->
  rp_phase st = RpProgressing -> rs_deleting sp = false ->
  rp_prog st = Some (PrInRolling, x, y) -> rp_sub st = Some u ->
  (su_next u = next_index (nsteps sp) (su_idx u) \/ su_next u <= 0) ->
  (sempty (su_hash u) = true \/ su_hash u = rs_hash sp) ->
  wl_canary w = su_canary_rev u ->
  forall s' v, o_status m = Some s' -> rp_sub s' = Some v ->
  (su_idx v = su_idx u /\ su_state v = su_state u) \/
  Corr.RolloutBG.gated_sub_bg sp (observed_sub w u) w (synced_br (observed_sub w u) br) v = true.
Proof. exact Proofs.RolloutBG.bg_steps_are_gated. Qed.
Print Assumptions C02_bluegreen_steps_are_gated.

Theorem C02_bluegreen_manual_pause_waits :
  forall sp st w br m u x y cur,
  RolloutBG.reconcile_bg sp st w br = ROut m ->
  rp_phase st = RpProgressing -> rs_deleting sp = false ->
  rp_prog st = Some (PrInRolling, x, y) -> rp_sub st = Some u ->
  (su_next u = next_index (nsteps sp) (su_idx u) \/ su_next u <= 0) ->
  (sempty (su_hash u) = true \/ su_hash u = rs_hash sp) ->
  wl_canary w = su_canary_rev u ->
  su_state u = StPaused -> get_step sp (su_idx u) = Some cur -> sp_pause cur = None ->
  forall s' v, o_status m = Some s' -> rp_sub s' = Some v -> su_idx v = su_idx u /\ su_state v = StPaused.
Proof. exact Proofs.RolloutBG.bg_manual_pause_waits. Qed.
Print Assumptions C02_bluegreen_manual_pause_waits.

(* over histories: any number of reconciles, each finding an arbitrary workload / BatchRelease observation; only the
   persisted status is carried over (so every crash point between two reconciles is covered) *)
Theorem C02_every_history_is_gated : forall sp es st0 st e st',
  In (st, e, st') (trace sp st0 es) ->
  forall u x y, rp_phase st = RpProgressing -> rs_deleting sp = false ->
  rp_prog st = Some (PrInRolling, x, y) -> rp_sub st = Some u ->
  (su_next u = next_index (nsteps sp) (su_idx u) \/ su_next u <= 0) ->
  (sempty (su_hash u) = true \/ su_hash u = rs_hash sp) ->
  wl_canary (oe_w e) = su_canary_rev u ->
  forall v, rp_sub st' = Some v ->
  (su_idx v = su_idx u /\ su_state v = su_state u) \/
  gated_sub sp (observed_sub (oe_w e) u) (oe_w e) (synced_br (observed_sub (oe_w e) u) (oe_br e)) v = true.
Proof. exact every_history_is_gated. Qed.
Print Assumptions C02_every_history_is_gated.

(* plan edits: while the current step of the edited plan still covers the released replicas, the re-positioning lands on the
   current step itself (so the edit cannot be used to get past its pause) *)
Theorem C02_plan_edit_repositions_at_the_current_step : forall sp u w b p cr cur,
  1 <= su_idx u <= nsteps sp -> br_partition b = Some p -> znth (br_batches b) p = Some cr ->
  get_step sp (su_idx u) = Some cur ->
  scaled true cr (wl_replicas w) <= scaled true (sp_replicas cur) (wl_replicas w) ->
  recalc_step sp u w (Some b) = Some (su_idx u).
Proof. exact recalc_current_step_covers. Qed.
Print Assumptions C02_plan_edit_repositions_at_the_current_step.
