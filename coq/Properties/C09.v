(* C09 — No API-reachable object state can crash the controllers.  Statements only. *)
From RV Require Import Base.Util Base.IntStr.
From RV Require Model.RolloutSM Proofs.RolloutSM Model.LabelPatch Proofs.LabelPatch Model.Conversion Proofs.Conversion.

(* the Rollout reconcile: for every spec with at least one step, every status in which the controller's own invariants
   hold (a Progressing Rollout has its condition, a rolling one its sub-status with the step index inside the plan), and
   EVERY integer nextStepIndex (the user-editable field), no reconcile panics *)
Theorem C09_rollout_reconcile_no_panic :
  forall sp st w br, Proofs.RolloutSM.rollout_wf sp st br -> RolloutSM.reconcile sp st w br <> RolloutSM.RPanic.
Proof. exact Proofs.RolloutSM.reconcile_no_panic. Qed.
Print Assumptions C09_rollout_reconcile_no_panic.

(* the label patcher tolerates every label value (user-editable pod labels); pod NAMES are not user-editable: the ordered
   filter reads the ordinal out of a StatefulSet pod's name *)
Theorem C09_label_patcher_no_panic :
  forall i, (0 <=? LabelPatch.i_cur i) && (LabelPatch.i_cur i <? zlen (LabelPatch.i_batches i)) = true ->
  Proofs.LabelPatch.names_ok i = true -> LabelPatch.patch_pod_batch_label i <> Panic.
Proof. exact Proofs.LabelPatch.patch_total. Qed.
Print Assumptions C09_label_patcher_no_panic.

(* API conversion is total *)
Theorem C09_conversion_no_panic :
  (forall a, Conversion.rollout_to_beta a <> Panic) /\ (forall b, Conversion.rollout_to_alpha b <> Panic) /\ (forall a, Conversion.br_to_beta a <> Panic).
Proof. exact Proofs.Conversion.conversion_total. Qed.
Print Assumptions C09_conversion_no_panic.

(* ---- validation half: the structural promises the controllers depend on ---- *)
From RV Require Model.Validate Corr.Validate Proofs.Validate.

(* a Rollout the validating webhook admits has a non-empty plan, every step with a valid positive replicas value, and
   EVERY pair of steps of the same type (number / percentage) in non-decreasing order *)
Theorem C09_admitted_steps_are_non_empty_and_ordered : forall r others, Validate.create_ok r others = true -> Corr.Validate.steps_promise r = true.
Proof. exact Proofs.Validate.admitted_steps_promise. Qed.
Print Assumptions C09_admitted_steps_are_non_empty_and_ordered.

(* one Rollout per workload *)
Theorem C09_one_rollout_per_workload : forall r others, Validate.create_ok r others = true -> Validate.conflicts r others = false.
Proof. exact Proofs.Validate.admitted_has_no_conflict. Qed.
Print Assumptions C09_one_rollout_per_workload.

(* while the live Rollout is Progressing or Terminating an admitted update keeps the workload reference, the traffic
   routing, the rolling style and the number of steps -- the step index the controller persists stays inside the plan *)
Theorem C09_no_structural_change_while_progressing : forall old new others same, Validate.update_ok old new others true same = true ->
  Validate.vr_key (Validate.v_ref old) = Validate.vr_key (Validate.v_ref new) /\ same = true /\
  Validate.rolling_style old = Validate.rolling_style new /\
  zlen (Validate.steps_of (Validate.v_strategy old)) = zlen (Validate.steps_of (Validate.v_strategy new)).
Proof. exact Proofs.Validate.update_keeps_structure. Qed.
Print Assumptions C09_no_structural_change_while_progressing.

(* ---- blue-green strategy ---- *)
From RV Require Model.RolloutBG Proofs.RolloutBG.
Theorem C09_bluegreen_reconcile_no_panic :
  forall sp st w br, Proofs.RolloutSM.rollout_wf sp st br -> RolloutBG.reconcile_bg sp st w br <> RolloutSM.RPanic.
Proof. exact Proofs.RolloutBG.reconcile_bg_no_panic. Qed.
Print Assumptions C09_bluegreen_reconcile_no_panic.

(* the canary-style Deployment control plane: Initialize returns for every state, patch metadata shape and fault (the model
   is total), claims the stable Deployment before it creates, and creates at most one canary Deployment *)
From RV Require Model.CtlPlane Proofs.CtlPlane.
Theorem C09_canary_initialize_total_and_creates_at_most_one : forall f d o d',
  CtlPlane.cdep_initialize f d = (o, d') ->
  CtlPlane.cd_canaries d' = CtlPlane.cd_canaries d \/
  (CtlPlane.cd_canaries d = [] /\ CtlPlane.cd_canaries d' = [true] /\ CtlPlane.cd_claimed d' = true).
Proof. exact Proofs.CtlPlane.cdep_initialize_creates_at_most_one. Qed.
Print Assumptions C09_canary_initialize_total_and_creates_at_most_one.
