(* C09 — No API-reachable object state can crash the controllers.  Statements only. *)
From RV Require Import Base.Util Base.IntStr.
From RV Require Model.RolloutSM Proofs.RolloutSM Model.LabelPatch Proofs.LabelPatch Model.Conversion Proofs.Conversion.

(* the Rollout reconcile: for every spec with at least one step, every status in which the controller's own invariants
   hold (a Progressing Rollout has its condition, a rolling one its sub-status with the step index inside the plan), and
   EVERY integer nextStepIndex (the user-editable field), no reconcile panics *)
Theorem C09_rollout_reconcile_no_panic :
  forall sp st w br, Proofs.RolloutSM.rollout_wf sp st br -> RolloutSM.reconcile sp st w br <> RolloutSM.RPanic.
Proof. exact Proofs.RolloutSM.reconcile_no_panic. Qed.
Print Assumptions C09_rollout_reconcile_no_panic.

(* the label patcher tolerates every label value (user-editable pod labels) *)
Theorem C09_label_patcher_no_panic :
  forall i, (0 <=? LabelPatch.i_cur i) && (LabelPatch.i_cur i <? zlen (LabelPatch.i_batches i)) = true ->
  LabelPatch.patch_pod_batch_label i <> Panic.
Proof. exact Proofs.LabelPatch.patch_total. Qed.

(* API conversion is total *)
Theorem C09_conversion_no_panic :
  (forall a, Conversion.rollout_to_beta a <> Panic) /\ (forall b, Conversion.rollout_to_alpha b <> Panic) /\ (forall a, Conversion.br_to_beta a <> Panic).
Proof. exact Proofs.Conversion.conversion_total. Qed.
Print Assumptions C09_conversion_no_panic.
