(* C13 — Gateway API routes: exact split, narrow matches, clean restore.  Statements only. *)
From RV Require Import Base.Util Model.Gateway Corr.Gateway Proofs.Gateway.

(* weight step: on every rule that targets the stable Service the canary gets w, the stable 100-w, other
   backends, matches and filters are untouched (this is the boolean evaluated on the real EnsureRoutes output) *)
Theorem C13_exact_split :
  forall c w rules, g_stable c <> g_canary c -> exact_split c w rules (weight_rules c w rules) = true.
Proof. exact exact_split_holds. Qed.
Print Assumptions C13_exact_split.

Theorem C13_exact_split_per_rule :
  forall c w r i s, g_stable c <> g_canary c -> get_ref (g_stable c) r = Some (i, s) ->
  let r' := weight_rule c w r in
  ref_weight (g_stable c) r' = Some (Some (100 - w)) /\ ref_weight (g_canary c) r' = Some (Some w) /\
  other_refs c r' = other_refs c r /\ r_matches r' = r_matches r /\ r_rest r' = r_rest r.
Proof. exact weight_rule_spec. Qed.
Print Assumptions C13_exact_split_per_rule.

(* rules that do not reference the stable Service are never altered *)
Theorem C13_unrelated_rules_untouched_weight :
  forall c w r, get_ref (g_stable c) r = None -> weight_rule c w r = r.
Proof. exact weight_rules_unrelated. Qed.
Theorem C13_originals_kept :
  forall c ms rules r, In r rules -> get_ref (g_canary c) r = None -> In r (header_rules c ms rules).
Proof. exact originals_kept. Qed.
Print Assumptions C13_originals_kept.

(* match step: for EVERY comparison semantics cmp and EVERY request q, a generated canary rule accepts q
   only if q satisfies one of the user's matches: a path match standalone, a header/query match
   together with one of the original rule's own matches *)
Theorem C13_canary_rule_is_narrow :
  forall (cmp : string -> string -> string -> bool) c ms rules g q,
  (forall u, In u ms -> sempty (m_method u) = true) ->
  In g (snd (header_split c ms rules)) ->
  exists r0 o s, In r0 rules /\ restore_for_match c r0 = Some o /\ get_ref (g_stable c) o = Some s /\
    r_refs g = [set_name (snd s) (g_canary c)] /\
    (rule_accepts cmp q g = true -> user_ok cmp q ms o = true).
Proof. exact canary_rule_is_narrow. Qed.
Print Assumptions C13_canary_rule_is_narrow.

(* finalise removes every canary reference and keeps every rule the user wrote (weights aside) *)
Theorem C13_finalise_removes_canary :
  forall c rules, g_stable c <> g_canary c -> (forall r, In r rules -> (canary_count c r <= 1)%nat) ->
  forall r', In r' (finalise_rules c rules) -> canary_count c r' = O.
Proof. exact finalise_removes_canary. Qed.
Theorem C13_finalise_keeps_user_rules :
  forall c rules r, In r rules -> get_ref (g_canary c) r = None ->
  exists r', In r' (finalise_rules c rules) /\ same_but_weights r r'.
Proof. exact finalise_keeps_user_rules. Qed.
Print Assumptions C13_finalise_removes_canary.
Print Assumptions C13_finalise_keeps_user_rules.
