(* C12 — Pod batch labels identify exactly the pods of each batch.
   Only statements, each closed by a lemma of Proofs/LabelPatch.v. *)
From RV Require Import Base.Util Base.IntStr Model.LabelPatch Proofs.LabelPatch.

(* labels go only to live pods of the new revision; a pod already labelled for this release is never relabelled *)
Theorem C12_only_live_new_revision_and_no_relabel :
  forall i ws w, patch_pod_batch_label i = Ok ws -> In w ws -> is_batch_write w = true ->
  w_rid w = Some (i_rid i) /\
  exists p, In p (pods_used i) /\ p_name p = w_pod w /\ p_deleting p = false /\
            consistent (p_pth p) (match w_crh w with Some h => h | None => p_crh p end) (i_rev i) = true /\
            String.eqb (p_rid p) (i_rid i) = false.
Proof. exact batch_write_target. Qed.
Print Assumptions C12_only_live_new_revision_and_no_relabel.

(* each pod receives at most one batch label per pass *)
Theorem C12_one_label_per_pod :
  forall i ws, patch_pod_batch_label i = Ok ws -> NoDup (map p_name (pods_used i)) ->
  NoDup (map w_pod (filter is_batch_write ws)).
Proof. exact batch_writes_distinct. Qed.
Print Assumptions C12_one_label_per_pod.

(* never over budget: new labels for batch k+1 <= increment of batch k minus pods already counted for it,
   hence (already counted + new) <= max (already counted, increment) *)
Theorem C12_never_over_budget :
  forall i ws k, patch_pod_batch_label i = Ok ws -> (k < List.length (incs i))%nat ->
  count (has_bid (Z.of_nat k + 1)) ws <=
  Z.max 0 (nth k (incs i) 0 - count (is_counted i (Z.of_nat k + 1)) (pods_used i)).
Proof. exact batch_budget. Qed.
Print Assumptions C12_never_over_budget.

(* stale or foreign values are never counted towards a batch they do not belong to *)
Theorem C12_counted_pods_belong :
  forall i k p, is_counted i k p = true ->
  p_deleting p = false /\ String.eqb (p_rid p) (i_rid i) = true /\ atoi (p_bid p) = Some k.
Proof. exact counted_belongs. Qed.
Print Assumptions C12_counted_pods_belong.

(* arbitrary label values are tolerated: no panic for any strings *)
Theorem C12_tolerates_any_labels :
  forall i, (0 <=? i_cur i) && (i_cur i <? zlen (i_batches i)) = true -> names_ok i = true -> patch_pod_batch_label i <> Panic.
Proof. exact patch_total. Qed.
Print Assumptions C12_tolerates_any_labels.

(* ... and such a pod is of the new revision: pods of another revision that carry this release's labels use no budget *)
Theorem C12_counted_pods_are_new_revision :
  forall i k p, is_counted i k p = true ->
  exists crh, consistent (p_pth p) crh (i_rev i) = true /\ (crh = p_crh p \/ p_owner p = RSHash crh).
Proof. exact counted_is_new_revision. Qed.
Print Assumptions C12_counted_pods_are_new_revision.

(* the budget is used: unless every unlabelled live pod of the new revision received a label (they ran out), batch k+1
   receives exactly its increment minus the pods that belong to it already *)
Theorem C12_budget_filled :
  forall i ws, patch_pod_batch_label i = Ok ws -> ws <> [] ->
  count is_batch_write ws = count (fun p => match classify i p with PUnpatched _ => true | _ => false end) (pods_used i) \/
  forall k, (k < List.length (incs i))%nat ->
    count (has_bid (Z.of_nat k + 1)) ws = Z.max 0 (nth k (incs i) 0 - count (is_counted i (Z.of_nat k + 1)) (pods_used i)).
Proof. exact budget_filled. Qed.
Print Assumptions C12_budget_filled.

(* repeating the pass changes nothing — for StatefulSets (ordered filter) also when the pods are listed in another order:
   the writes are the same for every permutation of the pod list (pods have distinct ordinals) *)
Theorem C12_ordered_filter_ignores_listing_order :
  forall i dp l l', i_filter i = FOrdered dp -> Permutation.Permutation l l' -> NoDup (map key0 l) ->
  patch_pod_batch_label (with_pods i l) = patch_pod_batch_label (with_pods i l').
Proof. exact ordered_filter_ignores_listing_order. Qed.
Print Assumptions C12_ordered_filter_ignores_listing_order.

(* a controller-revision-hash the pass writes onto a pod is the template hash of that pod's OWN ReplicaSet, and the pod carried
   none before: hashes never travel from one pod (or ReplicaSet) to another *)
Theorem C12_written_hash_is_the_pods_own_replicaset_hash : forall i ws w h,
  patch_pod_batch_label i = Ok ws -> In w ws -> w_crh w = Some h ->
  exists p, In p (pods_used i) /\ p_name p = w_pod w /\ owner_hash p h.
Proof. exact written_hash_is_the_owners. Qed.
Print Assumptions C12_written_hash_is_the_pods_own_replicaset_hash.
