(* C19 — Rollouts are isolated from each other.  Statements only (partial: see DESIGN.md, C19).
   What a proof can carry: non-interference through the process-wide grace expectation store.  Freedom from data races is
   a property of the Go runtime execution and is TESTED (race detector on concurrent real reconciles), not proved. *)
From RV Require Import Base.Util Model.GraceMap Corr.Isolation Proofs.GraceMap.
From RV Require Model.Expect Proofs.Expect.

(* for ANY interleaving of the calls of any number of Rollouts with clock advances and process restarts: the retry answers
   one Rollout gets are exactly those it gets when only its own calls run, provided nobody else uses its keys *)
Theorem C19_grace_store_non_interference : forall (mine : gkey -> bool),
  (forall a b, gkey_eqb a b = true -> mine a = mine b) ->
  forall ops s, answers mine s ops = answers mine (restrict mine s) (proj mine ops).
Proof. exact isolated. Qed.
Print Assumptions C19_grace_store_non_interference.

(* the key sets the traffic manager derives (Rollout UID, stable Service UID, namespace/name of the canary Service) are
   well-defined key predicates *)
Theorem C19_rollout_keys_respect_equality : forall a b c x y, gkey_eqb x y = true -> rollout_keys a b c x = rollout_keys a b c y.
Proof. exact rollout_keys_ext. Qed.
Print Assumptions C19_rollout_keys_respect_equality.

(* the creation expectations of canary-style BatchReleases (a second process-wide store): what one BatchRelease is told —
   "you may create your canary Deployment" or "wait" — depends only on the calls made under its own key, for any
   interleaving with the calls of any other BatchReleases *)
Theorem C19_creation_expectations_non_interference : forall mine ops s s', s mine = s' mine ->
  RV.Model.Expect.eanswers mine s ops = RV.Model.Expect.eanswers mine s' (filter (fun o => String.eqb (RV.Model.Expect.ekey o) mine) ops).
Proof. exact RV.Proofs.Expect.expectations_isolated. Qed.
Print Assumptions C19_creation_expectations_non_interference.

(* and the key, namespace/name, tells BatchReleases of different namespaces apart even when they carry the same name *)
Theorem C19_controller_key_tells_releases_apart : forall ns1 n1 ns2 n2,
  RV.Proofs.Expect.no_slash ns1 = true -> RV.Proofs.Expect.no_slash ns2 = true ->
  RV.Model.Expect.controller_key ns1 n1 = RV.Model.Expect.controller_key ns2 n2 -> ns1 = ns2 /\ n1 = n2.
Proof. exact RV.Proofs.Expect.controller_key_injective. Qed.
Print Assumptions C19_controller_key_tells_releases_apart.

(* generated object names: two Rollouts of one namespace with different stable Services never share a canary Service,
   however long or similar the names are (the name is the stable name plus a fixed suffix, nothing is cut off) *)
Theorem C19_canary_service_names_tell_rollouts_apart : forall a b,
  RV.Model.Expect.canary_service_name a = RV.Model.Expect.canary_service_name b -> a = b.
Proof. exact RV.Proofs.Expect.canary_service_name_injective. Qed.
Print Assumptions C19_canary_service_names_tell_rollouts_apart.

(* the registry of dynamically watched workload types: a type gets into it only through a watch that was registered
   successfully, and a failed registration while reconciling one Rollout leaves it unchanged, so that the next Rollout of
   that type registers the watch (and waits for the informer) instead of silently running without one *)
Theorem C19_workload_type_registered_only_by_a_successful_watch : forall ops w0 x,
  In x (RV.Proofs.Expect.watched_after w0 ops) -> In x w0 \/ In (x, true) ops.
Proof. exact RV.Proofs.Expect.registered_only_by_a_successful_watch. Qed.
Print Assumptions C19_workload_type_registered_only_by_a_successful_watch.
Theorem C19_failed_watch_changes_nothing : forall w g, existsb (String.eqb g) w = false ->
  RV.Model.Expect.watch_step w g false = (RV.Model.Expect.WError, w).
Proof. exact RV.Proofs.Expect.failed_watch_changes_nothing. Qed.
Print Assumptions C19_failed_watch_changes_nothing.
