(* C18 — Deletion waits for cleanup: finalizers guard every teardown.  Statements only. *)
From RV Require Import Base.Util Base.IntStr Model.BatchArith.
From RV Require Model.RolloutSM Corr.RolloutSM Proofs.RolloutSM Model.BRExec Proofs.BRExec.

(* the Rollout controller drops its finalizer only for a deleting Rollout whose Terminating condition already says
   Completed (which the terminating branch sets only when the whole finalising sequence reported done) *)
Theorem C18_rollout_finalizer_guard :
  forall sp st w br m, RolloutSM.reconcile sp st w br = RolloutSM.ROut m -> RolloutSM.o_finalizer m = false ->
  RolloutSM.rs_deleting sp = true /\ (RolloutSM.rp_term st = Some true \/ RolloutSM.rs_finalizer sp = false).
Proof. exact Proofs.RolloutSM.finalizer_guard. Qed.
Print Assumptions C18_rollout_finalizer_guard.

(* the BatchRelease controller drops its finalizer only for a deleting BatchRelease whose phase is Completed, and
   Completed is reported only by the reconcile whose Finalize released the workload (C11_completed_means_released) *)
Theorem C18_batchrelease_finalizer_guard :
  forall sp st w r, BRExec.reconcile sp st w = Some r -> BRExec.r_finalizer r = false ->
  BRExec.sp_deleting sp = true /\ BRExec.bs_phase st = BRExec.PhCompleted /\ BRExec.sp_finalizer sp = true.
Proof. exact Proofs.BRExec.br_finalizer_guard. Qed.
Print Assumptions C18_batchrelease_finalizer_guard.

(* the teardown sequence (delete, disable, success or rollback) reports done only once the BatchRelease is gone, and
   removes the in-progress marker in the same reconcile — so the Terminating condition can only become Completed,
   and the finalizer only be dropped, after cleanup *)
Theorem C18_finalising_done_means_clean :
  forall sp s w br r wr u s1 br' anno,
  RolloutSM.do_finalising sp s w br r wr = (true, s1, br', anno) -> RolloutSM.rp_sub s = Some u -> RolloutSM.su_fin u <> RolloutSM.FtEnd ->
  Corr.RolloutSM.release_not_yet_done r (RolloutSM.su_fin u) = true ->
  br' = None /\ anno = (RolloutSM.wl_exists w && RolloutSM.wl_consistent w && RolloutSM.wl_in_progress w).
Proof. exact Proofs.RolloutSM.do_finalising_done_clean. Qed.
Print Assumptions C18_finalising_done_means_clean.

(* ---- the TrafficRouting controller ---- *)
From RV Require Model.TrafficMgr Model.TRCtl Proofs.TRCtl.
(* for every persisted phase, set of finalizers, network state, in-memory grace state and injected gateway error: the
   controller gives up its own finalizer only in a reconcile of a deleting object whose cleanup completed without error;
   the canary route is gone when the finalizer goes *)
Theorem C18_trafficrouting_finalizer_guard : forall o n g,
  TRCtl.to_own_finalizer o = true -> TRCtl.ro_own_finalizer (TRCtl.tr_reconcile o n g) = false ->
  TRCtl.to_deleting o = true /\ TRCtl.ro_err (TRCtl.tr_reconcile o n g) = false /\
  TrafficMgr.n_route (TrafficMgr.apply_writes n (TRCtl.ro_writes (TRCtl.tr_reconcile o n g))) = TrafficMgr.RNone.
Proof. exact Proofs.TRCtl.tr_finalizer_guard. Qed.
Print Assumptions C18_trafficrouting_finalizer_guard.

(* and deletion is not blocked for ever: with the gateway restored and the grace waits over, the next reconcile drops it *)
Theorem C18_trafficrouting_deletion_not_blocked : forall o n g,
  TRCtl.to_deleting o = true -> TRCtl.to_gateway_fails o = false -> TrafficMgr.n_route n = TrafficMgr.RNone ->
  (TRCtl.to_zero_grace o = true \/ (TrafficMgr.g_lookup TrafficMgr.GRestoreGateway g <> Some false /\ TrafficMgr.g_lookup TrafficMgr.GRestoreService g <> Some false)) ->
  TRCtl.ro_own_finalizer (TRCtl.tr_reconcile o n g) = false.
Proof. exact Proofs.TRCtl.tr_deletion_not_blocked. Qed.
Print Assumptions C18_trafficrouting_deletion_not_blocked.

(* the teardown never goes quiet while the finalizer is still there *)
Theorem C18_trafficrouting_teardown_never_stalls : forall o n g, TRCtl.to_deleting o = true ->
  let r := TRCtl.tr_reconcile o n g in
  TRCtl.ro_own_finalizer r = false \/ TRCtl.ro_err r = true \/ TRCtl.ro_requeue r = true.
Proof. exact Proofs.TRCtl.tr_teardown_never_stalls. Qed.
Print Assumptions C18_trafficrouting_teardown_never_stalls.

(* the Rollout controller: the teardown is neither quiet nor blocked *)
Theorem C18_rollout_teardown_never_stalls : forall sp st w br m,
  RolloutSM.rs_deleting sp = true -> RolloutSM.rp_phase st = RolloutSM.RpTerminating ->
  RolloutSM.reconcile sp st w br = RolloutSM.ROut m -> RolloutSM.o_finalizer m = true ->
  RolloutSM.o_requeue m = true \/
  (RolloutSM.rp_term st = Some false /\ exists s', RolloutSM.o_status m = Some s' /\ RolloutSM.rp_term s' = Some true).
Proof. exact Proofs.RolloutSM.rollout_teardown_never_stalls. Qed.
Print Assumptions C18_rollout_teardown_never_stalls.
Theorem C18_rollout_deletion_not_blocked : forall sp st w br m,
  RolloutSM.rs_deleting sp = true -> RolloutSM.rp_term st = Some true ->
  RolloutSM.reconcile sp st w br = RolloutSM.ROut m -> RolloutSM.o_finalizer m = false.
Proof. exact Proofs.RolloutSM.rollout_deletion_not_blocked. Qed.
Print Assumptions C18_rollout_deletion_not_blocked.

(* the BatchRelease controller: the teardown is neither quiet nor blocked *)
Theorem C18_batchrelease_teardown_never_stalls : forall sp st w r,
  BRExec.sp_deleting sp = true -> BRExec.sp_finalizer sp = true ->
  BRExec.reconcile sp st w = Some r -> BRExec.r_finalizer r = true ->
  BRExec.r_requeue r = BRExec.RqAfter \/ BRExec.status_eqb st (BRExec.r_status r) = false.
Proof. exact Proofs.BRExec.br_teardown_never_stalls. Qed.
Print Assumptions C18_batchrelease_teardown_never_stalls.
Theorem C18_batchrelease_deletion_not_blocked : forall sp st w r,
  BRExec.sp_deleting sp = true -> BRExec.sp_finalizer sp = true -> BRExec.bs_phase st = BRExec.PhCompleted ->
  BRExec.reconcile sp st w = Some r -> BRExec.r_finalizer r = false.
Proof. exact Proofs.BRExec.br_deletion_not_blocked. Qed.
Print Assumptions C18_batchrelease_deletion_not_blocked.

(* ---------- the Rollout controller's progressing finalizer on a TrafficRouting object (Model/TRFin.v) ---------- *)
From RV Require Model.TRFin Proofs.TRFin.
(* not blocked for ever: when the Rollout is done with the object its finalizer goes, deleting or not, whatever the phase; a
   deleting object that held nothing else then disappears *)
Theorem C18_progressing_finalizer_removed_when_the_rollout_is_done : forall t e t',
  TRFin.t2_exists t = true -> TRFin.finalize_tr false t = (e, t') -> e = false /\ TRFin.t2_mine t' = false.
Proof. exact Proofs.TRFin.finalize_removes_my_finalizer. Qed.
Print Assumptions C18_progressing_finalizer_removed_when_the_rollout_is_done.
Theorem C18_progressing_finalizer_lets_a_deleting_object_go : forall t e t',
  TRFin.t2_exists t = true -> TRFin.t2_deleting t = true -> TRFin.t2_others t = false -> TRFin.t2_mine t = true ->
  TRFin.finalize_tr false t = (e, t') -> TRFin.t2_exists t' = false.
Proof. exact Proofs.TRFin.finalize_lets_a_deleting_object_go. Qed.
Print Assumptions C18_progressing_finalizer_lets_a_deleting_object_go.
(* stays while needed: the object counts as usable only with the finalizer on it, and the finalizer is never put on an object
   that is already finalizing / terminating *)
Theorem C18_progressing_finalizer_guards_the_object_in_use : forall f t r t',
  TRFin.handle_tr f t = (r, t') -> r = TRFin.T2Ready -> TRFin.t2_mine t' = true /\ t' = t.
Proof. exact Proofs.TRFin.handle_ready_means_guarded. Qed.
Print Assumptions C18_progressing_finalizer_guards_the_object_in_use.
Theorem C18_progressing_finalizer_not_put_on_an_object_on_its_way_out : forall f t r t',
  TRFin.handle_tr f t = (r, t') -> TRFin.t2_mine t = false -> TRFin.t2_phase t <> TRFin.TOtherPhase -> TRFin.t2_mine t' = false.
Proof. exact Proofs.TRFin.handle_never_guards_an_object_on_its_way_out. Qed.
Print Assumptions C18_progressing_finalizer_not_put_on_an_object_on_its_way_out.
