(* C07 — A healthy rollout always finishes; nothing oscillates.  Part "the update target the
   controller sets always suffices for its own readiness criterion".  Statements only. *)
From RV Require Import Base.Util Base.IntStr Model.BatchArith Proofs.BatchArith.

(* after UpgradeBatch (write or no-op) the workload may run at least DesiredUpdatedReplicas new pods,
   for every kind, step, n and current knob outside the three listed regions *)
Theorem C07_target_suffices :
  forall a step c, wf a step -> calc_ctx a = Some c ->
  f1_region a = false -> f12_region a = false -> f21_region a = false ->
  suffices a (c_desired c) (knob_after a c) = true.
Proof. exact target_suffices. Qed.
Print Assumptions C07_target_suffices.

(* the three regions are genuine: the faithful model violates the statement on each (known findings) *)
Theorem C07_target_suffices_refuted_F1 :
  exists a c, wf a (IPct 99) /\ calc_ctx a = Some c /\ f1_region a = true /\ suffices a (c_desired c) (knob_after a c) = false.
Proof. exact f1_refutes. Qed.
Theorem C07_target_suffices_refuted_F12 :
  exists a c, wf a (IInt 20) /\ calc_ctx a = Some c /\ f12_region a = true /\ suffices a (c_desired c) (knob_after a c) = false.
Proof. exact f12_refutes_suffices. Qed.
Theorem C07_target_suffices_refuted_F21 :
  exists a c, wf a (IInt 15) /\ calc_ctx a = Some c /\ f21_region a = true /\ suffices a (c_desired c) (knob_after a c) = false.
Proof. exact f21_refutes. Qed.
Print Assumptions C07_target_suffices_refuted_F1.
