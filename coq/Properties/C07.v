(* C07 — A healthy rollout always finishes; nothing oscillates.  Part "the update target the
   controller sets always suffices for its own readiness criterion".  Statements only. *)
From RV Require Import Base.Util Base.IntStr Model.BatchArith Proofs.BatchArith.

(* after UpgradeBatch (write or no-op) the workload may run at least DesiredUpdatedReplicas new pods,
   for every kind, step, n and current knob outside the three listed regions *)
Theorem C07_target_suffices :
  forall a step c, wf a step -> calc_ctx a = Some c ->
  f1_region a = false -> f12_region a = false -> f21_region a = false ->
  suffices a (c_desired c) (knob_after a c) = true.
Proof. exact target_suffices. Qed.
Print Assumptions C07_target_suffices.

(* the three regions are genuine: the faithful model violates the statement on each (known findings) *)
Theorem C07_target_suffices_refuted_F1 :
  exists a c, wf a (IPct 99) /\ calc_ctx a = Some c /\ f1_region a = true /\ suffices a (c_desired c) (knob_after a c) = false.
Proof. exact f1_refutes. Qed.
Theorem C07_target_suffices_refuted_F12 :
  exists a c, wf a (IInt 20) /\ calc_ctx a = Some c /\ f12_region a = true /\ suffices a (c_desired c) (knob_after a c) = false.
Proof. exact f12_refutes_suffices. Qed.
Theorem C07_target_suffices_refuted_F21 :
  exists a c, wf a (IInt 15) /\ calc_ctx a = Some c /\ f21_region a = true /\ suffices a (c_desired c) (knob_after a c) = false.
Proof. exact f21_refutes. Qed.
Print Assumptions C07_target_suffices_refuted_F1.

(* ---------- Part "it never waits on a wake-up that will not come" ----------
   A reconcile that changes nothing, reports no error and asks for no requeue will not run again by itself.  The theorems
   below say, for the Rollout reconcile (canary and blue-green) and the BatchRelease reconcile, for EVERY persisted state
   and observation: such a quiet reconcile happens only while the next move is somebody else's -- and the two controllers
   are never each the other's "somebody else" at the same time. *)
From RV Require Model.RolloutSM Model.RolloutBG Model.BRExec Model.Loop Corr.RolloutSM Corr.RolloutBG Corr.BRExec
                Proofs.RolloutSM Proofs.RolloutBG Proofs.BRExec Proofs.Loop.

(* canary: rolling, no user request pending, the BatchRelease's rollout-id aligned.  Cursor, Progressing reason and
   BatchRelease unchanged and no requeue  ==>  the workload is missing / lagging, or the step waits for its BatchRelease
   to report Ready (plan in place), for an approval (pause without duration, not the 100% last step), or sits in a
   hand-written state *)
Theorem C07_quiet_rolling_is_waiting :
  forall sp st w br m u x y,
  RolloutSM.reconcile sp st w br = RolloutSM.ROut m ->
  RolloutSM.rp_phase st = RolloutSM.RpProgressing -> RolloutSM.rs_deleting sp = false ->
  RolloutSM.rp_prog st = Some (RolloutSM.PrInRolling, x, y) -> RolloutSM.rp_sub st = Some u ->
  (RolloutSM.su_next u = RolloutSM.next_index (RolloutSM.nsteps sp) (RolloutSM.su_idx u) \/ RolloutSM.su_next u <= 0) ->
  (sempty (RolloutSM.su_hash u) = true \/ RolloutSM.su_hash u = RolloutSM.rs_hash sp) ->
  RolloutSM.wl_canary w = RolloutSM.su_canary_rev u ->
  Corr.RolloutSM.synced_br (Corr.RolloutSM.observed_sub w u) br = br ->
  RolloutSM.o_requeue m = false -> RolloutSM.o_br m = br ->
  (forall s', RolloutSM.o_status m = Some s' -> RolloutSM.rp_prog s' = RolloutSM.rp_prog st /\
     exists v, RolloutSM.rp_sub s' = Some v /\ RolloutSM.su_idx v = RolloutSM.su_idx u /\ RolloutSM.su_state v = RolloutSM.su_state u) ->
  RolloutSM.o_status m <> None ->
  RolloutSM.wl_exists w = false \/ RolloutSM.wl_consistent w = false \/
  Corr.RolloutSM.waits_rolling sp (Corr.RolloutSM.observed_sub w u) w br = true.
Proof. exact Proofs.RolloutSM.quiet_rolling_is_waiting. Qed.
Print Assumptions C07_quiet_rolling_is_waiting.

(* the other Progressing reasons: initialising, finalising, cancelling always requeue or move on; only "paused by the user"
   and an unknown reason are quiet *)
Theorem C07_quiet_progressing_is_waiting :
  forall sp st w br m reason x y,
  RolloutSM.reconcile sp st w br = RolloutSM.ROut m ->
  RolloutSM.rp_phase st = RolloutSM.RpProgressing -> RolloutSM.rs_deleting sp = false ->
  RolloutSM.rp_prog st = Some (reason, x, y) -> reason <> RolloutSM.PrInRolling ->
  RolloutSM.wl_exists w = true -> RolloutSM.wl_consistent w = true ->
  RolloutSM.o_requeue m = false ->
  (forall s', RolloutSM.o_status m = Some s' -> RolloutSM.rp_prog s' = RolloutSM.rp_prog st /\ RolloutSM.rp_phase s' = RolloutSM.rp_phase st) ->
  RolloutSM.o_status m <> None ->
  (reason = RolloutSM.PrPaused /\ RolloutSM.rs_paused sp = true) \/ reason = RolloutSM.PrOther.
Proof. exact Proofs.RolloutSM.quiet_progressing_is_waiting. Qed.
Print Assumptions C07_quiet_progressing_is_waiting.

(* blue-green: the same, without the shortcut out of the last pause *)
Theorem C07_bluegreen_quiet_rolling_is_waiting :
  forall sp st w br m u x y,
  RolloutBG.reconcile_bg sp st w br = RolloutSM.ROut m ->
  RolloutSM.rp_phase st = RolloutSM.RpProgressing -> RolloutSM.rs_deleting sp = false ->
  RolloutSM.rp_prog st = Some (RolloutSM.PrInRolling, x, y) -> RolloutSM.rp_sub st = Some u ->
  (RolloutSM.su_next u = RolloutSM.next_index (RolloutSM.nsteps sp) (RolloutSM.su_idx u) \/ RolloutSM.su_next u <= 0) ->
  (sempty (RolloutSM.su_hash u) = true \/ RolloutSM.su_hash u = RolloutSM.rs_hash sp) ->
  RolloutSM.wl_canary w = RolloutSM.su_canary_rev u ->
  Corr.RolloutSM.synced_br (Corr.RolloutSM.observed_sub w u) br = br ->
  RolloutSM.o_requeue m = false -> RolloutSM.o_br m = br ->
  (forall s', RolloutSM.o_status m = Some s' -> RolloutSM.rp_prog s' = RolloutSM.rp_prog st /\
     exists v, RolloutSM.rp_sub s' = Some v /\ RolloutSM.su_idx v = RolloutSM.su_idx u /\ RolloutSM.su_state v = RolloutSM.su_state u) ->
  RolloutSM.o_status m <> None ->
  RolloutSM.wl_exists w = false \/ RolloutSM.wl_consistent w = false \/
  Corr.RolloutBG.waits_rolling_bg sp (Corr.RolloutSM.observed_sub w u) w br = true.
Proof. exact Proofs.RolloutBG.bg_quiet_rolling_is_waiting. Qed.
Print Assumptions C07_bluegreen_quiet_rolling_is_waiting.

(* the BatchRelease reconcile: quiet only when Completed, when the sync phase stopped for the workload / the Rollout, or
   when a Ready batch is held by batchPartition.  (Waiting for pods is never quiet: a batch that is not ready returns an
   error and is retried with back-off.) *)
Theorem C07_quiet_batchrelease_is_waiting :
  forall sp st w r,
  BRExec.reconcile sp st w = Some r -> BRExec.r_finalizer r = true ->
  BRExec.r_requeue r = BRExec.RqNone -> BRExec.r_err r = false -> BRExec.status_eqb st (BRExec.r_status r) = true ->
  Corr.BRExec.waits_br sp st w = true.
Proof. exact Proofs.BRExec.br_quiet_is_waiting. Qed.
Print Assumptions C07_quiet_batchrelease_is_waiting.

(* no circular wait: a BatchRelease controller that quietly holds a Ready batch at batchPartition (Progressing, sync did
   not stop) is looked at by a Rollout controller whose upgrade gate is open, whatever step it is on: by
   C07_quiet_rolling_is_waiting a Rollout in StepUpgrade is then not quiet *)
Theorem C07_no_mutual_wait :
  forall rsp u wl bsp bst cs r rid pol anno,
  BRExec.reconcile bsp bst cs = Some r -> BRExec.r_finalizer r = true -> BRExec.r_requeue r = BRExec.RqNone -> BRExec.r_err r = false ->
  BRExec.status_eqb bst (BRExec.r_status r) = true ->
  BRExec.bs_phase bst = BRExec.PhProgressing -> BRExec.sp_deleting bsp = false ->
  snd (BRExec.sync_status bsp bst cs) = false ->
  Corr.RolloutSM.br_waiting rsp u wl (Some (Loop.br_view bsp bst rid pol anno)) = false.
Proof. exact Proofs.Loop.no_mutual_wait. Qed.
Print Assumptions C07_no_mutual_wait.

(* stronger, and what the BatchRelease controller needs: its watch ignores updates of its own status, so a status change is no
   wake-up.  A reconcile that returns neither error nor requeue has written the workload (whose event comes back) or leaves
   a state in which there is nothing left to do. *)
Theorem C07_batchrelease_without_requeue_is_settled :
  forall sp st w r,
  BRExec.reconcile sp st w = Some r -> BRExec.r_finalizer r = true -> BRExec.r_requeue r = BRExec.RqNone -> BRExec.r_err r = false ->
  Corr.BRExec.wl_eqb w (BRExec.r_workload r) = false \/ Corr.BRExec.waits_br sp (BRExec.r_status r) (BRExec.r_workload r) = true.
Proof. exact Proofs.BRExec.br_no_self_wake_means_settled. Qed.
Print Assumptions C07_batchrelease_without_requeue_is_settled.

(* ---------- the wake-ups come (Model/Events.v: the controllers' event handlers) ---------- *)
From RV Require Model.Events Proofs.Events.
(* the BatchRelease controller stops for a workload whose controller has not caught up (observedGeneration < generation); when
   the workload controller catches up, the workload's BatchRelease is enqueued *)
Theorem C07_workload_catching_up_wakes_its_batchrelease : forall brs old new n,
  Events.wo_ctl new = Events.CiBatchRelease n -> sempty n = false -> Events.wo_rv new <> Events.wo_rv old ->
  Events.ws_obs_gen (Events.wo_status old) <> Events.ws_obs_gen (Events.wo_status new) ->
  Events.br_on_workload_update brs old new = [n].
Proof. exact Proofs.Events.workload_catching_up_wakes_its_batchrelease. Qed.
Print Assumptions C07_workload_catching_up_wakes_its_batchrelease.
Theorem C07_claimed_workload_change_wakes_its_batchrelease : forall brs old new n,
  Events.wo_ctl new = Events.CiBatchRelease n -> sempty n = false -> Events.wo_rv new <> Events.wo_rv old ->
  (Events.wo_gen old <> Events.wo_gen new \/ Events.wstatus_eqb (Events.wo_status old) (Events.wo_status new) = false) ->
  Events.br_on_workload_update brs old new = [n].
Proof. exact Proofs.Events.claimed_workload_change_wakes_its_batchrelease. Qed.
Print Assumptions C07_claimed_workload_change_wakes_its_batchrelease.
Theorem C07_pod_readiness_change_wakes_the_batchrelease : forall brs w old new n,
  Events.wo_ctl w = Events.CiBatchRelease n -> sempty n = false -> Events.po_rv old <> Events.po_rv new -> Events.po_ready old <> Events.po_ready new ->
  Events.br_on_pod_update brs (Some w) old new = [n].
Proof. exact Proofs.Events.pod_readiness_change_wakes_the_batchrelease. Qed.
Print Assumptions C07_pod_readiness_change_wakes_the_batchrelease.
(* the Rollout controller waiting for its BatchRelease (C07_quiet_rolling_is_waiting) is woken by every update of it, and by
   every event of the workload it references *)
Theorem C07_batchrelease_update_wakes_its_rollout : forall name, Events.ro_on_batchrelease_event Events.EvUpdate name = [name].
Proof. exact Proofs.Events.batchrelease_update_wakes_its_rollout. Qed.
Print Assumptions C07_batchrelease_update_wakes_its_rollout.
Theorem C07_workload_event_wakes_a_referencing_rollout : forall ros w r, In r ros -> Events.ro_targets w r = true ->
  exists r', Events.ro_on_workload_event ros w = [Events.rf_name r'] /\ In r' ros /\ Events.ro_targets w r' = true.
Proof. exact Proofs.Events.workload_event_wakes_a_referencing_rollout. Qed.
Print Assumptions C07_workload_event_wakes_a_referencing_rollout.

(* the TrafficRouting controller watches only its own objects: a reconcile that leaves an object in the Finalizing phase
   without an error has asked for a requeue (otherwise nothing would ever finish the clean-up) *)
From RV Require Model.TRCtl Proofs.TRCtl.
Theorem C07_trafficrouting_finalizing_never_goes_quiet : forall o n g,
  TRCtl.to_deleting o = false -> TRCtl.ro_phase (TRCtl.tr_reconcile o n g) = TRCtl.TpFinalizing -> TRCtl.ro_err (TRCtl.tr_reconcile o n g) = false ->
  TRCtl.ro_requeue (TRCtl.tr_reconcile o n g) = true \/ TRCtl.to_phase o <> TRCtl.TpFinalizing.
Proof. exact Proofs.TRCtl.tr_finalizing_never_goes_quiet. Qed.
Print Assumptions C07_trafficrouting_finalizing_never_goes_quiet.
