(* C04 — No request is ever routed into a void.  Statements only.
   The finalising orders are the ones gen/TaskTables.v re-derives from nextCanaryTask / nextBlueGreenTask on every run. *)
From RV Require Import Base.Util Base.IntStr Model.RolloutSM Model.TrafficMgr Model.RolloutTR Corr.RolloutSM Corr.RolloutTR
  Proofs.RolloutSM Proofs.RolloutTR gen.TaskTables Proofs.Finalising.

(* the order the reconcile model runs is the order found in the source *)
Theorem C04_model_runs_the_source_order : forall r, canary_tasks r = map to_ftask (canary_order (to_reason r)).
Proof. exact tables_agree. Qed.
Print Assumptions C04_model_runs_the_source_order.

(* routes are withdrawn before the Service they point to is removed -- every exit reason, canary and blue-green *)
Theorem C04_route_withdrawn_before_service_removed :
  forallb (fun r => before TRouteStable TRemoveCanarySvc (canary_order r) && before TRouteStable TRemoveCanarySvc (bluegreen_order r)) all_reasons = true.
Proof. exact route_withdrawn_before_service_removed. Qed.
Print Assumptions C04_route_withdrawn_before_service_removed.

(* the stable Service is un-pinned before the workload is resumed and the last stable pod replaced; on rollback, where the
   new pods go away, the route to them is withdrawn first *)
Theorem C04_unpinned_before_pods_replaced :
  forallb (fun r => match r with
                    | RRollback => before TRouteStable TResume (canary_order r) && before TRouteStable TResume (bluegreen_order r)
                    | _ => before TRestoreStable TResume (canary_order r) && before TRestoreStable TResume (bluegreen_order r)
                    end) all_reasons = true.
Proof. exact unpinned_before_pods_replaced. Qed.
Print Assumptions C04_unpinned_before_pods_replaced.

(* every order performs each of the five cleanup tasks exactly once *)
Theorem C04_every_order_is_complete : forallb (fun r => complete (canary_order r) && complete (bluegreen_order r)) all_reasons = true.
Proof. exact every_order_is_complete. Qed.
Print Assumptions C04_every_order_is_complete.

(* rolling: the gateway is touched only behind an existing canary Service and a pinned stable Service (C03 gives more) *)
Theorem C04_route_written_only_behind_canary_service : forall c n g, tc_only_traffic c = false ->
  no_route_writes (tr_writes (do_traffic_routing c n g)) \/
  (n_canary_svc n = Some (tc_canary_rev c) /\ n_stable_sel n = Some (tc_stable_rev c) /\ tc_last_update c <> Some false /\
   exists s, tr_writes (do_traffic_routing c n g) = [WRoute s] /\ (s = tc_strategy c \/ (n_route n = RNone /\ s = init_strategy))).
Proof. exact do_traffic_route_write. Qed.
Print Assumptions C04_route_written_only_behind_canary_service.

(* rolling: a step without traffic after one with traffic deletes the canary Service only once the route is gone *)
Theorem C04_service_deleted_after_route_in_rolling : forall c n g, tc_refs c = true ->
  In WDeleteCanarySvc (tr_writes (finalising_traffic_routing c n g)) -> n_route (apply_writes n (tr_writes (finalising_traffic_routing c n g))) = RNone.
Proof. exact finalising_traffic_service_after_route. Qed.
Print Assumptions C04_service_deleted_after_route_in_rolling.

(* rolling: a partition-style step that replaces every stable pod lets its pods be created only behind an un-pinned
   stable Service *)
Theorem C04_unpinned_before_full_step : forall t u w br cur n g o,
  canary_step_tr t u w br cur n g [] = CrOut o -> su_state u = StInit -> co_err o = false ->
  ts_refs t = true -> n_stable_exists n = true -> strategy_empty (tr_strategy t (su_idx u)) = false ->
  full_step w cur = true -> su_idx u <> 1 -> co_br o <> br -> unpinned (apply_writes n (co_writes o)).
Proof. exact canary_step_full_unpinned. Qed.
Print Assumptions C04_unpinned_before_full_step.

(* exits (success, rollback, delete, disable): along ANY sequence of finalising reconciles -- each finding an arbitrary
   workload observation, BatchRelease and in-memory grace state, failed reconciles included, i.e. at every possible crash
   point -- no route points at a missing canary Service, and when the sequence is over nothing is left *)
Theorem C04_finalising_never_routes_into_a_void : forall t r wr u n xs,
  ts_refs t = true -> Forall (fun x => wl_exists (fe_w x) = true) xs ->
  su_fin u = FtNone -> (n_route n <> RNone -> n_canary_svc n <> None) ->
  let '(u', n') := fin_run t r wr (u, n) xs in
  (n_route n' <> RNone -> n_canary_svc n' <> None) /\
  (su_fin u' = FtEnd -> n_route n' = RNone /\ n_canary_svc n' = None /\ (n_stable_exists n' = true -> unpinned n')).
Proof. exact finalising_history_safe. Qed.
Print Assumptions C04_finalising_never_routes_into_a_void.
