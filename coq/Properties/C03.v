(* C03 — Traffic follows pods: canary traffic only after canary pods are ready.  Statements only.
   reconcile_tr is the model of one Rollout reconcile with traffic routing (canary strategy, partition-style workload,
   gateway = Ingress); its arguments are ANY persisted status, workload observation, BatchRelease, network state and
   in-memory grace expectations -- so the statements cover every interleaving with other actors and every restart. *)
From RV Require Import Base.Util Base.IntStr Model.RolloutSM Model.TrafficMgr Model.RolloutTR Corr.RolloutSM Corr.RolloutTR
  Proofs.RolloutSM Proofs.RolloutTR.

(* (1) a reconcile writes to the gateway only while rolling, in the traffic-routing state of the current step (C02: that
   state is entered only after the BatchRelease for this step reported its pods Ready), with the stable Service already
   pinned to the stable revision, the canary Service in place, the grace period elapsed, and as its only network write *)
Theorem C03_route_written_only_after_pods_ready : forall t st w br n g r,
  reconcile_tr t st w br n g = TrOut r -> ~ no_route_writes (t_writes r) ->
  rp_phase st = RpProgressing /\ (exists s e, rp_prog st = Some (PrInRolling, s, e)) /\
  exists u0 x, rp_sub st = Some u0 /\ su_state u0 = StTraffic /\ su_elapsed u0 = true /\
               n_stable_sel n = Some (su_stable u0) /\ (exists c, n_canary_svc n = Some c) /\ t_writes r = [WRoute x].
Proof. exact route_written_only_after_ready. Qed.
Print Assumptions C03_route_written_only_after_pods_ready.

(* the traffic-routing state itself is reached only through the upgrade gate (restated from C02 for reference) *)
Theorem C03_traffic_state_entered_after_ready : forall sp u w br cur u' br' rq,
  get_step sp (su_idx u) = Some cur -> canary_step sp u w br cur = COut u' br' rq ->
  su_idx u' = su_idx u /\ su_state u' = su_state u \/ gated_sub sp u w br u' = true.
Proof. exact canary_step_gated. Qed.
Print Assumptions C03_traffic_state_entered_after_ready.

(* (2) when the release manager reports a step with traffic as routed (traffic-routing -> next state), nothing is written in
   that pass and the gateway carries exactly the step's strategy, behind a canary Service selecting the new revision and a
   stable Service pinned to the stable revision *)
Theorem C03_routed_means_exact : forall t u0 w br0 n g o,
  run_canary_tr t u0 w br0 n g = CrOut o -> su_state u0 = StTraffic -> co_err o = false -> su_state (co_sub o) = StMetrics ->
  ts_refs t = true -> strategy_empty (tr_strategy t (su_idx u0)) = false ->
  co_writes o = [] /\ n_stable_sel n = Some (su_stable u0) /\ n_canary_svc n = Some (su_pth (co_sub o)) /\
  (n_route n = RSet (tr_strategy t (su_idx u0)) \/ (n_route n = RNone /\ tr_strategy t (su_idx u0) = init_strategy)).
Proof. exact run_canary_routed. Qed.
Print Assumptions C03_routed_means_exact.

(* the manager level of (2): DoTrafficRouting says done only on an already-correct gateway and Services *)
Theorem C03_do_traffic_routing_done : forall c n g, tc_refs c = true -> tc_only_traffic c = false -> strategy_empty (tc_strategy c) = false ->
  tr_ok (do_traffic_routing c n g) = true ->
  tr_writes (do_traffic_routing c n g) = [] /\ n_canary_svc n = Some (tc_canary_rev c) /\ n_stable_sel n = Some (tc_stable_rev c) /\
  (n_route n = RSet (tc_strategy c) \/ (n_route n = RNone /\ tc_strategy c = init_strategy)).
Proof. exact do_traffic_done. Qed.
Print Assumptions C03_do_traffic_routing_done.

(* (3) when the first step configures traffic, the pass that creates or re-targets the BatchRelease for it (and so lets its
   pods be created) leaves the stable Service pinned to the stable revision *)
Theorem C03_stable_pinned_before_first_pods : forall t u w br cur n g o,
  canary_step_tr t u w br cur n g [] = CrOut o -> su_state u = StInit -> su_idx u = 1 -> co_err o = false ->
  ts_refs t = true -> n_stable_exists n = true -> su_stable u <> ""%string ->
  strategy_empty (tr_strategy t 1) = false -> full_step w cur = false ->
  co_br o <> br -> n_stable_sel (apply_writes n (co_writes o)) = Some (su_stable u).
Proof. exact canary_step_first_pinned. Qed.
Print Assumptions C03_stable_pinned_before_first_pods.

(* step jumps: a jump lands in the traffic-routing state only between steps that call for the same replicas AND from a step
   that is past its own upgrade (its pods -- the same number -- were reported ready, C02); otherwise it restarts at StepInit, so
   that the target step's pods are upgraded and ready before its route is written.  The second condition is the repair of F14. *)
Theorem C03_jump_reaches_traffic_routing_only_between_equal_replicas : forall sp u u' cur nx,
  RolloutSM.do_jump sp u = Some (Some u') ->
  RolloutSM.get_step sp (RolloutSM.su_idx u) = Some cur -> RolloutSM.get_step sp (RolloutSM.su_next u) = Some nx ->
  RolloutSM.su_idx u' = RolloutSM.su_next u /\
  (RolloutSM.su_state u' = RolloutSM.StTraffic ->
     ios_eqb (RolloutSM.sp_replicas nx) (RolloutSM.sp_replicas cur) = true /\
     RolloutSM.su_state u <> RolloutSM.StInit /\ RolloutSM.su_state u <> RolloutSM.StUpgrade) /\
  (RolloutSM.su_state u' = RolloutSM.StTraffic \/ RolloutSM.su_state u' = RolloutSM.StInit).
Proof. exact Proofs.RolloutTR.jump_routes_only_between_equal_replicas. Qed.
Print Assumptions C03_jump_reaches_traffic_routing_only_between_equal_replicas.

(* blue-green releases: one reconcile brings a step from Init / Upgrade to its traffic-routing state only when the
   BatchRelease reports this step's batch Ready for exactly this step's plan (Verifying or Upgrading do not count) *)
From RV Require Model.RolloutBG Proofs.RolloutBG.
Theorem C03_bluegreen_traffic_step_only_behind_ready_pods : forall sp st w br m u x y,
  RolloutBG.reconcile_bg sp st w br = RolloutSM.ROut m ->
  RolloutSM.rp_phase st = RolloutSM.RpProgressing -> RolloutSM.rs_deleting sp = false ->
  RolloutSM.rp_prog st = Some (RolloutSM.PrInRolling, x, y) -> RolloutSM.rp_sub st = Some u ->
  (RolloutSM.su_next u = RolloutSM.next_index (RolloutSM.nsteps sp) (RolloutSM.su_idx u) \/ RolloutSM.su_next u <= 0) ->
  (sempty (RolloutSM.su_hash u) = true \/ RolloutSM.su_hash u = RolloutSM.rs_hash sp) ->
  RolloutSM.wl_canary w = RolloutSM.su_canary_rev u ->
  forall s' v, RolloutSM.o_status m = Some s' -> RolloutSM.rp_sub s' = Some v ->
  (RolloutSM.su_state u = RolloutSM.StInit \/ RolloutSM.su_state u = RolloutSM.StUpgrade) -> RolloutSM.su_state v = RolloutSM.StTraffic ->
  RolloutSM.br_ready_for sp (RolloutSM.observed_sub w u) w (RolloutSM.synced_br (RolloutSM.observed_sub w u) br) = true.
Proof. exact Proofs.RolloutBG.bg_traffic_only_behind_ready_pods. Qed.
Print Assumptions C03_bluegreen_traffic_step_only_behind_ready_pods.
