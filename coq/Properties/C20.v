(* C20 — API versions convert without losing what the user wrote.  Statements only. *)
From RV Require Import Base.Util Base.IntStr Model.Conversion Corr.Conversion Proofs.Conversion.

(* a v1alpha1 Rollout (any optional block absent or present, any step list, weights in the schema's 0..100)
   stored as v1beta1 reads back through v1alpha1 with the same meaning *)
Theorem C20_alpha_roundtrip_rollout :
  forall a, weights_ok a -> exists b a', rollout_to_beta a = Ok b /\ rollout_to_alpha b = Ok a' /\ alpha_same a a' = true.
Proof. exact rollout_alpha_roundtrip. Qed.
Print Assumptions C20_alpha_roundtrip_rollout.

Theorem C20_alpha_roundtrip_batchrelease :
  forall a, In (ab_rolling a) [""; "Canary"; "Partition"; "BlueGreen"] ->
  exists b, br_to_beta a = Ok b /\ br_same a (br_to_alpha b) = true.
Proof. exact br_alpha_roundtrip. Qed.
Print Assumptions C20_alpha_roundtrip_batchrelease.

(* a canary-strategy v1beta1 Rollout restricted to v1alpha1-expressible fields survives read-modify-write *)
Theorem C20_beta_rmw :
  forall b, beta_expressible b = true -> exists a b', rollout_to_alpha b = Ok a /\ rollout_to_beta a = Ok b' /\ beta_rmw b b' = true.
Proof. exact rollout_beta_rmw. Qed.
Print Assumptions C20_beta_rmw.

(* converting never crashes *)
Theorem C20_total :
  (forall a, rollout_to_beta a <> Panic) /\ (forall b, rollout_to_alpha b <> Panic) /\ (forall a, br_to_beta a <> Panic).
Proof. exact conversion_total. Qed.
Print Assumptions C20_total.
