(* C10 — Rollback and supersession put traffic back on stable first.  Dispatch part (which branch a reconcile
   takes and in which order it touches BatchRelease and status); the order of the finalising tasks themselves
   is the subject of C04.  Statements only. *)
From RV Require Import Base.Util Base.IntStr Model.RolloutSM Corr.RolloutSM Proofs.RolloutSM.

(* a workload reverted to its stable revision: the reconcile switches to Cancelling and touches nothing else;
   the cancellation sequence (canary_tasks FrRollback) starts with RouteTrafficToStable *)
Theorem C10_rollback_cancels_first :
  forall sp st w br m u x y,
  reconcile sp st w br = ROut m ->
  rp_phase st = RpProgressing -> rs_deleting sp = false ->
  rp_prog st = Some (PrInRolling, x, y) -> rp_sub st = Some u ->
  wl_exists w = true -> wl_consistent w = true ->
  wl_in_rollback w = true -> wl_canary w <> su_canary_rev u -> rs_rollback_in_batch sp = false ->
  o_br m = br /\ exists s' e, o_status m = Some s' /\ rp_prog s' = Some (PrCancelling, true, e).
Proof. exact rollback_cancels_first. Qed.
Print Assumptions C10_rollback_cancels_first.

Theorem C10_rollback_order_routes_first : hd FtEnd (canary_tasks FrRollback) = FtRouteStable /\
  forall t, In t [FtResume; FtRelease] -> exists pre post, canary_tasks FrRollback = pre ++ t :: post /\ In FtRouteStable pre.
Proof. split; [reflexivity|]. intros t [<-|[<-|[]]]; cbn.
  - exists [FtRouteStable], [FtRelease; FtRestoreStable; FtRemoveCanarySvc]. split; [reflexivity|left; reflexivity].
  - exists [FtRouteStable; FtResume], [FtRestoreStable; FtRemoveCanarySvc]. split; [reflexivity|left; reflexivity]. Qed.
Print Assumptions C10_rollback_order_routes_first.

(* a newer revision supersedes the one being released: the BatchRelease is deleted first and the status is reset to
   Initializing (step one) only once it is gone *)
Theorem C10_supersession_resets_after_cleanup :
  forall sp st w br m u x y,
  reconcile sp st w br = ROut m ->
  rp_phase st = RpProgressing -> rs_deleting sp = false -> rs_paused sp = false ->
  rp_prog st = Some (PrInRolling, x, y) -> rp_sub st = Some u ->
  wl_exists w = true -> wl_consistent w = true ->
  wl_in_rollback w = false -> sempty (su_canary_rev u) = false -> wl_canary w <> su_canary_rev u ->
  match br with
  | Some b => o_br m = Some (mark_deleting b) /\ exists s', o_status m = Some s' /\ rp_sub s' <> None /\ o_requeue m = true
  | None => o_br m = None /\ exists s' e, o_status m = Some s' /\ rp_sub s' = None /\ rp_prog s' = Some (PrInitializing, true, e)
  end.
Proof. exact supersession_resets_after_cleanup. Qed.
Print Assumptions C10_supersession_resets_after_cleanup.
